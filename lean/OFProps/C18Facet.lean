import OFProps.FacetNamesLemmas
/-!
# C18 — the facet of a lineage event can always be built: field names (`lineage.facet_field_name`, commit d56dae2)

`_emit_event` swallows every exception, so an event whose facet dataclass cannot be built is LOST; for the START event that is a
malformed history (`RUNNING … COMPLETE`).  `make_dataclass` raises for a field name that is not an identifier, is a keyword, or
occurs twice.  The theorems below say that this cannot happen for ANY list of keys (any strings: empty, non-ASCII, keywords, the
names of the fixed fields, duplicates, keys that collide only after the replacement of characters).

Quantifier: every list of keys `keys : List (List Char)`, every `taken`.  Nothing is assumed about the keys; in particular not that
they are distinct (they are, as keys of a Python dict) nor that they went through `normalize_facet_keys`.

Special attribute names: a field called `__init__`, `__post_init__`, `__slots__`, `__annotations__`, `__setattr__`, `__new__`,
`__getattribute__`, `__qualname__`, `__dict__` passes the name checks of `make_dataclass` but breaks the class or its instantiation.
d56dae2 let such a name through when the key (after the character replacement) WAS that name (`{'._init__': 1}`, `{'-_init__': 1}`,
`{'_': {'__init__': 1}}`: event lost; found by this tie, fixed by `C18-facet-dunder-names`: a name that starts with `__` keeps one
underscore).  `C18_facet_no_dunder`: no produced name has the form `__…__`; `C18_facet_double_underscore_is_counter`: the only
produced names that START with `__` are `__2`, `__3`, … (base name `_` already taken), which end in a digit.
`C18_facet_d56_dunder_witness` is the kernel-checked negative witness for the naming of d56dae2 (`facetFieldsD56`).
-/
namespace OF.FacetNames

/-! ## one name -/

/-- **the fuel suffices**: the bounded loop of the model (fuel `taken.length + 1`) ends because it found a name that is not taken,
never because the fuel ran out, and any larger fuel gives the same name - the model's loop IS the unbounded `while name in taken`. -/
theorem C18_facet_fuel_suffices (base : Key) (taken : List Key) :
    pick base taken (taken.length + 1) 2 ∉ taken ∧
    ∀ k, pick base taken (taken.length + 1 + k) 2 = pick base taken (taken.length + 1) 2 :=
  ⟨pick_fresh base _ taken 2 (Nat.lt_succ_self _), pick_fuel_stable base taken _ 2 (Nat.lt_succ_self _)⟩

/-- the name is not in `taken` -/
theorem C18_facet_name_unused (key : Key) (taken : List Key) : facetFieldName key taken ∉ taken :=
  pickName_fresh _ taken

/-- the name is an ASCII identifier -/
theorem C18_facet_name_identifier (key : Key) (taken : List Key) : isIdentifier (facetFieldName key taken) = true :=
  pickName_identifier _ taken (baseName_identifier key)

/-- the name is not a Python keyword -/
theorem C18_facet_name_not_keyword (key : Key) (taken : List Key) : isKeyword (facetFieldName key taken) = false :=
  pickName_not_keyword _ taken (baseName_not_keyword key)

/-- (f) no gratuitous renaming: a key that is an identifier, not a keyword, does not start with `__` and is not taken is its own
field name -/
theorem C18_facet_name_kept (key : Key) (taken : List Key) (hi : isIdentifier key = true) (hk : isKeyword key = false)
    (hd : startsDU key = false) (ht : key ∉ taken) : facetFieldName key taken = key := by
  unfold facetFieldName
  rw [baseName_id key hi hk hd]
  exact pickName_id key taken ht

/-- the name never has the form `__…__` (the form of the special attributes `__init__`, `__slots__`, `__dict__`, …) -/
theorem C18_facet_name_no_dunder (key : Key) (taken : List Key) : isDunder (facetFieldName key taken) = false := by
  rcases pickName_cases (baseName key) taken with e | ⟨m, _, e⟩
  · unfold facetFieldName; rw [e]; exact isDunder_startsDU _ (baseName_not_startsDU key)
  · unfold facetFieldName; rw [e]; exact candidate_not_dunder _ m

/-- a name that starts with two underscores is `__m`, `m ≥ 2`: the counter suffix on the base name `_` (which was taken) -/
theorem C18_facet_double_underscore_is_counter (key : Key) (taken : List Key) (h : startsDU (facetFieldName key taken) = true) :
    ∃ m, 2 ≤ m ∧ facetFieldName key taken = candidate ['_'] m := by
  rcases pickName_cases (baseName key) taken with e | ⟨m, hm, e⟩
  · unfold facetFieldName at h; rw [e, baseName_not_startsDU] at h; cases h
  · refine ⟨m, hm, ?_⟩
    unfold facetFieldName at h ⊢
    rw [e] at h ⊢
    have hb := baseName_not_startsDU key
    have hi := baseName_identifier key
    rcases (isIdentifier_iff _).1 hi with ⟨c, r, hcr, _, _⟩
    rw [hcr] at h hb ⊢
    cases r with
    | nil =>
      simp only [candidate, List.cons_append, List.nil_append, startsDU] at h
      split at h
      · rename_i heq; simp only [List.cons.injEq] at heq; rw [heq.1]
      · cases h
    | cons c2 r2 =>
      simp only [candidate, List.cons_append, startsDU] at h hb
      split at h
      · rename_i heq
        simp only [List.cons.injEq] at heq
        rw [heq.1, heq.2.1] at hb
        simp at hb
      · cases h

/-- the name is the base name, or `base_m` with `m ≥ 2` -/
theorem C18_facet_name_shape (key : Key) (taken : List Key) :
    facetFieldName key taken = baseName key ∨ ∃ m, 2 ≤ m ∧ facetFieldName key taken = candidate (baseName key) m :=
  pickName_cases _ taken

/-! ## all the names of one facet -/

/-- (e) one field per key: nothing is dropped -/
theorem C18_facet_count (keys : List Key) : (facetFields keys).length = keys.length :=
  fieldsWith_length _ keys _

/-- (a) the field names are pairwise distinct -/
theorem C18_facet_distinct (keys : List Key) : (facetFields keys).Nodup :=
  (fieldsWith_fresh _ C18_facet_name_unused keys fixedFields).2

/-- (b) none is the name of a fixed field (`_producer`, `schemaURL`, `type`) -/
theorem C18_facet_not_fixed (keys : List Key) : ∀ n ∈ facetFields keys, n ∉ fixedFields :=
  (fieldsWith_fresh _ C18_facet_name_unused keys fixedFields).1

/-- (c) each is non-empty, consists of ASCII letters, digits and `_`, and does not start with a digit -/
theorem C18_facet_identifiers (keys : List Key) : ∀ n ∈ facetFields keys, isIdentifier n = true :=
  fieldsWith_all _ (fun n => isIdentifier n = true) C18_facet_name_identifier keys fixedFields

/-- (d) none is a Python keyword -/
theorem C18_facet_no_keywords (keys : List Key) : ∀ n ∈ facetFields keys, isKeyword n = false :=
  fieldsWith_all _ (fun n => isKeyword n = false) C18_facet_name_not_keyword keys fixedFields

/-- (f) at its position: a key that is an identifier, not a keyword, does not start with `__`, is not a fixed field and not among the
names given to the keys before it, is its own field name -/
theorem C18_facet_kept (pre post : List Key) (key : Key) (hi : isIdentifier key = true) (hk : isKeyword key = false)
    (hd : startsDU key = false) (hf : key ∉ fixedFields) (hp : key ∉ facetFields pre) :
    ∃ rest, facetFields (pre ++ key :: post) = facetFields pre ++ key :: rest := by
  rcases fieldsWith_append facetFieldName pre fixedFields key post with ⟨t2, h1, h2⟩
  have hnot : key ∉ t2 := by
    intro hin
    rcases (h1 key).1 hin with h | h
    · exact hf h
    · exact hp h
  have e := C18_facet_name_kept key t2 hi hk hd hnot
  refine ⟨fieldsWith facetFieldName (key :: t2) post, ?_⟩
  unfold facetFields facetFieldsFrom
  rw [h2, e]

/-- (f) for a whole facet: keys that are distinct identifiers, not keywords, not fixed fields and do not start with `__` are ALL kept -/
theorem C18_facet_all_kept (keys : List Key) (hnd : keys.Nodup)
    (h : ∀ k ∈ keys, isIdentifier k = true ∧ isKeyword k = false ∧ startsDU k = false ∧ k ∉ fixedFields) : facetFields keys = keys := by
  apply fieldsWith_id facetFieldName (fun k => isIdentifier k = true ∧ isKeyword k = false ∧ startsDU k = false) _ keys fixedFields hnd
  · intro k hk
    exact ⟨⟨(h k hk).1, (h k hk).2.1, (h k hk).2.2.1⟩, (h k hk).2.2.2⟩
  · intro k taken hg ht
    exact C18_facet_name_kept k taken hg.1 hg.2.1 hg.2.2 ht

/-- no field name of the facet dataclass - produced or fixed - has the form `__…__`: none is a special attribute name -/
theorem C18_facet_no_dunder (keys : List Key) : ∀ n ∈ allFields keys, isDunder n = false := by
  intro n hn
  unfold allFields at hn
  rcases List.mem_append.1 hn with h | h
  · exact fieldsWith_all facetFieldName (fun n => isDunder n = false) C18_facet_name_no_dunder keys fixedFields n h
  · have : (fixedFields.all fun n => !isDunder n) = true := by decide
    rw [List.all_eq_true] at this
    simpa using this n h

theorem fixedFields_ok : makeDataclassOK fixedFields = true := by decide

theorem makeDataclassOK_iff (names : List Key) :
    makeDataclassOK names = true ↔ names.Nodup ∧ ∀ n ∈ names, isIdentifier n = true ∧ isKeyword n = false := by
  unfold makeDataclassOK
  rw [Bool.and_eq_true, nodupB_iff, List.all_eq_true]
  constructor
  · rintro ⟨h1, h2⟩
    refine ⟨h1, fun n hn => ?_⟩
    have := h2 n hn
    simpa using this
  · rintro ⟨h1, h2⟩
    refine ⟨h1, fun n hn => ?_⟩
    have := h2 n hn
    simpa using this

/-- **C18 (no event is lost to a field name)**: for EVERY list of keys the field list of the facet dataclass - the names given to
the keys followed by the fixed fields - passes the name checks of `make_dataclass`: pairwise distinct, identifiers, no keyword. -/
theorem C18_facet_event_never_dropped_for_names (keys : List Key) : makeDataclassOK (allFields keys) = true := by
  rw [makeDataclassOK_iff]
  have hfix := (makeDataclassOK_iff fixedFields).1 fixedFields_ok
  unfold allFields
  constructor
  · rw [List.nodup_append]
    exact ⟨C18_facet_distinct keys, hfix.1, fun a ha b hb hab => C18_facet_not_fixed keys a ha (hab ▸ hb)⟩
  · intro n hn
    rcases List.mem_append.1 hn with h | h
    · exact ⟨C18_facet_identifiers keys n h, C18_facet_no_keywords keys n h⟩
    · exact hfix.2 n h

/-- the same in the order of the task statement (`makeDataclassOK` does not depend on the order) -/
theorem C18_facet_event_never_dropped_fixed_first (keys : List Key) :
    makeDataclassOK (fixedFields ++ facetFields keys) = true := by
  have h := (makeDataclassOK_iff _).1 (C18_facet_event_never_dropped_for_names keys)
  rw [makeDataclassOK_iff]
  unfold allFields at h
  constructor
  · rw [List.nodup_append] at h ⊢
    exact ⟨h.1.2.1, h.1.1, fun a ha b hb hab => h.1.2.2 b hb a ha hab.symm⟩
  · intro n hn
    apply h.2 n
    rcases List.mem_append.1 hn with h1 | h1
    · exact List.mem_append_right _ h1
    · exact List.mem_append_left _ h1

/-- … and for every facet dict (whatever it contains, however deeply nested): one field per flattened key plus the three fixed ones,
all of them acceptable, none a special attribute name -/
theorem C18_facet_event_never_dropped (d : Dict) :
    makeDataclassOK (eventFields d) = true ∧ (∀ n ∈ eventFields d, isDunder n = false) ∧
    (eventFields d).length = (facetKeys d).length + 3 := by
  refine ⟨C18_facet_event_never_dropped_for_names _, C18_facet_no_dunder _, ?_⟩
  unfold eventFields allFields
  rw [List.length_append, C18_facet_count]
  rfl

/-! ## non-vacuity, tests and negative witnesses -/

private def s (l : List String) : List Key := l.map String.toList

/-- TEST (samples): names given to keys that need every rule: character replacement, empty key, leading digit, keyword, reserved
name, collisions created by the replacement, a collision with an earlier `_2` name -/
example : facetFields (s ["opts__a-b", "type", "class", "x.y", "9x", "", "type_2", "a_b", "a-b", "a.b", "é", "ok"])
    = s ["opts__a_b", "type_2", "class_", "x_y", "_9x", "_", "type_2_2", "a_b", "a_b_2", "a_b_3", "__2", "ok"] := by
  decide +kernel

/-- non-vacuity of `C18_facet_all_kept`: its hypotheses hold for ordinary keys -/
example : facetFields (s ["frames_processed", "fps", "det_count_histogram__buckets"])
    = s ["frames_processed", "fps", "det_count_histogram__buckets"] := by
  decide +kernel

/-- non-vacuity of `C18_facet_kept`: `threshold` keeps its name although the key before it had to be renamed -/
example : facetFields (s ["a-b", "threshold"]) = s ["a_b", "threshold"] := by decide +kernel

/-- the hypothesis `key ∉ facetFields pre` of `C18_facet_kept` is needed: an earlier key may have been mapped onto the name -/
example : facetFields (s ["a-b", "a_b"]) = s ["a_b", "a_b_2"] := by decide +kernel

/-- NEGATIVE witnesses: the naming before the repair (every key is its own field name) fails the name checks -/
example : makeDataclassOK (s ["opts__a-b"] ++ fixedFields) = false := by decide +kernel
example : makeDataclassOK (s ["type"] ++ fixedFields) = false := by decide +kernel
example : makeDataclassOK (s ["class"] ++ fixedFields) = false := by decide +kernel
example : makeDataclassOK (s ["x.y"] ++ fixedFields) = false := by decide +kernel
example : makeDataclassOK (s ["9x"] ++ fixedFields) = false := by decide +kernel
example : makeDataclassOK (s [""] ++ fixedFields) = false := by decide +kernel
/-- … and the same keys after the repair -/
example : allFields (s ["opts__a-b", "type", "class"]) = s ["opts__a_b", "type_2", "class_", "_producer", "schemaURL", "type"] := by
  decide +kernel

/-- TEST: `normalize_facet_keys` + `flatten_dict`: nested dicts, an empty parent key, keys that collide after normalisation
(`Threshold` / `threshold`), an empty nested dict -/
example : facetKeys [("Threshold".toList, .leaf), ("opts".toList, .dict [("a-b".toList, .leaf), ("".toList, .dict [("".toList, .leaf)])]),
    ("threshold".toList, .leaf), ("__x y".toList, .leaf), ("_".toList, .dict [("k".toList, .leaf)]), ("e".toList, .dict [])]
    = s ["threshold", "opts__a-b", "opts____", "x_y", "k"] := by
  decide +kernel

/-! ## special attribute names: tests, and the negative witness for the naming of d56dae2 -/

/-- TEST: keys that would become special attribute names, the `__m` names, and ordinary keys with one leading underscore (unchanged) -/
example : facetFields (s ["__init__", "._slots__", "__", "___9", "__class", "_hidden", "", "é", "class", "type", "fps"])
    = s ["_init__", "_slots__", "_", "_9", "_class", "_hidden", "__2", "__3", "class_", "type_2", "fps"] := by
  decide +kernel

/-- the dict forms of the failing inputs: after the fix the fields are `_init__` -/
example : eventFields [("._init__".toList, .leaf), ("_".toList, .dict [("__init__".toList, .leaf)])]
    = s ["_init__", "_init___2"] ++ fixedFields := by
  decide +kernel

/-- `C18_facet_double_underscore_is_counter` is not vacuous and "no name starts with `__`" would be FALSE: `__2` is produced -/
example : facetFields (s ["", "é"]) = s ["_", "__2"] := by decide +kernel

/-- NEGATIVE witness (d56dae2, before the `__` rule): the keys `._init__` and `{'_': {'__init__': …}}` reach `make_dataclass` as the field
`__init__`; the name checks pass (`makeDataclassOK`), the name has the form of a special attribute (`isDunder`) - the real class can
not be instantiated (`TypeError: 'int' object is not callable`) and the event is lost -/
theorem C18_facet_d56_dunder_witness :
    facetFieldsD56 ["._init__".toList] = ["__init__".toList] ∧
    facetFieldsD56 (facetKeys [("_".toList, .dict [("__init__".toList, .leaf)])]) = ["__init__".toList] ∧
    makeDataclassOK (facetFieldsD56 ["._init__".toList] ++ fixedFields) = true ∧
    (facetFieldsD56 ["._init__".toList]).any isDunder = true := by
  decide +kernel

end OF.FacetNames
