import OFProps.SendPubLemmas
/-!
# C04 / C07 — one publish per request, for balanced and non-balanced senders

Sender level (`ZMQSender.send`, model `OFModel/Zmq/Sender.lean`).  Definitions used in the statements: `isPubOn o x` (x is a wire message
- topic message or heartbeat of a publish - on output `o`; the event machine emits no other `.pub`), `pubIncl st fid sel e` (event `e` puts a
wire message on a selected output on which `fid` is tracked as a synchronised client), `takes st fid sel e` (event `e` takes a request of
`fid` with id ≥ -1 from a selected output), `pubCountSel` / `takenSel` (their counts along an event sequence), `flagSel` (0/1: the entry
of `fid` has `requested` and sits on a selected output), `noPush` (no call in `push` mode) - all in `OFProps/SendPubLemmas.lean`;
`PInv` (distinct keys, `Requested` for non-balanced and `BalReady` for balanced senders; holds initially, kept by every event), `BalReady`,
`BalSome` - in `OFProps/SendBalInv.lean`.  The C07 theorems hold in `push` mode too; the C04 ones need `push = false` (witness below).

* `C07_do_send_iff_all_asked` — the link between the per-output tuples of `poll_recv` and the client table: right after the
  decision of a balanced sender, `out_do_send` of an output holds exactly when every tracked client on it has asked or is ephemeral.
* `C07_publish_needs_all_asked` — if `send_maybe` of a balanced sender puts a wire message on output `o`, then every tracked
  synchronised client on `o` had `requested` when `send_maybe` ran (i.e. after the drain of that call); afterwards the client table is
  the old one with `requested := false` on exactly the clients of `o`: clients of other outputs keep their flag.
* `C07_publish_some_asked` — … and at least one tracked client of `o` had asked, **provided no CLOSE was taken between the decision and
  `send_maybe`** (`BalSome`, `C07_some_asked_at_decision`, `C07_some_asked_kept`; the kernel-checked witness below shows that the
  proviso is needed: the real code has the same behaviour).
* `C04_one_publish_per_request` — over ANY event sequence (deliveries of arbitrary requests, calls with any state / payload / clock
  reading, evictions), balanced or not: `#publishes that reach the synchronised client fid on a selected output + [requested fid at the
  end] ≤ [requested fid at the start] + #requests of fid with a normal id taken from a selected output`.  With the selection
  "output `o`" this is the harness oracle `publish_needs_request`; with "every output" it is `C04_bounded_publishes` for both kinds of
  sender (`C04_bounded_publishes_any`).
* `C04_request_between_publishes` — between two publishes on output `o` that reach `fid` there, a request of `fid` was taken from `o`.
-/
namespace OF.Send

/-! ## C07: a balanced publish needs every synchronised client of the chosen output -/

/-- `requested := False` for the clients of output `o` -/
def clearedOn (cl : Clients) (o : Nat) : Clients :=
  cl.map fun p => if p.2.out == o then (p.1, { p.2 with requested := false }) else p

/-- **C07 (the tuples and the client table)**: when a balanced sender takes a request that leads to a decision (`normal`), then in the
resulting state `out_do_send` of every output in the tuple dictionary holds exactly when all tracked clients on that output have an
unanswered request or are ephemeral -/
theorem C07_do_send_iff_all_asked (st : St) (j : Nat) (r : Req) (t : Int) (hb : st.balance = true) (hk : CKeys st.clients)
    (hn : (onReq st j r t).2.2 = .normal) :
    ∀ tup ∈ (onReq st j r t).1.outputs,
      (tup.2.1 = true ↔ ∀ p ∈ (onReq st j r t).1.clients, p.2.out = tup.1 → (p.2.requested || p.2.eph != 0) = true) := by
  rcases onReq_cases st j r t with ⟨hk', _⟩ | ⟨hk', _⟩ | ⟨hk', _⟩ | ⟨_, _, hc, ho⟩
  · rw [hk'] at hn; cases hn
  · rw [hk'] at hn; cases hn
  · rw [hk'] at hn; cases hn
  · intro tup ht
    rw [ho] at ht
    rw [hc]
    exact evald_do_send_iff st j r t hb hk tup ht

/-- **C07 (a balanced publish needs all synchronised clients of its output)** -/
theorem C07_publish_needs_all_asked (st : St) (hin : st.inCall = true) (hb : st.balance = true)
    (hr : BalReady st) (o : Nat) (x : Out) (hx : x ∈ (sendMaybe st).2.1) (hpub : isPubOn o x = true) :
    (∀ p ∈ st.clients, p.2.eph = 0 → p.2.out = o → p.2.requested = true) ∧
    (sendMaybe st).1.clients = clearedOn st.clients o ∧
    (∀ p ∈ (sendMaybe st).1.clients, p.2.out = o → p.2.requested = false) ∧
    (∀ p ∈ st.clients, p.2.out ≠ o → p ∈ (sendMaybe st).1.clients) := by
  have ⟨hg, hto⟩ := sendMaybe_pub_on st o x hx hpub
  have ⟨hpick, hpt⟩ := pubTargets_bal st hb o hto
  rcases C07_output_eligible st.outputs o hpick with ⟨tup, htup, hk, hflag, _⟩
  have hcl : (sendMaybe st).1.clients = clearedOn st.clients o := by
    rcases sendMaybe_clients st with ⟨hne, _⟩ | ⟨_, _, hc⟩
    · exact absurd hg hne
    · rw [hc]
      unfold cleared clearedOn
      apply List.map_congr_left
      intro p _
      simp only [hb, hpt, Bool.not_true, Bool.false_or, List.contains_cons, List.contains_nil, Bool.or_false]
  refine ⟨?_, hcl, ?_, ?_⟩
  · intro p hp he ho
    exact hr hin hb tup htup hflag p hp he (by rw [hk]; exact ho)
  · intro p hp ho
    rw [hcl] at hp
    unfold clearedOn at hp
    rw [List.mem_map] at hp
    rcases hp with ⟨q, _, rfl⟩
    by_cases hq : (q.2.out == o) = true
    · simp only [hq, ↓reduceIte]
    · simp only [hq, Bool.false_eq_true, ↓reduceIte] at ho
      exact absurd (by simpa using ho) hq
  · intro p hp ho
    rw [hcl]
    unfold clearedOn
    rw [List.mem_map]
    refine ⟨p, hp, ?_⟩
    have : (p.2.out == o) = false := by simpa using ho
    simp only [this, Bool.false_eq_true, ↓reduceIte]

/-- the same at the level of the event machine: the wire message is an output of the event `trySend` -/
theorem C07_publish_needs_all_asked_step (st : St) (e : Ev) (hb : st.balance = true) (hr : BalReady st) (o : Nat) (x : Out)
    (hx : x ∈ (step st e).2) (hpub : isPubOn o x = true) :
    (∀ p ∈ st.clients, p.2.eph = 0 → p.2.out = o → p.2.requested = true) ∧
    (step st e).1.clients = clearedOn st.clients o := by
  have ⟨he, hin, hg, _⟩ := step_pub_on st e o x hx hpub
  subst he
  have hsent : (sendMaybe st).2.2 = true := by
    rcases sendMaybe_clients st with ⟨hne, _⟩ | ⟨_, hs, _⟩
    · exact absurd hg hne
    · exact hs
  have hxs : x ∈ (sendMaybe st).2.1 := by
    unfold step stepTrySend at hx
    simp only [hin, not_true_eq_false, ↓reduceIte, hsent, endCall, List.mem_append, List.mem_singleton] at hx
    rcases hx with h | h
    · exact h
    · subst h; cases hpub
  have ⟨h1, h2, _⟩ := C07_publish_needs_all_asked st hin hb hr o x hxs hpub
  refine ⟨h1, ?_⟩
  unfold step stepTrySend
  simp only [hin, not_true_eq_false, ↓reduceIte, hsent, endCall]
  exact h2

/-- … along any run of a freshly constructed balanced sender (the invariant is established by the run itself) -/
theorem C07_publish_needs_all_asked_run (nOut : Nat) (required : List String) (evs : List Ev) (e : Ev) (o : Nat) (x : Out)
    (hx : x ∈ (step (run (mkSt nOut true required) evs).1 e).2) (hpub : isPubOn o x = true) :
    (∀ p ∈ (run (mkSt nOut true required) evs).1.clients, p.2.eph = 0 → p.2.out = o → p.2.requested = true) ∧
    (step (run (mkSt nOut true required) evs).1 e).1.clients = clearedOn (run (mkSt nOut true required) evs).1.clients o :=
  C07_publish_needs_all_asked_step _ e (by rw [run_balance]; rfl) (run_pinv evs _ (pinv_mkSt nOut true required)).bal o x hx hpub

/-- the state of `send(…, timeout=0)` after `while res := poll_recv(0): pass` -/
def afterDrain (st : St) (state : Option (Int × Nat)) (payload : Payload) (push : Bool) (prio : List Nat) (t : Int) : St :=
  (drain (totalQueued (step st (.begin state payload push)).1 + 1) (step st (.begin state payload push)).1 prio t).1

/-- **C07 at the level of one `send(…, timeout=0)` call**: a wire message on output `o` means that after the drain of that very call every
tracked synchronised client of `o` had `requested`; the call clears the flag of the clients of `o` and of no one else -/
theorem C07_send0_publish_needs_all_asked (st : St) (h : PInv st) (hb : st.balance = true) (state : Option (Int × Nat)) (payload : Payload)
    (push : Bool) (prio : List Nat) (t : Int) (o : Nat) (x : Out) (hx : x ∈ (send0 st state payload push prio t).2) (hpub : isPubOn o x = true) :
    (∀ p ∈ (afterDrain st state payload push prio t).clients, p.2.eph = 0 → p.2.out = o → p.2.requested = true) ∧
    (send0 st state payload push prio t).1.clients = clearedOn (afterDrain st state payload push prio t).clients o := by
  have hP : PInv (afterDrain st state payload push prio t) ∧ (afterDrain st state payload push prio t).balance = true := by
    unfold afterDrain
    apply drain_ind (fun s => PInv s ∧ s.balance = true)
    · intro s j t' hs; exact ⟨step_pinv s _ hs.1, by rw [step_balance]; exact hs.2⟩
    · exact ⟨step_pinv st _ h, by rw [step_balance]; exact hb⟩
  have hnb := nopub_of_ne st (.begin state payload push) o (by intro hh; cases hh)
  have hnd := drain_nopub o (totalQueued (step st (.begin state payload push)).1 + 1) (step st (.begin state payload push)).1 prio t
  rw [send0_eq] at hx ⊢
  simp only at hx ⊢
  have contra : ∀ y, isPubOn o y = false → y = x → False := by
    intro y hy he; rw [he, hpub] at hy; cases hy
  by_cases c1 : ¬ (step st (.begin state payload push)).1.inCall = true
  · rw [if_pos c1] at hx
    exact (contra x (hnb x hx) rfl).elim
  · rw [if_neg c1] at hx ⊢
    by_cases c2 : ¬ (drain (totalQueued (step st (.begin state payload push)).1 + 1) (step st (.begin state payload push)).1 prio t).1.inCall = true
    · rw [if_pos c2] at hx
      simp only [List.mem_append] at hx
      rcases hx with h1 | h1
      · exact (contra x (hnb x h1) rfl).elim
      · exact (contra x (hnd x h1) rfl).elim
    · rw [if_neg c2] at hx ⊢
      have key : ∀ x ∈ (step (afterDrain st state payload push prio t) .trySend).2, isPubOn o x = true →
          (∀ p ∈ (afterDrain st state payload push prio t).clients, p.2.eph = 0 → p.2.out = o → p.2.requested = true) ∧
          (step (afterDrain st state payload push prio t) .trySend).1.clients = clearedOn (afterDrain st state payload push prio t).clients o :=
        fun x hx hp => C07_publish_needs_all_asked_step _ .trySend hP.2 hP.1.bal o x hx hp
      by_cases c3 : ¬ (step (drain (totalQueued (step st (.begin state payload push)).1 + 1) (step st (.begin state payload push)).1 prio t).1 .trySend).1.inCall = true
      · rw [if_pos c3] at hx ⊢
        simp only [List.mem_append] at hx
        rcases hx with (h1 | h1) | h1
        · exact (contra x (hnb x h1) rfl).elim
        · exact (contra x (hnd x h1) rfl).elim
        · exact key x h1 hpub
      · rw [if_neg c3] at hx ⊢
        simp only [List.mem_append] at hx
        rcases hx with ((h1 | h1) | h1) | h1
        · exact (contra x (hnb x h1) rfl).elim
        · exact (contra x (hnd x h1) rfl).elim
        · have := key x h1 hpub
          simp only [timeout_clients]
          exact this
        · exact (contra x (nopub_of_ne _ .timeout o (by intro hh; cases hh) x h1) rfl).elim

/-! ### "at least one client of the chosen output had asked" -/

/-- **C07 (the decision counts a live request)**: right after the decision of a balanced sender, every output whose tuple has
`out_nrequested ≠ 0` has a tracked client with an unanswered request -/
theorem C07_some_asked_at_decision (st : St) (j : Nat) (r : Req) (t : Int) (hk : CKeys st.clients)
    (hn : (onReq st j r t).2.2 = .normal) : BalSome (onReq st j r t).1 :=
  onReq_normal_balSome st j r t hk hn

/-- the event does not take a CLOSE message off a queue -/
def noClose (st : St) : Ev → Prop
  | .handle j _ => ∀ r q, st.queues[j]? = some (r :: q) → r.mid ≠ OF.Facts.MSG_ID_CLOSE
  | _ => True

/-- **C07 (… and it stays true up to `send_maybe` unless a CLOSE is taken in between)** -/
theorem C07_some_asked_kept (st : St) (e : Ev) (hk : CKeys st.clients) (h : BalSome st) (hnc : noClose st e) :
    BalSome (step st e).1 := by
  cases e with
  | deliver j r =>
    unfold step stepDeliver; simp only
    split
    · exact h
    · exact h
  | «begin» s p b =>
    unfold step stepBegin; simp only
    split
    · exact h
    · split
      · intro _ _ tup ht; simp [beginWith] at ht
      · split
        · exact h
        · intro _ _ tup ht; simp [beginWith] at ht
  | handle j t =>
    unfold step stepHandle; simp only
    split
    · exact h
    · split
      · exact h
      · exact h
      · rename_i r q hq
        split
        · intro hin; simp [endCall] at hin
        · rename_i hne
          exact onReq_balSome { st with queues := st.queues.set j q } j r t hk h hne (hnc r q hq)
  | trySend =>
    unfold step stepTrySend; simp only
    split
    · exact h
    · split
      · intro hin; simp [endCall] at hin
      · rename_i hns
        rcases sendMaybe_clients st with ⟨_, hc, ho, _⟩ | ⟨_, hs, _⟩
        · have hf := sendMaybe_spec st
          intro hin hbal tup ht hnr
          rw [hc]; rw [ho] at ht; rw [hf.1] at hin; rw [hf.2.2.1] at hbal
          exact h hin hbal tup ht hnr
        · exact absurd hs hns
  | timeout =>
    unfold step stepTimeout; simp only
    split
    · exact h
    · intro hin; simp at hin

/-- **C07 (at least one client of the chosen output had asked)** -/
theorem C07_publish_some_asked (st : St) (hin : st.inCall = true) (hb : st.balance = true) (hs : BalSome st)
    (o : Nat) (x : Out) (hx : x ∈ (sendMaybe st).2.1) (hpub : isPubOn o x = true) :
    ∃ p ∈ st.clients, p.2.out = o ∧ p.2.requested = true := by
  have ⟨_, hto⟩ := sendMaybe_pub_on st o x hx hpub
  have ⟨hpick, _⟩ := pubTargets_bal st hb o hto
  rcases C07_output_eligible st.outputs o hpick with ⟨tup, htup, hk, _, hnr⟩
  rcases hs hin hb tup htup hnr with ⟨p, hp, ho, hreq⟩
  exact ⟨p, hp, by rw [ho, hk], hreq⟩

/-! ## C04: one publish per request, as a counting theorem over whole runs -/

/-- **C04 (a publish that reaches `fid` pays its request)**: the flag of `fid` was up before and is down afterwards -/
theorem C04_publish_pays (st : St) (fid : String) (sel : Nat → Bool) (e : Ev) (h : PInv st) (hp : st.push = false)
    (hpi : pubIncl st fid sel e = true) :
    flagSel st.clients fid sel = 1 ∧ flagSel (step st e).1.clients fid sel = 0 := by
  rcases pubIncl_spec st fid sel e hpi with ⟨o, x, p, hx, hpub, hsel, hpm, hpk, hpe, hpo⟩
  have ⟨he, hin, hg, hto⟩ := step_pub_on st e o x hx hpub
  subst he
  have ⟨hds, _⟩ := gate_none st hp hg
  -- the entry of `fid` had `requested`
  have hreq : p.2.requested = true := by
    cases hb : st.balance with
    | false => exact h.unbal hb hin hds p hpm hpe
    | true =>
      have ⟨hpick, _⟩ := pubTargets_bal st hb o hto
      rcases C07_output_eligible st.outputs o hpick with ⟨tup, htup, hk, hflag, _⟩
      exact h.bal hin hb tup htup hflag p hpm hpe (by rw [hk]; exact hpo)
  constructor
  · unfold flagSel
    have : flaggedSel st.clients fid sel = true := by
      rw [flaggedSel_iff]
      exact ⟨p, hpm, hpk, hreq, by rw [hpo]; exact hsel⟩
    simp [this]
  · rw [step_trySend_clients st hin hg]
    unfold flagSel
    have : flaggedSel (cleared st) fid sel = false := by
      apply Bool.eq_false_iff.mpr
      intro hf
      rw [flaggedSel_iff] at hf
      rcases hf with ⟨q', hq', h1, h2, _⟩
      unfold cleared at hq'
      rw [List.mem_map] at hq'
      rcases hq' with ⟨q, hq, rfl⟩
      have hqk : q.1 = fid := by
        by_cases hc : (!st.balance || (pubTargets st).contains q.2.out) = true
        · simp only [hc, ↓reduceIte] at h1; exact h1
        · simp only [hc, Bool.false_eq_true, ↓reduceIte] at h1; exact h1
      have hqp : q = p := ckeys_unique _ h.keys q p hq hpm (by rw [hqk, hpk])
      subst hqp
      have hc : (!st.balance || (pubTargets st).contains q.2.out) = true := by
        rw [hpo]
        simp only [Bool.or_eq_true, Bool.not_eq_true', List.contains_iff_mem]
        exact Or.inr hto
      simp only [hc, ↓reduceIte] at h2
      cases h2
    simp [this]

/-- **C04 (one publish per request)**: for every client id `fid`, every selection `sel` of bound outputs and every event sequence of
a sender (balanced or not) that is never called in `push` mode:
`#publishes that reach fid as a tracked synchronised client of a selected output + [fid has requested at the end] ≤
 [fid has requested at the start] + #requests of fid with a normal id (≥ -1) taken from a selected output`.
No hypothesis that `fid` stays tracked is needed: losing the entry (CLOSE, time-out) loses the flag too. -/
theorem C04_one_publish_per_request (fid : String) (sel : Nat → Bool) (evs : List Ev) : ∀ (st : St), PInv st → st.push = false →
    (∀ e ∈ evs, noPush e) →
    pubCountSel fid sel st evs + flagSel (run st evs).1.clients fid sel ≤ flagSel st.clients fid sel + takenSel fid sel st evs := by
  induction evs with
  | nil => intro st _ _ _; simp [pubCountSel, takenSel, run]
  | cons e es ih =>
    intro st h hp hq
    have hqe := hq e (List.mem_cons_self ..)
    have hrest := ih (step st e).1 (step_pinv st e h) (step_push_np st e hqe hp) (fun x hx => hq x (List.mem_cons_of_mem _ hx))
    rw [run_cons_fst]
    unfold pubCountSel takenSel
    by_cases hc : pubIncl st fid sel e = true
    · have ⟨h1, h2⟩ := C04_publish_pays st fid sel e h hp hc
      simp only [hc, ↓reduceIte]
      omega
    · have := step_flagSel st e fid sel
      simp only [hc, Bool.false_eq_true, ↓reduceIte]
      omega

/-- the same for the runs of a freshly constructed sender -/
theorem C04_one_publish_per_request_fresh (nOut : Nat) (balance : Bool) (required : List String) (fid : String) (sel : Nat → Bool)
    (evs : List Ev) (hq : ∀ e ∈ evs, noPush e) :
    pubCountSel fid sel (mkSt nOut balance required) evs ≤ takenSel fid sel (mkSt nOut balance required) evs := by
  have := C04_one_publish_per_request fid sel evs _ (pinv_mkSt nOut balance required) rfl hq
  have h0 : flagSel (mkSt nOut balance required).clients fid sel = 0 := by simp [flagSel, flaggedSel, mkSt]
  omega

/-- **C04 (a request between two publishes)** — the oracle `publish_needs_request`: after a publish on output `o` that reached the
synchronised client `fid` there, no further publish on `o` reaches `fid` before a request of `fid` (normal id) has been taken
from output `o` -/
theorem C04_request_between_publishes (fid : String) (o : Nat) (st : St) (e : Ev) (evs : List Ev) (h : PInv st) (hp : st.push = false)
    (hqe : noPush e) (hq : ∀ x ∈ evs, noPush x) (h1 : pubIncl st fid (· == o) e = true)
    (h2 : 1 ≤ pubCountSel fid (· == o) (step st e).1 evs) : 1 ≤ takenSel fid (· == o) (step st e).1 evs := by
  have hz := (C04_publish_pays st fid (· == o) e h hp h1).2
  have := C04_one_publish_per_request fid (· == o) evs _ (step_pinv st e h) (step_push_np st e hqe hp) hq
  omega

/-! ### with the queued requests: `C04_bounded_publishes` for both kinds of sender -/

/-- **C04 (bounded buffering, balanced or not)**: after the last request of the synchronised client `fid` has arrived, a sender
publishes to `fid` - on whatever output `fid` is tracked - at most `[requested] + #its requests still queued` further blocks.
For a non-balanced sender this is `C04_bounded_publishes`. -/
theorem C04_bounded_publishes_any (fid : String) (evs : List Ev) (st : St) (h : PInv st) (hp : st.push = false)
    (hq : ∀ e ∈ evs, quiet fid e) :
    pubCountSel fid (fun _ => true) st evs ≤ phi st fid := by
  unfold phi
  rw [← flagSel_all]
  have hnp : ∀ e ∈ evs, noPush e := by
    intro e he
    have := hq e he
    cases e with
    | «begin» s p b => exact this
    | _ => trivial
  have hnf : ∀ e ∈ evs, notFrom fid e := by
    intro e he
    have := hq e he
    cases e with
    | deliver j r => exact this
    | _ => trivial
  have h1 := C04_one_publish_per_request fid (fun _ => true) evs st h hp hnp
  have h2 := taken_le_queued fid (fun _ => true) evs st hnf
  omega

/-! ## Non-vacuity and negative witnesses (kernel-evaluated TESTS on concrete runs, not theorems) -/

/-- (output, id) of the wire messages among some outputs -/
def pubOuts (os : List Out) : List (Nat × Int) :=
  os.filterMap fun o => match o with | .pub o _ m _ _ _ => some (o, m) | _ => none

/-- the seeded defect `C04-balanced-pick-not-ready`: the output choice without the `out_do_send` condition -/
def pickOutputLoose (outs : List (Nat × OutTuple)) : Option Nat :=
  let el := outs.filter (fun o => o.2.2.1 != 0)
  match el with
  | [] => none
  | o :: rest => some (rest.foldl (fun (best : Nat × OutTuple) x => if x.2.2.2 < best.2.2.2 then x else best) o).1

/-- a balanced sender with two bound outputs: output 0 is shared by the synchronised clients A and B, output 1 has C.  Block 0 went to
output 0 (A and B had asked); then A and C ask again, B does not.  State right before `send_maybe` of the second call. -/
def exShared : St :=
  (run (mkSt 2 true [])
    [.deliver 0 ⟨"A", "a", -1, 0, false, 0⟩, .deliver 0 ⟨"B", "b", -1, 0, false, 0⟩,
     .begin none (.topics [("main", 1)]) false, .handle 0 1000, .handle 0 1000, .trySend,
     .deliver 0 ⟨"A", "a", 0, 0, false, 0⟩, .deliver 1 ⟨"C", "c", 0, 0, false, 0⟩,
     .begin none (.topics [("main", 2)]) false, .handle 0 1001, .handle 1 1001]).1

/-- test (non-vacuity of `C07_publish_needs_all_asked`): output 0 is not ready (B has not asked), output 1 is: block 1 goes to output 1,
`requested` of C is cleared, A keeps its flag -/
example :
    exShared.inCall = true ∧ exShared.balance = true ∧ exShared.doSend = true ∧
    exShared.outputs = [(0, false, 1, 0), (1, true, 1, 0)] ∧
    exShared.clients.map (fun p => (p.1, p.2.out, p.2.requested)) = [("Aa", 0, true), ("Bb", 0, false), ("Cc", 1, true)] ∧
    pickOutput exShared.outputs = some 1 ∧
    pubOuts (step exShared .trySend).2 = [(1, 1), (1, 1)] ∧
    (step exShared .trySend).1.clients.map (fun p => (p.1, p.2.out, p.2.requested)) =
      [("Aa", 0, true), ("Bb", 0, false), ("Cc", 1, false)] := by decide +kernel

/-- test (NEGATIVE witness): without the `out_do_send` condition the choice falls on output 0, on which the tracked synchronised client B
has no unanswered request - the conclusion of `C07_publish_needs_all_asked` fails for the seeded defect -/
example :
    pickOutputLoose exShared.outputs = some 0 ∧
    exShared.clients.any (fun p => p.2.out == 0 && p.2.eph == 0 && !p.2.requested) = true := by decide +kernel

/-- test (non-vacuity of `C07_send0_publish_needs_all_asked` and of `C07_publish_some_asked`): the same as one `send(…, timeout=0)` call with
both requests queued: the drain takes them, block 1 goes to output 1 only; and the state before `send_maybe` satisfies `BalSome` -/
example :
    let st := (run (mkSt 2 true [])
      [.deliver 0 ⟨"A", "a", -1, 0, false, 0⟩, .deliver 0 ⟨"B", "b", -1, 0, false, 0⟩,
       .begin none (.topics [("main", 1)]) false, .handle 0 1000, .handle 0 1000, .trySend,
       .deliver 0 ⟨"A", "a", 0, 0, false, 0⟩, .deliver 1 ⟨"C", "c", 0, 0, false, 0⟩]).1
    pubOuts (send0 st none (.topics [("main", 2)]) false [0, 1] 1001).2 = [(1, 1), (1, 1)] ∧
    (send0 st none (.topics [("main", 2)]) false [0, 1] 1001).1.clients.map (fun p => (p.1, p.2.out, p.2.requested)) =
      [("Aa", 0, true), ("Bb", 0, false), ("Cc", 1, false)] := by decide +kernel

example : BalSome exShared := by unfold BalSome; decide +kernel

/-- the CLOSE race: B (output 1) got block 0 and has not asked again; A (output 0) asks and then says CLOSE; both messages are taken in the
same drain.  State right before `send_maybe`. -/
def exClose : St :=
  (run (mkSt 2 true [])
    [.deliver 1 ⟨"B", "b", -1, 0, false, 0⟩, .begin none (.topics [("main", 1)]) false, .handle 1 1000, .trySend,
     .deliver 0 ⟨"A", "a", -1, 0, false, 0⟩, .deliver 0 ⟨"A", "a", -3, 0, false, 0⟩,
     .begin none (.topics [("main", 2)]) false, .handle 0 1001, .handle 0 1001]).1

/-- test (NEGATIVE witness for the proviso of `C07_publish_some_asked`): the tuple of output 0 still counts A's request, A is gone:
block 1 is published on output 0, on which no client is tracked any more; B is not served.  (The real `ZMQSender` does the same.) -/
example :
    exClose.outputs = [(1, false, 0, -1), (0, true, 1, -1)] ∧
    exClose.clients.map (fun p => (p.1, p.2.out, p.2.requested)) = [("Bb", 1, false)] ∧
    pubOuts (step exClose .trySend).2 = [(0, 1), (0, 1)] ∧
    exClose.clients.any (fun p => p.2.out == 0) = false := by decide +kernel

example : ¬ BalSome exClose := by unfold BalSome; decide +kernel

/-- test (the "at least one" of `C07_publish_some_asked` may be an ephemeral client): output 1 has only the ephemeral listener E; the
synchronised worker A on output 0 has not asked again: blocks 1 and 2 go to output 1 only -/
example :
    pubOuts (run (mkSt 2 true [])
      [.deliver 0 ⟨"A", "a", -1, 0, false, 0⟩, .begin none (.topics [("main", 1)]) false, .handle 0 1000, .trySend,
       .deliver 1 ⟨"E", "e", -1, 1, false, 0⟩, .begin none (.topics [("main", 2)]) false, .handle 1 1001, .trySend,
       .deliver 1 ⟨"E", "e", -1, 1, false, 0⟩, .begin none (.topics [("main", 3)]) false, .handle 1 1002, .trySend]).2 =
    [(0, 0), (0, 0), (1, 1), (1, 1), (1, 2), (1, 2)] := by decide +kernel

/-- test (non-vacuity of `C04_one_publish_per_request`, balanced): in the run above continued by `send_maybe`, one block reached B on output
0 and one request of B was taken there; C: one and one; A: one block, two requests taken, the second still unanswered -/
example :
    let evs : List Ev :=
      [.deliver 0 ⟨"A", "a", -1, 0, false, 0⟩, .deliver 0 ⟨"B", "b", -1, 0, false, 0⟩,
       .begin none (.topics [("main", 1)]) false, .handle 0 1000, .handle 0 1000, .trySend,
       .deliver 0 ⟨"A", "a", 0, 0, false, 0⟩, .deliver 1 ⟨"C", "c", 0, 0, false, 0⟩,
       .begin none (.topics [("main", 2)]) false, .handle 0 1001, .handle 1 1001, .trySend]
    (pubCountSel "Bb" (· == 0) (mkSt 2 true []) evs, takenSel "Bb" (· == 0) (mkSt 2 true []) evs) = (1, 1) ∧
    (pubCountSel "Cc" (· == 1) (mkSt 2 true []) evs, takenSel "Cc" (· == 1) (mkSt 2 true []) evs) = (1, 1) ∧
    (pubCountSel "Aa" (· == 0) (mkSt 2 true []) evs, takenSel "Aa" (· == 0) (mkSt 2 true []) evs,
     flagSel (run (mkSt 2 true []) evs).1.clients "Aa" (· == 0)) = (1, 2, 1) := by decide +kernel

/-- test (NEGATIVE witness for the hypothesis `noPush`): a call in `push` mode publishes to A a second time without a new request -/
example :
    let evs : List Ev :=
      [.deliver 0 ⟨"A", "a", -1, 0, false, 0⟩, .begin none (.topics [("main", 1)]) false, .handle 0 1000, .trySend,
       .begin none (.topics [("main", 2)]) true, .trySend]
    (pubCountSel "Aa" (fun _ => true) (mkSt 1 false []) evs, takenSel "Aa" (fun _ => true) (mkSt 1 false []) evs) = (2, 1) := by
  decide +kernel

end OF.Send
