import OFProps.NetSend
import OFProps.SendPubLemmas
set_option linter.unusedSimpArgs false
/-!
# Sender-side helper lemmas for the balanced network (`OFProps/NetBalInv.lean`)

One whole `send(payload, state, timeout=0)` (`Send.send0`) of a sender that is not inside a call:
* `send0_balance` — `balance` is not changed;
* `send0_pub_full` — there is ONE sender state `d` (the one `send_maybe` decides in) such that every wire message of the call goes to an
  output in `pubTargets d`, and is the heartbeat (`//`, payload identity 0) or the message of one `(topic, payload identity)` pair of the
  payload under the frame `frame0 topic`;
* `send0_one_out` — a BALANCED sender: all wire messages of the call go to one and the same output (C07_one_output for a whole call).
-/
namespace OF.Net
open OF.Send (Payload Req Client)

theorem drain_balance : ∀ (f : Nat) (st : Send.St) (prio : List Nat) (t : Int), (Send.drain f st prio t).1.balance = st.balance := by
  intro f st prio t
  exact Send.drain_ind (fun x => x.balance = st.balance) (fun x j t' hx => by rw [Send.step_balance]; exact hx) f st prio t rfl

theorem send0_balance (st : Send.St) (state : Option (Int × Nat)) (pl : Payload) (push : Bool) (prio : List Nat) (t : Int) :
    (Send.send0 st state pl push prio t).1.balance = st.balance := by
  have ⟨evs, h⟩ := send0_as_run st state pl push prio t
  rw [h, Send.run_balance]

/-- shape of a wire message of a publish of the dict `L` -/
def PubShape (L : List (String × Nat)) : Send.Out → Prop
  | .pub _ f _ _ _ body => (f = "//" ∧ body = 0) ∨ ∃ tb ∈ L, f = Send.frame0 tb.1 ∧ body = tb.2
  | _ => True

theorem publish_shape (st : Send.St) (ts : List (String × Nat)) : ∀ x ∈ (Send.publish st ts).2, PubShape ts x := by
  intro x hx
  unfold Send.publish at hx
  simp only [List.mem_append] at hx
  rcases hx with h | h
  · rw [List.mem_flatMap] at h
    rcases h with ⟨⟨t, b⟩, htb, h2⟩
    rw [List.mem_map] at h2
    rcases h2 with ⟨_, _, rfl⟩
    exact Or.inr ⟨(t, b), htb, rfl, rfl⟩
  · rw [List.mem_map] at h
    rcases h with ⟨_, _, rfl⟩
    exact Or.inl ⟨rfl, rfl⟩

theorem gate_payloadTopics (st : Send.St) (hg : (Send.gate st).1 = none) :
    Send.payloadTopics (Send.gate st).2.1 = plList st.payload := by
  unfold Send.gate at hg ⊢
  by_cases hc : ((!st.doSend || st.clients.isEmpty) && !st.push) = true
  · rw [if_pos hc] at hg; cases hg
  · rw [if_neg hc] at hg ⊢
    cases hp : st.payload with
    | topics ts => rfl
    | deferred r =>
      cases r with
      | none => rw [hp] at hg; cases hg
      | some ts => rfl

theorem sendMaybe_shape (st : Send.St) : ∀ x ∈ (Send.sendMaybe st).2.1, PubShape (plList st.payload) x := by
  intro x hx
  have hgate : ∀ o ∈ (Send.gate st).2.2, o = .evaluated := by
    unfold Send.gate
    split
    · intro o ho; cases ho
    · split
      · intro o ho; cases ho
      · intro o ho; simp only [List.mem_singleton] at ho; exact ho
      · intro o ho; simp only [List.mem_singleton] at ho; exact ho
  have hhello : ∀ r, ∀ o ∈ Send.helloOuts st r, PubShape (plList st.payload) o := by
    intro r o ho
    unfold Send.helloOuts at ho
    split at ho
    · rw [List.mem_map] at ho; rcases ho with ⟨_, _, rfl⟩; trivial
    · cases ho
  unfold Send.sendMaybe at hx
  simp only at hx
  split at hx
  · rw [List.mem_append] at hx
    rcases hx with hx | hx
    · rw [hgate x hx]; trivial
    · exact hhello _ x hx
  · rename_i hg
    rw [List.mem_append, List.mem_append] at hx
    rcases hx with (hx | hx) | hx
    · rw [hgate x hx]; trivial
    · exact hhello _ x hx
    · have := publish_shape _ _ x hx
      rw [gate_payloadTopics st hg] at this
      exact this

theorem trySend_shape (st : Send.St) : ∀ x ∈ (Send.step st .trySend).2, PubShape (plList st.payload) x := by
  intro x hx
  unfold Send.step Send.stepTrySend at hx
  simp only at hx
  split at hx
  · cases hx
  · split at hx
    · rw [List.mem_append] at hx
      rcases hx with hx | hx
      · exact sendMaybe_shape st x hx
      · unfold Send.endCall at hx; simp only [List.mem_singleton] at hx; subst hx; trivial
    · exact sendMaybe_shape st x hx

/-- where the outputs of `send(…, 0)` come from -/
theorem send0_mem (st : Send.St) (state : Option (Int × Nat)) (pl : Payload) (push : Bool) (prio : List Nat) (t : Int) (x : Send.Out)
    (hx : x ∈ (Send.send0 st state pl push prio t).2) :
    x ∈ (Send.step st (.begin state pl push)).2 ∨
    ((Send.step st (.begin state pl push)).1.inCall = true ∧
      (x ∈ (Send.drain (Send.totalQueued (Send.step st (.begin state pl push)).1 + 1) (Send.step st (.begin state pl push)).1 prio t).2 ∨
       x ∈ (Send.step (Send.drain (Send.totalQueued (Send.step st (.begin state pl push)).1 + 1) (Send.step st (.begin state pl push)).1 prio t).1 .trySend).2 ∨
       x ∈ (Send.step (Send.step (Send.drain (Send.totalQueued (Send.step st (.begin state pl push)).1 + 1) (Send.step st (.begin state pl push)).1 prio t).1 .trySend).1 .timeout).2)) := by
  rw [Send.send0_eq] at hx
  split at hx
  · left; exact hx
  · rename_i h0
    have h0' : (Send.step st (.begin state pl push)).1.inCall = true := by simpa using h0
    simp only at hx
    split at hx
    · simp only [List.mem_append] at hx
      rcases hx with hx | hx
      · left; exact hx
      · right; exact ⟨h0', Or.inl hx⟩
    · split at hx
      · simp only [List.mem_append] at hx
        rcases hx with (hx | hx) | hx
        · left; exact hx
        · right; exact ⟨h0', Or.inl hx⟩
        · right; exact ⟨h0', Or.inr (Or.inl hx)⟩
      · simp only [List.mem_append] at hx
        rcases hx with ((hx | hx) | hx) | hx
        · left; exact hx
        · right; exact ⟨h0', Or.inl hx⟩
        · right; exact ⟨h0', Or.inr (Or.inl hx)⟩
        · right; exact ⟨h0', Or.inr (Or.inr hx)⟩

theorem begin_cp (st : Send.St) (state : Option (Int × Nat)) (pl : Payload) (push : Bool) (hin : st.inCall = false)
    (h : (Send.step st (.begin state pl push)).1.inCall = true) :
    CP (Send.step st (.begin state pl push)).1 (callId st state) (plList pl) := by
  revert h
  unfold Send.step Send.stepBegin
  simp only [hin, Bool.false_eq_true, ↓reduceIte]
  cases state with
  | none => intro _; exact ⟨rfl, rfl⟩
  | some kb =>
    rcases kb with ⟨k, b⟩
    simp only
    split
    · intro hc; rw [hin] at hc; cases hc
    · intro _; exact ⟨rfl, rfl⟩

/-- **all wire messages of one `send(…, 0)`**: one deciding state `d`; every message goes to one of ITS targets and has the shape
of a message of the payload -/
theorem send0_pub_full (st : Send.St) (state : Option (Int × Nat)) (pl : Payload) (push : Bool) (prio : List Nat) (t : Int)
    (hin : st.inCall = false) :
    ∃ d : Send.St, d.balance = st.balance ∧
      ∀ o f mid ts bal body, Send.Out.pub o f mid ts bal body ∈ (Send.send0 st state pl push prio t).2 →
        o ∈ Send.pubTargets d ∧ ((f = "//" ∧ body = 0) ∨ ∃ tb ∈ plList pl, f = Send.frame0 tb.1 ∧ body = tb.2) := by
  refine ⟨(Send.drain (Send.totalQueued (Send.step st (.begin state pl push)).1 + 1) (Send.step st (.begin state pl push)).1 prio t).1, ?_, ?_⟩
  · rw [drain_balance, Send.step_balance]
  · intro o f mid ts bal body hx
    have hp : Send.isPubOn o (Send.Out.pub o f mid ts bal body) = true := by simp [Send.isPubOn]
    rcases send0_mem st state pl push prio t _ hx with h | ⟨h0, h | h | h⟩
    · have := Send.nopub_of_ne st (.begin state pl push) o (by intro hc; cases hc) _ h
      rw [hp] at this; cases this
    · have := Send.drain_nopub o _ _ prio t _ h
      rw [hp] at this; cases this
    · have ⟨_, _, _, htar⟩ := Send.step_pub_on _ .trySend o _ h hp
      refine ⟨htar, ?_⟩
      have hcp := (drain_good (Send.totalQueued (Send.step st (.begin state pl push)).1 + 1) _ prio t _ _
        (begin_cp st state pl push hin h0)).1
      have := trySend_shape _ _ h
      rw [hcp.2] at this
      exact this
    · have := Send.nopub_of_ne _ .timeout o (by intro hc; cases hc) _ h
      rw [hp] at this; cases this

/-- **C07 (one output per call)**: a balanced sender puts all wire messages of one `send(…, 0)` on one and the same output -/
theorem send0_one_out (st : Send.St) (state : Option (Int × Nat)) (pl : Payload) (push : Bool) (prio : List Nat) (t : Int)
    (hin : st.inCall = false) (hb : st.balance = true) :
    ∀ o f mid ts bal body o' f' mid' ts' bal' body',
      Send.Out.pub o f mid ts bal body ∈ (Send.send0 st state pl push prio t).2 →
      Send.Out.pub o' f' mid' ts' bal' body' ∈ (Send.send0 st state pl push prio t).2 → o = o' := by
  rcases send0_pub_full st state pl push prio t hin with ⟨d, hd, hall⟩
  intro o f mid ts bal body o' f' mid' ts' bal' body' h1 h2
  have a1 := (hall _ _ _ _ _ _ h1).1
  have a2 := (hall _ _ _ _ _ _ h2).1
  have ⟨_, e1⟩ := Send.pubTargets_bal d (hd.trans hb) o a1
  rw [e1] at a2
  simp only [List.mem_singleton] at a2
  exact a2.symm

end OF.Net
