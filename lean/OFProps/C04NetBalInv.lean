import OFProps.C04OnePublish
import OFProps.C04NetTee
import OFProps.NetBalInv
set_option linter.unusedSimpArgs false
/-!
# A stalled client of ONE output of a sender with several bound outputs (helper lemmas for `OFProps/C04NetBal.lean`)

Sender level (`ZMQSender`, model `OFModel/Zmq/Sender.lean`), ANY number of bound outputs, ANY poll priority, balanced or not.
`TrackOn cl fid o lo`: the client with key `fid` is in the table as a synchronised client of output `o`, last heard at or after `lo`.
`HoldOn cl fid o lo`: moreover its `requested` flag is down.
`QAll R st`: every queued request `r` of every PULL queue `j` satisfies `R j r`.

* `step_gen`, `send0_gen` — a property of the client table kept by every `onReq` (for requests that satisfy `R`, at clock readings that
  satisfy `T`) and by the flag clearing of a publish is kept, together with `QAll R`, by every event and by a whole `send(…, timeout=0)`
  call (and holds after the drain of that call);
* `send0_holdSt` — a BALANCED sender whose client `fid` of output `o` is `HoldOn`, with no request of `fid` queued anywhere, puts
  NOTHING on output `o` (whatever it puts on the other outputs) and stays so, as long as the clock readings do not let it evict `fid`;
* `send0_trackSt` — a balanced sender that tracks `fid` on `o`, no request of `fid` queued: it still does afterwards; if the call puts
  something on `o`, `fid` is `HoldOn` afterwards.
-/
namespace OF.Send
open OF.Net (keyOf mem_cset_of_ne mem_cset_self mem_cdel)

/-- the client `fid` is tracked as a synchronised client of output `o`, last heard at or after `lo` -/
def TrackOn (cl : Clients) (fid : String) (o : Nat) (lo : Int) : Prop :=
  (∃ c, (fid, c) ∈ cl) ∧ ∀ c, (fid, c) ∈ cl → lo ≤ c.tLast ∧ c.eph = 0 ∧ c.out = o

/-- … and has not asked since the last publish on `o` -/
def HoldOn (cl : Clients) (fid : String) (o : Nat) (lo : Int) : Prop :=
  TrackOn cl fid o lo ∧ ∀ c, (fid, c) ∈ cl → c.requested = false

/-- every queued request `r` of every PULL queue `j` satisfies `R j r` -/
def QAll (R : Nat → Req → Prop) (st : St) : Prop := ∀ j q, st.queues[j]? = some q → ∀ r ∈ q, R j r

/-! ### the client table -/

theorem trackOn_cdel (cl : Clients) (fid k : String) (o : Nat) (lo : Int) (h : TrackOn cl fid o lo) (hk : k ≠ fid) :
    TrackOn (cdel cl k) fid o lo := by
  rcases h with ⟨⟨c, hc⟩, h2⟩
  exact ⟨⟨c, (mem_cdel cl k _).mpr ⟨hc, fun e => hk e.symm⟩⟩, fun c' hc' => h2 c' ((mem_cdel cl k _).mp hc').1⟩

theorem trackOn_cset_other (cl : Clients) (fid k : String) (v : Client) (o : Nat) (lo : Int) (h : TrackOn cl fid o lo) (hk : k ≠ fid) :
    TrackOn (cset cl k v) fid o lo := by
  rcases h with ⟨⟨c, hc⟩, h2⟩
  refine ⟨⟨c, mem_cset_of_ne cl k v _ hc (fun e => hk e.symm)⟩, ?_⟩
  intro c' hc'
  rcases Pair.mem_cset cl k v _ hc' with h3 | h3
  · exact h2 c' h3
  · exact absurd (Prod.mk.inj h3).1.symm hk

theorem trackOn_cset_self (cl : Clients) (fid : String) (v : Client) (o : Nat) (lo : Int) (hv : lo ≤ v.tLast ∧ v.eph = 0 ∧ v.out = o) :
    TrackOn (cset cl fid v) fid o lo := by
  refine ⟨⟨v, mem_cset_self cl fid v⟩, ?_⟩
  intro c' hc'
  have := Pair.cset_key cl fid v _ hc' rfl
  rw [(Prod.mk.inj this).2]; exact hv

theorem holdOn_cdel (cl : Clients) (fid k : String) (o : Nat) (lo : Int) (h : HoldOn cl fid o lo) (hk : k ≠ fid) :
    HoldOn (cdel cl k) fid o lo :=
  ⟨trackOn_cdel cl fid k o lo h.1 hk, fun c hc => h.2 c ((mem_cdel _ _ _).mp hc).1⟩

theorem holdOn_cset_other (cl : Clients) (fid k : String) (v : Client) (o : Nat) (lo : Int) (h : HoldOn cl fid o lo) (hk : k ≠ fid) :
    HoldOn (cset cl k v) fid o lo := by
  refine ⟨trackOn_cset_other cl fid k v o lo h.1 hk, ?_⟩
  intro c hc
  rcases Pair.mem_cset cl k v _ hc with h3 | h3
  · exact h.2 c h3
  · exact absurd (Prod.mk.inj h3).1.symm hk

/-- the eviction loop (balanced or not) keeps a client that is not timed out -/
theorem trackOn_eval (b : Bool) (tMin : Int) (cl : Clients) (ds : Bool) (fid : String) (o : Nat) (lo : Int)
    (h : TrackOn cl fid o lo) (ht : tMin ≤ lo) : TrackOn (evalClients b tMin cl (cl, ds, [])).1 fid o lo := by
  rcases h with ⟨⟨c, hc⟩, h2⟩
  refine ⟨⟨c, evalClients_keep_any b tMin cl cl ds [] (fid, c) hc ?_⟩,
    fun c' hc' => h2 c' (evalClients_mem_any b tMin cl cl ds [] _ hc').1⟩
  intro y hy hlt heq
  have heq' : y.1 = fid := heq
  have hy' : (fid, y.2) ∈ cl := by
    have : y = (fid, y.2) := by rw [← heq']
    rw [← this]; exact hy
  have := (h2 y.2 hy').1
  omega

theorem holdOn_eval (b : Bool) (tMin : Int) (cl : Clients) (ds : Bool) (fid : String) (o : Nat) (lo : Int)
    (h : HoldOn cl fid o lo) (ht : tMin ≤ lo) : HoldOn (evalClients b tMin cl (cl, ds, [])).1 fid o lo :=
  ⟨trackOn_eval b tMin cl ds fid o lo h.1 ht, fun c hc => h.2 c (evalClients_mem_any b tMin cl cl ds [] _ hc).1⟩

/-! ### one request -/

/-- any request that is not a CLOSE of the client itself (and, if it is the client's, arrives on output `o`): the client stays tracked on `o` -/
theorem onReq_trackOn (st : St) (j : Nat) (r : Req) (t : Int) (fid : String) (o : Nat) (lo : Int)
    (h : TrackOn st.clients fid o lo) (hr : keyOf r = fid → j = o ∧ r.eph = 0 ∧ ¬ r.mid ≤ OF.Facts.MSG_ID_SPECIAL)
    (ht : t - OF.Facts.ZMQ_CONN_TIMEOUT ≤ lo) (hlo : lo ≤ t) : TrackOn (onReq st j r t).1.clients fid o lo := by
  have hregd : TrackOn (regd st j r t) fid o lo := by
    unfold regd
    by_cases hk : r.cid ++ r.uid = fid
    · have ⟨a, b, _⟩ := hr hk
      rw [hk]; exact trackOn_cset_self _ _ _ _ _ ⟨hlo, b, a⟩
    · exact trackOn_cset_other _ _ _ _ _ _ h hk
  rcases onReq_cases st j r t with ⟨_, hs, _, _, hc | ⟨_, hc⟩⟩ | ⟨_, _, _, hc⟩ | ⟨_, _, hc⟩ | ⟨_, _, hc, _⟩
  · rw [hc]; exact h
  · rw [hc]; exact trackOn_cdel _ _ _ _ _ h (fun e => (hr e).2.2 hs)
  · rw [hc]; exact h
  · rw [hc]; exact hregd
  · rw [hc]; unfold evald; exact trackOn_eval _ _ _ _ _ _ _ hregd ht

/-- a request of somebody else: the client still holds output `o` -/
theorem onReq_holdOn (st : St) (j : Nat) (r : Req) (t : Int) (fid : String) (o : Nat) (lo : Int)
    (h : HoldOn st.clients fid o lo) (hr : keyOf r ≠ fid) (ht : t - OF.Facts.ZMQ_CONN_TIMEOUT ≤ lo) :
    HoldOn (onReq st j r t).1.clients fid o lo := by
  have hregd : HoldOn (regd st j r t) fid o lo := holdOn_cset_other _ _ _ _ _ _ h hr
  rcases onReq_cases st j r t with ⟨_, _, _, _, hc | ⟨_, hc⟩⟩ | ⟨_, _, _, hc⟩ | ⟨_, _, hc⟩ | ⟨_, _, hc, _⟩
  · rw [hc]; exact h
  · rw [hc]; exact holdOn_cdel _ _ _ _ _ h hr
  · rw [hc]; exact h
  · rw [hc]; exact hregd
  · rw [hc]; unfold evald; exact holdOn_eval _ _ _ _ _ _ _ hregd ht

/-! ### the flag clearing of a publish -/

theorem mem_cleared (st : St) (fid : String) (c : Client) (h : (fid, c) ∈ cleared st) :
    ∃ c0, (fid, c0) ∈ st.clients ∧ (c = c0 ∨ c = { c0 with requested := false }) := by
  unfold cleared at h
  rw [List.mem_map] at h
  rcases h with ⟨p, hp, he⟩
  split at he
  · have h1 : p.1 = fid := (Prod.mk.inj he).1
    have h2 : { p.2 with requested := false } = c := (Prod.mk.inj he).2
    exact ⟨p.2, by rw [← h1]; exact hp, Or.inr h2.symm⟩
  · subst he; exact ⟨c, hp, Or.inl rfl⟩

theorem cleared_mem (st : St) (fid : String) (c0 : Client) (h : (fid, c0) ∈ st.clients) : ∃ c, (fid, c) ∈ cleared st := by
  by_cases hc : (!st.balance || (pubTargets st).contains c0.out) = true
  · refine ⟨{ c0 with requested := false }, ?_⟩
    unfold cleared; rw [List.mem_map]
    exact ⟨(fid, c0), h, by simp only [hc, ↓reduceIte]⟩
  · refine ⟨c0, ?_⟩
    unfold cleared; rw [List.mem_map]
    exact ⟨(fid, c0), h, by simp only [hc, Bool.false_eq_true, ↓reduceIte]⟩

theorem trackOn_cleared (st : St) (fid : String) (o : Nat) (lo : Int) (h : TrackOn st.clients fid o lo) : TrackOn (cleared st) fid o lo := by
  rcases h with ⟨⟨c, hc⟩, h2⟩
  refine ⟨cleared_mem st fid c hc, ?_⟩
  intro c' hc'
  rcases mem_cleared st fid c' hc' with ⟨c0, h0, he | he⟩
  · rw [he]; exact h2 c0 h0
  · rw [he]; exact h2 c0 h0

theorem holdOn_cleared (st : St) (fid : String) (o : Nat) (lo : Int) (h : HoldOn st.clients fid o lo) : HoldOn (cleared st) fid o lo := by
  refine ⟨trackOn_cleared st fid o lo h.1, ?_⟩
  intro c' hc'
  rcases mem_cleared st fid c' hc' with ⟨c0, h0, he | he⟩
  · rw [he]; exact h.2 c0 h0
  · rw [he]

/-- a tracked client of output `o` after the flags of output `o` were cleared -/
theorem trackOn_clearedOn (cl : Clients) (fid : String) (o : Nat) (lo : Int) (h : TrackOn cl fid o lo) : HoldOn (clearedOn cl o) fid o lo := by
  have hmem : ∀ c, (fid, c) ∈ clearedOn cl o → ∃ c0, (fid, c0) ∈ cl ∧ c = { c0 with requested := false } := by
    intro c hc
    unfold clearedOn at hc
    rw [List.mem_map] at hc
    rcases hc with ⟨p, hp, he⟩
    split at he
    · have h1 : p.1 = fid := (Prod.mk.inj he).1
      have h2 : { p.2 with requested := false } = c := (Prod.mk.inj he).2
      exact ⟨p.2, by rw [← h1]; exact hp, h2.symm⟩
    · rename_i hne
      subst he
      exact absurd (by simpa using (h.2 c hp).2.2) hne
  rcases h with ⟨⟨c, hc⟩, h2⟩
  refine ⟨⟨⟨{ c with requested := false }, ?_⟩, ?_⟩, ?_⟩
  · unfold clearedOn; rw [List.mem_map]
    have : (c.out == o) = true := by simpa using (h2 c hc).2.2
    exact ⟨(fid, c), hc, by simp only [this, ↓reduceIte]⟩
  · intro c' hc'
    rcases hmem c' hc' with ⟨c0, h0, rfl⟩
    exact h2 c0 h0
  · intro c' hc'
    rcases hmem c' hc' with ⟨c0, _, rfl⟩
    rfl

/-! ### every event, every `send(…, timeout=0)` -/

theorem qall_set (R : Nat → Req → Prop) (st st' : St) (j : Nat) (q' : List Req) (h : QAll R st)
    (hq : st'.queues = st.queues.set j q') (hR : ∀ r ∈ q', R j r) : QAll R st' := by
  intro j' q0 h0 r hr
  rw [hq, List.getElem?_set] at h0
  by_cases hj : j = j'
  · subst hj
    simp only [↓reduceIte] at h0
    split at h0
    · cases h0; exact hR r hr
    · cases h0
  · simp only [hj, ↓reduceIte] at h0
    exact h j' q0 h0 r hr

theorem qall_same (R : Nat → Req → Prop) (st st' : St) (h : QAll R st) (hq : st'.queues = st.queues) : QAll R st' := by
  intro j q h0; rw [hq] at h0; exact h j q h0

/-- the events the invariants tolerate: deliveries of requests that satisfy `R`, polls at clock readings that satisfy `T` -/
def EvOK (R : Nat → Req → Prop) (T : Int → Prop) : Ev → Prop
  | .deliver j r => R j r
  | .handle _ t => T t
  | _ => True

theorem step_gen (C : Clients → Prop) (R : Nat → Req → Prop) (T : Int → Prop)
    (c1 : ∀ (st : St) (j : Nat) (r : Req) (t : Int), T t → C st.clients → R j r → C (onReq st j r t).1.clients)
    (c2 : ∀ st : St, C st.clients → C (cleared st))
    (st : St) (e : Ev) (hc : C st.clients) (hq : QAll R st) (he : EvOK R T e) :
    C (step st e).1.clients ∧ QAll R (step st e).1 := by
  cases e with
  | deliver j r =>
    unfold step stepDeliver; simp only
    cases hj : st.queues[j]? with
    | none => exact ⟨hc, hq⟩
    | some q =>
      refine ⟨hc, qall_set R st _ j (q ++ [r]) hq rfl ?_⟩
      intro x hx
      rcases List.mem_append.mp hx with hx | hx
      · exact hq j q hj x hx
      · simp only [List.mem_singleton] at hx; subst hx; exact he
  | «begin» s p b =>
    unfold step stepBegin; simp only
    split
    · exact ⟨hc, hq⟩
    · split
      · exact ⟨hc, qall_same R st _ hq rfl⟩
      · split
        · exact ⟨hc, hq⟩
        · exact ⟨hc, qall_same R st _ hq rfl⟩
  | handle j t =>
    unfold step stepHandle; simp only
    split
    · exact ⟨hc, hq⟩
    · split
      · exact ⟨hc, hq⟩
      · exact ⟨hc, hq⟩
      · rename_i r q hj
        have hR : R j r := hq j (r :: q) hj r (List.mem_cons_self ..)
        have hq1 : QAll R { st with queues := st.queues.set j q } :=
          qall_set R st _ j q hq rfl (fun x hx => hq j (r :: q) hj x (List.mem_cons_of_mem _ hx))
        have h1 := c1 { st with queues := st.queues.set j q } j r t he hc hR
        have h2 : QAll R (onReq { st with queues := st.queues.set j q } j r t).1 :=
          qall_same R _ _ hq1 (onReq_queues _ j r t)
        split
        · exact ⟨h1, qall_same R _ _ h2 rfl⟩
        · exact ⟨h1, h2⟩
  | trySend =>
    unfold step stepTrySend; simp only
    have hcl : C (sendMaybe st).1.clients := by
      rcases sendMaybe_clients st with ⟨_, h1, _⟩ | ⟨_, _, h1⟩
      · rw [h1]; exact hc
      · rw [h1]; exact c2 st hc
    have hqq : QAll R (sendMaybe st).1 := qall_same R st _ hq (sendMaybe_queues st)
    split
    · exact ⟨hc, hq⟩
    · split
      · exact ⟨hcl, qall_same R _ _ hqq rfl⟩
      · exact ⟨hcl, hqq⟩
  | timeout =>
    unfold step stepTimeout; simp only
    split
    · exact ⟨hc, hq⟩
    · exact ⟨hc, qall_same R st _ hq rfl⟩

theorem drain_ind_t (P : St → Prop) (t : Int) (hstep : ∀ st j, P st → P (step st (.handle j t)).1) :
    ∀ (fuel : Nat) (st : St) (prio : List Nat), P st → P (drain fuel st prio t).1 := by
  intro fuel
  induction fuel with
  | zero => intro st prio h; exact h
  | succ n ih =>
    intro st prio h
    rw [drain_succ]
    split
    · exact h
    · split
      · exact h
      · exact ih _ prio (hstep st _ h)

/-- the invariant holds after the drain of a `send(…, timeout=0)` call and after the call -/
theorem send0_gen (C : Clients → Prop) (R : Nat → Req → Prop) (T : Int → Prop)
    (c1 : ∀ (st : St) (j : Nat) (r : Req) (t : Int), T t → C st.clients → R j r → C (onReq st j r t).1.clients)
    (c2 : ∀ st : St, C st.clients → C (cleared st))
    (st : St) (state : Option (Int × Nat)) (pl : Payload) (push : Bool) (prio : List Nat) (t : Int) (hT : T t)
    (hc : C st.clients) (hq : QAll R st) :
    (C (afterDrain st state pl push prio t).clients ∧ QAll R (afterDrain st state pl push prio t)) ∧
    (C (send0 st state pl push prio t).1.clients ∧ QAll R (send0 st state pl push prio t).1) := by
  have hb := step_gen C R T c1 c2 st (.begin state pl push) hc hq trivial
  have hd : C (afterDrain st state pl push prio t).clients ∧ QAll R (afterDrain st state pl push prio t) := by
    unfold afterDrain
    exact drain_ind_t (fun s => C s.clients ∧ QAll R s) t (fun s j hs => step_gen C R T c1 c2 s (.handle j t) hs.1 hs.2 hT) _ _ prio hb
  refine ⟨hd, ?_⟩
  have hd' := hd
  unfold afterDrain at hd'
  have hs := step_gen C R T c1 c2 _ .trySend hd'.1 hd'.2 trivial
  have hto := step_gen C R T c1 c2 _ .timeout hs.1 hs.2 trivial
  rw [send0_eq]
  simp only
  split
  · exact hb
  · split
    · exact hd'
    · split
      · exact hs
      · exact hto

/-! ### a balanced sender and a stalled client of one output -/

/-- **a balanced sender held on output `o`** by a tracked synchronised client whose flag is down and who has no request queued: the call
puts nothing on output `o` and the sender stays held, whatever the other outputs do -/
theorem send0_holdSt (st : St) (hP : PInv st) (hb : st.balance = true) (fid : String) (o : Nat) (lo : Int)
    (state : Option (Int × Nat)) (pl : Payload) (push : Bool) (prio : List Nat) (t : Int)
    (hH : HoldOn st.clients fid o lo) (hq : QAll (fun _ r => keyOf r ≠ fid) st) (ht : t - OF.Facts.ZMQ_CONN_TIMEOUT ≤ lo) :
    HoldOn (send0 st state pl push prio t).1.clients fid o lo ∧ QAll (fun _ r => keyOf r ≠ fid) (send0 st state pl push prio t).1 ∧
    ∀ x ∈ (send0 st state pl push prio t).2, isPubOn o x = false := by
  have hg := send0_gen (fun cl => HoldOn cl fid o lo) (fun _ r => keyOf r ≠ fid) (fun t' => t' - OF.Facts.ZMQ_CONN_TIMEOUT ≤ lo)
    (fun s j r t' hT hc hR => onReq_holdOn s j r t' fid o lo hc hR hT)
    (fun s hc => holdOn_cleared s fid o lo hc) st state pl push prio t ht hH hq
  refine ⟨hg.2.1, hg.2.2, ?_⟩
  intro x hx
  cases hp : isPubOn o x with
  | false => rfl
  | true =>
    exfalso
    have ⟨h1, _⟩ := C07_send0_publish_needs_all_asked st hP hb state pl push prio t o x hx hp
    rcases hg.1.1 with ⟨⟨⟨c, hc⟩, h2⟩, h3⟩
    have := h1 (fid, c) hc (h2 c hc).2.1 (h2 c hc).2.2
    rw [h3 c hc] at this
    cases this

/-- **a balanced sender that tracks the client on output `o`** (none of its requests queued): it still does after the call; if the call
puts something on output `o`, the client's flag is down afterwards -/
theorem send0_trackSt (st : St) (hP : PInv st) (hb : st.balance = true) (fid : String) (o : Nat) (lo : Int)
    (state : Option (Int × Nat)) (pl : Payload) (push : Bool) (prio : List Nat) (t : Int)
    (hH : TrackOn st.clients fid o lo) (hq : QAll (fun _ r => keyOf r ≠ fid) st) (ht : t - OF.Facts.ZMQ_CONN_TIMEOUT ≤ lo) :
    TrackOn (send0 st state pl push prio t).1.clients fid o lo ∧ QAll (fun _ r => keyOf r ≠ fid) (send0 st state pl push prio t).1 ∧
    ((∃ x ∈ (send0 st state pl push prio t).2, isPubOn o x = true) → HoldOn (send0 st state pl push prio t).1.clients fid o lo) := by
  have hg := send0_gen (fun cl => TrackOn cl fid o lo) (fun _ r => keyOf r ≠ fid) (fun t' => t' - OF.Facts.ZMQ_CONN_TIMEOUT ≤ lo)
    (fun s j r t' hT hc hR => by
      have hR' : keyOf r ≠ fid := hR
      rcases onReq_cases s j r t' with ⟨_, _, _, _, h | ⟨_, h⟩⟩ | ⟨_, _, _, h⟩ | ⟨_, _, h⟩ | ⟨_, _, h, _⟩
      · rw [h]; exact hc
      · rw [h]; exact trackOn_cdel _ _ _ _ _ hc hR'
      · rw [h]; exact hc
      · rw [h]; exact trackOn_cset_other _ _ _ _ _ _ hc hR'
      · rw [h]; unfold evald; exact trackOn_eval _ _ _ _ _ _ _ (trackOn_cset_other _ _ _ _ _ _ hc hR') hT)
    (fun s hc => trackOn_cleared s fid o lo hc) st state pl push prio t ht hH hq
  refine ⟨hg.2.1, hg.2.2, ?_⟩
  rintro ⟨x, hx, hp⟩
  have ⟨_, h2⟩ := C07_send0_publish_needs_all_asked st hP hb state pl push prio t o x hx hp
  rw [h2]
  exact trackOn_clearedOn _ fid o lo hg.1.1

end OF.Send
