import OFModel.Zmq.NetBal
import OFProps.C01Net
set_option linter.unusedSimpArgs false
/-!
# Base layer of the balanced network `OFModel/Zmq/NetBal.lean` (helper lemmas for `OFProps/NetBalInv.lean`, `C07NetBal.lean`)

* the topology `NetBal.topo b` (`S`, `b` workers, `J`) as facts about `Net.Topo`;
* `getElem?` characterisations of the routing functions `deliverReqs` / `deliverWires` and a generic lifting lemma for per-node
  predicates (`forall_deliverReqs`, `forall_deliverWires`);
* `Base b st`: every node of every reachable state satisfies the node invariant `Net.NodeInv` of `OFProps/C01Net.lean` (receiver
  invariant, provenance w.r.t. a delivery history of `WireOK` messages, the `MQ` state discipline) — `base_step` (every event but a restart).
  The node record, `afterRecv`, `afterSend`, `processed` are the ones of `Net.lean`, so the node-level lemmas of `C01Net.lean` apply
  as they are; `sendReal_wires_prio` / `nodeInv_afterSend_prio` restate two of them for an arbitrary poll priority (a sender with
  several bound outputs).
-/
namespace OF.NetBal
open OF.Net
open OF.Recv (Src Wire Msg Recvd Topic)

/-! ## the topology -/

theorem topo_n (b : Nat) : (topo b).n = b + 2 := by
  simp [topo, Topo.n]

theorem upsOf_zero (b : Nat) : (topo b).upsOf 0 = [] := by
  simp [topo, Topo.upsOf]

theorem upsOf_worker (b i : Nat) (h1 : 1 ≤ i) (h2 : i ≤ b) : (topo b).upsOf i = [0] := by
  unfold Topo.upsOf topo
  simp only
  have : i < ([] :: List.replicate b [0]).length := by simp; omega
  rw [List.getElem?_append_left this]
  obtain ⟨k, rfl⟩ : ∃ k, i = k + 1 := ⟨i - 1, by omega⟩
  simp only [List.getElem?_cons_succ]
  rw [List.getElem?_replicate]
  have : k < b := by omega
  simp [this]

theorem upsOf_join (b : Nat) : (topo b).upsOf (b + 1) = (List.range b).map (· + 1) := by
  unfold Topo.upsOf topo
  simp only
  have : ([] :: List.replicate b [0] : List (List Nat)).length ≤ b + 1 := by simp
  rw [List.getElem?_append_right this]
  simp

theorem upsOf_big (b i : Nat) (h : b + 2 ≤ i) : (topo b).upsOf i = [] := by
  unfold Topo.upsOf topo
  simp only
  rw [List.getElem?_eq_none]
  · rfl
  · simp; omega

/-- the three kinds of nodes -/
theorem node_cases (b i : Nat) : i = 0 ∨ (1 ≤ i ∧ i ≤ b) ∨ i = b + 1 ∨ b + 2 ≤ i := by omega

/-- with at least one worker the splitter is the only node without upstream -/
theorem upsOf_nil (b i : Nat) (hb : 1 ≤ b) (hi : i < b + 2) (h : (topo b).upsOf i = []) : i = 0 := by
  rcases node_cases b i with h0 | ⟨h1, h2⟩ | h3 | h4
  · exact h0
  · rw [upsOf_worker b i h1 h2] at h; cases h
  · subst h3
    rw [upsOf_join] at h
    have : ((List.range b).map (· + 1)).length = 0 := by rw [h]; rfl
    simp at this; omega
  · omega

/-- the upstream of a source of a node: `S` for a worker, worker `j+1` for source `j` of `J` -/
theorem upsOf_get (b i j u : Nat) (h : ((topo b).upsOf i)[j]? = some u) :
    (1 ≤ i ∧ i ≤ b ∧ j = 0 ∧ u = 0) ∨ (i = b + 1 ∧ j < b ∧ u = j + 1) := by
  rcases node_cases b i with h0 | ⟨h1, h2⟩ | h3 | h4
  · subst h0; rw [upsOf_zero] at h; cases h
  · left
    rw [upsOf_worker b i h1 h2] at h
    cases j with
    | zero => simp at h; exact ⟨h1, h2, rfl, h.symm⟩
    | succ k => simp at h
  · right
    subst h3
    rw [upsOf_join, List.getElem?_map] at h
    cases hr : (List.range b)[j]? with
    | none => rw [hr] at h; cases h
    | some v =>
      rw [hr] at h
      have := List.getElem?_eq_some_iff.mp hr
      rcases this with ⟨hl, he⟩
      simp only [List.length_range] at hl
      simp only [List.getElem_range] at he
      subst he
      simp only [Option.map_some, Option.some.injEq] at h
      exact ⟨rfl, hl, h.symm⟩
  · rw [upsOf_big b i h4] at h; cases h

/-! ## routing -/

theorem deliverReqs_get (b : Nat) (nodes : List Node) (i gen : Nat) (outs : List Recv.Out) (u : Nat) :
    (deliverReqs b nodes i gen outs)[u]? =
      (nodes[u]?).map fun nd =>
        { nd with pub := pushReqsAt nd.pub (outOf i u) (outs.filterMap (reqOf i gen ((topo b).upsOf i) u)) } := by
  unfold deliverReqs; rw [List.getElem?_mapIdx]

theorem deliverWires_get (b : Nat) (nodes : List Node) (p : Nat) (outs : List Send.Out) (c : Nat) :
    (deliverWires b nodes p outs)[c]? =
      (nodes[c]?).map fun nd =>
        { nd with con := pushWires nd.con ((topo b).upsOf c) p (outs.filterMap (wireAt p (outOf c p))) } := by
  unfold deliverWires; rw [List.getElem?_mapIdx]

theorem set_get (nodes : List Node) (i : Nat) (nd nd' : Node) (hi : nodes[i]? = some nd) (u : Nat) :
    (nodes.set i nd')[u]? = if u = i then some nd' else nodes[u]? := by
  rw [List.getElem?_set]
  by_cases h : i = u
  · subst h
    have : i < nodes.length := (List.getElem?_eq_some_iff.mp hi).1
    simp [this]
  · have : ¬ u = i := fun hc => h hc.symm
    simp [h, this]

/-- lifting a per-node predicate through `nodeRecv`: the acting node is replaced, every node may get requests -/
theorem forall_deliverReqs (P : Nat → Node → Prop) (b : Nat) (nodes : List Node) (i gen : Nat) (outs : List Recv.Out) (nd nd' : Node)
    (hi : nodes[i]? = some nd)
    (hold : ∀ u x, nodes[u]? = some x → u ≠ i → P u x) (hnew : P i nd')
    (hreq : ∀ u x q rs, P u x → P u { x with pub := pushReqsAt x.pub q rs }) :
    ∀ u x, (deliverReqs b (nodes.set i nd') i gen outs)[u]? = some x → P u x := by
  intro u x hu
  rw [deliverReqs_get, set_get nodes i nd nd' hi] at hu
  by_cases hui : u = i
  · subst hui
    simp only [↓reduceIte, Option.map_some, Option.some.injEq] at hu
    subst hu
    exact hreq _ _ _ _ hnew
  · simp only [hui, ↓reduceIte] at hu
    cases hn : nodes[u]? with
    | none => rw [hn] at hu; cases hu
    | some x0 =>
      rw [hn] at hu
      simp only [Option.map_some, Option.some.injEq] at hu
      subst hu
      exact hreq _ _ _ _ (hold u x0 hn hui)

/-- lifting a per-node predicate through `nodeSend`: the acting node is replaced, every node may get wire messages -/
theorem forall_deliverWires (P : Nat → Node → Prop) (b : Nat) (nodes : List Node) (i : Nat) (outs : List Send.Out) (nd nd' : Node)
    (hi : nodes[i]? = some nd)
    (hold : ∀ u x, nodes[u]? = some x → u ≠ i → P u x) (hnew : P i nd')
    (hwire : ∀ u x, P u x →
      P u { x with con := pushWires x.con ((topo b).upsOf u) i (outs.filterMap (wireAt i (outOf u i))) }) :
    ∀ u x, (deliverWires b (nodes.set i nd') i outs)[u]? = some x → P u x := by
  intro u x hu
  rw [deliverWires_get, set_get nodes i nd nd' hi] at hu
  by_cases hui : u = i
  · subst hui
    simp only [↓reduceIte, Option.map_some, Option.some.injEq] at hu
    subst hu
    exact hwire _ _ hnew
  · simp only [hui, ↓reduceIte] at hu
    cases hn : nodes[u]? with
    | none => rw [hn] at hu; cases hu
    | some x0 =>
      rw [hn] at hu
      simp only [Option.map_some, Option.some.injEq] at hu
      subst hu
      exact hwire _ _ (hold u x0 hn hui)

theorem forall_set (P : Nat → Node → Prop) (nodes : List Node) (i : Nat) (nd nd' : Node) (hi : nodes[i]? = some nd)
    (hold : ∀ u x, nodes[u]? = some x → u ≠ i → P u x) (hnew : P i nd') :
    ∀ u x, (nodes.set i nd')[u]? = some x → P u x := by
  intro u x hu
  rw [set_get nodes i nd nd' hi] at hu
  by_cases hui : u = i
  · subst hui; simp only [↓reduceIte, Option.some.injEq] at hu; subst hu; exact hnew
  · simp only [hui, ↓reduceIte] at hu; exact hold u x hu hui

/-- a wire message delivered on one output is a wire message of the publisher (`Net.wireOf`) -/
theorem wireAt_wireOf (p o : Nat) (x : Send.Out) (w : Wire) (h : wireAt p o x = some w) : wireOf p x = some w := by
  cases x with
  | pub out f mid ts bal body =>
    simp only [wireAt] at h
    split at h
    · rename_i hc
      simp only [wireOf, hc.2, ↓reduceIte]; exact h
    · cases h
  | hello out =>
    simp only [wireAt] at h
    split at h
    · simp only [wireOf]; exact h
    · cases h
  | oob b => cases h
  | evaluated => cases h
  | ret n => cases h
  | retNone => cases h

/-! ## the `Net` node invariant for every node -/

/-- `sendReal_wires` of `C01Net.lean` for an arbitrary poll priority -/
theorem sendReal_wires_prio (tp : Topo) (tbl : List Entry) (i : Nat) (nd : Node) (p : Pending) (prio : List Nat) (t : Int)
    (hnd : NodeInv tp tbl i nd) (hpend : nd.pending = some p) (hi : i < tp.n) (ht : TblOK tbl) :
    ∀ w ∈ (Send.send0 nd.pub nd.sendState (payloadOf tbl.length p.res) false prio t).2.filterMap (wireOf i),
      WireOK tp (tbl ++ entriesOf p.res (sendOrigin i nd p)) w := by
  intro w hw
  rw [List.mem_filterMap] at hw
  rcases hw with ⟨o, ho, hwo⟩
  have hgood := send0_pubs nd.pub nd.sendState (payloadOf tbl.length p.res) false prio t hnd.pubIdle o ho
  have hzero : (0 : Nat) < (tbl ++ entriesOf p.res (sendOrigin i nd p)).length ∧
      originOf (tbl ++ entriesOf p.res (sendOrigin i nd p)) 0 = [] := tblOK_append tbl _ ht
  cases o with
  | pub out f mid ts bal body =>
    simp only [wireOf] at hwo
    split at hwo
    · simp only [Option.some.injEq] at hwo
      subst hwo
      rcases hgood with ⟨e1, e2, e3⟩
      rw [callId_sendId] at e1
      cases hd : dictOf p.res with
      | none =>
        have hL : plList (payloadOf tbl.length p.res) = [] := by simp only [payloadOf, hd, Option.map_none, plList]
        rw [hL] at e2 e3
        simp only [List.map_nil, List.not_mem_nil, or_false] at e2 e3
        rcases e3 with ⟨e3, e4⟩
        subst e2 e3 e4
        refine ⟨hzero.1, by simp, ?_, by intro hc; exact absurd rfl hc⟩
        simp only; rw [hzero.2]; intro o ho; cases ho
      | some d =>
        have hL : plList (payloadOf tbl.length p.res) = relabel tbl.length d := by
          simp only [payloadOf, hd, Option.map_some, plList]
        rw [hL] at e2 e3
        have htop : "" ∉ ts := by
          rw [e2]; intro hc
          rw [List.mem_map] at hc
          rcases hc with ⟨x, hx, hx2⟩
          have := (relabel_spec d tbl.length x hx).2.2
          rw [List.mem_map] at this
          rcases this with ⟨y, hy, hy2⟩
          exact hnd.pendTopics p d hpend hd y hy (hy2.trans hx2)
        rcases e3 with ⟨e3, e4⟩ | e3
        · subst e3 e4
          refine ⟨hzero.1, htop, ?_, by intro hc; exact absurd rfl hc⟩
          simp only; rw [hzero.2]; intro o ho; cases ho
        · rw [List.mem_map] at e3
          rcases e3 with ⟨x, hx, hx2⟩
          have ⟨b1, b2, _⟩ := relabel_spec d tbl.length x hx
          rw [hx2] at b1 b2
          have hent : entriesOf p.res (sendOrigin i nd p) = d.map fun q => ({ content := q.2, orig := sendOrigin i nd p } : Entry) := by
            simp only [entriesOf, hd, Option.getD_some]
          refine ⟨by rw [List.length_append, hent, List.length_map]; exact b2, htop, ?_, by intro _; have := ht.1; simp only; omega⟩
          simp only
          rw [hent, originOf_entries tbl d _ body b1 b2, e1]
          exact sendOrigin_ok tp tbl i nd p hnd hpend hi
    · cases hwo
  | hello out =>
    simp only [wireOf, Option.some.injEq] at hwo
    subst hwo
    refine ⟨hzero.1, by simp, ?_, by intro hc; exact absurd rfl hc⟩
    simp only; rw [hzero.2]; intro o ho; cases ho
  | oob b => cases hwo
  | evaluated => cases hwo
  | ret n => cases hwo
  | retNone => cases hwo

/-- `nodeInv_afterSend` of `C01Net.lean` for an arbitrary poll priority -/
theorem nodeInv_afterSend_prio (tp : Topo) (tbl : List Entry) (i : Nat) (nd : Node) (p : Pending) (pl : Send.Payload)
    (prio : List Nat) (t : Int) (hnd : NodeInv tp tbl i nd) (hpend : nd.pending = some p) :
    NodeInv tp tbl i (afterSend nd p (Send.send0 nd.pub nd.sendState pl false prio t)) := by
  have hidle := send0_inCall nd.pub nd.sendState pl false prio t
  have hfresh := hnd.pendFresh (by rw [hpend]; rfl)
  unfold afterSend
  split
  · exact { hnd with pubIdle := hidle,
                     rstate := (by intro k _; right; exact hfresh),
                     pendFresh := (by intro hc; cases hc),
                     pendOrig := (by intro q hq; cases hq),
                     pendTopics := (by intro q d hq; cases hq) }
  · exact { hnd with pubIdle := hidle }

theorem nodeInv_pushReqsAt (tp : Topo) (tbl : List Entry) (i : Nat) (nd : Node) (q : Nat) (rs : List Send.Req)
    (h : NodeInv tp tbl i nd) : NodeInv tp tbl i { nd with pub := pushReqsAt nd.pub q rs } :=
  { h with pubIdle := h.pubIdle }

structure Base (b : Nat) (st : St) : Prop where
  len : st.nodes.length = b + 2
  tbl : TblOK st.tbl
  nodes : NodesInv (topo b) st.tbl st.nodes

theorem nodeInv_fresh (b : Nat) (ll : Nat → Bool) (tbl : List Entry) (i : Nat) : NodeInv (topo b) tbl i (freshNode b ll i) := by
  have hfresh : Recv.FreshSrcs (((topo b).upsOf i).map fun _ => Recv.mkSrc 0 none) := by
    intro j s hj l hl
    rw [List.getElem?_map] at hj
    cases hu : ((topo b).upsOf i)[j]? with
    | none => rw [hu] at hj; cases hj
    | some u => rw [hu] at hj; cases hj; exact Recv.mkSrc_fresh 0 none l hl
  have hidle : (freshNode b ll i).pub.inCall = false := by
    unfold freshNode; simp only; split <;> rfl
  refine { conIdle := rfl, pubIdle := hidle, shape := ?_, hist := ⟨fun _ => [], ⟨?_, ?_, ?_, ?_⟩, ?_⟩,
           rstate := (by intro k hk; cases hk), pendFresh := (by intro hc; cases hc),
           pendOrig := (by intro p hp; cases hp), pendTopics := (by intro p d hp; cases hp) }
  · simp only [freshNode, Recv.mkSt, ephs, List.map_map]
    apply List.map_congr_left
    intro u _; rfl
  · exact Recv.fresh_inv _ _ _ hfresh
  · apply Recv.prov_fresh _ _ _ hfresh
    intro s hs
    rw [List.mem_map] at hs
    rcases hs with ⟨u, _, rfl⟩; rfl
  · intro e he
    simp only [freshNode, Recv.mkSt, ephs, List.map_map, List.mem_map] at he
    rcases he with ⟨u, _, rfl⟩; rfl
  · intro j s hj l hl
    exact nel_noFrames l (hfresh j s hj l hl)
  · intro j w hw; cases hw

theorem init_get (b : Nat) (ll : Nat → Bool) (u : Nat) (nd : Node) (h : (init b ll).nodes[u]? = some nd) : u < b + 2 ∧ nd = freshNode b ll u := by
  simp only [init, List.getElem?_map] at h
  cases hr : (List.range (b + 2))[u]? with
  | none => rw [hr] at h; cases h
  | some v =>
    rw [hr] at h
    simp only [Option.map_some, Option.some.injEq] at h
    have := List.getElem?_eq_some_iff.mp hr
    rcases this with ⟨hl, he⟩
    simp only [List.length_range] at hl
    simp only [List.getElem_range] at he
    subst he
    exact ⟨hl, h.symm⟩

theorem base_init (b : Nat) (ll : Nat → Bool) : Base b (init b ll) := by
  refine ⟨by simp [init], ⟨by simp [init], rfl⟩, ?_⟩
  intro u nd hu
  have ⟨_, e⟩ := init_get b ll u nd hu
  subst e
  exact nodeInv_fresh b ll _ u

theorem base_stepRecv (b : Nat) (proc : Proc) (hp : ProcOK proc) (st : St) (i : Nat) (h : Base b st) :
    Base b (stepRecv b proc st i).1 := by
  unfold stepRecv
  cases hn : st.nodes[i]? with
  | none => exact h
  | some nd =>
    simp only
    have hnd := h.nodes i nd hn
    split
    · exact h
    · rename_i hpend
      have hpn : nd.pending = none := by
        cases hc : nd.pending with
        | none => rfl
        | some x => rw [hc] at hpend; simp at hpend
      split
      · rename_i hsrc
        unfold recvSource
        refine ⟨by simp only [List.length_set]; exact h.len, h.tbl, ?_⟩
        apply nodesInv_set (topo b) st.tbl st.nodes i _ h.nodes
        apply nodeInv_processed (topo b) proc hp st.tbl i nd [] hnd
        · intro j s hj
          have : nd.con.srcs = [] := by simpa using hsrc
          rw [this] at hj; cases hj
        · intro f hf; cases hf
        · intro f hf; cases hf
      · unfold recvRelay
        refine ⟨by simp only [deliverReqs, List.length_mapIdx, List.length_set]; exact h.len, h.tbl, ?_⟩
        exact forall_deliverReqs (NodeInv (topo b) st.tbl) b st.nodes i nd.gen _ nd _ hn
          (fun u x hu _ => h.nodes u x hu)
          (nodeInv_afterRecv (topo b) proc hp st.tbl i nd _ hnd hpn).1
          (fun u x q rs hx => nodeInv_pushReqsAt (topo b) st.tbl u x q rs hx)

theorem base_stepSend (b : Nat) (st : St) (i : Nat) (t : Int) (h : Base b st) : Base b (stepSend b st i t).1 := by
  unfold stepSend
  cases hn : st.nodes[i]? with
  | none => exact h
  | some nd =>
    simp only
    have hnd := h.nodes i nd hn
    have hi : i < (topo b).n := by rw [topo_n, ← h.len]; exact (List.getElem?_eq_some_iff.mp hn).1
    cases hpend : nd.pending with
    | none => exact h
    | some p =>
      simp only
      split
      · unfold sendReal
        refine ⟨by simp only [deliverWires, List.length_mapIdx, List.length_set]; exact h.len, tblOK_append _ _ h.tbl, ?_⟩
        simp only
        refine forall_deliverWires (NodeInv (topo b) (st.tbl ++ entriesOf p.res (sendOrigin i nd p))) b st.nodes i _ nd _ hn
          (fun u x hu _ => nodeInv_append (topo b) st.tbl _ u x (h.nodes u x hu))
          (nodeInv_append (topo b) st.tbl _ i _ (nodeInv_afterSend_prio (topo b) st.tbl i nd p _ _ t hnd hpend)) ?_
        intro u x hx
        apply nodeInv_pushWires (topo b) _ u x _ i _ hx
        intro w hw
        rw [List.mem_filterMap] at hw
        rcases hw with ⟨o, ho, hwo⟩
        apply sendReal_wires_prio (topo b) st.tbl i nd p (sendPrio nd) t hnd hpend hi h.tbl
        rw [List.mem_filterMap]
        exact ⟨o, ho, wireAt_wireOf i _ o w hwo⟩
      · unfold sendSkip
        refine ⟨by simp only [List.length_set]; exact h.len, h.tbl, ?_⟩
        apply nodesInv_set (topo b) st.tbl st.nodes i _ h.nodes
        exact { hnd with pendFresh := (by intro hc; cases hc),
                         pendOrig := (by intro q hq; cases hq),
                         pendTopics := (by intro q d hq; cases hq) }

theorem base_step (b : Nat) (proc : Proc) (hp : ProcOK proc) (st : St) (e : Ev) (hne : e.isRestart = false) (h : Base b st) :
    Base b (step b proc st e).1 := by
  cases e with
  | nodeRecv i => exact base_stepRecv b proc hp st i h
  | nodeSend i t => exact base_stepSend b st i t h
  | restart i g => cases hne

end OF.NetBal
