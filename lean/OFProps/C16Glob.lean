import OFProps.GlobLemmas
/-!
# C16 — what `globMatch` (the transcription of Python's `fnmatch.fnmatchcase`) computes

* `C16_glob_affix_iff` — a pattern `p*q` whose `p`, `q` contain no special character matches exactly the names that start
  with `p`, end with `q` AND are at least `|p| + |q|` long (prefix and suffix may not overlap);
* `C16_glob_sound_complete` — `globMatch p s = true ↔ GlobSpec (parse p) s`: a DECLARATIVE specification of glob matching
  (inductive relation over pattern tokens: literal, `?`, `*` = any string, bracket class with negation and ranges as a set of
  items) - full equivalence, bracket classes included.  The class syntax specified is the model's (`classMem`: `a-b` is a range
  wherever three characters are left, read left to right), i.e. what the tie compares with Python's `fnmatch`.

Quantifier: every pattern / name (strings of any length, any characters).
-/
namespace OF.Allow

/-! ## fragments of the fuel-free relation -/

theorem glob_nil_iff (s : List Char) : Glob [] s ↔ s = [] := by
  constructor
  · intro h; cases h; rfl
  · intro h; subst h; exact .nil

/-- a literal prefix matches itself -/
theorem glob_plain_prefix (p r : List Char) (hp : ∀ c ∈ p, plainChar c) (s : List Char) :
    Glob (p ++ r) s ↔ ∃ t, s = p ++ t ∧ Glob r t := by
  induction p generalizing s with
  | nil => simp
  | cons a p ih =>
    have ha : plainChar a := hp a (List.mem_cons_self ..)
    have hp' : ∀ c ∈ p, plainChar c := fun c hc => hp c (List.mem_cons_of_mem _ hc)
    constructor
    · intro h
      rw [List.cons_append] at h
      cases h with
      | starSkip _ => exact absurd rfl ha.1
      | starEat _ _ => exact absurd rfl ha.1
      | any _ _ => exact absurd rfl ha.2.1
      | brk _ _ _ _ => exact absurd rfl ha.2.2
      | brkLit _ _ => exact absurd rfl ha.2.2
      | lit _ _ h' =>
        obtain ⟨t, rfl, ht⟩ := (ih hp' _).mp h'
        exact ⟨t, rfl, ht⟩
    · rintro ⟨t, rfl, ht⟩
      exact .lit a ha ((ih hp' _).mpr ⟨t, rfl, ht⟩)

/-- `*` matches any (possibly empty) run of characters -/
theorem glob_star_iff (q s : List Char) : Glob ('*' :: q) s ↔ ∃ t u, s = t ++ u ∧ Glob q u := by
  constructor
  · intro h
    generalize hP : '*' :: q = P at h
    induction h with
    | nil => cases hP
    | @starSkip p s h _ => injection hP with _ hq; subst hq; exact ⟨[], s, rfl, h⟩
    | @starEat p s c _ ih =>
      obtain ⟨t, u, rfl, hu⟩ := ih hP
      exact ⟨c :: t, u, rfl, hu⟩
    | any _ _ _ => injection hP with hc _; exact absurd hc (by decide)
    | brk _ _ _ _ _ => injection hP with hc _; exact absurd hc (by decide)
    | brkLit _ _ _ => injection hP with hc _; exact absurd hc (by decide)
    | lit a ha _ _ => injection hP with hc _; exact absurd hc.symm ha.1
  · rintro ⟨t, u, rfl, hu⟩
    induction t with
    | nil => exact .starSkip hu
    | cons c t ih => exact .starEat c ih

theorem glob_affix_iff (p q s : List Char) (hp : ∀ c ∈ p, plainChar c) (hq : ∀ c ∈ q, plainChar c) :
    Glob (p ++ '*' :: q) s ↔ p <+: s ∧ q <:+ s ∧ p.length + q.length ≤ s.length := by
  rw [glob_plain_prefix p _ hp]
  constructor
  · rintro ⟨t, rfl, ht⟩
    obtain ⟨m, u, rfl, hu⟩ := (glob_star_iff q t).mp ht
    have hu' := (glob_plain_prefix q [] hq u).mp (by rw [List.append_nil]; exact hu)
    obtain ⟨e, rfl, he⟩ := hu'
    rw [(glob_nil_iff e).mp he, List.append_nil]
    refine ⟨List.prefix_append _ _, ⟨p ++ m, by simp⟩, by simp⟩
  · rintro ⟨⟨t, rfl⟩, hsuf, hlen⟩
    refine ⟨t, rfl, ?_⟩
    have hqt : q <:+ t :=
      List.suffix_of_suffix_length_le hsuf (List.suffix_append p t) (by simp only [List.length_append] at hlen; omega)
    obtain ⟨m, rfl⟩ := hqt
    refine (glob_star_iff q _).mpr ⟨m, q, rfl, ?_⟩
    have := (glob_plain_prefix q [] hq q).mpr ⟨[], by simp, .nil⟩
    rwa [List.append_nil] at this

/-! ## the theorem on strings -/

/-- **C16** (`prefix*suffix` patterns): for `p`, `q` without special characters (`*`, `?`, `[`), the pattern `p*q` matches `s` iff
`s` starts with `p`, ends with `q` and is long enough for the two not to overlap.  (The length condition is what an
"optimised" matcher `s.startswith(p) and s.endswith(q)` forgets.) -/
theorem C16_glob_affix_iff (p q s : String)
    (hp : ∀ c ∈ p.toList, c ≠ '*' ∧ c ≠ '?' ∧ c ≠ '[') (hq : ∀ c ∈ q.toList, c ≠ '*' ∧ c ≠ '?' ∧ c ≠ '[') :
    globMatch (p ++ "*" ++ q) s = true ↔
      p.toList <+: s.toList ∧ q.toList <:+ s.toList ∧ p.length + q.length ≤ s.length := by
  rw [globMatch_iff]
  have : (p ++ "*" ++ q).toList = p.toList ++ '*' :: q.toList := by
    simp only [String.toList_append, List.append_assoc]; rfl
  rw [this, glob_affix_iff _ _ _ hp hq, String.length_toList, String.length_toList, String.length_toList]

/-- the corollaries for a pure prefix pattern `p*` and a pure suffix pattern `*q` -/
theorem C16_glob_prefix_iff (p s : String) (hp : ∀ c ∈ p.toList, c ≠ '*' ∧ c ≠ '?' ∧ c ≠ '[') :
    globMatch (p ++ "*") s = true ↔ p.toList <+: s.toList := by
  have h := C16_glob_affix_iff p "" s hp (by intro c hc; cases hc)
  rw [String.append_empty] at h
  rw [h]
  constructor
  · exact fun h => h.1
  · intro h; exact ⟨h, List.nil_suffix, by have := h.length_le; simp only [String.length_toList] at this; simpa using this⟩

theorem C16_glob_suffix_iff (q s : String) (hq : ∀ c ∈ q.toList, c ≠ '*' ∧ c ≠ '?' ∧ c ≠ '[') :
    globMatch ("*" ++ q) s = true ↔ q.toList <:+ s.toList := by
  have h := C16_glob_affix_iff "" q s (by intro c hc; cases hc) hq
  rw [String.empty_append] at h
  rw [h]
  constructor
  · exact fun h => h.2.1
  · intro h; exact ⟨List.nil_prefix, h, by have := h.length_le; simp only [String.length_toList] at this; simpa using this⟩

/-- non-vacuity: hypotheses hold and both sides are true / both false -/
example : (∀ c ∈ "frame_".toList, c ≠ '*' ∧ c ≠ '?' ∧ c ≠ '[') ∧ (∀ c ∈ "_total".toList, c ≠ '*' ∧ c ≠ '?' ∧ c ≠ '[') ∧
    globMatch ("frame_" ++ "*" ++ "_total") "frame_count_total" = true ∧
    "frame_".toList <+: "frame_count_total".toList ∧ "_total".toList <:+ "frame_count_total".toList := by decide +kernel

/-- NEGATIVE witness of the seeded variant (affix matching without the length condition): `"abc"` starts with `"ab"` and ends
with `"bc"`, but `fnmatch("abc", "ab*bc")` is false - the prefix and the suffix overlap -/
example : "ab".toList <+: "abc".toList ∧ "bc".toList <:+ "abc".toList ∧ ¬ ("ab".length + "bc".length ≤ "abc".length) ∧
    globMatch ("ab" ++ "*" ++ "bc") "abc" = false ∧ globMatch "ab*bc" "abbc" = true := by decide +kernel

/-- the hypothesis on `p` is needed: with a `?` inside, `p` is not a literal prefix -/
example : globMatch ("a?" ++ "*" ++ "c") "abc" = true ∧ ¬ "a?".toList <+: "abc".toList := by decide +kernel


/-! ## a declarative specification of glob matching -/

/-- an item of a bracket class: a single character or a range `a-b` -/
inductive Item where
  | single (a : Char)
  | range (a b : Char)
deriving Repr, DecidableEq

/-- pattern tokens -/
inductive Tok where
  | lit (c : Char)                          -- an ordinary character (also a `[` that no `]` closes)
  | any                                     -- `?`
  | star                                    -- `*`
  | cls (neg : Bool) (items : List Item)    -- `[...]` / `[!...]`
deriving Repr, DecidableEq

def Item.Matches (c : Char) : Item → Prop
  | .single a => a = c
  | .range a b => a.toNat ≤ c.toNat ∧ c.toNat ≤ b.toNat

/-- `c` is in the class: some item matches it - or, negated, none does -/
def ClassMatches (neg : Bool) (items : List Item) (c : Char) : Prop := (∃ it ∈ items, it.Matches c) ↔ neg = false

/-- the items of a class body (after the `!`): `a-b` is a range, anything else a single character -/
def parseClass : List Char → List Item
  | a :: d :: b :: r => if d = '-' then .range a b :: parseClass r else .single a :: parseClass (d :: b :: r)
  | a :: r => .single a :: parseClass r
  | [] => []

def bracketTok (body : List Char) : Tok :=
  match body with
  | [] => .cls false []
  | a :: r => if a = '!' then .cls true (parseClass r) else .cls false (parseClass (a :: r))

/-- the tokens of a pattern -/
def tokens (p : List Char) : List Tok :=
  match p with
  | [] => []
  | a :: p' =>
    if a = '*' then .star :: tokens p'
    else if a = '?' then .any :: tokens p'
    else if a = '[' then
      match _h : splitBracket p' with
      | some (body, rest) => bracketTok body :: tokens rest
      | none => .lit '[' :: tokens p'
    else .lit a :: tokens p'
termination_by p.length
decreasing_by
  all_goals simp_wf
  all_goals first | omega | (have := splitBracket_length _h; omega)

/-- the specification: what it means for a token list to match a name -/
inductive GlobSpec : List Tok → List Char → Prop where
  | nil : GlobSpec [] []
  | lit {ts s} (c : Char) : GlobSpec ts s → GlobSpec (.lit c :: ts) (c :: s)
  | any {ts s} (c : Char) : GlobSpec ts s → GlobSpec (.any :: ts) (c :: s)
  | star {ts s} (u : List Char) : GlobSpec ts s → GlobSpec (.star :: ts) (u ++ s)
  | cls {ts s neg items} (c : Char) : ClassMatches neg items c → GlobSpec ts s → GlobSpec (.cls neg items :: ts) (c :: s)

theorem tokens_nil : tokens [] = [] := by rw [tokens]
theorem tokens_star (p : List Char) : tokens ('*' :: p) = .star :: tokens p := by rw [tokens]; simp
theorem tokens_any (p : List Char) : tokens ('?' :: p) = .any :: tokens p := by rw [tokens]; simp
theorem tokens_lit (a : Char) (p : List Char) (ha : plainChar a) : tokens (a :: p) = .lit a :: tokens p := by
  rw [tokens]; simp [ha.1, ha.2.1, ha.2.2]
theorem tokens_brk_some (p body rest : List Char) (h : splitBracket p = some (body, rest)) :
    tokens ('[' :: p) = bracketTok body :: tokens rest := by
  rw [tokens]; simp only [Char.reduceEq, if_false, if_true]
  split
  · rename_i b r h'; rw [h] at h'; cases h'; rfl
  · rename_i h'; rw [h] at h'; cases h'
theorem tokens_brk_none (p : List Char) (h : splitBracket p = none) :
    tokens ('[' :: p) = .lit '[' :: tokens p := by
  rw [tokens]; simp only [Char.reduceEq, if_false, if_true]
  split
  · rename_i b r h'; rw [h] at h'; cases h'
  · rfl

/-! ### the bracket class -/

theorem classMem_range (c a b : Char) (r : List Char) :
    classMem c (a :: '-' :: b :: r) = ((a.toNat ≤ c.toNat && c.toNat ≤ b.toNat) || classMem c r) := rfl

theorem classMem_single (c a : Char) (r : List Char) (h : ∀ b r', r ≠ '-' :: b :: r') :
    classMem c (a :: r) = ((a == c) || classMem c r) := by
  rw [classMem.eq_def]
  split
  · rename_i e; cases e; exact absurd rfl (h _ _)
  · rename_i e; cases e; rfl
  · rename_i e; cases e

theorem classMem_iff (c : Char) : ∀ (body : List Char), classMem c body = true ↔ ∃ it ∈ parseClass body, it.Matches c
  | [] => by simp [classMem, parseClass]
  | [a] => by
    rw [classMem_single c a [] (by intro b r' h; cases h)]
    simp [classMem, parseClass, Item.Matches]
  | [a, d] => by
    rw [classMem_single c a [d] (by intro b r' h; cases h), classMem_single c d [] (by intro b r' h; cases h)]
    simp [classMem, parseClass, Item.Matches]
  | a :: d :: b :: r => by
    by_cases hd : d = '-'
    · subst hd
      rw [classMem_range, parseClass]
      simp only [if_true, Bool.or_eq_true, Bool.and_eq_true, decide_eq_true_eq, List.mem_cons, exists_eq_or_imp,
        classMem_iff c r, Item.Matches]
    · rw [classMem_single c a (d :: b :: r) (by intro b' r' h; cases h; exact hd rfl), parseClass]
      simp only [hd, if_false, Bool.or_eq_true, beq_iff_eq, List.mem_cons, exists_eq_or_imp,
        classMem_iff c (d :: b :: r), Item.Matches]

theorem bracketMatches_iff (body : List Char) (c : Char) :
    bracketMatches body c = true ↔ ∃ neg items, bracketTok body = .cls neg items ∧ ClassMatches neg items c := by
  cases body with
  | nil => simp [bracketMatches, bracketTok, ClassMatches, classMem]
  | cons a r =>
    by_cases ha : a = '!'
    · subst ha
      have : bracketMatches ('!' :: r) c = !classMem c r := rfl
      rw [this]
      simp only [bracketTok, if_true, Tok.cls.injEq]
      constructor
      · intro h
        refine ⟨true, parseClass r, ⟨rfl, rfl⟩, ?_⟩
        unfold ClassMatches
        rw [← classMem_iff]
        simpa using h
      · rintro ⟨neg, items, ⟨rfl, rfl⟩, h⟩
        unfold ClassMatches at h
        rw [← classMem_iff] at h
        simpa using h
    · have : bracketMatches (a :: r) c = classMem c (a :: r) := by
        unfold bracketMatches
        split
        · rename_i e; cases e; exact absurd rfl ha
        · rfl
      rw [this]
      simp only [bracketTok, ha, if_false, Tok.cls.injEq]
      constructor
      · intro h
        refine ⟨false, parseClass (a :: r), ⟨rfl, rfl⟩, ?_⟩
        unfold ClassMatches
        rw [← classMem_iff]
        simpa using h
      · rintro ⟨neg, items, ⟨rfl, rfl⟩, h⟩
        unfold ClassMatches at h
        rw [← classMem_iff] at h
        simpa using h

/-! ### soundness and completeness -/

theorem globSpec_of_glob {p s : List Char} (h : Glob p s) : GlobSpec (tokens p) s := by
  induction h with
  | nil => rw [tokens_nil]; exact .nil
  | starSkip _ ih => rw [tokens_star]; exact .star [] ih
  | starEat c _ ih =>
    rw [tokens_star] at ih ⊢
    cases ih with
    | star u h' => exact .star (c :: u) h'
  | any c _ ih => rw [tokens_any]; exact .any c ih
  | brk c hb hm _ ih =>
    rw [tokens_brk_some _ _ _ hb]
    obtain ⟨neg, items, e, hc⟩ := (bracketMatches_iff _ c).mp hm
    rw [e]; exact .cls c hc ih
  | brkLit hb _ ih => rw [tokens_brk_none _ hb]; exact .lit '[' ih
  | lit a ha _ ih => rw [tokens_lit a _ ha]; exact .lit a ih

theorem glob_of_globSpec : ∀ (n : Nat) (p s : List Char), p.length ≤ n → GlobSpec (tokens p) s → Glob p s := by
  intro n
  induction n with
  | zero =>
    intro p s hn h
    cases p with
    | nil => rw [tokens_nil] at h; cases h; exact .nil
    | cons a p => simp at hn
  | succ n ih =>
    intro p s hn h
    cases p with
    | nil => rw [tokens_nil] at h; cases h; exact .nil
    | cons a p =>
      have hn' : p.length ≤ n := by simp only [List.length_cons] at hn; omega
      by_cases h1 : a = '*'
      · subst h1
        rw [tokens_star] at h
        cases h with
        | star u h' => exact (glob_star_iff p _).mpr ⟨u, _, rfl, ih p _ hn' h'⟩
      by_cases h2 : a = '?'
      · subst h2
        rw [tokens_any] at h
        cases h with
        | any c h' => exact .any c (ih p _ hn' h')
      by_cases h3 : a = '['
      · subst h3
        cases hb : splitBracket p with
        | none =>
          rw [tokens_brk_none _ hb] at h
          cases h with
          | lit c h' => exact .brkLit hb (ih p _ hn' h')
        | some br =>
          obtain ⟨body, rest⟩ := br
          rw [tokens_brk_some _ _ _ hb] at h
          have hr : rest.length ≤ n := by have := splitBracket_length hb; omega
          generalize ht : bracketTok body = tk at h
          cases h with
          | lit c h' => cases body with
            | nil => simp [bracketTok] at ht
            | cons x r => simp only [bracketTok] at ht; split at ht <;> cases ht
          | any c h' => cases body with
            | nil => simp [bracketTok] at ht
            | cons x r => simp only [bracketTok] at ht; split at ht <;> cases ht
          | star u h' => cases body with
            | nil => simp [bracketTok] at ht
            | cons x r => simp only [bracketTok] at ht; split at ht <;> cases ht
          | cls c hc h' =>
            exact .brk c hb ((bracketMatches_iff body c).mpr ⟨_, _, ht, hc⟩) (ih rest _ hr h')
      · rw [tokens_lit a p ⟨h1, h2, h3⟩] at h
        cases h with
        | lit c h' => exact .lit a ⟨h1, h2, h3⟩ (ih p _ hn' h')

theorem glob_iff_globSpec (p s : List Char) : Glob p s ↔ GlobSpec (tokens p) s :=
  ⟨globSpec_of_glob, glob_of_globSpec p.length p s (Nat.le_refl _)⟩

/-- the tokens of a pattern string -/
def parse (p : String) : List Tok := tokens p.toList

/-- **C16** (`globMatch` is sound and complete for the declarative specification): the executable matcher (the transcription of
`fnmatch.fnmatchcase`, with fuel) accepts `s` for the pattern `p` iff the tokens of `p` match `s` in the sense of `GlobSpec`:
a literal matches itself, `?` any one character, `*` any (possibly empty) string, `[...]` one character that is in the class
(`[!...]`: that is not), a class being single characters and ranges `a-b`. -/
theorem C16_glob_sound_complete (p s : String) : globMatch p s = true ↔ GlobSpec (parse p) s.toList := by
  rw [globMatch_iff]; exact glob_iff_globSpec _ _

/-! ### non-vacuity (the tokens by the equation lemmas, the derivation explicit, the matcher kernel-evaluated) -/

theorem parse_example :
    parse "a[!0-9]*?" = [.lit 'a', .cls true [.range '0' '9'], .star, .any] := by
  show tokens ['a', '[', '!', '0', '-', '9', ']', '*', '?'] = _
  rw [tokens_lit _ _ ⟨by decide, by decide, by decide⟩, tokens_brk_some _ ['!', '0', '-', '9'] ['*', '?'] (by decide),
    tokens_star, tokens_any, tokens_nil]
  rfl

/-- both sides of `C16_glob_sound_complete` hold for `"a[!0-9]*?"` / `"axyz"` … -/
example : globMatch "a[!0-9]*?" "axyz" = true ∧ GlobSpec (parse "a[!0-9]*?") "axyz".toList := by
  refine ⟨by decide +kernel, ?_⟩
  rw [parse_example]
  exact .lit 'a' (.cls 'x' (by simp [ClassMatches, Item.Matches]) (.star ['y'] (.any 'z' .nil)))

/-- … and both fail for `"a5yz"` (the negated class rejects the digit) and for `"ax"` (`?` needs one more character) -/
example : globMatch "a[!0-9]*?" "a5yz" = false ∧ globMatch "a[!0-9]*?" "ax" = false ∧
    ¬ GlobSpec (parse "a[!0-9]*?") "a5yz".toList :=
  ⟨by decide +kernel, by decide +kernel, fun h => by
    have := (C16_glob_sound_complete "a[!0-9]*?" "a5yz").mpr h
    revert this; decide +kernel⟩

/-- an unclosed `[` is a literal, `]` right after `[` / `[!` belongs to the class -/
example : globMatch "x[y" "x[y" = true ∧ globMatch "[]a]" "]" = true ∧ globMatch "[!]a]" "]" = false ∧
    globMatch "[!]a]" "b" = true := by decide +kernel

end OF.Allow
