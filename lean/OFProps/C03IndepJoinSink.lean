import OFProps.IndepJoinSinkInv
import OFProps.C03IndepJoin
set_option linter.unusedSimpArgs false
set_option linter.unusedVariables false
/-!
# C03, stage C on the network model — the independent join WITH A SINK below it

Topology `joinSinkTopo b` (`b ≥ 1`): source filters `0 … b-1` (own frame counters), the join `J = b` subscribed to all of them, the
sink `K = b + 1` subscribed to the join.  The join publishes what its `process()` makes of every set under the id of that set; the
sink's requests throttle the join, the join's requests throttle the sources.  Hypotheses and quantifier as in
`C03IndepJoin.lean` (`ProcNames`, `OwnedSrc`, every restart-free schedule of `nodeRecv | nodeSend @t`).

* `C03_net_indep_join_sink_composition`: (join) the sets handed to the join are a PREFIX of `joinSpec proc b N`; (sink) the sets handed
  to the sink are a PREFIX of the join's process function threaded through those sets (`throughFrom proc b 0 (joinSpec proc b N)`,
  visible topics): `None` of the join drops that id for the sink, `{}` arrives as an empty set, a callable as its value.
* `C03_net_indep_join_sink_surviving`: the same without `NoSkipSrc` (the `n`-th surviving frames).
* `_run` on the observations of `Net.run`.
Proof: `IndepJoinSinkInv.lean` (`GoodK`, `goodK_lrun`).
-/
namespace OF.Net
open OF.Chain (Blk ChanQ BlkOK Rest visData vis KInv Mode ConsecFrom headTs visDataJ)
open OF.Recv (Src Wire Msg Topic)

/-- the log of the join and of the sink under the invariant -/
theorem goodK_prefix (proc : Proc) (b : Nat) (hb : 1 ≤ b) (owner : Topic → Nat) (X : LSt) (hg : GoodK proc b owner X) :
    X.log b <+: joinSpecSurv proc b (cntOf X) ∧
    X.log (b + 1) <+: (throughFrom proc b 0 (joinSpecSurv proc b (cntOf X))).map visB := by
  rcases hg with ⟨pubF, bss, pubJ, h⟩
  have hJL : b < X.st.nodes.length := by rw [h.len]; omega
  have hJn : X.st.nodes[b]? = some X.st.nodes[b] := List.getElem?_eq_getElem hJL
  generalize X.st.nodes[b] = J at hJn
  have hJ := h.join J hJn
  have hKL : b + 1 < X.st.nodes.length := by rw [h.len]; omega
  have hKn : X.st.nodes[b + 1]? = some X.st.nodes[b + 1] := List.getElem?_eq_getElem hKL
  generalize X.st.nodes[b + 1] = K at hKn
  have hget : ∀ u, u < b → (pubF u).length ≤ (srcBlocksOf proc u (cntOf X u)).length ∧
      ∀ n, n < (pubF u).length → (pubF u)[n]? = (srcBlocksOf proc u (cntOf X u))[n]? := by
    intro u hu
    have huL : u < X.st.nodes.length := by rw [h.len]; omega
    have hU : X.st.nodes[u]? = some X.st.nodes[u] := List.getElem?_eq_getElem huL
    generalize X.st.nodes[u] = P at hU
    have hc : cntOf X u = P.count := by unfold cntOf; rw [hU]; rfl
    have hp := (h.pubs u P hu hU).prod
    simp only [prodOf, ↓reduceIte] at hp
    unfold srcBlocksOf
    rw [hc, hp]
    refine ⟨by rw [List.length_append]; omega, ?_⟩
    intro n hn
    rw [List.getElem?_append_left hn]
  have hcS : J.count ≤ minOver (fun i => (srcBlocksOf proc i (cntOf X i)).length) b := by
    apply le_minOver _ _ b hb
    intro i hi
    have := (hget i hi).1
    have := hJ.le i hi
    show J.count ≤ (srcBlocksOf proc i (cntOf X i)).length
    omega
  have heq : joinLogS b pubF J.count = (joinSpecSurv proc b (cntOf X)).take J.count := by
    unfold joinLogS joinSpecSurv
    rw [← List.map_take, List.take_range, Nat.min_eq_left hcS]
    apply List.map_congr_left
    intro n hn
    rw [List.mem_range] at hn
    congr 1
    apply flatMap_congr_mem
    intro jj hjj
    rw [List.mem_range] at hjj
    rw [(hget jj hjj).2 n (by have := hJ.le jj hjj; omega)]
  have hpre : X.log b <+: joinSpecSurv proc b (cntOf X) := by rw [hJ.log, heq]; exact List.take_prefix _ _
  refine ⟨hpre, ?_⟩
  rcases h.ck K hKn with ⟨bsW, s, hc⟩
  have hpj := (h.pj J hJn).prod
  have hb0 : ¬ b = 0 := by omega
  simp only [prodOf, hb0, ↓reduceIte] at hpj
  rw [hc.handed]
  refine List.IsPrefix.trans (prefix_map_visB _ _ (List.take_prefix _ _)) ?_
  refine List.IsPrefix.trans (prefix_map_visB _ _ (List.prefix_append pubJ (pendOf J))) ?_
  rw [← hpj]
  exact prefix_map_visB _ _ (throughFrom_prefix proc b _ _ hpre)

/-- **C03, stage C, the independent join with a sink below it, general form (sources may skip)**: on `joinSinkTopo b`, for every
process-function family with dict-like results (`ProcNames`) in which every source publishes topic names of its own (`OwnedSrc`),
every restart-free schedule of `nodeRecv | nodeSend @t`: the sets handed to the JOIN are a prefix of `joinSpecSurv` (set `n` = the
`n`-th surviving frames of all sources, id `n`), and the sets handed to the SINK are a prefix of the visible part of what the join's
process function makes of those sets, in order, under their ids (`None` drops the id for the sink). -/
theorem C03_net_indep_join_sink_surviving (proc : Proc) (hp : ProcNames proc) (b : Nat) (hb : 1 ≤ b)
    (owner : Topic → Nat) (hown : OwnedSrc proc b owner) (evs : List Ev) (hnr : ∀ e ∈ evs, isRestart e = false) :
    (lrun (joinSinkTopo b) proc (linit (joinSinkTopo b)) evs).log b <+:
      joinSpecSurv proc b (cntOf (lrun (joinSinkTopo b) proc (linit (joinSinkTopo b)) evs)) ∧
    (lrun (joinSinkTopo b) proc (linit (joinSinkTopo b)) evs).log (b + 1) <+:
      (throughFrom proc b 0 (joinSpecSurv proc b (cntOf (lrun (joinSinkTopo b) proc (linit (joinSinkTopo b)) evs)))).map visB :=
  goodK_prefix proc b hb owner _ (goodK_lrun proc hp b hb owner hown evs _ ⟨_, _, _, goodK_init proc b hb owner⟩ hnr)

/-- **C03, stage C, the independent join with a sink below it**: topology `joinSinkTopo b` — `b ≥ 1` source filters `0 … b-1`
(own frame counters), the join `J = b` subscribed to ALL of them, the sink `K = b + 1` subscribed to the join.  For every
process-function family with dict-like results (`ProcNames`) in which NO source returns `None` (`NoSkipSrc`) and every source
publishes topic names of its own (`OwnedSrc`), every restart-free schedule `evs` of `nodeRecv | nodeSend @t` events (no bound, any
clock readings, any interleaving):
* the sets handed to the JOIN's `process()` are a PREFIX of `joinSpec proc b N` (frame `n` of every source with frame `n` of every
  other source under id `n`; `N` = the smallest number of frames any source has produced);
* the sets handed to the SINK's `process()` are a PREFIX of the visible part of `throughFrom proc b 0 (joinSpec proc b N)`: the
  join's process function applied to those sets in order (its `n`-th call on set `n`; `None` drops that id for the sink, `{}` is an
  empty set, a lone frame is `main`, a callable its value), each under the id of the set it was computed from. -/
theorem C03_net_indep_join_sink_composition (proc : Proc) (hp : ProcNames proc) (b : Nat) (hb : 1 ≤ b) (hns : NoSkipSrc proc b)
    (owner : Topic → Nat) (hown : OwnedSrc proc b owner) (evs : List Ev) (hnr : ∀ e ∈ evs, isRestart e = false) :
    (lrun (joinSinkTopo b) proc (linit (joinSinkTopo b)) evs).log b <+:
      joinSpec proc b (minCount (lrun (joinSinkTopo b) proc (linit (joinSinkTopo b)) evs) b) ∧
    (lrun (joinSinkTopo b) proc (linit (joinSinkTopo b)) evs).log (b + 1) <+:
      (throughFrom proc b 0 (joinSpec proc b (minCount (lrun (joinSinkTopo b) proc (linit (joinSinkTopo b)) evs) b))).map visB := by
  have := C03_net_indep_join_sink_surviving proc hp b hb owner hown evs hnr
  rw [joinSpecSurv_noskip proc b hns] at this
  exact this

/-- `C03_net_indep_join_sink_composition` on the observations of the model's own `run` -/
theorem C03_net_indep_join_sink_composition_run (proc : Proc) (hp : ProcNames proc) (b : Nat) (hb : 1 ≤ b) (hns : NoSkipSrc proc b)
    (owner : Topic → Nat) (hown : OwnedSrc proc b owner) (evs : List Ev) (hnr : ∀ e ∈ evs, isRestart e = false) :
    (handedTo b evs (run (joinSinkTopo b) proc (init (joinSinkTopo b)) evs).2).map contentsOf <+:
      joinSpec proc b (minOver (fun i => (((run (joinSinkTopo b) proc (init (joinSinkTopo b)) evs).1.nodes[i]?).map (·.count)).getD 0) b) ∧
    (handedTo (b + 1) evs (run (joinSinkTopo b) proc (init (joinSinkTopo b)) evs).2).map contentsOf <+:
      (throughFrom proc b 0 (joinSpec proc b
        (minOver (fun i => (((run (joinSinkTopo b) proc (init (joinSinkTopo b)) evs).1.nodes[i]?).map (·.count)).getD 0) b))).map visB := by
  have := C03_net_indep_join_sink_composition proc hp b hb hns owner hown evs hnr
  rw [lrun_log, lrun_log] at this
  simp only [linit, List.nil_append] at this
  unfold minCount cntOf at this
  rw [lrun_st] at this
  exact this

/-! ### non-vacuity -/

/-- sources as `jProc`; the join (node 2) sums the contents into the topic `sum` (a hidden topic beside it) and returns `None` for
its second set; the sink: anything -/
def qProc : Proc := fun i n h =>
  match i with
  | 2 => if n = 1 then .now .none else .now (.dict [("sum", (h.map (·.2)).sum), ("_n", n)])
  | 3 => .now .none
  | _ => jProc i n h

def jK (t : Int) : List Ev := [.nodeRecv 3, .nodeSend 3 t]
def qRound (t : Int) : List Ev := jFast t ++ jK (t + 40)
def qSched : List Ev := qRound 1000 ++ qRound 1100 ++ qRound 1200 ++ qRound 1300 ++ qRound 1400

theorem qProc_names : ProcNames qProc := by
  intro i n h d hh hd
  by_cases h2 : i = 2
  · subst h2
    unfold qProc at hd
    simp only at hd
    split at hd
    · simp [Loop.processFrames, Loop.normPlain, dictOf] at hd
    · simp only [Loop.processFrames, Loop.normPlain, dictOf, Option.some.injEq] at hd
      subst hd
      refine ⟨by simp only [List.map_cons, List.map_nil]; decide, ?_⟩
      intro x hx
      simp only [List.mem_cons, List.mem_nil_iff, or_false] at hx
      rcases hx with rfl | rfl
      · exact (by decide : ("sum" : String) ≠ "")
      · exact (by decide : ("_n" : String) ≠ "")
  · by_cases h3 : i = 3
    · subst h3
      simp [qProc, Loop.processFrames, Loop.normPlain, dictOf] at hd
    · have e : qProc i n h = jProc i n h := by
        unfold qProc
        split
        · exact absurd rfl h2
        · exact absurd rfl h3
        · rfl
      rw [e] at hd
      exact jProc_names i n h d hh hd

theorem qProc_src (i : Nat) (hi : i < 2) (n : Nat) (h : List (Topic × Nat)) : qProc i n h = jProc i n h := by
  have : i = 0 ∨ i = 1 := by omega
  rcases this with rfl | rfl <;> rfl

theorem qProc_noskip : NoSkipSrc qProc 2 := by
  intro i n hi
  rw [qProc_src i hi]; exact jProc_noskip i n hi

theorem qProc_owned : OwnedSrc qProc 2 jOwner := by
  intro i n d hi hd
  rw [qProc_src i hi] at hd; exact jProc_owned i n d hi hd

/-- TEST (kernel-evaluated instance): 70 events on `{0, 1} → 2 → 3`: the join has been handed frame `n` of source 0 with frame `n`
of source 1 for `n = 0 … 3`; the sink the sums for the ids 0, 2, 3 (the join returned `None` for its second set: id 1 never reaches
the sink; the hidden topic `_n` neither) — the first sets of the two specifications -/
example : (lrun (joinSinkTopo 2) qProc (linit (joinSinkTopo 2)) qSched).log 2 =
      [(0, [("a", 0), ("main", 100)]), (1, [("a", 11), ("b", 101), ("b2", 1)]), (2, [("b", 102), ("b2", 2)]),
       (3, [("a", 30), ("b", 103), ("b2", 3)])] ∧
    (lrun (joinSinkTopo 2) qProc (linit (joinSinkTopo 2)) qSched).log 3 = [(0, [("sum", 100)]), (2, [("sum", 104)]), (3, [("sum", 136)])] ∧
    ((throughFrom qProc 2 0 (joinSpec qProc 2 (minCount (lrun (joinSinkTopo 2) qProc (linit (joinSinkTopo 2)) qSched) 2))).map visB).take 3 =
      [(0, [("sum", 100)]), (2, [("sum", 104)]), (3, [("sum", 136)])] := by
  decide +kernel

/-- the hypotheses of the theorem are satisfiable: it applies to this family on every restart-free schedule -/
example (evs : List Ev) (hnr : ∀ e ∈ evs, isRestart e = false) :
    (lrun (joinSinkTopo 2) qProc (linit (joinSinkTopo 2)) evs).log 3 <+:
      (throughFrom qProc 2 0 (joinSpec qProc 2 (minCount (lrun (joinSinkTopo 2) qProc (linit (joinSinkTopo 2)) evs) 2))).map visB :=
  (C03_net_indep_join_sink_composition qProc qProc_names 2 (by omega) qProc_noskip jOwner qProc_owned evs hnr).2

end OF.Net
