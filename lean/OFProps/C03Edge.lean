import OFProps.EdgeRecv
import OFProps.EdgeSend
import OFProps.C06Live
set_option linter.unusedSimpArgs false
/-!
# C03, stage B — the EDGE refinement on the closed pair with the PUB/SUB slow joiner (`OFModel/Zmq/PairReq.lean`)

System: a source filter's publisher (`outs_required = ["R"]`), the synchronised consumer `'R'`, the flag `subUp` ("the
PUB/SUB connection is established"; while it is false everything published is lost for the consumer, requests always get
through), a second client `'X'` that may send any request of an ephemeral listener / any protocol-conforming request of
another synchronised consumer at any time.  Events `sendCall t | recvCall | connectSub | otherReq …`, NO bound on the
schedule, any clock readings (time-outs and evictions included), `connectSub` anywhere — late or never.

Proved for EVERY reachable state of the real configuration (`Cfg.real`; more generally `Cfg.Sound`):
* `C03_edge_no_loss` — what the consumer's `recv` has returned so far is EXACTLY frame sets `0, 1, …, n-1`, frame set `k`
  under id `k` with the payload of the source's `k`-th frame: nothing lost from the very first frame on, nothing
  duplicated, reordered or altered; the publisher has published exactly frames `0 … m-1` under ids `0 … m-1`, `n ≤ m`,
  and the source's pending frame is number `m` (a frame is only replaced after it was published: no discard).
  `C03_edge_no_loss_run` is the same statement on the observations of a run.
* `C03_edge_one_ahead` — without the second client, `m ≤ n + 1`: the publisher is never more than ONE frame set ahead
  (`Tight`, the closed-loop argument of `C04_pair_one_block_in_flight`).  With a second client this is false in the code
  (a stalled consumer is evicted by the clock while the listener's request is evaluated: one more set goes out).
* `C03_edge_publish_only_when_heard`, `C03_edge_hello_only_before_heard`, `C03_edge_new_until_heard`,
  `C03_edge_tracked_only_when_heard` — the invariant that makes it true, kept by every event (`inv_step`): the consumer
  is in the publisher's client table only if it has received something from this publisher (so `subUp`); until then its
  requests carry `new` and a `send` answers with nothing but HELLO and reports "not sent".
* negative witnesses (kernel-evaluated, same `step` function, one switch flipped): `required = []` with a second client,
  and `newFlag = false` in the pair alone — frame 0 is published while `subUp = false` and the first frame set the
  consumer returns is not frame 0.
In `OFProps/C03EdgeLive.lean`: `C03_edge_progress` — liveness complement: from every reachable state with `subUp` (no
second client in the history) the schedule `[recv, send, recv, send, recv]` makes `recv` return the next frame set `n`;
`C03_edge_pair_alone_any_required` — in the pair ALONE the guarantee does not depend on `outs_required` at all (the HELLO
handshake suffices), which is why the witness for `required` needs the second client.
-/
namespace OF.PairReq
open OF
open OF.Pair (mainWire hbWire helloWire wireOf pushWires pushReqs)

/-- the configuration is the real one as far as the edge guarantee goes -/
def Cfg.Sound (cfg : Cfg) : Prop := Pair.CID ∈ cfg.required ∧ cfg.newFlag = true

theorem sound_real : Cfg.real.Sound := ⟨by simp [Cfg.real], rfl⟩

/-- the consumer has received something from this publisher -/
def heardB (c : Recv.St) : Bool := c.srcs.any (·.conn)

/-- frame sets `0 … n-1` as `recv` returns them -/
def expected (n : Nat) : List (Int × List (String × Nat)) := (List.range n).map fun (i : Nat) => ((i : Int), [("main", i)])

/-- frames `0 … m-1` as published -/
def published (m : Nat) : List (Int × Nat) := (List.range m).map fun (i : Nat) => ((i : Int), i)

/-- **the edge invariant** -/
structure Inv (cfg : Cfg) (st : St) : Prop where
  pub : ∃ q, PIdle cfg.required st.pub q ∧ ∀ r ∈ q, ReqOk st.pub.minSendId (heardB st.con = true) r
  con : ∃ s, Rest st.con s ∧ Chan st.con.prevId st.pub.minSendId s.queue ∧
          ((s.conn = true ∨ s.queue ≠ []) → st.subUp = true)
  ch : CH (heardB st.con = true) st.pub.clients
  frame : st.pub.minSendId = (st.frame : Int)
  rets : ∃ n : Nat, st.con.prevId = (n : Int) - 1 ∧ st.rets = expected n
  pubd : st.pubd = published st.frame

theorem heardB_single (c : Recv.St) (s : Recv.Src) (h : c.srcs = [s]) : heardB c = s.conn := by
  simp [heardB, h]

theorem heardB_pushWires (c : Recv.St) (ws : List Recv.Wire) : heardB (pushWires c ws) = heardB c := by
  simp [heardB, pushWires, List.any_map, Function.comp_def]

theorem pidle_pushReqs (req : List String) (p : Send.St) (q rs : List Send.Req) (h : PIdle req p q) :
    PIdle req (pushReqs p rs) (q ++ rs) :=
  ⟨by simp [pushReqs, h.queues], h.balance, h.required, h.inCall, h.minpos⟩

theorem rest_pushWires (c : Recv.St) (s : Recv.Src) (ws : List Recv.Wire) (h : Rest c s) :
    Rest (pushWires c ws) { s with queue := s.queue ++ ws } :=
  ⟨Pair.idle_pushWires c s ws h.idle, h.empty⟩

theorem reqOk_mono (m n : Int) (H K : Prop) (r : Send.Req) (hmn : m ≤ n) (hk : H → K) (h : ReqOk m H r) : ReqOk n K r := by
  refine ⟨fun he => by have := h.below he; omega, ?_⟩
  rcases h.who with ⟨a, b, c⟩ | ⟨a, b⟩
  · exact Or.inl ⟨a, b, fun hn => hk (c hn)⟩
  · exact Or.inr ⟨a, b⟩

theorem ch_mono (H K : Prop) (cl : Send.Clients) (hk : H → K) (h : CH H cl) : CH K cl :=
  fun x hx hr => hk (h x hx hr)

theorem inv_init (cfg : Cfg) : Inv cfg (init cfg) := by
  refine ⟨⟨[], ⟨rfl, rfl, rfl, rfl, Int.le_refl 0⟩, by intro r hr; cases hr⟩, ⟨_, ⟨Pair.idle_fresh, rfl⟩, ?_, ?_⟩, ?_, rfl,
    ⟨0, rfl, rfl⟩, rfl⟩
  · exact Chan.nil (-1)
  · intro h
    rcases h with h | h
    · cases h
    · exact absurd rfl h
  · intro x hx; cases hx

theorem published_succ (m : Nat) : published (m + 1) = published m ++ [((m : Int), m)] := by
  simp [published, List.range_succ]

theorem expected_succ (n : Nat) : expected (n + 1) = expected n ++ [((n : Int), [("main", n)])] := by
  simp [expected, List.range_succ]

/-- the state after a `sendCall` whose `send` produced `r` -/
def afterSend (st : St) (r : Send.St × List Send.Out) : St :=
  { st with pub := r.1,
            con := if st.subUp then pushWires st.con (r.2.filterMap wireOf) else st.con,
            frame := if sentOk r.2 then st.frame + 1 else st.frame,
            pubd := st.pubd ++ pubFrames r.2 }

theorem heardB_afterSend (st : St) (r : Send.St × List Send.Out) : heardB (afterSend st r).con = heardB st.con := by
  unfold afterSend
  cases st.subUp
  · rfl
  · exact heardB_pushWires _ _

theorem prevId_afterSend (st : St) (r : Send.St × List Send.Out) : (afterSend st r).con.prevId = st.con.prevId := by
  unfold afterSend
  cases st.subUp <;> rfl

theorem inv_afterSend (cfg : Cfg) (st : St) (q : List Send.Req) (r : Send.St × List Send.Out)
    (h : Inv cfg st) (R : SendRes cfg.required (heardB st.con = true) st.pub q st.frame r)
    (hpubH : sentOk r.2 = true → heardB st.con = true) : Inv cfg (afterSend st r) := by
  rcases h with ⟨_, ⟨s, hrest, hchan, hup⟩, _, hfr, ⟨n, hn, hrets⟩, hpubd⟩
  have hH := heardB_afterSend st r
  have hhs := heardB_single st.con s hrest.idle.srcs
  have hn : (afterSend st r).con.prevId = (n : Int) - 1 := by rw [prevId_afterSend]; exact hn
  rcases R.res with ⟨e1, e2, e3, e4, _⟩ | ⟨_, _, f3, f4, f5, f6, _⟩
  · -- nothing published
    refine ⟨⟨[], R.idle, by intro x hx; cases hx⟩, ?_, by rw [hH]; exact R.ch, ?_, ⟨n, hn, hrets⟩, ?_⟩
    · cases hsu : st.subUp with
      | false =>
        refine ⟨s, by simp only [afterSend, hsu]; exact hrest, ?_, ?_⟩
        · simp only [afterSend, hsu, Bool.false_eq_true, ↓reduceIte]; rw [e1]; exact hchan
        · intro hh; have := hup hh; rw [hsu] at this; cases this
      | true =>
        refine ⟨{ s with queue := s.queue ++ r.2.filterMap wireOf }, ?_, ?_, fun _ => by simp [afterSend, hsu]⟩
        · simp only [afterSend, hsu, ↓reduceIte]; exact rest_pushWires _ s _ hrest
        · simp only [afterSend, hsu, ↓reduceIte]
          rw [e1]
          rcases e4 with e | e
          · rw [e, List.append_nil]; exact hchan
          · rw [e]; exact chan_hello _ _ _ hchan
    · simp only [afterSend, e2, Bool.false_eq_true, ↓reduceIte]; rw [e1]; exact hfr
    · simp only [afterSend, e2, e3, Bool.false_eq_true, ↓reduceIte, List.append_nil]; exact hpubd
  · -- frame set `min_send_id` published: the consumer has heard, so the connection is up
    have hheard : heardB st.con = true := hpubH f4
    have hconn : s.conn = true := by rw [← hhs]; exact hheard
    have hsu : st.subUp = true := hup (Or.inl hconn)
    have htn : st.pub.minSendId.toNat = st.frame := by rw [hfr]; exact Int.toNat_natCast _
    refine ⟨⟨[], R.idle, by intro x hx; cases hx⟩, ?_, by rw [hH]; exact R.ch, ?_, ⟨n, hn, hrets⟩, ?_⟩
    · refine ⟨{ s with queue := s.queue ++ r.2.filterMap wireOf }, ?_, ?_, fun _ => by simp [afterSend, hsu]⟩
      · simp only [afterSend, hsu, ↓reduceIte]; exact rest_pushWires _ s _ hrest
      · simp only [afterSend, hsu, ↓reduceIte]
        rw [f3, f6, ← htn]
        exact chan_publish _ _ _ hchan
    · simp only [afterSend, f4, ↓reduceIte]; rw [f3, hfr]; push_cast; rfl
    · simp only [afterSend, f4, f5, ↓reduceIte]
      rw [published_succ, hpubd, hfr]

/-- the request the consumer pushes for id `mid` -/
def conReq (cfg : Cfg) (mid : Int) (new : Bool) : Send.Req :=
  { cid := Pair.CID, uid := RUID, mid := mid, eph := 0, new := new && cfg.newFlag, body := 0 }

theorem reqOf_req (cfg : Cfg) (i : Nat) (mid : Int) (new : Bool) : reqOf cfg (.req i mid 0 new) = some (conReq cfg mid new) := rfl

/-- the state after a `recvCall` whose `recv` produced `r` -/
def afterRecv (cfg : Cfg) (st : St) (r : Recv.St × List Recv.Out) : St :=
  { st with con := r.1, pub := pushReqs st.pub (r.2.filterMap (reqOf cfg)), rets := st.rets ++ retFrames r.2 }

theorem inv_recv (cfg : Cfg) (hs : cfg.newFlag = true) (st : St) (h : Inv cfg st) :
    Inv cfg (afterRecv cfg st (Recv.call0 st.con none [0])) := by
  rcases h with ⟨⟨q, hp, hq⟩, ⟨s, hrest, hchan, hup⟩, hch, hfr, ⟨n, hn, hrets⟩, hpubd⟩
  have hhs := heardB_single st.con s hrest.idle.srcs
  rcases call0_chan st.con s st.pub.minSendId hrest hchan with ⟨e1, s', r1, r2, r3, r4, r5⟩ | ⟨e0, s', r1, r2, r3, r4, r5⟩
  · -- nothing in flight: one request, time-out
    have hhs' := heardB_single _ s' r1.idle.srcs
    have hmono : heardB st.con = true → heardB (Recv.call0 st.con none [0]).1 = true := by
      rw [hhs, hhs', r4]; intro hc; simp [hc]
    have hreqs : (Recv.call0 st.con none [0]).2.filterMap (reqOf cfg) = [conReq cfg st.con.prevId (!s'.conn)] := by
      rw [r5]; simp [reqOf_req, reqOf, Pair.reqOf, conReq]
    have hrf : retFrames (Recv.call0 st.con none [0]).2 = [] := by rw [r5]; simp [retFrames]
    refine ⟨⟨q ++ [conReq cfg st.con.prevId (!s'.conn)], by simp only [afterRecv, hreqs]; exact pidle_pushReqs _ _ _ _ hp, ?_⟩,
      ⟨s', r1, ?_, ?_⟩, ch_mono _ _ _ hmono hch, hfr, ⟨n, by simp only [afterRecv]; rw [r3]; exact hn, ?_⟩, hpubd⟩
    · intro x hx
      simp only [afterRecv]
      rcases List.mem_append.mp hx with hx | hx
      · exact reqOk_mono _ _ _ _ _ (Int.le_refl _) hmono (hq x hx)
      · simp only [List.mem_singleton] at hx
        subst hx
        refine ⟨fun _ => by simp only [conReq, pushReqs]; omega, Or.inl ⟨rfl, rfl, ?_⟩⟩
        intro hnew
        rw [hhs']
        simp only [conReq, hs, Bool.and_true, Bool.not_eq_false'] at hnew
        exact hnew
    · simp only [afterRecv, pushReqs]; rw [r2, r3, e1]; exact Chan.nil _
    · intro hh
      rcases hh with hh | hh
      · rw [r4] at hh
        simp only [Bool.or_eq_true, Bool.not_eq_true', List.isEmpty_eq_false_iff] at hh
        rcases hh with hh | hh
        · exact hup (Or.inl hh)
        · exact hup (Or.inr hh)
      · exact absurd r2 hh
    · simp only [afterRecv, hrf, List.append_nil]; exact hrets
  · -- the next frame set is returned
    have hhs' := heardB_single _ s' r1.idle.srcs
    have hheard : heardB (Recv.call0 st.con none [0]).1 = true := by rw [hhs', r4]
    have hreqs : (Recv.call0 st.con none [0]).2.filterMap (reqOf cfg) = [conReq cfg (st.con.prevId + 1) false] := by
      rw [r5]; simp [reqOf_req, reqOf, Pair.reqOf, conReq]
    have hk : st.con.prevId + 1 = (n : Int) := by omega
    have hrf : retFrames (Recv.call0 st.con none [0]).2 = [((n : Int), [("main", n)])] := by
      rw [r5, hk]; simp [retFrames, mainMsg]
    have hle := chan_le _ _ _ r2
    refine ⟨⟨q ++ [conReq cfg (st.con.prevId + 1) false], by simp only [afterRecv, hreqs]; exact pidle_pushReqs _ _ _ _ hp, ?_⟩,
      ⟨s', r1, ?_, fun _ => hup (Or.inr e0)⟩, ch_mono _ _ _ (fun _ => hheard) hch, hfr,
      ⟨n + 1, by simp only [afterRecv]; rw [r3]; push_cast; omega, ?_⟩, hpubd⟩
    · intro x hx
      simp only [afterRecv]
      rcases List.mem_append.mp hx with hx | hx
      · exact reqOk_mono _ _ _ _ _ (Int.le_refl _) (fun _ => hheard) (hq x hx)
      · simp only [List.mem_singleton] at hx
        subst hx
        exact ⟨fun _ => by simp only [conReq, pushReqs]; omega, Or.inl ⟨rfl, rfl, fun _ => hheard⟩⟩
    · simp only [afterRecv, pushReqs]; rw [r3]; exact r2
    · simp only [afterRecv, hrf]; rw [expected_succ, hrets]

theorem inv_connect (cfg : Cfg) (st : St) (h : Inv cfg st) : Inv cfg (stepConnect st).1 := by
  rcases h with ⟨hp, ⟨s, hrest, hchan, _⟩, hch, hfr, hr, hpubd⟩
  exact ⟨hp, ⟨s, hrest, hchan, fun _ => rfl⟩, hch, hfr, hr, hpubd⟩

theorem x_not_r : XID ≠ Pair.CID ∧ XID ++ XUID ≠ Pair.CID ++ RUID := by decide

theorem inv_other (cfg : Cfg) (st : St) (eph : Nat) (mid : Int) (new : Bool) (h : Inv cfg st) :
    Inv cfg (stepOther st eph mid new).1 := by
  unfold stepOther
  split
  · rename_i hok
    rcases h with ⟨⟨q, hp, hq⟩, hc, hch, hfr, hr, hpubd⟩
    refine ⟨⟨q ++ [otherReqOf eph mid new], pidle_pushReqs _ _ _ _ hp, ?_⟩, hc, hch, hfr, hr, hpubd⟩
    intro x hx
    rcases List.mem_append.mp hx with hx | hx
    · exact hq x hx
    · simp only [List.mem_singleton] at hx
      subst hx
      refine ⟨?_, Or.inr x_not_r⟩
      intro he
      simp only [otherReqOf] at he
      simp only [otherOk, he, bne_self_eq_false, Bool.false_or, decide_eq_true_eq] at hok
      exact hok
  · exact h

/-- **the edge invariant is kept by every event** -/
theorem inv_step (cfg : Cfg) (hs : cfg.Sound) (st : St) (e : Ev) (h : Inv cfg st) : Inv cfg (step cfg st e).1 := by
  cases e with
  | sendCall t =>
    rcases h.pub with ⟨q, hp, hq⟩
    have R := send0_edge cfg.required _ st.pub q st.frame t hp h.ch hq
    refine inv_afterSend cfg st q _ h R ?_
    intro hok
    rcases R.res with ⟨_, e2, _⟩ | ⟨f1, _⟩
    · rw [e2] at hok; cases hok
    · exact f1 hs.1
  | recvCall => exact inv_recv cfg hs.2 st h
  | connectSub => exact inv_connect cfg st h
  | otherReq eph mid new => exact inv_other cfg st eph mid new h

/-- states reachable from the initial edge by any schedule -/
inductive Reachable (cfg : Cfg) : St → Prop where
  | init : Reachable cfg (init cfg)
  | step (st : St) (e : Ev) : Reachable cfg st → Reachable cfg (step cfg st e).1

theorem inv_reachable (cfg : Cfg) (hs : cfg.Sound) (st : St) (h : Reachable cfg st) : Inv cfg st := by
  induction h with
  | init => exact inv_init cfg
  | step st e _ ih => exact inv_step cfg hs st e ih

theorem reachable_run (cfg : Cfg) (st : St) (hr : Reachable cfg st) : ∀ evs, Reachable cfg (run cfg st evs).1 := by
  intro evs
  induction evs generalizing st with
  | nil => exact hr
  | cons e es ih => exact ih _ (.step st e hr)

/-- **C03 edge refinement (no loss, from the very first frame)**: in every reachable state of the real configuration the
consumer's `recv` has returned exactly frame sets `0 … n-1` (id `k` with the payload of the source's frame `k`), the
publisher has published exactly frames `0 … m-1` under ids `0 … m-1`, is working on frame `m`, and `n ≤ m` -/
theorem C03_edge_no_loss (cfg : Cfg) (hs : cfg.Sound) (st : St) (hr : Reachable cfg st) :
    ∃ n : Nat, st.rets = expected n ∧ st.pubd = published st.frame ∧ n ≤ st.frame ∧ st.pub.minSendId = st.frame := by
  have h := inv_reachable cfg hs st hr
  rcases h.rets with ⟨n, hn, hrets⟩
  rcases h.con with ⟨s, _, hchan, _⟩
  have := chan_le _ _ _ hchan
  have := h.frame
  exact ⟨n, hrets, h.pubd, by omega, h.frame⟩

/-! ### the same on the observations of a run -/

/-- frame sets one event lets `recv` return -/
def obsRets : Obs → List (Int × List (String × Nat))
  | .rcvd outs => retFrames outs
  | _ => []

/-- (id, body) of the topic messages one event puts on the PUB socket -/
def obsPubs : Obs → List (Int × Nat)
  | .sent outs _ => pubFrames outs
  | _ => []

/-- everything `recv` returned along a run, in order -/
def returned (obs : List Obs) : List (Int × List (String × Nat)) := obs.flatMap obsRets

theorem step_rets (cfg : Cfg) (st : St) (e : Ev) : (step cfg st e).1.rets = st.rets ++ obsRets (step cfg st e).2 := by
  cases e with
  | sendCall t => simp [step, stepSend, obsRets]
  | recvCall => simp [step, stepRecv, obsRets]
  | connectSub => simp [step, stepConnect, obsRets]
  | otherReq eph mid new => simp only [step, stepOther]; split <;> simp [obsRets]

theorem run_rets (cfg : Cfg) : ∀ (evs : List Ev) (st : St),
    (run cfg st evs).1.rets = st.rets ++ returned (run cfg st evs).2 := by
  intro evs
  induction evs with
  | nil => intro st; simp [run, returned]
  | cons e es ih =>
    intro st
    simp only [run]
    rw [ih, step_rets]
    simp [returned, List.append_assoc]

/-- **C03 edge refinement, on what the outside sees**: along ANY schedule of the real configuration the frame sets returned
by the consumer's `recv` calls are, in order, exactly `(0, {'main': [0]}), (1, {'main': [1]}), …` -/
theorem C03_edge_no_loss_run (cfg : Cfg) (hs : cfg.Sound) (evs : List Ev) :
    ∃ n : Nat, returned (run cfg (init cfg) evs).2 = expected n ∧ n ≤ (run cfg (init cfg) evs).1.frame := by
  have ⟨n, h1, _, h3, _⟩ := C03_edge_no_loss cfg hs _ (reachable_run cfg _ .init evs)
  refine ⟨n, ?_, h3⟩
  rw [run_rets] at h1
  simpa [init] using h1

/-! ### the handshake invariant, stated event by event -/

/-- **a frame set is only published while the consumer is tracked-and-heard**: if a `send` of a reachable state puts a
topic message on the PUB socket, the PUB/SUB connection is up (the message is delivered) and the consumer has already
received something from this publisher -/
theorem C03_edge_publish_only_when_heard (cfg : Cfg) (hs : cfg.Sound) (st : St) (hr : Reachable cfg st) (t : Int)
    (outs : List Send.Out) (d : Bool) (ho : (step cfg st (.sendCall t)).2 = .sent outs d) (hp : pubFrames outs ≠ []) :
    d = true ∧ heardB st.con = true ∧ sentOk outs = true ∧ pubFrames outs = [((st.frame : Int), st.frame)] := by
  have h := inv_reachable cfg hs st hr
  rcases h.pub with ⟨q, hq1, hq2⟩
  rcases h.con with ⟨s, hrest, _, hup⟩
  have R := send0_edge cfg.required _ st.pub q st.frame t hq1 h.ch hq2
  simp only [step, stepSend, Obs.sent.injEq] at ho
  rcases ho with ⟨rfl, rfl⟩
  rcases R.res with ⟨_, _, e3, _⟩ | ⟨f1, _, _, f4, f5, _⟩
  · exact absurd e3 hp
  · have hh := f1 hs.1
    rw [heardB_single st.con s hrest.idle.srcs] at hh
    exact ⟨hup (Or.inl hh), by rw [heardB_single st.con s hrest.idle.srcs]; exact hh, f4, by rw [f5, h.frame]⟩

/-- **before the consumer has heard, the publisher answers with nothing but HELLO** and `send` reports "not sent", so the
source keeps its frame -/
theorem C03_edge_hello_only_before_heard (cfg : Cfg) (hs : cfg.Sound) (st : St) (hr : Reachable cfg st) (t : Int)
    (hn : heardB st.con = false) :
    ∃ outs, (step cfg st (.sendCall t)).2 = .sent outs st.subUp ∧ sentOk outs = false ∧ pubFrames outs = [] ∧
      (outs.filterMap wireOf = [] ∨ outs.filterMap wireOf = [helloWire]) ∧ (step cfg st (.sendCall t)).1.frame = st.frame := by
  have h := inv_reachable cfg hs st hr
  rcases h.pub with ⟨q, hq1, hq2⟩
  have R := send0_edge cfg.required _ st.pub q st.frame t hq1 h.ch hq2
  refine ⟨_, rfl, ?_⟩
  rcases R.res with ⟨_, e2, e3, e4, _⟩ | ⟨f1, _⟩
  · exact ⟨e2, e3, e4, by simp [step, stepSend, e2]⟩
  · have := f1 hs.1; rw [hn] at this; cases this

/-- **until it has heard, every request of the consumer carries `new`** (queued ones included) -/
theorem C03_edge_new_until_heard (cfg : Cfg) (hs : cfg.Sound) (st : St) (hr : Reachable cfg st)
    (hn : heardB st.con = false) : ∀ q, st.pub.queues = [q] → ∀ r ∈ q, r.cid = Pair.CID → r.new = true := by
  intro q hq r hrq hc
  have h := inv_reachable cfg hs st hr
  rcases h.pub with ⟨q', hq1, hq2⟩
  have : q' = q := by have := hq1.queues; rw [hq] at this; simpa using this.symm
  subst this
  rcases (hq2 r hrq).who with ⟨_, _, e⟩ | ⟨e, _⟩
  · cases hnew : r.new with
    | true => rfl
    | false => have := e hnew; rw [hn] at this; cases this
  · exact absurd hc e

/-- **the consumer is in the publisher's client table only after it has heard** — and hearing needs the connection -/
theorem C03_edge_tracked_only_when_heard (cfg : Cfg) (hs : cfg.Sound) (st : St) (hr : Reachable cfg st) :
    (∀ x ∈ st.pub.clients, x.2.cid = Pair.CID → heardB st.con = true) ∧ (heardB st.con = true → st.subUp = true) := by
  have h := inv_reachable cfg hs st hr
  refine ⟨fun x hx hc => h.ch x hx (Or.inl hc), ?_⟩
  rcases h.con with ⟨s, hrest, _, hup⟩
  rw [heardB_single st.con s hrest.idle.srcs]
  exact fun hh => hup (Or.inl hh)

/-! ### never more than one frame set ahead (the pair alone) -/

/-- the closed-loop invariant of the pair alone (cf. `Pair.Tight`): at most one frame set is in flight, and none while a
request is queued or a client's request is unanswered -/
structure Tight (st : St) : Prop where
  ahead : st.pub.minSendId ≤ st.con.prevId + 2
  queued : ∀ q, st.pub.queues = [q] → q ≠ [] → st.pub.minSendId = st.con.prevId + 1
  asked : ∀ x ∈ st.pub.clients, x.2.requested = true → st.pub.minSendId = st.con.prevId + 1

theorem tight_init (cfg : Cfg) : Tight (init cfg) := by
  refine ⟨by show (0 : Int) ≤ -1 + 2; omega, ?_, ?_⟩
  · intro q hq hne
    simp [init, freshPub, Send.mkSt] at hq
    exact absurd hq hne
  · intro x hx; cases hx

theorem tight_afterSend (req : List String) (H : Prop) (st : St) (q : List Send.Req) (r : Send.St × List Send.Out)
    (hq : st.pub.queues = [q]) (h : Tight st) (R : SendRes req H st.pub q st.frame r) : Tight (afterSend st r) := by
  have hp := prevId_afterSend st r
  have hqs : ∀ q', (afterSend st r).pub.queues = [q'] → q' = [] := by
    intro q' hq'
    have := R.idle.queues
    simp only [afterSend] at hq'
    rw [hq'] at this
    simpa using this
  rcases R.res with ⟨e1, _, _, _, e5⟩ | ⟨_, f2, f3, _, _, _, f7⟩
  · refine ⟨by rw [hp]; simp only [afterSend]; rw [e1]; exact h.ahead, fun q' hq' hne => absurd (hqs q' hq') hne, ?_⟩
    intro x hx hreq
    rw [hp]
    simp only [afterSend] at hx ⊢
    rw [e1]
    by_cases hq0 : q = []
    · rw [e5 hq0] at hx; exact h.asked x hx hreq
    · exact h.queued q hq hq0
  · have := h.queued q hq f2
    refine ⟨by rw [hp]; simp only [afterSend]; rw [f3]; omega, fun q' hq' hne => absurd (hqs q' hq') hne, ?_⟩
    intro x hx hreq
    simp only [afterSend] at hx
    rw [f7.1 x hx] at hreq
    cases hreq

theorem tight_recv (cfg : Cfg) (st : St) (hi : Inv cfg st) (h : Tight st) :
    Tight (afterRecv cfg st (Recv.call0 st.con none [0])) := by
  rcases hi.con with ⟨s, hrest, hchan, _⟩
  rcases call0_chan st.con s st.pub.minSendId hrest hchan with ⟨e1, s', _, _, r3, _, _⟩ | ⟨_, s', _, r2, r3, _, _⟩
  · refine ⟨?_, ?_, ?_⟩ <;> simp only [afterRecv, pushReqs] <;> rw [r3]
    · omega
    · intro _ _ _; exact e1
    · intro _ _ _; exact e1
  · have := chan_le _ _ _ r2
    have := h.ahead
    refine ⟨?_, ?_, ?_⟩ <;> simp only [afterRecv, pushReqs] <;> rw [r3]
    · omega
    · intro _ _ _; omega
    · intro _ _ _; omega

/-- the events of the pair alone -/
def Ev.alone : Ev → Prop
  | .otherReq _ _ _ => False
  | _ => True

/-- states reachable without the second client -/
inductive ReachableAlone (cfg : Cfg) : St → Prop where
  | init : ReachableAlone cfg (init cfg)
  | step (st : St) (e : Ev) : e.alone → ReachableAlone cfg st → ReachableAlone cfg (step cfg st e).1

theorem reachable_of_alone (cfg : Cfg) (st : St) (h : ReachableAlone cfg st) : Reachable cfg st := by
  induction h with
  | init => exact .init
  | step st e _ _ ih => exact .step st e ih

theorem tight_alone (cfg : Cfg) (hs : cfg.Sound) (st : St) (h : ReachableAlone cfg st) : Tight st := by
  induction h with
  | init => exact tight_init cfg
  | step st e he hr ih =>
    have hi := inv_reachable cfg hs st (reachable_of_alone cfg st hr)
    cases e with
    | sendCall t =>
      rcases hi.pub with ⟨q, hp, hq⟩
      exact tight_afterSend _ _ st q _ hp.queues ih (send0_edge cfg.required _ st.pub q st.frame t hp hi.ch hq)
    | recvCall => exact tight_recv cfg st hi ih
    | connectSub => exact ⟨ih.ahead, ih.queued, ih.asked⟩
    | otherReq eph mid new => exact absurd he (by simp [Ev.alone])

/-- **C03 edge (one frame set ahead at most)**: in the pair alone the publisher has published at most frames `0 … n` when
the consumer has returned `0 … n-1` — at any moment at most ONE frame set is in flight, whatever the schedule -/
theorem C03_edge_one_ahead (cfg : Cfg) (hs : cfg.Sound) (st : St) (hr : ReachableAlone cfg st) :
    ∃ n : Nat, st.rets = expected n ∧ st.pubd = published st.frame ∧ n ≤ st.frame ∧ st.frame ≤ n + 1 := by
  have hi := inv_reachable cfg hs st (reachable_of_alone cfg st hr)
  have ht := tight_alone cfg hs st hr
  rcases hi.rets with ⟨n, hn, hrets⟩
  rcases hi.con with ⟨s, _, hchan, _⟩
  have := chan_le _ _ _ hchan
  have := hi.frame
  have := ht.ahead
  exact ⟨n, hrets, hi.pubd, by omega, by omega⟩

/-! ### the guarantee depends on both mechanisms: kernel-evaluated negative witnesses on the same `step` function -/

/-- some `send` of the run published frame 0 (id 0, body 0) while the PUB/SUB connection was not up -/
def firstFrameLost (obs : List Obs) : Bool :=
  obs.any fun o => match o with
    | .sent outs false => pubFrames outs == [(0, 0)]
    | _ => false

/-- `outs_required` empty, a second synchronised client `'X'` whose connection is up: its request starts the publisher -/
def lossNoRequired : List Ev :=
  [.otherReq 0 (-1) false, .sendCall 0, .connectSub, .recvCall, .sendCall 1, .recvCall, .otherReq 0 0 false, .sendCall 2, .recvCall]

/-- the consumer's requests never carry `new` (the seeded bug), the pair alone -/
def lossNoNewFlag : List Ev :=
  [.recvCall, .sendCall 0, .connectSub, .recvCall, .sendCall 1, .recvCall]

/-- **negative witness 1**: with `required = []` (everything else as in the code) frame 0 is published while `subUp = false`
— to the second client only — and the first frame set the consumer ever returns is frame 1 -/
theorem C03_edge_needs_required :
    firstFrameLost (run { required := [], newFlag := true } (init { required := [], newFlag := true }) lossNoRequired).2 = true ∧
    returned (run { required := [], newFlag := true } (init { required := [], newFlag := true }) lossNoRequired).2
      = [(1, [("main", 1)])] := by
  decide +kernel

/-- … and the SAME schedule is harmless in the real configuration: the publisher waits for its required output -/
example : firstFrameLost (run Cfg.real (init Cfg.real) lossNoRequired).2 = false ∧
    returned (run Cfg.real (init Cfg.real) lossNoRequired).2 = [(0, [("main", 0)])] := by
  decide +kernel

/-- **negative witness 2**: with the `new` flag dropped from the consumer's requests (required output listed!) the publisher
registers the consumer on its first request, publishes frame 0 into the void, and the consumer's first frame set is frame 1 -/
theorem C03_edge_needs_new_flag :
    firstFrameLost (run { required := ["R"], newFlag := false } (init { required := ["R"], newFlag := false }) lossNoNewFlag).2 = true ∧
    returned (run { required := ["R"], newFlag := false } (init { required := ["R"], newFlag := false }) lossNoNewFlag).2
      = [(1, [("main", 1)])] := by
  decide +kernel

example : firstFrameLost (run Cfg.real (init Cfg.real) lossNoNewFlag).2 = false ∧
    returned (run Cfg.real (init Cfg.real) lossNoNewFlag).2 = [] := by
  decide +kernel

/-- non-vacuity of `C03_edge_no_loss`: the consumer asks three times and the publisher answers with HELLO three times
before the PUB/SUB connection comes up LATE; then frames 0, 1, 2 are returned, the publisher one ahead at the end -/
def lateJoin : List Ev :=
  [.recvCall, .sendCall 0, .recvCall, .sendCall 100, .recvCall, .sendCall 200, .connectSub,
   .recvCall, .sendCall 300, .recvCall, .sendCall 400, .recvCall, .sendCall 500, .recvCall, .sendCall 600, .recvCall, .sendCall 700]

example : returned (run Cfg.real (init Cfg.real) lateJoin).2 = expected 3 ∧
    (run Cfg.real (init Cfg.real) lateJoin).1.pubd = published 4 ∧ (run Cfg.real (init Cfg.real) lateJoin).1.subUp = true := by
  decide +kernel

/-- boundary of `C03_edge_one_ahead` (a fact about the code, reproduced on the real classes by `edgefeed`): with a second
client the bound is 2, not 1.  Frame 0 is in flight, the consumer stays silent beyond ZMQ_CONN_TIMEOUT; the listener's
request is evaluated: `do_send` is computed from the client ids BEFORE the eviction loop removes the consumer, so frame 1
goes out in the same call, with the required output no longer tracked.  Nothing is lost (the consumer still receives both). -/
def evictedAhead : List Ev :=
  [.connectSub, .recvCall, .sendCall 0, .recvCall, .sendCall 1, .otherReq 1 0 false, .sendCall 10000]

example : (run Cfg.real (init Cfg.real) evictedAhead).1.pubd = published 2 ∧
    returned (run Cfg.real (init Cfg.real) evictedAhead).2 = [] ∧
    (run Cfg.real (init Cfg.real) evictedAhead).1.pub.clients.map (·.1) = ["Xx"] ∧
    returned (run Cfg.real (init Cfg.real) (evictedAhead ++ [.recvCall, .recvCall])).2 = expected 2 := by
  decide +kernel

end OF.PairReq
