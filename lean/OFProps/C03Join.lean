import OFProps.JoinInv
import OFProps.C02
/-!
# C03 stage A1 — join completeness (single-topic, all-topics subscriptions): **no frame lost, none invented**

`C03_join_complete_partial`: for a non-balanced receiver of plain one-topic sources whose streams are delivered in
FIFO order at arbitrary times, under **any** sequence of `take / check / request / timeout / begin none` events
(any polling order, any placement of timed-out calls):
* (S1) every id `recv` returns is an id that **every** source published;
* (S2) every id published by every source that lies below the frontier (`expected`) has been returned — nothing is
  skipped, starting with the first common id;
* returned ids are strictly increasing (`C02_strict_order`), hence the returned sequence is exactly the ascending list of
  common ids below the frontier.
"partial": one topic per source, subscribed with all topics (`addr`) or explicitly, possibly remapped (`addr;t`, `addr;t>d`);
multi-topic blocks, `*` subscriptions and ephemeral side sources are covered by the MQNet exploration and the adversarial feeds only.  Progress (the frontier
eventually passes every common id) is a liveness statement and is not claimed.
-/
namespace OF.Recv

/-- published by every source of the specification -/
def Common (sp : JSpec) (c : Int) : Prop := ∀ (j : Nat) (ids : List Int), sp.ids[j]? = some ids → c ∈ ids

/-- what one admissible step does to the frontier and what it returns -/
def Frontier (sp : JSpec) (n n' : NSt) (o : List Out) : Prop :=
  (n'.st.dead = true ∧ retIds o = []) ∨
  (retIds o = [] ∧ expected n.st ≤ expected n'.st ∧
      ∀ c, Common sp c → expected n.st ≤ c → c < expected n'.st → False) ∨
  (retIds o = [expected n.st] ∧ expected n'.st = expected n.st + 1 ∧ Common sp (expected n.st))

theorem frontier_same (sp : JSpec) (n n' : NSt) (o : List Out) (ho : retIds o = []) (he : expected n'.st = expected n.st) :
    Frontier sp n n' o := by
  right; left
  exact ⟨ho, by omega, fun c _ h1 h2 => by omega⟩

theorem take_frontier (sp : JSpec) (hsp : SpecOK sp) (n : NSt) (i : Nat) (h : JInv sp n) :
    Frontier sp n (nRecv n (.take i)).1 (nRecv n (.take i)).2 := by
  unfold nRecv step stepTake
  simp only
  by_cases hg : n.st.dead = true ∨ ¬ n.st.inCall = true
  · simp only [hg, ↓reduceIte]; exact frontier_same sp n _ _ rfl rfl
  · simp only [hg, ↓reduceIte]
    have hd : n.st.dead = false := by
      cases hc : n.st.dead with
      | false => rfl
      | true => exact absurd (Or.inl hc) hg
    have hin : n.st.inCall = true := by
      cases hc : n.st.inCall with
      | true => rfl
      | false => exact absurd (Or.inr (by simp [hc])) hg
    have hexp : expected n.st = n.st.minRecvId := by unfold expected; simp [hin]
    cases hs : n.st.srcs[i]? with
    | none => exact frontier_same sp n _ _ rfl rfl
    | some s0 =>
      simp only
      cases hreg : s0.reg with
      | false => simp only [Bool.false_eq_true, ↓reduceIte]; exact frontier_same sp n _ _ rfl rfl
      | true =>
      simp only [↓reduceIte]
      have hret := (onTake_mono n.st i).2.2.2.2
      have ⟨hbal, _, hall⟩ := h hd
      rcases hall i s0 hs with ⟨t, ids, fut, et, ei, ef, hp, hok⟩
      have ⟨hgt, hsorted, hnn⟩ := hsp i t ids et ei
      cases hq : s0.queue with
      | nil =>
        refine frontier_same sp n _ _ hret ?_
        simp only; rw [onTake_empty n.st i s0 hs hq]
      | cons w q =>
        rw [hq] at hok
        have hok' : SrcOK t ids (expected n.st) s0 (w :: (q ++ fut)) := by simpa using hok
        rcases take_src t ids (expected n.st) s0 w (q ++ fut) hsorted hnn hok' hreg with
          ⟨hlt, h0, hb0, hr0, _⟩ | ⟨hge, h0, hT, hr0, _, hgap, _⟩
        · refine frontier_same sp n _ _ hret ?_
          simp only
          rw [onTake_older n.st i s0 w q hs hq hp.1 h0 (hexp ▸ hlt) hb0]
          rfl
        · have hge' : n.st.minRecvId ≤ w.mid := hexp ▸ hge
          right; left
          have he' : expected (onTake n.st i).1 = w.mid := by
            rw [onTake_topic n.st i s0 w q t hs hq hp hr0 hgt hT h0 hge' hT.2.2.2 hbal]
            unfold expected; simp [hin]
          refine ⟨hret, by simp only; rw [he']; exact hge, ?_⟩
          intro c hc h1 h2
          simp only at h2
          rw [he'] at h2
          exact hgap c (hc i ids ei) h1 h2

theorem idle_not_all (t : Topic) (s : Src) (hp : PlainSrc t s) (hr : s.recvd = recvdNew s) : got s ≠ .all := by
  rcases hp with ⟨_, _, ⟨h1, h2⟩ | ⟨d, h1, h2⟩⟩
  · unfold got; rw [hr]; unfold recvdNew; simp [h1]
  · unfold got; rw [hr, recvdNew_explicit s t d h1 h2]; simp

theorem got_all_complete (t : Topic) (ids : List Int) (F : Int) (s : Src) (rem : List Wire) (hp : PlainSrc t s)
    (hok : SrcOK t ids F s rem) (hg : got s = .all) : F ∈ ids := by
  rcases hok with ⟨pre, rest, ws, e1, _, h⟩
  rcases h with ⟨_, h2, _, _⟩ | ⟨_, _, _, _, _, h2, _, _⟩ | ⟨_, _, pre', h1, _, _, _, _, _, _⟩
  · exact absurd hg (idle_not_all t s hp h2)
  · exact absurd hg (idle_not_all t s hp h2)
  · rw [e1, h1]; simp

theorem check_frontier (sp : JSpec) (n : NSt) (h : JInv sp n) :
    Frontier sp n (nRecv n .check).1 (nRecv n .check).2 := by
  unfold nRecv step stepCheck
  simp only
  by_cases hg : n.st.dead = true ∨ ¬ n.st.inCall = true
  · simp only [hg, ↓reduceIte]; exact frontier_same sp n _ _ rfl rfl
  · simp only [hg, ↓reduceIte]
    have hd : n.st.dead = false := by
      cases hc : n.st.dead with
      | false => rfl
      | true => exact absurd (Or.inl hc) hg
    have hin : n.st.inCall = true := by
      cases hc : n.st.inCall with
      | true => rfl
      | false => exact absurd (Or.inr (by simp [hc])) hg
    have hexp : expected n.st = n.st.minRecvId := by unfold expected; simp [hin]
    cases hrc : returnCond n.st with
    | false => simp only [Bool.false_eq_true, ↓reduceIte]; exact frontier_same sp n _ _ rfl rfl
    | true =>
    simp only [↓reduceIte]
    have ⟨hbal, hlen, hall⟩ := h hd
    have hspec := returnCond_spec n.st hrc
    have hcommon : Common sp (expected n.st) := by
      intro j ids hj
      have hj' : j < n.st.srcs.length := by
        rw [hlen]; exact (List.getElem?_eq_some_iff.mp hj).1
      have hsj : n.st.srcs[j]? = some n.st.srcs[j] := List.getElem?_eq_getElem hj'
      rcases hall j _ hsj with ⟨t, ids', fut, _, ei, _, hp, hok⟩
      rw [hj] at ei; cases ei
      have := (hspec _ (List.getElem_mem hj')).2 hp.1 hbal
      exact got_all_complete t ids _ _ _ hp hok this
    unfold finish
    simp only
    have hreq : retIds (if (!n.st.lowLat && decide (n.st.balanced ≠ 1)) = true then requests n.st n.st.minRecvId else []) = [] := by
      split
      · exact retIds_requests _ _
      · rfl
    split
    · left; exact ⟨rfl, by rw [retIds_append, hreq]; rfl⟩
    · right; right
      refine ⟨?_, ?_, hcommon⟩
      · rw [retIds_append, hreq, hexp]; rfl
      · simp only; unfold expected; simp [hin]

/-- every admissible step moves the frontier only over ids that are not common, or returns exactly the frontier id -/
theorem nstep_frontier (sp : JSpec) (hsp : SpecOK sp) (n : NSt) (e : NEv) (ha : NAdm e) (h : JInv sp n) :
    Frontier sp n (nstep n e).1 (nstep n e).2 := by
  cases e with
  | deliverNext j =>
    show Frontier sp n (nDeliver n j).1 (nDeliver n j).2
    unfold nDeliver
    split
    · refine frontier_same sp n _ _ rfl ?_
      simp only; unfold stepDeliver; split <;> rfl
    · exact frontier_same sp n _ _ rfl rfl
  | recv e =>
    show Frontier sp n (nRecv n e).1 (nRecv n e).2
    cases e with
    | deliver i w => exact absurd ha (by simp [NAdm])
    | «begin» state =>
      cases state with
      | some k => exact absurd ha (by simp [NAdm])
      | none =>
        unfold nRecv step
        simp only
        by_cases hd : n.st.dead = true
        · left; unfold stepBegin; simp [hd, retIds]
        · refine frontier_same sp n _ _ ?_ (expected_begin_none n.st (by simpa using hd))
          unfold stepBegin; split <;> rfl
    | take i => exact take_frontier sp hsp n i h
    | check => exact check_frontier sp n h
    | request =>
      unfold nRecv step
      simp only
      refine frontier_same sp n _ _ ?_ ?_
      · unfold stepRequest; split
        · rfl
        · exact retIds_requests _ _
      · unfold stepRequest; split <;> rfl
    | timeout =>
      unfold nRecv step
      simp only
      by_cases hd : n.st.dead = true
      · left; unfold stepTimeout; simp [hd, retIds]
      · refine frontier_same sp n _ _ ?_ ?_
        · unfold stepTimeout; split
          · rfl
          · simp [retIds]
        · by_cases hc : n.st.inCall = true
          · exact C01_timeout_keeps_id n.st (by simpa using hd) hc
          · simp only; unfold stepTimeout; simp [hc]

/-- invariant of a whole run -/
def RunOK (sp : JSpec) (F0 : Int) (acc : NSt × List Out) : Prop :=
  JInv sp acc.1 ∧ (∀ id ∈ retIds acc.2, Common sp id) ∧
  (acc.1.st.dead = false → F0 ≤ expected acc.1.st ∧
    ∀ c, Common sp c → F0 ≤ c → c < expected acc.1.st → c ∈ retIds acc.2)

theorem dead_stays (n : NSt) (e : NEv) (hd : n.st.dead = true) : (nstep n e).1.st.dead = true := by
  cases e with
  | deliverNext j =>
    show (nDeliver n j).1.st.dead = true
    unfold nDeliver; split
    · simp only; unfold stepDeliver; split <;> exact hd
    · exact hd
  | recv e =>
    show (nRecv n e).1.st.dead = true
    unfold nRecv; simp only
    cases e with
    | deliver i w => unfold step stepDeliver; simp only; split <;> exact hd
    | «begin» s => unfold step stepBegin; simp [hd]
    | take i => unfold step stepTake; simp [hd]
    | check => unfold step stepCheck; simp [hd]
    | request => unfold step stepRequest; simp [hd]
    | timeout => unfold step stepTimeout; simp [hd]

theorem runOK_step (sp : JSpec) (hsp : SpecOK sp) (F0 : Int) (acc : NSt × List Out) (e : NEv) (ha : NAdm e)
    (h : RunOK sp F0 acc) : RunOK sp F0 ((nstep acc.1 e).1, acc.2 ++ (nstep acc.1 e).2) := by
  rcases h with ⟨hJ, hS1, hS2⟩
  have hJ' := nstep_JInv sp hsp acc.1 e ha hJ
  have hF := nstep_frontier sp hsp acc.1 e ha hJ
  refine ⟨hJ', ?_, ?_⟩
  · intro id hid
    rw [retIds_append, List.mem_append] at hid
    rcases hid with hid | hid
    · exact hS1 id hid
    · rcases hF with ⟨_, ho⟩ | ⟨ho, _, _⟩ | ⟨ho, _, hc⟩
      · rw [ho] at hid; cases hid
      · rw [ho] at hid; cases hid
      · rw [ho] at hid; simp only [List.mem_singleton] at hid; rw [hid]; exact hc
  · intro hd'
    have hd0 : acc.1.st.dead = false := by
      cases hc : acc.1.st.dead with
      | false => rfl
      | true => rw [dead_stays acc.1 e hc] at hd'; cases hd'
    have ⟨hF0, hS2'⟩ := hS2 hd0
    rcases hF with ⟨hdead, _⟩ | ⟨ho, hle, hgap⟩ | ⟨ho, heq, hc⟩
    · simp only at hd'; rw [hdead] at hd'; cases hd'
    · refine ⟨by simp only; omega, ?_⟩
      intro c hc h0 hlt
      rw [retIds_append, List.mem_append]
      by_cases hcl : c < expected acc.1.st
      · left; exact hS2' c hc h0 hcl
      · exact absurd hlt (fun hlt' => hgap c hc (by omega) hlt')
    · refine ⟨by simp only; omega, ?_⟩
      intro c hcc h0 hlt
      simp only at hlt
      rw [retIds_append, List.mem_append]
      by_cases hcl : c < expected acc.1.st
      · left; exact hS2' c hcc h0 hcl
      · right; rw [ho]; simp only [List.mem_singleton]; omega

/-- **C03 (A1, join completeness, single-topic partial form)** -/
theorem C03_join_complete_partial (sp : JSpec) (hsp : SpecOK sp) (n0 : NSt) (h0 : JInv sp n0) (hd0 : n0.st.dead = false)
    (evs : List NEv) (hadm : ∀ e ∈ evs, NAdm e) :
    let r := nrun n0 evs
    (∀ id ∈ retIds r.2, Common sp id) ∧
    (r.1.st.dead = false → ∀ c, Common sp c → expected n0.st ≤ c → c < expected r.1.st → c ∈ retIds r.2) := by
  have key : ∀ (evs : List NEv) (acc : NSt × List Out), (∀ e ∈ evs, NAdm e) → RunOK sp (expected n0.st) acc →
      RunOK sp (expected n0.st)
        (evs.foldl (fun (acc : NSt × List Out) e => ((nstep acc.1 e).1, acc.2 ++ (nstep acc.1 e).2)) acc) := by
    intro evs
    induction evs with
    | nil => intro acc _ h; exact h
    | cons e es ih =>
      intro acc hadm h
      simp only [List.foldl_cons]
      exact ih _ (fun x hx => hadm x (List.mem_cons_of_mem _ hx))
        (runOK_step sp hsp _ acc e (hadm e (List.mem_cons_self ..)) h)
  have hinit : RunOK sp (expected n0.st) (n0, []) := by
    refine ⟨h0, ?_, ?_⟩
    · intro id hid; cases hid
    · intro _
      refine ⟨Int.le_refl _, ?_⟩
      intro c _ h1 h2
      simp only at h2
      omega
  have := key evs (n0, []) hadm hinit
  exact ⟨this.2.1, fun hd => (this.2.2 hd).2⟩

end OF.Recv

namespace OF.Recv

/-- a freshly constructed receiver of plain sources, with nothing delivered yet, satisfies the join invariant -/
theorem init_JInv (sp : JSpec) (streams : List (List Wire)) (lowLat : Bool)
    (hlen : sp.ids.length = sp.topics.length)
    (hst : ∀ (j : Nat) (t : Topic), sp.topics[j]? = some t →
      ∃ ids ws, sp.ids[j]? = some ids ∧ streams[j]? = some ws ∧ Stream t ids ws) :
    JInv sp { st := mkSt (sp.topics.map fun _ => mkSrc 0 none) false lowLat, future := streams } := by
  intro _
  refine ⟨rfl, by simp [mkSt, hlen], ?_⟩
  intro j s hj
  simp only [mkSt, List.getElem?_map] at hj
  cases ht : sp.topics[j]? with
  | none => rw [ht] at hj; cases hj
  | some t =>
    rw [ht] at hj
    simp only [Option.map_some, Option.some.injEq] at hj
    subst hj
    rcases hst j t ht with ⟨ids, ws, e1, e2, e3⟩
    refine ⟨t, ids, ws, rfl, e1, e2, ⟨rfl, rfl, Or.inl ⟨rfl, rfl⟩⟩, ?_⟩
    refine ⟨[], ids, ws, rfl, e3, Or.inl ⟨by simp [mkSrc], rfl, rfl, by intro c hc; cases hc⟩⟩

/-! non-vacuity: two sources, ids [0,1,2] and [0,2]; whatever the schedule below does, exactly the common ids come out -/

def exT (t : Topic) (k : Int) (b : Nat) : Wire := { frame0 := "/" ++ t ++ "/", sid := t, mid := k, topics := [t], bal := 0, body := b }
def exH (t : Topic) (k : Int) : Wire := { frame0 := "//", sid := t, mid := k, topics := [t], bal := 0, body := 0 }
def exN0 : NSt :=
  { st := mkSt [mkSrc 0 none, mkSrc 0 none] false false,
    future := [[exT "a" 0 10, exH "a" 0, exT "a" 1 11, exH "a" 1, exT "a" 2 12, exH "a" 2],
               [exT "b" 0 20, exH "b" 0, exT "b" 2 22, exH "b" 2]] }

example : retIds (nrun exN0
    [.deliverNext 0, .deliverNext 0, .deliverNext 0, .deliverNext 1, .recv (.begin none), .recv (.take 0), .recv (.take 1), .recv .check,
     .deliverNext 0, .deliverNext 1, .deliverNext 1, .deliverNext 1,
     .recv (.begin none), .recv (.take 0), .recv (.take 0), .recv (.take 1), .recv .check, .recv .request, .recv .timeout,   -- A/1 waits, call times out
     .recv (.begin none), .recv (.take 1), .recv .check,                                                                   -- B/2 is newer: A/1 dropped
     .deliverNext 0, .deliverNext 0, .recv (.take 0), .recv (.take 0), .recv .check]).2 = [0, 2] := by decide +kernel

end OF.Recv

namespace OF.Recv

/-- the same for any freshly constructed plain sources, all-topics or explicit / remapped -/
theorem init_JInv_explicit (sp : JSpec) (srcs : List Src) (streams : List (List Wire)) (lowLat : Bool)
    (hlen : srcs.length = sp.ids.length)
    (hsrc : ∀ (j : Nat) (s : Src), srcs[j]? = some s →
      ∃ t ids ws, sp.topics[j]? = some t ∧ sp.ids[j]? = some ids ∧ streams[j]? = some ws ∧ Stream t ids ws ∧
        PlainSrc t s ∧ s.recvd = recvdNew s ∧ s.reg = true ∧ s.queue = []) :
    JInv sp { st := mkSt srcs false lowLat, future := streams } := by
  intro _
  refine ⟨rfl, by simp [mkSt, hlen], ?_⟩
  intro j s hj
  simp only [mkSt] at hj
  rcases hsrc j s hj with ⟨t, ids, ws, e1, e2, e3, e4, hp, hr, hg, hq⟩
  refine ⟨t, ids, ws, e1, e2, e3, hp, ?_⟩
  rw [hq]
  exact ⟨[], ids, ws, rfl, e4, Or.inl ⟨by simp, hr, hg, by intro c hc; cases hc⟩⟩

/-- an explicit, remapped subscription (`addr;a>x`) is a plain source -/
example : PlainSrc "a" (mkSrc 0 (some [("a", "x")])) ∧ (mkSrc 0 (some [("a", "x")])).recvd = recvdNew (mkSrc 0 (some [("a", "x")])) := by
  refine ⟨⟨rfl, rfl, Or.inr ⟨"x", by decide, by decide⟩⟩, by decide⟩

end OF.Recv
