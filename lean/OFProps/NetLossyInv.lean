import OFModel.Zmq.NetLossy
import OFProps.C01Net
set_option linter.unusedSimpArgs false
/-!
# The fault events of `NetLossy` and the network invariant (helper lemmas for `C01NetLossy.lean` / `C02NetLossy.lean`)

* a SUB queue that LOSES messages (`dropWireCon`) keeps every clause of the receiver part of `NodeInv`: the receiver invariant
  `Inv`, `Prov` w.r.t. the SAME delivery history (the history records what was delivered, not what is still queued),
  the kinds of the sources, `TopicsNE`, `NoSyncFrames` — none of them speaks about what is *still* queued, only about what a queued
  message is (`rinv_dropWire`, `nodeInv_dropWire`);
* a PULL queue that loses or duplicates requests: `NodeInv` says nothing about the contents of PULL queues (`nodeInv_setPub`);
* `netInv_lstep`: `NetInv` is preserved by every event of the lossy network.
-/
namespace OF.Net.Lossy
open OF.Recv (Src Wire Msg Recvd Topic)

/-! ## losing a queued wire message -/

theorem dropWireCon_get (c : Recv.St) (j k a : Nat) :
    (dropWireCon c j k).srcs[a]? = (c.srcs[a]?).map fun s => if a = j then { s with queue := s.queue.eraseIdx k } else s := by
  unfold dropWireCon; simp only; rw [List.getElem?_mapIdx]

/-- a source after a loss: same kind, same buffer, same registration; its queue lost at most one message -/
theorem dropWireCon_src (c : Recv.St) (j k a : Nat) (s' : Src) (h : (dropWireCon c j k).srcs[a]? = some s') :
    ∃ s, c.srcs[a]? = some s ∧ s'.eph = s.eph ∧ s'.recvd = s.recvd ∧ s'.reg = s.reg ∧ s'.subAll = s.subAll ∧ s'.subs = s.subs ∧
      (∀ w ∈ s'.queue, w ∈ s.queue) := by
  rw [dropWireCon_get] at h
  cases hs : c.srcs[a]? with
  | none => rw [hs] at h; cases h
  | some s =>
    rw [hs] at h
    simp only [Option.map_some, Option.some.injEq] at h
    refine ⟨s, rfl, ?_⟩
    by_cases hu : a = j
    · simp only [hu, ↓reduceIte] at h; subst h
      exact ⟨rfl, rfl, rfl, rfl, rfl, fun w hw => List.mem_of_mem_eraseIdx hw⟩
    · simp only [hu, ↓reduceIte] at h; subst h
      exact ⟨rfl, rfl, rfl, rfl, rfl, fun w hw => hw⟩

theorem dropWireCon_ephs (c : Recv.St) (j k : Nat) : ephs (dropWireCon c j k).srcs = ephs c.srcs := by
  unfold ephs
  apply List.ext_getElem?
  intro a
  rw [List.getElem?_map, List.getElem?_map, dropWireCon_get]
  cases c.srcs[a]? with
  | none => rfl
  | some s => simp only [Option.map_some]; split <;> rfl

theorem dropWireCon_noSync (c : Recv.St) (j k : Nat) (h : Recv.NoSyncFrames c) : Recv.NoSyncFrames (dropWireCon c j k) := by
  intro a s' ha he l hl
  rcases dropWireCon_src c j k a s' ha with ⟨s, hs, e1, e2, _⟩
  exact h a s hs (e1 ▸ he) l (e2 ▸ hl)

theorem dropWireCon_inv (c : Recv.St) (j k : Nat) (h : Recv.Inv c) : Recv.Inv (dropWireCon c j k) := by
  intro hd
  have ⟨hS, hL⟩ := h hd
  constructor
  · intro a s' ha he l hl
    rcases dropWireCon_src c j k a s' ha with ⟨s, hs, e1, e2, _⟩
    exact hS a s hs (e1 ▸ he) l (e2 ▸ hl)
  · intro hb a b sa sb hab ha hb' hea hha
    rcases dropWireCon_src c j k a sa ha with ⟨sa0, hsa, e1, e2, _⟩
    rcases dropWireCon_src c j k b sb hb' with ⟨sb0, hsb, _, _, e3, _⟩
    rw [e3]
    refine hL hb a b sa0 sb0 hab hsa hsb (e1 ▸ hea) ?_
    rcases hha with ⟨l, hl, x⟩
    exact ⟨l, e2 ▸ hl, x⟩

/-- the delivery history does not change: it records what was delivered -/
theorem dropWireCon_prov (c : Recv.St) (j k : Nat) (hist : Nat → List Wire) (h : Recv.Prov c hist) :
    Recv.Prov (dropWireCon c j k) hist := by
  intro a s' ha
  rcases dropWireCon_src c j k a s' ha with ⟨s, hs, _, e2, _, e4, e5, hq⟩
  have ⟨h1, h2⟩ := h a s hs
  refine ⟨fun w hw => h1 w (hq w hw), ?_⟩
  intro l hl
  rw [e2] at hl
  intro x hx m hm
  have ⟨⟨w, hw, e⟩, e6⟩ := h2 l hl x hx m hm
  refine ⟨⟨w, hw, ?_⟩, e6⟩
  rw [e]; unfold Recv.msgOf; rw [e4, e5]

theorem rinv_dropWire (c : Recv.St) (j k : Nat) (hist : Nat → List Wire) (h : RInv c hist) : RInv (dropWireCon c j k) hist := by
  refine ⟨dropWireCon_inv c j k h.inv, dropWireCon_prov c j k hist h.prov, ?_, ?_⟩
  · rw [dropWireCon_ephs]; exact h.sync
  · intro a s' ha l hl
    rcases dropWireCon_src c j k a s' ha with ⟨s, hs, _, e2, _⟩
    exact h.ne a s hs l (e2 ▸ hl)

theorem nodeInv_dropWire (tp : Topo) (tbl : List Entry) (i : Nat) (nd : Node) (j k : Nat) (h : NodeInv tp tbl i nd) :
    NodeInv tp tbl i { nd with con := dropWireCon nd.con j k } := by
  rcases h.hist with ⟨hist, h1, h2⟩
  refine { h with conIdle := h.conIdle, shape := ?_, hist := ⟨hist, rinv_dropWire nd.con j k hist h1, h2⟩, rstate := ?_, pendFresh := ?_ }
  · simp only; rw [dropWireCon_ephs]; exact h.shape
  · intro x hx
    rcases h.rstate x hx with h3 | h3
    · left; exact h3
    · right; exact dropWireCon_noSync _ _ _ h3
  · intro hp; exact dropWireCon_noSync _ _ _ (h.pendFresh hp)

/-! ## losing / duplicating a queued request -/

/-- `NodeInv` does not speak about the contents of the PULL queues -/
theorem nodeInv_setPub (tp : Topo) (tbl : List Entry) (i : Nat) (nd : Node) (p : Send.St) (hp : p.inCall = nd.pub.inCall)
    (h : NodeInv tp tbl i nd) : NodeInv tp tbl i { nd with pub := p } :=
  { h with pubIdle := hp.trans h.pubIdle }

/-! ## node lists -/

theorem mapAt_get (nodes : List Node) (i : Nat) (f : Node → Node) (u : Nat) :
    (nodes.mapIdx fun a nd => if a = i then f nd else nd)[u]? = (nodes[u]?).map fun nd => if u = i then f nd else nd := by
  rw [List.getElem?_mapIdx]

theorem nodesInv_mapAt (tp : Topo) (tbl : List Entry) (nodes : List Node) (i : Nat) (f : Node → Node)
    (h : NodesInv tp tbl nodes) (hf : ∀ nd, NodeInv tp tbl i nd → NodeInv tp tbl i (f nd)) :
    NodesInv tp tbl (nodes.mapIdx fun a nd => if a = i then f nd else nd) := by
  intro u nd hu
  rw [mapAt_get] at hu
  cases hn : nodes[u]? with
  | none => rw [hn] at hu; cases hu
  | some nd0 =>
    rw [hn] at hu; simp only [Option.map_some, Option.some.injEq] at hu
    by_cases hui : u = i
    · simp only [hui, ↓reduceIte] at hu; subst hu
      exact hui ▸ hf nd0 (hui ▸ h u nd0 hn)
    · simp only [hui, ↓reduceIte] at hu; subst hu
      exact h u nd0 hn

theorem netInv_dropWire (tp : Topo) (st : St) (i j k : Nat) (h : NetInv tp st) : NetInv tp (dropWire st i j k) := by
  refine ⟨by simp only [dropWire, List.length_mapIdx]; exact h.len, h.tbl, ?_⟩
  exact nodesInv_mapAt tp st.tbl st.nodes i _ h.nodes fun nd hnd => nodeInv_dropWire tp st.tbl i nd j k hnd

theorem netInv_dropReq (tp : Topo) (st : St) (p k : Nat) (h : NetInv tp st) : NetInv tp (dropReq st p k) := by
  refine ⟨by simp only [dropReq, List.length_mapIdx]; exact h.len, h.tbl, ?_⟩
  exact nodesInv_mapAt tp st.tbl st.nodes p _ h.nodes fun nd hnd => nodeInv_setPub tp st.tbl p nd _ rfl hnd

theorem netInv_dupReq (tp : Topo) (st : St) (p k : Nat) (h : NetInv tp st) : NetInv tp (dupReq st p k) := by
  refine ⟨by simp only [dupReq, List.length_mapIdx]; exact h.len, h.tbl, ?_⟩
  exact nodesInv_mapAt tp st.tbl st.nodes p _ h.nodes fun nd hnd => nodeInv_setPub tp st.tbl p nd _ rfl hnd

/-- **`NetInv` is preserved by every event of the lossy network** -/
theorem netInv_lstep (tp : Topo) (proc : Proc) (hp : ProcOK proc) (st : St) (e : LEv) (h : NetInv tp st) :
    NetInv tp (lstep tp proc st e).1 := by
  cases e with
  | base e => exact netInv_step tp proc hp st e h
  | dropWire i j k => exact netInv_dropWire tp st i j k h
  | dropReq p k => exact netInv_dropReq tp st p k h
  | dupReq p k => exact netInv_dupReq tp st p k h

theorem netInv_lrun (tp : Topo) (proc : Proc) (hp : ProcOK proc) : ∀ (evs : List LEv) (st : St), NetInv tp st →
    NetInv tp (lrun tp proc st evs).1 := by
  intro evs
  induction evs with
  | nil => intro st h; exact h
  | cons e es ih => intro st h; exact ih _ (netInv_lstep tp proc hp st e h)

theorem reachableL_lrun (tp : Topo) (proc : Proc) : ∀ (evs : List LEv) (st : St), ReachableL tp proc st →
    ReachableL tp proc (lrun tp proc st evs).1 := by
  intro evs
  induction evs with
  | nil => intro st h; exact h
  | cons e es ih => intro st h; exact ih _ (ReachableL.step e h)

/-- every lossy-reachable state is the end of a lossy run from the initial state -/
theorem reachableL_iff_lrun (tp : Topo) (proc : Proc) (st : St) :
    ReachableL tp proc st ↔ ∃ evs, st = (lrun tp proc (init tp) evs).1 := by
  constructor
  · intro h
    induction h with
    | init => exact ⟨[], rfl⟩
    | step e _ ih =>
      rcases ih with ⟨evs, rfl⟩
      refine ⟨evs ++ [e], ?_⟩
      have gen : ∀ (es : List LEv) (s : St), (lrun tp proc s (es ++ [e])).1 = (lstep tp proc (lrun tp proc s es).1 e).1 := by
        intro es
        induction es with
        | nil => intro s; rfl
        | cons x xs ihx => intro s; exact ihx _
      rw [gen]
  · rintro ⟨evs, rfl⟩
    exact reachableL_lrun tp proc evs _ .init

/-- every loss-free reachable state is lossy-reachable -/
theorem reachable_reachableL (tp : Topo) (proc : Proc) (st : St) (h : Reachable tp proc st) : ReachableL tp proc st := by
  induction h with
  | init => exact .init
  | step e _ ih => exact ReachableL.step (.base e) ih

end OF.Net.Lossy
