import OFProps.JoinEphCall
/-!
# A join with ephemeral side sources — the CONSUMED prefix of a synchronised stream (helpers for `C05_join_eph_never_ahead`)

`MSrcOK` describes a synchronised source relative to what is LEFT of its stream.  To compare two runs over the same streams we
also need what the source has CONSUMED: `Gh p F s rem` says, for the prefix `c` with `p.wires = c ++ rem`,
* every consumed message has an id `≤ F` (the frontier is at least every consumed id),
* every consumed message of id `F` with a subscribed topic is reflected in the buffer (`bufHas`), and
* every frame in the buffer comes from a consumed message of id `F`.
`HInv sp n = GInv RGh sp n` is preserved by every admissible event (`nstep_HInv`, given `SInv`).  Two consequences compare two
sources over the same stream: `gh_all_transfer` (the one that consumed more is complete if the other is, at the same frontier) and
`gh_lock` (same consumed prefix, the one with the higher frontier is out of the poller => so is the other).
Also here: what a `take` does to the queues (`take_qs`) and to `min_recv_id` (`onTake_minRecvId`).
-/
namespace OF.Recv

/-! ### queues -/

def qs (l : List Src) : List (List Wire) := l.map (fun s => s.queue)

theorem qs_get (l : List Src) (a : Nat) : (qs l)[a]? = (l[a]?).map (fun s => s.queue) := by
  unfold qs; rw [List.getElem?_map]

theorem qs_set (l : List Src) (i : Nat) (s' : Src) : qs (l.set i s') = (qs l).set i s'.queue := by
  unfold qs; rw [List.map_set]

theorem qs_resetOthers (l : List Src) (i : Nat) : qs (resetOthers l i) = qs l := by
  unfold qs
  apply List.ext_getElem?
  intro j
  rw [List.getElem?_map, List.getElem?_map, resetOthers_get]
  cases l[j]? with
  | none => rfl
  | some s => simp only [Option.map_some]; split <;> rfl

theorem qs_lockOthers (l : List Src) (i : Nat) : qs (lockOthers l i) = qs l := by
  unfold qs
  apply List.ext_getElem?
  intro j
  rw [List.getElem?_map, List.getElem?_map, lockOthers_get]
  cases l[j]? with
  | none => rfl
  | some s => simp only [Option.map_some]; split <;> rfl

/-- a take pops exactly the head of the source's queue; no other queue changes -/
theorem onTake_qs (st : St) (i : Nat) (s0 : Src) (w : Wire) (q : List Wire) (hs : st.srcs[i]? = some s0)
    (hq : s0.queue = w :: q) : qs (onTake st i).1.srcs = (qs st.srcs).set i q := by
  unfold onTake
  rw [hs]
  simp only [hq]
  generalize hst1 : (if (if s0.eph = 0 then w.bal else 0) ≠ 0 then
      { st with balanced := if s0.eph = 0 then w.bal else 0 } else st) = st1
  have e1 : st1.srcs = st.srcs := by subst hst1; exact (balUpd_srcs st _ _).1
  rw [← e1]
  split
  · unfold takeSpecial
    split
    · exact qs_set _ _ _
    · split <;> exact qs_set _ _ _
  · split
    · unfold takeEph
      split
      · exact qs_set _ _ _
      · rw [qs_set]; simp only [storeRecvd_queue]
    · unfold takeSync
      split
      · exact qs_set _ _ _
      · unfold syncApply
        simp only
        have h0 : ∀ r, qs (st1.srcs.set i (storeRecvd { s0 with queue := q, conn := true } r w.topics)) =
            (qs st1.srcs).set i q := by
          intro r; rw [qs_set, storeRecvd_queue]
        split <;> split <;> simp only [qs_lockOthers, qs_resetOthers, h0]

/-- the two things a `take` event can be: nothing at all, or `onTake` on a polled source with a queued message -/
theorem take_qs (st : St) (i : Nat) :
    (step st (.take i)).1 = st ∨
    ∃ s0 w q, st.srcs[i]? = some s0 ∧ s0.reg = true ∧ s0.queue = w :: q ∧ st.dead = false ∧ st.inCall = true ∧
      (step st (.take i)).1 = (onTake st i).1 ∧ qs (onTake st i).1.srcs = (qs st.srcs).set i q := by
  unfold step stepTake
  simp only
  by_cases hg : st.dead = true ∨ ¬ st.inCall = true
  · simp only [hg, ↓reduceIte]; left; trivial
  · simp only [hg, ↓reduceIte]
    have ⟨hd, hin⟩ := live_of_not st hg
    cases hs : st.srcs[i]? with
    | none => left; rfl
    | some s0 =>
      simp only
      cases hreg : s0.reg with
      | false => simp only [Bool.false_eq_true, ↓reduceIte]; left; trivial
      | true =>
        simp only [↓reduceIte]
        cases hq : s0.queue with
        | nil => left; exact onTake_empty st i s0 hs hq
        | cons w q => right; exact ⟨s0, w, q, by first | rfl | trivial, hreg, hq, hd, hin, by first | rfl | trivial, onTake_qs st i s0 w q hs hq⟩

/-- one `take`: the source list keeps its length, every queue stays or (the polled one) loses its head -/
theorem take_queue_rel (st : St) (i : Nat) :
    (step st (.take i)).1.srcs.length = st.srcs.length ∧
    ∀ (a : Nat) (s s' : Src), st.srcs[a]? = some s → (step st (.take i)).1.srcs[a]? = some s' →
      s'.queue = s.queue ∨ (a = i ∧ ∃ w, s.queue = w :: s'.queue) := by
  rcases take_qs st i with h | ⟨s0, w, q, hs0, _, hq, _, _, hst, hset⟩
  · rw [h]
    refine ⟨rfl, ?_⟩
    intro a s s' hs hs'
    rw [hs] at hs'; cases hs'; left; rfl
  · rw [hst]
    constructor
    · have := congrArg List.length hset
      unfold qs at this
      simpa using this
    · intro a s s' hs hs'
      have := congrArg (fun l => l[a]?) hset
      simp only [qs_get, hs, hs', Option.map_some, List.getElem?_set] at this
      by_cases hia : i = a
      · subst hia
        right
        rw [hs0] at hs; cases hs
        have hlt : i < (qs st.srcs).length := by
          unfold qs; rw [List.length_map]; exact (List.getElem?_eq_some_iff.mp hs0).1
        simp only [hlt, ↓reduceIte, Option.some.injEq] at this
        exact ⟨rfl, w, by rw [hq, this]⟩
      · left
        simp only [hia, ↓reduceIte, Option.some.injEq] at this
        exact this

theorem takes_queue_suffix : ∀ (tk : List Nat) (st : St),
    (run st (OF.Net.takes tk)).1.srcs.length = st.srcs.length ∧
    ∀ (a : Nat) (s s' : Src), st.srcs[a]? = some s → (run st (OF.Net.takes tk)).1.srcs[a]? = some s' →
      s'.queue <:+ s.queue := by
  intro tk
  induction tk with
  | nil =>
    intro st
    refine ⟨rfl, ?_⟩
    intro a s s' hs hs'
    have : (run st (OF.Net.takes [])).1 = st := rfl
    rw [this, hs] at hs'; cases hs'
    exact List.suffix_refl _
  | cons i rest ih =>
    intro st
    have hrun : (run st (OF.Net.takes (i :: rest))).1 = (run (step st (.take i)).1 (OF.Net.takes rest)).1 := by
      simp only [OF.Net.takes, List.map_cons]
      rw [OF.Net.rrun_cons]
    rw [hrun]
    have h1 := take_queue_rel st i
    have h2 := ih (step st (.take i)).1
    refine ⟨h2.1.trans h1.1, ?_⟩
    intro a s s' hs hs'
    have hlt : a < (step st (.take i)).1.srcs.length := by rw [h1.1]; exact (List.getElem?_eq_some_iff.mp hs).1
    have hm := List.getElem?_eq_getElem hlt
    have hsuf := h2.2 a _ s' hm hs'
    rcases h1.2 a s _ hs hm with e | ⟨_, w, e⟩
    · rw [← e]; exact hsuf
    · rw [e]; exact List.IsSuffix.trans hsuf (List.suffix_cons _ _)

/-- a take leaves `min_recv_id` alone or - synchronised sources only - sets it to the id of the taken message -/
theorem onTake_minRecvId (st : St) (i : Nat) (s0 : Src) (w : Wire) (q : List Wire) (hs : st.srcs[i]? = some s0)
    (hq : s0.queue = w :: q) :
    (onTake st i).1.minRecvId = st.minRecvId ∨ (s0.eph = 0 ∧ (onTake st i).1.minRecvId = w.mid) := by
  unfold onTake
  rw [hs]
  simp only [hq]
  generalize hst1 : (if (if s0.eph = 0 then w.bal else 0) ≠ 0 then
      { st with balanced := if s0.eph = 0 then w.bal else 0 } else st) = st1
  have e1 : st1.minRecvId = st.minRecvId := by
    subst hst1
    by_cases hb : (if s0.eph = 0 then w.bal else 0) ≠ 0 <;> simp [hb]
  split
  · left
    unfold takeSpecial
    split
    · exact e1
    · split <;> exact e1
  · split
    · left
      unfold takeEph
      split <;> exact e1
    · rename_i he
      have he0 : s0.eph = 0 := by simpa using he
      unfold takeSync
      split
      · left; exact e1
      · right; exact ⟨he0, rfl⟩

/-! ### the consumed prefix -/

/-- the buffer of `s` bufHas a frame for key `t` -/
def bufHas (s : Src) (t : Topic) : Prop := ∃ l m, s.recvd = some l ∧ (t, some m) ∈ l

theorem bufHas_map (s : Src) (ks : List Topic) (f : Topic → Option Msg) (h : s.recvd = some (ks.map fun t => (t, f t)))
    (t : Topic) : bufHas s t ↔ t ∈ ks ∧ (f t).isSome = true := by
  unfold bufHas
  constructor
  · rintro ⟨l, m, hl, hm⟩
    rw [h] at hl; cases hl
    rcases List.mem_map.mp hm with ⟨t', ht', e⟩
    simp only [Prod.mk.injEq] at e
    rcases e with ⟨rfl, e2⟩
    exact ⟨ht', by rw [e2]; rfl⟩
  · rintro ⟨ht, hs⟩
    cases hv : f t with
    | none => rw [hv] at hs; cases hs
    | some m => exact ⟨_, m, h, List.mem_map.mpr ⟨t, ht, by rw [hv]⟩⟩

theorem not_bufHas_new (s : Src) (h : s.recvd = recvdNew s) (t : Topic) : ¬ bufHas s t := by
  rintro ⟨l, m, hl, hm⟩
  have := noFrames_recvdNew s l (by rw [← h]; exact hl) _ hm
  cases this

theorem bufHas_congr (s s' : Src) (h : s'.recvd = s.recvd) (t : Topic) : bufHas s' t ↔ bufHas s t := by
  unfold bufHas; rw [h]

/-- **ghost part of the invariant of a synchronised source**: `c` = what it has consumed of its stream -/
def Gh (p : PubSpec) (F : Int) (s : Src) (rem : List Wire) : Prop :=
  ∃ c, p.wires = c ++ rem ∧ (∀ w ∈ c, w.mid ≤ F) ∧
    (∀ w ∈ c, w.mid = F → p.eff w ∈ p.keys → bufHas s (p.eff w)) ∧
    (∀ t, bufHas s t → ∃ w ∈ c, w.mid = F ∧ p.eff w = t)

def RGh : SrcRel := fun p _ F s rem => p.eph = 0 → Gh p.pub F s rem

def HInv (sp : List ESpec) (n : NSt) : Prop := GInv RGh sp n

theorem Gh_congr (p : PubSpec) (F : Int) (s s' : Src) (rem : List Wire) (h : s'.recvd = s.recvd) :
    Gh p F s rem → Gh p F s' rem := by
  rintro ⟨c, hc, ga, gb, gc⟩
  refine ⟨c, hc, ga, ?_, ?_⟩
  · intro w hw h1 h2; exact (bufHas_congr s s' h _).mpr (gb w hw h1 h2)
  · intro t ht; exact gc t ((bufHas_congr s s' h t).mp ht)

theorem rgh_congr : RCongr RGh := by
  intro p j F s s' rem h1 _ _ _ _ _ _ h hp
  exact Gh_congr p.pub F s s' rem h1 (h hp)

/-- a source whose buffer is (re)set to `recvd_new` while the frontier rises -/
theorem Gh_reset (p : PubSpec) (F F' : Int) (s s' : Src) (rem : List Wire) (hF : F < F') (hr : s'.recvd = recvdNew s') :
    Gh p F s rem → Gh p F' s' rem := by
  rintro ⟨c, hc, ga, _, _⟩
  refine ⟨c, hc, ?_, ?_, ?_⟩
  · intro w hw; have := ga w hw; omega
  · intro w hw h1; have := ga w hw; omega
  · intro t ht; exact absurd ht (not_bufHas_new s' hr t)

/-- the source that took the non-older message `w`: its new buffer is the old one (`g`) with the topic of `w` stored -/
theorem gh_take_sync (p : PubSpec) (sNew : Src) (w : Wire) (c rem : List Wire) (m : Msg) (g : Topic → Option Msg)
    (hc : p.wires = (c ++ [w]) ++ rem)
    (ga : ∀ w' ∈ c, w'.mid ≤ w.mid)
    (hm : m.topic = p.eff w)
    (hnew : sNew.recvd = some (p.keys.map fun t => (t, if t = m.topic then some m else g t)))
    (gb : ∀ w' ∈ c, w'.mid = w.mid → p.eff w' ∈ p.keys → (g (p.eff w')).isSome = true)
    (gc : ∀ t ∈ p.keys, (g t).isSome = true → ∃ w' ∈ c, w'.mid = w.mid ∧ p.eff w' = t) :
    Gh p w.mid sNew rem := by
  refine ⟨c ++ [w], hc, ?_, ?_, ?_⟩
  · intro w' hw'
    rcases List.mem_append.mp hw' with h | h
    · exact ga w' h
    · simp only [List.mem_singleton] at h; subst h; exact Int.le_refl _
  · intro w' hw' h1 h2
    rw [bufHas_map sNew _ _ hnew]
    refine ⟨h2, ?_⟩
    by_cases e : p.eff w' = m.topic
    · simp [e]
    · simp only [e, ↓reduceIte]
      rcases List.mem_append.mp hw' with h | h
      · exact gb w' h h1 h2
      · simp only [List.mem_singleton] at h; subst h; exact absurd hm.symm e
  · intro t ht
    rw [bufHas_map sNew _ _ hnew] at ht
    by_cases e : t = m.topic
    · exact ⟨w, by simp, rfl, by rw [e, hm]⟩
    · simp only [e, ↓reduceIte] at ht
      rcases gc t ht.1 ht.2 with ⟨w', hw', h1, h2⟩
      exact ⟨w', List.mem_append_left _ hw', h1, h2⟩

theorem take_eph_HInv (sp : List ESpec) (n : NSt) (i : Nat) (s0 : Src) (w : Wire) (q : List Wire)
    (hs : n.st.srcs[i]? = some s0) (hq : s0.queue = w :: q) (heph : s0.eph ≠ 0) (h : HInv sp n) :
    HInv sp { n with st := (onTake n.st i).1 } := by
  rcases onTake_eph_shape n.st i s0 w q hs hq heph with ⟨s', hst, he, _, _, _, hqq, _⟩
  rw [hst]
  have hlen : i < n.st.srcs.length := (List.getElem?_eq_some_iff.mp hs).1
  refine GInv_of RGh RGh sp n _ rfl rfl (by simp) ?_ h
  intro _ _ a sa ha
  simp only [List.getElem?_set] at ha
  by_cases hia : i = a
  · subst hia
    simp only [hlen, ↓reduceIte, Option.some.injEq] at ha
    subst ha
    refine ⟨s0, hs, he, ?_⟩
    intro fut hfut
    refine ⟨fut, hfut, ?_⟩
    intro p _ hpe _ hp0
    exact absurd (hpe ▸ hp0) heph
  · simp only [hia, ↓reduceIte] at ha
    refine ⟨sa, ha, rfl, ?_⟩
    intro fut hfut
    exact ⟨fut, hfut, fun p _ _ hok => hok⟩

theorem take_HInv (sp : List ESpec) (hsp : SyncOK sp) (n : NSt) (i : Nat) (h : SInv sp n) (hh : HInv sp n) :
    HInv sp (nRecv n (.take i)).1 := by
  unfold nRecv step stepTake
  simp only
  by_cases hg : n.st.dead = true ∨ ¬ n.st.inCall = true
  · simp only [hg, ↓reduceIte]; exact hh
  · simp only [hg, ↓reduceIte]
    have ⟨hd, hin⟩ := live_of_not n.st hg
    have hexp : expected n.st = n.st.minRecvId := by unfold expected; simp [hin]
    cases hs : n.st.srcs[i]? with
    | none => exact hh
    | some s0 =>
      simp only
      cases hreg : s0.reg with
      | false => simp only [Bool.false_eq_true, ↓reduceIte]; exact hh
      | true =>
      simp only [↓reduceIte]
      have ⟨hbal, _, hall⟩ := h hd
      have ⟨_, _, hallH⟩ := hh hd
      rcases hall i s0 hs with ⟨p, fut, ep, ef, hpe, hR⟩
      cases hq : s0.queue with
      | nil => rw [onTake_empty n.st i s0 hs hq]; exact hh
      | cons w q =>
      by_cases hpn : p.eph ≠ 0
      · exact take_eph_HInv sp n i s0 w q hs hq (by rw [hpe]; exact hpn) hh
      have hp0 : p.eph = 0 := by omega
      have ⟨hp, hok⟩ := hR hp0
      have hpo : PubOK p.pub := hsp p (List.mem_of_getElem? ep) hp0
      rw [hq] at hok
      have hok' : MSrcOK p.pub i (expected n.st) s0 (w :: (q ++ fut)) := by simpa using hok
      have hlen : i < n.st.srcs.length := (List.getElem?_eq_some_iff.mp hs).1
      -- the ghost of the polled source
      rcases hallH i s0 hs with ⟨p', fut', ep', ef', _, hG⟩
      rw [ep] at ep'; cases ep'
      rw [ef] at ef'; cases ef'
      have hG0 := hG hp0
      rw [hq] at hG0
      rcases hG0 with ⟨c, hc, ga, gb, gc⟩
      have hc' : p.pub.wires = (c ++ [w]) ++ (q ++ fut) := by rw [hc]; simp
      have hexp' : ∀ srcs, expected { n.st with srcs := srcs, minRecvId := w.mid } = w.mid := by
        intro srcs; unfold expected; simp [hin]
      have hp1 : MPlain p.pub { s0 with queue := q, conn := true } := MPlain_congr p.pub s0 _ rfl rfl rfl rfl hp
      have hmt : (takenMsg s0 i w).topic = p.pub.eff w := by
        unfold takenMsg PubSpec.eff; simp only; rw [hp.2.1, hp.2.2.2]
      -- common part of the two "not older" cases
      have notOlder : ∀ (g : Topic → Option Msg), n.st.minRecvId ≤ w.mid → w.topics = p.pub.ts →
          ((processMsg { s0 with queue := q, conn := true } (takenMsg s0 i w) p.pub.ts n.st.minRecvId).2).map
            (fun r => prune { s0 with queue := q, conn := true } r p.pub.ts) =
              some (p.pub.keys.map fun t => (t, if t = (takenMsg s0 i w).topic then some (takenMsg s0 i w) else g t)) →
          (∀ w' ∈ c, w'.mid = w.mid → p.pub.eff w' ∈ p.pub.keys → (g (p.pub.eff w')).isSome = true) →
          (∀ t ∈ p.pub.keys, (g t).isSome = true → ∃ w' ∈ c, w'.mid = w.mid ∧ p.pub.eff w' = t) →
          HInv sp { n with st := (onTake n.st i).1 } := by
        intro g hge htop hL hgb hgc
        have ⟨h0, hb0, _⟩ := mtake_src p.pub hpo i (expected n.st) s0 w (q ++ fut) hok' hreg
        rw [onTake_sync n.st i s0 w q hs hq hp.1 h0 hge hb0 hbal, htop]
        have ⟨f1, f2, f3, f4, f5, f6, f7⟩ := storeRecvd_after { s0 with queue := q, conn := true }
          (processMsg { s0 with queue := q, conn := true } (takenMsg s0 i w) p.pub.ts n.st.minRecvId).2 p.pub.ts _ hL hreg
        generalize storeRecvd { s0 with queue := q, conn := true }
          (processMsg { s0 with queue := q, conn := true } (takenMsg s0 i w) p.pub.ts n.st.minRecvId).2 p.pub.ts = sNew at f1 f2 f3 f4 f5 f6 f7
        have hown : Gh p.pub w.mid sNew (sNew.queue ++ fut) := by
          rw [f7]
          exact gh_take_sync p.pub sNew w c (q ++ fut) (takenMsg s0 i w) g hc'
            (fun w' hw' => by have := ga w' hw'; omega) hmt f1 hgb hgc
        by_cases hnew : n.st.minRecvId < w.mid
        · simp only [hnew, ↓reduceIte]
          refine GInv_of RGh RGh sp n _ rfl rfl (by simp [resetOthers]) ?_ hh
          intro _ _ a s' ha
          simp only at ha
          rw [resetOthers_get, List.getElem?_set] at ha
          by_cases hia : i = a
          · subst hia
            simp only [hlen, ↓reduceIte, Option.map_some, ne_eq, not_true_eq_false, false_and, Option.some.injEq] at ha
            subst ha
            refine ⟨s0, hs, f3, ?_⟩
            intro fut' hfut'
            rw [ef] at hfut'; cases hfut'
            refine ⟨fut, ef, ?_⟩
            intro p' ep' _ _ _
            rw [ep] at ep'; cases ep'
            simp only
            rw [hexp']
            exact hown
          · simp only [hia, ↓reduceIte] at ha
            cases h0a : n.st.srcs[a]? with
            | none => rw [h0a] at ha; cases ha
            | some sa =>
              rw [h0a] at ha
              simp only [Option.map_some, Option.some.injEq] at ha
              refine ⟨sa, rfl, ?_, ?_⟩
              · subst ha; split <;> rfl
              · intro fut' hfut'
                refine ⟨fut', hfut', ?_⟩
                intro p' ep' hpe' hoka hp0'
                have hcond : a ≠ i ∧ sa.eph = 0 := ⟨fun e => hia e.symm, hpe'.trans hp0'⟩
                simp only [hcond, ne_eq, not_false_eq_true, and_self, ↓reduceIte] at ha
                subst ha
                simp only
                rw [hexp']
                exact Gh_reset p'.pub (expected n.st) w.mid sa _ _ (by rw [hexp]; exact hnew) rfl (hoka hp0')
        · have hsame : w.mid = n.st.minRecvId := by omega
          simp only [hnew, ↓reduceIte]
          refine GInv_of RGh RGh sp n _ rfl rfl (by simp) ?_ hh
          intro _ _ a s' ha
          simp only [List.getElem?_set] at ha
          by_cases hia : i = a
          · subst hia
            simp only [hlen, ↓reduceIte, Option.some.injEq] at ha
            subst ha
            refine ⟨s0, hs, f3, ?_⟩
            intro fut' hfut'
            rw [ef] at hfut'; cases hfut'
            refine ⟨fut, ef, ?_⟩
            intro p' ep' _ _ _
            rw [ep] at ep'; cases ep'
            simp only
            rw [hexp']
            exact hown
          · simp only [hia, ↓reduceIte] at ha
            refine ⟨s', ha, rfl, ?_⟩
            intro fut' hfut'
            refine ⟨fut', hfut', ?_⟩
            intro p' _ _ hoka hp0'
            simp only
            rw [hexp', hsame, ← hexp]
            exact hoka hp0'
      rcases mtake_src p.pub hpo i (expected n.st) s0 w (q ++ fut) hok' hreg with
        ⟨h0, hb0, ⟨hlt, _, _⟩ | ⟨hge, htop, hkey, hr0, _, _, _⟩ | ⟨heq, htop, hkey, g, hr0, _⟩⟩
      · -- older: dropped
        rw [onTake_older n.st i s0 w q hs hq hp.1 h0 (hexp ▸ hlt) hb0]
        refine GInv_of RGh RGh sp n _ rfl rfl (by simp) ?_ hh
        intro _ _ a s' ha
        simp only [List.getElem?_set] at ha
        by_cases hia : i = a
        · subst hia
          simp only [hlen, ↓reduceIte, Option.some.injEq] at ha
          subst ha
          refine ⟨s0, hs, rfl, ?_⟩
          intro fut' hfut'
          rw [ef] at hfut'; cases hfut'
          refine ⟨fut, ef, ?_⟩
          intro p' ep' _ _ _
          rw [ep] at ep'; cases ep'
          refine ⟨c ++ [w], hc', ?_, ?_, ?_⟩
          · intro w' hw'
            rcases List.mem_append.mp hw' with h1 | h1
            · exact ga w' h1
            · simp only [List.mem_singleton] at h1; subst h1; exact Int.le_of_lt hlt
          · intro w' hw' e1 e2
            rcases List.mem_append.mp hw' with h1 | h1
            · exact gb w' h1 e1 e2
            · simp only [List.mem_singleton] at h1; subst h1; exfalso; have e1' : _ = expected n.st := e1; omega
          · intro t ht
            rcases gc t ht with ⟨w', hw', e1, e2⟩
            exact ⟨w', List.mem_append_left _ hw', e1, e2⟩
        · simp only [hia, ↓reduceIte] at ha
          refine ⟨s', ha, rfl, ?_⟩
          intro fut' hfut'
          exact ⟨fut', hfut', fun p' _ _ hok' => hok'⟩
      · -- first message of a block that is not older
        have hge' : n.st.minRecvId ≤ w.mid := hexp ▸ hge
        refine notOlder (fun _ => none) hge' htop
          (first_recvd p.pub hpo { s0 with queue := q, conn := true } hp1 hr0 (takenMsg s0 i w) n.st.minRecvId hge'
            (hmt ▸ hkey)) ?_ ?_
        · intro w' hw' e1 e2
          exfalso
          have hF : w'.mid = expected n.st := by have := ga w' hw'; omega
          exact not_bufHas_new s0 hr0 _ (gb w' hw' hF e2)
        · intro t _ ht; cases ht
      · -- next message of the block being assembled
        have hge' : n.st.minRecvId ≤ w.mid := by rw [heq, hexp]; exact Int.le_refl _
        refine notOlder g hge' htop
          (next_recvd p.pub hpo { s0 with queue := q, conn := true } hp1 g hr0 (takenMsg s0 i w) n.st.minRecvId
            (by show w.mid = _; rw [heq, hexp]) (hmt ▸ hkey)) ?_ ?_
        · intro w' hw' e1 e2
          exact ((bufHas_map s0 _ _ hr0 _).mp (gb w' hw' (by rw [e1, heq]) e2)).2
        · intro t ht hs'
          rcases gc t ((bufHas_map s0 _ _ hr0 t).mpr ⟨ht, hs'⟩) with ⟨w', hw', e1, e2⟩
          exact ⟨w', hw', by rw [e1, heq], e2⟩

theorem check_HInv (sp : List ESpec) (n : NSt) (hh : HInv sp n) : HInv sp (nRecv n .check).1 := by
  unfold nRecv step stepCheck
  simp only
  by_cases hg : n.st.dead = true ∨ ¬ n.st.inCall = true
  · simp only [hg, ↓reduceIte]; exact hh
  · simp only [hg, ↓reduceIte]
    have ⟨_, hin⟩ := live_of_not n.st hg
    have hexp : expected n.st = n.st.minRecvId := by unfold expected; simp [hin]
    cases hrc : returnCond n.st with
    | false => simp only [Bool.false_eq_true, ↓reduceIte]; exact hh
    | true =>
    simp only [↓reduceIte]
    unfold finish
    simp only
    split
    · intro hd'; simp at hd'
    · refine GInv_of RGh RGh sp n _ rfl rfl (by simp [newRecvAll]) ?_ hh
      intro _ _ a s' ha
      simp only at ha
      rw [newRecvAll_get'] at ha
      cases h0a : n.st.srcs[a]? with
      | none => rw [h0a] at ha; cases ha
      | some sa =>
        rw [h0a] at ha
        simp only [Option.map_some, Option.some.injEq] at ha
        subst ha
        refine ⟨sa, rfl, rfl, ?_⟩
        intro fut' hfut'
        refine ⟨fut', hfut', ?_⟩
        intro p' ep' _ hoka hp0'
        have hexp' : expected { n.st with prevId := n.st.minRecvId, srcs := newRecvAll n.st.srcs, inCall := false } = n.st.minRecvId + 1 := by
          unfold expected; simp
        simp only
        rw [hexp']
        exact Gh_reset p'.pub (expected n.st) _ sa _ _ (by rw [hexp]; omega) rfl (hoka hp0')

theorem nstep_HInv (sp : List ESpec) (hsp : SyncOK sp) (n : NSt) (e : NEv) (ha : NAdm e) (h : SInv sp n) (hh : HInv sp n) :
    HInv sp (nstep n e).1 := by
  cases e with
  | deliverNext j => exact deliverNext_GInv RGh rgh_congr sp n j hh
  | recv e =>
    unfold nstep
    cases e with
    | deliver i w => exact absurd ha (by simp [NAdm])
    | «begin» state =>
      cases state with
      | none => exact begin_GInv RGh sp n hh
      | some k => exact absurd ha (by simp [NAdm])
    | take i => exact take_HInv sp hsp n i h hh
    | check => exact check_HInv sp n hh
    | request => exact request_GInv RGh sp n hh
    | timeout => exact timeout_GInv RGh sp n hh

theorem nrun_HInv (sp : List ESpec) (hsp : SyncOK sp) : ∀ (evs : List NEv) (n : NSt), (∀ e ∈ evs, NAdm e) → SInv sp n →
    HInv sp n → HInv sp (nrun n evs).1 := by
  intro evs
  induction evs with
  | nil => intro n _ _ h; exact h
  | cons e es ih =>
    intro n hadm h hh
    rw [nrun_cons]
    exact ih _ (fun x hx => hadm x (List.mem_cons_of_mem _ hx)) (nstep_SInv sp hsp n e (hadm e (List.mem_cons_self ..)) h)
      (nstep_HInv sp hsp n e (hadm e (List.mem_cons_self ..)) h hh)

/-! ### comparing two sources over the same stream -/

theorem gotAll_of_got (s : Src) (h : got s = .all) : gotAll s = true := by
  unfold got at h
  unfold gotAll
  cases hr : s.recvd with
  | none => rw [hr] at h; cases h
  | some l =>
    rw [hr] at h
    simp only at h
    split at h
    · rename_i hc
      rw [List.all_eq_true]
      intro x hx
      have hnot : x ∉ l.filter (fun p => p.2.isNone) := by
        rw [List.length_eq_zero_iff.mp hc]; simp
      rw [List.mem_filter] at hnot
      cases hv : x.2 with
      | none => exact absurd ⟨hx, by rw [hv]; rfl⟩ hnot
      | some _ => rfl
    · split at h <;> cases h

/-- **the source that has consumed more is complete if the other one is** (same stream, same frontier) -/
theorem gh_all_transfer (p : PubSpec) (hp : PubOK p) (hk : p.keys ≠ []) (j : Nat) (F : Int) (s1 s2 : Src) (rem1 rem2 : List Wire)
    (hm1 : MPlain p s1) (ho1 : MSrcOK p j F s1 rem1) (hg1 : Gh p F s1 rem1)
    (ho2 : MSrcOK p j F s2 rem2) (hg2 : Gh p F s2 rem2) (hsub : ∃ X, rem1 = X ++ rem2)
    (hall : got s1 = .all) : got s2 = .all := by
  rcases hg1 with ⟨c1, e1, _, _, hc1⟩
  rcases hg2 with ⟨c2, e2, _, hb2, _⟩
  rcases hsub with ⟨X, rfl⟩
  have hc : c2 = c1 ++ X := by
    have : c2 ++ rem2 = (c1 ++ X) ++ rem2 := by rw [← e2, e1, List.append_assoc]
    exact List.append_cancel_right this
  rcases ho1 with ⟨_, pre, rest, ws, _, _, h⟩
  rcases h with ⟨_, _, _, h3, _, _⟩ | ⟨pre', done, todo, g, _, _, _, _, h5, _, _, _⟩
  · exact absurd hall (midle_not_all p hp s1 hm1 h3)
  · have hga := (gotAll_map s1 p.keys g h5).mp (gotAll_of_got s1 hall)
    have hh2 : ∀ t ∈ p.keys, bufHas s2 t := by
      intro t ht
      rcases hc1 t ((bufHas_map s1 _ _ h5 t).mpr ⟨ht, hga t ht⟩) with ⟨w, hw, hw1, hw2⟩
      have := hb2 w (by rw [hc]; exact List.mem_append_left _ hw) hw1 (hw2 ▸ ht)
      rw [hw2] at this
      exact this
    rcases ho2 with ⟨_, pre2, rest2, ws2, _, _, h⟩
    rcases h with ⟨_, _, _, h3, _, _⟩ | ⟨pre2', done2, todo2, g2, _, _, _, _, h5', _, _, _⟩
    · exfalso
      rcases List.exists_mem_of_ne_nil _ hk with ⟨t0, ht0⟩
      exact not_bufHas_new s2 h3 t0 (hh2 t0 ht0)
    · apply got_all_of_gotAll
      rw [gotAll_map s2 p.keys g2 h5']
      intro t ht
      exact ((bufHas_map s2 _ _ h5' t).mp (hh2 t ht)).2

/-- **same consumed prefix: if the source of the run whose frontier is not lower is out of the poller, so is the other** -/
theorem gh_lock (p : PubSpec) (hp : PubOK p) (hk : p.keys ≠ []) (j : Nat) (F1 F2 : Int) (s1 s2 : Src) (rem : List Wire)
    (hm1 : MPlain p s1) (hm2 : MPlain p s2) (ho1 : MSrcOK p j F1 s1 rem) (hg1 : Gh p F1 s1 rem)
    (ho2 : MSrcOK p j F2 s2 rem) (hg2 : Gh p F2 s2 rem) (hF : F1 ≤ F2) (hr2 : s2.reg = false) : s1.reg = false := by
  -- source 2 is complete for `F2`
  have hall2 : gotAll s2 = true := by
    rcases ho2 with ⟨_, pre, rest, ws, _, _, h⟩
    rcases h with ⟨_, _, _, _, h4, _⟩ | ⟨_, _, _, _, _, _, _, _, _, _, _, h8⟩
    · rw [hr2] at h4; cases h4
    · rw [hr2] at h8; simpa using h8
  -- hence it consumed a message of id `F2`, and so did source 1
  have hFe : F1 = F2 := by
    rcases ho2 with ⟨_, pre, rest, ws, _, _, h⟩
    rcases h with ⟨_, _, _, h3, _, _⟩ | ⟨pre', done, todo, g, _, _, _, _, h5, _, _, _⟩
    · exact absurd (got_all_of_gotAll s2 hall2) (midle_not_all p hp s2 hm2 h3)
    · rcases List.exists_mem_of_ne_nil _ hk with ⟨t0, ht0⟩
      have hga := (gotAll_map s2 p.keys g h5).mp hall2
      rcases hg2 with ⟨c2, e2, _, _, hc2⟩
      rcases hc2 t0 ((bufHas_map s2 _ _ h5 t0).mpr ⟨ht0, hga t0 ht0⟩) with ⟨w, hw, hw1, _⟩
      rcases hg1 with ⟨c1, e1, ga1, _, _⟩
      have hc : c1 = c2 := by
        have : c1 ++ rem = c2 ++ rem := by rw [← e1, e2]
        exact List.append_cancel_right this
      have := ga1 w (by rw [hc]; exact hw)
      omega
  subst hFe
  have hall1 := gh_all_transfer p hp hk j F1 s2 s1 rem rem hm2 ho2 hg2 ho1 hg1 ⟨[], rfl⟩ (got_all_of_gotAll s2 hall2)
  rcases ho1 with ⟨_, pre, rest, ws, _, _, h⟩
  rcases h with ⟨_, _, _, h3, _, _⟩ | ⟨_, _, _, _, _, _, _, _, _, _, _, h8⟩
  · exact absurd hall1 (midle_not_all p hp s1 hm1 h3)
  · rw [h8, gotAll_of_got s1 hall1]; rfl

end OF.Recv
