import OFProps.C06StarEdge
import OFProps.C03Tree
import OFProps.C06Net
set_option linter.unusedSimpArgs false
/-!
# A source with `b` consumers (tee): the invariants (helper for `OFProps/C06Star.lean`)

Topology `starTopo b = treeTopo (List.replicate b 0)`: node 0 the source, nodes `1 … b` sinks subscribed to the source only.
* data plane - taken from `C03Tree.lean` (`GoodT`: per consumer the SUB queue is a `ChanQ` of the blocks published and not yet
  taken): `star_good` (every state reachable without restarts), `star_facts` (what is used of it: `StarData`);
* control plane - `StarOwn`: the source is idle between calls, every request queued at the source and every entry of its client
  table belongs to a consumer `1 … b` (first incarnation), table keys distinct, what the source holds to send is a dict.
-/
namespace OF.Net
open OF
open OF.Pair (PubIdle PubBusy)
open OF.Chain (Blk ChanQ BlkOK Rest visData)

/-! ## the topology -/

def starPar (b : Nat) : List Nat := List.replicate b 0

def starTopo (b : Nat) : Topo := treeTopo (starPar b)

theorem starPar_ok (b : Nat) : ParOK (starPar b) := by
  intro idx p h
  simp only [starPar, List.getElem?_replicate] at h
  split at h
  · cases h; omega
  · cases h

theorem starPar_get (b idx : Nat) (h : idx < b) : (starPar b)[idx]? = some 0 := by
  simp [starPar, List.getElem?_replicate, h]

theorem star_n (b : Nat) : (starTopo b).n = b + 1 := by simp [starTopo, tree_n, starPar]

theorem star_ups0 (b : Nat) : (starTopo b).upsOf 0 = [] := tree_upsOf_zero _

theorem star_ups (b i : Nat) (h1 : 1 ≤ i) (h2 : i ≤ b) : (starTopo b).upsOf i = [0] := by
  obtain ⟨idx, rfl⟩ : ∃ idx, i = idx + 1 := ⟨i - 1, by omega⟩
  unfold starTopo
  rw [tree_upsOf_succ, starPar_get b idx (by omega)]; rfl

theorem star_ups_out (b i : Nat) (h : b < i) : (starTopo b).upsOf i = [] := by
  obtain ⟨idx, rfl⟩ : ∃ idx, i = idx + 1 := ⟨i - 1, by omega⟩
  unfold starTopo
  rw [tree_upsOf_succ]
  have : (starPar b)[idx]? = none := by simp [starPar, List.getElem?_replicate]; omega
  rw [this]; rfl

theorem star_hasOut0 (b : Nat) (hb : 1 ≤ b) : (starTopo b).hasOut 0 = true := by
  unfold starTopo
  rw [tree_hasOut]
  simp only [starPar, List.contains_eq_mem, List.mem_replicate, ne_eq, and_true, decide_eq_true_eq]
  omega

theorem star_hasOut (b i : Nat) (h : 1 ≤ i) : (starTopo b).hasOut i = false := by
  unfold starTopo
  rw [tree_hasOut]
  simp only [starPar, List.contains_eq_mem, List.mem_replicate, decide_eq_false_iff_not]
  omega

/-- the source always has a next frame: `process()` of node 0 answers with a dict (possibly `{}`, possibly through a callable) -/
def SrcAll (proc : Proc) : Prop := ∀ n h, (dictOf (Loop.processFrames (proc 0 n h))).isSome = true

/-! ## data plane: `GoodT` in every state reachable without restarts -/

theorem star_good (b : Nat) (proc : Proc) (hp : ProcNames proc) (st : St) (hr : ReachNR (starTopo b) proc st) :
    ∃ X : LSt, X.st = st ∧ GoodT proc (starPar b) X := by
  induction hr with
  | init => exact ⟨linit (starTopo b), rfl, goodT_init proc (starPar b)⟩
  | step e hne _ ih =>
    rcases ih with ⟨X, hX, hg⟩
    subst hX
    refine ⟨lstep (starTopo b) proc X e, rfl, ?_⟩
    cases e with
    | nodeRecv j => exact goodT_stepRecv proc hp (starPar b) (starPar_ok b) X j hg
    | nodeSend j t => exact goodT_stepSend proc (starPar b) (starPar_ok b) X j t hg
    | restart j g => cases hne

/-- what the liveness proof uses of the data-plane invariant: the source `nd0` (next id `M`) and every consumer -/
structure StarData (b : Nat) (st : St) (nd0 : Node) : Prop where
  len : st.nodes.length = b + 1
  n0 : st.nodes[0]? = some nd0
  srcs0 : nd0.con.srcs = []
  ss0 : nd0.sendState = none
  idle0 : nd0.pub.inCall = false
  bal0 : nd0.pub.balance = false
  nq0 : nd0.pub.queues.length = 1
  min0 : 0 ≤ nd0.pub.minSendId
  reqs0 : ∀ q ∈ nd0.pub.queues, ∀ r ∈ q, r.mid < nd0.pub.minSendId
  names0 : ∀ p d, nd0.pending = some p → dictOf p.res = some d → NamesOK d
  con : ∀ i, 1 ≤ i → i ≤ b → ∃ C s bsW, st.nodes[i]? = some C ∧ Rest C.con s ∧ ChanQ 0 C.con.prevId s.queue bsW ∧
    (∀ k, C.recvState = some k → k ≤ C.con.prevId + 1) ∧ C.con.prevId < nd0.pub.minSendId ∧
    (bsW = [] ↔ ¬ C.con.prevId + 1 < nd0.pub.minSendId) ∧ (∀ x ∈ bsW, x.1 < nd0.pub.minSendId)

theorem star_facts (b : Nat) (hb : 1 ≤ b) (proc : Proc) (X : LSt) (hg : GoodT proc (starPar b) X) :
    ∃ nd0, StarData b X.st nd0 := by
  have hlen : X.st.nodes.length = b + 1 := by rw [hg.len]; simp [starPar]
  have h0 : 0 < X.st.nodes.length := by omega
  have hn0 : X.st.nodes[0]? = some X.st.nodes[0] := List.getElem?_eq_getElem h0
  generalize X.st.nodes[0] = nd0 at hn0
  have hmem : 0 ∈ starPar b := by simp [starPar]; omega
  rcases hg.pubs 0 nd0 hn0 hmem with ⟨pub, hpub, hcons⟩
  have hG0 := hg.node 0 nd0 hn0
  have hmin : nd0.pub.minSendId = lastId pub + 1 := hpub.minSend
  refine ⟨nd0, hlen, hn0, (hG0.src rfl).1, (hG0.src rfl).2, hpub.idle, hpub.bal, hpub.nq, ?_, ?_, hpub.names, ?_⟩
  · have := lastId_ge_neg1 pub hpub.inc; omega
  · intro q hq r hr
    have := hpub.reqs q hq r hr; omega
  · intro i h1 h2
    obtain ⟨idx, rfl⟩ : ∃ idx, i = idx + 1 := ⟨i - 1, by omega⟩
    have hil : idx + 1 < X.st.nodes.length := by omega
    have hC : X.st.nodes[idx + 1]? = some X.st.nodes[idx + 1] := List.getElem?_eq_getElem hil
    generalize X.st.nodes[idx + 1] = C at hC
    rcases hcons idx C (starPar_get b idx (by omega)) hC with ⟨bsW, s, hc⟩
    have hGC := hg.node (idx + 1) C hC
    have hprev : C.con.prevId = lastId (pub.take C.count) := by
      have h1 := hc.prev
      have h2 := hc.handed
      simp only [atC] at h1 h2
      rw [h1, h2, lastId_map_visB]
    have hle : C.con.prevId ≤ lastId pub := by rw [hprev]; exact lastId_take_le pub hpub.inc C.count
    have hids : ∀ x ∈ bsW, x.1 ≤ lastId pub := by
      intro x hx
      have : cblk (atC X (idx + 1)).st.tbl x ∈ pub.drop C.count := by
        rw [hc.queued]; exact List.mem_map_of_mem hx
      have := lastId_ge pub hpub.inc _ (List.mem_of_mem_drop this)
      exact this
    refine ⟨C, s, bsW, hC, hc.rest, hc.chan, hGC.recvSt (by omega), by omega, ?_, fun x hx => by have := hids x hx; omega⟩
    constructor
    · intro hnil
      have hq := hc.queued
      rw [hnil] at hq
      simp only [List.map_nil, List.drop_eq_nil_iff] at hq
      have : pub.take C.count = pub := List.take_of_length_le hq
      rw [this] at hprev
      omega
    · intro hnb
      cases hb' : bsW with
      | nil => rfl
      | cons x xs =>
        exfalso
        have h3 := OF.Chain.chanQ_ids 0 hc.chan x (by rw [hb']; exact List.mem_cons_self ..)
        have h4 := hids x (by rw [hb']; exact List.mem_cons_self ..)
        omega

/-! ## the four kinds of events in a star, as changes of the node list -/

/-- **`recv` of an idle consumer `i`**: one request reaches the source; no block queued (`prev_id + 1 = M`) ⇒ the queue is
drained, nothing returned; a block queued ⇒ it is returned and handed to `process()` -/
theorem star_recv_shape (b : Nat) (proc : Proc) (st : St) (nd0 : Node) (hd : StarData b st nd0) (i : Nat) (h1 : 1 ≤ i) (h2 : i ≤ b)
    (C : Node) (hC : st.nodes[i]? = some C) (hp : C.pending = none) :
    ∃ (rq : Send.Req) (C' : Node) (s s' : Recv.Src),
      (∀ x, (stepRecv (starTopo b) proc st i).1.nodes[x]? =
          if x = 0 then some { nd0 with pub := pushReqs nd0.pub [rq] } else if x = i then some C' else st.nodes[x]?) ∧
      (stepRecv (starTopo b) proc st i).1.tbl = st.tbl ∧
      rq.cid = cidOf i ∧ rq.uid = uidOf C.gen 0 ∧ rq.eph = 0 ∧ -1 ≤ rq.mid ∧ rq.mid < nd0.pub.minSendId ∧ rq.new = !s'.conn ∧
      C'.gen = C.gen ∧ C.con.srcs = [s] ∧ C'.con.srcs = [s'] ∧ s'.conn = (s.conn || !s.queue.isEmpty) ∧
      (¬ C.con.prevId + 1 < nd0.pub.minSendId → C'.con.prevId = C.con.prevId ∧ C'.pending = none ∧ s'.queue = []) ∧
      (C.con.prevId + 1 < nd0.pub.minSendId → C.con.prevId < C'.con.prevId ∧ C'.con.prevId < nd0.pub.minSendId ∧
        C'.pending.isSome = true ∧ s.queue ≠ [] ∧ s'.conn = true) ∧
      retAt i (.nodeRecv i) (stepRecv (starTopo b) proc st i).2 =
        (if C.con.prevId + 1 < nd0.pub.minSendId then [C'.con.prevId] else []) := by
  rcases hd.con i h1 h2 with ⟨C0, s, bsW, hC0, hrest, hchan, hrs, hlt, hiff, hids⟩
  rw [hC] at hC0; cases hC0
  have hsrcs : C.con.srcs = [s] := hrest.idle.srcs
  have hne : C.con.srcs.isEmpty = false := by rw [hsrcs]; rfl
  have hprio : List.range C.con.srcs.length = [0] := by rw [hsrcs]; rfl
  have hups := star_ups b i h1 h2
  have hil : i < st.nodes.length := (List.getElem?_eq_some_iff.mp hC).1
  have hprev := hrest.idle.prev
  have hst : (stepRecv (starTopo b) proc st i).1 =
      { st with nodes := (deliverReqs (starTopo b) (st.nodes.set i (afterRecv proc st.tbl i C (Recv.call0 C.con C.recvState [0])))
          i C.gen (Recv.call0 C.con C.recvState [0]).2) } := by
    unfold stepRecv
    simp only [hC, hp, Option.isSome_none, Bool.false_eq_true, ↓reduceIte, hne, recvRelay, hprio]
  have hobs : (stepRecv (starTopo b) proc st i).2 = recvObs st.tbl (Recv.call0 C.con C.recvState [0]).2 := by
    unfold stepRecv
    simp only [hC, hp, Option.isSome_none, Bool.false_eq_true, ↓reduceIte, hne, recvRelay, hprio]
  rw [hst, hobs]
  rcases OF.Chain.call0_chain_conn 0 C.con s C.recvState s.queue bsW hrest rfl hchan hrs with
    ⟨hb0, c1, s1, e1, hr1, hp1, hq1, hc1⟩ | ⟨k, ts, bs', c1, s1, q', hb0, hbk, hk, e1, hr1, hp1, hq1, hch, hc1, hqne⟩
  · have hnb : ¬ C.con.prevId + 1 < nd0.pub.minSendId := hiff.mp hb0
    rw [e1]
    have hret : retOf [Recv.Out.req 0 C.con.prevId 0 (!s1.conn), Recv.Out.retNone] = none := rfl
    have haft : afterRecv proc st.tbl i C (c1, [Recv.Out.req 0 C.con.prevId 0 (!s1.conn), Recv.Out.retNone]) = { C with con := c1 } := by
      unfold afterRecv; rw [hret]
    rw [haft]
    refine ⟨{ cid := cidOf i, uid := uidOf C.gen 0, mid := C.con.prevId, eph := 0, new := !s1.conn, body := 0 }, { C with con := c1 }, s, s1,
      ?_, rfl, rfl, rfl, rfl, hprev, hlt, rfl, rfl, hsrcs, hr1.idle.srcs, hc1, ?_, ?_, ?_⟩
    · intro x
      exact relay_lookupT (starTopo b) st.nodes i C.gen 0 nd0 _ _ _ hups (by omega) hd.n0 hil (by simp [reqOf]) x
    · intro _; exact ⟨hp1, hp, hq1⟩
    · intro hc; exact absurd hc hnb
    · rw [if_neg hnb]; rfl
  · have hbh : C.con.prevId + 1 < nd0.pub.minSendId := by
      by_cases hc : C.con.prevId + 1 < nd0.pub.minSendId
      · exact hc
      · have := hiff.mpr hc; rw [this] at hb0; cases hb0
    rw [e1]
    have hret : retOf [Recv.Out.req 0 k 0 false, Recv.Out.ret k 0 (visData k ts)] = some (k, 0, visData k ts) := rfl
    have haft : afterRecv proc st.tbl i C (c1, [Recv.Out.req 0 k 0 false, Recv.Out.ret k 0 (visData k ts)]) =
        processed proc i { C with con := c1, sendState := some (k, 0), recvState := none } ((visData k ts).map (hframe st.tbl)) := by
      unfold afterRecv; rw [hret]
    rw [haft]
    have hkM : k < nd0.pub.minSendId := hids (k, ts) (by rw [hb0]; exact List.mem_cons_self ..)
    refine ⟨{ cid := cidOf i, uid := uidOf C.gen 0, mid := k, eph := 0, new := false, body := 0 },
      processed proc i { C with con := c1, sendState := some (k, 0), recvState := none } ((visData k ts).map (hframe st.tbl)), s, s1,
      ?_, rfl, rfl, rfl, rfl, by simp only; omega, hkM, by simp only [hc1]; rfl, rfl, hsrcs, hr1.idle.srcs, ?_, ?_, ?_, ?_⟩
    · intro x
      exact relay_lookupT (starTopo b) st.nodes i C.gen 0 nd0 _ _ _ hups (by omega) hd.n0 hil (by simp [reqOf]) x
    · rw [hc1]
      cases hs : s.queue with
      | nil => exact absurd hs hqne
      | cons _ _ => simp
    · intro hc; exact absurd hbh hc
    · intro _
      exact ⟨by simp only [processed, hp1]; exact hk, by simp only [processed, hp1]; exact hkM, rfl, hqne, hc1⟩
    · rw [if_pos hbh]
      simp only [recvObs, hret, retAt, ↓reduceIte, processed, hp1]

/-- `send` of a consumer (a sink): what it holds is dropped at once, nothing else changes -/
theorem star_csend_shape (b : Nat) (proc : Proc) (st : St) (i : Nat) (h1 : 1 ≤ i) (t : Int)
    (C : Node) (hC : st.nodes[i]? = some C) :
    (∀ x, (stepSend (starTopo b) st i t).1.nodes[x]? = if x = i then some { C with pending := none } else st.nodes[x]?) ∧
    (stepSend (starTopo b) st i t).1.tbl = st.tbl := by
  have hil : i < st.nodes.length := (List.getElem?_eq_some_iff.mp hC).1
  cases hpend : C.pending with
  | none =>
    have hst : (stepSend (starTopo b) st i t).1 = st := by unfold stepSend; simp only [hC, hpend]
    rw [hst]
    refine ⟨?_, rfl⟩
    intro x
    by_cases hx : x = i
    · subst hx; simp only [↓reduceIte, hC]
      congr 1; cases C; simp only at hpend; subst hpend; rfl
    · simp only [hx, ↓reduceIte]
  | some p =>
    have hreach : Loop.reachesSender ((starTopo b).hasOut i) p.res = false := by
      rw [star_hasOut b i h1]; cases p.res <;> rfl
    have hst : (stepSend (starTopo b) st i t).1 = { st with nodes := st.nodes.set i { C with pending := none } } := by
      unfold stepSend; simp only [hC, hpend, hreach, Bool.false_eq_true, ↓reduceIte, sendSkip]
    rw [hst]
    refine ⟨?_, rfl⟩
    intro x
    simp only [List.getElem?_set]
    by_cases hx : i = x
    · subst hx; simp [hil]
    · have hx' : ¬ x = i := fun e => hx e.symm
      simp [hx, hx']

/-- `recv` of the idle source: `process()` is called, the result is held -/
theorem star_srecv_shape (b : Nat) (proc : Proc) (st : St) (nd0 : Node) (hd : StarData b st nd0) (hp : nd0.pending = none) :
    (∀ x, (stepRecv (starTopo b) proc st 0).1.nodes[x]? = if x = 0 then some (processed proc 0 nd0 []) else st.nodes[x]?) ∧
    (stepRecv (starTopo b) proc st 0).1.tbl = st.tbl := by
  have hsrc : nd0.con.srcs.isEmpty = true := by rw [hd.srcs0]; rfl
  have hst : (stepRecv (starTopo b) proc st 0).1 = { st with nodes := st.nodes.set 0 (processed proc 0 nd0 []) } := by
    unfold stepRecv; simp only [hd.n0, hp, Option.isSome_none, Bool.false_eq_true, ↓reduceIte, hsrc, recvSource]
  rw [hst]
  refine ⟨?_, rfl⟩
  intro x
  have h0 : 0 < st.nodes.length := by rw [hd.len]; omega
  simp only [List.getElem?_set]
  by_cases hx : 0 = x
  · subst hx; simp [h0]
  · have hx' : ¬ x = 0 := fun e => hx e.symm
    simp [hx, hx']

/-- `send` of the source holding `p`: one `send0`; what it puts on the wire reaches every consumer -/
theorem star_ssend_shape (b : Nat) (hb : 1 ≤ b) (st : St) (nd0 : Node) (hd : StarData b st nd0) (t : Int) (p : Pending)
    (hp : nd0.pending = some p) (hdict : (dictOf p.res).isSome = true) :
    (∀ x, (stepSend (starTopo b) st 0 t).1.nodes[x]? =
      if x = 0 then some (afterSend nd0 p (Send.send0 nd0.pub none (payloadOf st.tbl.length p.res) false [0] t))
      else if 1 ≤ x ∧ x ≤ b then (st.nodes[x]?).map fun C =>
        { C with con := pushWires C.con [0] 0 ((Send.send0 nd0.pub none (payloadOf st.tbl.length p.res) false [0] t).2.filterMap (wireOf 0)) }
      else st.nodes[x]?) := by
  have hreach : Loop.reachesSender ((starTopo b).hasOut 0) p.res = true := by
    rw [reaches_of_dict _ _ hdict, star_hasOut0 b hb]
  have h0 : 0 < st.nodes.length := by rw [hd.len]; omega
  intro x
  unfold stepSend
  simp only [hd.n0, hp, hreach, ↓reduceIte, sendReal, hd.ss0]
  unfold starTopo
  rw [send_lookupT (starPar b) (starPar_ok b) st.nodes 0 _ _ h0 x]
  by_cases hx0 : x = 0
  · simp only [hx0, ↓reduceIte]
  · simp only [hx0, ↓reduceIte]
    by_cases hx : 1 ≤ x ∧ x ≤ b
    · have := star_ups b x hx.1 hx.2
      unfold starTopo at this
      simp only [this, ↓reduceIte, hx, and_self]
    · have hxb : b < x := by omega
      have := star_ups_out b x hxb
      unfold starTopo at this
      simp only [this, hx, ↓reduceIte]
      simp

/-! ## control plane: who the source serves -/

/-- the source between two calls: idle, every queued request and every table entry belongs to a consumer `1 … b`, table keys
distinct, what it holds to send is a dict -/
structure SrcOwn (b : Nat) (nd : Node) : Prop where
  pub : ∃ q, PubIdle nd.pub q
  reqs : ∀ q ∈ nd.pub.queues, ∀ r ∈ q, r.eph = 0 ∧ -1 ≤ r.mid ∧ ∃ j, 1 ≤ j ∧ j ≤ b ∧ Pair.fidOf r = fidC j
  clients : ∀ x ∈ nd.pub.clients, x.2.eph = 0 ∧ ∃ j, 1 ≤ j ∧ j ≤ b ∧ x.1 = fidC j
  knd : KeysND nd.pub.clients
  dict : ∀ p, nd.pending = some p → (dictOf p.res).isSome = true

structure StarOwn (b : Nat) (st : St) : Prop where
  src : ∀ nd, st.nodes[0]? = some nd → SrcOwn b nd
  gen : ∀ (i : Nat) (nd : Node), st.nodes[i]? = some nd → nd.gen = 0

theorem afterSend_pub (nd : Node) (p : Pending) (r : Send.St × List Send.Out) : (afterSend nd p r).pub = r.1 := by
  unfold afterSend; split <;> rfl

theorem afterSend_gen (nd : Node) (p : Pending) (r : Send.St × List Send.Out) : (afterSend nd p r).gen = nd.gen := by
  unfold afterSend; split <;> rfl

theorem afterSend_pending (nd : Node) (p : Pending) (r : Send.St × List Send.Out) :
    (afterSend nd p r).pending = match sendRet r.2 with | some (some _) => none | _ => nd.pending := by
  unfold afterSend
  cases sendRet r.2 with
  | none => rfl
  | some x => cases x <;> rfl

theorem clearReq_mem (cl : Send.Clients) (x : String × Send.Client) (hx : x ∈ clearReq cl) :
    ∃ y ∈ cl, x.1 = y.1 ∧ x.2.eph = y.2.eph ∧ x.2.tLast = y.2.tLast ∧ x.2.requested = false := by
  unfold clearReq at hx
  rw [List.mem_map] at hx
  rcases hx with ⟨y, hy, rfl⟩
  exact ⟨y, hy, rfl, rfl, rfl, rfl⟩

theorem clearReq_keysND (cl : Send.Clients) (h : KeysND cl) : KeysND (clearReq cl) := by
  unfold KeysND clearReq at *
  rw [List.map_map]
  exact h

/-- **one `send` of the source holding a dict**, in terms of the fold `f` over its request queue `q`: the set is published
(`M + 1`, every flag down, the block reaches the wire, nothing held any more), or the call times out (the table is what the drain
left, the result is still held, at most HELLO goes out - and it does if `do_hello` was raised) -/
theorem star_send_outcome (b : Nat) (st : St) (nd0 : Node) (hd : StarData b st nd0) (ho : SrcOwn b nd0) (t : Int) (p : Pending)
    (hp : nd0.pending = some p) (q : List Send.Req) (hq : PubIdle nd0.pub q) :
    PubIdle (Send.send0 nd0.pub none (payloadOf st.tbl.length p.res) false [0] t).1 [] ∧
    (((q.foldl (hstep t) (nd0.pub.clients, false, false)).2.1 = true ∧ (q.foldl (hstep t) (nd0.pub.clients, false, false)).1 ≠ [] ∧
      (Send.send0 nd0.pub none (payloadOf st.tbl.length p.res) false [0] t).1.minSendId = nd0.pub.minSendId + 1 ∧
      (Send.send0 nd0.pub none (payloadOf st.tbl.length p.res) false [0] t).1.clients = clearReq (q.foldl (hstep t) (nd0.pub.clients, false, false)).1 ∧
      (afterSend nd0 p (Send.send0 nd0.pub none (payloadOf st.tbl.length p.res) false [0] t)).pending = none ∧
      (Send.send0 nd0.pub none (payloadOf st.tbl.length p.res) false [0] t).2.filterMap (wireOf 0) ≠ []) ∨
     (¬ ((q.foldl (hstep t) (nd0.pub.clients, false, false)).2.1 = true ∧ (q.foldl (hstep t) (nd0.pub.clients, false, false)).1 ≠ []) ∧
      (Send.send0 nd0.pub none (payloadOf st.tbl.length p.res) false [0] t).1.minSendId = nd0.pub.minSendId ∧
      (Send.send0 nd0.pub none (payloadOf st.tbl.length p.res) false [0] t).1.clients = (q.foldl (hstep t) (nd0.pub.clients, false, false)).1 ∧
      (afterSend nd0 p (Send.send0 nd0.pub none (payloadOf st.tbl.length p.res) false [0] t)).pending = some p ∧
      ((q.foldl (hstep t) (nd0.pub.clients, false, false)).2.2 = true →
        (Send.send0 nd0.pub none (payloadOf st.tbl.length p.res) false [0] t).2.filterMap (wireOf 0) ≠ []))) := by
  obtain ⟨d, hdd⟩ : ∃ d, dictOf p.res = some d := by
    have := ho.dict p hp
    cases hx : dictOf p.res with
    | none => rw [hx] at this; cases this
    | some d => exact ⟨d, rfl⟩
  have hpay : payloadOf st.tbl.length p.res = .deferred (some (relabel st.tbl.length d)) := by
    rw [payloadOf_eq, hdd]; rfl
  rw [hpay]
  have hqm : q ∈ nd0.pub.queues := by rw [hq.queues]; exact List.mem_singleton.mpr rfl
  have hlow : ∀ r ∈ q, ReqLow nd0.pub.minSendId r := fun r hr => ⟨(ho.reqs q hqm r hr).2.1, hd.reqs0 q hqm r hr⟩
  have hf := send0_fold 0 nd0.pub q (relabel st.tbl.length d) t hq hlow
  have hch := send0_chain (fun _ => True) 0 nd0.pub none (some (relabel st.tbl.length d)) t hd.idle0 hd.bal0 hd.nq0 (Or.inl rfl)
    (Int.le_refl _) (fun q' hq' x hx => ⟨hd.reqs0 q' hq' x hx, trivial⟩)
  simp only [callId] at hch
  generalize Send.send0 nd0.pub none (.deferred (some (relabel st.tbl.length d))) false [0] t = R at hf hch ⊢
  generalize q.foldl (hstep t) (nd0.pub.clients, false, false) = f at hf ⊢
  refine ⟨hf.1, ?_⟩
  rcases hch with ⟨_, _, _, _, hcase⟩
  by_cases hc : f.2.1 = true ∧ f.1 ≠ []
  · have h2 := hf.2
    rw [if_pos hc] at h2
    left
    refine ⟨hc.1, hc.2, h2.1, h2.2, ?_, ?_⟩
    · rcases hcase with ⟨m1, _⟩ | ⟨hr, _⟩ | ⟨ts, hr, m1, m2, m3, m4⟩
      · rw [h2.1] at m1; omega
      · cases hr
      · rw [afterSend_pending, m2]
    · rcases hcase with ⟨m1, _⟩ | ⟨hr, _⟩ | ⟨ts, hr, m1, m2, m3, m4⟩
      · rw [h2.1] at m1; omega
      · cases hr
      · rw [m4]; simp [blockWires]
  · have h2 := hf.2
    rw [if_neg hc] at h2
    right
    refine ⟨hc, h2.1, h2.2.1, ?_, ?_⟩
    · rcases hcase with ⟨m1, m2, _⟩ | ⟨hr, _⟩ | ⟨ts, hr, m1, _⟩
      · rw [afterSend_pending, m2]; exact hp
      · cases hr
      · rw [h2.1] at m1; omega
    · intro hh
      have := h2.2.2 hh
      intro he
      rw [he] at this; cases this

/-- every event (no restart) keeps `StarOwn`, given the data-plane facts of the state it happens in -/
theorem starOwn_step (b : Nat) (hb : 1 ≤ b) (proc : Proc) (hs : SrcAll proc) (st : St) (nd0 : Node) (hd : StarData b st nd0)
    (h : StarOwn b st) (e : Ev) (hne : isRestart e = false) : StarOwn b (step (starTopo b) proc st e).1 := by
  have ho := h.src nd0 hd.n0
  cases e with
  | restart i g => cases hne
  | nodeRecv i =>
    show StarOwn b (stepRecv (starTopo b) proc st i).1
    cases hC : st.nodes[i]? with
    | none =>
      have : (stepRecv (starTopo b) proc st i).1 = st := by unfold stepRecv; simp only [hC]
      rw [this]; exact h
    | some C =>
      cases hpend : C.pending with
      | some p =>
        have : (stepRecv (starTopo b) proc st i).1 = st := by
          unfold stepRecv; simp only [hC, hpend, Option.isSome_some, ↓reduceIte]
        rw [this]; exact h
      | none =>
        have hil : i < b + 1 := by rw [← hd.len]; exact (List.getElem?_eq_some_iff.mp hC).1
        by_cases hi0 : i = 0
        · subst hi0
          rw [hd.n0] at hC; cases hC
          have ⟨hsh, _⟩ := star_srecv_shape b proc st nd0 hd hpend
          refine ⟨?_, ?_⟩
          · intro nd hnd
            rw [hsh 0] at hnd
            simp only [↓reduceIte, Option.some.injEq] at hnd
            subst hnd
            refine ⟨ho.pub, ho.reqs, ho.clients, ho.knd, ?_⟩
            intro p hp
            simp only [processed, Option.some.injEq] at hp
            rw [← hp]; exact hs _ _
          · intro x nd hnd
            rw [hsh x] at hnd
            by_cases hx : x = 0
            · simp only [hx, ↓reduceIte, Option.some.injEq] at hnd
              subst hnd
              exact h.gen 0 nd0 hd.n0
            · simp only [hx, ↓reduceIte] at hnd
              exact h.gen x nd hnd
        · obtain ⟨rq, C', s, s', hsh, _, r1, r2, r3, r4, r5, _, g1, _⟩ :=
            star_recv_shape b proc st nd0 hd i (by omega) (by omega) C hC hpend
          have hgen := h.gen i C hC
          refine ⟨?_, ?_⟩
          · intro nd hnd
            rw [hsh 0] at hnd
            simp only [↓reduceIte, Option.some.injEq] at hnd
            subst hnd
            rcases ho.pub with ⟨q, hq⟩
            refine ⟨⟨q ++ [rq], Pair.pubIdle_pushReqs nd0.pub q [rq] hq⟩, ?_, ho.clients, ho.knd, ho.dict⟩
            intro q' hq' r hr
            rcases pushReqs_mem nd0.pub [rq] q' hq' with ⟨q0, hq0, rfl⟩
            rcases List.mem_append.mp hr with hr | hr
            · exact ho.reqs q0 hq0 r hr
            · simp only [List.mem_singleton] at hr
              subst hr
              refine ⟨r3, r4, i, by omega, by omega, ?_⟩
              simp only [Pair.fidOf, fidC, r1, r2, hgen]
          · intro x nd hnd
            rw [hsh x] at hnd
            by_cases hx : x = 0
            · simp only [hx, ↓reduceIte, Option.some.injEq] at hnd
              subst hnd
              exact h.gen 0 nd0 hd.n0
            · simp only [hx, ↓reduceIte] at hnd
              by_cases hxi : x = i
              · simp only [hxi, ↓reduceIte, Option.some.injEq] at hnd
                subst hnd
                rw [g1]; exact hgen
              · simp only [hxi, ↓reduceIte] at hnd
                exact h.gen x nd hnd
  | nodeSend i t =>
    show StarOwn b (stepSend (starTopo b) st i t).1
    cases hC : st.nodes[i]? with
    | none =>
      have : (stepSend (starTopo b) st i t).1 = st := by unfold stepSend; simp only [hC]
      rw [this]; exact h
    | some C =>
      by_cases hi0 : i = 0
      · subst hi0
        rw [hd.n0] at hC; cases hC
        cases hpend : nd0.pending with
        | none =>
          have : (stepSend (starTopo b) st 0 t).1 = st := by unfold stepSend; simp only [hd.n0, hpend]
          rw [this]; exact h
        | some p =>
          have hsh := star_ssend_shape b hb st nd0 hd t p hpend (ho.dict p hpend)
          rcases ho.pub with ⟨q, hq⟩
          have hout := star_send_outcome b st nd0 hd ho t p hpend q hq
          generalize Send.send0 nd0.pub none (payloadOf st.tbl.length p.res) false [0] t = R at hsh hout
          have hqm : q ∈ nd0.pub.queues := by rw [hq.queues]; exact List.mem_singleton.mpr rfl
          -- entries of the table the drain leaves
          have hfold : ∀ x ∈ (q.foldl (hstep t) (nd0.pub.clients, false, false)).1, x.2.eph = 0 ∧ ∃ j, 1 ≤ j ∧ j ≤ b ∧ x.1 = fidC j := by
            intro x hx
            rcases fold_prov t q _ x hx with ⟨h1, _⟩ | ⟨r, hr, h1, h2⟩
            · exact ho.clients x h1
            · have ⟨a1, _, j, a2, a3, a4⟩ := ho.reqs q hqm r hr
              refine ⟨by rw [h2]; exact a1, j, a2, a3, by rw [← h1]; exact a4⟩
          have hknd := fold_keysND t q (nd0.pub.clients, false, false) ho.knd
          refine ⟨?_, ?_⟩
          · intro nd hnd
            rw [hsh 0] at hnd
            simp only [↓reduceIte, Option.some.injEq] at hnd
            subst hnd
            refine ⟨⟨[], by rw [afterSend_pub]; exact hout.1⟩, ?_, ?_, ?_, ?_⟩
            · intro q' hq' r hr
              rw [afterSend_pub, hout.1.queues] at hq'
              simp only [List.mem_singleton] at hq'
              subst hq'; cases hr
            · intro x hx
              rw [afterSend_pub] at hx
              rcases hout.2 with ⟨_, _, _, e2, _⟩ | ⟨_, _, e2, _⟩
              · rw [e2] at hx
                rcases clearReq_mem _ x hx with ⟨y, hy, k1, k2, _⟩
                have := hfold y hy
                rw [k1, k2]; exact this
              · rw [e2] at hx; exact hfold x hx
            · rw [afterSend_pub]
              rcases hout.2 with ⟨_, _, _, e2, _⟩ | ⟨_, _, e2, _⟩
              · rw [e2]; exact clearReq_keysND _ hknd
              · rw [e2]; exact hknd
            · intro p' hp'
              rcases hout.2 with ⟨_, _, _, _, e3, _⟩ | ⟨_, _, _, e3, _⟩
              · rw [e3] at hp'; cases hp'
              · rw [e3] at hp'; cases hp'
                exact ho.dict p hpend
          · intro x nd hnd
            rw [hsh x] at hnd
            by_cases hx : x = 0
            · simp only [hx, ↓reduceIte, Option.some.injEq] at hnd
              subst hnd
              rw [afterSend_gen]; exact h.gen 0 nd0 hd.n0
            · simp only [hx, ↓reduceIte] at hnd
              by_cases hxb : 1 ≤ x ∧ x ≤ b
              · simp only [hxb, and_self, ↓reduceIte] at hnd
                cases hxx : st.nodes[x]? with
                | none => rw [hxx] at hnd; cases hnd
                | some C2 =>
                  rw [hxx] at hnd
                  simp only [Option.map_some, Option.some.injEq] at hnd
                  subst hnd
                  exact h.gen x C2 hxx
              · simp only [hxb, ↓reduceIte] at hnd
                exact h.gen x nd hnd
      · have ⟨hsh, _⟩ := star_csend_shape b proc st i (by omega) t C hC
        refine ⟨?_, ?_⟩
        · intro nd hnd
          rw [hsh 0] at hnd
          have : ¬ (0 = i) := fun e => hi0 e.symm
          simp only [this, ↓reduceIte] at hnd
          exact h.src nd hnd
        · intro x nd hnd
          rw [hsh x] at hnd
          by_cases hx : x = i
          · simp only [hx, ↓reduceIte, Option.some.injEq] at hnd
            subst hnd
            exact h.gen i C hC
          · simp only [hx, ↓reduceIte] at hnd
            exact h.gen x nd hnd

theorem starOwn_init (b : Nat) : StarOwn b (init (starTopo b)) := by
  refine ⟨?_, ?_⟩
  · intro nd hnd
    have ⟨_, e⟩ := init_get _ _ _ hnd
    subst e
    refine ⟨⟨[], Pair.pubIdle_fresh⟩, ?_, (by intro x hx; cases hx), List.nodup_nil, (by intro p hp; cases hp)⟩
    intro q hq r hr
    simp only [freshNode, Send.mkSt, List.replicate, List.mem_singleton] at hq
    subst hq; cases hr
  · intro i nd hnd
    have ⟨_, e⟩ := init_get _ _ _ hnd
    subst e; rfl

/-- **both invariants in every state reachable without restarts** -/
theorem star_inv (b : Nat) (hb : 1 ≤ b) (proc : Proc) (hp : ProcNames proc) (hs : SrcAll proc) (st : St)
    (hr : ReachNR (starTopo b) proc st) : StarOwn b st ∧ ∃ nd0, StarData b st nd0 := by
  have hdata : ∀ st', ReachNR (starTopo b) proc st' → ∃ nd0, StarData b st' nd0 := by
    intro st' hr'
    rcases star_good b proc hp st' hr' with ⟨X, hX, hg⟩
    subst hX
    exact star_facts b hb proc X hg
  refine ⟨?_, hdata st hr⟩
  induction hr with
  | init => exact starOwn_init b
  | step e hne hr' ih =>
    rcases hdata _ hr' with ⟨nd0, hd⟩
    exact starOwn_step b hb proc hs _ nd0 hd ih e hne

/-! ## control plane: who is tracked has heard -/

theorem heardAt_single (st : St) (j : Nat) (C : Node) (s : Recv.Src) (h : st.nodes[j]? = some C) (hs : C.con.srcs = [s]) :
    heardAt st j = s.conn := by
  unfold heardAt; rw [h]; simp [hs]

theorem queueNeAt_single (st : St) (j : Nat) (C : Node) (s : Recv.Src) (h : st.nodes[j]? = some C) (hs : C.con.srcs = [s]) :
    queueNeAt st j = !s.queue.isEmpty := by
  unfold queueNeAt; rw [h]; simp [hs]

theorem heardAt_congr (st st' : St) (j : Nat) (h : st'.nodes[j]? = st.nodes[j]?) : heardAt st' j = heardAt st j := by
  unfold heardAt; rw [h]

theorem heardAt_congr_con (st st' : St) (j : Nat) (C C' : Node) (h : st.nodes[j]? = some C) (h' : st'.nodes[j]? = some C')
    (hc : C'.con = C.con) : heardAt st' j = heardAt st j := by
  unfold heardAt; rw [h, h']; simp only [Option.map_some, hc]

/-- every consumer the source tracks, and every consumer that has a request queued that does not say `new`, has heard from the
source (a client is registered only by a request that does not say `new`, and such a request is sent only after something was heard) -/
def StarHeard (st : St) : Prop :=
  ∀ nd0, st.nodes[0]? = some nd0 → ∀ j : Nat,
    (∀ x ∈ nd0.pub.clients, x.1 = fidC j → heardAt st j = true) ∧
    (∀ q ∈ nd0.pub.queues, ∀ r ∈ q, Pair.fidOf r = fidC j → r.new = false → heardAt st j = true)

theorem fidC_inj (i j : Nat) (h : fidC i = fidC j) : i = j := by
  by_cases hij : i = j
  · exact hij
  · exact absurd h (key_ne i j 0 0 0 0 hij)

theorem starHeard_step (b : Nat) (hb : 1 ≤ b) (proc : Proc) (st : St) (nd0 : Node) (hd : StarData b st nd0)
    (ho : StarOwn b st) (h : StarHeard st) (e : Ev) (hne : isRestart e = false) : StarHeard (step (starTopo b) proc st e).1 := by
  have hso := ho.src nd0 hd.n0
  have hh := h nd0 hd.n0
  cases e with
  | restart i g => cases hne
  | nodeRecv i =>
    show StarHeard (stepRecv (starTopo b) proc st i).1
    cases hC : st.nodes[i]? with
    | none =>
      have : (stepRecv (starTopo b) proc st i).1 = st := by unfold stepRecv; simp only [hC]
      rw [this]; exact h
    | some C =>
      cases hpend : C.pending with
      | some p =>
        have : (stepRecv (starTopo b) proc st i).1 = st := by
          unfold stepRecv; simp only [hC, hpend, Option.isSome_some, ↓reduceIte]
        rw [this]; exact h
      | none =>
        have hil : i < b + 1 := by rw [← hd.len]; exact (List.getElem?_eq_some_iff.mp hC).1
        by_cases hi0 : i = 0
        · subst hi0
          rw [hd.n0] at hC; cases hC
          have ⟨hsh, _⟩ := star_srecv_shape b proc st nd0 hd hpend
          generalize (stepRecv (starTopo b) proc st 0).1 = st' at hsh
          have h0' : st'.nodes[0]? = some (processed proc 0 nd0 []) := by rw [hsh 0]; simp
          have hheard : ∀ j, heardAt st' j = heardAt st j := by
            intro j
            by_cases hj : j = 0
            · subst hj; exact heardAt_congr_con st st' 0 nd0 _ hd.n0 h0' rfl
            · exact heardAt_congr st st' j (by rw [hsh j]; simp only [hj, ↓reduceIte])
          intro nd hnd j
          rw [h0'] at hnd; cases hnd
          rw [hheard j]
          exact hh j
        · obtain ⟨rq, C', s, s', hsh, _, r1, r2, _, _, _, r6, _, hs1, hs2, hconn, _⟩ :=
            star_recv_shape b proc st nd0 hd i (by omega) (by omega) C hC hpend
          generalize (stepRecv (starTopo b) proc st i).1 = st' at hsh
          have hgen := ho.gen i C hC
          have h0' : st'.nodes[0]? = some { nd0 with pub := pushReqs nd0.pub [rq] } := by rw [hsh 0]; simp
          have hi' : st'.nodes[i]? = some C' := by rw [hsh i]; simp [hi0]
          have hkey : Pair.fidOf rq = fidC i := by simp only [Pair.fidOf, fidC, r1, r2, hgen]
          have hheard : ∀ j, heardAt st j = true → heardAt st' j = true := by
            intro j hj
            by_cases hji : j = i
            · subst hji
              rw [heardAt_single st' j C' s' hi' hs2, hconn]
              rw [heardAt_single st j C s hC hs1] at hj
              rw [hj]; rfl
            · by_cases hj0 : j = 0
              · subst hj0
                rw [heardAt_congr_con st st' 0 nd0 _ hd.n0 h0' rfl]; exact hj
              · rw [heardAt_congr st st' j (by rw [hsh j]; simp only [hj0, hji, ↓reduceIte])]; exact hj
          intro nd hnd j
          rw [h0'] at hnd; cases hnd
          refine ⟨fun x hx hk => hheard j ((hh j).1 x hx hk), ?_⟩
          intro q' hq' r hr hk hnew
          rcases pushReqs_mem nd0.pub [rq] q' hq' with ⟨q0, hq0, rfl⟩
          rcases List.mem_append.mp hr with hr | hr
          · exact hheard j ((hh j).2 q0 hq0 r hr hk hnew)
          · simp only [List.mem_singleton] at hr
            subst hr
            have : i = j := fidC_inj i j (by rw [← hkey, hk])
            subst this
            rw [heardAt_single st' i C' s' hi' hs2]
            rw [r6] at hnew
            simpa using hnew
  | nodeSend i t =>
    show StarHeard (stepSend (starTopo b) st i t).1
    cases hC : st.nodes[i]? with
    | none =>
      have : (stepSend (starTopo b) st i t).1 = st := by unfold stepSend; simp only [hC]
      rw [this]; exact h
    | some C =>
      by_cases hi0 : i = 0
      · subst hi0
        rw [hd.n0] at hC; cases hC
        cases hpend : nd0.pending with
        | none =>
          have : (stepSend (starTopo b) st 0 t).1 = st := by unfold stepSend; simp only [hd.n0, hpend]
          rw [this]; exact h
        | some p =>
          have hsh := star_ssend_shape b hb st nd0 hd t p hpend (hso.dict p hpend)
          rcases hso.pub with ⟨q, hq⟩
          have hout := star_send_outcome b st nd0 hd hso t p hpend q hq
          generalize (stepSend (starTopo b) st 0 t).1 = st' at hsh
          generalize Send.send0 nd0.pub none (payloadOf st.tbl.length p.res) false [0] t = R at hsh hout
          have hqm : q ∈ nd0.pub.queues := by rw [hq.queues]; exact List.mem_singleton.mpr rfl
          have h0' : st'.nodes[0]? = some (afterSend nd0 p R) := by rw [hsh 0]; simp
          -- a consumer keeps what it has heard
          have hheard : ∀ j, 1 ≤ j → j ≤ b → heardAt st' j = heardAt st j := by
            intro j h1 h2
            rcases hd.con j h1 h2 with ⟨Cj, s, _, hCj, hrest, _⟩
            have hj0 : ¬ j = 0 := by omega
            have hj' : st'.nodes[j]? = some { Cj with con := pushWires Cj.con [0] 0 (R.2.filterMap (wireOf 0)) } := by
              rw [hsh j]; simp only [hj0, ↓reduceIte, h1, h2, and_self, hCj, Option.map_some]
            rw [heardAt_single st j Cj s hCj hrest.idle.srcs]
            rw [pushWires_single Cj.con s 0 _ hrest.idle.srcs] at hj'
            rw [heardAt_single st' j _ _ hj' rfl]
          intro nd hnd j
          rw [h0'] at hnd; cases hnd
          refine ⟨?_, ?_⟩
          · intro x hx hk
            rw [afterSend_pub] at hx
            -- the key was in the table, or a request of that key that does not say `new` was queued
            have hkeys : ∀ y ∈ (q.foldl (hstep t) (nd0.pub.clients, false, false)).1,
                (∃ z ∈ nd0.pub.clients, z.1 = y.1) ∨ (∃ r ∈ q, Pair.fidOf r = y.1 ∧ r.new = false) :=
              fun y hy => fold_keys t q _ y hy
            have hy : ∃ y ∈ (q.foldl (hstep t) (nd0.pub.clients, false, false)).1, y.1 = x.1 := by
              rcases hout.2 with ⟨_, _, _, e2, _⟩ | ⟨_, _, e2, _⟩
              · rw [e2] at hx
                rcases clearReq_mem _ x hx with ⟨y, hy, k1, _⟩
                exact ⟨y, hy, k1.symm⟩
              · rw [e2] at hx; exact ⟨x, hx, rfl⟩
            rcases hy with ⟨y, hy, hyk⟩
            have hold : heardAt st j = true := by
              rcases hkeys y hy with ⟨z, hz, hzk⟩ | ⟨r, hr, hrk, hrn⟩
              · exact (hh j).1 z hz (by rw [hzk, hyk, hk])
              · exact (hh j).2 q hqm r hr (by rw [hrk, hyk, hk]) hrn
            -- `j` is a consumer
            have hjc : 1 ≤ j ∧ j ≤ b := by
              rcases hkeys y hy with ⟨z, hz, hzk⟩ | ⟨r, hr, hrk, _⟩
              · rcases (hso.clients z hz).2 with ⟨j', a1, a2, a3⟩
                have : j' = j := fidC_inj j' j (by rw [← a3, hzk, hyk, hk])
                subst this; exact ⟨a1, a2⟩
              · rcases (hso.reqs q hqm r hr).2.2 with ⟨j', a1, a2, a3⟩
                have : j' = j := fidC_inj j' j (by rw [← a3, hrk, hyk, hk])
                subst this; exact ⟨a1, a2⟩
            rw [hheard j hjc.1 hjc.2]; exact hold
          · intro q' hq' r hr
            rw [afterSend_pub, hout.1.queues] at hq'
            simp only [List.mem_singleton] at hq'
            subst hq'; cases hr
      · have ⟨hsh, _⟩ := star_csend_shape b proc st i (by omega) t C hC
        generalize (stepSend (starTopo b) st i t).1 = st' at hsh
        have h0' : st'.nodes[0]? = st.nodes[0]? := by
          rw [hsh 0]
          have : ¬ (0 = i) := fun e => hi0 e.symm
          simp only [this, ↓reduceIte]
        have hheard : ∀ j, heardAt st' j = heardAt st j := by
          intro j
          by_cases hj : j = i
          · subst hj
            have hj' : st'.nodes[j]? = some { C with pending := none } := by rw [hsh j]; simp
            exact heardAt_congr_con st st' j C _ hC hj' rfl
          · exact heardAt_congr st st' j (by rw [hsh j]; simp only [hj, ↓reduceIte])
        intro nd hnd j
        rw [h0', hd.n0] at hnd; cases hnd
        rw [hheard j]
        exact hh j

theorem starHeard_init (b : Nat) : StarHeard (init (starTopo b)) := by
  intro nd hnd j
  have ⟨_, e⟩ := init_get _ _ _ hnd
  subst e
  refine ⟨(by intro x hx; cases hx), ?_⟩
  intro q hq r hr
  simp only [freshNode, Send.mkSt, List.replicate, List.mem_singleton] at hq
  subst hq; cases hr

/-- **all three invariants in every state reachable without restarts** -/
theorem star_inv3 (b : Nat) (hb : 1 ≤ b) (proc : Proc) (hp : ProcNames proc) (hs : SrcAll proc) (st : St)
    (hr : ReachNR (starTopo b) proc st) : StarOwn b st ∧ StarHeard st ∧ ∃ nd0, StarData b st nd0 := by
  have ⟨ho, hd⟩ := star_inv b hb proc hp hs st hr
  refine ⟨ho, ?_, hd⟩
  induction hr with
  | init => exact starHeard_init b
  | step e hne hr' ih =>
    have ⟨ho', nd0, hd'⟩ := star_inv b hb proc hp hs _ hr'
    exact starHeard_step b hb proc _ nd0 hd' ho' (ih ho' ⟨nd0, hd'⟩) e hne

end OF.Net
