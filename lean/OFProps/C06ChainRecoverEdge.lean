import OFProps.C06ChainRestartUp
set_option linter.unusedSimpArgs false
set_option linter.unusedVariables false
/-!
# 3-node chain with restarts: ONE EDGE at endpoint level (helper file for `OFProps/C06ChainRecover.lean`)

A publisher endpoint `p : Send.St` (one bound output) and a consumer endpoint `c : Recv.St` (one synchronised all-topics source) of
the network model, with ANY `state` hand-over values on both sides (`send(callable, state, 0)`, `recv(state, 0)`):
* `OthersLe f T cl` — every client-table entry other than `f` was last heard at or before `T`; kept by one whole `send`
  (`send0_others`) when every queued request belongs to `f` or the call's clock reading is `≤ T`;
* `recv_side` — `call0_gen` repackaged: a set with an id above `prev_id` is returned, or the call drains the queue, pushes exactly
  one request and times out; afterwards the `state` value is absorbed (`beginId c' state = c'.prevId + 1`);
* `EdgeW` — the consumer WAITS: its queue is empty, exactly its current request is queued at the publisher, everybody else in the
  client table is stale; `stageE` — 3 HELLO needed, 2 fast-forward needed, 1 next publish may carry exactly the expected id,
  0 next publish is strictly newer;
* `edge_round` — one `send` at a clock reading beyond the time-out of the others (under ANY id `≥ min_send_id`) followed by one
  `recv`: a set with a new id is returned, or the consumer waits again and the stage went down.
-/
namespace OF.Net
open OF
open OF.Pair (PubIdle PubBusy Idle Stale OthersStale)

/-! ## entries of the others are never refreshed by requests of `f` -/

/-- every client-table entry other than `f` was last heard at or before `T` -/
def OthersLe (f : String) (T : Int) (cl : Send.Clients) : Prop := ∀ x ∈ cl, x.1 ≠ f → x.2.tLast ≤ T

theorem othersStale_of_le (f : String) (T t : Int) (cl : Send.Clients) (h : OthersLe f T cl)
    (ht : T + OF.Facts.ZMQ_CONN_TIMEOUT < t) : OthersStale f t cl := by
  intro x hx hne
  have := h x hx hne
  omega

theorem othersLe_of_stale (f : String) (T : Int) (cl : Send.Clients) (h : Stale T cl) : OthersLe f T cl :=
  fun x hx _ => h x hx

open OF.Send in
theorem onReq_others (st : Send.St) (r : Req) (t T : Int) (f : String) (hb : st.balance = false)
    (hc : Pair.fidOf r = f ∨ t ≤ T) (ho : OthersLe f T st.clients) : OthersLe f T (onReq st 0 r t).1.clients := by
  have hcs : OthersLe f T (cset st.clients (r.cid ++ r.uid)
      { cid := r.cid, out := 0, tLast := t, requested := true, eph := r.eph, prevId := r.mid }) := by
    intro x hx hne
    rcases Pair.mem_cset _ _ _ x hx with h1 | h1
    · exact ho x h1 hne
    · rcases hc with hc | hc
      · rw [h1] at hne; exact absurd hc hne
      · rw [h1]; exact hc
  unfold onReq
  simp only
  split
  · split
    · exact ho
    · split
      · intro x hx hne
        exact ho x (List.mem_filter.mp hx).1 hne
      · exact ho
  · split
    · exact ho
    · split
      · exact hcs
      · intro x hx hne
        simp only [hb, Bool.false_and, Bool.false_eq_true, ↓reduceIte] at hx
        exact hcs x (evalClients_mem _ _ _ _ x hx).1 hne

open OF.Send in
theorem drain_others (f : String) (T : Int) : ∀ (fuel : Nat) (st : Send.St) (q : List Req) (t : Int), PubBusy st q →
    ((∀ r ∈ q, Pair.fidOf r = f) ∨ t ≤ T) → OthersLe f T st.clients → q.length < fuel →
    OthersLe f T (drain fuel st [0] t).1.clients := by
  intro fuel
  induction fuel with
  | zero => intro st q t _ _ _ hl; omega
  | succ fuel ih =>
    intro st q t h hc ho hl
    cases q with
    | nil =>
      rw [Pair.drain_nil fuel st t h]; exact ho
    | cons r q' =>
      rw [Pair.drain_cons fuel st r q' t h, Pair.stepHandle_cons st r q' t h]
      have hp := Pair.popped_busy st r q' h
      have ⟨T', hT', ht'⟩ := Pair.exists_stale (Pair.popped st q').clients t
      have ⟨g1, _, _, _, _⟩ := Pair.onReq_general (Pair.popped st q') q' r t T' hp hT' ht'
      have hc1 : Pair.fidOf r = f ∨ t ≤ T := by
        rcases hc with hc | hc
        · exact Or.inl (hc r (List.mem_cons_self ..))
        · exact Or.inr hc
      have ho1 := onReq_others (Pair.popped st q') r t T f hp.balance hc1 ho
      split
      · simp only [endCall]
        rw [Pair.drain_ended _ _ _ rfl]
        exact ho1
      · have hl' : q'.length < fuel := by simp at hl; omega
        have hc' : (∀ r ∈ q', Pair.fidOf r = f) ∨ t ≤ T := by
          rcases hc with hc | hc
          · exact Or.inl (fun x hx => hc x (List.mem_cons_of_mem _ hx))
          · exact Or.inr hc
        exact ih _ q' t g1 hc' ho1 hl'

open OF.Send in
theorem sendMaybe_others (f : String) (T : Int) (st : Send.St) (ho : OthersLe f T st.clients) :
    OthersLe f T (sendMaybe st).1.clients := by
  unfold sendMaybe
  simp only
  split
  · exact ho
  · unfold publish
    intro x hx hne
    simp only [List.mem_map] at hx
    rcases hx with ⟨⟨fid, c⟩, hy, rfl⟩
    have := ho _ hy
    split at hne <;> split <;> exact this hne

open OF.Send in
/-- **one whole `send`, whatever is queued**: entries of the others are not refreshed when every queued request belongs to `f`
(or the call's clock reading is not beyond `T` anyway) -/
theorem send0_others (p : Send.St) (q : List Req) (state : Option (Int × Nat)) (pl : Payload) (t T : Int) (f : String)
    (h : PubIdle p q) (hk : p.minSendId ≤ (callKey p state).1) (hc : (∀ r ∈ q, Pair.fidOf r = f) ∨ t ≤ T)
    (ho : OthersLe f T p.clients) : OthersLe f T (send0 p state pl false [0] t).1.clients := by
  have ⟨hbusy, heq⟩ := send0_unfold_gen p q state pl t h hk
  rw [heq]
  have hd := drain_others f T (q.length + 1) _ q t hbusy hc ho (by omega)
  split
  · exact hd
  · split
    · exact sendMaybe_others f T _ hd
    · exact sendMaybe_others f T _ hd

/-! ## `recv(state, 0)` repackaged -/

/-- the request node `i` (incarnation `gen`) pushes to its single upstream for id `mid` -/
def netReq (i gen : Nat) (mid : Int) (new : Bool) : Send.Req :=
  { cid := cidOf i, uid := uidOf gen 0, mid := mid, eph := 0, new := new, body := 0 }

theorem reqs_noReqRet_append (i gen u : Nat) (o1 rest : List Recv.Out) (h : NoReqRet o1) :
    (o1 ++ rest).filterMap (reqOf i gen [u] u) = rest.filterMap (reqOf i gen [u] u) := by
  rw [List.filterMap_append, reqs_noReqRet i gen [u] u o1 h, List.nil_append]

theorem reqs_timeout (i gen u : Nat) (o1 : List Recv.Out) (k : Int) (nw : Bool) (h : NoReqRet o1) :
    (o1 ++ [Recv.Out.req 0 k 0 nw, Recv.Out.retNone]).filterMap (reqOf i gen [u] u) = [netReq i gen k nw] := by
  rw [reqs_noReqRet_append i gen u o1 _ h]
  simp [reqOf, netReq]

theorem absorbed_after (c c' : Recv.St) (state : Option Int) (h : Recv.beginId c state - 1 ≤ c'.prevId) :
    Recv.beginId c' state = c'.prevId + 1 := by
  unfold Recv.beginId at h ⊢
  cases state with
  | none => rfl
  | some k => simp only at h ⊢; omega

/-- one `recv(state, 0)` of a single-source consumer, whatever is queued and whatever `state` is: a set with an id above `prev_id`
is returned, or the queue is drained, exactly one request is pushed and the call times out; the hand-over value is absorbed -/
theorem recv_side (c : Recv.St) (s : Recv.Src) (state : Option Int) (h : Idle c s) :
    (∃ id bal data, retOf (Recv.call0 c state [0]).2 = some (id, bal, data) ∧ c.prevId < id ∧
      Recv.beginId c state ≤ id ∧ (∃ w ∈ s.queue, id = w.mid) ∧
      ∃ s' o1 pre, Idle (Recv.call0 c state [0]).1 s' ∧ NoReqRet o1 ∧
        (Recv.call0 c state [0]).2 = o1 ++ (pre ++ [.ret id bal data]) ∧ (pre = [] ∨ pre = [.req 0 id 0 (!s'.conn)])) ∨
    (retOf (Recv.call0 c state [0]).2 = none ∧ ∃ s' o1, NoReqRet o1 ∧
      (Recv.call0 c state [0]).2 = o1 ++ [.req 0 (Recv.call0 c state [0]).1.prevId 0 (!s'.conn), .retNone] ∧
      Idle (Recv.call0 c state [0]).1 s' ∧ s'.queue = [] ∧
      Recv.beginId (Recv.call0 c state [0]).1 state = (Recv.call0 c state [0]).1.prevId + 1 ∧
      ((∀ w ∈ s.queue, w.mid ≠ OF.Facts.MSG_ID_CLOSE) → s.queue ≠ [] → s'.conn = true) ∧
      ((Recv.call0 c state [0]).1.prevId = Recv.beginId c state - 1 ∨
        ∃ w ∈ s.queue, (Recv.call0 c state [0]).1.prevId = w.mid - 1) ∧
      c.prevId ≤ (Recv.call0 c state [0]).1.prevId) := by
  have ⟨s', ho⟩ := call0_gen c s state h
  have hb := beginId_ge c state
  generalize Recv.call0 c state [0] = R at ho
  rcases ho.out with ⟨o1, pre, id, bal, data, e1, e2, e3, e4, e5, e6⟩ | ⟨o1, e1, e2, e3, e4, _, e6⟩
  · left
    refine ⟨id, bal, data, ?_, by omega, e4, e6, s', o1, pre, ho.idle, e1, e2, e3⟩
    rw [e2]; exact retOf_ret_case _ _ _ _ _ _ e1 e3
  · right
    refine ⟨?_, s', o1, e1, e2, ho.idle, e3, absorbed_after c R.1 state ho.floor, e4, e6, ?_⟩
    · rw [e2]; exact retOf_timeout_case _ _ _ e1
    · have := ho.floor; omega

/-! ## the waiting consumer and the handshake stage -/

/-- the consumer (node `i`, incarnation `gen`) waits: its queue is empty, exactly its current request is queued at the publisher,
its `state` value is absorbed, nobody else in the publisher's client table was heard after `T` -/
structure EdgeW (p : Send.St) (c : Recv.St) (s : Recv.Src) (rstate : Option Int) (i gen : Nat) (T : Int) : Prop where
  pub : PubIdle p [netReq i gen c.prevId (!s.conn)]
  con : Idle c s
  empty : s.queue = []
  absorbed : Recv.beginId c rstate = c.prevId + 1
  others : OthersLe (cidOf i ++ uidOf gen 0) T p.clients

/-- 3 = HELLO still needed, 2 = the publisher must fast-forward, 1 = the next publish may carry exactly the expected id (it may meet
a stale partial buffer), 0 = the next publish is strictly newer -/
def stageE (p : Send.St) (c : Recv.St) (s : Recv.Src) (i gen : Nat) : Nat :=
  if Pair.needsHello p (netReq i gen c.prevId (!s.conn)) = true then 3
  else if p.minSendId ≤ c.prevId then 2
  else if p.minSendId = c.prevId + 1 then 1 else 0

theorem stageE_le (p : Send.St) (c : Recv.St) (s : Recv.Src) (i gen : Nat) : stageE p c s i gen ≤ 3 := by
  unfold stageE
  split
  · omega
  · split
    · omega
    · split <;> omega

/-- what `send(callable giving {'main': b}, state, 0)` of the publisher returns -/
def eP (p : Send.St) (sstate : Option (Int × Nat)) (b : Nat) (t : Int) : Send.St × List Send.Out :=
  Send.send0 p sstate (mainPl b) false [0] t
/-- the consumer's endpoint after that `send` (publisher = node `u`) -/
def eC (u : Nat) (p : Send.St) (sstate : Option (Int × Nat)) (b : Nat) (t : Int) (c : Recv.St) : Recv.St :=
  pushWires c [u] u ((eP p sstate b t).2.filterMap (wireOf u))
/-- … and what its next `recv(state, 0)` returns -/
def eR (u : Nat) (p : Send.St) (sstate : Option (Int × Nat)) (b : Nat) (t : Int) (c : Recv.St) (rstate : Option Int) :
    Recv.St × List Recv.Out :=
  Recv.call0 (eC u p sstate b t c) rstate [0]

theorem helloW_not_close (u : Nat) : (helloW u).mid ≠ OF.Facts.MSG_ID_CLOSE := by
  show OF.Facts.MSG_ID_HELLO ≠ OF.Facts.MSG_ID_CLOSE
  decide

theorem needsHello_pushReqs (p : Send.St) (rs : List Send.Req) (r : Send.Req) :
    Pair.needsHello (pushReqs p rs) r = Pair.needsHello p r := rfl

/-- the post-condition of a round in which the consumer timed out -/
structure EdgeAgain (p' : Send.St) (R : Recv.St × List Recv.Out) (rstate : Option Int) (i gen : Nat) (T : Int) (bound : Nat)
    (prev : Int) : Prop where
  none : retOf R.2 = none
  again : ∃ s' o1, NoReqRet o1 ∧ R.2 = o1 ++ [.req 0 R.1.prevId 0 (!s'.conn), .retNone] ∧
      EdgeW (pushReqs p' [netReq i gen R.1.prevId (!s'.conn)]) R.1 s' rstate i gen T ∧
      stageE (pushReqs p' [netReq i gen R.1.prevId (!s'.conn)]) R.1 s' i gen < bound
  prevle : prev ≤ R.1.prevId

/-- **one round on an edge**: the publisher (node `u`) sends a one-frame `main` result under ANY id `≥ min_send_id` at a clock
reading beyond the time-out of everybody else, then the waiting consumer polls once: it returns a set with an id above its
`prev_id`, or it waits again and the handshake stage went down -/
theorem edge_round (u i gen : Nat) (p : Send.St) (sstate : Option (Int × Nat)) (b : Nat) (t T : Int) (c : Recv.St) (s : Recv.Src)
    (rstate : Option Int) (h : EdgeW p c s rstate i gen T) (hk : p.minSendId ≤ (callKey p sstate).1)
    (hT : T + OF.Facts.ZMQ_CONN_TIMEOUT < t) :
    PubIdle (eP p sstate b t).1 [] ∧
    ((∃ id bal data, retOf (eR u p sstate b t c rstate).2 = some (id, bal, data) ∧ c.prevId < id) ∨
     EdgeAgain (eP p sstate b t).1 (eR u p sstate b t c rstate) rstate i gen T (stageE p c s i gen) c.prevId) := by
  obtain ⟨r, hr⟩ : ∃ r, r = netReq i gen c.prevId (!s.conn) := ⟨_, rfl⟩
  have hpub : PubIdle p [r] := by rw [hr]; exact h.pub
  have hmid : r.mid = c.prevId := by rw [hr]; rfl
  have hfid : Pair.fidOf r = cidOf i ++ uidOf gen 0 := by rw [hr]; rfl
  have hd : ¬ r.mid ≤ OF.Facts.MSG_ID_SPECIAL := by
    have := h.con.prev
    have : OF.Facts.MSG_ID_SPECIAL = -2 := rfl
    omega
  have hprevC : ∀ ws, (pushWires c [u] u ws).prevId = c.prevId := fun _ => rfl
  have hbegC : ∀ ws, Recv.beginId (pushWires c [u] u ws) rstate = c.prevId + 1 := by
    intro ws
    have : Recv.beginId (pushWires c [u] u ws) rstate = Recv.beginId c rstate := rfl
    rw [this, h.absorbed]
  have hidleC : ∀ ws, Idle (pushWires c [u] u ws) { s with queue := s.queue ++ ws } := by
    intro ws
    rw [pushWires_hit c s u ws h.con.srcs]
    exact idle_queue c s _ h.con
  by_cases hn : Pair.needsHello p r = true
  · -- HELLO
    have ⟨p1, p2, p3, p4, _⟩ := send0_hello_gen u p r sstate b t hpub hk hd hn
    refine ⟨p1, ?_⟩
    have hC : eC u p sstate b t c = pushWires c [u] u [helloW u] := by unfold eC eP; rw [p4]
    unfold eR
    rw [hC]
    rcases recv_side _ _ rstate (hidleC [helloW u]) with ⟨id, bal, data, e1, e2, _⟩ | ⟨e1, s', o1, e2, e3, e4, e5, e6, e7, _, e9⟩
    · left; exact ⟨id, bal, data, e1, by rw [hprevC] at e2; exact e2⟩
    · right
      have hconn : s'.conn = true := by
        apply e7
        · intro w hw
          simp only [h.empty, List.nil_append, List.mem_singleton] at hw
          rw [hw]; exact helloW_not_close u
        · simp
      refine ⟨e1, ⟨s', o1, e2, e3, ⟨?_, e4, e5, e6, ?_⟩, ?_⟩, by rw [hprevC] at e9; exact e9⟩
      · exact pubIdle_pushReqs_net _ [] _ p1
      · show OthersLe _ T (eP p sstate b t).1.clients
        unfold eP; rw [p2]; exact h.others
      · have hnh : Pair.needsHello (pushReqs (eP p sstate b t).1
            [netReq i gen (Recv.call0 (pushWires c [u] u [helloW u]) rstate [0]).1.prevId (!s'.conn)])
            (netReq i gen (Recv.call0 (pushWires c [u] u [helloW u]) rstate [0]).1.prevId (!s'.conn)) = false := by
          simp [Pair.needsHello, netReq, hconn]
        have hold : stageE p c s i gen = 3 := by
          unfold stageE; rw [← hr, hn]; rfl
        rw [hold]
        unfold stageE
        rw [hnh]
        simp only [Bool.false_eq_true, ↓reduceIte]
        split
        · omega
        · split <;> omega
  · have hn' : Pair.needsHello p r = false := by simpa using hn
    by_cases hB : (callKey p sstate).1 ≤ c.prevId
    · -- fast-forward
      have ⟨p1, p2, p3, p4, _⟩ := send0_ffwd_gen u p r sstate b t hpub hk hd hn' (by rw [hr]; rfl) (by rw [hmid]; exact hB)
      refine ⟨p1, ?_⟩
      have hC : eC u p sstate b t c = c := by unfold eC eP; rw [p4]; exact pushWires_nil c [u] u
      unfold eR
      rw [hC]
      rcases recv_side c s rstate h.con with ⟨id, bal, data, _, _, _, ⟨w, hw, _⟩, _⟩ | ⟨e1, s', o1, e2, e3, e4, e5, e6, _, e8, e9⟩
      · rw [h.empty] at hw; cases hw
      · right
        have hprev : (Recv.call0 c rstate [0]).1.prevId = c.prevId := by
          rcases e8 with e8 | ⟨w, hw, _⟩
          · rw [e8, h.absorbed]; omega
          · rw [h.empty] at hw; cases hw
        have hcl : (eP p sstate b t).1.clients = Send.cset p.clients (Pair.fidOf r) (Pair.entryOf r t) := p2
        have hmin : (eP p sstate b t).1.minSendId = c.prevId + 1 := by
          show (Send.send0 p sstate (mainPl b) false [0] t).1.minSendId = _
          rw [p3, hmid]
        refine ⟨e1, ⟨s', o1, e2, e3, ⟨?_, e4, e5, e6, ?_⟩, ?_⟩, e9⟩
        · exact pubIdle_pushReqs_net _ [] _ p1
        · show OthersLe _ T (eP p sstate b t).1.clients
          rw [hcl]
          intro x hx hne
          rcases Pair.mem_cset _ _ _ x hx with h1 | h1
          · exact h.others x h1 hne
          · rw [h1, hfid] at hne; exact absurd rfl hne
        · have hnh : Pair.needsHello (pushReqs (eP p sstate b t).1 [netReq i gen (Recv.call0 c rstate [0]).1.prevId (!s'.conn)])
              (netReq i gen (Recv.call0 c rstate [0]).1.prevId (!s'.conn)) = false := by
            rw [needsHello_pushReqs]
            unfold Pair.needsHello
            rw [hcl]
            have : Pair.fidOf (netReq i gen (Recv.call0 c rstate [0]).1.prevId (!s'.conn)) = Pair.fidOf r := by rw [hfid]; rfl
            rw [this, Pair.cset_any]; rfl
          have hold : 2 ≤ stageE p c s i gen := by
            unfold stageE
            rw [← hr, hn']
            simp only [Bool.false_eq_true, ↓reduceIte]
            have : p.minSendId ≤ c.prevId := by omega
            simp only [this, ↓reduceIte]; omega
          generalize stageE p c s i gen = S at hold ⊢
          unfold stageE
          rw [hnh]
          have hm2 : (pushReqs (eP p sstate b t).1 [netReq i gen (Recv.call0 c rstate [0]).1.prevId (!s'.conn)]).minSendId =
              c.prevId + 1 := hmin
          rw [hm2, hprev]
          have h1 : ¬ (c.prevId + 1 ≤ c.prevId) := by omega
          simp only [Bool.false_eq_true, ↓reduceIte, h1, eq_self]
          omega
    · -- publish under the call's id
      have hlt : r.mid < (callKey p sstate).1 := by rw [hmid]; omega
      have hs : OthersStale (Pair.fidOf r) t p.clients := by rw [hfid]; exact othersStale_of_le _ T t _ h.others hT
      have ⟨p1, p2, p3, p4, ⟨bl, p5⟩, _⟩ := send0_publish_gen u p r sstate b t hpub hk hd hn' hlt hs
      refine ⟨p1, ?_⟩
      have hC : eC u p sstate b t c = pushWires c [u] u [mainW u (callKey p sstate).1 b bl, hbW3 u (callKey p sstate).1 bl] := by
        unfold eC eP; rw [p5]
      unfold eR
      rw [hC]
      have hq1 : ({ s with queue := s.queue ++ [mainW u (callKey p sstate).1 b bl, hbW3 u (callKey p sstate).1 bl] } : Recv.Src).queue =
          mainW u (callKey p sstate).1 b bl :: [hbW3 u (callKey p sstate).1 bl] := by simp [h.empty]
      by_cases hC1 : (callKey p sstate).1 = c.prevId + 1
      · rcases recv_side _ _ rstate (hidleC [mainW u (callKey p sstate).1 b bl, hbW3 u (callKey p sstate).1 bl]) with
          ⟨id, bal, data, e1, e2, _⟩ | ⟨e1, s', o1, e2, e3, e4, e5, e6, _, e8, e9⟩
        · left; exact ⟨id, bal, data, e1, by rw [hprevC] at e2; exact e2⟩
        · right
          have hprev : (Recv.call0 (pushWires c [u] u [mainW u (callKey p sstate).1 b bl, hbW3 u (callKey p sstate).1 bl]) rstate
              [0]).1.prevId = c.prevId := by
            rcases e8 with e8 | ⟨w, hw, hv⟩
            · rw [e8, hbegC]; omega
            · rw [hq1] at hw
              have hm : w.mid = (callKey p sstate).1 := by
                simp only [List.mem_cons, List.mem_singleton, List.not_mem_nil, or_false] at hw
                rcases hw with rfl | rfl <;> rfl
              rw [hv, hm]; omega
          have hmin : (eP p sstate b t).1.minSendId = (callKey p sstate).1 + 1 := p4
          refine ⟨e1, ⟨s', o1, e2, e3, ⟨?_, e4, e5, e6, ?_⟩, ?_⟩, by rw [hprevC] at e9; exact e9⟩
          · exact pubIdle_pushReqs_net _ [] _ p1
          · show OthersLe _ T (eP p sstate b t).1.clients
            intro x hx hne
            have := p2 x hx
            rw [hfid] at this
            exact absurd this hne
          · generalize hR : Recv.call0 (pushWires c [u] u [mainW u (callKey p sstate).1 b bl, hbW3 u (callKey p sstate).1 bl])
                rstate [0] = R at hprev
            have hnh : Pair.needsHello (pushReqs (eP p sstate b t).1 [netReq i gen R.1.prevId (!s'.conn)])
                (netReq i gen R.1.prevId (!s'.conn)) = false := by
              rw [needsHello_pushReqs]
              unfold Pair.needsHello
              have : Pair.fidOf (netReq i gen R.1.prevId (!s'.conn)) = Pair.fidOf r := by rw [hfid]; rfl
              rw [this]
              have h3 : (eP p sstate b t).1.clients.any (·.1 == Pair.fidOf r) = true := p3
              rw [h3]; rfl
            have hold : 1 ≤ stageE p c s i gen := by
              unfold stageE
              rw [← hr, hn']
              simp only [Bool.false_eq_true, ↓reduceIte]
              split
              · omega
              · have : p.minSendId = c.prevId + 1 := by omega
                simp only [this, ↓reduceIte]; omega
            generalize stageE p c s i gen = S at hold ⊢
            unfold stageE
            rw [hnh]
            have hm2 : (pushReqs (eP p sstate b t).1 [netReq i gen R.1.prevId (!s'.conn)]).minSendId =
                (callKey p sstate).1 + 1 := hmin
            rw [hm2, hprev]
            have h1 : ¬ ((callKey p sstate).1 + 1 ≤ c.prevId) := by omega
            have h2 : ¬ ((callKey p sstate).1 + 1 = c.prevId + 1) := by omega
            simp only [Bool.false_eq_true, ↓reduceIte, h1, h2]
            omega
      · left
        have hnw : Recv.beginId (pushWires c [u] u [mainW u (callKey p sstate).1 b bl, hbW3 u (callKey p sstate).1 bl]) rstate <
            (callKey p sstate).1 := by rw [hbegC]; omega
        have ⟨bal, data, r1, _⟩ := call0_newer_gen _ _ rstate (mainW u (callKey p sstate).1 b bl) (callKey p sstate).1
          [hbW3 u (callKey p sstate).1 bl] (hidleC _) (isMainW_mainW _ _ _ _) hq1 hnw
        exact ⟨(callKey p sstate).1, bal, data, r1, by omega⟩

end OF.Net
