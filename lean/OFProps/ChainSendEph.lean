import OFModel.Zmq.Net
import OFProps.ChainSend
import OFProps.C05
set_option linter.unusedSimpArgs false
/-!
# Sender side of a chain / tree edge with LISTENER requests in the queue (helper lemmas for `OFProps/C05Net.lean`)

`send0_chain` (`ChainSend.lean`) generalised: the PULL queue may also hold requests of ephemeral clients with ANY id (stale, ahead,
special).  Edge invariant: every queued request is below the id of the call OR is ephemeral.  An ephemeral request never
fast-forwards (`prev_id ≥ msg_id and not ephemeral`, `Send.C05_eph_request_local`), so the call has the same three outcomes as
without listeners: time-out (≤ one HELLO) / callable → `None` / exactly the block `blockWires p k ts`.
-/
namespace OF.Net
open OF.Send (Payload Req Client)
open OF.Recv (Wire)

/-- the sender inside `send(…, state, 0)`: id `k`, payload `pl`, `min_send_id = m` (nothing fast-forwarded so far), every
queued request below `k` or ephemeral, and satisfying `P` -/
structure CallE (P : Req → Prop) (st : Send.St) (k : Int) (pl : Payload) (m : Int) : Prop where
  inCall : st.inCall = true
  msgId : st.msgId = k
  payload : st.payload = pl
  push : st.push = false
  bal0 : st.balanced = 0
  min : st.minSendId = m
  balance : st.balance = false
  nq : st.queues.length = 1
  reqs : ∀ q ∈ st.queues, ∀ r ∈ q, (r.mid < k ∨ r.eph ≠ 0) ∧ P r

theorem onReq_callE (P : Req → Prop) (st : Send.St) (k : Int) (pl : Payload) (m : Int) (j : Nat) (r : Req) (t : Int)
    (h : CallE P st k pl m) (hr : r.mid < k ∨ r.eph ≠ 0) :
    CallE P (Send.onReq st j r t).1 k pl m ∧ (Send.onReq st j r t).2.2 ≠ .ffwd ∧ OobOnly (Send.onReq st j r t).2.1 := by
  have hk : ¬ (r.mid ≥ st.msgId ∧ r.eph = 0) := by
    rw [h.msgId]
    rcases hr with hr | hr
    · omega
    · exact fun hc => hr hc.2
  unfold Send.onReq
  simp only
  split
  · split
    · exact ⟨⟨h.inCall, h.msgId, h.payload, h.push, h.bal0, h.min, h.balance, h.nq, h.reqs⟩, by simp,
        by intro o ho; simp only [List.mem_singleton] at ho; exact ⟨_, ho⟩⟩
    · split
      · exact ⟨⟨h.inCall, h.msgId, h.payload, h.push, h.bal0, h.min, h.balance, h.nq, h.reqs⟩, by simp, by intro o ho; cases ho⟩
      · exact ⟨⟨h.inCall, h.msgId, h.payload, h.push, h.bal0, h.min, h.balance, h.nq, h.reqs⟩, by simp, by intro o ho; cases ho⟩
  · split
    · exact ⟨⟨h.inCall, h.msgId, h.payload, h.push, h.bal0, h.min, h.balance, h.nq, h.reqs⟩, by simp, by intro o ho; cases ho⟩
    · simp only [hk, ↓reduceIte]
      exact ⟨⟨h.inCall, h.msgId, h.payload, h.push, h.bal0, h.min, h.balance, h.nq, h.reqs⟩, by simp, by intro o ho; cases ho⟩

theorem handle_callE (P : Req → Prop) (st : Send.St) (k : Int) (pl : Payload) (m : Int) (j : Nat) (t : Int)
    (h : CallE P st k pl m) :
    CallE P (Send.step st (.handle j t)).1 k pl m ∧ OobOnly (Send.step st (.handle j t)).2 := by
  unfold Send.step Send.stepHandle
  simp only
  split
  · exact ⟨h, by intro o ho; cases ho⟩
  split
  · exact ⟨h, by intro o ho; cases ho⟩
  · exact ⟨h, by intro o ho; cases ho⟩
  · rename_i r q hq
    have hmem : (r :: q) ∈ st.queues := List.mem_of_getElem? hq
    have hr := h.reqs (r :: q) hmem r (List.mem_cons_self ..)
    have h1 : CallE P { st with queues := st.queues.set j q } k pl m := by
      refine ⟨h.inCall, h.msgId, h.payload, h.push, h.bal0, h.min, h.balance, by simp only [List.length_set]; exact h.nq, ?_⟩
      intro q' hq' x hx
      simp only at hq'
      rcases List.mem_or_eq_of_mem_set hq' with hq' | hq'
      · exact h.reqs q' hq' x hx
      · subst hq'; exact h.reqs (r :: q') hmem x (List.mem_cons_of_mem _ hx)
    have ⟨a, b, c⟩ := onReq_callE P _ k pl m j r t h1 hr.1
    rw [if_neg b]
    exact ⟨a, c⟩

theorem drain_callE (P : Req → Prop) : ∀ (f : Nat) (st : Send.St) (prio : List Nat) (t : Int) (k : Int) (pl : Payload) (m : Int),
    CallE P st k pl m → CallE P (Send.drain f st prio t).1 k pl m ∧ OobOnly (Send.drain f st prio t).2 := by
  intro f
  induction f with
  | zero => intro st prio t k pl m h; exact ⟨h, by intro o ho; cases ho⟩
  | succ f ih =>
    intro st prio t k pl m h
    unfold Send.drain
    split
    · exact ⟨h, by intro o ho; cases ho⟩
    · split
      · exact ⟨h, by intro o ho; cases ho⟩
      · rename_i j _
        have ⟨a, b⟩ := handle_callE P st k pl m j t h
        cases hs : Send.step st (.handle j t) with
        | mk st' o =>
          rw [hs] at a b
          have ⟨a2, b2⟩ := ih st' prio t k pl m a
          simp only
          exact ⟨a2, oobOnly_append _ _ b b2⟩

theorem publish_chainE (P : Req → Prop) (p : Nat) (st : Send.St) (k : Int) (pl : Payload) (m : Int) (ts : List (String × Nat))
    (h : CallE P st k pl m) :
    CallE P (Send.publish st ts).1 k pl (k + 1) ∧ (Send.publish st ts).2.filterMap (wireOf p) = blockWires p k ts ∧
    sendRet (Send.publish st ts).2 = none ∧ wasEvaluated (Send.publish st ts).2 = false := by
  have hpt : Send.pubTargets st = [0] := by
    unfold Send.pubTargets Send.allOuts; rw [h.balance, h.nq]; rfl
  have heb : Send.envBal st = 0 := by unfold Send.envBal; rw [h.balance, h.bal0]; rfl
  unfold Send.publish
  simp only [hpt, heb]
  refine ⟨⟨h.inCall, h.msgId, h.payload, h.push, h.bal0, by simp only [h.msgId], h.balance, h.nq, h.reqs⟩, ?_, ?_⟩
  · rw [List.filterMap_append, h.msgId]
    have := topicWires p k (ts.map (·.1)) ts
    simp only [List.map_cons, List.map_nil] at this ⊢
    rw [this]
    simp [blockWires, wireOf, slash_hb]
  · apply sendRet_pubs
    intro o ho
    rw [List.mem_append] at ho
    rcases ho with ho | ho
    · rw [List.mem_flatMap] at ho
      rcases ho with ⟨x, _, hx⟩
      rw [List.mem_map] at hx
      rcases hx with ⟨a, _, rfl⟩
      exact ⟨_, _, _, _, _, _, rfl⟩
    · rw [List.mem_map] at ho
      rcases ho with ⟨a, _, rfl⟩
      exact ⟨_, _, _, _, _, _, rfl⟩

/-- the three outcomes of `send_maybe` with a deferred payload -/
theorem sendMaybe_chainE (P : Req → Prop) (p : Nat) (st : Send.St) (k : Int) (r : Option (List (String × Nat))) (m : Int)
    (h : CallE P st k (.deferred r) m) :
    ((Send.sendMaybe st).2.2 = false ∧ CallE P (Send.sendMaybe st).1 k (.deferred r) m ∧
        Hellos p ((Send.sendMaybe st).2.1.filterMap (wireOf p)) ∧ sendRet (Send.sendMaybe st).2.1 = none ∧
        wasEvaluated (Send.sendMaybe st).2.1 = false) ∨
    (r = none ∧ (Send.sendMaybe st).2.2 = true ∧ CallE P (Send.sendMaybe st).1 k (.deferred r) m ∧
        Hellos p ((Send.sendMaybe st).2.1.filterMap (wireOf p)) ∧ sendRet (Send.sendMaybe st).2.1 = none ∧
        wasEvaluated (Send.sendMaybe st).2.1 = true) ∨
    (∃ ts, r = some ts ∧ (Send.sendMaybe st).2.2 = true ∧ CallE P (Send.sendMaybe st).1 k (.topics ts) (k + 1) ∧
        (Send.sendMaybe st).2.1.filterMap (wireOf p) = blockWires p k ts ∧ sendRet (Send.sendMaybe st).2.1 = none ∧
        wasEvaluated (Send.sendMaybe st).2.1 = true) := by
  rcases gate_chain st r h.payload h.push with hg | ⟨hr, hg⟩ | ⟨ts, hr, hg⟩
  · left
    have e : Send.sendMaybe st = ({ st with doHello := false, payload := .deferred r }, Send.helloOuts st (some false), false) := by
      unfold Send.sendMaybe; simp only [hg, List.nil_append]
    rw [e]
    have ⟨a, b, c⟩ := helloOuts_wires p st (some false) h.nq
    exact ⟨rfl, ⟨h.inCall, h.msgId, rfl, h.push, h.bal0, h.min, h.balance, h.nq, h.reqs⟩, a, b, c⟩
  · right; left
    subst hr
    have e : Send.sendMaybe st = ({ st with doHello := false, payload := .deferred none },
        [.evaluated] ++ Send.helloOuts st (some true), true) := by
      unfold Send.sendMaybe; simp only [hg]
    rw [e]
    have ⟨a, b, c⟩ := helloOuts_wires p st (some true) h.nq
    refine ⟨rfl, rfl, ⟨h.inCall, h.msgId, rfl, h.push, h.bal0, h.min, h.balance, h.nq, h.reqs⟩, ?_, ?_, ?_⟩
    · simp only [List.singleton_append, List.filterMap_cons, wireOf]; exact a
    · simp only [List.singleton_append, sendRet]; exact b
    · simp [wasEvaluated]
  · right; right
    subst hr
    refine ⟨ts, rfl, ?_⟩
    have e : Send.sendMaybe st = ((Send.publish { st with doHello := false, payload := .topics ts } ts).1,
        [.evaluated] ++ Send.helloOuts st none ++ (Send.publish { st with doHello := false, payload := .topics ts } ts).2, true) := by
      unfold Send.sendMaybe; simp only [hg, Send.payloadTopics]
    rw [e, helloOuts_none st h.balance]
    have h1 : CallE P { st with doHello := false, payload := Payload.topics ts } k (.topics ts) m :=
      ⟨h.inCall, h.msgId, rfl, h.push, h.bal0, h.min, h.balance, h.nq, h.reqs⟩
    have ⟨a, b, c, d⟩ := publish_chainE P p _ k (.topics ts) m ts h1
    refine ⟨rfl, a, ?_, ?_, ?_⟩
    · simp only [List.append_nil, List.singleton_append, List.filterMap_cons, wireOf]; exact b
    · simp only [List.append_nil, List.singleton_append, sendRet]; exact c
    · simp [wasEvaluated]

/-- outcome of one whole `send` of publisher `p` under id `k` with deferred payload `r`, listener requests allowed -/
def SendOutE (P : Req → Prop) (p : Nat) (st : Send.St) (k : Int) (r : Option (List (String × Nat))) (res : Send.St × List Send.Out) : Prop :=
  res.1.inCall = false ∧ res.1.balance = false ∧ res.1.queues.length = 1 ∧
    (∀ q ∈ res.1.queues, ∀ x ∈ q, (x.mid < k ∨ x.eph ≠ 0) ∧ P x) ∧
  ((res.1.minSendId = st.minSendId ∧ sendRet res.2 = some none ∧ wasEvaluated res.2 = false ∧ Hellos p (res.2.filterMap (wireOf p))) ∨
   (r = none ∧ res.1.minSendId = st.minSendId ∧ sendRet res.2 = some (some st.minSendId) ∧ wasEvaluated res.2 = true ∧
      Hellos p (res.2.filterMap (wireOf p))) ∨
   (∃ ts, r = some ts ∧ res.1.minSendId = k + 1 ∧ sendRet res.2 = some (some (k + 1)) ∧ wasEvaluated res.2 = true ∧
      res.2.filterMap (wireOf p) = blockWires p k ts))

/-- `send0_chain` with listener requests in the queue: same three outcomes -/
theorem send0_chain_eph (P : Req → Prop) (p : Nat) (st : Send.St) (state : Option (Int × Nat)) (r : Option (List (String × Nat))) (t : Int)
    (hin : st.inCall = false) (hb : st.balance = false) (hq : st.queues.length = 1)
    (hs : state = none ∨ ∃ k', state = some (k', 0)) (hk : st.minSendId ≤ callId st state)
    (hreq : ∀ q ∈ st.queues, ∀ x ∈ q, (x.mid < callId st state ∨ x.eph ≠ 0) ∧ P x) :
    SendOutE P p st (callId st state) r (Send.send0 st state (.deferred r) false [0] t) := by
  have hbeg : Send.step st (.begin state (.deferred r) false) =
      (Send.beginWith st (callId st state) 0 (.deferred r) false, []) := by
    unfold Send.step Send.stepBegin
    simp only [hin, Bool.false_eq_true, ↓reduceIte]
    rcases hs with rfl | ⟨k', rfl⟩
    · rfl
    · simp only [callId] at hk ⊢
      have : ¬ k' < st.minSendId := by omega
      simp only [this, ↓reduceIte]
  have h0 : CallE P (Send.beginWith st (callId st state) 0 (.deferred r) false) (callId st state) (.deferred r) st.minSendId :=
    ⟨rfl, rfl, rfl, rfl, rfl, rfl, hb, hq, hreq⟩
  unfold Send.send0
  rw [hbeg]
  simp only [h0.inCall, not_true_eq_false, ↓reduceIte, List.nil_append]
  have ⟨h1, q1⟩ := drain_callE P (Send.totalQueued (Send.beginWith st (callId st state) 0 (.deferred r) false) + 1)
    (Send.beginWith st (callId st state) 0 (.deferred r) false) [0] t _ _ _ h0
  cases hd : Send.drain (Send.totalQueued (Send.beginWith st (callId st state) 0 (.deferred r) false) + 1)
      (Send.beginWith st (callId st state) 0 (.deferred r) false) [0] t with
  | mk st1 o1 =>
    rw [hd] at h1 q1
    simp only at h1 q1 ⊢
    simp only [h1.inCall, not_true_eq_false, ↓reduceIte]
    have hw1 := oobOnly_wires p o1 q1
    have htry : Send.step st1 .trySend =
        if (Send.sendMaybe st1).2.2 then ((Send.endCall (Send.sendMaybe st1).1).1, (Send.sendMaybe st1).2.1 ++ (Send.endCall (Send.sendMaybe st1).1).2)
        else ((Send.sendMaybe st1).1, (Send.sendMaybe st1).2.1) := by
      simp only [Send.step, Send.stepTrySend, h1.inCall, not_true_eq_false, ↓reduceIte]
    rw [htry]
    rcases sendMaybe_chainE P p st1 _ r _ h1 with ⟨e1, c1, w1, s1, v1⟩ | ⟨hr, e1, c1, w1, s1, v1⟩ | ⟨ts, hr, e1, c1, w1, s1, v1⟩
    · -- gate closed: time-out
      simp only [e1, Bool.false_eq_true, ↓reduceIte, c1.inCall, not_true_eq_false]
      simp only [Send.step, Send.stepTimeout, c1.inCall, not_true_eq_false, ↓reduceIte]
      refine ⟨rfl, c1.balance, c1.nq, c1.reqs, Or.inl ⟨c1.min, ?_, ?_, ?_⟩⟩
      · rw [List.append_assoc, oobOnly_sendRet _ _ q1, sendRet_append_none _ _ s1]; rfl
      · rw [List.append_assoc, oobOnly_evaluated _ _ q1, wasEvaluated_append, v1]; rfl
      · rw [List.filterMap_append, List.filterMap_append, hw1]
        simp only [List.filterMap_cons, List.filterMap_nil, wireOf, List.append_nil, List.nil_append]
        exact w1
    · -- callable returned None
      simp only [e1, ↓reduceIte, Send.endCall, Bool.false_eq_true, not_false_eq_true]
      refine ⟨rfl, c1.balance, c1.nq, c1.reqs, Or.inr (Or.inl ⟨hr, c1.min, ?_, ?_, ?_⟩)⟩
      · rw [oobOnly_sendRet _ _ q1, sendRet_append_none _ _ s1, c1.min]; rfl
      · rw [oobOnly_evaluated _ _ q1, wasEvaluated_append, v1]; rfl
      · rw [List.filterMap_append, List.filterMap_append, hw1]
        simp only [List.filterMap_cons, List.filterMap_nil, wireOf, List.append_nil, List.nil_append]
        exact w1
    · -- published
      simp only [e1, ↓reduceIte, Send.endCall, Bool.false_eq_true, not_false_eq_true]
      refine ⟨rfl, c1.balance, c1.nq, c1.reqs, Or.inr (Or.inr ⟨ts, hr, c1.min, ?_, ?_, ?_⟩)⟩
      · rw [oobOnly_sendRet _ _ q1, sendRet_append_none _ _ s1, c1.min]; rfl
      · rw [oobOnly_evaluated _ _ q1, wasEvaluated_append, v1]; rfl
      · rw [List.filterMap_append, List.filterMap_append, hw1, w1]
        simp [wireOf]

end OF.Net
