import OFModel.Zmq.Net
import OFProps.C01Net
import OFProps.C04NetRecv
import OFProps.C04NetSend
import OFProps.C06Live
import OFProps.C03Net
set_option linter.unusedSimpArgs false
/-!
# The lock-step invariant of a chain of filters (helper for `OFProps/C04Net.lean`)

Chain `0 → 1 → … → L-1` (node `i+1` subscribes to node `i` only), no restarts, every relay `0 < i < L-1` answers every set it is
handed with a dict (possibly `{}`, possibly through a callable) - it never drops a set.  Then the ids are in lock-step:
* relay `i`: `min_send_id = prev_id + 1` while nothing is pending, `= prev_id = send_state.msg_id` while a result is pending
  (the id it is about to publish is exactly its own next id: `send` never discards, nobody fast-forwards);
* edge `u → i`: the SUB queue of `i` is `old ++ blk` — ignored messages followed by NOTHING (then `u` has published exactly up to
  `prev_id(i)`) or by ONE complete frame set `prev_id(i) + 1` (then `u` has published exactly that one more, and no request of `i`
  is queued at `u`: `u` cannot publish again before `i` has taken the set); every queued request asks for an id `≤ prev_id(i)`.
-/
namespace OF.Net
open OF
open OF.Pair (PubIdle Idle)

/-! ## the topology -/

/-- what the proofs use of a chain topology -/
structure IsChain (tp : Topo) (L : Nat) : Prop where
  n : tp.n = L
  ups0 : tp.upsOf 0 = []
  ups : ∀ i, i + 1 < L → tp.upsOf (i + 1) = [i]
  out : ∀ i, tp.hasOut i = decide (i + 1 < L)

theorem chainTopo_upsOf (L i : Nat) (h : i < L) : (chainTopo L).upsOf i = if i = 0 then [] else [i - 1] := by
  simp [Topo.upsOf, chainTopo, h]

theorem isChain_chainTopo (L : Nat) : IsChain (chainTopo L) L := by
  refine ⟨by simp [Topo.n, chainTopo], ?_, ?_, ?_⟩
  · by_cases h : 0 < L
    · rw [chainTopo_upsOf L 0 h]; rfl
    · have : L = 0 := by omega
      subst this; rfl
  · intro i hi
    rw [chainTopo_upsOf L (i + 1) hi]; simp
  · intro i
    unfold Topo.hasOut chainTopo
    simp only [List.any_map, Function.comp_def]
    by_cases h : i + 1 < L
    · simp only [h, decide_true, List.any_eq_true, List.mem_range]
      exact ⟨i + 1, h, by simp⟩
    · simp only [h, decide_false]
      rw [List.any_eq_false]
      intro x hx
      rw [List.mem_range] at hx
      by_cases hx0 : x = 0
      · simp [hx0]
      · simp only [hx0, ↓reduceIte, List.contains_cons, List.contains_nil, Bool.or_false, beq_iff_eq]
        omega

/-! ## schedules without restarts -/

/-- states reachable by any schedule without restarts -/
inductive ReachNR (tp : Topo) (proc : Proc) : St → Prop
  | init : ReachNR tp proc (init tp)
  | step {st : St} (e : Ev) : isRestart e = false → ReachNR tp proc st → ReachNR tp proc (step tp proc st e).1

theorem reachNR_reachable (tp : Topo) (proc : Proc) (st : St) (h : ReachNR tp proc st) : Reachable tp proc st := by
  induction h with
  | init => exact .init
  | step e _ _ ih => exact .step e ih

/-! ## one event as a pointwise change of the node list -/

/-- node `x` after an enabled `nodeRecv i` of a node with a receiver -/
def recvF (tp : Topo) (proc : Proc) (st : St) (i : Nat) (nd : Node) (x : Nat) (a : Node) : Node :=
  { (if x = i then afterRecv proc st.tbl i nd (Recv.call0 nd.con nd.recvState (List.range nd.con.srcs.length)) else a) with
    pub := pushReqs (if x = i then afterRecv proc st.tbl i nd (Recv.call0 nd.con nd.recvState (List.range nd.con.srcs.length)) else a).pub
      ((Recv.call0 nd.con nd.recvState (List.range nd.con.srcs.length)).2.filterMap (reqOf i nd.gen (tp.upsOf i) x)) }

theorem stepRecv_relay_get (tp : Topo) (proc : Proc) (st : St) (i : Nat) (nd : Node) (hi : st.nodes[i]? = some nd)
    (hp : nd.pending = none) (hs : nd.con.srcs.isEmpty = false) (x : Nat) :
    (stepRecv tp proc st i).1.nodes[x]? = (st.nodes[x]?).map (recvF tp proc st i nd x) := by
  unfold stepRecv
  simp only [hi, hp, Option.isSome_none, Bool.false_eq_true, ↓reduceIte, hs, recvRelay]
  rw [deliverReqs_get, List.getElem?_set]
  by_cases hx : i = x
  · subst hx
    have hlt : i < st.nodes.length := (List.getElem?_eq_some_iff.mp hi).1
    simp only [↓reduceIte, hlt, hi, Option.map_some, recvF]
  · have hx' : ¬ x = i := fun e => hx e.symm
    simp only [hx, ↓reduceIte]
    congr 1; funext a
    simp only [recvF, hx', ↓reduceIte]

/-- node `x` after a `nodeSend i t` that reaches the sender -/
def sendF (tp : Topo) (st : St) (i : Nat) (nd : Node) (p : Pending) (t : Int) (x : Nat) (a : Node) : Node :=
  { (if x = i then afterSend nd p (Send.send0 nd.pub nd.sendState (payloadOf st.tbl.length p.res) false [0] t) else a) with
    con := pushWires (if x = i then afterSend nd p (Send.send0 nd.pub nd.sendState (payloadOf st.tbl.length p.res) false [0] t) else a).con
      (tp.upsOf x) i ((Send.send0 nd.pub nd.sendState (payloadOf st.tbl.length p.res) false [0] t).2.filterMap (wireOf i)) }

theorem stepSend_real_get (tp : Topo) (st : St) (i : Nat) (nd : Node) (p : Pending) (t : Int) (hi : st.nodes[i]? = some nd)
    (hp : nd.pending = some p) (hr : Loop.reachesSender (tp.hasOut i) p.res = true) (x : Nat) :
    (stepSend tp st i t).1.nodes[x]? = (st.nodes[x]?).map (sendF tp st i nd p t x) := by
  unfold stepSend
  simp only [hi, hp, hr, ↓reduceIte, sendReal]
  rw [deliverWires_get, List.getElem?_set]
  by_cases hx : i = x
  · subst hx
    have hlt : i < st.nodes.length := (List.getElem?_eq_some_iff.mp hi).1
    simp only [↓reduceIte, hlt, hi, Option.map_some, sendF]
  · have hx' : ¬ x = i := fun e => hx e.symm
    simp only [hx, ↓reduceIte]
    congr 1; funext a
    simp only [sendF, hx', ↓reduceIte]

/-! ## the invariant -/

/-- every relay answers every set with a dict (directly or through a callable): it never drops a set -/
def Fwd (L : Nat) (proc : Proc) : Prop :=
  ∀ i n h, 0 < i → i + 1 < L → (dictOf (Loop.processFrames (proc i n h))).isSome = true

/-- node `i` of a chain of `L`, ids in lock-step -/
structure NodeLock (L i : Nat) (nd : Node) : Prop where
  pub : ∃ q, PubIdle nd.pub q
  src : i = 0 → nd.con.srcs = [] ∧ nd.sendState = none
  con : 0 < i → ∃ s, CRest nd.con s
  idle : nd.pending = none → 0 < i →
    (nd.recvState = none ∨ nd.recvState = some (nd.con.prevId + 1)) ∧ (i + 1 < L → nd.pub.minSendId = nd.con.prevId + 1)
  pend : ∀ p, nd.pending = some p → 0 < i →
    nd.sendState = some (nd.con.prevId, 0) ∧ nd.recvState = none ∧
    (i + 1 < L → nd.pub.minSendId = nd.con.prevId ∧ (dictOf p.res).isSome = true)

/-- edge publisher `a` → consumer `b`: the two channels -/
def EdgeLock (a b : Node) : Prop :=
  ∃ qa s old blk, PubIdle a.pub qa ∧ b.con.srcs = [s] ∧ s.queue = old ++ blk ∧ (∀ w ∈ old, OldW b.con.prevId w) ∧
    (∀ r ∈ qa, ReqLow (b.con.prevId + 1) r) ∧
    ((blk = [] ∧ a.pub.minSendId = b.con.prevId + 1) ∨
     (IsBlock (b.con.prevId + 1) blk ∧ a.pub.minSendId = b.con.prevId + 2 ∧ qa = []))

structure ChainLock (L : Nat) (st : St) : Prop where
  len : st.nodes.length = L
  node : ∀ i nd, st.nodes[i]? = some nd → NodeLock L i nd
  edge : ∀ i a b, st.nodes[i]? = some a → st.nodes[i + 1]? = some b → EdgeLock a b

theorem length_of_pointwise (l l' : List Node) (F : Nat → Node → Node) (h : ∀ x, l'[x]? = (l[x]?).map (F x)) :
    l'.length = l.length := by
  have h1 := h l.length
  have h2 := h l'.length
  rw [List.getElem?_eq_none (Nat.le_refl _)] at h1
  simp only [Option.map_none] at h1
  have a1 : l'.length ≤ l.length := List.getElem?_eq_none_iff.mp h1
  rw [List.getElem?_eq_none (Nat.le_refl _)] at h2
  have a2 : l.length ≤ l'.length := by
    cases hx : l[l'.length]? with
    | none => exact List.getElem?_eq_none_iff.mp hx
    | some v => rw [hx] at h2; cases h2
  omega

/-- an event that changes the node list pointwise keeps the invariant if it does so node by node and edge by edge -/
theorem chainLock_pointwise (L : Nat) (st st' : St) (F : Nat → Node → Node) (h : ChainLock L st)
    (hget : ∀ x, st'.nodes[x]? = (st.nodes[x]?).map (F x))
    (hnode : ∀ x a, st.nodes[x]? = some a → NodeLock L x (F x a))
    (hedge : ∀ x a b, st.nodes[x]? = some a → st.nodes[x + 1]? = some b → EdgeLock (F x a) (F (x + 1) b)) :
    ChainLock L st' := by
  refine ⟨by rw [length_of_pointwise _ _ F hget]; exact h.len, ?_, ?_⟩
  · intro i nd hi
    rw [hget] at hi
    cases ha : st.nodes[i]? with
    | none => rw [ha] at hi; cases hi
    | some a =>
      rw [ha] at hi; simp only [Option.map_some, Option.some.injEq] at hi
      rw [← hi]; exact hnode i a ha
  · intro i a' b' hi hj
    rw [hget] at hi hj
    cases ha : st.nodes[i]? with
    | none => rw [ha] at hi; cases hi
    | some a =>
      cases hb : st.nodes[i + 1]? with
      | none => rw [hb] at hj; cases hj
      | some b =>
        rw [ha] at hi; rw [hb] at hj
        simp only [Option.map_some, Option.some.injEq] at hi hj
        rw [← hi, ← hj]; exact hedge i a b ha hb

/-! ### what does not matter -/

theorem pubIdle_unique (p : Send.St) (q q' : List Send.Req) (h : PubIdle p q) (h' : PubIdle p q') : q = q' := by
  have := h.queues.symm.trans h'.queues
  exact (List.cons.inj this).1

theorem edgeLock_congr (a b a' b' : Node) (ha : a'.pub = a.pub) (hb : b'.con = b.con) (h : EdgeLock a b) : EdgeLock a' b' := by
  unfold EdgeLock at h ⊢
  rw [ha, hb]; exact h

theorem nodeLock_pushReqs (L i : Nat) (nd : Node) (rs : List Send.Req) (h : NodeLock L i nd) :
    NodeLock L i { nd with pub := pushReqs nd.pub rs } := by
  rcases h.pub with ⟨q, hq⟩
  exact ⟨⟨q ++ rs, Pair.pubIdle_pushReqs nd.pub q rs hq⟩, h.src, h.con, h.idle, h.pend⟩

theorem pushWires_other (c : Recv.St) (ups : List Nat) (p : Nat) (ws : List Recv.Wire) (h : ∀ j : Nat, ups[j]? ≠ some p) :
    pushWires c ups p ws = c := by
  unfold pushWires
  have : (c.srcs.mapIdx fun j s => if ups[j]? = some p then { s with queue := s.queue ++ ws } else s) = c.srcs := by
    apply List.ext_getElem?
    intro j
    rw [List.getElem?_mapIdx]
    cases c.srcs[j]? with
    | none => rfl
    | some s => simp [h j]
  rw [this]

theorem reqs_other (i g u x : Nat) (hx : x ≠ u) (outs : List Recv.Out) : outs.filterMap (reqOf i g [u] x) = [] := by
  rw [List.filterMap_eq_nil_iff]
  intro o _
  cases o with
  | req j mid eph new =>
    simp only [reqOf]
    cases j with
    | zero => simp; exact fun e => hx e.symm
    | succ j => simp
  | oob _ _ => rfl
  | ret _ _ _ => rfl
  | retNone => rfl
  | dupTopic _ => rfl

/-! ## `nodeRecv` of a node with a receiver: the edge from its publisher -/

theorem beginId_lock (c : Recv.St) (state : Option Int) (h : state = none ∨ state = some (c.prevId + 1)) :
    Recv.beginId c state = c.prevId + 1 := by
  rcases h with rfl | rfl
  · rfl
  · simp [Recv.beginId]

/-- the request `outs` carries to the publisher `u` of node `i` -/
theorem reqOf_first (i g u : Nat) (m : Int) (nw : Bool) (x : Recv.Out) (hx : reqOf i g [u] u x = none) :
    [Recv.Out.req 0 m 0 nw, x].filterMap (reqOf i g [u] u) =
      [{ cid := cidOf i, uid := uidOf g 0, mid := m, eph := 0, new := nw, body := 0 }] := by
  simp only [List.filterMap_cons, hx, List.filterMap_nil]
  simp [reqOf]

theorem recv_main (L : Nat) (proc : Proc) (hf : Fwd L proc) (tbl : List Entry) (u : Nat) (a nd : Node)
    (hn : NodeLock L (u + 1) nd) (he : EdgeLock a nd) (hp : nd.pending = none) :
    NodeLock L (u + 1) (afterRecv proc tbl (u + 1) nd (Recv.call0 nd.con nd.recvState (List.range nd.con.srcs.length))) ∧
    EdgeLock { a with pub := pushReqs a.pub ((Recv.call0 nd.con nd.recvState (List.range nd.con.srcs.length)).2.filterMap (reqOf (u + 1) nd.gen [u] u)) }
      (afterRecv proc tbl (u + 1) nd (Recv.call0 nd.con nd.recvState (List.range nd.con.srcs.length))) := by
  rcases hn.con (by omega) with ⟨s, hs⟩
  rcases he with ⟨qa, s', old, blk, hqa, hsrcs, hq, hold, hreq, hcase⟩
  have hss : s' = s := by
    have := hsrcs.symm.trans hs.idle.srcs
    exact (List.cons.inj this).1
  subst hss
  have hrange : List.range nd.con.srcs.length = [0] := by rw [hsrcs]; rfl
  rw [hrange]
  have hidle := hn.idle hp (by omega)
  have hbeg := beginId_lock nd.con nd.recvState hidle.1
  have ⟨hT2, hT1⟩ := call0_lock nd.con s' nd.recvState old blk hs hbeg hq hold
  have hprev := hs.idle.prev
  rcases hcase with ⟨hblk, hmin⟩ | ⟨hblk, hmin, hqa0⟩
  · obtain ⟨s1, nw, hs1, hq1, hp1, houts⟩ := hT2 hblk
    have haft : afterRecv proc tbl (u + 1) nd (Recv.call0 nd.con nd.recvState [0]) =
        { nd with con := (Recv.call0 nd.con nd.recvState [0]).1 } := by
      unfold afterRecv; rw [houts]; rfl
    rw [haft, houts, reqOf_first _ _ _ _ _ _ rfl]
    constructor
    · refine ⟨hn.pub, fun h0 => by omega, fun _ => ⟨s1, hs1⟩, ?_, ?_⟩
      · intro _ _
        simp only [hp1]
        exact hidle
      · intro p hp'; simp only [hp] at hp'; cases hp'
    · refine ⟨qa ++ [_], s1, [], [], Pair.pubIdle_pushReqs a.pub qa _ hqa, hs1.idle.srcs, by rw [hq1]; rfl,
        (by intro w hw; cases hw), ?_, Or.inl ⟨rfl, ?_⟩⟩
      · intro r hr
        simp only [hp1]
        rcases List.mem_append.mp hr with hr | hr
        · exact hreq r hr
        · simp only [List.mem_singleton] at hr
          subst hr
          exact ⟨hprev, by simp only; omega⟩
      · simp only [hp1]; exact hmin
  · obtain ⟨s1, nw, data, pre, suf, hsplit, hs1, hq1, hp1, houts⟩ := hT1 hblk
    have haft : afterRecv proc tbl (u + 1) nd (Recv.call0 nd.con nd.recvState [0]) =
        processed proc (u + 1) { nd with con := (Recv.call0 nd.con nd.recvState [0]).1,
                                         sendState := some (nd.con.prevId + 1, 0), recvState := none }
          (data.map (hframe tbl)) := by
      unfold afterRecv; rw [houts]; rfl
    rw [haft, houts, reqOf_first _ _ _ _ _ _ rfl]
    constructor
    · refine ⟨hn.pub, fun h0 => by omega, fun _ => ⟨s1, hs1⟩, ?_, ?_⟩
      · intro hc; simp only [processed] at hc; cases hc
      · intro p hp' _
        simp only [processed, Option.some.injEq] at hp'
        refine ⟨by simp only [processed, hp1], rfl, ?_⟩
        intro hL
        refine ⟨by simp only [processed, hp1]; exact hidle.2 hL, ?_⟩
        rw [← hp']
        exact hf (u + 1) _ _ (by omega) hL
    · subst hqa0
      refine ⟨[] ++ [_], s1, suf, [], Pair.pubIdle_pushReqs a.pub [] _ hqa, hs1.idle.srcs, by rw [hq1, List.append_nil],
        ?_, ?_, Or.inl ⟨rfl, ?_⟩⟩
      · intro w hw
        have hwb : w ∈ blk := by rw [hsplit]; exact List.mem_append_right _ hw
        have := hblk.mid w hwb
        show OldW (processed proc (u + 1) _ _).con.prevId w
        simp only [processed, hp1]
        exact ⟨this.2, Or.inr ⟨by omega, by omega⟩⟩
      · intro r hr
        simp only [List.nil_append, List.mem_singleton] at hr
        subst hr
        show ReqLow ((processed proc (u + 1) _ _).con.prevId + 1) _
        simp only [processed, hp1]
        exact ⟨by simp only; omega, by simp only; omega⟩
      · show a.pub.minSendId = (processed proc (u + 1) _ _).con.prevId + 1
        simp only [processed, hp1]; omega

/-! ## `nodeSend` that reaches the sender: the edge to its consumer -/

theorem payloadOf_eq (base : Nat) (res : Loop.Sendable Nat) : payloadOf base res = .deferred ((dictOf res).map (relabel base)) := rfl

theorem relabel_names_ne (base : Nat) (res : Loop.Sendable Nat) (hnames : ∀ d, dictOf res = some d → ∀ x ∈ d, x.1 ≠ "") :
    ∀ ts, (dictOf res).map (relabel base) = some ts → ∀ x ∈ ts, x.1 ≠ "" := by
  intro ts hts x hx
  cases hd : dictOf res with
  | none => rw [hd] at hts; cases hts
  | some d =>
    rw [hd] at hts
    simp only [Option.map_some, Option.some.injEq] at hts
    subst hts
    have := (relabel_spec d base x hx).2.2
    rw [List.mem_map] at this
    rcases this with ⟨y, hy, hxy⟩
    rw [← hxy]; exact hnames d hd y hy

theorem send_main (L base i : Nat) (nd b : Node) (p : Pending) (t : Int) (hn : NodeLock L i nd) (hp : nd.pending = some p)
    (hL : i + 1 < L) (he : EdgeLock nd b) (hnames : ∀ d, dictOf p.res = some d → ∀ x ∈ d, x.1 ≠ "") :
    NodeLock L i (afterSend nd p (Send.send0 nd.pub nd.sendState (payloadOf base p.res) false [0] t)) ∧
    EdgeLock (afterSend nd p (Send.send0 nd.pub nd.sendState (payloadOf base p.res) false [0] t))
      { b with con := pushWires b.con [i] i ((Send.send0 nd.pub nd.sendState (payloadOf base p.res) false [0] t).2.filterMap (wireOf i)) } := by
  rcases he with ⟨qa, s, old, blk, hqa, hsrcs, hq, hold, hreq, hcase⟩
  have hstate : Send.send0 nd.pub nd.sendState (payloadOf base p.res) false [0] t =
      Send.send0 nd.pub none (payloadOf base p.res) false [0] t := by
    by_cases hi0 : i = 0
    · rw [(hn.src hi0).2]
    · have ⟨h1, _, h3⟩ := hn.pend p hp (by omega)
      rw [h1, ← (h3 hL).1]
      exact send0_own_state nd.pub _ t hqa.inCall
  rw [hstate, payloadOf_eq]
  have hge : b.con.prevId + 1 ≤ nd.pub.minSendId := by
    rcases hcase with ⟨_, h⟩ | ⟨_, h, _⟩ <;> omega
  have hlow : ∀ r ∈ qa, ReqLow nd.pub.minSendId r := fun r hr => ⟨(hreq r hr).1, by have := (hreq r hr).2; omega⟩
  have hl := send0_lock i nd.pub qa ((dictOf p.res).map (relabel base)) t hqa hlow (relabel_names_ne base p.res hnames)
  generalize Send.send0 nd.pub none (Send.Payload.deferred ((dictOf p.res).map (relabel base))) false [0] t = r at hl ⊢
  have hpw := pushWires_single b.con s i (r.2.filterMap (wireOf i)) hsrcs
  rw [hpw]
  rcases hl.out with ⟨ts, hres, hmin, hblk, hret⟩ | ⟨hmin, hws, hret⟩
  · -- published
    have hsome : (dictOf p.res).isNone = false := by
      cases hd : dictOf p.res with
      | none => rw [hd] at hres; cases hres
      | some d => rfl
    have haft : afterSend nd p r = { nd with pub := r.1, pending := none, sendState := none, recvState := some (nd.pub.minSendId + 1) } := by
      unfold afterSend; rw [hret]; simp only [hsome, Bool.and_false, Bool.false_eq_true, ↓reduceIte]
    rw [haft]
    constructor
    · refine ⟨⟨[], hl.idle⟩, fun h0 => ⟨(hn.src h0).1, rfl⟩, hn.con, ?_, fun q hq' => by cases hq'⟩
      intro _ h0
      have ⟨_, _, h3⟩ := hn.pend p hp h0
      have h4 := (h3 hL).1
      exact ⟨Or.inr (by simp only; rw [h4]), fun _ => by simp only; rw [hmin, h4]⟩
    · rcases hcase with ⟨hb0, hm0⟩ | ⟨_, hm0, hq0⟩
      · subst hb0
        refine ⟨[], _, old, r.2.filterMap (wireOf i), hl.idle, rfl, by simp only; rw [hq, List.append_nil], hold,
          (by intro x hx; cases hx), Or.inr ⟨?_, ?_, rfl⟩⟩
        · show IsBlock (b.con.prevId + 1) _
          rw [← hm0]; exact hblk
        · show r.1.minSendId = b.con.prevId + 2
          rw [hmin, hm0]; omega
      · exfalso
        have := (hl.quiet hq0).2.2
        omega
  · -- not published
    have hedge : ∀ (x : Node), x.pub = r.1 → EdgeLock x
        { b with con := { b.con with srcs := [{ s with queue := s.queue ++ r.2.filterMap (wireOf i) }] } } := by
      intro x hx
      unfold EdgeLock
      rw [hx]
      rcases hcase with ⟨hb0, hm0⟩ | ⟨hb1, hm0, hq0⟩
      · subst hb0
        refine ⟨[], _, old ++ r.2.filterMap (wireOf i), [], hl.idle, rfl, by simp only; rw [hq]; simp, ?_,
          (by intro y hy; cases hy), Or.inl ⟨rfl, by show r.1.minSendId = b.con.prevId + 1; rw [hmin]; exact hm0⟩⟩
        intro w hw
        rcases List.mem_append.mp hw with hw | hw
        · exact hold w hw
        · rw [hws w hw]; exact helloW_old i _
      · have hnil := (hl.quiet hq0).1
        refine ⟨[], _, old, blk, hl.idle, rfl, by simp only; rw [hnil, List.append_nil]; exact hq, hold,
          (by intro y hy; cases hy), Or.inr ⟨hb1, by show r.1.minSendId = b.con.prevId + 2; rw [hmin]; exact hm0, rfl⟩⟩
    rcases hret with ⟨hres, hret⟩ | hret
    · -- the callable gave `None`: the call succeeded without publishing (only a source can do that)
      have hi0 : i = 0 := by
        by_cases hi0 : i = 0
        · exact hi0
        · exfalso
          have ⟨_, _, h3⟩ := hn.pend p hp (by omega)
          have := (h3 hL).2
          cases hd : dictOf p.res with
          | none => rw [hd] at this; cases this
          | some d => rw [hd] at hres; cases hres
      have haft : ∃ rs, afterSend nd p r = { nd with pub := r.1, pending := none, sendState := none, recvState := rs } := by
        unfold afterSend; rw [hret]; exact ⟨_, rfl⟩
      rcases haft with ⟨rs, haft⟩
      rw [haft]
      exact ⟨⟨⟨[], hl.idle⟩, fun h0 => ⟨(hn.src h0).1, rfl⟩, hn.con, fun _ h0 => by omega, fun _ _ h0 => by omega⟩, hedge _ rfl⟩
    · have haft : afterSend nd p r = { nd with pub := r.1 } := by
        unfold afterSend; rw [hret]
      rw [haft]
      refine ⟨⟨⟨[], hl.idle⟩, hn.src, hn.con, ?_, ?_⟩, hedge _ rfl⟩
      · intro hc; simp only [hp] at hc; cases hc
      · intro q hq' h0
        have ⟨h1, h2, h3⟩ := hn.pend q hq' h0
        refine ⟨h1, h2, fun hL' => ?_⟩
        show r.1.minSendId = _ ∧ _
        rw [hmin]; exact h3 hL'

/-! ## every event keeps the invariant -/

theorem afterRecv_pub (proc : Proc) (tbl : List Entry) (i : Nat) (nd : Node) (r : Recv.St × List Recv.Out) :
    (afterRecv proc tbl i nd r).pub = nd.pub := by
  unfold afterRecv; split <;> rfl

theorem recvF_ne (tp : Topo) (proc : Proc) (st : St) (i : Nat) (nd : Node) (x : Nat) (a : Node) (hx : x ≠ i) :
    recvF tp proc st i nd x a = { a with pub := pushReqs a.pub ((Recv.call0 nd.con nd.recvState (List.range nd.con.srcs.length)).2.filterMap (reqOf i nd.gen (tp.upsOf i) x)) } := by
  simp only [recvF, hx, ↓reduceIte]

theorem recvF_self (tp : Topo) (proc : Proc) (st : St) (u : Nat) (nd : Node) (a : Node) (hu : tp.upsOf (u + 1) = [u]) :
    recvF tp proc st (u + 1) nd (u + 1) a =
      afterRecv proc st.tbl (u + 1) nd (Recv.call0 nd.con nd.recvState (List.range nd.con.srcs.length)) := by
  simp only [recvF, ↓reduceIte, hu]
  rw [reqs_other (u + 1) nd.gen u (u + 1) (by omega), pushReqs_nil]

theorem chainLock_stepRecv (L : Nat) (tp : Topo) (hc : IsChain tp L) (proc : Proc) (hf : Fwd L proc) (st : St) (i : Nat)
    (h : ChainLock L st) : ChainLock L (stepRecv tp proc st i).1 := by
  cases hi : st.nodes[i]? with
  | none => unfold stepRecv; simp only [hi]; exact h
  | some nd =>
    have hiL : i < L := by rw [← h.len]; exact (List.getElem?_eq_some_iff.mp hi).1
    have hnd := h.node i nd hi
    cases hpend : nd.pending with
    | some p => unfold stepRecv; simp only [hi, hpend, Option.isSome_some, ↓reduceIte]; exact h
    | none =>
      cases hsrc : nd.con.srcs.isEmpty with
      | true =>
        -- a source
        have hi0 : i = 0 := by
          by_cases hi0 : i = 0
          · exact hi0
          · exfalso
            rcases hnd.con (by omega) with ⟨s, hs⟩
            rw [hs.idle.srcs] at hsrc; cases hsrc
        subst hi0
        have hst : (stepRecv tp proc st 0).1 = { st with nodes := st.nodes.set 0 (processed proc 0 nd []) } := by
          unfold stepRecv; simp only [hi, hpend, Option.isSome_none, Bool.false_eq_true, ↓reduceIte, hsrc, recvSource]
        rw [hst]
        apply chainLock_pointwise L st _ (fun x a => if x = 0 then processed proc 0 nd [] else a) h
        · intro x
          simp only [List.getElem?_set]
          by_cases hx : 0 = x
          · subst hx
            have hlt : 0 < st.nodes.length := (List.getElem?_eq_some_iff.mp hi).1
            simp [hlt, hi]
          · have hx' : ¬ x = 0 := fun e => hx e.symm
            simp [hx, hx']
        · intro x a hx
          by_cases hx0 : x = 0
          · subst hx0
            simp only [↓reduceIte]
            exact ⟨hnd.pub, fun _ => hnd.src rfl, fun h0 => by omega, fun _ h0 => by omega, fun _ _ h0 => by omega⟩
          · simp only [hx0, ↓reduceIte]; exact h.node x a hx
        · intro x a b hx hy
          have he := h.edge x a b hx hy
          have hx1 : ¬ x + 1 = 0 := by omega
          by_cases hx0 : x = 0
          · subst hx0
            rw [hi] at hx; cases hx
            simp only [↓reduceIte, hx1]
            exact edgeLock_congr nd b _ _ rfl rfl he
          · simp only [hx0, hx1, ↓reduceIte]; exact he
      | false =>
        have hi0 : 0 < i := by
          by_cases hi0 : i = 0
          · exfalso
            rw [(hnd.src hi0).1] at hsrc; cases hsrc
          · omega
        obtain ⟨u, rfl⟩ : ∃ u, i = u + 1 := ⟨i - 1, by omega⟩
        have hups := hc.ups u hiL
        apply chainLock_pointwise L st _ (recvF tp proc st (u + 1) nd) h (stepRecv_relay_get tp proc st (u + 1) nd hi hpend hsrc)
        · intro x a hx
          by_cases hxi : x = u + 1
          · subst hxi
            rw [hi] at hx; cases hx
            rw [recvF_self tp proc st u nd nd hups]
            cases hu : st.nodes[u]? with
            | none =>
              exfalso
              have : st.nodes.length ≤ u := List.getElem?_eq_none_iff.mp hu
              rw [h.len] at this; omega
            | some a0 => exact (recv_main L proc hf st.tbl u a0 nd hnd (h.edge u a0 nd hu hi) hpend).1
          · rw [recvF_ne tp proc st (u + 1) nd x a hxi]
            exact nodeLock_pushReqs L x a _ (h.node x a hx)
        · intro x a b hx hy
          have he := h.edge x a b hx hy
          by_cases hxu : x = u
          · subst hxu
            rw [hi] at hy; cases hy
            rw [recvF_self tp proc st x nd nd hups, recvF_ne tp proc st (x + 1) nd x a (by omega), hups]
            exact (recv_main L proc hf st.tbl x a nd hnd he hpend).2
          · have hx1 : x + 1 ≠ u + 1 := by omega
            rw [recvF_ne tp proc st (u + 1) nd (x + 1) b hx1]
            by_cases hxi : x = u + 1
            · subst hxi
              rw [hi] at hx; cases hx
              rw [recvF_self tp proc st u nd nd hups]
              exact edgeLock_congr nd b _ _ (afterRecv_pub ..) rfl he
            · rw [recvF_ne tp proc st (u + 1) nd x a hxi, hups, reqs_other (u + 1) nd.gen u x hxu, pushReqs_nil]
              exact edgeLock_congr a b _ _ rfl rfl he

theorem afterSend_con (nd : Node) (p : Pending) (r : Send.St × List Send.Out) : (afterSend nd p r).con = nd.con := by
  unfold afterSend; split <;> rfl

theorem chain_no_up (tp : Topo) (L : Nat) (hc : IsChain tp L) (x i : Nat) (hxL : x < L) (hx : x ≠ i + 1) :
    ∀ j : Nat, (tp.upsOf x)[j]? ≠ some i := by
  intro j
  cases x with
  | zero => rw [hc.ups0]; simp
  | succ y =>
    rw [hc.ups y hxL]
    cases j with
    | zero => simp; omega
    | succ j => simp

theorem nodeLock_pushWires (L i : Nat) (nd : Node) (ups : List Nat) (p : Nat) (ws : List Recv.Wire) (h : NodeLock L i nd) :
    NodeLock L i { nd with con := pushWires nd.con ups p ws } := by
  refine ⟨h.pub, ?_, ?_, h.idle, h.pend⟩
  · intro h0
    have := (h.src h0).1
    refine ⟨?_, (h.src h0).2⟩
    simp only [pushWires, this, List.mapIdx_nil]
  · intro h0
    rcases h.con h0 with ⟨s, hs⟩
    by_cases hu : ups[0]? = some p
    · refine ⟨{ s with queue := s.queue ++ ws }, ⟨?_, hs.empty⟩⟩
      have := Pair.idle_pushWires nd.con s ws hs.idle
      have he : pushWires nd.con ups p ws = Pair.pushWires nd.con ws := by
        simp only [pushWires, Pair.pushWires, hs.idle.srcs, List.mapIdx_cons, List.mapIdx_nil, hu, ↓reduceIte, List.map_cons, List.map_nil]
      simp only; rw [he]; exact this
    · refine ⟨s, ?_⟩
      have he : pushWires nd.con ups p ws = nd.con := by
        have : (nd.con.srcs.mapIdx fun j s => if ups[j]? = some p then { s with queue := s.queue ++ ws } else s) = nd.con.srcs := by
          rw [hs.idle.srcs]
          simp only [List.mapIdx_cons, List.mapIdx_nil, hu, ↓reduceIte]
        unfold pushWires; rw [this]
      simp only; rw [he]; exact hs

theorem sendF_ne (tp : Topo) (st : St) (i : Nat) (nd : Node) (p : Pending) (t : Int) (x : Nat) (a : Node) (hx : x ≠ i) :
    sendF tp st i nd p t x a = { a with con := pushWires a.con (tp.upsOf x) i ((Send.send0 nd.pub nd.sendState (payloadOf st.tbl.length p.res) false [0] t).2.filterMap (wireOf i)) } := by
  simp only [sendF, hx, ↓reduceIte]

theorem sendF_self (tp : Topo) (L : Nat) (hc : IsChain tp L) (st : St) (i : Nat) (nd : Node) (p : Pending) (t : Int) (a : Node)
    (hiL : i < L) :
    sendF tp st i nd p t i a = afterSend nd p (Send.send0 nd.pub nd.sendState (payloadOf st.tbl.length p.res) false [0] t) := by
  simp only [sendF, ↓reduceIte]
  rw [pushWires_other _ _ _ _ (chain_no_up tp L hc i i hiL (by omega))]

theorem reaches_of_dict (b : Bool) (res : Loop.Sendable Nat) (h : (dictOf res).isSome = true) : Loop.reachesSender b res = b := by
  cases res with
  | none => simp [dictOf] at h
  | dict d => rfl
  | deferred r => rfl

theorem chainLock_stepSend (L : Nat) (tp : Topo) (hc : IsChain tp L) (st : St) (i : Nat) (t : Int)
    (hinv : NetInv tp st) (h : ChainLock L st) : ChainLock L (stepSend tp st i t).1 := by
  cases hi : st.nodes[i]? with
  | none => unfold stepSend; simp only [hi]; exact h
  | some nd =>
    have hiL : i < L := by rw [← h.len]; exact (List.getElem?_eq_some_iff.mp hi).1
    have hnd := h.node i nd hi
    cases hpend : nd.pending with
    | none => unfold stepSend; simp only [hi, hpend]; exact h
    | some p =>
      have hnames : ∀ d, dictOf p.res = some d → ∀ x ∈ d, x.1 ≠ "" := fun d hd => (hinv.nodes i nd hi).pendTopics p d hpend hd
      cases hreach : Loop.reachesSender (tp.hasOut i) p.res with
      | false =>
        have hst : (stepSend tp st i t).1 = { st with nodes := st.nodes.set i { nd with pending := none } } := by
          unfold stepSend; simp only [hi, hpend, hreach, Bool.false_eq_true, ↓reduceIte, sendSkip]
        rw [hst]
        apply chainLock_pointwise L st _ (fun x a => if x = i then { nd with pending := none } else a) h
        · intro x
          simp only [List.getElem?_set]
          by_cases hx : i = x
          · subst hx
            have hlt : i < st.nodes.length := (List.getElem?_eq_some_iff.mp hi).1
            simp [hlt, hi]
          · have hx' : ¬ x = i := fun e => hx e.symm
            simp [hx, hx']
        · intro x a hx
          by_cases hxi : x = i
          · subst hxi
            simp only [↓reduceIte]
            refine ⟨hnd.pub, hnd.src, hnd.con, ?_, fun q hq => by cases hq⟩
            intro _ h0
            have ⟨_, h2, h3⟩ := hnd.pend p hpend h0
            refine ⟨Or.inl h2, fun hL => ?_⟩
            exfalso
            have := reaches_of_dict (tp.hasOut x) p.res (h3 hL).2
            rw [hreach, hc.out x] at this
            simp [hL] at this
          · simp only [hxi, ↓reduceIte]; exact h.node x a hx
        · intro x a b hx hy
          have he := h.edge x a b hx hy
          by_cases hxi : x = i
          · subst hxi
            rw [hi] at hx; cases hx
            have hx1 : ¬ x + 1 = x := by omega
            simp only [↓reduceIte, hx1]
            exact edgeLock_congr nd b _ _ rfl rfl he
          · by_cases hyi : x + 1 = i
            · subst hyi
              rw [hi] at hy; cases hy
              simp only [hxi, ↓reduceIte]
              exact edgeLock_congr a nd _ _ rfl rfl he
            · simp only [hxi, hyi, ↓reduceIte]; exact he
      | true =>
        have hout : tp.hasOut i = true := by
          cases ho : tp.hasOut i with
          | true => rfl
          | false =>
            rw [ho] at hreach
            cases hres : p.res <;> rw [hres] at hreach <;> simp [Loop.reachesSender] at hreach
        have hL : i + 1 < L := by rw [hc.out i] at hout; simpa using hout
        apply chainLock_pointwise L st _ (sendF tp st i nd p t) h (stepSend_real_get tp st i nd p t hi hpend hreach)
        · intro x a hx
          by_cases hxi : x = i
          · subst hxi
            rw [hi] at hx; cases hx
            rw [sendF_self tp L hc st x nd p t nd hiL]
            cases hb : st.nodes[x + 1]? with
            | none =>
              exfalso
              have : st.nodes.length ≤ x + 1 := List.getElem?_eq_none_iff.mp hb
              rw [h.len] at this; omega
            | some b => exact (send_main L st.tbl.length x nd b p t hnd hpend hL (h.edge x nd b hi hb) hnames).1
          · rw [sendF_ne tp st i nd p t x a hxi]
            exact nodeLock_pushWires L x a _ i _ (h.node x a hx)
        · intro x a b hx hy
          have he := h.edge x a b hx hy
          have hyL : x + 1 < L := by rw [← h.len]; exact (List.getElem?_eq_some_iff.mp hy).1
          by_cases hxi : x = i
          · subst hxi
            rw [hi] at hx; cases hx
            rw [sendF_self tp L hc st x nd p t nd hiL, sendF_ne tp st x nd p t (x + 1) b (by omega), hc.ups x hyL]
            exact (send_main L st.tbl.length x nd b p t hnd hpend hL he hnames).2
          · rw [sendF_ne tp st i nd p t x a hxi]
            by_cases hyi : x + 1 = i
            · subst hyi
              rw [hi] at hy; cases hy
              rw [sendF_self tp L hc st (x + 1) nd p t nd hiL]
              exact edgeLock_congr a nd _ _ rfl (afterSend_con ..) he
            · rw [sendF_ne tp st i nd p t (x + 1) b hyi,
                pushWires_other _ _ _ _ (chain_no_up tp L hc (x + 1) i hyL (by omega))]
              exact edgeLock_congr a b _ _ rfl rfl he

/-! ## the initial state; every state reachable without restarts -/

theorem init_get (tp : Topo) (i : Nat) (nd : Node) (h : (init tp).nodes[i]? = some nd) : i < tp.n ∧ nd = freshNode tp i 0 := by
  simp only [init, List.getElem?_map] at h
  cases hr : (List.range tp.n)[i]? with
  | none => rw [hr] at h; cases h
  | some v =>
    rw [hr] at h
    have hv := List.getElem?_eq_some_iff.mp hr
    rcases hv with ⟨hlt, hv⟩
    simp only [List.length_range] at hlt
    simp only [List.getElem_range] at hv
    subst hv
    simp only [Option.map_some, Option.some.injEq] at h
    exact ⟨hlt, h.symm⟩

theorem fresh_con (tp : Topo) (u : Nat) (hu : tp.upsOf (u + 1) = [u]) : (freshNode tp (u + 1) 0).con = Pair.freshCon := by
  simp only [freshNode, hu, List.map_cons, List.map_nil, Pair.freshCon]

theorem crest_fresh : CRest Pair.freshCon (Recv.mkSrc 0 none) := ⟨Pair.idle_fresh, rfl⟩

theorem chainLock_init (L : Nat) (tp : Topo) (hc : IsChain tp L) : ChainLock L (init tp) := by
  refine ⟨by simp [init, hc.n], ?_, ?_⟩
  · intro i nd hi
    have ⟨hlt, hnd⟩ := init_get tp i nd hi
    subst hnd
    rw [hc.n] at hlt
    refine ⟨⟨[], Pair.pubIdle_fresh⟩, ?_, ?_, ?_, fun p hp => by cases hp⟩
    · intro h0; subst h0
      exact ⟨by simp only [freshNode, hc.ups0, List.map_nil]; rfl, rfl⟩
    · intro h0
      obtain ⟨u, rfl⟩ : ∃ u, i = u + 1 := ⟨i - 1, by omega⟩
      rw [fresh_con tp u (hc.ups u hlt)]
      exact ⟨_, crest_fresh⟩
    · intro _ h0
      obtain ⟨u, rfl⟩ : ∃ u, i = u + 1 := ⟨i - 1, by omega⟩
      refine ⟨Or.inl rfl, fun _ => ?_⟩
      rw [fresh_con tp u (hc.ups u hlt)]
      rfl
  · intro i a b hi hj
    have ⟨_, ha⟩ := init_get tp i a hi
    have ⟨hlt, hb⟩ := init_get tp (i + 1) b hj
    subst ha hb
    rw [hc.n] at hlt
    unfold EdgeLock
    rw [fresh_con tp i (hc.ups i hlt)]
    exact ⟨[], Recv.mkSrc 0 none, [], [], Pair.pubIdle_fresh, rfl, rfl, (by intro w hw; cases hw), (by intro r hr; cases hr),
      Or.inl ⟨rfl, rfl⟩⟩

/-- **the lock-step invariant holds in every state a chain reaches without restarts** -/
theorem chainLock_reachNR (L : Nat) (tp : Topo) (hc : IsChain tp L) (proc : Proc) (hp : ProcOK proc) (hf : Fwd L proc) (st : St)
    (hr : ReachNR tp proc st) : ChainLock L st := by
  induction hr with
  | init => exact chainLock_init L tp hc
  | step e hne hr ih =>
    cases e with
    | nodeRecv i => exact chainLock_stepRecv L tp hc proc hf _ i ih
    | nodeSend i t =>
      exact chainLock_stepSend L tp hc _ i t (C01_net_inv_reachable tp proc hp _ (reachNR_reachable tp proc _ hr)) ih
    | restart i g => cases hne
