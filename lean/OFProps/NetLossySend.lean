import OFModel.Zmq.NetLossy
import OFProps.NetSend
set_option linter.unusedSimpArgs false
/-!
# Sender side, topic by topic (helper lemmas for `C02NetLossy.lean`)

`send0_pubs` (`NetSend.lean`) says that every wire message of one `send(payload, state, 0)` carries the call's id, the payload's topic
list and ONE of the payload's identities.  "Unaltered" end to end also needs: the identity travels under the topic frame of ITS OWN
topic.  `send0_T`: every `pub` output of one whole `send` is the heartbeat (`//`, identity 0) or `frame0 t` with the identity `b` of an
entry `(t, b)` of the payload — for ANY sender state outside a call, any request queue contents (lost, doubled, stale, ahead), any clock.
(Same proof skeleton as `send0_pubs`; only `publish` emits data messages.)
-/
namespace OF.Net.Lossy
open OF.Send (Payload Req Client)

/-- a published wire message of a call that sends the dict `L`: the heartbeat, or an entry of `L` under its own topic frame -/
def PubT (L : List (String × Nat)) : Send.Out → Prop
  | .pub _ f _ _ _ body => (body = 0 ∧ f = "//") ∨ ∃ t, (t, body) ∈ L ∧ f = Send.frame0 t
  | _ => True

theorem handle_T (st : Send.St) (j : Nat) (t : Int) (k : Int) (L : List (String × Nat)) (h : CP st k L) :
    CP (Send.step st (.handle j t)).1 k L ∧ ∀ o ∈ (Send.step st (.handle j t)).2, PubT L o := by
  unfold Send.step Send.stepHandle
  simp only
  split
  · exact ⟨h, (by intro o ho; cases ho)⟩
  · split
    · exact ⟨h, (by intro o ho; cases ho)⟩
    · exact ⟨h, (by intro o ho; cases ho)⟩
    · rename_i r q _
      have ⟨a, b, c⟩ := onReq_keeps { st with queues := st.queues.set j q } j r t
      have hcp : CP (Send.onReq { st with queues := st.queues.set j q } j r t).1 k L := by
        unfold CP; rw [a, b]; exact h
      split
      · refine ⟨(by unfold Send.endCall; exact hcp), ?_⟩
        intro o ho
        rw [List.mem_append] at ho
        rcases ho with ho | ho
        · rcases c o ho with ⟨b', rfl⟩; trivial
        · unfold Send.endCall at ho; simp only [List.mem_singleton] at ho; subst ho; trivial
      · refine ⟨hcp, ?_⟩
        intro o ho
        rcases c o ho with ⟨b', rfl⟩; trivial

theorem publish_T (st : Send.St) (ts : List (String × Nat)) :
    ∀ o ∈ (Send.publish st ts).2, PubT ts o := by
  intro o ho
  unfold Send.publish at ho
  simp only [List.mem_append] at ho
  rcases ho with h | h
  · rw [List.mem_flatMap] at h
    rcases h with ⟨⟨t, b⟩, htb, h2⟩
    rw [List.mem_map] at h2
    rcases h2 with ⟨_, _, rfl⟩
    exact Or.inr ⟨t, htb, rfl⟩
  · rw [List.mem_map] at h
    rcases h with ⟨_, _, rfl⟩
    exact Or.inl ⟨rfl, rfl⟩

theorem sendMaybe_T (st : Send.St) (k : Int) (L : List (String × Nat)) (h : CP st k L) :
    CP (Send.sendMaybe st).1 k L ∧ ∀ o ∈ (Send.sendMaybe st).2.1, PubT L o := by
  have hgate : plList (Send.gate st).2.1 = L ∧ (∀ o ∈ (Send.gate st).2.2, o = .evaluated) ∧
      ((Send.gate st).1 = none → Send.payloadTopics (Send.gate st).2.1 = L) := by
    unfold Send.gate
    split
    · exact ⟨h.2, (by intro o ho; cases ho), (by intro hc; cases hc)⟩
    · split
      · rename_i ts hp
        refine ⟨h.2, (by intro o ho; cases ho), ?_⟩
        intro _; have := h.2; rw [hp] at this; simp only [hp, Send.payloadTopics]; exact this
      · rename_i hp
        exact ⟨(by have := h.2; rw [hp] at this; exact this), (by intro o ho; simp only [List.mem_singleton] at ho; exact ho),
          (by intro hc; cases hc)⟩
      · rename_i ts hp
        refine ⟨(by have := h.2; rw [hp] at this; exact this), (by intro o ho; simp only [List.mem_singleton] at ho; exact ho), ?_⟩
        intro _; have := h.2; rw [hp] at this; exact this
  have hhello : ∀ r, ∀ o ∈ Send.helloOuts st r, PubT L o := by
    intro r o ho
    unfold Send.helloOuts at ho
    split at ho
    · rw [List.mem_map] at ho; rcases ho with ⟨_, _, rfl⟩; trivial
    · cases ho
  unfold Send.sendMaybe
  simp only
  split
  · rename_i r hg
    refine ⟨⟨h.1, hgate.1⟩, ?_⟩
    intro o ho
    rw [List.mem_append] at ho
    rcases ho with ho | ho
    · rw [hgate.2.1 o ho]; trivial
    · exact hhello _ o ho
  · rename_i hg
    have hts := hgate.2.2 hg
    refine ⟨?_, ?_⟩
    · unfold Send.publish CP; simp only; exact ⟨h.1, hgate.1⟩
    · intro o ho
      rw [List.mem_append, List.mem_append] at ho
      rcases ho with (ho | ho) | ho
      · rw [hgate.2.1 o ho]; trivial
      · exact hhello _ o ho
      · have := publish_T { st with doHello := false, payload := (Send.gate st).2.1 } (Send.payloadTopics (Send.gate st).2.1) o ho
        rw [hts] at this
        exact this

theorem trySend_T (st : Send.St) (k : Int) (L : List (String × Nat)) (h : CP st k L) :
    CP (Send.step st .trySend).1 k L ∧ ∀ o ∈ (Send.step st .trySend).2, PubT L o := by
  have ⟨a, b⟩ := sendMaybe_T st k L h
  unfold Send.step Send.stepTrySend
  simp only
  split
  · exact ⟨h, (by intro o ho; cases ho)⟩
  · split
    · refine ⟨(by unfold Send.endCall; exact a), ?_⟩
      intro o ho
      rw [List.mem_append] at ho
      rcases ho with ho | ho
      · exact b o ho
      · unfold Send.endCall at ho; simp only [List.mem_singleton] at ho; subst ho; trivial
    · exact ⟨a, b⟩

theorem timeout_T (st : Send.St) (k : Int) (L : List (String × Nat)) :
    ∀ o ∈ (Send.step st .timeout).2, PubT L o := by
  intro o ho
  unfold Send.step Send.stepTimeout at ho
  simp only at ho
  split at ho
  · cases ho
  · simp only [List.mem_singleton] at ho; subst ho; trivial

theorem drain_T : ∀ (f : Nat) (st : Send.St) (prio : List Nat) (t : Int) (k : Int) (L : List (String × Nat)), CP st k L →
    CP (Send.drain f st prio t).1 k L ∧ ∀ o ∈ (Send.drain f st prio t).2, PubT L o := by
  intro f
  induction f with
  | zero => intro st prio t k L h; exact ⟨h, (by intro o ho; cases ho)⟩
  | succ f ih =>
    intro st prio t k L h
    unfold Send.drain
    split
    · exact ⟨h, (by intro o ho; cases ho)⟩
    · split
      · exact ⟨h, (by intro o ho; cases ho)⟩
      · rename_i j _
        have ⟨a, b⟩ := handle_T st j t k L h
        cases hs : Send.step st (.handle j t) with
        | mk st' o =>
          rw [hs] at a b
          have ⟨a2, b2⟩ := ih st' prio t k L a
          simp only
          refine ⟨a2, ?_⟩
          intro x hx
          rw [List.mem_append] at hx
          rcases hx with hx | hx
          · exact b x hx
          · exact b2 x hx

/-- **every wire message of one `send(payload, state, 0)` is the heartbeat (`//`, identity 0) or carries the identity of ONE entry
`(t, body)` of the payload under the topic frame of THAT entry's topic `t`**: the sender never swaps payloads between topics -/
theorem send0_T (st : Send.St) (state : Option (Int × Nat)) (pl : Payload) (push : Bool) (prio : List Nat) (t : Int)
    (hin : st.inCall = false) :
    ∀ o ∈ (Send.send0 st state pl push prio t).2, PubT (plList pl) o := by
  have hbeg : (∀ o ∈ (Send.step st (.begin state pl push)).2, PubT (plList pl) o) ∧
      ((Send.step st (.begin state pl push)).1.inCall = true → CP (Send.step st (.begin state pl push)).1 (callId st state) (plList pl)) := by
    unfold Send.step Send.stepBegin
    simp only [hin, Bool.false_eq_true, ↓reduceIte]
    cases state with
    | none => exact ⟨(by intro o ho; cases ho), fun _ => ⟨rfl, rfl⟩⟩
    | some kb =>
      rcases kb with ⟨k, b⟩
      simp only
      split
      · refine ⟨(by intro o ho; simp only [List.mem_singleton] at ho; subst ho; trivial), ?_⟩
        intro hc; rw [hin] at hc; cases hc
      · exact ⟨(by intro o ho; cases ho), fun _ => ⟨rfl, rfl⟩⟩
  unfold Send.send0
  cases h0 : Send.step st (.begin state pl push) with
  | mk st0 o0 =>
    rw [h0] at hbeg
    simp only at hbeg ⊢
    split
    · exact hbeg.1
    · rename_i hc0
      have hcp0 := hbeg.2 (by simpa using hc0)
      have ⟨hcp1, g1⟩ := drain_T (Send.totalQueued st0 + 1) st0 prio t _ _ hcp0
      cases h1 : Send.drain (Send.totalQueued st0 + 1) st0 prio t with
      | mk st1 o1 =>
        rw [h1] at hcp1 g1
        simp only at hcp1 g1 ⊢
        have g01 : ∀ o ∈ o0 ++ o1, PubT (plList pl) o := by
          intro o ho; rw [List.mem_append] at ho
          rcases ho with ho | ho
          · exact hbeg.1 o ho
          · exact g1 o ho
        split
        · exact g01
        · have ⟨hcp2, g2⟩ := trySend_T st1 _ _ hcp1
          cases h2 : Send.step st1 .trySend with
          | mk st2 o2 =>
            rw [h2] at hcp2 g2
            simp only at hcp2 g2 ⊢
            have g012 : ∀ o ∈ o0 ++ o1 ++ o2, PubT (plList pl) o := by
              intro o ho; rw [List.mem_append] at ho
              rcases ho with ho | ho
              · exact g01 o ho
              · exact g2 o ho
            split
            · exact g012
            · cases h3 : Send.step st2 .timeout with
              | mk st3 o3 =>
                simp only
                intro o ho; rw [List.mem_append] at ho
                rcases ho with ho | ho
                · exact g012 o ho
                · have := timeout_T st2 (callId st state) (plList pl) o
                  rw [h3] at this
                  exact this ho

end OF.Net.Lossy
