import OFModel.Zmq.NetEph
import OFProps.C03Tree
import OFProps.C05NetInv
import OFProps.C05Net
set_option linter.unusedSimpArgs false
/-!
# C05 at network level, tees and trees — `C03_net_tree_composition` survives arbitrary ephemeral listeners

Topology `treeTopo par` (node 0 the source, every other node subscribed to one earlier node, ANY number of synchronised consumers per
publisher) plus any number of listeners at any publishers (`OFModel/Zmq/NetEph.lean`).  Invariant: `GoodT proc par (stripX X)` — the
tree invariant of `C03Tree.lean` for the state with the queued listener requests erased.  `nodeRecv` commutes with stripping
(`NetEphStrip.lean`, any topology); `nodeSend` is re-proved from `send0_chain_eph` (`goodTE_sendReal`).

* `C05_net_tree_composition_with_listeners` — every tree, every `proc` with `ProcNames`, every restart-free schedule with any listener
  requests, every path `0 → p₁ → … → c`: the log of `process()` of `c` is a PREFIX of the source's frames threaded through the process
  functions on the path (`handedAlong`).
* `C05_net_tree_edge_with_listeners` — the same per edge.
-/
namespace OF.Net.Eph
open OF.Net
open OF.Chain (Blk ChanQ BlkOK Rest visData vis)
open OF.Recv (Src Wire Msg Topic)

theorem atC_stripX (X : LSt) (c : Nat) : atC (stripX X) c = stripX (atC X c) := rfl

theorem goodTE_sendReal (proc : Proc) (par : List Nat) (hpar : ParOK par) (X : LSt) (j : Nat) (t : Int) (nd : Node) (p : Pending)
    (h : GoodT proc par (stripX X)) (hn : X.st.nodes[j]? = some nd) (hpend : nd.pending = some p) (hjpar : j ∈ par) :
    GoodT proc par (stripX { st := (sendReal (treeTopo par) X.st j nd p t).1, log := X.log }) := by
  have hnS := stripX_get X j nd hn
  have hjL : j < (stripX X).st.nodes.length := (List.getElem?_eq_some_iff.mp hnS).1
  rcases h.pubs j _ hnS hjpar with ⟨pub, hpub, hcons⟩
  have hG := h.node j _ hnS
  have hpis : (stripNode nd).pending.isSome = true := by show nd.pending.isSome = true; rw [hpend]; rfl
  have hpendS : (stripNode nd).pending = some p := hpend
  have ⟨hout, hsid0⟩ := send_outcome_eph proc X j t nd p pub hpub hG hpend
  rw [stripX_sendReal]
  have hpay : payloadOf X.st.tbl.length p.res = .deferred ((dictOf p.res).map (relabel X.st.tbl.length)) := rfl
  simp only [hpay]
  generalize hr : Send.send0 nd.pub nd.sendState (.deferred ((dictOf p.res).map (relabel X.st.tbl.length))) false [0] t = r at hout
  rcases hout with ⟨o1, o2, o3, o4, hcase⟩
  have o3S : (stripPub r.1).queues.length = 1 := by simpa [stripPub] using o3
  have o4S : ∀ q ∈ (stripPub r.1).queues, ∀ x ∈ q, x.mid ≤ lastId pub :=
    strip_reqs_back r.1 (fun x => x.mid ≤ lastId pub) (fun q hq x hx hk => (o4 q hq x hx).2 hk)
  have hlen' : ∀ (nd' : Node) (ws : List Wire), (deliverWires (treeTopo par) ((stripX X).st.nodes.set j nd') j ws).length = par.length + 1 := by
    intro nd' ws; simp only [deliverWires, List.length_mapIdx, List.length_set]; exact h.len
  have hlook := fun nd' ws => send_lookupT par hpar (stripX X).st.nodes j nd' ws hjL
  rcases hcase with ⟨m1, m2, m3, m4⟩ | ⟨hrn, m1, m2, m3, m4⟩ | ⟨ts, hrs, m1, m2, m3, m4⟩
  · -- time-out
    have haft : afterSend nd p r = { nd with pub := r.1 } := by unfold afterSend; rw [m2]
    rw [haft]
    refine goodT_send_gen proc par hpar (stripX X) j (stripNode nd) _ _ _ _ h hnS (hlen' _ _) (hlook _ _)
      (nodeG_frame j (stripNode nd) _ hG rfl rfl rfl rfl) rfl rfl ?_
    intro _
    refine ⟨pub, pubInv_frame proc (stripX X) _ j (stripNode nd) (stripNode { nd with pub := r.1 }) pub hpub rfl rfl rfl rfl
      (o1.trans hpub.idle.symm) (o2.trans hpub.bal.symm) m1 o3S o4S, ?_⟩
    intro idx C hidx hC
    rcases hcons idx C hidx hC with ⟨bsW, s, hc⟩
    exact ⟨bsW, _, conInv_hellos (atC (stripX X) (idx + 1)) j C pub bsW s _ _ _ hc m4⟩
  · -- the callable returned None
    have hd : dictOf p.res = none := by
      cases hdd : dictOf p.res with
      | none => rfl
      | some d => rw [hdd] at hrn; cases hrn
    have haft : afterSend nd p r = { nd with pub := r.1, pending := none, sendState := none, recvState := none } := by
      unfold afterSend; rw [m2]; simp only [m3, hd, Option.isNone_none, Bool.and_self, ↓reduceIte]
    rw [haft]
    refine goodT_send_gen proc par hpar (stripX X) j (stripNode nd) _ _ _ _ h hnS (hlen' _ _) (hlook _ _)
      ⟨fun h0 => ⟨(hG.src h0).1, rfl⟩, (by intro _ hc; cases hc), (by intro _ k hk; cases hk)⟩ rfl rfl ?_
    intro _
    refine ⟨pub, ?_, ?_⟩
    · refine ⟨?_, hpub.inc, o1, o2, o3S, m1.trans hpub.minSend, o4S, (by intro hc; cases hc), (by intro q d hq; cases hq)⟩
      have := hpub.prod
      rw [pendOf_nodict (stripNode nd) p hpendS hd] at this
      simp only [prodOf, stripNode] at this ⊢
      rw [this]; rfl
    · intro idx C hidx hC
      rcases hcons idx C hidx hC with ⟨bsW, s, hc⟩
      exact ⟨bsW, _, conInv_hellos (atC (stripX X) (idx + 1)) j C pub bsW s _ _ _ hc m4⟩
  · -- the block is published
    have hd : ∃ d, dictOf p.res = some d ∧ ts = relabel X.st.tbl.length d := by
      cases hdd : dictOf p.res with
      | none => rw [hdd] at hrs; cases hrs
      | some d => rw [hdd] at hrs; simp only [Option.map_some, Option.some.injEq] at hrs; exact ⟨d, rfl, hrs.symm⟩
    rcases hd with ⟨d, hd, rfl⟩
    have haft : afterSend nd p r = { nd with pub := r.1, pending := none, sendState := none, recvState := some (sendId nd + 1) } := by
      unfold afterSend; rw [m2]; simp only [m3, hd, Option.isNone_some, Bool.and_false, Bool.false_eq_true, ↓reduceIte]
    have hent : entriesOf p.res (sendOrigin j nd p) = d.map fun q => ({ content := q.2, orig := sendOrigin j nd p } : Entry) := by
      simp only [entriesOf, hd, Option.getD_some]
    rw [haft, m4, hent]
    have hnames := hpub.names p d hpendS hd
    have hlast : lastId pub < sendId nd := by
      rcases lastId_mem_or pub with e | ⟨b, hb, e⟩
      · omega
      · rw [e]; exact hpub.strict hpis b hb
    refine goodT_send_gen proc par hpar (stripX X) j (stripNode nd) _ _ _ _ h hnS (hlen' _ _) (hlook _ _) ?_ rfl rfl ?_
    · refine ⟨fun h0 => ⟨(hG.src h0).1, rfl⟩, (by intro _ hc; cases hc), ?_⟩
      intro h0 k hk
      simp only [stripNode, Option.some.injEq] at hk
      have ⟨e, _⟩ := hG.relay h0 hpis
      have : sendId nd = nd.con.prevId := by unfold sendId; rw [show nd.sendState = some (nd.con.prevId, 0) from e]
      simp only [stripNode]; omega
    · intro _
      refine ⟨pub ++ [(sendId nd, d)], ?_, ?_⟩
      · refine ⟨?_, idsInc_snoc pub _ hpub.inc (hpub.strict hpis) hsid0, o1, o2, o3S, (by show r.1.minSendId = _; rw [m1, lastId_snoc]), ?_,
          (by intro hc; cases hc), (by intro q d' hq; cases hq)⟩
        · have := hpub.prod
          rw [pendOf_some (stripNode nd) p d hpendS hd, sendId_strip] at this
          simp only [prodOf, stripNode] at this ⊢
          rw [this]; simp [pendOf]
        · intro q hq x hx
          rw [lastId_snoc]
          have := o4S q hq x hx
          simp only; omega
      · intro idx C hidx hC
        rcases hcons idx C hidx hC with ⟨bsW, s, hc⟩
        exact ⟨_, _, conInv_block (atC (stripX X) (idx + 1)) j C pub bsW s (sendId nd) d _ _ hc hpub.inc (hpub.strict hpis) hsid0 hnames⟩

theorem goodTE_stepSend (proc : Proc) (par : List Nat) (hpar : ParOK par) (X : LSt) (j : Nat) (t : Int) (h : GoodT proc par (stripX X)) :
    GoodT proc par (stripX (lstep (treeTopo par) proc X (.nodeSend j t))) := by
  unfold lstep
  simp only [step, stepSend, logUpd]
  cases hn : X.st.nodes[j]? with
  | none => exact h
  | some nd =>
    simp only
    cases hpend : nd.pending with
    | none => exact h
    | some p =>
      simp only
      have hnS := stripX_get X j nd hn
      by_cases hr : Loop.reachesSender ((treeTopo par).hasOut j) p.res = true
      · simp only [hr, ↓reduceIte]
        have hout : (treeTopo par).hasOut j = true := by
          cases hres : p.res with
          | none => rw [hres] at hr; simp [Loop.reachesSender] at hr
          | dict d => rw [hres] at hr; simpa [Loop.reachesSender] using hr
          | deferred r => rw [hres] at hr; simpa [Loop.reachesSender] using hr
        rw [tree_hasOut] at hout
        exact goodTE_sendReal proc par hpar X j t nd p h hn hpend (by simpa using hout)
      · have hr' : Loop.reachesSender ((treeTopo par).hasOut j) p.res = false := by simpa using hr
        simp only [hr', Bool.false_eq_true, ↓reduceIte]
        have := goodT_sendSkip proc par hpar (stripX X) j (stripNode nd) p h hnS hpend hr'
        have e : stripX { st := (sendSkip X.st j nd).1, log := X.log } =
            { st := { (stripX X).st with nodes := (stripX X).st.nodes.set j { stripNode nd with pending := none } }, log := (stripX X).log } := by
          simp only [stripX, sendSkip, stripSt, List.map_set]
          rfl
        rw [e]; exact this

theorem goodTE_estep (proc : Proc) (hp : ProcNames proc) (par : List Nat) (hpar : ParOK par) (X : LSt) (e : EEv)
    (h : GoodT proc par (stripX X)) (hok : EvOK e) (hnr : isRestartE e = false) :
    GoodT proc par (stripX (elstep (treeTopo par) proc X e)) := by
  cases e with
  | base e =>
    cases e with
    | nodeRecv j =>
      simp only [elstep]
      rw [← lstep_recv_strip]
      exact goodT_stepRecv proc hp par hpar (stripX X) j h
    | nodeSend j t => exact goodTE_stepSend proc par hpar X j t h
    | restart j g => simp [isRestartE, isRestart] at hnr
  | ephReq p r =>
    simp only [elstep, stripX]
    rw [stripSt_ephPush _ _ _ _ hok]
    exact h

theorem goodTE_elrun (proc : Proc) (hp : ProcNames proc) (par : List Nat) (hpar : ParOK par) : ∀ (evs : List EEv) (X : LSt),
    GoodT proc par (stripX X) → (∀ e ∈ evs, EvOK e) → (∀ e ∈ evs, isRestartE e = false) →
    GoodT proc par (stripX (elrun (treeTopo par) proc X evs)) := by
  intro evs
  induction evs with
  | nil => intro X h _ _; exact h
  | cons e es ih =>
    intro X h hok hnr
    exact ih _ (goodTE_estep proc hp par hpar X e h (hok e (List.mem_cons_self ..)) (hnr e (List.mem_cons_self ..)))
      (fun x hx => hok x (List.mem_cons_of_mem _ hx)) (fun x hx => hnr x (List.mem_cons_of_mem _ hx))

/-- **C05 (network level, every edge of a tee / tree, with listeners)**: along every restart-free run with any listener requests, for
every node `c = idx + 1` with parent `u`: what `process()` of `c` has been called with is a PREFIX of the visible part of what `u` has
produced so far (`prodOf`) — nothing lost from the first set on, for EVERY synchronised consumer of `u`, whoever else listens. -/
theorem C05_net_tree_edge_with_listeners (proc : Proc) (hp : ProcNames proc) (par : List Nat) (hpar : ParOK par) (evs : List EEv)
    (hok : ∀ e ∈ evs, EvOK e) (hnr : ∀ e ∈ evs, isRestartE e = false) (idx u : Nat) (hpu : par[idx]? = some u) (P : Node)
    (hP : (elrun (treeTopo par) proc (linit (treeTopo par)) evs).st.nodes[u]? = some P) :
    (elrun (treeTopo par) proc (linit (treeTopo par)) evs).log (idx + 1) <+:
      (prodOf proc (elrun (treeTopo par) proc (linit (treeTopo par)) evs) u P).map visB := by
  have hg := goodTE_elrun proc hp par hpar evs (linit (treeTopo par)) (by rw [stripX_linit]; exact goodT_init proc par) hok hnr
  generalize elrun (treeTopo par) proc (linit (treeTopo par)) evs = X at hg hP ⊢
  exact goodT_edge proc par (stripX X) hg idx u hpu (stripNode P) (stripX_get X u P hP)

/-- **C05 (network level, tees and trees): the composition theorem survives arbitrary listeners.**  For every tree `par` (node 0 the
source, every other node subscribed to one earlier node, ANY number of synchronised consumers per publisher), every process-function
family with dict-like results, every restart-free schedule with ANY listener requests interleaved at any publishers, and every path
`0 → p₁ → … → c` of the tree: the sequence of `(id, content)` sets `process()` of `c` has been called with along the run is a PREFIX of
the source's frames `0 … N-1` threaded through `proc 0, proc p₁, …` up to the parent of `c` (`handedAlong`) — the statement of
`C03_net_tree_composition`, listeners or not. -/
theorem C05_net_tree_composition_with_listeners (proc : Proc) (hp : ProcNames proc) (par : List Nat) (hpar : ParOK par) (evs : List EEv)
    (hok : ∀ e ∈ evs, EvOK e) (hnr : ∀ e ∈ evs, isRestartE e = false) (ps : List Nat) (hpath : IsPath par 0 ps) (c : Nat)
    (hc : ps.getLast? = some c) :
    (elrun (treeTopo par) proc (linit (treeTopo par)) evs).log c <+:
      handedAlong proc (srcBlocks proc (srcCount (elrun (treeTopo par) proc (linit (treeTopo par)) evs))) ps := by
  have hg := goodTE_elrun proc hp par hpar evs (linit (treeTopo par)) (by rw [stripX_linit]; exact goodT_init proc par) hok hnr
  generalize elrun (treeTopo par) proc (linit (treeTopo par)) evs = X at hg ⊢
  have h0 : 0 < (stripX X).st.nodes.length := by rw [hg.len]; omega
  have := goodT_path proc par (stripX X) hg ps 0 _ (srcBlocks proc (srcCount X)) (List.getElem?_eq_getElem h0) ?_ hpath c hc
  · exact this
  · have e : srcCount X = ((stripX X).st.nodes[0]).count := by
      rw [← srcCount_strip]; unfold srcCount; rw [List.getElem?_eq_getElem h0]; rfl
    simp only [prodOf, ↓reduceIte, e]
    exact List.prefix_refl _

/-! ### non-vacuity: the tee of `C03Tree.lean` (source 0 → branches 1, 2 → node 3 below branch 1) with listeners at the source and at branch 1 -/

def teSched : List EEv :=
  [.ephReq 0 (lreq "E1" "a" (-1) false)] ++ embed (tRound 1100) ++ [.ephReq 1 (lreq "E2" "b" 5 false), .ephReq 0 (lreq "E1" "a" 90 false)] ++
  embed (tRound 1200) ++ embed (tRound 1300) ++ [.ephReq 0 (lreq "E1" "a" (-3) false), .ephReq 1 (lreq "E2" "b" 0 true)] ++ embed (tRound 1400) ++
  embed (tRound 1500) ++ embed (tRound 1600) ++ [.ephReq 0 (lreq "E3" "z" 2 false)] ++ embed (tRound 1700) ++
  embed (tLate 1800) ++ embed (tLate 1900) ++ embed (tLate 2000) ++ embed (tLate 2100) ++ embed (tLate 2200)

theorem teSched_ok : ∀ e ∈ teSched, EvOK e := by
  have : teSched.all evOK = true := by decide +kernel
  intro e he
  have h := List.all_eq_true.mp this e he
  cases e with
  | base e => trivial
  | ephReq p r => exact (isListenerReq_iff r).mp h

/-- the tee of `C03Tree.lean` with 7 listener requests at the source and at branch 1 (ordinary, far ahead, CLOSE, `new`, a third
listener): the LATE branch 2 is still handed every frame from 0 on (here 0 … 4: the source ran ahead for the listener `E1` as well),
branch 1 the frames 0 … 5, node 3 below the relay the ids 0, 2, 3, 4, 5; WITHOUT the listener events the same schedule hands branch 2
the frames 0 … 3 — a prefix: the listeners changed the timing, not the stream -/
example : (elrun (treeTopo tPar) cProc (linit (treeTopo tPar)) teSched).log 2 =
      [(0, [("main", 0)]), (1, [("main", 10)]), (2, [("main", 20)]), (3, [("main", 30)]), (4, [("main", 40)])] ∧
    (elrun (treeTopo tPar) cProc (linit (treeTopo tPar)) teSched).log 1 =
      [(0, [("main", 0)]), (1, [("main", 10)]), (2, [("main", 20)]), (3, [("main", 30)]), (4, [("main", 40)]), (5, [("main", 50)])] ∧
    (elrun (treeTopo tPar) cProc (linit (treeTopo tPar)) teSched).log 3 =
      [(0, [("main", 0)]), (2, [("main", 21)]), (3, [("main", 30)]), (4, [("main", 40)]), (5, [("main", 50)])] ∧
    (lrun (treeTopo tPar) cProc (linit (treeTopo tPar)) (erase teSched)).log 2 =
      [(0, [("main", 0)]), (1, [("main", 10)]), (2, [("main", 20)]), (3, [("main", 30)])] := by
  decide +kernel

end OF.Net.Eph
