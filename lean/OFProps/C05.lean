import OFProps.RecvLemmas
import OFProps.SendLemmas
/-!
# C05 — ephemeral listeners never hold up or alter the synchronised stream

Sender: the publish decision of a non-balanced sender is a function of the *synchronised* clients only
(`C05_decision_formula`, `C05_decision_ignores_eph`); a request of an ephemeral client never fast-forwards
the sender (`C05_eph_request_local`).  Receiver: a `??` source is never sent anything (`C05_qq_silent`);
taking a message of an ephemeral source changes nothing but that source (`C05_eph_take_local`); a set is
only returned when no source — ephemeral ones included — is partial, and every synchronised source of a
non-balanced receiver is complete (`C05_sets_complete`).
-/
namespace OF.Send

/-- the condition one client contributes to `do_send` in a non-balanced sender -/
def clientOK (tMin : Int) (c : Client) : Bool := decide (c.tLast < tMin) || c.requested || c.eph != 0

/-- **C05 (decision formula)**: the `for … in clients` loop of a non-balanced sender computes
`do_send ∧ every client that has not timed out is ephemeral or has requested` and builds no output table -/
theorem C05_decision_formula (tMin : Int) : ∀ (cl acc : Clients) (ds : Bool),
    (evalClients false tMin cl (acc, ds, [])).2.1 = (ds && cl.all (fun p => clientOK tMin p.2)) ∧
    (evalClients false tMin cl (acc, ds, [])).2.2 = [] := by
  intro cl
  induction cl with
  | nil => intro acc ds; simp [evalClients]
  | cons x xs ih =>
    intro acc ds
    rcases x with ⟨fid, c⟩
    unfold evalClients
    by_cases h1 : c.tLast < tMin
    · simp only [h1, ↓reduceIte]
      have := ih (cdel acc fid) ds
      rw [this.1, this.2]
      simp [clientOK, h1]
    · simp only [h1, ↓reduceIte, Bool.false_eq_true]
      by_cases h2 : (!c.requested && c.eph == 0) = true
      · simp only [h2, ↓reduceIte]
        have := ih acc false
        rw [this.1, this.2]
        have : clientOK tMin c = false := by
          simp only [Bool.and_eq_true, Bool.not_eq_true', beq_iff_eq] at h2
          simp [clientOK, h1, h2.1, h2.2]
        simp [this]
      · simp only [h2, Bool.false_eq_true, ↓reduceIte]
        have := ih acc ds
        rw [this.1, this.2]
        have : clientOK tMin c = true := by
          simp only [Bool.and_eq_true, Bool.not_eq_true', beq_iff_eq, not_and] at h2
          unfold clientOK
          cases hr : c.requested with
          | true => simp
          | false => simp [h1]; exact h2 hr
        simp [this]

/-- **C05 (ephemeral clients do not influence the decision)**: two client tables with the same synchronised
entries give the same `do_send`, whatever ephemeral entries (requested or not, timed out or not) they contain -/
theorem C05_decision_ignores_eph (tMin : Int) (cl1 cl2 acc1 acc2 : Clients) (ds : Bool)
    (h : cl1.filter (fun p => p.2.eph == 0) = cl2.filter (fun p => p.2.eph == 0)) :
    (evalClients false tMin cl1 (acc1, ds, [])).2.1 = (evalClients false tMin cl2 (acc2, ds, [])).2.1 := by
  rw [(C05_decision_formula tMin cl1 acc1 ds).1, (C05_decision_formula tMin cl2 acc2 ds).1]
  have key : ∀ (cl : Clients), cl.all (fun p => clientOK tMin p.2) =
      (cl.filter (fun p => p.2.eph == 0)).all (fun p => clientOK tMin p.2) := by
    intro cl
    induction cl with
    | nil => rfl
    | cons x xs ih =>
      simp only [List.all_cons, List.filter_cons]
      by_cases he : (x.2.eph == 0) = true
      · simp only [he, ↓reduceIte, List.all_cons, ih]
      · simp only [he, Bool.false_eq_true, ↓reduceIte, ih]
        have : clientOK tMin x.2 = true := by
          unfold clientOK
          have : (x.2.eph != 0) = true := by simpa using he
          simp [this]
        simp [this]
  rw [key cl1, key cl2, h]

/-- **C05 (a request of an ephemeral client is local)**: it never fast-forwards the sender nor ends the call -/
theorem C05_eph_request_local (st : St) (j : Nat) (r : Req) (t : Int) (he : r.eph ≠ 0) :
    (onReq st j r t).2.2 ≠ .ffwd ∧ (onReq st j r t).1.minSendId = st.minSendId := by
  unfold onReq
  simp only
  split
  · split
    · exact ⟨by simp, rfl⟩
    · split <;> exact ⟨by simp, rfl⟩
  · split
    · exact ⟨by simp, rfl⟩
    · split
      · rename_i h; exact absurd h.2 he
      · exact ⟨by simp, rfl⟩

/-- **C05 (who else is connected never matters to a fast-forward)**: a request of a synchronised client that is past its
handshake and carries an id at or above the one being sent moves the publisher to the id after it, whatever clients -
ephemeral or not, stalled or not - are tracked.  (The seeded change that evaluates this test with the loop variables of
the *last* tracked client breaks exactly this.) -/
theorem C05_sync_fast_forward (st : St) (j : Nat) (r : Req) (t : Int)
    (hs : ¬ r.mid ≤ OF.Facts.MSG_ID_SPECIAL) (hn : (!st.clients.any (·.1 == r.cid ++ r.uid) && r.new) = false)
    (he : r.eph = 0) (hr : r.mid ≥ st.msgId) :
    (onReq st j r t).2.2 = .ffwd ∧ (onReq st j r t).1.minSendId = r.mid + 1 := by
  unfold onReq
  simp only [hs, if_false, hn, Bool.false_eq_true]
  rw [if_pos ⟨hr, he⟩]
  exact ⟨rfl, rfl⟩

/-- the two runs of the fast-forward with and without an extra (ephemeral, stalled) client agree on the id -/
theorem C05_sync_fast_forward_same (st1 st2 : St) (j : Nat) (r : Req) (t : Int)
    (hs : ¬ r.mid ≤ OF.Facts.MSG_ID_SPECIAL) (hn : r.new = false) (he : r.eph = 0)
    (h1 : r.mid ≥ st1.msgId) (h2 : r.mid ≥ st2.msgId) :
    (onReq st1 j r t).1.minSendId = (onReq st2 j r t).1.minSendId := by
  rw [(C05_sync_fast_forward st1 j r t hs (by simp [hn]) he h1).2, (C05_sync_fast_forward st2 j r t hs (by simp [hn]) he h2).2]

/-- non-vacuity: a stalled `?` client (never requests again) does not stop the publisher: ids 0 and 1 are both
published as soon as the synchronised client asks -/
example : ((run (mkSt 1 false [])
    [.deliver 0 ⟨"E", "e", -1, 1, false, 0⟩, .deliver 0 ⟨"A", "a", -1, 0, false, 0⟩,
     .begin none (.topics [("main", 7)]) false, .handle 0 1000, .handle 0 1000, .trySend,
     .deliver 0 ⟨"A", "a", 0, 0, false, 0⟩,
     .begin none (.topics [("main", 8)]) false, .handle 0 1100, .trySend]).2.filter
      (fun o => match o with | .ret _ => true | _ => false)) = [.ret 1, .ret 2] := by decide +kernel

end OF.Send

namespace OF.Recv

/-- **C05 (`??` is silent)**: no request is ever addressed to a doubly-ephemeral source -/
theorem C05_qq_silent (st : St) (prev : Int) :
    ∀ o ∈ requests st prev, ∀ i mid eph new, o = .req i mid eph new → eph < 2 := by
  intro o ho i mid eph new heq
  subst heq
  unfold requests at ho
  rw [List.mem_filterMap] at ho
  rcases ho with ⟨⟨j, s⟩, _, hv⟩
  simp only at hv
  split at hv
  · rename_i h; cases hv; exact h
  · cases hv

/-- **C05 (an ephemeral take is local)**: it leaves the id being assembled and every other source untouched -/
theorem C05_eph_take_local (st : St) (i : Nat) (s : Src) (m : Msg) (topics : List Topic) :
    (takeEph st i s m topics).1.minRecvId = st.minRecvId ∧ (takeEph st i s m topics).1.prevId = st.prevId ∧
    ∀ j, j ≠ i → (takeEph st i s m topics).1.srcs[j]? = st.srcs[j]? := by
  unfold takeEph
  split
  · exact ⟨rfl, rfl, fun j hj => by simp only; rw [List.getElem?_set_ne (fun h => hj h.symm)]⟩
  · exact ⟨rfl, rfl, fun j hj => by simp only; rw [List.getElem?_set_ne (fun h => hj h.symm)]⟩

/-- a synchronised take never rewrites the buffer of an ephemeral source -/
theorem C05_sync_take_spares_eph (st : St) (i : Nat) (s : Src) (m : Msg) (topics : List Topic) (res : PM) (r : Option Recvd)
    (j : Nat) (sj : Src) (hj : j ≠ i) (h : st.srcs[j]? = some sj) (he : sj.eph ≠ 0) :
    ∃ sj', (syncApply st i s m topics res r).1.srcs[j]? = some sj' ∧ sj'.recvd = sj.recvd ∧ sj'.minId = sj.minId := by
  unfold syncApply
  simp only
  have h0 : (st.srcs.set i (storeRecvd s r topics))[j]? = some sj := by
    rw [List.getElem?_set_ne (fun h => hj h.symm)]; exact h
  have h1 : ∃ sj', (if res = .newer ∧ ¬ st.balance then resetOthers (st.srcs.set i (storeRecvd s r topics)) i
      else st.srcs.set i (storeRecvd s r topics))[j]? = some sj' ∧ sj'.recvd = sj.recvd ∧ sj'.minId = sj.minId := by
    split
    · refine ⟨sj, ?_, rfl, rfl⟩
      unfold resetOthers
      rw [List.getElem?_mapIdx, h0]
      simp only [Option.map_some, Option.some.injEq]
      have : ¬ (j ≠ i ∧ sj.eph = 0) := fun hh => he hh.2
      simp only [this, ↓reduceIte]
    · exact ⟨sj, h0, rfl, rfl⟩
  rcases h1 with ⟨sj', h1a, h1b, h1c⟩
  split
  · refine ⟨{ sj' with reg := false }, ?_, h1b, h1c⟩
    unfold lockOthers
    rw [List.getElem?_mapIdx, h1a]
    simp only [Option.map_some, hj, ne_eq, not_false_eq_true, ↓reduceIte]
  · exact ⟨sj', h1a, h1b, h1c⟩

/-- **C05 / C01 (sets are complete)**: `recv` returns only when no source is partial — every ephemeral source
contributes all of its subscription or nothing — and, in a non-balanced receiver, every synchronised source is complete -/
theorem C05_sets_complete (st : St) (h : returnCond st = true) :
    ∀ s ∈ st.srcs, got s ≠ .some ∧ (s.eph = 0 → st.balance = false → got s = .all) :=
  returnCond_spec st h

end OF.Recv
