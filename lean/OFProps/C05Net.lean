import OFModel.Zmq.NetEph
import OFProps.C05NetInv
set_option linter.unusedSimpArgs false
/-!
# C05 at network level — the composition theorems of C03 stage C survive arbitrary ephemeral listeners

Model: `OFModel/Zmq/NetEph.lean` — the closed network of `Net.lean` plus the event `ephReq p r`: ANY request `r` of an ephemeral client
with a listener id (`IsListenerReq`: `r.eph ≠ 0`, client id `"E…"`) arrives at the PULL socket of publisher `p`, at any time, any id
(stale, ahead, CLOSE, OOB, any special id), any `new` flag, any `uid`, any number of listeners.

* `C05_net_chain_composition_with_listeners` — the statement of `C03_net_chain_composition` for schedules of `EEv`: every chain length,
  every `proc` with `ProcNames`, every restart-free schedule of `nodeRecv | nodeSend @t | ephReq`: for every node `i ≥ 1` the log of
  the sets its `process()` was called with is a PREFIX of `handedSpec proc i N` — the composition of the process functions on the
  source's frames — whatever listener requests are interleaved.  (`…_run`: the same on the observations of the model's `erun`, the
  function the driver op `nete.run` executes.)
* `C05_net_listener_arrival_invisible`, `C05_net_listener_drained` — the local facts: the arrival changes nothing but one PULL queue;
  a `send` whose queue holds listener requests ends in one of the three outcomes of a listener-free `send`.
Invariant: `Good proc L (stripX X)` (`C05NetInv.lean`) = the invariant of C03 with "every queued NON-LISTENER request names an id at
or below the last published one".
-/
namespace OF.Net.Eph
open OF.Net
open OF.Recv (Wire)

theorem srcCount_strip (X : LSt) : srcCount (stripX X) = srcCount X := by
  unfold srcCount
  show (((stripSt X.st).nodes[0]?).map (·.count)).getD 0 = _
  rw [stripSt_get]
  cases X.st.nodes[0]? with
  | none => rfl
  | some nd => rfl

/-- **C05 (network level, chains): the composition theorem survives arbitrary listeners.**  For every chain length `L`, every
process-function family with dict-like results (`ProcNames`), every restart-free schedule `evs` of `nodeRecv | nodeSend @t` events
with ANY listener requests (`ephReq p r`, `IsListenerReq r`) interleaved at any publishers (no bound, any clock readings, evictions
included), for every node `i ≥ 1`: the sequence of `(id, [(topic, content)])` sets its `process()` has been called with along the run
is a PREFIX of `handedSpec proc i N` (`N` = frames the source has produced): nothing lost, duplicated, reordered or altered — the
statement of `C03_net_chain_composition`, listeners or not. -/
theorem C05_net_chain_composition_with_listeners (proc : Proc) (hp : ProcNames proc) (L : Nat) (evs : List EEv)
    (hok : ∀ e ∈ evs, EvOK e) (hnr : ∀ e ∈ evs, isRestartE e = false) (i : Nat) (hi : 1 ≤ i) (hiL : i < L) :
    (elrun (chainTopo L) proc (linit (chainTopo L)) evs).log i <+:
      handedSpec proc i (srcCount (elrun (chainTopo L) proc (linit (chainTopo L)) evs)) := by
  have hg := goodE_elrun proc hp L evs (linit (chainTopo L)) (by rw [stripX_linit]; exact good_init proc L) hok hnr
  generalize elrun (chainTopo L) proc (linit (chainTopo L)) evs = X at hg ⊢
  cases i with
  | zero => omega
  | succ i =>
    have hlen : i < (stripX X).st.nodes.length := by rw [hg.len]; omega
    have := (good_prefix proc L _ hg i _ (List.getElem?_eq_getElem hlen) hiL).2
    rw [srcCount_strip] at this
    exact this

/-! ### the log is what the observations of `erun` show -/

/-- the sets handed to node `i` along a run with listener events -/
def handedToE (i : Nat) : List EEv → List Obs → List (Int × List HFrame)
  | .base (.nodeRecv j) :: es, .rcvd _ (some k) (some fs) :: os => if j = i then (k, fs) :: handedToE i es os else handedToE i es os
  | _ :: es, _ :: os => handedToE i es os
  | _, _ => []

theorem elrun_st (tp : Topo) (proc : Proc) : ∀ (evs : List EEv) (X : LSt), (elrun tp proc X evs).st = (erun tp proc X.st evs).1 := by
  intro evs
  induction evs with
  | nil => intro X; rfl
  | cons e es ih =>
    intro X
    simp only [elrun, erun]
    rw [ih]
    cases e with
    | base e => rfl
    | ephReq p r => rfl

theorem elrun_log (tp : Topo) (proc : Proc) (i : Nat) : ∀ (evs : List EEv) (X : LSt),
    (elrun tp proc X evs).log i = X.log i ++ (handedToE i evs (erun tp proc X.st evs).2).map contentsOf := by
  intro evs
  induction evs with
  | nil => intro X; simp [elrun, erun, handedToE]
  | cons e es ih =>
    intro X
    simp only [elrun, erun]
    rw [ih]
    cases e with
    | ephReq p r => simp [elstep, estep, handedToE]
    | base e =>
      simp only [elstep, estep, lstep]
      cases e with
      | nodeRecv j =>
        cases hobs : (step tp proc X.st (.nodeRecv j)).2 with
        | rcvd outs id handed =>
          cases id with
          | none => simp [logUpd, handedToE]
          | some k =>
            cases handed with
            | none => simp [logUpd, handedToE]
            | some fs =>
              simp only [logUpd, handedToE]
              by_cases hji : j = i
              · subst hji; simp [contentsOf]
              · have : ¬ i = j := fun e => hji e.symm
                simp [hji, this]
        | noop => simp [logUpd, handedToE]
        | sent outs => simp [logUpd, handedToE]
        | restarted => simp [logUpd, handedToE]
      | nodeSend j t => simp [logUpd, handedToE]
      | restart j g => simp [logUpd, handedToE]

/-- `C05_net_chain_composition_with_listeners` on the observations of the model's own `erun` (what `nete.run` executes) -/
theorem C05_net_chain_composition_with_listeners_run (proc : Proc) (hp : ProcNames proc) (L : Nat) (evs : List EEv)
    (hok : ∀ e ∈ evs, EvOK e) (hnr : ∀ e ∈ evs, isRestartE e = false) (i : Nat) (hi : 1 ≤ i) (hiL : i < L) :
    (handedToE i evs (erun (chainTopo L) proc (init (chainTopo L)) evs).2).map contentsOf <+:
      handedSpec proc i ((((erun (chainTopo L) proc (init (chainTopo L)) evs).1.nodes[0]?).map (·.count)).getD 0) := by
  have := C05_net_chain_composition_with_listeners proc hp L evs hok hnr i hi hiL
  rw [elrun_log] at this
  simp only [linit, List.nil_append] at this
  unfold srcCount at this
  rw [elrun_st] at this
  exact this

/-- a listener-free schedule of `EEv` is a schedule of `Net`: the wrapper adds behaviour, it changes none -/
theorem erun_embed (tp : Topo) (proc : Proc) : ∀ (evs : List Ev) (st : St), erun tp proc st (embed evs) = run tp proc st evs := by
  intro evs
  induction evs with
  | nil => intro st; rfl
  | cons e es ih =>
    intro st
    simp only [embed, List.map_cons, erun, run, estep]
    have := ih (step tp proc st e).1
    simp only [embed] at this
    rw [this]

/-! ### local facts -/

/-- **C05 (arrival)**: a listener request changes nothing but the PULL queue of the addressed publisher: every consumer endpoint,
every client table, every `min_send_id`, every hand-over field, the ghost table stay -/
theorem C05_net_listener_arrival_invisible (tp : Topo) (st : St) (p : Nat) (r : Send.Req) (u : Nat) :
    (ephPush tp st p r).tbl = st.tbl ∧
    ((ephPush tp st p r).nodes[u]?).map (fun nd => (nd.con, nd.sendState, nd.recvState, nd.pending, nd.count, nd.gen,
        nd.pub.clients, nd.pub.minSendId, nd.pub.inCall)) =
      (st.nodes[u]?).map (fun nd => (nd.con, nd.sendState, nd.recvState, nd.pending, nd.count, nd.gen,
        nd.pub.clients, nd.pub.minSendId, nd.pub.inCall)) := by
  refine ⟨rfl, ?_⟩
  simp only [ephPush, List.getElem?_mapIdx]
  cases st.nodes[u]? with
  | none => rfl
  | some nd =>
    simp only [Option.map_some, Option.some.injEq]
    split <;> rfl

/-- **C05 (a `send` that finds listener requests)**: in every state reachable on a restart-free schedule with any listener requests,
for every `MQ.send` of every node `j` that reaches its sender: the call — which drains every queued listener request, whatever its
id — ends in exactly one of the three outcomes of a listener-free call (`SendOutE`): time-out (nothing but at most one HELLO on the
wire, `min_send_id` unchanged, the callable NOT called), the callable returned `None` (≤ one HELLO, `min_send_id` unchanged), or
exactly the block `blockWires j k ts` under the id received `k` (`min_send_id = k + 1`): never a fast-forward, never another id. -/
theorem C05_net_listener_drained (proc : Proc) (L : Nat) (X : LSt) (j : Nat) (t : Int) (nd C : Node) (p : Pending)
    (h : Good proc L (stripX X)) (hn : X.st.nodes[j]? = some nd) (hpend : nd.pending = some p) (hC : X.st.nodes[j + 1]? = some C) :
    ∃ P, SendOutE P j nd.pub (sendId nd) ((dictOf p.res).map (relabel X.st.tbl.length))
      (Send.send0 nd.pub nd.sendState (payloadOf X.st.tbl.length p.res) false [0] t) := by
  rcases h.edge j _ _ (stripX_get X j nd hn) (stripX_get X (j + 1) C hC) with ⟨pub, bsW, s, hpub, hcon⟩
  exact ⟨_, (send_outcome_eph proc X j t nd p pub hpub (h.node j _ (stripX_get X j nd hn)) hpend).1⟩

/-! ### non-vacuity: listener requests (stale, ahead, CLOSE, `new`, OOB) interleaved at two publishers -/

def lreq (cid uid : String) (mid : Int) (new : Bool) : Send.Req := { cid := cid, uid := uid, mid := mid, eph := 1, new := new, body := 0 }

/-- eight rounds of `source → relay → sink` (`cSched` of `C03Net.lean`) with 11 listener requests of two listeners `E1` (at the
source) and `E2` (at the relay, two incarnations): handshake (`new`), ordinary, far AHEAD (id 50), STALE (id 0 when 3 is out), CLOSE,
OOB, HELLO id -/
def ceSched : List EEv :=
  [.ephReq 0 (lreq "E1" "a" (-1) true)] ++ embed (cRound 1100) ++
  [.ephReq 0 (lreq "E1" "a" 50 false), .ephReq 1 (lreq "E2" "b" (-1) true)] ++ embed (cRound 1200) ++
  [.ephReq 1 (lreq "E2" "b" 0 false), .ephReq 0 (lreq "E1" "a" 0 false)] ++ embed (cRound 1300) ++
  [.ephReq 1 (lreq "E2" "b" (-3) false)] ++ embed (cRound 1400) ++
  [.ephReq 0 (lreq "E1" "a" 0 false), .ephReq 1 (lreq "E2" "c" 77 true), .ephReq 1 (lreq "E2" "c" 77 false)] ++ embed (cRound 1500) ++
  [.ephReq 0 (lreq "E1" "a" (-2) false), .ephReq 0 (lreq "E1" "a" (-4) false)] ++ embed (cRound 1600) ++
  embed (cRound 1700) ++ [.ephReq 0 (lreq "E1" "a" (-3) false)] ++ embed (cRound 1800)

theorem ceSched_ok : ∀ e ∈ ceSched, EvOK e := by
  have : ceSched.all evOK = true := by decide +kernel
  intro e he
  have h := List.all_eq_true.mp this e he
  cases e with
  | base e => trivial
  | ephReq p r => exact (isListenerReq_iff r).mp h

theorem ceSched_norestart : ∀ e ∈ ceSched, isRestartE e = false := by
  have : ceSched.all (fun e => !isRestartE e) = true := by decide +kernel
  intro e he
  simpa using List.all_eq_true.mp this e he

/-- 48 base events + 14 listener requests on `source → relay → sink`: the sink has been handed ids 0, 2, 3, 4, 5 (id 1 dropped by the
relay, id 2 the value of the callable) — exactly the composition `handedSpec cProc 2 6`; the SAME schedule without the listener events
(`erase`) hands the sink ids 0, 2, 3, 4: a prefix — the listeners made a publish happen a call earlier, the stream is the same -/
example : (elrun (chainTopo 3) cProc (linit (chainTopo 3)) ceSched).log 2 =
      [(0, [("main", 0)]), (2, [("main", 21)]), (3, [("main", 30)]), (4, [("main", 40)]), (5, [("main", 50)])] ∧
    srcCount (elrun (chainTopo 3) cProc (linit (chainTopo 3)) ceSched) = 6 ∧
    handedSpec cProc 2 6 = [(0, [("main", 0)]), (2, [("main", 21)]), (3, [("main", 30)]), (4, [("main", 40)]), (5, [("main", 50)])] ∧
    (lrun (chainTopo 3) cProc (linit (chainTopo 3)) (erase ceSched)).log 2 =
      [(0, [("main", 0)]), (2, [("main", 21)]), (3, [("main", 30)]), (4, [("main", 40)])] := by
  decide +kernel

/-- the hypotheses of the theorem are satisfiable by this run -/
example : (elrun (chainTopo 3) cProc (linit (chainTopo 3)) ceSched).log 2 <+:
    handedSpec cProc 2 (srcCount (elrun (chainTopo 3) cProc (linit (chainTopo 3)) ceSched)) :=
  C05_net_chain_composition_with_listeners cProc cProc_names 3 ceSched ceSched_ok ceSched_norestart 2 (by omega) (by omega)

end OF.Net.Eph
