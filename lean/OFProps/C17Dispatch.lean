import OFModel.Resize
/-!
# C17 — transforms of a chain are applied in the order given, per topic (`Util.process`)

The size / flip / rotation / box laws of `C17.lean` are about `execute_xforms` on ONE topic's chain.  Which chain a topic gets is
decided in `Util.process`: scoped (`...;main`) and unscoped transforms are interleaved in the configured order.  (A seeded
change that hoisted the unscoped ones in front of the scoped ones broke exactly this.)
-/
namespace OF.Resize

/-- the chain of a topic is in configured order: strictly increasing indices -/
theorem C17_dispatch_in_order (scopes : List (Option (List String))) (t : String) :
    (dispatch scopes t).Pairwise (· < ·) := by
  unfold dispatch
  exact List.Pairwise.filter _ (List.pairwise_lt_range)

/-- exactly the transforms that are unscoped or scoped to the topic -/
theorem C17_dispatch_mem (scopes : List (Option (List String))) (t : String) (i : Nat) :
    i ∈ dispatch scopes t ↔ ∃ sc, scopes[i]? = some sc ∧ appliesTo sc t = true := by
  unfold dispatch
  rw [List.mem_filter, List.mem_range]
  constructor
  · rintro ⟨hi, h⟩
    cases hs : scopes[i]? with
    | none => rw [hs] at h; cases h
    | some sc => rw [hs] at h; exact ⟨sc, rfl, h⟩
  · rintro ⟨sc, hs, h⟩
    have hi : i < scopes.length := by
      rcases List.getElem?_eq_some_iff.mp hs with ⟨hlt, _⟩; exact hlt
    exact ⟨hi, by rw [hs]; exact h⟩

/-- an unscoped transform placed AFTER a scoped one stays after it in that topic's chain -/
example : dispatch [some ["main"], none, some ["other"], none] "main" = [0, 1, 3] ∧
    dispatch [some ["main"], none, some ["other"], none] "other" = [1, 2, 3] := by decide +kernel

end OF.Resize
