import OFProps.NetBalRecv
import OFProps.NetLossyLog
set_option linter.unusedSimpArgs false
/-!
# The requests one `recv(state, timeout=0)` pushes (helper lemmas for `OFProps/C04NetBalReach.lean`)

Receiver level (`ZMQReceiver.recv`, model `OFModel/Zmq/Receiver.lean`), any number of sources, balanced or not, any poll order.
`ReqOK lo o`: if the output `o` of the call is a pushed request, it is the request of a SYNCHRONISED source (`eph = 0`) and carries an id
`≥ lo`.
* `call0_reqOK` — a receiver all of whose sources are synchronised all-topics sources (the shape `Net.NodeInv` guarantees in the networks of
  `Net.lean` / `NetBal.lean`): every request pushed by one `recv(state, timeout=0)` is `ReqOK prev_id` (`request(min_recv_id)` of the
  prefetch and `request(min_recv_id - 1)` of the time-out path, `min_recv_id ≥ prev_id + 1` throughout the call).
-/
namespace OF.Net
open OF.Recv (Src Wire Msg Recvd Topic)

/-- a pushed request is the request of a synchronised source and carries an id `≥ lo` -/
def ReqOK (lo : Int) : Recv.Out → Prop
  | .req _ mid eph _ => eph = 0 ∧ lo ≤ mid
  | _ => True

/-- all sources synchronised; inside a call `min_recv_id` is above `lo` -/
def ReqG (lo : Int) (st : Recv.St) : Prop :=
  (∀ e ∈ ephs st.srcs, e = (0, true, [])) ∧ (st.inCall = true → lo + 1 ≤ st.minRecvId)

theorem eph_of_ephs (srcs : List Src) (h : ∀ e ∈ ephs srcs, e = (0, true, [])) (s : Src) (hs : s ∈ srcs) : s.eph = 0 := by
  have : kindOf s ∈ ephs srcs := List.mem_map.mpr ⟨s, hs, rfl⟩
  have := h _ this
  exact congrArg Prod.fst this

theorem requests_ok (st : Recv.St) (prev lo : Int) (he : ∀ e ∈ ephs st.srcs, e = (0, true, [])) (hlo : lo ≤ prev) :
    ∀ o ∈ Recv.requests st prev, ReqOK lo o := by
  intro o ho
  unfold Recv.requests at ho
  rw [List.mem_filterMap] at ho
  rcases ho with ⟨⟨j, s⟩, hm, hv⟩
  simp only at hv
  split at hv
  · simp only [Option.some.injEq] at hv
    subst hv
    rw [List.mem_mapIdx] at hm
    rcases hm with ⟨i, hi, heq⟩
    have hs : s ∈ st.srcs := by
      have : st.srcs[i] = s := congrArg Prod.snd heq
      rw [← this]; exact List.getElem_mem hi
    exact ⟨eph_of_ephs st.srcs he s hs, hlo⟩
  · cases hv

theorem onTake_outs (st : Recv.St) (i : Nat) : ∀ o ∈ (Recv.onTake st i).2.1, ∀ lo, ReqOK lo o := by
  unfold Recv.onTake
  cases hs : st.srcs[i]? with
  | none => intro o ho; cases ho
  | some s0 =>
    simp only
    cases hq : s0.queue with
    | nil => intro o ho; cases ho
    | cons w q =>
      simp only
      generalize (if (if s0.eph = 0 then w.bal else 0) ≠ 0 then
          { st with balanced := if s0.eph = 0 then w.bal else 0 } else st) = st1
      split
      · unfold Recv.takeSpecial
        split
        · intro o ho lo
          simp only [List.mem_singleton] at ho
          subst ho; trivial
        · split <;> (intro o ho; cases ho)
      · split
        · unfold Recv.takeEph
          split <;> (intro o ho; cases ho)
        · unfold Recv.takeSync
          split
          · intro o ho; cases ho
          · unfold Recv.syncApply
            intro o ho; cases ho

theorem step_reqOK (st : Recv.St) (e : Recv.Ev) (lo : Int) (hc : isCallEv e = true) (hG : ReqG lo st) :
    ReqG lo (Recv.step st e).1 ∧ ∀ o ∈ (Recv.step st e).2, ReqOK lo o := by
  have heph : ∀ x ∈ ephs (Recv.step st e).1.srcs, x = (0, true, []) := by rw [ephs_step]; exact hG.1
  cases e with
  | deliver i w => cases hc
  | «begin» s => cases hc
  | take i =>
    refine ⟨⟨heph, ?_⟩, ?_⟩
    · have hf := takes_run_facts [i] st
      simp only [takes, List.map_cons, List.map_nil] at hf
      rw [rrun_cons, rrun_nil] at hf
      simp only at hf
      intro hin
      rw [hf.2.1] at hin
      have := hG.2 hin
      have := hf.2.2.2.1
      omega
    · unfold Recv.step Recv.stepTake; simp only
      split
      · intro o ho; cases ho
      · split
        · intro o ho; cases ho
        · split
          · intro o ho; exact onTake_outs st i o ho lo
          · intro o ho; cases ho
  | check =>
    unfold Recv.step Recv.stepCheck at heph ⊢
    simp only at heph ⊢
    split
    · rename_i hg
      simp only [hg, ↓reduceIte] at heph
      exact ⟨hG, by intro o ho; cases ho⟩
    · rename_i hg
      simp only [hg, ↓reduceIte] at heph
      have hin : st.inCall = true := by
        cases h : st.inCall with
        | true => rfl
        | false => exact absurd (Or.inr (by rw [h]; exact Bool.false_ne_true)) hg
      split
      · rename_i hrc
        simp only [hrc, ↓reduceIte] at heph
        refine ⟨⟨heph, ?_⟩, ?_⟩
        · intro h
          exfalso
          unfold Recv.finish at h
          simp only at h
          split at h <;> cases h
        · have hpre : ∀ o ∈ (if (!st.lowLat && decide (st.balanced ≠ 1)) = true then Recv.requests st st.minRecvId else []), ReqOK lo o := by
            intro o ho
            split at ho
            · exact requests_ok st st.minRecvId lo hG.1 (by have := hG.2 hin; omega) o ho
            · cases ho
          unfold Recv.finish
          simp only
          split
          · intro o ho
            rcases List.mem_append.mp ho with h1 | h1
            · exact hpre o h1
            · simp only [List.mem_singleton] at h1; subst h1; trivial
          · intro o ho
            rcases List.mem_append.mp ho with h1 | h1
            · exact hpre o h1
            · simp only [List.mem_singleton] at h1; subst h1; trivial
      · exact ⟨hG, by intro o ho; cases ho⟩
  | request =>
    unfold Recv.step Recv.stepRequest
    simp only
    split
    · exact ⟨hG, by intro o ho; cases ho⟩
    · rename_i hg
      have hin : st.inCall = true := by
        cases h : st.inCall with
        | true => rfl
        | false => exact absurd (Or.inr (by rw [h]; exact Bool.false_ne_true)) hg
      exact ⟨hG, requests_ok st (st.minRecvId - 1) lo hG.1 (by have := hG.2 hin; omega)⟩
  | timeout =>
    unfold Recv.step Recv.stepTimeout
    simp only
    split
    · exact ⟨hG, by intro o ho; cases ho⟩
    · refine ⟨⟨hG.1, by intro h; cases h⟩, ?_⟩
      intro o ho
      simp only [List.mem_singleton] at ho; subst ho; trivial

theorem run_reqOK (lo : Int) : ∀ (evs : List Recv.Ev) (st : Recv.St), (∀ e ∈ evs, isCallEv e = true) → ReqG lo st →
    ∀ o ∈ (Recv.run st evs).2, ReqOK lo o := by
  intro evs
  induction evs with
  | nil => intro st _ _ o ho; cases ho
  | cons e es ih =>
    intro st hc hG o ho
    rw [rrun_cons] at ho
    have ⟨h1, h2⟩ := step_reqOK st e lo (hc e (List.mem_cons_self ..)) hG
    rcases List.mem_append.mp ho with h | h
    · exact h2 o h
    · exact ih _ (fun x hx => hc x (List.mem_cons_of_mem _ hx)) h1 o h

/-- **the requests of one `recv(state, timeout=0)`** of a receiver whose sources are all synchronised: synchronised requests with ids
`≥ prev_id` -/
theorem call0_reqOK (c : Recv.St) (state : Option Int) (prio : List Nat) (he : ∀ e ∈ ephs c.srcs, e = (0, true, [])) :
    ∀ o ∈ (Recv.call0 c state prio).2, ReqOK c.prevId o := by
  by_cases hg : c.dead = true ∨ c.inCall = true
  · have e : Recv.call0 c state prio = (c, []) := by unfold Recv.call0; simp only [hg, ↓reduceIte]
    rw [e]; intro o ho; cases ho
  · have hG : ReqG c.prevId (beginSt c state) := by
      refine ⟨he, ?_⟩
      intro _
      show c.prevId + 1 ≤ Recv.beginId c state
      unfold Recv.beginId
      cases state with
      | none => exact Int.le_refl _
      | some k => exact Int.le_max_left _ _
    have hcall : ∀ tk (tl : List Recv.Ev), (∀ e ∈ tl, isCallEv e = true) → ∀ e ∈ takes tk ++ tl, isCallEv e = true := by
      intro tk tl htl e hm
      rcases List.mem_append.mp hm with h | h
      · simp only [takes, List.mem_map] at h
        rcases h with ⟨i, _, rfl⟩
        rfl
      · exact htl e h
    rcases call0_as_run c state prio hg with ⟨tk, ⟨e, _⟩ | e⟩
    · rw [e, rrun_cons, step_begin c state hg]
      intro o ho
      simp only [List.nil_append] at ho
      exact run_reqOK c.prevId _ _ (hcall tk [.check] (by intro x hx; simp only [List.mem_singleton] at hx; subst hx; rfl)) hG o ho
    · rw [e, rrun_cons, step_begin c state hg]
      intro o ho
      simp only [List.nil_append] at ho
      exact run_reqOK c.prevId _ _ (hcall tk [.request, .timeout] (by
        intro x hx
        simp only [List.mem_cons, List.mem_nil_iff, or_false] at hx
        rcases hx with rfl | rfl <;> rfl)) hG o ho

end OF.Net
