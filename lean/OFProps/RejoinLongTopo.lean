import OFProps.RejoinLongInv
set_option linter.unusedSimpArgs false
set_option linter.unusedVariables false
/-!
# RejoinLongTopo — the shape of `rejoinLongTopo b L` (C03 stage C, §11.3j): who subscribes to whom

`parL L x` = the publisher relay `x` (`1 ≤ x ≤ b * L`) subscribes to; `lastL L jj` = the last relay of branch `jj`; `lastsL b L` = the
join's upstream list.  Pure topology lemmas (`rl_*`), used by `RejoinLongNoSkip.lean`.
-/
namespace OF.Net
open OF.Recv (Topic)

/-- the node relay `x ≥ 1` subscribes to: the source for the first relay of a branch, else the relay before it -/
def parL (L x : Nat) : Nat := if (x - 1) % L = 0 then 0 else x - 1

/-- the last relay of branch `jj` -/
def lastL (L jj : Nat) : Nat := (jj + 1) * L

def lastsL (b L : Nat) : List Nat := (List.range b).map (lastL L)

theorem rl_eq (b L : Nat) : rejoinLongTopo b L =
    { ups := [] :: ((List.range (b * L)).map (fun x => if x % L = 0 then [0] else [x]) ++ [lastsL b L]) } := rfl

theorem rl_n (b L : Nat) : (rejoinLongTopo b L).n = b * L + 2 := by simp [rejoinLongTopo, Topo.n]

theorem rl_ups0 (b L : Nat) : (rejoinLongTopo b L).upsOf 0 = [] := by simp [rejoinLongTopo, Topo.upsOf]

theorem rl_upsRelay (b L j : Nat) (h1 : 1 ≤ j) (h2 : j ≤ b * L) : (rejoinLongTopo b L).upsOf j = [parL L j] := by
  cases j with
  | zero => omega
  | succ n =>
    simp only [rejoinLongTopo, Topo.upsOf, List.getElem?_cons_succ]
    rw [List.getElem?_append_left (by simp; omega)]
    have hn : n < b * L := by omega
    simp only [List.getElem?_map, List.getElem?_range hn, Option.map_some, Option.getD_some, parL, Nat.add_sub_cancel]
    split <;> rfl

theorem rl_upsJ (b L : Nat) : (rejoinLongTopo b L).upsOf (b * L + 1) = lastsL b L := by
  simp only [rejoinLongTopo, Topo.upsOf, List.getElem?_cons_succ]
  rw [List.getElem?_append_right (by simp)]
  simp [lastsL, lastL]

theorem rl_upsGe (b L u : Nat) (h : b * L + 2 ≤ u) : (rejoinLongTopo b L).upsOf u = [] := by
  have : (rejoinLongTopo b L).ups[u]? = none := by
    rw [List.getElem?_eq_none_iff]; simp [rejoinLongTopo]; omega
  simp [Topo.upsOf, this]

theorem parL_lt (L x : Nat) (h : 1 ≤ x) : parL L x < x := by
  unfold parL; split <;> omega

theorem lastL_le (b L jj : Nat) (h : jj < b) : lastL L jj ≤ b * L := by
  unfold lastL
  exact Nat.mul_le_mul_right L (by omega)

theorem lastL_pos (L jj : Nat) (hL : 1 ≤ L) : 1 ≤ lastL L jj := by
  unfold lastL
  have := Nat.mul_le_mul_right L (show 1 ≤ jj + 1 by omega)
  omega

theorem lastL_inj (L jj kk : Nat) (hL : 1 ≤ L) (h : lastL L jj = lastL L kk) : jj = kk := by
  unfold lastL at h
  have := Nat.eq_of_mul_eq_mul_right (by omega : 0 < L) h
  omega

theorem lastsL_some (b L k x : Nat) (h : (lastsL b L)[k]? = some x) : k < b ∧ x = lastL L k := by
  unfold lastsL at h
  rw [List.getElem?_map] at h
  cases hr : (List.range b)[k]? with
  | none => rw [hr] at h; cases h
  | some v =>
    rw [hr] at h
    have := List.getElem?_eq_some_iff.mp hr
    rcases this with ⟨hl, he⟩
    simp only [List.getElem_range] at he
    simp only [List.length_range] at hl
    simp only [Option.map_some, Option.some.injEq] at h
    subst he
    exact ⟨hl, h.symm⟩

theorem lastsL_get (b L jj : Nat) (h : jj < b) : (lastsL b L)[jj]? = some (lastL L jj) := by
  unfold lastsL
  rw [List.getElem?_map, List.getElem?_range h]; rfl

theorem lastsL_length (b L : Nat) : (lastsL b L).length = b := by simp [lastsL]

/-- a relay whose number is a multiple of `L` is the last relay of its branch -/
theorem last_of_mod (b L j : Nat) (hL : 1 ≤ L) (h1 : 1 ≤ j) (h2 : j ≤ b * L) (hm : j % L = 0) : ∃ jj, jj < b ∧ j = lastL L jj := by
  have hd : j = j / L * L := by
    have := Nat.div_add_mod j L
    rw [hm, Nat.add_zero, Nat.mul_comm] at this
    exact this.symm
  have hq1 : 1 ≤ j / L := by
    cases hq : j / L with
    | zero => rw [hq] at hd; omega
    | succ q => omega
  have hqb : j / L ≤ b := by
    apply Nat.div_le_of_le_mul
    rw [Nat.mul_comm]; exact h2
  refine ⟨j / L - 1, by omega, ?_⟩
  unfold lastL
  rw [show j / L - 1 + 1 = j / L by omega]
  exact hd

theorem lastL_mod (L jj : Nat) : lastL L jj % L = 0 := by
  unfold lastL; exact Nat.mul_mod_left _ _

/-- the relay after `j` (when `j` is not the last of its branch) subscribes to `j` -/
theorem parL_succ (L j : Nat) (h1 : 1 ≤ j) (hm : j % L ≠ 0) : parL L (j + 1) = j := by
  unfold parL
  simp only [Nat.add_sub_cancel, hm, ↓reduceIte]

/-- who subscribes to relay `j`: only `j + 1`, and only when `j` is not a multiple of `L` -/
theorem parL_eq (L x j : Nat) (hx : 1 ≤ x) (hj : 1 ≤ j) (h : parL L x = j) : x = j + 1 ∧ j % L ≠ 0 := by
  unfold parL at h
  split at h
  · omega
  · rename_i hm
    have : x - 1 = j := h
    refine ⟨by omega, ?_⟩
    rw [← this]; exact hm

theorem rl_noself (b L j : Nat) (hL : 1 ≤ L) (k : Nat) : ((rejoinLongTopo b L).upsOf j)[k]? ≠ some j := by
  by_cases h0 : j = 0
  · subst h0; rw [rl_ups0]; simp
  · by_cases h1 : j ≤ b * L
    · rw [rl_upsRelay b L j (by omega) h1]
      have := parL_lt L j (by omega)
      cases k with
      | zero => simp; omega
      | succ k => simp
    · by_cases h2 : j = b * L + 1
      · subst h2
        rw [rl_upsJ]
        intro hc
        have ⟨hk, he⟩ := lastsL_some b L k _ hc
        have := lastL_le b L k hk
        omega
      · rw [rl_upsGe b L j (by omega)]; simp

theorem rl_hasOut (b L j : Nat) (hb : 1 ≤ b) (hL : 1 ≤ L) : (rejoinLongTopo b L).hasOut j = decide (j ≤ b * L) := by
  have hbL : 1 ≤ b * L := by
    have := Nat.mul_le_mul hb hL
    omega
  by_cases hj : j ≤ b * L
  · simp only [hj, decide_true]
    unfold Topo.hasOut
    rw [List.any_eq_true]
    by_cases hj0 : j = 0
    · subst hj0
      refine ⟨[0], ?_, by simp⟩
      rw [rl_eq]
      apply List.mem_cons_of_mem
      rw [List.mem_append]; left
      rw [List.mem_map]
      exact ⟨0, by rw [List.mem_range]; omega, by simp⟩
    · by_cases hm : j % L = 0
      · rcases last_of_mod b L j hL (by omega) hj hm with ⟨jj, hjj, e⟩
        refine ⟨lastsL b L, ?_, ?_⟩
        · rw [rl_eq]
          apply List.mem_cons_of_mem
          rw [List.mem_append]; right; simp
        · rw [List.contains_iff_mem, e]
          exact List.mem_of_getElem? (lastsL_get b L jj hjj)
      · have hlt : j < b * L := by
          rcases Nat.lt_or_ge j (b * L) with h | h
          · exact h
          · have : j = b * L := by omega
            rw [this, Nat.mul_mod_left] at hm
            exact absurd rfl hm
        refine ⟨[j], ?_, by simp⟩
        rw [rl_eq]
        apply List.mem_cons_of_mem
        rw [List.mem_append]; left
        rw [List.mem_map]
        exact ⟨j, by rw [List.mem_range]; exact hlt, by simp [hm]⟩
  · simp only [hj, decide_false]
    rw [Bool.eq_false_iff]
    intro hc
    unfold Topo.hasOut at hc
    rw [List.any_eq_true] at hc
    rcases hc with ⟨l, hl, hcl⟩
    rw [List.contains_iff_mem] at hcl
    rw [rl_eq] at hl
    simp only [List.mem_cons, List.mem_append, List.mem_map, List.mem_range, List.mem_nil_iff, or_false] at hl
    rcases hl with rfl | ⟨x, hx, rfl⟩ | rfl
    · cases hcl
    · split at hcl
      · simp only [List.mem_singleton] at hcl; omega
      · simp only [List.mem_singleton] at hcl; omega
    · rcases List.getElem?_of_mem hcl with ⟨k, hk⟩
      have ⟨hkb, e⟩ := lastsL_some b L k j hk
      have := lastL_le b L k hkb
      omega

end OF.Net
