import OFModel.Zmq.NetEph
import OFProps.C05NetHasten
set_option linter.unusedSimpArgs false
/-!
# The side conditions of `C05_net_listeners_only_hasten` hold in every state of a restart-free chain run (helper invariant `SyncQ`)

Per edge `i → i+1` of a chain (publisher `P`, consumer `C` with its one source `s`):
* every queued NON-LISTENER request at `P` is a request of THIS connection of `C` (`cid`, `uid`), carries an ordinary id (`-1 ≤ mid`:
  `prev_id` or the id just returned), and says `new` exactly if `C` has not heard from `P` yet (`new = !s.conn`);
* while `C` has not heard from `P` (`s.conn = false`) it is not in `P`'s client table;
* while `C` has not heard from `P` but a message is already waiting in its SUB queue, no request of `C` is queued at `P` (a `send` drains
  the whole PULL queue before it puts anything on the wire).
Hence (`syncQ_ord`, `syncQ_hs`): the queued synchronised requests are ordinary and satisfy the handshake condition `HS`.
-/
namespace OF.Net.Eph
open OF OF.Send OF.Net
open OF.Pair (PubIdle PubBusy popped entryOf needsHello)
open OF.Chain (Blk ChanQ BlkOK Rest visData vis)
open OF.Recv (Src Wire)

/-! ## sender: shape of the state after one call -/

theorem sendMaybe_cases (st : Send.St) (P : Send.St → Prop)
    (h1 : P { st with doHello := false, payload := (Send.gate st).2.1 })
    (h2 : P (Send.publish { st with doHello := false, payload := (Send.gate st).2.1 } (Send.payloadTopics (Send.gate st).2.1)).1) :
    P (Send.sendMaybe st).1 := by
  unfold Send.sendMaybe
  simp only
  split
  · exact h1
  · exact h2

theorem publish_keys (st : Send.St) (ts : List (String × Nat)) :
    (Send.publish st ts).1.clients.map (·.1) = st.clients.map (·.1) ∧ (Send.publish st ts).1.queues = st.queues ∧
    (Send.publish st ts).1.inCall = st.inCall := by
  unfold Send.publish
  refine ⟨?_, rfl, rfl⟩
  simp only
  rw [List.map_map]
  apply List.map_congr_left
  intro x _
  simp only [Function.comp]
  split <;> rfl

theorem sendMaybe_keys (st : Send.St) :
    (Send.sendMaybe st).1.clients.map (·.1) = st.clients.map (·.1) ∧ (Send.sendMaybe st).1.queues = st.queues ∧
    (Send.sendMaybe st).1.inCall = st.inCall :=
  sendMaybe_cases st (fun s => s.clients.map (·.1) = st.clients.map (·.1) ∧ s.queues = st.queues ∧ s.inCall = st.inCall)
    ⟨rfl, rfl, rfl⟩ (publish_keys _ _)

/-- after one whole `send(callable, state, 0)` (no fast-forward possible): the PULL queue is empty and the keys of the client table are
those the drain left -/
theorem send0_shape (p : Send.St) (q : List Req) (state : Option (Int × Nat)) (r : Option (List (String × Nat))) (t : Int)
    (h : PubIdle p q) (hs : state = none ∨ ∃ k', state = some (k', 0)) (hk : p.minSendId ≤ callId p state)
    (hq : ∀ x ∈ q, ReqNoFf (callId p state) x) :
    (Send.send0 p state (.deferred r) false [0] t).1.queues = [[]] ∧
    (Send.send0 p state (.deferred r) false [0] t).1.clients.map (·.1) =
      (q.foldl (hstepE t) (p.clients, false, false)).1.map (·.1) := by
  have hk0 : 0 ≤ callId p state := Int.le_trans h.minpos hk
  have hbeg : Send.step p (.begin state (.deferred r) false) =
      (Send.beginWith p (callId p state) 0 (.deferred r) false, []) := by
    unfold Send.step Send.stepBegin
    simp only [h.inCall, Bool.false_eq_true, ↓reduceIte]
    rcases hs with rfl | ⟨k', rfl⟩
    · rfl
    · simp only [callId] at hk ⊢
      have : ¬ k' < p.minSendId := by omega
      simp only [this, ↓reduceIte]
  have hbusy : PubBusy (Send.beginWith p (callId p state) 0 (.deferred r) false) q :=
    ⟨h.queues, h.balance, h.required, rfl, rfl, h.minpos, hk0⟩
  have htq : Send.totalQueued (Send.beginWith p (callId p state) 0 (.deferred r) false) = q.length := by
    simp [Send.totalQueued, Send.beginWith, h.queues]
  have D := drain_foldE q _ t hbusy (fun x hx => hq x hx)
  unfold Send.send0
  rw [hbeg]
  simp only [hbusy.inCall, not_true_eq_false, ↓reduceIte, List.nil_append, htq]
  generalize Send.drain (q.length + 1) (Send.beginWith p (callId p state) 0 (.deferred r) false) [0] t = d at D
  have F : ((d.1.clients, d.1.doSend, d.1.doHello) : DAcc) = q.foldl (hstepE t) (p.clients, false, false) := D.2.2.2.2.2
  have Fc : d.1.clients = (q.foldl (hstepE t) (p.clients, false, false)).1 := congrArg (·.1) F
  have ⟨k1, k2, k3⟩ := sendMaybe_keys d.1
  simp only [D.1.inCall, not_true_eq_false, ↓reduceIte]
  simp only [Send.step, Send.stepTrySend, D.1.inCall, not_true_eq_false, ↓reduceIte]
  by_cases hsm : (Send.sendMaybe d.1).2.2 = true
  · simp only [hsm, ↓reduceIte, Send.endCall, Bool.false_eq_true, not_false_eq_true]
    exact ⟨by rw [k2]; exact D.1.queues, by rw [k1, Fc]⟩
  · have hin : (Send.sendMaybe d.1).1.inCall = true := by rw [k3]; exact D.1.inCall
    simp only [hsm, Bool.false_eq_true, ↓reduceIte, hin, not_true_eq_false, Send.stepTimeout]
    exact ⟨by rw [k2]; exact D.1.queues, by rw [k1, Fc]⟩

/-- a key that no request of the queue can register stays out of the table -/
theorem fold_absent (t : Int) (F : String) : ∀ (q : List Req) (s : DAcc), (∀ x ∈ s.1, x.1 ≠ F) →
    (∀ r ∈ q, Pair.fidOf r = F → r.new = true) → ∀ x ∈ (q.foldl (hstepE t) s).1, x.1 ≠ F := by
  intro q
  induction q with
  | nil => intro s h _; exact h
  | cons r q' ih =>
    intro s h hq
    rw [List.foldl_cons]
    refine ih _ ?_ (fun x hx => hq x (List.mem_cons_of_mem _ hx))
    intro x hx
    by_cases hf : Pair.fidOf r = F
    · have hn := hq r (List.mem_cons_self ..) hf
      unfold hstepE at hx
      split at hx
      · split at hx
        · exact h x ((mem_cdel _ _ _).mp hx).1
        · exact h x hx
      · have hnr : normalReq s.1 r = false := by
          unfold normalReq
          rw [hn]
          simp only [Bool.not_true, Bool.or_false]
          rw [List.any_eq_false]
          intro z hz
          have := h z hz
          rw [hf]; simpa using this
        rw [hstep_newconn t s r hnr] at hx
        exact h x hx
    · rcases hstepE_mem t s r x hx with h1 | ⟨h1, _⟩
      · exact h x h1
      · rw [h1]; exact hf

/-! ## the per-edge invariant -/

structure EdgeQ (i : Nat) (P C : Node) (s : Src) : Prop where
  reqs : ∀ q ∈ P.pub.queues, ∀ r ∈ q, keepReq r = true →
    r.cid = cidOf (i + 1) ∧ r.uid = uidOf C.gen 0 ∧ -1 ≤ r.mid ∧ r.new = !s.conn
  absent : s.conn = false → ∀ x ∈ P.pub.clients, x.1 ≠ cidOf (i + 1) ++ uidOf C.gen 0
  inflight : s.conn = false → s.queue ≠ [] → ∀ q ∈ P.pub.queues, ∀ r ∈ q, keepReq r = false

def SyncQ (st : St) : Prop :=
  ∀ (i : Nat) (P C : Node) (s : Src), st.nodes[i]? = some P → st.nodes[i + 1]? = some C → C.con.srcs = [s] → EdgeQ i P C s

theorem edgeQ_frame (i : Nat) (P P' C C' : Node) (s : Src) (h : EdgeQ i P C s) (hp : P'.pub = P.pub) (hg : C'.gen = C.gen) :
    EdgeQ i P' C' s :=
  ⟨by rw [hp, hg]; exact h.reqs, by rw [hp, hg]; exact h.absent, by rw [hp]; exact h.inflight⟩

theorem edgeQ_push_listener (i : Nat) (P C : Node) (s : Src) (r : Req) (h : EdgeQ i P C s) (hl : IsListenerReq r) :
    EdgeQ i { P with pub := pushReqs P.pub [r] } C s := by
  have hk : keepReq r = false := by unfold keepReq; rw [(isListenerReq_iff r).mpr hl]; rfl
  refine ⟨?_, h.absent, ?_⟩
  · intro q hq x hx hkx
    rcases pushReqs_mem P.pub [r] q hq with ⟨q0, hq0, rfl⟩
    rw [List.mem_append] at hx
    rcases hx with hx | hx
    · exact h.reqs q0 hq0 x hx hkx
    · simp only [List.mem_singleton] at hx; subst hx; rw [hk] at hkx; cases hkx
  · intro h1 h2 q hq x hx
    rcases pushReqs_mem P.pub [r] q hq with ⟨q0, hq0, rfl⟩
    rw [List.mem_append] at hx
    rcases hx with hx | hx
    · exact h.inflight h1 h2 q0 hq0 x hx
    · simp only [List.mem_singleton] at hx; subst hx; exact hk

theorem syncQ_init (tp : Topo) : SyncQ (init tp) := by
  intro i P C s hP _ _
  have hfresh : ∃ v, P = freshNode tp v 0 := by
    simp only [init, List.getElem?_map] at hP
    cases hr : (List.range tp.n)[i]? with
    | none => rw [hr] at hP; cases hP
    | some v => rw [hr] at hP; simp only [Option.map_some, Option.some.injEq] at hP; exact ⟨v, hP.symm⟩
  rcases hfresh with ⟨v, rfl⟩
  refine ⟨?_, ?_, ?_⟩
  · intro q hq r hr
    simp [freshNode, Send.mkSt] at hq
    subst hq; cases hr
  · intro _ x hx; simp [freshNode, Send.mkSt] at hx
  · intro _ _ q hq r hr
    simp [freshNode, Send.mkSt] at hq
    subst hq; cases hr

theorem ephPush_get (tp : Topo) (st : St) (p : Nat) (r : Req) (u : Nat) :
    (ephPush tp st p r).nodes[u]? =
      (st.nodes[u]?).map fun nd => if u = p ∧ tp.hasOut p = true then { nd with pub := pushReqs nd.pub [r] } else nd := by
  simp only [ephPush, List.getElem?_mapIdx]

theorem syncQ_ephPush (tp : Topo) (st : St) (p : Nat) (r : Req) (h : SyncQ st) (hl : IsListenerReq r) : SyncQ (ephPush tp st p r) := by
  intro i P' C' s hP' hC' hs
  rw [ephPush_get] at hP' hC'
  cases hP : st.nodes[i]? with
  | none => rw [hP] at hP'; cases hP'
  | some P =>
    cases hC : st.nodes[i + 1]? with
    | none => rw [hC] at hC'; cases hC'
    | some C =>
      rw [hP] at hP'; rw [hC] at hC'
      simp only [Option.map_some, Option.some.injEq] at hP' hC'
      have hCc : C'.con = C.con ∧ C'.gen = C.gen := by
        rw [← hC']; split <;> exact ⟨rfl, rfl⟩
      have hbase := h i P C s hP hC (by rw [← hCc.1]; exact hs)
      rw [← hP']
      split
      · exact edgeQ_frame i _ _ C C' s (edgeQ_push_listener i P C s r hbase hl) rfl hCc.2
      · exact edgeQ_frame i P P C C' s hbase rfl hCc.2

/-- what the chain invariant says about the call of publisher `j` -/
theorem pub_call_facts (proc : Proc) (L : Nat) (X : LSt) (j : Nat) (nd C : Node) (p : Pending)
    (h : Good proc L (stripX X)) (hn : X.st.nodes[j]? = some nd) (hpend : nd.pending = some p)
    (hC : X.st.nodes[j + 1]? = some C) (hok : PubOK nd.pub) :
    ∃ q, nd.pub.queues = [q] ∧ PubIdle nd.pub q ∧ (nd.sendState = none ∨ ∃ k', nd.sendState = some (k', 0)) ∧
      nd.pub.minSendId ≤ callId nd.pub nd.sendState ∧ (∀ r ∈ q, ReqNoFf (callId nd.pub nd.sendState) r) ∧
      ∃ s, C.con.srcs = [s] := by
  have hnS := stripX_get X j nd hn
  have hCS := stripX_get X (j + 1) C hC
  rcases h.edge j _ _ hnS hCS with ⟨pub, bsW, s, hpub, hcon⟩
  have hG := h.node j _ hnS
  have hpis : (stripNode nd).pending.isSome = true := by show nd.pending.isSome = true; rw [hpend]; rfl
  have hs : nd.sendState = none ∨ ∃ k', nd.sendState = some (k', 0) := by
    by_cases hj0 : j = 0
    · left; exact (hG.src hj0).2
    · right; exact ⟨_, (hG.relay (by omega) hpis).1⟩
  have hlast : lastId pub < sendId nd := by
    rcases lastId_mem_or pub with e | ⟨b, hb, e⟩
    · have := (send_outcome_eph proc X j 0 nd p pub hpub hG hpend).2; omega
    · rw [e]; exact hpub.strict hpis b hb
  have hnq : nd.pub.queues.length = 1 := by
    have := hpub.nq
    simpa [stripNode, stripPub] using this
  have hq1 : ∃ q, nd.pub.queues = [q] := by
    cases hqq : nd.pub.queues with
    | nil => rw [hqq] at hnq; cases hnq
    | cons a b =>
      cases b with
      | nil => exact ⟨a, rfl⟩
      | cons c e => rw [hqq] at hnq; simp at hnq
  rcases hq1 with ⟨q, hq⟩
  have hqmem : q ∈ nd.pub.queues := by rw [hq]; exact List.mem_singleton.mpr rfl
  have hmin : nd.pub.minSendId = lastId pub + 1 := hpub.minSend
  have hreqs := strip_reqs nd.pub (fun r => r.mid ≤ lastId pub) hpub.reqs q hqmem
  refine ⟨q, hq, ⟨hq, hpub.bal, hok.required, hpub.idle, by rw [hmin]; have := lastId_ge_neg1 pub hpub.inc; omega⟩, hs,
    by rw [callId_sendId, hmin]; omega, ?_, s, hcon.rest.idle.srcs⟩
  intro r hr
  rw [callId_sendId]
  by_cases hk : keepReq r = true
  · left; have := hreqs r hr hk; omega
  · right; exact not_keep_eph r hk

/-! ## `nodeSend` -/

theorem set_get (nodes : List Node) (j : Nat) (nd' : Node) (hj : j < nodes.length) (u : Nat) :
    (nodes.set j nd')[u]? = if u = j then some nd' else nodes[u]? := by
  rw [List.getElem?_set]
  by_cases hu : j = u
  · subst hu; simp [hj]
  · have : ¬ u = j := fun e => hu e.symm
    simp [hu, this]

/-- a step that changes node `j` only, and there neither the sender, nor the receiver, nor the incarnation -/
theorem syncQ_set (st : St) (j : Nat) (nd nd' : Node) (h : SyncQ st) (hn : st.nodes[j]? = some nd)
    (hp : nd'.pub = nd.pub) (hc : nd'.con = nd.con) (hg : nd'.gen = nd.gen) : SyncQ { st with nodes := st.nodes.set j nd' } := by
  have hj : j < st.nodes.length := (List.getElem?_eq_some_iff.mp hn).1
  intro i P' C' s hP' hC' hs
  simp only at hP' hC'
  rw [set_get _ _ _ hj] at hP' hC'
  by_cases hi : i = j
  · subst hi
    have hne : ¬ i + 1 = i := by omega
    simp only [↓reduceIte, Option.some.injEq, hne] at hP' hC'
    subst hP'
    exact edgeQ_frame i nd _ C' C' s (h i nd C' s hn hC' hs) hp rfl
  · simp only [hi, ↓reduceIte] at hP'
    by_cases hi1 : i + 1 = j
    · simp only [hi1, ↓reduceIte, Option.some.injEq] at hC'
      subst hC'
      exact edgeQ_frame i P' P' nd _ s (h i P' nd s hP' (by rw [hi1]; exact hn) (by rw [← hc]; exact hs)) rfl hg
    · simp only [hi1, ↓reduceIte] at hC'
      exact h i P' C' s hP' hC' hs

theorem afterSend_fields (nd : Node) (p : Pending) (r : Send.St × List Send.Out) :
    (afterSend nd p r).pub = r.1 ∧ (afterSend nd p r).con = nd.con ∧ (afterSend nd p r).gen = nd.gen := by
  unfold afterSend
  split <;> exact ⟨rfl, rfl, rfl⟩

theorem syncQ_sendReal (proc : Proc) (L : Nat) (X : LSt) (j : Nat) (t : Int) (nd C : Node) (p : Pending)
    (hg : Good proc L (stripX X)) (hpo : AllPubOK X.st) (h : SyncQ X.st) (hn : X.st.nodes[j]? = some nd)
    (hpend : nd.pending = some p) (hC : X.st.nodes[j + 1]? = some C) :
    SyncQ (sendReal (chainTopo L) X.st j nd p t).1 := by
  have hlenX : X.st.nodes.length = L := by
    have := hg.len
    simpa [stripX, stripSt] using this
  have hjL : j < L := by rw [← hlenX]; exact (List.getElem?_eq_some_iff.mp hn).1
  have hok := (hpo j nd hn).2
  rcases pub_call_facts proc L X j nd C p hg hn hpend hC hok with ⟨q, hq, hidle, hs, hk, hnoff, s, hsrc⟩
  have hqmem : q ∈ nd.pub.queues := by rw [hq]; exact List.mem_singleton.mpr rfl
  have hpay : payloadOf X.st.tbl.length p.res = .deferred ((dictOf p.res).map (relabel X.st.tbl.length)) := rfl
  have hshape := send0_shape nd.pub q nd.sendState ((dictOf p.res).map (relabel X.st.tbl.length)) t hidle hs hk hnoff
  have hE := h j nd C s hn hC hsrc
  unfold sendReal
  simp only [hpay]
  generalize Send.send0 nd.pub nd.sendState (.deferred ((dictOf p.res).map (relabel X.st.tbl.length))) false [0] t = r at hshape
  have hlook := send_lookup L X.st.nodes j (afterSend nd p r) C (r.2.filterMap (wireOf j)) hlenX hjL hC
  have ⟨a1, a2, a3⟩ := afterSend_fields nd p r
  intro i P' C' s' hP' hC' hs'
  simp only at hP' hC'
  rw [hlook] at hP' hC'
  by_cases hi : i = j
  · -- the edge below the acting publisher
    subst hi
    have hne : ¬ i = i + 1 := by omega
    simp only [hne, ↓reduceIte, Option.some.injEq] at hP' hC'
    subst hP' hC'
    have hs1 : s' = { s with queue := s.queue ++ r.2.filterMap (wireOf i) } := by
      have := pushWires_single C.con s i (r.2.filterMap (wireOf i)) hsrc
      simp only at hs'
      rw [this] at hs'
      simp only [List.cons.injEq, and_true] at hs'
      exact hs'.symm
    subst hs1
    refine ⟨?_, ?_, ?_⟩
    · intro q' hq' x hx
      rw [a1, hshape.1] at hq'
      simp only [List.mem_singleton] at hq'
      subst hq'; cases hx
    · intro hconn x hx
      have hconn' : s.conn = false := hconn
      rw [a1] at hx
      have hxk : x.1 ∈ (r.1.clients.map (·.1)) := List.mem_map_of_mem hx
      rw [hshape.2, List.mem_map] at hxk
      rcases hxk with ⟨y, hy, hyk⟩
      rw [← hyk]
      refine fold_absent t _ q (nd.pub.clients, false, false) (hE.absent hconn') ?_ y hy
      intro x' hx' hf
      by_cases hkx : keepReq x' = true
      · have := (hE.reqs q hqmem x' hx' hkx).2.2.2
        rw [this, hconn']; rfl
      · exfalso
        have hl : isListenerReq x' = true := by unfold keepReq at hkx; simpa using hkx
        have hk1 := listener_key x' ((isListenerReq_iff x').mp hl).2
        rw [hf, node_key] at hk1
        cases hk1
    · intro _ _ q' hq' x hx
      rw [a1, hshape.1] at hq'
      simp only [List.mem_singleton] at hq'
      subst hq'; cases hx
  · by_cases hi1 : i = j + 1
    · -- the consumer of the acting node as publisher: only its SUB queue changed
      subst hi1
      have hne1 : ¬ j + 1 + 1 = j + 1 := by omega
      have hne2 : ¬ j + 1 + 1 = j := by omega
      simp only [↓reduceIte, Option.some.injEq, hne1, hne2] at hP' hC'
      subst hP'
      exact edgeQ_frame (j + 1) C _ C' C' s' (h (j + 1) C C' s' hC hC' hs') rfl rfl
    · simp only [hi, hi1, ↓reduceIte] at hP'
      by_cases hi2 : i + 1 = j
      · -- the acting node as consumer
        have hne : ¬ i + 1 = j + 1 := by omega
        have hne' : ¬ j = j + 1 := by omega
        simp only [hne, hi2, hne', ↓reduceIte, Option.some.injEq] at hC'
        subst hC'
        exact edgeQ_frame i P' P' nd _ s' (h i P' nd s' hP' (by rw [hi2]; exact hn) (by rw [← a2]; exact hs')) rfl a3
      · have hne : ¬ i + 1 = j + 1 := by omega
        simp only [hne, hi2, ↓reduceIte] at hC'
        exact h i P' C' s' hP' hC' hs'

/-! ## `nodeRecv` -/

/-- re-assembly after the consumer `i+1` made one `recv`: its receiver changed, ONE request `rq` of its connection reached publisher `i` -/
theorem syncQ_recv_gen (st : St) (i : Nat) (P nd nd' : Node) (s s1 : Src) (rq : Req) (nodes' : List Node) (h : SyncQ st)
    (hP : st.nodes[i]? = some P) (hn : st.nodes[i + 1]? = some nd) (hs : nd.con.srcs = [s]) (hs1 : nd'.con.srcs = [s1])
    (hpub : nd'.pub = nd.pub) (hgen : nd'.gen = nd.gen)
    (hrq : rq.cid = cidOf (i + 1) ∧ rq.uid = uidOf nd.gen 0 ∧ -1 ≤ rq.mid ∧ rq.new = !s1.conn)
    (hc1 : s.conn = true → s1.conn = true) (hc2 : s.conn = false → s1.conn = true → s.queue ≠ [])
    (hq1 : s1.conn = false → s1.queue = [])
    (hlook : ∀ (u : Nat), nodes'[u]? = if u = i then some { P with pub := pushReqs P.pub [rq] }
        else if u = i + 1 then some nd' else st.nodes[u]?) :
    SyncQ { st with nodes := nodes' } := by
  have hE := h i P nd s hP hn hs
  intro e P' C' s' hP' hC' hs'
  simp only at hP' hC'
  rw [hlook] at hP' hC'
  by_cases he : e = i
  · subst he
    have hne : ¬ e + 1 = e := by omega
    simp only [↓reduceIte, Option.some.injEq, hne] at hP' hC'
    subst hP' hC'
    have hss : s' = s1 := by rw [hs1] at hs'; simpa using hs'.symm
    subst hss
    refine ⟨?_, ?_, ?_⟩
    · intro q hq x hx hkx
      rcases pushReqs_mem P.pub [rq] q hq with ⟨q0, hq0, rfl⟩
      rw [List.mem_append] at hx
      rcases hx with hx | hx
      · have ⟨o1, o2, o3, o4⟩ := hE.reqs q0 hq0 x hx hkx
        refine ⟨o1, by rw [hgen]; exact o2, o3, ?_⟩
        rw [o4]
        cases hsc : s.conn with
        | true => rw [hc1 hsc]
        | false =>
          cases hs1c : s'.conn with
          | false => rfl
          | true =>
            exfalso
            have := hE.inflight hsc (hc2 hsc hs1c) q0 hq0 x hx
            rw [this] at hkx; cases hkx
      · simp only [List.mem_singleton] at hx; subst hx
        exact ⟨hrq.1, by rw [hgen]; exact hrq.2.1, hrq.2.2.1, hrq.2.2.2⟩
    · intro hconn x hx
      have hsc : s.conn = false := by
        cases hx' : s.conn with
        | false => rfl
        | true => rw [hc1 hx'] at hconn; cases hconn
      rw [hgen]
      exact hE.absent hsc x hx
    · intro hconn hne'
      exact absurd (hq1 hconn) hne'
  · simp only [he, ↓reduceIte] at hP'
    by_cases he1 : e = i + 1
    · subst he1
      have hne1 : ¬ i + 1 + 1 = i := by omega
      have hne2 : ¬ i + 1 + 1 = i + 1 := by omega
      simp only [↓reduceIte, Option.some.injEq, hne1, hne2] at hP' hC'
      subst hP'
      exact edgeQ_frame (i + 1) nd _ C' C' s' (h (i + 1) nd C' s' hn hC' hs') hpub rfl
    · simp only [he1, ↓reduceIte] at hP'
      by_cases he2 : e + 1 = i
      · simp only [he2, ↓reduceIte, Option.some.injEq] at hC'
        subst hC'
        exact edgeQ_frame e P' P' P _ s' (h e P' P s' hP' (by rw [he2]; exact hP) hs') rfl rfl
      · have hne : ¬ e + 1 = i + 1 := by omega
        simp only [he2, hne, ↓reduceIte] at hC'
        exact h e P' C' s' hP' hC' hs'

theorem syncQ_recvRelay (proc : Proc) (L : Nat) (X : LSt) (i : Nat) (P nd : Node) (hg : Good proc L (stripX X)) (h : SyncQ X.st)
    (hP : X.st.nodes[i]? = some P) (hn : X.st.nodes[i + 1]? = some nd) :
    SyncQ (recvRelay (chainTopo L) proc X.st (i + 1) nd).1 := by
  have hlenX : X.st.nodes.length = L := by
    have := hg.len
    simpa [stripX, stripSt] using this
  have hjL : i + 1 < L := by rw [← hlenX]; exact (List.getElem?_eq_some_iff.mp hn).1
  rcases hg.edge i _ _ (stripX_get X i P hP) (stripX_get X (i + 1) nd hn) with ⟨pub, bsW, s, hpub, hcon⟩
  have hrest : Rest nd.con s := hcon.rest
  have hchan : ChanQ i nd.con.prevId s.queue bsW := hcon.chan
  have hsrcs : nd.con.srcs = [s] := hrest.idle.srcs
  have hprio : List.range nd.con.srcs.length = [0] := by rw [hsrcs]; rfl
  have hst : ∀ k, nd.recvState = some k → k ≤ nd.con.prevId + 1 := (hg.node (i + 1) _ (stripX_get X (i + 1) nd hn)).recvSt (by omega)
  have hprev : -1 ≤ nd.con.prevId := hrest.idle.prev
  unfold recvRelay
  rw [hprio]
  rcases OF.Chain.call0_chain_conn i nd.con s nd.recvState s.queue bsW hrest rfl hchan hst with
    ⟨_, c1, s1, e1, hr1, _, hq1, hc⟩ | ⟨k, ts, bs', c1, s1, q', _, _, hlt, e1, hr1, _, _, _, hc, hqne⟩
  · rw [e1]
    have hret : retOf [Recv.Out.req 0 nd.con.prevId 0 (!s1.conn), Recv.Out.retNone] = none := rfl
    simp only [afterRecv, hret]
    refine syncQ_recv_gen X.st i P nd { nd with con := c1 } s s1
      { cid := cidOf (i + 1), uid := uidOf nd.gen 0, mid := nd.con.prevId, eph := 0, new := !s1.conn, body := 0 } _ h hP hn hsrcs
      hr1.idle.srcs rfl rfl ⟨rfl, rfl, hprev, rfl⟩ ?_ ?_ (fun _ => hq1) ?_
    · intro hsc; rw [hc, hsc]; rfl
    · intro hsc h1 hqe
      rw [hc, hsc, hqe] at h1
      simp at h1
    · intro u
      exact relay_lookup L X.st.nodes i nd.gen _ _ _ _ hlenX hP hjL (by simp [reqOf]) u
  · rw [e1]
    have hret : retOf [Recv.Out.req 0 k 0 false, Recv.Out.ret k 0 (visData k ts)] = some (k, 0, visData k ts) := rfl
    simp only [afterRecv, hret]
    refine syncQ_recv_gen X.st i P nd
      (processed proc (i + 1) { nd with con := c1, sendState := some (k, 0), recvState := none } ((visData k ts).map (hframe X.st.tbl))) s s1
      { cid := cidOf (i + 1), uid := uidOf nd.gen 0, mid := k, eph := 0, new := false, body := 0 } _ h hP hn hsrcs
      (by show c1.srcs = [s1]; exact hr1.idle.srcs) rfl rfl ⟨rfl, rfl, by show (-1 : Int) ≤ k; omega, by rw [hc]; rfl⟩ (fun _ => hc)
      (fun _ _ => hqne) (fun hx => by rw [hc] at hx; cases hx) ?_
    intro u
    exact relay_lookup L X.st.nodes i nd.gen P _ [Recv.Out.req 0 k 0 false, Recv.Out.ret k 0 (visData k ts)]
      { cid := cidOf (i + 1), uid := uidOf nd.gen 0, mid := k, eph := 0, new := false, body := 0 } hlenX hP hjL (by simp [reqOf]) u

/-! ## every event; the joint invariant along a run -/

theorem syncQ_estep (proc : Proc) (L : Nat) (X : LSt) (e : EEv) (hg : Good proc L (stripX X)) (hpo : AllPubOK X.st)
    (h : SyncQ X.st) (hok : EvOK e) (hnr : isRestartE e = false) : SyncQ (elstep (chainTopo L) proc X e).st := by
  have hlenX : X.st.nodes.length = L := by
    have := hg.len
    simpa [stripX, stripSt] using this
  cases e with
  | ephReq p r => exact syncQ_ephPush _ _ p r h hok
  | base e =>
    cases e with
    | restart j g => simp [isRestartE, isRestart] at hnr
    | nodeRecv j =>
      simp only [elstep, lstep, step, stepRecv]
      cases hn : X.st.nodes[j]? with
      | none => exact h
      | some nd =>
        simp only
        split
        · exact h
        · split
          · simp only [recvSource]
            exact syncQ_set X.st j nd _ h hn rfl rfl rfl
          · rename_i hne
            cases j with
            | zero =>
              exfalso
              have := ((hg.node 0 _ (stripX_get X 0 nd hn)).src rfl).1
              have hsrc : nd.con.srcs = [] := this
              rw [hsrc] at hne
              exact hne rfl
            | succ i =>
              have hiL : i < X.st.nodes.length := by
                have := (List.getElem?_eq_some_iff.mp hn).1; omega
              exact syncQ_recvRelay proc L X i _ nd hg h (List.getElem?_eq_getElem hiL) hn
    | nodeSend j t =>
      simp only [elstep, lstep, step, stepSend]
      cases hn : X.st.nodes[j]? with
      | none => exact h
      | some nd =>
        simp only
        cases hpend : nd.pending with
        | none => exact h
        | some p =>
          simp only
          by_cases hr : Loop.reachesSender ((chainTopo L).hasOut j) p.res = true
          · simp only [hr, ↓reduceIte]
            have hout : (chainTopo L).hasOut j = true := by
              cases hres : p.res with
              | none => rw [hres] at hr; simp [Loop.reachesSender] at hr
              | dict d => rw [hres] at hr; simpa [Loop.reachesSender] using hr
              | deferred r => rw [hres] at hr; simpa [Loop.reachesSender] using hr
            rw [chain_hasOut] at hout
            have hL : j + 1 < L := by simpa using hout
            have hLn : j + 1 < X.st.nodes.length := by rw [hlenX]; exact hL
            exact syncQ_sendReal proc L X j t nd _ p hg hpo h hn hpend (List.getElem?_eq_getElem hLn)
          · have hr' : Loop.reachesSender ((chainTopo L).hasOut j) p.res = false := by simpa using hr
            simp only [hr', Bool.false_eq_true, ↓reduceIte, sendSkip]
            exact syncQ_set X.st j nd _ h hn rfl rfl rfl

theorem elstep_st (tp : Topo) (proc : Proc) (X : LSt) (e : EEv) : (elstep tp proc X e).st = (estep tp proc X.st e).1 := by
  cases e <;> rfl

/-- chain invariant (stripped), sender invariant, queue invariant: together along every restart-free run with any listener requests -/
structure ChainInv (proc : Proc) (L : Nat) (X : LSt) : Prop where
  good : Good proc L (stripX X)
  pubs : AllPubOK X.st
  syncq : SyncQ X.st

theorem chainInv_init (proc : Proc) (L : Nat) : ChainInv proc L (linit (chainTopo L)) :=
  ⟨by rw [stripX_linit]; exact good_init proc L, allPubOK_reachable _ proc _ ReachableE.init, syncQ_init _⟩

theorem chainInv_elrun (proc : Proc) (hp : ProcNames proc) (L : Nat) : ∀ (evs : List EEv) (X : LSt), ChainInv proc L X →
    (∀ e ∈ evs, EvOK e) → (∀ e ∈ evs, isRestartE e = false) → ChainInv proc L (elrun (chainTopo L) proc X evs) := by
  intro evs
  induction evs with
  | nil => intro X h _ _; exact h
  | cons e es ih =>
    intro X h hok hnr
    have h1 := hok e (List.mem_cons_self ..)
    have h2 := hnr e (List.mem_cons_self ..)
    refine ih _ ⟨goodE_estep proc hp L X e h.good h1 h2, ?_, syncQ_estep proc L X e h.good h.pubs h.syncq h1 h2⟩
      (fun x hx => hok x (List.mem_cons_of_mem _ hx)) (fun x hx => hnr x (List.mem_cons_of_mem _ hx))
    rw [elstep_st]
    exact allPubOK_estep _ proc X.st e h.pubs h1

/-! ## the side conditions of the hasten theorem -/

theorem syncQ_ord (i : Nat) (P C : Node) (s : Src) (h : EdgeQ i P C s) :
    ∀ q ∈ P.pub.queues, ∀ r ∈ q, keepReq r = true → ¬ r.mid ≤ OF.Facts.MSG_ID_SPECIAL := by
  intro q hq r hr hk
  have := (h.reqs q hq r hr hk).2.2.1
  have e : OF.Facts.MSG_ID_SPECIAL = -2 := rfl
  omega

theorem syncQ_hs (i : Nat) (P C : Node) (s : Src) (h : EdgeQ i P C s) : ∀ q ∈ P.pub.queues, HS P.pub.clients q := by
  intro q hq
  refine ⟨?_, ?_⟩
  · intro r hr hk hn x hx
    have ⟨o1, o2, _, o4⟩ := h.reqs q hq r hr hk
    have hsc : s.conn = false := by
      rw [hn] at o4
      cases hx' : s.conn with
      | false => rfl
      | true => rw [hx'] at o4; cases o4
    have := h.absent hsc x hx
    unfold Pair.fidOf
    rw [o1, o2]; exact this
  · intro r hr r' hr' hk hk' hn _
    have o4 := (h.reqs q hq r hr hk).2.2.2
    have o4' := (h.reqs q hq r' hr' hk').2.2.2
    rw [o4']; rw [hn] at o4; exact o4.symm

/-- **C05 (network level, closed form): along every restart-free chain run with any listener requests, listener requests can only
hasten a due publish.**  `X` = the state after ANY restart-free schedule `evs` of `nodeRecv | nodeSend @t | ephReq` from the initial
state; node `j` holds the dict `d` its `process()` returned.  If `ZMQSender.send` on its PULL queue WITHOUT the listener requests puts
the block `(id, d)` on the wire, then on the queue WITH them it puts exactly the same block on the wire, returns `ZMQStateRecv(id + 1)`,
and `MQ.send` frees the loop.  No side condition is left: the sender invariant (`C05_net_pubOK_reachable`), "the queued synchronised
requests are ordinary" and the handshake condition `HS` are invariants of the run (`ChainInv`). -/
theorem C05_net_listeners_only_hasten_reachable (proc : Proc) (hp : ProcNames proc) (L : Nat) (evs : List EEv)
    (hok : ∀ e ∈ evs, EvOK e) (hnr : ∀ e ∈ evs, isRestartE e = false) (j : Nat) (t : Int) (nd C : Node) (p : Pending)
    (d : List (Topic × Nat))
    (hn : (elrun (chainTopo L) proc (linit (chainTopo L)) evs).st.nodes[j]? = some nd) (hpend : nd.pending = some p)
    (hC : (elrun (chainTopo L) proc (linit (chainTopo L)) evs).st.nodes[j + 1]? = some C) (hd : dictOf p.res = some d)
    (hpub0 : (Send.send0 (stripPub nd.pub) nd.sendState
        (payloadOf (elrun (chainTopo L) proc (linit (chainTopo L)) evs).st.tbl.length p.res) false [0] t).2.filterMap (wireOf j) =
      blockWires j (sendId nd) (relabel (elrun (chainTopo L) proc (linit (chainTopo L)) evs).st.tbl.length d)) :
    (Send.send0 nd.pub nd.sendState
        (payloadOf (elrun (chainTopo L) proc (linit (chainTopo L)) evs).st.tbl.length p.res) false [0] t).2.filterMap (wireOf j) =
      blockWires j (sendId nd) (relabel (elrun (chainTopo L) proc (linit (chainTopo L)) evs).st.tbl.length d) ∧
    sendRet (Send.send0 nd.pub nd.sendState
        (payloadOf (elrun (chainTopo L) proc (linit (chainTopo L)) evs).st.tbl.length p.res) false [0] t).2 = some (some (sendId nd + 1)) ∧
    (afterSend nd p (Send.send0 nd.pub nd.sendState
        (payloadOf (elrun (chainTopo L) proc (linit (chainTopo L)) evs).st.tbl.length p.res) false [0] t)).pending = none := by
  have hI := chainInv_elrun proc hp L evs _ (chainInv_init proc L) hok hnr
  generalize elrun (chainTopo L) proc (linit (chainTopo L)) evs = X at hI hn hC hpub0 ⊢
  have hok' := (hI.pubs j nd hn).2
  rcases pub_call_facts proc L X j nd C p hI.good hn hpend hC hok' with ⟨_, _, _, _, _, _, s, hsrc⟩
  have hE := hI.syncq j nd C s hn hC hsrc
  have := C05_net_listeners_only_hasten proc L X j t nd C p d hI.good hn hpend hC hd hok'
    (syncQ_ord j nd C s hE) (syncQ_hs j nd C s hE) hpub0
  exact ⟨this.1, this.2.1, this.2.2.2⟩

/-! ### non-vacuity of the closed form -/

/-- node `j` holds a dict, listener requests are queued at its PULL socket, and the call WITHOUT them puts the block on the wire -/
def hastenInstance (X : LSt) (j : Nat) (t : Int) : Bool :=
  match X.st.nodes[j]? with
  | none => false
  | some nd =>
    match nd.pending with
    | none => false
    | some p =>
      match dictOf p.res with
      | none => false
      | some d =>
        decide (2 ≤ ((nd.pub.queues.headD []).filter isListenerReq).length) &&
        decide ((Send.send0 (stripPub nd.pub) nd.sendState (payloadOf X.st.tbl.length p.res) false [0] t).2.filterMap (wireOf j) =
          blockWires j (sendId nd) (relabel X.st.tbl.length d))

/-- after the first 36 events of `ceSched` (`C05Net.lean`) the relay holds the result for id 4, three listener requests (a second
incarnation of `E2`: `new`, then id 77 — far ahead; before them …) and the sink's request are queued at its PULL socket, and the call
without the listener requests publishes block 4: the premises of `C05_net_listeners_only_hasten_reachable` are satisfiable -/
example : hastenInstance (elrun (chainTopo 3) cProc (linit (chainTopo 3)) (ceSched.take 36)) 1 1500 = true := by decide +kernel

end OF.Net.Eph
