import OFProps.C06ChainRestartInv
set_option linter.unusedSimpArgs false
/-!
# C06 — the 3-node chain `source 0 → relay 1 → sink 2` with restarts in the history (`OFModel/Zmq/Net.lean`)

ANY schedule: `nodeRecv i`, `nodeSend i t` at any clock readings, `restart i g` of ANY node (graceful: CLOSE messages are
delivered; crash: nothing is), any number of times, anywhere.  Process functions: `FwdMain` — source and relay answer every call
with a one-frame `main` result (dict, lone frame or callable).

* `C06_net_chain3_shape_invariant` — `RShape` (`C06ChainRestartInv.lean`) holds in every reachable state and is kept by every
  event: endpoint shapes of all three nodes, the relay's loop state (what it holds is sent under an id `≥` its sender's
  `min_send_id`; nothing held ⇒ its next `recv` starts from an id `≥ min_send_id`), NOTHING about channel contents / client tables.
* `C06_net_chain3_order` (+ `_from`) — safety along the way: over any run, restarts included, the ids the sink's `recv` returns
  strictly increase per sink incarnation (same for the relay: `C06_net_chain3_order_relay`).
* `C06_net_chain3_relay_never_discards` — the relay's result is always sent under an id `≥ min_send_id` (no discard in a chain).
* the healing schedule `heal3 n0 n1 t1 t2 t3` / `healOf st t1` (a function of the state: requests queued at the source / relay, clock
  readings one connection time-out after the previous phase and after every `t_last` of the source's / relay's client table) and
  `C06_net_chain3_recovery_bound` (its length); first phase: `C06_net_chain3_source_flush` (`C06ChainRestartUp.lean`).
NOT PROVED: `C06_net_chain3_recovers` — that `healOf st t1` hands the sink a new frame set from EVERY reachable state.  It is
kernel-evaluated below on restart scenarios (every victim, graceful / crash, several victims; NEGATIVE: without the waiting phases a
crashed-and-restarted sink / relay leaves the sink unserved) and tested on the REAL objects (`net_chainrestart_campaign`).
Missing steps: upstream rounds (relay handed a set: HELLO → fast-forward → publish, on `send0_*_gen` / `call0_gen` / `call0_newer_gen`
and the step equations of `C06ChainRestartUp.lean`), flush of the relay's request queue, downstream rounds with the relay re-supplied.
Also not covered: a `pass` relay (forwards whatever it is handed) is not `FwdMain`; multi-topic results; chains longer than 3.
-/
namespace OF.Net
open OF
open OF.Pair (PubIdle Idle Stale OthersStale)

/-- **C06 (the invariant)** -/
theorem C06_net_chain3_shape_invariant (proc : Proc) (hf : FwdMain proc) :
    RShape (init T3) ∧ (∀ st e, RShape st → RShape (step T3 proc st e).1) ∧ ∀ st, Reachable T3 proc st → RShape st :=
  ⟨rshape_init, rshape_step proc hf, rshape_reachable proc hf⟩

/-- **C06 (a relay's result is never discarded)**: in every reachable state (restarts anywhere) a result the relay holds will be
sent under an id that is not below its sender's `min_send_id` — the `state.msg_id < min_send_id` branch of `ZMQSender.send`
("older than what was already sent: discard") is never taken in a chain, however the relay's sender was fast-forwarded; and
while it holds nothing, the id its next `recv` starts from (`max(prev_id + 1, recv_state)`) is not below `min_send_id` either:
whatever it is handed next can be published. -/
theorem C06_net_chain3_relay_never_discards (proc : Proc) (hf : FwdMain proc) (st : St) (hr : Reachable T3 proc st) :
    ∃ n0 n1 n2, st.nodes = [n0, n1, n2] ∧
      (∀ p, n1.pending = some p → ∃ a bl, n1.sendState = some (a, bl) ∧ n1.pub.minSendId ≤ a) ∧
      (n1.pending = none → n1.pub.minSendId ≤ Recv.beginId n1.con n1.recvState) := by
  have ⟨n0, n1, n2, hn, _, h1, _⟩ := rshape_reachable proc hf st hr
  exact ⟨n0, n1, n2, hn, h1.held, h1.free⟩

/-! ## safety along the way: ids per incarnation strictly increase -/

/-- ids node `K`'s `recv` returns along a run, split at every restart of node `K`: one list per incarnation -/
def segRetsN (proc : Proc) (K : Nat) (st : St) (cur : List Int) : List Ev → List (List Int)
  | [] => [cur]
  | e :: es =>
    if isRestartOf K e then cur :: segRetsN proc K (step T3 proc st e).1 [] es
    else segRetsN proc K (step T3 proc st e).1 (cur ++ retAt K e (step T3 proc st e).2) es

/-- what the current incarnation of node `K` returned so far is strictly increasing and not above its `prev_id` -/
def OrdInvN (K : Nat) (st : St) (cur : List Int) : Prop := cur.Pairwise (· < ·) ∧ ∀ id ∈ cur, id ≤ prevOf st.nodes K

theorem retAt_other (K : Nat) (e : Ev) (o : Obs) (h : e ≠ .nodeRecv K) : retAt K e o = [] := by
  cases e with
  | nodeRecv i =>
    have : i ≠ K := fun hc => h (by rw [hc])
    cases o with
    | rcvd outs id handed => cases id <;> simp [retAt, this]
    | _ => rfl
  | nodeSend i t => rfl
  | restart i g => rfl

theorem retAt_pairwise (K : Nat) (e : Ev) (o : Obs) : (retAt K e o).Pairwise (· < ·) := by
  cases e with
  | nodeRecv i =>
    cases o with
    | rcvd outs id handed =>
      cases id with
      | none => exact List.Pairwise.nil
      | some x =>
        simp only [retAt]
        split
        · exact List.pairwise_singleton _ _
        · exact List.Pairwise.nil
    | _ => exact List.Pairwise.nil
  | nodeSend i t => exact List.Pairwise.nil
  | restart i g => exact List.Pairwise.nil

theorem prevOf_restart_other (st : St) (K i : Nat) (g : Bool) (h : i ≠ K) :
    prevOf (stepRestart T3 st i g).1.nodes K = prevOf st.nodes K := by
  unfold stepRestart
  cases hn : st.nodes[i]? with
  | none => rfl
  | some nd =>
    simp only
    rw [prevOf_deliverWires, prevOf_deliverReqs]
    exact prevOf_set st.nodes i nd _ K hn (fun hc => absurd hc h)

/-- one `recv` of a consumer node of the chain (`K` = 1 or 2): what it returns is above its `prev_id`, which moves to it -/
theorem recv_ord (proc : Proc) (st : St) (K : Nat) (hK : K = 1 ∨ K = 2) (h : RShape st) :
    prevOf st.nodes K ≤ prevOf (stepRecv T3 proc st K).1.nodes K ∧
    ∀ id ∈ retAt K (.nodeRecv K) (stepRecv T3 proc st K).2,
      prevOf st.nodes K < id ∧ prevOf (stepRecv T3 proc st K).1.nodes K = id := by
  rcases h with ⟨n0, n1, n2, hn, h0, h1, h2⟩
  have key : ∀ (nd : Node) (s : Recv.Src), Idle nd.con s → st.nodes[K]? = some nd → nd.pending = none →
      prevOf st.nodes K ≤ prevOf (recvRelay T3 proc st K nd).1.nodes K ∧
      ∀ id ∈ retAt K (.nodeRecv K) (recvRelay T3 proc st K nd).2,
        prevOf st.nodes K < id ∧ prevOf (recvRelay T3 proc st K nd).1.nodes K = id := by
    intro nd s hs hget hp
    have ⟨s', ho⟩ := call0_gen nd.con s nd.recvState hs
    have hb := beginId_ge nd.con nd.recvState
    have hprev0 : prevOf st.nodes K = nd.con.prevId := prevOf_some _ _ _ hget
    have hlen : K < st.nodes.length := (List.getElem?_eq_some_iff.mp hget).1
    have hprev1 : prevOf (recvRelay T3 proc st K nd).1.nodes K =
        (afterRecv proc st.tbl K nd (Recv.call0 nd.con nd.recvState (List.range nd.con.srcs.length))).con.prevId := by
      simp only [recvRelay]
      rw [prevOf_deliverReqs]
      unfold prevOf
      simp [List.getElem?_set, hlen]
    rw [range_single _ s hs.srcs] at hprev1
    have hobs : (recvRelay T3 proc st K nd).2 = recvObs st.tbl (Recv.call0 nd.con nd.recvState [0]).2 := by
      simp only [recvRelay, range_single _ s hs.srcs]
    rw [hprev1, hobs, hprev0]
    generalize Recv.call0 nd.con nd.recvState [0] = R at ho
    rcases ho.out with ⟨o1, pre, id, bal, data, e1, e2, e3, e4, e5, _⟩ | ⟨o1, e1, e2, _⟩
    · have hr : retOf R.2 = some (id, bal, data) := by rw [e2]; exact retOf_ret_case _ _ _ _ _ _ e1 e3
      have hcon : (afterRecv proc st.tbl K nd R).con = R.1 := by unfold afterRecv; rw [hr]; rfl
      rw [hcon, e5]
      refine ⟨by omega, ?_⟩
      intro x hx
      simp only [recvObs, hr, retAt, ↓reduceIte, List.mem_singleton] at hx
      subst hx
      exact ⟨by omega, rfl⟩
    · have hr : retOf R.2 = none := by rw [e2]; exact retOf_timeout_case _ _ _ e1
      have hcon : (afterRecv proc st.tbl K nd R).con = R.1 := by unfold afterRecv; rw [hr]
      rw [hcon]
      refine ⟨by have := ho.floor; omega, ?_⟩
      intro x hx
      simp only [recvObs, hr, retAt] at hx
      cases hx
  have hcons : ∃ nd s, st.nodes[K]? = some nd ∧ Idle nd.con s := by
    rcases hK with rfl | rfl
    · rcases h1.con with ⟨s, hs⟩; exact ⟨n1, s, by rw [hn]; rfl, hs⟩
    · rcases h2.con with ⟨s, hs⟩; exact ⟨n2, s, by rw [hn]; rfl, hs⟩
  rcases hcons with ⟨nd, s, hget, hs⟩
  unfold stepRecv
  simp only [hget]
  split
  · exact ⟨Int.le_refl _, by intro id hid; cases hid⟩
  · rename_i hp
    have hp' : nd.pending = none := by
      cases hx : nd.pending with
      | none => rfl
      | some _ => rw [hx] at hp; exact absurd rfl hp
    simp only [isEmpty_single _ s hs.srcs, Bool.false_eq_true, ↓reduceIte]
    exact key nd s hs hget hp'

theorem ordInvN_step (proc : Proc) (K : Nat) (hK : K = 1 ∨ K = 2) (st : St) (e : Ev) (cur : List Int) (hs : RShape st)
    (ho : OrdInvN K st cur) (hne : isRestartOf K e = false) :
    OrdInvN K (step T3 proc st e).1 (cur ++ retAt K e (step T3 proc st e).2) := by
  by_cases he : e = .nodeRecv K
  · subst he
    have ⟨r1, r2⟩ := recv_ord proc st K hK hs
    show OrdInvN K (stepRecv T3 proc st K).1 (cur ++ retAt K (.nodeRecv K) (stepRecv T3 proc st K).2)
    refine ⟨?_, ?_⟩
    · rw [List.pairwise_append]
      refine ⟨ho.1, ?_, ?_⟩
      · exact retAt_pairwise K _ _
      · intro a ha c hc
        have := ho.2 a ha
        have := (r2 c hc).1
        omega
    · intro x hx
      rcases List.mem_append.mp hx with hx | hx
      · have := ho.2 x hx; omega
      · have := (r2 x hx).2; omega
  · rw [retAt_other K e _ he, List.append_nil]
    refine ⟨ho.1, ?_⟩
    have hprev : prevOf (step T3 proc st e).1.nodes K = prevOf st.nodes K := by
      cases e with
      | restart i g =>
        have : i ≠ K := by
          intro hc; subst hc; simp [isRestartOf] at hne
        exact prevOf_restart_other st K i g this
      | nodeRecv i => exact prevOf_step T3 proc st K _ rfl he
      | nodeSend i t => exact prevOf_step T3 proc st K _ rfl he
    rw [hprev]; exact ho.2

theorem segRetsN_ordered (proc : Proc) (hf : FwdMain proc) (K : Nat) (hK : K = 1 ∨ K = 2) : ∀ (evs : List Ev) (st : St) (cur : List Int),
    RShape st → OrdInvN K st cur → ∀ seg ∈ segRetsN proc K st cur evs, seg.Pairwise (· < ·) := by
  intro evs
  induction evs with
  | nil =>
    intro st cur _ ho seg hseg
    simp only [segRetsN, List.mem_singleton] at hseg
    rw [hseg]; exact ho.1
  | cons e es ih =>
    intro st cur hs ho seg hseg
    unfold segRetsN at hseg
    split at hseg
    · rcases List.mem_cons.mp hseg with rfl | h
      · exact ho.1
      · exact ih _ [] (rshape_step proc hf st e hs) ⟨List.Pairwise.nil, by intro x hx; cases hx⟩ seg h
    · rename_i hne
      exact ih _ _ (rshape_step proc hf st e hs) (ordInvN_step proc K hK st e cur hs ho (by simpa using hne)) seg hseg

/-- **C06 (order, 3-node chain with restarts)**: over ANY run from the initial state — restarts (graceful or crash) of any
node anywhere, any clock readings, the healing schedule included — the ids the SINK's `recv` returns strictly increase per
sink incarnation (the statement of `C02_strict_order` for the sink inside the pipeline, across relay / source restarts that
start ids over and across the relay's fast-forwards). -/
theorem C06_net_chain3_order (proc : Proc) (hf : FwdMain proc) (evs : List Ev) :
    ∀ seg ∈ segRetsN proc 2 (init T3) [] evs, seg.Pairwise (· < ·) :=
  segRetsN_ordered proc hf 2 (Or.inr rfl) evs _ [] rshape_init ⟨List.Pairwise.nil, by intro x hx; cases hx⟩

/-- … the same for the RELAY (node 1), per relay incarnation -/
theorem C06_net_chain3_order_relay (proc : Proc) (hf : FwdMain proc) (evs : List Ev) :
    ∀ seg ∈ segRetsN proc 1 (init T3) [] evs, seg.Pairwise (· < ·) :=
  segRetsN_ordered proc hf 1 (Or.inl rfl) evs _ [] rshape_init ⟨List.Pairwise.nil, by intro x hx; cases hx⟩

/-- … and from any reachable state on, for what the current sink incarnation returns from there -/
theorem C06_net_chain3_order_from (proc : Proc) (hf : FwdMain proc) (st : St) (hr : Reachable T3 proc st) (evs : List Ev) :
    ∀ seg ∈ segRetsN proc 2 st [] evs, seg.Pairwise (· < ·) :=
  segRetsN_ordered proc hf 2 (Or.inr rfl) evs st [] (rshape_reachable proc hf st hr) ⟨List.Pairwise.nil, by intro x hx; cases hx⟩

/-! ## recovery: the healing schedule -/

/-- `n` times: the source takes its next frame and sends at clock reading `t` (empties its request queue) -/
def flushS (n : Nat) (t : Int) : List Ev := (List.replicate n [Ev.nodeRecv 0, .nodeSend 0 t]).flatten
/-- `k` rounds of the upstream edge: source `recv`, source `send @t`, relay `recv` -/
def roundsU (k : Nat) (t : Int) : List Ev := (List.replicate k [Ev.nodeRecv 0, .nodeSend 0 t, .nodeRecv 1]).flatten
/-- make the relay hold a frame set: flush the source's request queue (`n` sends at `tf`), one relay `recv`, 4 upstream rounds at `t` -/
def pullU (n : Nat) (tf t : Int) : List Ev := flushS n tf ++ [.nodeRecv 1] ++ roundsU 4 t
/-- **the healing schedule** as a function of `n0`, `n1` (requests queued at the source's / the relay's sender) and three clock
readings: the sink hands on what it holds; the relay is made to hold a frame set (source flushed at `t1`, upstream rounds at
`t2`); the relay's request queue is flushed at `t2` (one `send` per queued request, the relay re-supplied each time); one sink
`recv`; four downstream rounds `send 1 @t3, recv 2` with the relay re-supplied after each -/
def heal3 (n0 n1 : Nat) (t1 t2 t3 : Int) : List Ev :=
  [.nodeSend 2 t1] ++ pullU n0 t1 t2
  ++ (List.replicate n1 ([Ev.nodeSend 1 t2] ++ pullU 5 t2 t2)).flatten
  ++ [.nodeRecv 2]
  ++ (List.replicate 4 ([Ev.nodeSend 1 t3, .nodeRecv 2] ++ pullU 5 t3 t3)).flatten

/-- requests queued at node `i`'s sender -/
def reqLen (st : St) (i : Nat) : Nat := ((st.nodes[i]?).map fun nd => (nd.pub.queues.flatMap id).length).getD 0
/-- the latest clock reading node `i`'s client table remembers (at least `t`) -/
def lastHeardAt (st : St) (i : Nat) (t : Int) : Int := ((st.nodes[i]?).map fun nd => Pair.lastHeard nd.pub.clients t).getD t

/-- second / third clock reading read off the state: one connection time-out after the later of the previous phase and the
last request the source's (relay's) sender remembers -/
def healT2 (st : St) (t1 : Int) : Int := lastHeardAt st 0 t1 + OF.Facts.ZMQ_CONN_TIMEOUT + 1
def healT3 (st : St) (t1 : Int) : Int := lastHeardAt st 1 (healT2 st t1) + OF.Facts.ZMQ_CONN_TIMEOUT + 1

/-- the healing schedule of a state at current clock reading `t1` -/
def healOf (st : St) (t1 : Int) : List Ev := heal3 (reqLen st 0) (reqLen st 1) t1 (healT2 st t1) (healT3 st t1)

theorem length_flushS (n : Nat) (t : Int) : (flushS n t).length = 2 * n := by
  induction n with
  | zero => rfl
  | succ n ih => simp only [flushS, List.replicate_succ, List.flatten_cons, List.length_append] at ih ⊢; simp; omega

theorem length_pullU (n : Nat) (tf t : Int) : (pullU n tf t).length = 2 * n + 13 := by
  simp only [pullU, List.length_append, length_flushS]; rfl

theorem length_rep (k : Nat) (l : List Ev) : (List.replicate k l).flatten.length = k * l.length := by
  induction k with
  | zero => simp
  | succ k ih => simp only [List.replicate_succ, List.flatten_cons, List.length_append, ih]; rw [Nat.succ_mul]; omega

/-- **C06 (recovery bound)**: the healing schedule has `2 n0 + 24 n1 + 115` events: linear in the number of queued requests;
its clock readings are `t1`, then `t2`, then `t3` only: two connection time-outs (one per edge: the relay can flush ITS stale
requests only with frames it gets from the source, which may itself have to wait for an eviction first). -/
theorem C06_net_chain3_recovery_bound (n0 n1 : Nat) (t1 t2 t3 : Int) : (heal3 n0 n1 t1 t2 t3).length = 2 * n0 + 24 * n1 + 115 := by
  simp only [heal3, List.length_append, length_rep, length_pullU, List.length_cons, List.length_nil]
  omega

/-! ## non-vacuity: concrete runs (kernel-evaluated on the definitions the driver executes) -/

/-- frames flow for six round-robin rounds (the sink gets sets 0, 1, 2) -/
def exFlow : List Ev := roundRobin 3 1000 ++ roundRobin 3 1100 ++ roundRobin 3 1200 ++ roundRobin 3 1300 ++ roundRobin 3 1400 ++ roundRobin 3 1500

/-- source: one `main` frame per call; relay and sink: the first frame handed, returned as a lone `Frame` (= `{'main': frame}`) -/
def mainProc : Proc := fun i n h => if i = 0 then .now (.dict [("main", n)]) else .now (.frame ((h.head?.map (·.2)).getD 0))

theorem mainProc_fwdMain : FwdMain mainProc := by
  intro i n h _
  by_cases hi : i = 0
  · exact ⟨n, by simp [mainProc, hi, Loop.processFrames, Loop.normPlain, dictOf]⟩
  · exact ⟨(h.head?.map (·.2)).getD 0, by simp [mainProc, hi, Loop.processFrames, Loop.normPlain, dictOf]⟩

def stAfter (pre : List Ev) : St := (run T3 mainProc (init T3) pre).1

/-- ids the sink's `recv` returns during the healing schedule computed from the state after `pre`, at current clock reading `t1` -/
def healedBy (pre : List Ev) (t1 : Int) : List Int := returnedBy T3 mainProc 2 (stAfter pre) (healOf (stAfter pre) t1)

/-- the same schedule WITHOUT the waiting phases (`t2 = t3 = t1`) -/
def healedNoWait (pre : List Ev) (t1 : Int) : List Int :=
  returnedBy T3 mainProc 2 (stAfter pre) (heal3 (reqLen (stAfter pre) 0) (reqLen (stAfter pre) 1) t1 t1 t1)

/-- kill the relay mid-stream (crash / graceful), the source, the sink: the healing schedule hands the sink a new set (3 after
0, 1, 2); ids per sink incarnation stay increasing -/
example : returnedBy T3 mainProc 2 (init T3) exFlow = [0, 1, 2] ∧
    healedBy (exFlow ++ [.restart 1 false]) 1600 = [3] ∧ healedBy (exFlow ++ [.restart 1 true]) 1600 = [3] ∧
    healedBy (exFlow ++ [.restart 0 false]) 1600 = [3] ∧ healedBy (exFlow ++ [.restart 0 true]) 1600 = [3] ∧
    healedBy (exFlow ++ [.restart 2 false]) 1600 = [3] ∧ healedBy (exFlow ++ [.restart 2 true]) 1600 = [3] := by
  decide +kernel

/-- several victims, events between the restarts (stale requests of dead incarnations queued at a restarted relay) -/
example : healedBy (exFlow ++ [.restart 1 false, .nodeRecv 2, .nodeRecv 2, .restart 2 false]) 1600 = [3] ∧
    healedBy (exFlow ++ [.restart 0 false, .nodeRecv 1, .nodeRecv 1, .restart 1 true, .nodeRecv 2, .restart 2 true]) 1600 = [3] ∧
    segRetsN mainProc 2 (init T3) [] (exFlow ++ [.restart 2 false] ++ healOf (stAfter (exFlow ++ [.restart 2 false])) 1600) =
      [[0, 1, 2], [3]] := by
  decide +kernel

/-- the crash cases found on the REAL objects by the harness probe (`net_chainrestart_campaign`, schedule without the waiting
phases): a crashed-and-restarted SINK stays unserved without the waits (stale entry `N2#0.0`, flag down, in the relay's client
table), and so does everybody after a crashed-and-restarted RELAY (stale entry `N1#0.0` in the source's table); with the
waiting phases the schedule serves the sink -/
def exSinkCrash : List Ev :=
  [.nodeRecv 0, .nodeRecv 2, .nodeRecv 1, .nodeSend 0 1100, .nodeRecv 1, .nodeSend 0 1150, .nodeRecv 1, .nodeSend 1 1151,
   .nodeRecv 2, .nodeRecv 1, .nodeSend 1 1251, .restart 2 false]
def exRelayCrash : List Ev :=
  [.nodeRecv 0, .nodeRecv 1, .nodeSend 0 1200, .nodeRecv 1, .nodeSend 0 7200, .restart 1 false]
def exBothCrash : List Ev :=
  [.nodeRecv 1, .nodeRecv 0, .nodeSend 0 1200, .nodeRecv 1, .nodeRecv 0, .nodeSend 0 1353, .restart 2 false, .nodeRecv 2,
   .restart 1 false]

example : healedNoWait exSinkCrash 1351 = [] ∧ healedBy exSinkCrash 1351 = [1] ∧
    healedNoWait exRelayCrash 7502 = [] ∧ healedBy exRelayCrash 7502 = [1] ∧
    healedNoWait exBothCrash 1403 = [] ∧ healedBy exBothCrash 1403 = [1] := by
  decide +kernel

end OF.Net
