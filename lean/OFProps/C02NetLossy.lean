import OFModel.Zmq.NetLossy
import OFProps.C01NetLossy
import OFProps.NetLossyLog
import OFProps.NetLossyRec
set_option linter.unusedSimpArgs false
/-!
# C02 at network level: in order, at most once, unaltered — on every lossy schedule

Model: `OFModel/Zmq/NetLossy.lean` (the closed network of `Net.lean` + loss of queued PUB→SUB messages, loss and duplication of
queued requests).  Quantifier: every topology, every process-function family (`ProcOK`), every schedule of
`nodeRecv | nodeSend @t | restart | dropWire | dropReq | dupReq`, no bound, no fairness.

* `C02_netl_order` — while node `i` is not restarted, the ids of the sets handed to its `process()` (observations
  `.rcvd _ (some k) _` of its `nodeRecv` events) are strictly increasing (`C02_strict_order` through `call0_as_run`, and
  `prev_id` of the node's receiver as the measure across events: `lstep_prev`);
* `C02_netl_verbatim` — every frame of every set handed to node `i` under id `k`, on topic `t`, is a wire message that the
  upstream node its source is connected to put on its PUB socket EARLIER in the run (it occurs in the `.sent` observation of a
  `nodeSend` of that node: `sentLog` of the prefix), under the same id `k`, with a topic frame that decodes to `t`, same payload
  identity `body` — hence the same ghost content and origin;
* `C02_netl_at_most_once` — while node `i` is not restarted: every frame sits in the set of its own id, and of two handed sets the
  earlier holds only frames with strictly smaller ids than the later — a wire message (which has ONE id) is never handed twice to
  one incarnation, whatever is lost, doubled or re-requested;
* `C02_netl_at_most_once_verbatim` — both, for a whole run `pre ++ evs` in which `evs` does not restart node `i`;
* `C02_netl_end_to_end` — the sender side joined on (`send0_T`, `NetLossySend.lean`: a payload travels under the frame of its own
  topic; `RecOK`, `NetLossyRec.lean`): every frame `(topic, content)` handed to node `i` under id `k` is an entry of the dict that
  an upstream node's `process()` returned and that this node sent under id `k` at an EARLIER `nodeSend` of the run.

Non-vacuity and negative information: `exLossy` (a chain, two topics per set, a wire message lost in the middle of the first set, a
request doubled, a request lost): sets are still handed, in order, verbatim — and the set of id 0 is NEVER handed (the receiver
moves on to id 1): completeness (C03) is NOT claimed under loss.
-/
namespace OF.Net.Lossy
open OF.Recv (Src Wire Msg Recvd Topic)

/-! ## the sets handed to one node along a lossy schedule -/

/-- the sets handed to node `i`'s `process()`, in order: (id, frames as `recv` returned them) -/
def handedSeq (tp : Topo) (proc : Proc) (i : Nat) : St → List LEv → List (Int × List (Topic × Msg))
  | _, [] => []
  | st, e :: es => (handedData i e (lstep tp proc st e).2).toList ++ handedSeq tp proc i (lstep tp proc st e).1 es

/-- the ids under which sets were handed to node `i`, read off the observations -/
def idsTo (i : Nat) : List LEv → List Obs → List Int
  | .base (.nodeRecv j) :: es, .rcvd _ (some k) _ :: os => if j = i then k :: idsTo i es os else idsTo i es os
  | _ :: es, _ :: os => idsTo i es os
  | _, _ => []

theorem handedData_ev (i : Nat) (e : LEv) (o : Obs) (r : Int × List (Topic × Msg)) (h : handedData i e o = some r) :
    e = .base (.nodeRecv i) := by
  cases e with
  | base e =>
    cases e with
    | nodeRecv j =>
      by_cases hji : j = i
      · rw [hji]
      · rw [handedData_other i j o hji] at h; cases h
    | nodeSend j t => simp [handedData] at h
    | restart j g => simp [handedData] at h
  | dropWire a j k => simp [handedData] at h
  | dropReq p k => simp [handedData] at h
  | dupReq p k => simp [handedData] at h

/-- the observation of a `nodeRecv`: the id it shows is the id of the returned set, the handed frames are the returned frames
looked up in the ghost table -/
theorem stepRecv_obs (tp : Topo) (proc : Proc) (st : St) (i : Nat) :
    (stepRecv tp proc st i).2 = .noop ∨ (stepRecv tp proc st i).2 = .rcvd [] none (some []) ∨
    ∃ outs, (stepRecv tp proc st i).2 = recvObs st.tbl outs := by
  unfold stepRecv
  cases st.nodes[i]? with
  | none => left; rfl
  | some nd =>
    simp only
    split
    · left; rfl
    · split
      · right; left; rfl
      · right; right; exact ⟨_, rfl⟩

theorem recvObs_handed (tbl : List Entry) (i : Nat) (outs outs' : List Recv.Out) (k : Int) (frames : List HFrame)
    (h : recvObs tbl outs = .rcvd outs' (some k) (some frames)) :
    ∃ data, handedData i (.base (.nodeRecv i)) (recvObs tbl outs) = some (k, data) ∧ frames = data.map (hframe tbl) := by
  unfold recvObs at h ⊢
  cases hr : retOf outs with
  | none => rw [hr] at h; simp only [Obs.rcvd.injEq] at h; rcases h with ⟨_, hk, _⟩; cases hk
  | some x =>
    rcases x with ⟨id, bal, data⟩
    rw [hr] at h
    simp only [Obs.rcvd.injEq, Option.some.injEq] at h
    rcases h with ⟨_, rfl, rfl⟩
    exact ⟨data, by simp only [handedData, ↓reduceIte, hr, Option.map_some], rfl⟩

/-- a `nodeRecv i` whose observation shows a set handed under id `k`: that set is `handedData` of the event -/
theorem obs_handedData (tp : Topo) (proc : Proc) (st : St) (i : Nat) (outs : List Recv.Out) (k : Int) (frames : List HFrame)
    (h : (lstep tp proc st (.base (.nodeRecv i))).2 = .rcvd outs (some k) (some frames)) :
    ∃ data, handedData i (.base (.nodeRecv i)) (lstep tp proc st (.base (.nodeRecv i))).2 = some (k, data) ∧
      frames = data.map (hframe st.tbl) := by
  simp only [lstep, step] at h ⊢
  rcases stepRecv_obs tp proc st i with e | e | ⟨o, e⟩
  · rw [e] at h; cases h
  · rw [e] at h; simp only [Obs.rcvd.injEq] at h; rcases h with ⟨_, hk, _⟩; cases hk
  · rw [e] at h ⊢; exact recvObs_handed st.tbl i o outs k frames h

theorem idsTo_step (tp : Topo) (proc : Proc) (st : St) (i : Nat) (e : LEv) (es : List LEv) (os : List Obs) :
    idsTo i (e :: es) ((lstep tp proc st e).2 :: os) =
      ((handedData i e (lstep tp proc st e).2).toList.map (·.1)) ++ idsTo i es os := by
  cases e with
  | base e =>
    cases e with
    | nodeRecv j =>
      simp only [lstep, step]
      rcases stepRecv_obs tp proc st j with h | h | ⟨o, h⟩
      · rw [h]; simp [idsTo, handedData]
      · rw [h]; simp [idsTo, handedData, retOf]
      · rw [h]
        unfold recvObs
        cases hr : retOf o with
        | none => simp [idsTo, handedData, hr]
        | some x =>
          rcases x with ⟨id, bal, data⟩
          by_cases hji : j = i
          · simp [idsTo, handedData, hr, hji]
          · simp [idsTo, handedData, hr, hji]
    | nodeSend j t =>
      have : handedData i (.base (.nodeSend j t)) (lstep tp proc st (.base (.nodeSend j t))).2 = none := by simp [handedData]
      rw [this]; simp [idsTo]
    | restart j g =>
      have : handedData i (.base (.restart j g)) (lstep tp proc st (.base (.restart j g))).2 = none := by simp [handedData]
      rw [this]; simp [idsTo]
  | dropWire a j k => simp [idsTo, handedData, lstep]
  | dropReq p k => simp [idsTo, handedData, lstep]
  | dupReq p k => simp [idsTo, handedData, lstep]

/-- the ids the observations show are the ids of the handed sets -/
theorem idsTo_handedSeq (tp : Topo) (proc : Proc) (i : Nat) : ∀ (evs : List LEv) (st : St),
    idsTo i evs (lrun tp proc st evs).2 = (handedSeq tp proc i st evs).map (·.1) := by
  intro evs
  induction evs with
  | nil => intro st; rfl
  | cons e es ih =>
    intro st
    simp only [lrun, handedSeq, List.map_append]
    rw [idsTo_step, ih]

/-! ## in order -/

theorem handedSeq_lower (tp : Topo) (proc : Proc) (hp : ProcOK proc) (i : Nat) : ∀ (evs : List LEv) (st : St), NetInv tp st →
    (∀ e ∈ evs, isRestartOfL i e = false) → ∀ r ∈ handedSeq tp proc i st evs, prevOf st.nodes i < r.1 := by
  intro evs
  induction evs with
  | nil => intro st _ _ r hr; cases hr
  | cons e es ih =>
    intro st hinv hnr r hr
    have ⟨h1, h2⟩ := lstep_prev tp proc st i e hinv (hnr e (List.mem_cons_self ..))
    simp only [handedSeq, List.mem_append, Option.mem_toList] at hr
    rcases hr with hr | hr
    · exact (h2 r hr).1
    · have := ih _ (netInv_lstep tp proc hp st e hinv) (fun y hy => hnr y (List.mem_cons_of_mem _ hy)) r hr
      omega

theorem handedSeq_order (tp : Topo) (proc : Proc) (hp : ProcOK proc) (i : Nat) : ∀ (evs : List LEv) (st : St), NetInv tp st →
    (∀ e ∈ evs, isRestartOfL i e = false) → (handedSeq tp proc i st evs).Pairwise (fun a b => a.1 < b.1) := by
  intro evs
  induction evs with
  | nil => intro st _ _; exact List.Pairwise.nil
  | cons e es ih =>
    intro st hinv hnr
    have ⟨h1, h2⟩ := lstep_prev tp proc st i e hinv (hnr e (List.mem_cons_self ..))
    have hinv' := netInv_lstep tp proc hp st e hinv
    have hnr' : ∀ y ∈ es, isRestartOfL i y = false := fun y hy => hnr y (List.mem_cons_of_mem _ hy)
    simp only [handedSeq]
    rw [List.pairwise_append]
    refine ⟨?_, ih _ hinv' hnr', ?_⟩
    · cases handedData i e (lstep tp proc st e).2 with
      | none => exact List.Pairwise.nil
      | some r => exact List.pairwise_singleton _ _
    · intro a ha b hb
      rw [Option.mem_toList] at ha
      have := (h2 a ha).2
      have := handedSeq_lower tp proc hp i es _ hinv' hnr' b hb
      omega

/-- **C02 (in order, network level, lossy network)**: along ANY lossy schedule — any interleaving of node events with losses of
queued wire messages, losses and duplications of queued requests, restarts of OTHER nodes — starting in any lossy-reachable state,
as long as node `i` is not restarted the ids of the sets handed to its `process()` (the `k` of its observations
`.rcvd _ (some k) _`) are strictly increasing: nothing is handed twice, nothing out of order -/
theorem C02_netl_order (tp : Topo) (proc : Proc) (hp : ProcOK proc) (i : Nat) (st : St) (hr : ReachableL tp proc st)
    (evs : List LEv) (hnr : ∀ e ∈ evs, isRestartOfL i e = false) :
    (idsTo i evs (lrun tp proc st evs).2).Pairwise (· < ·) := by
  rw [idsTo_handedSeq, List.pairwise_map]
  exact handedSeq_order tp proc hp i evs st (C01_netl_inv_reachable tp proc hp st hr) hnr

/-! ## unaltered -/

theorem decode_hb2 : Recv.decodeTopic "//" = "" := by decide

/-- what a `nodeRecv i` hands over, w.r.t. a log that covers the delivery histories (`NodesLog`) -/
theorem handed_verbatim (tp : Topo) (proc : Proc) (hp : ProcOK proc) (st : St) (log : List (Nat × Wire)) (hinv : NetInv tp st)
    (hlog : NodesLog tp log st.nodes) (i : Nat) (r : Int × List (Topic × Msg))
    (h : handedData i (.base (.nodeRecv i)) (lstep tp proc st (.base (.nodeRecv i))).2 = some r) :
    ∀ q ∈ r.2, q.2.mid = r.1 ∧ q.2.topic = q.1 ∧ ∃ u w, (tp.upsOf i)[q.2.src]? = some u ∧ (u, w) ∈ log ∧
      w.mid = r.1 ∧ w.body = q.2.body ∧ Recv.decodeTopic w.frame0 = q.1 ∧ w.frame0 ≠ "//" := by
  simp only [lstep, step] at h
  rcases stepRecv_relay_inv tp proc st i r h with ⟨nd, bal, hn, hpn, _, hret⟩
  have hnd := hinv.nodes i nd hn
  rcases hlog i nd hn with ⟨hist, h1, h2⟩
  have hh : HistOK hist := fun j w hw => (h2 j w hw).1
  have hset := (nodeInv_afterRecv tp proc hp st.tbl i nd (List.range nd.con.srcs.length) hnd hpn).2 r.1 bal r.2 hret
  have hm := retOf_mem _ r.1 bal r.2 hret
  have hv := call0_retVerb nd.con hist nd.recvState (List.range nd.con.srcs.length) h1 hh hnd.conIdle hnd.rstate _ hm
  intro q hq
  rcases hv q hq with ⟨w, hw, e1, e2, e3, e4⟩
  have ⟨s1, _, s3, _⟩ := hset q hq
  have hne : w.frame0 ≠ "//" := by
    intro hc
    rw [hc, decode_hb2] at e4
    exact s3 e4
  refine ⟨s1, by rw [e3, e4], ?_⟩
  rcases (h2 q.2.src w hw).2 with hb | ⟨u, hu, hm⟩
  · exact absurd hb hne
  · exact ⟨u, w, hu, hm, by rw [← e1]; exact s1, e2.symm, e4.symm, hne⟩

/-- **C02 (unaltered, network level, lossy network)**: run ANY lossy schedule `pre` from the initial state; if the next
`nodeRecv i` hands node `i`'s `process()` a set under id `k` (observation `.rcvd outs (some k) (some frames)`), then `frames` are
the frames `data` that `recv` returned (`retOf outs`), looked up in the ghost table, and every frame `q` of `data` — topic `q.1`,
attributed to source `q.2.src` — is a wire message `w` that the upstream node `u` this source is connected to put on its PUB socket
during `pre` (`sentLog`: it occurs in the `.sent` observation of a `nodeSend u`), with the same id `k`, a data frame (not `//`) whose
topic frame decodes to `q.1`, and the same payload identity — so the content and origin handed over are those of `w.body` -/
theorem C02_netl_verbatim (tp : Topo) (proc : Proc) (hp : ProcOK proc) (pre : List LEv) (i : Nat)
    (outs : List Recv.Out) (k : Int) (frames : List HFrame)
    (h : (lstep tp proc (lrun tp proc (init tp) pre).1 (.base (.nodeRecv i))).2 = .rcvd outs (some k) (some frames)) :
    ∃ data, handedData i (.base (.nodeRecv i)) (lstep tp proc (lrun tp proc (init tp) pre).1 (.base (.nodeRecv i))).2 = some (k, data) ∧
      frames = data.map (hframe (lrun tp proc (init tp) pre).1.tbl) ∧
      ∀ q ∈ data, q.2.mid = k ∧ q.2.topic = q.1 ∧
        ∃ u w, (tp.upsOf i)[q.2.src]? = some u ∧ (u, w) ∈ sentLog tp proc (init tp) pre ∧
          w.mid = k ∧ w.body = q.2.body ∧ Recv.decodeTopic w.frame0 = q.1 ∧ w.frame0 ≠ "//" ∧
          (hframe (lrun tp proc (init tp) pre).1.tbl q).content = contentOf (lrun tp proc (init tp) pre).1.tbl w.body ∧
          (hframe (lrun tp proc (init tp) pre).1.tbl q).orig = originOf (lrun tp proc (init tp) pre).1.tbl w.body := by
  have hinv := netInv_lrun tp proc hp pre (init tp) (netInv_init tp)
  have hlog := nodesLog_lrun tp proc hp pre (init tp) [] (netInv_init tp) (nodesLog_init tp)
  rw [List.nil_append] at hlog
  rcases obs_handedData tp proc _ i outs k frames h with ⟨data, hd, hf⟩
  refine ⟨data, hd, hf, ?_⟩
  intro q hq
  have ⟨a, b, u, w, c1, c2, c3, c4, c5, c6⟩ := handed_verbatim tp proc hp _ _ hinv hlog i (k, data) hd q hq
  exact ⟨a, b, u, w, c1, c2, c3, c4, c5, c6, by simp only [hframe, c4], by simp only [hframe, c4]⟩

/-! ## at most once -/

theorem handedSeq_ownId (tp : Topo) (proc : Proc) (hp : ProcOK proc) (i : Nat) : ∀ (evs : List LEv) (st : St), NetInv tp st →
    ∀ r ∈ handedSeq tp proc i st evs, ∀ q ∈ r.2, q.2.mid = r.1 := by
  intro evs
  induction evs with
  | nil => intro st _ r hr; cases hr
  | cons e es ih =>
    intro st hinv r hr
    simp only [handedSeq, List.mem_append, Option.mem_toList] at hr
    rcases hr with hr | hr
    · have he := handedData_ev i e _ r hr
      subst he
      simp only [lstep, step] at hr
      rcases stepRecv_relay_inv tp proc st i r hr with ⟨nd, bal, hn, hpn, _, hret⟩
      have hset := (nodeInv_afterRecv tp proc hp st.tbl i nd (List.range nd.con.srcs.length) (hinv.nodes i nd hn) hpn).2 r.1 bal r.2 hret
      intro q hq; exact (hset q hq).1
    · exact ih _ (netInv_lstep tp proc hp st e hinv) r hr

/-- **C02 (at most once, network level, lossy network)**: along any lossy schedule from any state satisfying the network invariant
(every lossy-reachable state), while node `i` is not restarted: every frame handed to its `process()` sits in the set of its own
id, and of two handed sets the earlier one holds only frames with strictly smaller ids than the later one.  A wire message has one
id, so no wire message is handed twice to one incarnation — whatever was lost, doubled, re-requested or re-sent -/
theorem C02_netl_at_most_once (tp : Topo) (proc : Proc) (hp : ProcOK proc) (i : Nat) (st : St) (hr : ReachableL tp proc st)
    (evs : List LEv) (hnr : ∀ e ∈ evs, isRestartOfL i e = false) :
    (∀ r ∈ handedSeq tp proc i st evs, ∀ q ∈ r.2, q.2.mid = r.1) ∧
    (handedSeq tp proc i st evs).Pairwise (fun a b => a.1 < b.1 ∧ ∀ p ∈ a.2, ∀ q ∈ b.2, p.2.mid < q.2.mid ∧ p.2 ≠ q.2) := by
  have hinv := C01_netl_inv_reachable tp proc hp st hr
  have hown := handedSeq_ownId tp proc hp i evs st hinv
  refine ⟨hown, ?_⟩
  refine List.Pairwise.imp_of_mem ?_ (handedSeq_order tp proc hp i evs st hinv hnr)
  intro a b hma hmb hab
  refine ⟨hab, fun p hp' q hq => ?_⟩
  have h1 := hown a hma p hp'
  have h2 := hown b hmb q hq
  refine ⟨by omega, fun heq => ?_⟩
  rw [heq] at h1; omega

/-! ## both, for a whole run -/

theorem sentLog_append (tp : Topo) (proc : Proc) : ∀ (a b : List LEv) (st : St),
    sentLog tp proc st (a ++ b) = sentLog tp proc st a ++ sentLog tp proc (lrun tp proc st a).1 b := by
  intro a
  induction a with
  | nil => intro b st; rfl
  | cons e es ih => intro b st; simp only [List.cons_append, sentLog, lrun, ih, List.append_assoc]

theorem handedSeq_verbatim (tp : Topo) (proc : Proc) (hp : ProcOK proc) (i : Nat) : ∀ (evs : List LEv) (st : St)
    (log : List (Nat × Wire)), NetInv tp st → NodesLog tp log st.nodes →
    ∀ r ∈ handedSeq tp proc i st evs, ∀ q ∈ r.2, q.2.topic = q.1 ∧
      ∃ u w, (tp.upsOf i)[q.2.src]? = some u ∧ (u, w) ∈ log ++ sentLog tp proc st evs ∧
        w.mid = r.1 ∧ w.body = q.2.body ∧ Recv.decodeTopic w.frame0 = q.1 ∧ w.frame0 ≠ "//" := by
  intro evs
  induction evs with
  | nil => intro st log _ _ r hr; cases hr
  | cons e es ih =>
    intro st log hinv hlog r hr q hq
    simp only [handedSeq, List.mem_append, Option.mem_toList] at hr
    rcases hr with hr | hr
    · have he := handedData_ev i e _ r hr
      subst he
      have ⟨_, b, u, w, c1, c2, c3⟩ := handed_verbatim tp proc hp st log hinv hlog i r hr q hq
      exact ⟨b, u, w, c1, List.mem_append_left _ c2, c3⟩
    · have ⟨b, u, w, c1, c2, c3⟩ := ih _ _ (netInv_lstep tp proc hp st e hinv) (nodesLog_lstep tp proc hp st e log hinv hlog) r hr q hq
      refine ⟨b, u, w, c1, ?_, c3⟩
      simp only [sentLog]
      rw [← List.append_assoc]; exact c2

/-- **C02 (at most once, unaltered — network level, lossy network)**: run any lossy schedule `pre` from the initial state, then any
lossy schedule `evs` that does not restart node `i` (everything else may happen: other nodes restart, wire messages and requests
are lost, requests are doubled).  For the sets `(k, data)` handed to `process()` of node `i` during `evs`:
(1) *unaltered*: every frame `q` of `data` (topic `q.1`) is a wire message `w` that the upstream node `u` its source is connected to put
    on its PUB socket during the run, under id `k`, on that topic, with the same payload identity `body`;
(2) every frame carries the id of its set;
(3) *at most once, in order*: of two handed sets the earlier one has the smaller id and holds only frames with strictly smaller ids —
    no wire message is handed twice to this incarnation of node `i` -/
theorem C02_netl_at_most_once_verbatim (tp : Topo) (proc : Proc) (hp : ProcOK proc) (i : Nat) (pre evs : List LEv)
    (hnr : ∀ e ∈ evs, isRestartOfL i e = false) :
    (∀ r ∈ handedSeq tp proc i (lrun tp proc (init tp) pre).1 evs, ∀ q ∈ r.2, q.2.mid = r.1 ∧ q.2.topic = q.1 ∧
      ∃ u w, (tp.upsOf i)[q.2.src]? = some u ∧ (u, w) ∈ sentLog tp proc (init tp) (pre ++ evs) ∧
        w.mid = r.1 ∧ w.body = q.2.body ∧ Recv.decodeTopic w.frame0 = q.1 ∧ w.frame0 ≠ "//") ∧
    (handedSeq tp proc i (lrun tp proc (init tp) pre).1 evs).Pairwise
      (fun a b => a.1 < b.1 ∧ ∀ p ∈ a.2, ∀ q ∈ b.2, p.2.mid < q.2.mid ∧ p.2 ≠ q.2) := by
  have hinv := netInv_lrun tp proc hp pre (init tp) (netInv_init tp)
  have hlog := nodesLog_lrun tp proc hp pre (init tp) [] (netInv_init tp) (nodesLog_init tp)
  rw [List.nil_append] at hlog
  have hreach := reachableL_lrun tp proc pre (init tp) .init
  have ⟨hown, hpair⟩ := C02_netl_at_most_once tp proc hp i _ hreach evs hnr
  refine ⟨?_, hpair⟩
  intro r hr q hq
  have ⟨b, u, w, c1, c2, c3⟩ := handedSeq_verbatim tp proc hp i evs _ _ hinv hlog r hr q hq
  exact ⟨hown r hr q hq, b, u, w, c1, by rw [sentLog_append]; exact c2, c3⟩

/-! ## unaltered, end to end: what `process()` of the consumer is handed is what `process()` of the producer returned -/

theorem recLog_mem (tp : Topo) (proc : Proc) : ∀ (evs : List LEv) (st : St) (r : Rec), r ∈ recLog tp proc st evs →
    ∃ a e b, evs = a ++ e :: b ∧ r ∈ recsOf tp (lrun tp proc st a).1 e := by
  intro evs
  induction evs with
  | nil => intro st r h; cases h
  | cons e es ih =>
    intro st r h
    simp only [recLog, List.mem_append] at h
    rcases h with h | h
    · exact ⟨[], e, es, rfl, h⟩
    · rcases ih _ r h with ⟨a, e', b, he, hr⟩
      exact ⟨e :: a, e', b, by rw [he]; rfl, hr⟩

/-- **C02 (unaltered, end to end, lossy network)**: run ANY lossy schedule `pre` from the initial state; if the next `nodeRecv i`
hands node `i`'s `process()` a set under id `k`, then for EVERY frame `f` of that set there is an upstream node `u` of `i` and an
EARLIER event `nodeSend u @t` of the run (`pre = pre1 ++ nodeSend u t :: post`) at which `u` held the pending result `pd` of a call
of ITS process function (`pd.res = process_frames (proc u n hd)`: the `n`-th call, on the set `hd`), standing for the dict `d`
(`dictOf pd.res = some d`), sent it under id `k` (`sendId nd = k`), and `(f.topic, f.content)` is an entry of `d`: topic and payload content handed to the consumer are
exactly a topic and its payload as the producer's `process()` returned them, under the id the producer sent them with — through any
loss of wire messages, loss and duplication of requests, restarts, time-outs and re-sends.  (Which entries of `d` arrive is not
claimed: hidden topics `_t` are not subscribed, and under loss a whole set may never be handed — see `exLossy`.) -/
theorem C02_netl_end_to_end (tp : Topo) (proc : Proc) (hp : ProcOK proc) (pre : List LEv) (i : Nat)
    (outs : List Recv.Out) (k : Int) (frames : List HFrame)
    (h : (lstep tp proc (lrun tp proc (init tp) pre).1 (.base (.nodeRecv i))).2 = .rcvd outs (some k) (some frames)) :
    ∀ f ∈ frames, f.mid = k ∧ ∃ u ∈ tp.upsOf i, ∃ pre1 t post nd pd d,
      pre = pre1 ++ .base (.nodeSend u t) :: post ∧
      (lrun tp proc (init tp) pre1).1.nodes[u]? = some nd ∧ nd.pending = some pd ∧
      (∃ n hd, pd.res = Loop.processFrames (proc u n hd)) ∧ dictOf pd.res = some d ∧ sendId nd = k ∧
      (f.topic, f.content) ∈ d := by
  rcases C02_netl_verbatim tp proc hp pre i outs k frames h with ⟨data, _, hf, hall⟩
  subst hf
  intro f hfm
  rw [List.mem_map] at hfm
  rcases hfm with ⟨q, hq, rfl⟩
  have ⟨a1, _, u, w, c1, c2, c3, c4, c5, c6, _, _⟩ := hall q hq
  refine ⟨a1, u, List.mem_of_getElem? c1, ?_⟩
  -- the record behind the logged message
  rw [← recLog_proj, List.mem_map] at c2
  rcases c2 with ⟨r, hr, hru⟩
  rcases r with ⟨u', w', d⟩
  simp only [Prod.mk.injEq] at hru
  rcases hru with ⟨rfl, rfl⟩
  have hinv0 := netInv_init tp
  have hok := recLog_ok tp proc hp pre (init tp) [] hinv0 (by intro x hx; cases hx) (u', w', d) (by simpa using hr)
  rcases hok with hb | ⟨_, hmem⟩
  · exact absurd hb c6
  · simp only at hmem
    rw [c5, c4] at hmem
    rcases recLog_mem tp proc pre (init tp) _ hr with ⟨pre1, e, post, hpre, hrec⟩
    rcases recsOf_spec tp _ e _ hrec with ⟨t, nd, pd, he, hn, hpend, hd, hw⟩
    simp only at he hn hd hw
    subst he
    have hdict : dictOf pd.res = some d := by
      cases hc : dictOf pd.res with
      | none => rw [hc] at hd; simp only [Option.getD_none] at hd; rw [hd] at hmem; cases hmem
      | some d' => rw [hc] at hd; simp only [Option.getD_some] at hd; rw [hd]
    have hinv1 := netInv_lrun tp proc hp pre1 (init tp) hinv0
    have hnd := hinv1.nodes u' nd hn
    rw [List.mem_filterMap] at hw
    rcases hw with ⟨o, ho, hwo⟩
    have hgood := send0_pubs nd.pub nd.sendState (payloadOf (lrun tp proc (init tp) pre1).1.tbl.length pd.res) false [0] t hnd.pubIdle o ho
    have hmid : sendId nd = k := by
      cases o with
      | pub out f0 mid ts bal body =>
        simp only [wireOf] at hwo
        split at hwo
        · simp only [Option.some.injEq] at hwo
          subst hwo
          rw [← callId_sendId, ← hgood.1]; exact c3
        · cases hwo
      | hello out =>
        simp only [wireOf, Option.some.injEq] at hwo
        subst hwo
        exact absurd rfl c6
      | oob b => cases hwo
      | evaluated => cases hwo
      | ret n => cases hwo
      | retNone => cases hwo
    have hpp := nodesPP_lrun tp proc pre1 (init tp) (nodesPP_init tp proc) u' nd hn pd hpend
    exact ⟨pre1, t, post, nd, pd, d, hpre, hn, hpend, hpp, hdict, hmid, hmem⟩

/-! ## non-vacuity and negative witnesses (the run `exLossy` of `C01NetLossy.lean`: chain 0 → 1 → 2, two topics per set) -/

/-- the hypothesis of `C02_netl_order` / `…_at_most_once…` holds for `exLossy` and node 1 (nobody is restarted) -/
example : ∀ e ∈ exLossy, isRestartOfL 1 e = false := by decide

/-- 45 events; the `/aux/` message of the first set (id 0) is lost in the MIDDLE of the set, a request is doubled, a request is lost:
the relay is handed the sets of ids 1 and 2, in order; id 0 is never handed (no completeness under loss) -/
example : idsTo 1 exLossy (lrun exlTopo exlProc (init exlTopo) exLossy).2 = [1, 2] ∧
    idsTo 2 exLossy (lrun exlTopo exlProc (init exlTopo) exLossy).2 = [1, 2] := by decide +kernel

/-- … and what it is handed are the wire messages the source put on its PUB socket under these ids: frame `main` of the set of id 1
is the message `/main/` with id 1 and payload identity 7 of the log, frame `aux` the message `/aux/` with identity 8 -/
example : handedSeq exlTopo exlProc 1 (init exlTopo) exLossy =
      [(1, [("main", ⟨1, "main", 7, 0⟩), ("aux", ⟨1, "aux", 8, 0⟩)]), (2, [("main", ⟨2, "main", 17, 0⟩), ("aux", ⟨2, "aux", 18, 0⟩)])] ∧
    (0, (⟨"/main/", "N0", 1, ["main", "aux"], 0, 7⟩ : Wire)) ∈ sentLog exlTopo exlProc (init exlTopo) exLossy ∧
    (0, (⟨"/aux/", "N0", 1, ["main", "aux"], 0, 8⟩ : Wire)) ∈ sentLog exlTopo exlProc (init exlTopo) exLossy := by decide +kernel

/-- what an observation shows as handed: (id, [(topic, content)]) -/
def obsHanded : Obs → Option (Int × List (Topic × Nat))
  | .rcvd _ (some k) (some fs) => some (k, fs.map fun f => (f.topic, f.content))
  | _ => none

/-- the hypothesis of `C02_netl_verbatim` / `C02_netl_end_to_end` is satisfiable after faults: after the first 22 events of `exLossy`
(the `/aux/` message of id 0 lost, a request doubled) the next `nodeRecv 1` hands the relay the set of id 1 — `(main, 10)`, `(aux, 11)`,
the dict the source's `process()` returned in its second call and sent under id 1 -/
example : obsHanded (lstep exlTopo exlProc (lrun exlTopo exlProc (init exlTopo) (exLossy.take 22)).1 (.base (.nodeRecv 1))).2 =
    some (1, [("main", 10), ("aux", 11)]) := by decide +kernel

/-- the source restarts (its counter starts again at 0) AND the relay restarts -/
def exRestartBoth : List LEv :=
  exlRound 1100 ++ exlRound 1200 ++ exlRound 1300 ++ exlRound 1400 ++ [.base (.restart 0 false), .base (.restart 1 false)] ++
  exlRound 1500 ++ exlRound 1600 ++ exlRound 1700 ++ exlRound 1800

/-- **the hypothesis "node `i` is not restarted" is needed**: the second incarnation of the relay is handed id 0 again (it is a
different frame: the new source's first) — per incarnation the ids increase, across a restart they need not -/
example : idsTo 1 exRestartBoth (lrun exlTopo exlProc (init exlTopo) exRestartBoth).2 = [0, 0, 1] := by decide +kernel

end OF.Net.Lossy
