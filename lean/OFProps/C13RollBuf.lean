import OFModel.RollBuf
import OFProps.C13
/-!
# C13 — "nothing is duplicated, reordered or torn" for a writer that does not flush after every write

Model: `OFModel/RollBuf.lean` (CPython's `io.BufferedWriter` below the writer side of `RollLog.write/flush/close`).
All theorems are for EVERY op sequence (`write` with any records, any record sizes, any per-call flush flag; explicit
`flush`; `close`; calls after `close`), every buffer size `cap` (0 included), every `file_size`.

* `C13_buf_whole_records` — after every op, the files as ANOTHER handle sees them hold whole records only: file by file
  the bytes are the bytes of a group of records, and the groups, in file order, are a prefix of the records written so
  far; in particular the bytes on disk are a prefix of the written byte stream that ends at a record boundary.
* `C13_buf_nothing_lost` — disk followed by what the file object holds is exactly the written byte stream.
* `C13_buf_flush_complete` — after a write with the flush flag, after `flush()`, after `close()` and after a roll-over
  the file object holds nothing: the files hold everything written, each file all of its records.
* `C13_buf_order` — the record ids on disk are a prefix of the ids written: in writing order, nothing twice.
* `C13_buf_two_calls_torn` — NEGATIVE: handing record and delimiter to the file object with two calls (`Calls.two`)
  leaves a record without its delimiter on disk as soon as the record is longer than the buffer.
* `C13_buf_refines_flushed` — with the flush flag on every write this writer produces exactly the inodes of
  `OFModel/RollLog.lean` (the model of all other C13 theorems) and holds nothing back.
* `C13_buf_vs_flushed` — without the flag the files are those of the flushed run with the last one cut back to a
  record boundary.
-/
namespace OF.RollBuf
open OF.RollLog (Rec recsSize)

/-! ## bytes -/

/-- a byte of the log: (record id, index within the record) -/
abbrev Byte := Nat × Nat

def Piece.bytes (p : Piece) : List Byte := (List.range p.len).map (fun i => (p.rid, p.off + i))

def piecesBytes (ps : List Piece) : List Byte := ps.flatMap Piece.bytes

/-- the bytes of a record, delimiter (the last one) included -/
def recBytes (r : Rec) : List Byte := (List.range r.size).map (fun i => (r.id, i))

/-- the byte stream a list of records stands for -/
def recsBytes (rs : List Rec) : List Byte := rs.flatMap recBytes

theorem whole_bytes (r : Rec) : (whole r).bytes = recBytes r := by
  simp [Piece.bytes, whole, recBytes]

theorem piecesBytes_map_whole (rs : List Rec) : piecesBytes (rs.map whole) = recsBytes rs := by
  induction rs with
  | nil => rfl
  | cons r rs ih =>
    simp only [piecesBytes, recsBytes, List.map_cons, List.flatMap_cons] at ih ⊢
    rw [ih, whole_bytes]

theorem piecesBytes_append (a b : List Piece) : piecesBytes (a ++ b) = piecesBytes a ++ piecesBytes b := by
  simp [piecesBytes]

theorem recsBytes_append (a b : List Rec) : recsBytes (a ++ b) = recsBytes a ++ recsBytes b := by
  simp [recsBytes]

theorem recsBytes_prefix {a b : List Rec} (h : a <+: b) : recsBytes a <+: recsBytes b := by
  obtain ⟨t, rfl⟩ := h
  rw [recsBytes_append]
  exact List.prefix_append _ _

theorem whole_injective : Function.Injective whole := by
  intro a b h
  cases a; cases b
  simp only [whole, Rec.size, Piece.mk.injEq] at h
  simp only [Rec.mk.injEq]
  omega

theorem piecesLen_append (a b : List Piece) : piecesLen (a ++ b) = piecesLen a + piecesLen b := by
  induction a with
  | nil => simp [piecesLen]
  | cons x xs ih => simp [piecesLen, ih]; omega

theorem piecesLen_map_whole (rs : List Rec) : piecesLen (rs.map whole) = recsSize rs := by
  induction rs with
  | nil => rfl
  | cons r rs ih => simp only [List.map_cons, piecesLen, recsSize, ih, whole]

/-! ## the file object: nothing is lost, nothing is cut -/

theorem BufWriter.write_all (f : BufWriter) (d : List Piece) :
    (f.write d).disk ++ (f.write d).buf = f.disk ++ f.buf ++ d := by
  unfold BufWriter.write
  split
  · simp
  · split <;> simp

theorem BufWriter.write_cap (f : BufWriter) (d : List Piece) : (f.write d).cap = f.cap := by
  unfold BufWriter.write
  split
  · rfl
  · split <;> rfl

theorem BufWriter.flush_all (f : BufWriter) : f.flush.disk ++ f.flush.buf = f.disk ++ f.buf := by
  simp [BufWriter.flush]

theorem BufWriter.flush_buf (f : BufWriter) : f.flush.buf = [] := rfl

theorem BufWriter.flush_disk (f : BufWriter) : f.flush.disk = f.disk ++ f.buf := rfl

theorem writeCalls_all (ds : List (List Piece)) : ∀ (f : BufWriter),
    (writeCalls f ds).disk ++ (writeCalls f ds).buf = f.disk ++ f.buf ++ ds.flatten := by
  induction ds with
  | nil => intro f; simp [writeCalls]
  | cons d ds ih =>
    intro f
    simp only [writeCalls, List.flatten_cons]
    rw [ih, BufWriter.write_all]
    simp

/-! ## the writer: content = disk ++ buffer -/

/-- the pieces handed to the file object for a list of records -/
def pieceStream (c : Calls) (recs : List Rec) : List Piece := (callsOf c recs).flatten

theorem pieceStream_one (recs : List Rec) : pieceStream .one recs = recs.map whole := by
  simp [pieceStream, callsOf]

theorem pieceStream_append (c : Calls) (a b : List Rec) : pieceStream c (a ++ b) = pieceStream c a ++ pieceStream c b := by
  cases c <;> simp [pieceStream, callsOf]

/-- everything handed to the writer's file objects, in order: the files as on disk, then what the file object holds -/
def Writer.content (w : Writer) : List Piece := w.files.flatten ++ w.pending

theorem Writer.content_eq (w : Writer) :
    w.content = w.done.flatten ++ (match w.cur with | some c => c.f.disk ++ c.f.buf | none => []) := by
  unfold Writer.content Writer.files Writer.pending
  cases w.cur <;> simp

theorem content_writeOpen (w : Writer) (recs : List Rec) (fl : Bool) :
    (w.writeOpen recs fl).content = w.content ++ pieceStream w.calls recs := by
  have hc : w.content = w.done.flatten ++ (w.curOrNew.f.disk ++ w.curOrNew.f.buf) := by
    rw [Writer.content_eq]
    unfold Writer.curOrNew
    cases w.cur <;> simp [BufWriter.create]
  have ha := writeCalls_all (callsOf w.calls recs) w.curOrNew.f
  rw [hc]
  unfold Writer.writeOpen
  simp only
  split
  · rw [Writer.content_eq]
    simp only [List.flatten_append, List.flatten_cons, List.flatten_nil, List.append_nil, BufWriter.flush_disk]
    rw [ha]
    simp [pieceStream]
  · rw [Writer.content_eq]
    simp only
    split
    · rw [BufWriter.flush_all, ha]; simp [pieceStream]
    · rw [ha]; simp [pieceStream]

theorem content_flushCur (w : Writer) : w.flushCur.content = w.content := by
  rw [Writer.content_eq, Writer.content_eq]
  unfold Writer.flushCur
  cases h : w.cur with
  | none => simp [h]
  | some c => simp [BufWriter.flush]

theorem content_closeAll (w : Writer) : w.closeAll.content = w.content := by
  rw [Writer.content_eq, Writer.content_eq]
  unfold Writer.closeAll
  cases h : w.cur with
  | none => simp
  | some c => simp [BufWriter.flush]

theorem closeAll_closed (w : Writer) : w.closeAll.closed = true := by
  unfold Writer.closeAll; cases w.cur <;> rfl

theorem step_calls (w : Writer) (op : Op) : (step w op).1.calls = w.calls := by
  cases op with
  | write recs fl =>
    simp only [step]
    split
    · rfl
    · unfold Writer.writeOpen; simp only; split <;> rfl
  | flush => simp only [step, Writer.flushCur]; cases w.cur <;> rfl
  | close => simp only [step, Writer.closeAll]; cases w.cur <;> rfl

theorem step_closed_of_closed (w : Writer) (op : Op) (h : w.closed = true) : (step w op).1.closed = true := by
  cases op with
  | write recs fl => simp [step, h]
  | flush => simp only [step, Writer.flushCur]; cases w.cur <;> exact h
  | close => exact closeAll_closed w

theorem step_content_of_closed (w : Writer) (op : Op) (h : w.closed = true) : (step w op).1.content = w.content := by
  cases op with
  | write recs fl => simp [step, h]
  | flush => exact content_flushCur w
  | close => exact content_closeAll w

theorem run_content_of_closed (ops : List Op) : ∀ (w : Writer), w.closed = true → (run w ops).content = w.content := by
  induction ops with
  | nil => intro w _; rfl
  | cons op ops ih =>
    intro w h
    simp only [run]
    rw [ih _ (step_closed_of_closed w op h), step_content_of_closed w op h]

theorem writeOpen_closed (w : Writer) (recs : List Rec) (fl : Bool) : (w.writeOpen recs fl).closed = w.closed := by
  unfold Writer.writeOpen; simp only; split <;> rfl

theorem flushCur_closed (w : Writer) : w.flushCur.closed = w.closed := by
  unfold Writer.flushCur; cases w.cur <;> rfl

/-- **nothing lost, nothing invented, nothing reordered** (any `Calls`): along any op sequence the content grows by exactly the
pieces of the accepted records -/
theorem run_content (ops : List Op) : ∀ (w : Writer), w.closed = false →
    (run w ops).content = w.content ++ pieceStream w.calls (written ops) := by
  induction ops with
  | nil => intro w _; simp [run, written, pieceStream]; cases w.calls <;> simp [callsOf]
  | cons op ops ih =>
    intro w h
    cases op with
    | write recs fl =>
      have hs : (step w (.write recs fl)).1 = w.writeOpen recs fl := by simp [step, h]
      simp only [run, written]
      rw [hs, ih _ (by rw [writeOpen_closed]; exact h), content_writeOpen, pieceStream_append]
      have : (w.writeOpen recs fl).calls = w.calls := by rw [← hs]; exact step_calls w _
      rw [this]; simp
    | flush =>
      simp only [run, written, step]
      rw [ih _ (by rw [flushCur_closed]; exact h), content_flushCur]
      have : w.flushCur.calls = w.calls := step_calls w .flush
      rw [this]
    | close =>
      simp only [run, written, step]
      rw [run_content_of_closed _ _ (closeAll_closed w), content_closeAll]
      simp [pieceStream]; cases w.calls <;> simp [callsOf]

/-! ## from pieces to groups of records -/

/-- files whose concatenation (followed by some rest) is a list of whole records are groups of whole records -/
theorem groups_of_flatten (fs : List (List Piece)) : ∀ (W : List Rec) (rest : List Piece),
    fs.flatten ++ rest = W.map whole →
    ∃ groups : List (List Rec), fs = groups.map (·.map whole) ∧ ∃ tail : List Rec, W = groups.flatten ++ tail ∧ rest = tail.map whole := by
  induction fs with
  | nil =>
    intro W rest h
    exact ⟨[], rfl, W, by simp, by simpa using h⟩
  | cons f fs ih =>
    intro W rest h
    simp only [List.flatten_cons, List.append_assoc] at h
    obtain ⟨W1, W2, hW, h1, h2⟩ := List.map_eq_append_iff.mp h.symm
    obtain ⟨groups, hg, tail, ht, hr⟩ := ih W2 rest h2.symm
    refine ⟨W1 :: groups, by simp [hg, h1], tail, by simp [hW, ht], hr⟩

/-! ## the property theorems -/

/-- **C13 (unflushed writer: whole records only)**.  After every op of any op sequence, with the real code's one
`write_file.write` per call: the files as another handle sees them are, file by file, the bytes of groups of whole
records; the groups in file order are a prefix of the records written so far; so the bytes on disk are a prefix of the
written byte stream ending at a record boundary - a follower never sees a torn record, whatever the record sizes, the
buffer size, `file_size` and the flush flags. -/
theorem C13_buf_whole_records (cap fsz : Nat) (ops : List Op) :
    let w := run (init cap fsz .one) ops
    ∃ groups : List (List Rec),
      groups.flatten <+: written ops ∧
      w.files.map piecesBytes = groups.map recsBytes ∧
      piecesBytes w.files.flatten = recsBytes groups.flatten ∧
      piecesBytes w.files.flatten <+: recsBytes (written ops) := by
  intro w
  have hc : w.content = (written ops).map whole := by
    have := run_content ops (init cap fsz .one) rfl
    rw [this]
    simp [Writer.content, Writer.files, Writer.pending, init, pieceStream_one]
  obtain ⟨groups, hg, tail, ht, _⟩ := groups_of_flatten w.files (written ops) w.pending hc
  have hp : groups.flatten <+: written ops := ⟨tail, ht.symm⟩
  have hb : piecesBytes w.files.flatten = recsBytes groups.flatten := by
    rw [hg, ← piecesBytes_map_whole]
    congr 1
    simp [List.map_flatten]
  refine ⟨groups, hp, ?_, hb, ?_⟩
  · rw [hg]
    simp only [List.map_map]
    apply List.map_congr_left
    intro g _
    exact piecesBytes_map_whole g
  · rw [hb]; exact recsBytes_prefix hp

/-- non-vacuity (kernel-evaluated TEST): buffer of 8 bytes, records of 5, 4, 9+2 (one call) and 3 bytes, nothing flushed: the first
record reaches the disk when the second does not fit, the 11-byte call goes straight through behind the flushed buffer,
the last record waits -/
example : (run (init 8 100 .one) [.write [⟨0, 4⟩] false, .write [⟨1, 3⟩] false, .write [⟨2, 8⟩, ⟨3, 1⟩] false, .write [⟨4, 2⟩] false]).files
      = [[whole ⟨0, 4⟩, whole ⟨1, 3⟩, whole ⟨2, 8⟩, whole ⟨3, 1⟩]]
    ∧ (run (init 8 100 .one) [.write [⟨0, 4⟩] false, .write [⟨1, 3⟩] false, .write [⟨2, 8⟩, ⟨3, 1⟩] false, .write [⟨4, 2⟩] false]).pending
      = [whole ⟨4, 2⟩]
    ∧ (run (init 8 100 .one) [.write [⟨0, 4⟩] false, .write [⟨1, 3⟩] false]).files = [[whole ⟨0, 4⟩]] := by decide +kernel

/-- **C13 (unflushed writer: nothing lost)**: the bytes on disk followed by the bytes the file object holds are exactly
the written byte stream. -/
theorem C13_buf_nothing_lost (cap fsz : Nat) (ops : List Op) :
    let w := run (init cap fsz .one) ops
    piecesBytes w.files.flatten ++ piecesBytes w.pending = recsBytes (written ops) := by
  intro w
  have hc : w.content = (written ops).map whole := by
    have := run_content ops (init cap fsz .one) rfl
    rw [this]
    simp [Writer.content, Writer.files, Writer.pending, init, pieceStream_one]
  rw [← piecesBytes_append, ← piecesBytes_map_whole, ← hc]
  rfl

/-! ### flush / close / roll-over leave nothing in the file object -/

/-- a closed instance has no open file -/
def ClosedOk (w : Writer) : Prop := w.closed = true → w.cur = none

theorem step_closedOk (w : Writer) (op : Op) (h : ClosedOk w) : ClosedOk (step w op).1 := by
  cases op with
  | write recs fl =>
    simp only [step]
    split
    · exact h
    · rename_i hc
      intro h2
      rw [writeOpen_closed] at h2
      exact absurd h2 hc
  | flush =>
    intro h2
    simp only [step] at h2 ⊢
    rw [flushCur_closed] at h2
    simp [Writer.flushCur, h h2]
  | close =>
    intro _
    simp only [step, Writer.closeAll]
    cases w.cur <;> rfl

theorem run_closedOk (ops : List Op) : ∀ (w : Writer), ClosedOk w → ClosedOk (run w ops) := by
  induction ops with
  | nil => intro w h; exact h
  | cons op ops ih => intro w h; exact ih _ (step_closedOk w op h)

theorem run_append (a b : List Op) : ∀ (w : Writer), run w (a ++ b) = run (run w a) b := by
  induction a with
  | nil => intro w; rfl
  | cons op a ih => intro w; simp only [List.cons_append, run]; exact ih _

/-- the ops after which the file object must hold nothing: a write with the (effective) flush flag, `flush()`, `close()` -/
def Op.flushes : Op → Bool
  | .write _ fl => fl
  | .flush => true
  | .close => true

theorem step_pending_nil (w : Writer) (op : Op) (h : ClosedOk w) (hf : op.flushes = true) : (step w op).1.pending = [] := by
  cases op with
  | write recs fl =>
    simp only [Op.flushes] at hf
    subst hf
    simp only [step]
    split
    · rename_i hc; simp [Writer.pending, h hc]
    · by_cases hge : w.curOrNew.size + recsSize recs ≥ w.fileSize
      · simp [Writer.writeOpen, Writer.pending, hge]
      · simp [Writer.writeOpen, Writer.pending, hge, BufWriter.flush]
  | flush =>
    simp only [step, Writer.flushCur, Writer.pending]
    cases hcur : w.cur <;> simp [BufWriter.flush, hcur]
  | close =>
    simp only [step, Writer.closeAll, Writer.pending]
    cases hcur : w.cur <;> simp

/-- **C13 (unflushed writer: flush, close and roll-over are complete)**.  After a `write` whose flush flag is set, after
`flush()`, after `close()`, and after any op that leaves no file open (a write that rolled the file over): the file
object holds nothing; file by file the disk holds groups of whole records which together are ALL records written so
far (so each file holds all records written to it), i.e. the bytes on disk are the whole written byte stream. -/
theorem C13_buf_flush_complete (cap fsz : Nat) (ops : List Op) (op : Op) :
    let w := run (init cap fsz .one) (ops ++ [op])
    (op.flushes = true ∨ w.cur = none) →
    w.pending = [] ∧
    (∃ groups : List (List Rec), groups.flatten = written (ops ++ [op]) ∧ w.files.map piecesBytes = groups.map recsBytes) ∧
    piecesBytes w.files.flatten = recsBytes (written (ops ++ [op])) := by
  intro w hcase
  have hpend : w.pending = [] := by
    rcases hcase with hf | hn
    · have : w = (step (run (init cap fsz .one) ops) op).1 := by
        show run _ _ = _
        rw [run_append]; rfl
      rw [this]
      exact step_pending_nil _ op (run_closedOk ops _ (by intro h; cases h)) hf
    · simp [Writer.pending, hn]
  have hc : w.content = (written (ops ++ [op])).map whole := by
    have := run_content (ops ++ [op]) (init cap fsz .one) rfl
    rw [this]
    simp [Writer.content, Writer.files, Writer.pending, init, pieceStream_one]
  obtain ⟨groups, hg, tail, ht, hr⟩ := groups_of_flatten w.files (written (ops ++ [op])) w.pending hc
  have htail : tail = [] := by
    rw [hpend] at hr
    cases tail with
    | nil => rfl
    | cons a b => simp at hr
  subst htail
  have hfl : groups.flatten = written (ops ++ [op]) := by simpa using ht.symm
  refine ⟨hpend, ⟨groups, hfl, ?_⟩, ?_⟩
  · rw [hg]
    simp only [List.map_map]
    apply List.map_congr_left
    intro g _
    exact piecesBytes_map_whole g
  · have := C13_buf_nothing_lost cap fsz (ops ++ [op])
    have hp2 : piecesBytes w.pending = [] := by rw [hpend]; rfl
    change piecesBytes w.files.flatten ++ piecesBytes w.pending = _ at this
    rw [hp2, List.append_nil] at this
    exact this

/-- non-vacuity (kernel-evaluated TEST): an unflushed write leaves bytes in the file object, each of the four completing events empties it:
a write with the flag, `flush()`, `close()`, and a write that reaches `file_size` (12) -/
example : (run (init 8 100 .one) [.write [⟨0, 4⟩] false]).pending = [whole ⟨0, 4⟩]
    ∧ (run (init 8 100 .one) [.write [⟨0, 4⟩] false, .write [⟨1, 0⟩] true]).files = [[whole ⟨0, 4⟩, whole ⟨1, 0⟩]]
    ∧ (run (init 8 100 .one) [.write [⟨0, 4⟩] false, .flush]).files = [[whole ⟨0, 4⟩]]
    ∧ (run (init 8 100 .one) [.write [⟨0, 4⟩] false, .close]).files = [[whole ⟨0, 4⟩]]
    ∧ (run (init 8 12 .one) [.write [⟨0, 4⟩] false, .write [⟨1, 6⟩] false, .write [⟨2, 0⟩] false]).files = [[whole ⟨0, 4⟩, whole ⟨1, 6⟩], []]
    ∧ (run (init 8 12 .one) [.write [⟨0, 4⟩] false, .write [⟨1, 6⟩] false]).cur = none := by decide +kernel

/-- **C13 (unflushed writer: order, no duplicates)**.  The record ids on disk (all files, in file order) are a prefix of
the ids of the records written: writing order, and - if ids are written once - no id twice. -/
theorem C13_buf_order (cap fsz : Nat) (ops : List Op) :
    let w := run (init cap fsz .one) ops
    w.files.flatten.map (·.rid) <+: (written ops).map (·.id) ∧
    (((written ops).map (·.id)).Nodup → (w.files.flatten.map (·.rid)).Nodup) := by
  intro w
  have hc : w.content = (written ops).map whole := by
    have := run_content ops (init cap fsz .one) rfl
    rw [this]
    simp [Writer.content, Writer.files, Writer.pending, init, pieceStream_one]
  have hp : w.files.flatten.map (·.rid) <+: (written ops).map (·.id) := by
    have h1 : w.files.flatten <+: (written ops).map whole := ⟨w.pending, hc⟩
    have h2 := h1.map (·.rid)
    simpa [List.map_map, Function.comp_def, whole] using h2
  exact ⟨hp, fun hn => hn.sublist hp.sublist⟩

/-! ### negative witness: record and delimiter handed over with two calls -/

/-- **NEGATIVE (kernel-evaluated)**: with two `write` calls per record (`Calls.two`: record, then delimiter), a buffer of 8
bytes and one unflushed record of 9 + 1 bytes, the 9 bytes of the record go straight to the file while the delimiter
stays in the file object: the disk ends in the middle of a record - it is NOT the byte stream of any prefix of the
records written.  (`C13_buf_whole_records` is about `Calls.one`, the real code.) -/
theorem C13_buf_two_calls_torn :
    ∃ (cap fsz : Nat) (ops : List Op),
      (run (init cap fsz .two) ops).pending = [delimOf ⟨0, 9⟩] ∧
      ¬ ∃ pre : List Rec, pre <+: written ops ∧ piecesBytes (run (init cap fsz .two) ops).files.flatten = recsBytes pre := by
  refine ⟨8, 100, [.write [⟨0, 9⟩] false], by decide +kernel, ?_⟩
  rintro ⟨pre, hp, hb⟩
  have hl := hp.length_le
  have hw : written [Op.write [(⟨0, 9⟩ : Rec)] false] = [⟨0, 9⟩] := rfl
  rw [hw] at hp hl
  match pre, hp, hl with
  | [], _, _ => revert hb; decide +kernel
  | [r], hp, _ =>
    have : r = ⟨0, 9⟩ := by
      obtain ⟨t, ht⟩ := hp
      simp at ht
      exact ht.1
    subst this
    revert hb; decide +kernel
  | _ :: _ :: _, _, hl => simp at hl

/-- **NEGATIVE, in general**: with two calls per record, EVERY unflushed first record whose body is longer than the buffer
(`cap ≥ 1`, no roll-over) is on disk without its delimiter. -/
theorem C13_buf_two_calls_torn_any (cap fsz : Nat) (r : Rec) (hcap : 1 ≤ cap) (hlong : cap < r.extra) (hroll : r.size < fsz) :
    (run (init cap fsz .two) [.write [r] false]).files = [[bodyOf r]] ∧
    (run (init cap fsz .two) [.write [r] false]).pending = [delimOf r] := by
  have h1 : ¬ (r.extra ≤ cap) := by omega
  have h3 : ¬ (fsz ≤ r.size) := by omega
  simp [run, step, init, Writer.writeOpen, Writer.curOrNew, callsOf, writeCalls, BufWriter.write, BufWriter.create, piecesLen,
    bodyOf, delimOf, recsSize, Writer.files, Writer.pending, h1, hlong, hcap, h3]

/-- the same op sequence as in `C13_buf_two_calls_torn` with the real code's single call: the call is longer than the buffer and goes
to the file whole, delimiter included (kernel-evaluated TEST) -/
example : (run (init 8 100 .one) [.write [⟨0, 9⟩] false]).files = [[whole ⟨0, 9⟩]]
    ∧ (run (init 8 100 .one) [.write [⟨0, 9⟩] false]).pending = [] := by decide +kernel

/-! ## the flushed writer is the writer of `OFModel/RollLog.lean` -/

section Refine
open OF.RollLog (Sys Log FS File LF SInv WInv SameW patched lastSize appendAt unlink unlinkAll prune Who)

/-- the records of every inode, in creation order -/
def inoRecs (fs : FS) : List (List Rec) := fs.map (·.recs)

theorem unlink_inoRecs (fs : FS) (n : Nat) : inoRecs (unlink fs n) = inoRecs fs := by
  simp only [inoRecs, unlink, List.map_map]
  apply List.map_congr_left
  intro f _
  simp only [Function.comp]
  split <;> rfl

theorem unlinkAll_inoRecs (del : List LF) : ∀ (fs : FS), inoRecs (unlinkAll fs del) = inoRecs fs := by
  induction del with
  | nil => intro fs; rfl
  | cons d del ih =>
    intro fs
    have := ih (unlink fs d.ts)
    simp only [unlinkAll, List.foldl_cons] at this ⊢
    rw [this, unlink_inoRecs]

theorem prune_inoRecs (l : Log) (fs : FS) : inoRecs (prune l fs).2 = inoRecs fs := by
  rcases RollLog.prune_spec l fs with ⟨_, h, _⟩ | ⟨_, _, _, h, _⟩
  · rw [h]
  · rw [h, unlinkAll_inoRecs]

theorem appendAt_inoRecs_last (recs : List Rec) : ∀ (fs : FS) (pre : List (List Rec)) (last : List Rec),
    inoRecs fs = pre ++ [last] → inoRecs (appendAt fs pre.length recs) = pre ++ [last ++ recs] := by
  intro fs
  induction fs with
  | nil => intro pre last h; simp [inoRecs] at h
  | cons f fs ih =>
    intro pre last h
    cases pre with
    | nil =>
      simp only [inoRecs, List.map_cons, List.nil_append, List.cons.injEq] at h
      simp [inoRecs, appendAt, h.1, h.2]
    | cons p pre =>
      simp only [inoRecs, List.map_cons, List.cons_append, List.cons.injEq] at h
      have := ih pre last h.2
      simp only [inoRecs] at this
      simp [inoRecs, appendAt, h.1, this]

/-- what `RollLog.writeOpen` does, as far as the writer's files are concerned -/
theorem writeOpen_shape {fs : FS} {w : Log} (h : WInv fs w) {ino : Nat} (hw : w.writeFile = .opened ino) (recs : List Rec) :
    inoRecs (RollLog.writeOpen w fs ino recs).2 = inoRecs (appendAt fs ino recs) ∧
    (RollLog.writeOpen w fs ino recs).1.fileSize = w.fileSize ∧
    ((lastSize w.logfiles + recsSize recs ≥ w.fileSize ∧ (RollLog.writeOpen w fs ino recs).1.writeFile = .none) ∨
     (¬ lastSize w.logfiles + recsSize recs ≥ w.fileSize ∧ (RollLog.writeOpen w fs ino recs).1.writeFile = .opened ino ∧
       lastSize (RollLog.writeOpen w fs ino recs).1.logfiles = lastSize w.logfiles + recsSize recs)) := by
  have ha := h.append_ok hw recs
  obtain ⟨f, lf, hf, hlast, hname⟩ := h.wf ino hw
  have hbl := RollLog.bumpLast_getLast? w.logfiles (recsSize recs) lf hlast
  have hls : lastSize (RollLog.bumpLast w.logfiles (recsSize recs)) = lastSize w.logfiles + recsSize recs := by
    simp [lastSize, hbl, hlast]
  unfold RollLog.writeOpen
  simp only
  rw [hls]
  split
  · obtain ⟨_, _, _, hfz, hwf, hgl⟩ := ha.prune_ok
    simp only at hfz hwf hgl
    rw [hfz]
    split
    · rename_i hge
      exact ⟨prune_inoRecs _ _, by first | rfl | exact hfz, Or.inl ⟨hge, rfl⟩⟩
    · rename_i hge
      refine ⟨prune_inoRecs _ _, hfz, Or.inr ⟨hge, hwf.trans hw, ?_⟩⟩
      simp only [lastSize, hgl, hbl]
      simp [hlast]
  · split
    · rename_i hge
      exact ⟨rfl, rfl, Or.inl ⟨hge, rfl⟩⟩
    · rename_i hge
      exact ⟨rfl, rfl, Or.inr ⟨hge, hw, hls⟩⟩

/-- the flush of the file object after one `write` call on an empty buffer -/
theorem flush_write_one (f : BufWriter) (d : List Piece) (hb : f.buf = []) :
    (writeCalls f [d]).flush = ⟨f.disk ++ d, [], f.cap⟩ := by
  have h1 := BufWriter.write_all f d
  have h2 := BufWriter.write_cap f d
  simp only [writeCalls, BufWriter.flush]
  rw [h1, h2, hb]
  simp

/-- the simulation relation: the inodes of the `RollLog` system and the files of the buffered writer, nothing pending -/
structure Sim (s : Sys) (b : Writer) : Prop where
  inv : SInv s
  fsz : s.w.fileSize = b.fileSize
  one : b.calls = .one
  st : match s.w.writeFile with
    | .opened ino => ∃ (pre : List (List Rec)) (last : List Rec) (c : Cur), inoRecs s.fs = pre ++ [last] ∧ ino = pre.length ∧
        b.cur = some c ∧ b.closed = false ∧ b.done = pre.map (·.map whole) ∧ c.f.disk = last.map whole ∧ c.f.buf = [] ∧
        lastSize s.w.logfiles = c.size
    | .none => b.cur = none ∧ b.closed = false ∧ b.done = (inoRecs s.fs).map (·.map whole)
    | .closed => b.cur = none ∧ b.closed = true ∧ b.done = (inoRecs s.fs).map (·.map whole)

theorem Sim.files {s : Sys} {b : Writer} (h : Sim s b) : b.files = (inoRecs s.fs).map (·.map whole) ∧ b.pending = [] := by
  have := h.st
  split at this
  · obtain ⟨pre, last, c, h1, _, h3, _, h5, h6, h7, _⟩ := this
    simp [Writer.files, Writer.pending, h3, h1, h5, h6, h7]
  · simp [Writer.files, Writer.pending, this.1, this.2.2]
  · simp [Writer.files, Writer.pending, this.1, this.2.2]

/-- ops that leave the writer's bookkeeping and the inodes' records alone -/
theorem Sim.transfer {s s' : Sys} {b : Writer} (h : Sim s b) (hi : SInv s') (hw : SameW s'.w s.w)
    (hfs : inoRecs s'.fs = inoRecs s.fs) : Sim s' b := by
  refine ⟨hi, by rw [hw.fileSize]; exact h.fsz, h.one, ?_⟩
  have := h.st
  rw [hw.writeFile, hw.logfiles, hfs]
  exact this

theorem Sim.mk_none {s : Sys} {b : Writer} (hi : SInv s) (hf : s.w.fileSize = b.fileSize) (ho : b.calls = .one)
    (hw : s.w.writeFile = .none) (hx : b.cur = none ∧ b.closed = false ∧ b.done = (inoRecs s.fs).map (·.map whole)) : Sim s b :=
  ⟨hi, hf, ho, by rw [hw]; exact hx⟩

theorem Sim.mk_closed {s : Sys} {b : Writer} (hi : SInv s) (hf : s.w.fileSize = b.fileSize) (ho : b.calls = .one)
    (hw : s.w.writeFile = .closed) (hx : b.cur = none ∧ b.closed = true ∧ b.done = (inoRecs s.fs).map (·.map whole)) : Sim s b :=
  ⟨hi, hf, ho, by rw [hw]; exact hx⟩

theorem Sim.mk_opened {s : Sys} {b : Writer} (hi : SInv s) (hf : s.w.fileSize = b.fileSize) (ho : b.calls = .one) {ino : Nat}
    (hw : s.w.writeFile = .opened ino)
    (hx : ∃ (pre : List (List Rec)) (last : List Rec) (c : Cur), inoRecs s.fs = pre ++ [last] ∧ ino = pre.length ∧
        b.cur = some c ∧ b.closed = false ∧ b.done = pre.map (·.map whole) ∧ c.f.disk = last.map whole ∧ c.f.buf = [] ∧
        lastSize s.w.logfiles = c.size) : Sim s b :=
  ⟨hi, hf, ho, by rw [hw]; exact hx⟩

/-- after the "make sure a file is open" part of `write`, on both sides -/
structure SimOpen (l : Log) (fs : FS) (ino : Nat) (b : Writer) : Prop where
  winv : WInv fs l
  opened : l.writeFile = .opened ino
  fsz : l.fileSize = b.fileSize
  one : b.calls = .one
  notClosed : b.closed = false
  shape : ∃ (pre : List (List Rec)) (last : List Rec), inoRecs fs = pre ++ [last] ∧ ino = pre.length ∧
    b.done = pre.map (·.map whole) ∧ b.curOrNew.f.disk = last.map whole ∧ b.curOrNew.f.buf = [] ∧
    lastSize l.logfiles = b.curOrNew.size

theorem Sim.open {s : Sys} {b : Writer} (h : Sim s b) (hc : s.w.writeFile ≠ .closed) (us : Nat) :
    SimOpen (RollLog.openForWrite patched s.w s.fs us).1 (RollLog.openForWrite patched s.w s.fs us).2.1
      (RollLog.openForWrite patched s.w s.fs us).2.2.1 b := by
  obtain ⟨h1, _, h3, _, _, h6⟩ := h.inv.w.openForWrite_ok us
  have hst := h.st
  cases hwf : s.w.writeFile with
  | closed => exact absurd hwf hc
  | opened ino =>
    rw [hwf] at hst
    obtain ⟨pre, last, c, g1, g2, g3, g4, g5, g6, g7, g8⟩ := hst
    have ho : RollLog.openForWrite patched s.w s.fs us = (s.w, s.fs, ino, false) := by
      unfold RollLog.openForWrite; rw [hwf]
    rw [ho] at h1 h3 h6 ⊢
    refine ⟨h1, h3, h.fsz, h.one, g4, pre, last, g1, g2, g5, ?_, ?_, ?_⟩ <;> simp [Writer.curOrNew, g3, g6, g7, g8]
  | none =>
    rw [hwf] at hst
    obtain ⟨g1, g2, g3⟩ := hst
    have hnone : RollLog.lookup s.fs (RollLog.newTs patched s.w.logfiles us) = none :=
      RollLog.lookup_eq_none (fun e he => Nat.ne_of_lt (h.inv.w.newTs_fresh us e he))
    have ho : RollLog.openForWrite patched s.w s.fs us =
        ({ s.w with writeFile := .opened s.fs.length,
                    logfiles := s.w.logfiles ++ [⟨RollLog.newTs patched s.w.logfiles us, 0⟩] },
         s.fs ++ [⟨RollLog.newTs patched s.w.logfiles us, [], true⟩], s.fs.length, false) := by
      unfold RollLog.openForWrite; rw [hwf]; simp only [RollLog.create, hnone]
    rw [ho] at h1 h3 h6 ⊢
    refine ⟨h1, h3, h.fsz, h.one, g2, inoRecs s.fs, [], ?_, ?_, g3, ?_, ?_, ?_⟩
    · simp [inoRecs]
    · simp [inoRecs]
    · simp [Writer.curOrNew, g1, BufWriter.create]
    · simp [Writer.curOrNew, g1, BufWriter.create]
    · simp [Writer.curOrNew, g1, lastSize]

/-- the rest of `write`, on both sides: the state part of the simulation relation holds again -/
theorem SimOpen.write {l : Log} {fs : FS} {ino : Nat} {b : Writer} (h : SimOpen l fs ino b) (recs : List Rec) :
    let r := RollLog.writeOpen l fs ino recs
    let b' := b.writeOpen recs true
    r.1.fileSize = b'.fileSize ∧ b'.calls = .one ∧
    ((r.1.writeFile = .none ∧ b'.cur = none ∧ b'.closed = false ∧ b'.done = (inoRecs r.2).map (·.map whole)) ∨
     (r.1.writeFile = .opened ino ∧ ∃ (pre : List (List Rec)) (last : List Rec) (c : Cur), inoRecs r.2 = pre ++ [last] ∧ ino = pre.length ∧
        b'.cur = some c ∧ b'.closed = false ∧ b'.done = pre.map (·.map whole) ∧ c.f.disk = last.map whole ∧ c.f.buf = [] ∧
        lastSize r.1.logfiles = c.size)) := by
  intro r b'
  obtain ⟨pre, last, g1, g2, g3, g4, g5, g6⟩ := h.shape
  obtain ⟨k1, k2, k3⟩ := writeOpen_shape h.winv h.opened recs
  have hR : inoRecs r.2 = pre ++ [last ++ recs] := by
    rw [k1, g2]; exact appendAt_inoRecs_last recs fs pre last g1
  have hfl : (writeCalls b.curOrNew.f (callsOf b.calls recs)).flush = ⟨last.map whole ++ recs.map whole, [], b.curOrNew.f.cap⟩ := by
    rw [h.one]
    simp only [callsOf]
    rw [flush_write_one _ _ g5, g4]
  have hcond : (b.curOrNew.size + recsSize recs ≥ b.fileSize) ↔ (lastSize l.logfiles + recsSize recs ≥ l.fileSize) := by
    rw [g6, h.fsz]
  refine ⟨?_, ?_, ?_⟩
  · rw [k2, h.fsz]
    show _ = (b.writeOpen recs true).fileSize
    unfold Writer.writeOpen; simp only; split <;> rfl
  · show (b.writeOpen recs true).calls = _
    rw [← h.one]
    unfold Writer.writeOpen; simp only; split <;> rfl
  · rcases k3 with ⟨hge, hwf⟩ | ⟨hlt, hwf, hls⟩
    · left
      have hb : b' = { b with done := b.done ++ [last.map whole ++ recs.map whole], cur := none } := by
        show b.writeOpen recs true = _
        unfold Writer.writeOpen
        simp only [hcond.mpr hge, ↓reduceIte, hfl]
      refine ⟨hwf, by rw [hb], by rw [hb]; exact h.notClosed, ?_⟩
      rw [hb, hR, g3]
      simp
    · right
      have hb : b' = { b with cur := some ⟨⟨last.map whole ++ recs.map whole, [], b.curOrNew.f.cap⟩, b.curOrNew.size + recsSize recs⟩ } := by
        show b.writeOpen recs true = _
        unfold Writer.writeOpen
        have : ¬ (b.curOrNew.size + recsSize recs ≥ b.fileSize) := fun hx => hlt (hcond.mp hx)
        simp only [this, ↓reduceIte, hfl]
      refine ⟨hwf, pre, last ++ recs, _, hR, g2, by rw [hb], by rw [hb]; exact h.notClosed, by rw [hb]; exact g3, ?_, rfl, ?_⟩
      · simp
      · rw [hls, g6]

theorem Sim.write {s : Sys} {b : Writer} (h : Sim s b) (recs : List Rec) (us : Nat) :
    Sim (RollLog.step patched s (.write recs us)).1 (step b (.write recs true)).1 := by
  have hi := h.inv.step (.write recs us)
  by_cases hc : s.w.writeFile = .closed
  · have hst := h.st
    rw [hc] at hst
    have hs : (RollLog.step patched s (.write recs us)).1 = s := by
      simp only [RollLog.step, RollLog.write_closed _ _ _ _ _ hc]
    have hb : (step b (.write recs true)).1 = b := by simp [step, hst.2.1]
    rw [hs, hb]; exact h
  · have ho := h.open hc us
    obtain ⟨k1, k2, k3⟩ := ho.write recs
    have hb : (step b (.write recs true)).1 = b.writeOpen recs true := by simp [step, ho.notClosed]
    have hsw : (RollLog.step patched s (.write recs us)).1.w =
        (RollLog.writeOpen (RollLog.openForWrite patched s.w s.fs us).1 (RollLog.openForWrite patched s.w s.fs us).2.1
          (RollLog.openForWrite patched s.w s.fs us).2.2.1 recs).1 := by
      simp only [RollLog.step, RollLog.write_open _ _ _ _ _ hc]
    have hsf : (RollLog.step patched s (.write recs us)).1.fs =
        (RollLog.writeOpen (RollLog.openForWrite patched s.w s.fs us).1 (RollLog.openForWrite patched s.w s.fs us).2.1
          (RollLog.openForWrite patched s.w s.fs us).2.2.1 recs).2 := by
      simp only [RollLog.step, RollLog.write_open _ _ _ _ _ hc]
    rw [hb]
    simp only at k1 k2 k3
    rcases k3 with ⟨g1, g2⟩ | ⟨g1, g2⟩
    · exact Sim.mk_none hi (by rw [hsw]; exact k1) k2 (by rw [hsw]; exact g1) (by rw [hsf]; exact g2)
    · exact Sim.mk_opened hi (by rw [hsw]; exact k1) k2 (by rw [hsw]; exact g1) (by rw [hsf, hsw]; exact g2)

/-- the ops of the `RollLog` system under which the refinement is stated: everything but a restart of the writer
(`reopen .w`: a second instance) and the death of the writer process inside `write_head` (`save .w (some k)`) -/
def Plain (op : RollLog.Op) : Prop := (∀ ar, op ≠ .reopen .w ar) ∧ (∀ k, op ≠ .save .w (some k))

/-- what an op of the `RollLog` system is for the buffered writer: a write is a write with the flush flag set, closing
the writable instance is `close`, nothing else concerns it -/
def bufOp : RollLog.Op → List Op
  | .write recs _ => [.write recs true]
  | .close .w => [.close]
  | _ => []

def bufOps (ops : List RollLog.Op) : List Op := ops.flatMap bufOp

theorem Sim.close {s : Sys} {b : Writer} (h : Sim s b) : Sim (RollLog.step patched s (.close .w)).1 b.closeAll := by
  have hi := h.inv.step (.close .w)
  have hh := h.inv.w.cfg.2.2
  have hw : (RollLog.step patched s (.close .w)).1.w = { s.w with readFile := .closed, writeFile := .closed } := by
    simp only [RollLog.step, RollLog.Sys.get, RollLog.Sys.set, RollLog.close, RollLog.writeHead, hh, Bool.not_false, ↓reduceIte]
  have hf : (RollLog.step patched s (.close .w)).1.fs = s.fs := by
    simp only [RollLog.step, RollLog.Sys.get, RollLog.Sys.set, RollLog.close, RollLog.writeHead, hh, Bool.not_false, ↓reduceIte]
  have hbf : b.closeAll.fileSize = b.fileSize := by unfold Writer.closeAll; cases b.cur <;> rfl
  refine Sim.mk_closed hi (by rw [hw, hbf]; exact h.fsz) ?_ (by rw [hw]) ?_
  · unfold Writer.closeAll; cases b.cur <;> exact h.one
  · rw [hf]
    have hst := h.st
    split at hst
    · obtain ⟨pre, last, c, g1, _, g3, _, g5, g6, g7, _⟩ := hst
      simp [Writer.closeAll, g3, g1, g5, g6, g7, BufWriter.flush]
    · simp [Writer.closeAll, hst.1, hst.2.2]
    · simp [Writer.closeAll, hst.1, hst.2.2]

theorem Sim.step {s : Sys} {b : Writer} (h : Sim s b) (op : RollLog.Op) (hp : Plain op) :
    Sim (RollLog.step patched s op).1 (run b (bufOp op)) := by
  have hi := h.inv.step op
  cases op with
  | write recs us => exact h.write recs us
  | read who block =>
    cases who with
    | w => exact h.transfer hi (RollLog.read_sameW _ _ _ _ h.inv.w.cfg.2.1) rfl
    | r => exact h.transfer hi (SameW.refl _) rfl
  | seekStart who =>
    cases who with
    | w => exact h.transfer hi (RollLog.seekStart_sameW _) rfl
    | r => exact h.transfer hi (SameW.refl _) rfl
  | seekEnd who =>
    cases who with
    | w => exact h.transfer hi (RollLog.seekEnd_sameW _) rfl
    | r => exact h.transfer hi (SameW.refl _) rfl
  | seek who name off =>
    cases who with
    | w => exact h.transfer hi (RollLog.seekName_sameW _ _ _ _) rfl
    | r => exact h.transfer hi (SameW.refl _) rfl
  | seekInvalid who =>
    cases who with
    | w => exact h.transfer hi (RollLog.seekInvalid_sameW _) rfl
    | r => exact h.transfer hi (SameW.refl _) rfl
  | seekBlock who us =>
    cases who with
    | w => exact h.transfer hi (RollLog.seekBlock_sameW _ _) rfl
    | r => exact h.transfer hi (SameW.refl _) rfl
  | tell who => exact h
  | refresh who =>
    cases who with
    | w =>
      have : RollLog.refresh s.w s.fs = (s.w, .err .runtime) := by simp [RollLog.refresh, h.inv.w.cfg.1]
      refine h.transfer hi ?_ rfl
      simp only [RollLog.step, RollLog.Sys.get, this, RollLog.Sys.set]
      exact SameW.refl _
    | r => exact h.transfer hi (SameW.refl _) rfl
  | save who crash =>
    cases who with
    | w =>
      cases crash with
      | none =>
        have hh := h.inv.w.cfg.2.2
        refine h.transfer hi ?_ rfl
        simp only [RollLog.step, RollLog.Sys.get, RollLog.Sys.set, RollLog.writeHead, hh, Bool.not_false, ↓reduceIte]
        exact SameW.refl _
      | some k => exact absurd rfl (hp.2 k)
    | r => exact h.transfer hi (SameW.refl _) rfl
  | close who =>
    cases who with
    | w => exact h.close
    | r => exact h.transfer hi (SameW.refl _) rfl
  | reopen who ar =>
    cases who with
    | w => exact absurd rfl (hp.1 ar)
    | r =>
      refine h.transfer hi (SameW.refl _) ?_
      simp only [RollLog.step, RollLog.Sys.get, RollLog.Sys.set]
      rw [RollLog.construct_rdonly_fs s.r ar s.fs s.hd h.inv.rRd]
  | delete name => exact h.transfer hi (SameW.refl _) (unlink_inoRecs s.fs name)

theorem Sim.run {s : Sys} {b : Writer} (h : Sim s b) (ops : List RollLog.Op) (hp : ∀ op ∈ ops, Plain op) :
    Sim (RollLog.run patched s ops) (run b (bufOps ops)) := by
  induction ops generalizing s b with
  | nil => exact h
  | cons op ops ih =>
    simp only [RollLog.run, bufOps, List.flatMap_cons]
    rw [run_append]
    exact ih (h.step op (hp op (by simp))) (fun op' hop' => hp op' (List.mem_cons_of_mem _ hop'))

theorem Sim.boot (cap : Nat) (hd : RollLog.HeadFS) (fsz tot : Nat) (hh ra : Bool) :
    Sim (RollLog.boot [] hd fsz tot hh ra) (init cap fsz .one) := by
  have hb := SInv.boot (fs := []) (by simp [RollLog.DirOk, RollLog.Sorted, RollLog.dirEntries]) hd fsz tot hh ra
  have e1 : (RollLog.construct (RollLog.blankLog false false fsz tot) false [] hd).2.1 = [] := by
    simp [RollLog.construct, RollLog.constructScan, RollLog.constructBase, RollLog.blankLog, RollLog.prune, RollLog.scan,
      RollLog.dirEntries, RollLog.sortLF]
  have e2 := RollLog.construct_rdonly_fs (RollLog.blankLog true hh fsz tot) ra
    (RollLog.construct (RollLog.blankLog false false fsz tot) false [] hd).2.1 hd rfl
  have efs : (RollLog.boot [] hd fsz tot hh ra).fs = [] := by
    unfold RollLog.boot; simp only; rw [e2, e1]
  have ew : (RollLog.boot [] hd fsz tot hh ra).w.writeFile = .none := by
    simp [RollLog.boot, RollLog.construct, RollLog.constructScan, RollLog.constructBase, RollLog.blankLog, RollLog.prune,
      RollLog.scan, RollLog.dirEntries, RollLog.sortLF, RollLog.restoreHead]
  have ef : (RollLog.boot [] hd fsz tot hh ra).w.fileSize = fsz := by
    unfold RollLog.boot; simp only
    exact (RollLog.construct_cfg _ _ _ _).fileSize
  exact Sim.mk_none hb ef rfl ew ⟨rfl, rfl, by rw [efs]; rfl⟩

/-- **C13 (the flushed buffered writer IS the writer of `OFModel/RollLog.lean`)**.  Run any op sequence of the `RollLog`
system (writes with any timestamps, reads / seeks / refreshes / saves of either instance, restarts of the reader,
external deletions, `close`; excluded: a restart or the death of the writer) from the empty directory, and run the
buffered writer - any buffer size - on the writes of that sequence with the flush flag set (the default): the files of
the buffered writer as other handles see them are, inode by inode, the record lists of the `RollLog` model (unlinked
inodes included), and the file object holds nothing.  So the theorems about `RollLog.lean` (`C13_reader_stream`,
`C13_append_only`, ...) and the `C13_buf_…` theorems speak about the same writer. -/
theorem C13_buf_refines_flushed (cap : Nat) (hd : RollLog.HeadFS) (fsz tot : Nat) (hh ra : Bool) (ops : List RollLog.Op)
    (hp : ∀ op ∈ ops, Plain op) :
    let s := RollLog.run patched (RollLog.boot [] hd fsz tot hh ra) ops
    let b := run (init cap fsz .one) (bufOps ops)
    b.files = s.fs.map (fun f => f.recs.map whole) ∧ b.pending = [] ∧
    b.files.map piecesBytes = s.fs.map (fun f => recsBytes f.recs) := by
  intro s b
  have h := ((Sim.boot cap hd fsz tot hh ra).run ops hp).files
  have h1 : b.files = s.fs.map (fun f => f.recs.map whole) := by
    show (run (init cap fsz .one) (bufOps ops)).files = _
    rw [h.1]; simp only [inoRecs, List.map_map, Function.comp_def]; rfl
  refine ⟨h1, h.2, ?_⟩
  rw [h1]
  simp only [List.map_map]
  apply List.map_congr_left
  intro f _
  exact piecesBytes_map_whole f.recs

/-- non-vacuity (kernel-evaluated TEST): three writes (file_size 10: the second one rolls the file over), an external deletion, a read and `close` -
the two models hold the same two files -/
example :
    (RollLog.run RollLog.patched (RollLog.boot [] ⟨none, none⟩ 10 1000 false true)
      [.write [⟨0, 5⟩] 10, .write [⟨1, 5⟩, ⟨2, 1⟩] 20, .delete 10, .read .r false, .write [⟨3, 2⟩] 30, .close .w]).fs.map (fun f => f.recs.map whole)
      = [[whole ⟨0, 5⟩, whole ⟨1, 5⟩, whole ⟨2, 1⟩], [whole ⟨3, 2⟩]]
    ∧ (run (init 4 10 .one) (bufOps [.write [⟨0, 5⟩] 10, .write [⟨1, 5⟩, ⟨2, 1⟩] 20, .delete 10, .read .r false, .write [⟨3, 2⟩] 30, .close .w])).files
      = [[whole ⟨0, 5⟩, whole ⟨1, 5⟩, whole ⟨2, 1⟩], [whole ⟨3, 2⟩]] := by decide +kernel

/-! ## the unflushed run against the flushed run -/

/-- the same call with the flush flag set -/
def forceFlush : Op → Op
  | .write recs _ => .write recs true
  | op => op

/-- two writers that were handed the same data: same closed files, and the open file holds the same bytes - on disk or
in the file object -/
structure SameData (w v : Writer) : Prop where
  fileSize : w.fileSize = v.fileSize
  calls : w.calls = v.calls
  done : w.done = v.done
  closed : w.closed = v.closed
  cur : w.cur.map (fun c => (c.f.disk ++ c.f.buf, c.size)) = v.cur.map (fun c => (c.f.disk ++ c.f.buf, c.size))

theorem SameData.curOrNew {w v : Writer} (h : SameData w v) :
    w.curOrNew.f.disk ++ w.curOrNew.f.buf = v.curOrNew.f.disk ++ v.curOrNew.f.buf ∧ w.curOrNew.size = v.curOrNew.size := by
  have hc := h.cur
  unfold Writer.curOrNew
  cases hw : w.cur with
  | none =>
    cases hv : v.cur with
    | none => simp [BufWriter.create]
    | some c => simp [hw, hv] at hc
  | some c =>
    cases hv : v.cur with
    | none => simp [hw, hv] at hc
    | some c2 => simp [hw, hv] at hc; exact hc

theorem SameData.writeOpen {w v : Writer} (h : SameData w v) (recs : List Rec) (fl fl2 : Bool) :
    SameData (w.writeOpen recs fl) (v.writeOpen recs fl2) := by
  obtain ⟨hd, hs⟩ := h.curOrNew
  have ha := writeCalls_all (callsOf w.calls recs) w.curOrNew.f
  have hb := writeCalls_all (callsOf v.calls recs) v.curOrNew.f
  rw [← h.calls, ← hd] at hb
  have hab := ha.trans hb.symm
  have hcv : v.calls = w.calls := h.calls.symm
  by_cases hge : w.curOrNew.size + recsSize recs ≥ w.fileSize
  · have hge2 : v.curOrNew.size + recsSize recs ≥ v.fileSize := by rw [← hs, ← h.fileSize]; exact hge
    refine ⟨?_, ?_, ?_, ?_, ?_⟩ <;> simp only [Writer.writeOpen, hge, hge2, ↓reduceIte]
    · exact h.fileSize
    · exact h.calls
    · rw [h.done, BufWriter.flush_disk, BufWriter.flush_disk, hcv, hab]
    · exact h.closed
  · have hge2 : ¬ v.curOrNew.size + recsSize recs ≥ v.fileSize := by rw [← hs, ← h.fileSize]; exact hge
    refine ⟨?_, ?_, ?_, ?_, ?_⟩ <;> simp only [Writer.writeOpen, hge, hge2, ↓reduceIte]
    · exact h.fileSize
    · exact h.calls
    · exact h.done
    · exact h.closed
    · simp only [Option.map_some, Option.some.injEq, Prod.mk.injEq]
      refine ⟨?_, hs ▸ rfl⟩
      rw [hcv]
      cases fl <;> cases fl2 <;> simp only [Bool.false_eq_true, ↓reduceIte, BufWriter.flush_all] <;> exact hab

theorem SameData.flushCur {w v : Writer} (h : SameData w v) : SameData w.flushCur v.flushCur := by
  have hc := h.cur
  unfold Writer.flushCur
  cases hw : w.cur <;> cases hv : v.cur <;> simp [hw, hv] at hc
  · exact h
  · refine ⟨h.fileSize, h.calls, h.done, h.closed, ?_⟩
    simp [BufWriter.flush, hc.1, hc.2]

theorem SameData.closeAll {w v : Writer} (h : SameData w v) : SameData w.closeAll v.closeAll := by
  have hc := h.cur
  unfold Writer.closeAll
  cases hw : w.cur <;> cases hv : v.cur <;> simp [hw, hv] at hc
  · exact ⟨h.fileSize, h.calls, h.done, rfl, by simp⟩
  · refine ⟨h.fileSize, h.calls, ?_, rfl, rfl⟩
    simp [BufWriter.flush, hc.1, h.done]

theorem SameData.step {w v : Writer} (h : SameData w v) (op : Op) : SameData (step w op).1 (step v (forceFlush op)).1 := by
  cases op with
  | write recs fl =>
    simp only [RollBuf.step, forceFlush, ← h.closed]
    split
    · exact h
    · exact h.writeOpen recs fl true
  | flush => exact h.flushCur
  | close => exact h.closeAll

theorem SameData.run (ops : List Op) : ∀ {w v : Writer}, SameData w v → SameData (run w ops) (run v (ops.map forceFlush)) := by
  induction ops with
  | nil => intro w v h; exact h
  | cons op ops ih => intro w v h; exact ih (h.step op)

theorem run_pending_nil (ops : List Op) : ∀ (w : Writer), ClosedOk w → w.pending = [] → (∀ op ∈ ops, op.flushes = true) →
    (run w ops).pending = [] := by
  induction ops with
  | nil => intro w _ h _; exact h
  | cons op ops ih =>
    intro w hc _ hf
    exact ih _ (step_closedOk w op hc) (step_pending_nil w op hc (hf op (by simp))) (fun op' h' => hf op' (List.mem_cons_of_mem _ h'))

theorem forceFlush_flushes (op : Op) : (forceFlush op).flushes = true := by cases op <;> rfl

/-- **C13 (unflushed against flushed)**.  Run the same calls once with their own flush flags (buffer size `cap`) and once
with the flag set on every write (any buffer size `cap2`; by `C13_buf_refines_flushed` these are the files of
`OFModel/RollLog.lean`).  After every op both runs have the same files; every file but the one being written has the
same content; the file being written lacks, at its end, exactly the bytes the unflushed run's file object still holds -
which by `C13_buf_whole_records` are whole records. -/
theorem C13_buf_vs_flushed (cap cap2 fsz : Nat) (ops : List Op) :
    let w := run (init cap fsz .one) ops
    let v := run (init cap2 fsz .one) (ops.map forceFlush)
    v.pending = [] ∧
    ((w.files = v.files ∧ w.pending = []) ∨
     (∃ (pre : List (List Piece)) (dw dv : List Piece), w.files = pre ++ [dw] ∧ v.files = pre ++ [dv] ∧ dw ++ w.pending = dv)) := by
  intro w v
  have h : SameData w v := SameData.run ops ⟨rfl, rfl, rfl, rfl, rfl⟩
  have hv : v.pending = [] :=
    run_pending_nil _ _ (by intro hx; cases hx) rfl (by
      intro op hop
      obtain ⟨o, _, rfl⟩ := List.mem_map.mp hop
      exact forceFlush_flushes o)
  refine ⟨hv, ?_⟩
  have hc := h.cur
  cases hw : w.cur with
  | none =>
    cases hvc : v.cur with
    | none => left; simp [Writer.files, Writer.pending, hw, hvc, h.done]
    | some c => simp [hw, hvc] at hc
  | some c =>
    cases hvc : v.cur with
    | none => simp [hw, hvc] at hc
    | some c2 =>
      right
      simp [hw, hvc] at hc
      have hb : c2.f.buf = [] := by simpa [Writer.pending, hvc] using hv
      refine ⟨w.done, c.f.disk, c2.f.disk, by simp [Writer.files, hw], by simp [Writer.files, hvc, h.done], ?_⟩
      simp only [Writer.pending, hw]
      rw [hc.1, hb]; simp

/-- non-vacuity (kernel-evaluated TEST): buffer 8, records of 5 and 4 bytes unflushed: the second record is still in the file object, the flushed
run has it on disk -/
example : (run (init 8 100 .one) [.write [⟨0, 4⟩] false, .write [⟨1, 3⟩] false]).files = [[whole ⟨0, 4⟩]]
    ∧ (run (init 8 100 .one) ([Op.write [⟨0, 4⟩] false, .write [⟨1, 3⟩] false].map forceFlush)).files = [[whole ⟨0, 4⟩, whole ⟨1, 3⟩]] := by
  decide +kernel

end Refine

end OF.RollBuf
