import OFProps.C04Net
import OFProps.C06StarInv
set_option linter.unusedSimpArgs false
/-!
# Trees of filters: what every edge looks like (helper for `OFProps/C04Tree.lean`)

Topology `treeTopo par` (`C03Tree.lean`): node 0 the source, node `idx + 1` subscribed to `par[idx] ≤ idx` only, any number of
consumers per publisher.  In every state reachable without restarts:
* data plane — `GoodT` (`C03Tree.lean`) holds (`tree_good`); what is used of it per edge `u → c`: `TEdge` (`tree_edge_facts`): the SUB
  queue of `c` is a `ChanQ` of the blocks `u` has published and `c` has not taken; it is empty of blocks iff `prev_id(c) + 1 =
  min_send_id(u)`;
* control plane — `TreeOwn` (`treeOwn_reachNR`): every publisher is idle between calls with one PULL queue, nothing `required`, and every
  queued request is a plain synchronised request (`eph = 0`, id `≥ -1`: no CLOSE — nobody is destroyed);
* `tree_recv_shape`: one `recv` of an idle consumer `c`, as a change of the node list (one request reaches the parent; a block queued
  ⇒ it is returned and `process()` is called; none queued ⇒ the queue is drained and nothing is returned);
* `tree_send_outcome`: one `send` of a node that reaches its sender (`SendOut`: time-out / the callable gave `None` / ONE block under
  the id of the call, which is at or above `min_send_id`: a tree never discards).
-/
namespace OF.Net
open OF
open OF.Pair (PubIdle PubBusy)
open OF.Chain (Blk ChanQ BlkOK Rest visData)

/-! ## data plane: `GoodT` in every state reachable without restarts -/

theorem tree_good (par : List Nat) (hpar : ParOK par) (proc : Proc) (hp : ProcNames proc) (st : St)
    (hr : ReachNR (treeTopo par) proc st) : ∃ X : LSt, X.st = st ∧ GoodT proc par X := by
  induction hr with
  | init => exact ⟨linit (treeTopo par), rfl, goodT_init proc par⟩
  | step e hne _ ih =>
    rcases ih with ⟨X, hX, hg⟩
    subst hX
    refine ⟨lstep (treeTopo par) proc X e, rfl, ?_⟩
    cases e with
    | nodeRecv j => exact goodT_stepRecv proc hp par hpar X j hg
    | nodeSend j t => exact goodT_stepSend proc par hpar X j t hg
    | restart j g => cases hne

/-- what is used of the data-plane invariant for the edge `u → c` (`P`, `C` the two nodes; `s` the SUB side of `c`, `bsW` the
blocks queued in it) -/
structure TEdge (st : St) (u c : Nat) (P C : Node) (s : Recv.Src) (bsW : List Blk) : Prop where
  nP : st.nodes[u]? = some P
  nC : st.nodes[c]? = some C
  rest : Rest C.con s
  chan : ChanQ u C.con.prevId s.queue bsW
  rs : ∀ k, C.recvState = some k → k ≤ C.con.prevId + 1
  lt : C.con.prevId < P.pub.minSendId
  iff : bsW = [] ↔ ¬ C.con.prevId + 1 < P.pub.minSendId
  ids : ∀ x ∈ bsW, x.1 < P.pub.minSendId
  idle : P.pub.inCall = false
  bal : P.pub.balance = false
  nq : P.pub.queues.length = 1
  min0 : 0 ≤ P.pub.minSendId

theorem tree_edge_facts (proc : Proc) (par : List Nat) (X : LSt) (hg : GoodT proc par X) (idx u : Nat) (hpu : par[idx]? = some u)
    (hpar : ParOK par) : ∃ P C s bsW, TEdge X.st u (idx + 1) P C s bsW := by
  have hidx : idx < par.length := (List.getElem?_eq_some_iff.mp hpu).1
  have hule : u ≤ idx := hpar idx u hpu
  have huL : u < X.st.nodes.length := by rw [hg.len]; omega
  have hP : X.st.nodes[u]? = some X.st.nodes[u] := List.getElem?_eq_getElem huL
  generalize X.st.nodes[u] = P at hP
  have hil : idx + 1 < X.st.nodes.length := by rw [hg.len]; omega
  have hC : X.st.nodes[idx + 1]? = some X.st.nodes[idx + 1] := List.getElem?_eq_getElem hil
  generalize X.st.nodes[idx + 1] = C at hC
  rcases hg.pubs u P hP (List.mem_of_getElem? hpu) with ⟨pub, hpub, hcons⟩
  rcases hcons idx C hpu hC with ⟨bsW, s, hc⟩
  have hGC := hg.node (idx + 1) C hC
  have hmin : P.pub.minSendId = lastId pub + 1 := hpub.minSend
  have hprev : C.con.prevId = lastId (pub.take C.count) := by
    have h1 := hc.prev
    have h2 := hc.handed
    simp only [atC] at h1 h2
    rw [h1, h2, lastId_map_visB]
  have hle : C.con.prevId ≤ lastId pub := by rw [hprev]; exact lastId_take_le pub hpub.inc C.count
  have hids : ∀ x ∈ bsW, x.1 ≤ lastId pub := by
    intro x hx
    have : cblk (atC X (idx + 1)).st.tbl x ∈ pub.drop C.count := by
      rw [hc.queued]; exact List.mem_map_of_mem hx
    have := lastId_ge pub hpub.inc _ (List.mem_of_mem_drop this)
    exact this
  refine ⟨P, C, s, bsW, hP, hC, hc.rest, hc.chan, hGC.recvSt (by omega), by omega, ?_, fun x hx => by have := hids x hx; omega,
    hpub.idle, hpub.bal, hpub.nq, by have := lastId_ge_neg1 pub hpub.inc; omega⟩
  constructor
  · intro hnil
    have hq := hc.queued
    rw [hnil] at hq
    simp only [List.map_nil, List.drop_eq_nil_iff] at hq
    have : pub.take C.count = pub := List.take_of_length_le hq
    rw [this] at hprev
    omega
  · intro hnb
    cases hb' : bsW with
    | nil => rfl
    | cons x xs =>
      exfalso
      have h3 := OF.Chain.chanQ_ids u hc.chan x (by rw [hb']; exact List.mem_cons_self ..)
      have h4 := hids x (by rw [hb']; exact List.mem_cons_self ..)
      omega

/-! ## one `recv` of a consumer -/

/-- does this event hand a frame set to `process()` of node `c`? -/
def handedAt (c : Nat) : Ev → Obs → Bool
  | .nodeRecv i, .rcvd _ (some _) _ => i == c
  | _, _ => false

/-- **`recv` of an idle consumer `c` (parent `u`)**: one request reaches the parent; no block queued ⇒ the queue is drained,
nothing returned; a block queued ⇒ the first one is returned and handed to `process()` -/
theorem tree_recv_shape (par : List Nat) (hpar : ParOK par) (proc : Proc) (st : St) (idx u : Nat) (hpu : par[idx]? = some u)
    (P C : Node) (s : Recv.Src) (bsW : List Blk) (hd : TEdge st u (idx + 1) P C s bsW) (hp : C.pending = none) :
    ∃ (rq : Send.Req) (C' : Node) (s' : Recv.Src),
      (∀ x, (stepRecv (treeTopo par) proc st (idx + 1)).1.nodes[x]? =
          if x = u then some { P with pub := pushReqs P.pub [rq] } else if x = idx + 1 then some C' else st.nodes[x]?) ∧
      (stepRecv (treeTopo par) proc st (idx + 1)).1.tbl = st.tbl ∧
      rq.cid = cidOf (idx + 1) ∧ rq.uid = uidOf C.gen 0 ∧ rq.eph = 0 ∧ -1 ≤ rq.mid ∧ rq.mid < P.pub.minSendId ∧
      C'.gen = C.gen ∧ C'.con.srcs = [s'] ∧ C'.pub = C.pub ∧
      ((bsW = [] ∧ C'.con.prevId = C.con.prevId ∧ C'.pending = none ∧ s'.queue = [] ∧ C'.count = C.count ∧
          handedAt (idx + 1) (.nodeRecv (idx + 1)) (stepRecv (treeTopo par) proc st (idx + 1)).2 = false) ∨
       (∃ k ts bs', bsW = (k, ts) :: bs' ∧ C.con.prevId < k ∧ C'.con.prevId = k ∧ ChanQ u k s'.queue bs' ∧
          C'.count = C.count + 1 ∧
          C'.pending = some { res := Loop.processFrames (proc (idx + 1) C.count (((visData k ts).map (hframe st.tbl)).map fun f => (f.topic, f.content))),
                              orig := ((visData k ts).map (hframe st.tbl)).flatMap (·.orig) } ∧
          handedAt (idx + 1) (.nodeRecv (idx + 1)) (stepRecv (treeTopo par) proc st (idx + 1)).2 = true)) := by
  have hC := hd.nC
  have hrest := hd.rest
  have hsrcs : C.con.srcs = [s] := hrest.idle.srcs
  have hne : C.con.srcs.isEmpty = false := by rw [hsrcs]; rfl
  have hprio : List.range C.con.srcs.length = [0] := by rw [hsrcs]; rfl
  have hups : (treeTopo par).upsOf (idx + 1) = [u] := (tree_ups_iff par idx u).mpr hpu
  have hule : u ≤ idx := hpar idx u hpu
  have hil : idx + 1 < st.nodes.length := (List.getElem?_eq_some_iff.mp hC).1
  have hprev := hrest.idle.prev
  have hst : (stepRecv (treeTopo par) proc st (idx + 1)).1 =
      { st with nodes := (deliverReqs (treeTopo par) (st.nodes.set (idx + 1) (afterRecv proc st.tbl (idx + 1) C (Recv.call0 C.con C.recvState [0])))
          (idx + 1) C.gen (Recv.call0 C.con C.recvState [0]).2) } := by
    unfold stepRecv
    simp only [hC, hp, Option.isSome_none, Bool.false_eq_true, ↓reduceIte, hne, recvRelay, hprio]
  have hobs : (stepRecv (treeTopo par) proc st (idx + 1)).2 = recvObs st.tbl (Recv.call0 C.con C.recvState [0]).2 := by
    unfold stepRecv
    simp only [hC, hp, Option.isSome_none, Bool.false_eq_true, ↓reduceIte, hne, recvRelay, hprio]
  rw [hst, hobs]
  rcases OF.Chain.call0_chain u C.con s C.recvState s.queue bsW hrest rfl hd.chan hd.rs with
    ⟨hb0, c1, s1, e1, hr1, hp1, hq1, _⟩ | ⟨k, ts, bs', c1, s1, q', hb0, hbk, hk, e1, hr1, hp1, hq1, hch, _⟩
  · rw [e1]
    have hret : retOf [Recv.Out.req 0 C.con.prevId 0 (!s1.conn), Recv.Out.retNone] = none := rfl
    have haft : afterRecv proc st.tbl (idx + 1) C (c1, [Recv.Out.req 0 C.con.prevId 0 (!s1.conn), Recv.Out.retNone]) = { C with con := c1 } := by
      unfold afterRecv; rw [hret]
    rw [haft]
    refine ⟨{ cid := cidOf (idx + 1), uid := uidOf C.gen 0, mid := C.con.prevId, eph := 0, new := !s1.conn, body := 0 }, { C with con := c1 }, s1,
      ?_, rfl, rfl, rfl, rfl, hprev, hd.lt, rfl, hr1.idle.srcs, rfl, Or.inl ⟨hb0, hp1, hp, hq1, rfl, ?_⟩⟩
    · intro x
      exact relay_lookupT (treeTopo par) st.nodes (idx + 1) C.gen u P _ _ _ hups (by omega) hd.nP hil (by simp [reqOf]) x
    · simp only [recvObs, hret, handedAt]
  · rw [e1]
    have hret : retOf [Recv.Out.req 0 k 0 false, Recv.Out.ret k 0 (visData k ts)] = some (k, 0, visData k ts) := rfl
    have haft : afterRecv proc st.tbl (idx + 1) C (c1, [Recv.Out.req 0 k 0 false, Recv.Out.ret k 0 (visData k ts)]) =
        processed proc (idx + 1) { C with con := c1, sendState := some (k, 0), recvState := none } ((visData k ts).map (hframe st.tbl)) := by
      unfold afterRecv; rw [hret]
    rw [haft]
    have hkM : k < P.pub.minSendId := hd.ids (k, ts) (by rw [hb0]; exact List.mem_cons_self ..)
    refine ⟨{ cid := cidOf (idx + 1), uid := uidOf C.gen 0, mid := k, eph := 0, new := false, body := 0 },
      processed proc (idx + 1) { C with con := c1, sendState := some (k, 0), recvState := none } ((visData k ts).map (hframe st.tbl)), s1,
      ?_, rfl, rfl, rfl, rfl, by simp only; omega, hkM, rfl, hr1.idle.srcs, rfl,
      Or.inr ⟨k, ts, bs', hb0, hk, by simp only [processed, hp1], by rw [hq1]; exact hch, rfl, rfl, ?_⟩⟩
    · intro x
      exact relay_lookupT (treeTopo par) st.nodes (idx + 1) C.gen u P _ _ _ hups (by omega) hd.nP hil (by simp [reqOf]) x
    · simp only [recvObs, hret, handedAt, beq_self_eq_true]

/-! ## one `send` of a tree node -/

open OF.Send in
/-- a publisher that is idle between calls is idle after `send(callable, state, 0)`, whatever `state`; the requests left in its
queue (the call was ended by a fast-forward) are a suffix of those queued before -/
theorem send0_idle (p : Send.St) (q : List Send.Req) (state : Option (Int × Nat)) (pl : Send.Payload) (t : Int) (h : PubIdle p q) :
    ∃ q', PubIdle (Send.send0 p state pl false [0] t).1 q' ∧ ∃ pre, q = pre ++ q' := by
  by_cases hk : p.minSendId ≤ (callKey p state).1
  · have ⟨hbusy, heq⟩ := send0_unfold_gen p q state pl t h hk
    rw [heq]
    have hd := drain_inv (fun _ _ => True) (fun _ => True) t (fun _ _ _ _ _ _ => trivial)
      (q.length + 1) _ q hbusy trivial (fun _ _ => trivial) (by omega)
    generalize drain (q.length + 1) (beginWith p (callKey p state).1 (callKey p state).2 pl false) [0] t = d at hd ⊢
    rcases hd with ⟨_, _, d4⟩
    rcases d4 with ⟨d4, _⟩ | ⟨q', d4, d5⟩
    · simp only [d4.inCall, Bool.true_eq_false, ↓reduceIte]
      have ⟨T, hT', _⟩ := Pair.exists_stale d.1.clients t
      have sm := Pair.sendMaybe_general d.1 [] T d4 hT'
      have hidle : PubIdle { (sendMaybe d.1).1 with inCall := false } [] := ⟨sm.1, sm.2.1, sm.2.2.1, rfl, sm.2.2.2.2.1⟩
      split
      · exact ⟨[], hidle, q, by simp⟩
      · exact ⟨[], hidle, q, by simp⟩
    · simp only [d4.inCall, ↓reduceIte]
      exact ⟨q', d4, d5⟩
  · cases state with
    | none => exact absurd (Int.le_refl _) hk
    | some kb =>
      rcases kb with ⟨k, b⟩
      rw [send0_discard p k b pl t h.inCall (by simp only [callKey] at hk; omega)]
      exact ⟨q, h, [], rfl⟩

theorem hellos_noData (j : Nat) (ws : List Recv.Wire) (h : Hellos j ws) : ws.any isData = false := by
  rcases h with rfl | rfl
  · rfl
  · simp [isData_hello]

theorem blockWires_data (j : Nat) (k : Int) (ts : List (String × Nat)) (hk : 0 ≤ k) : (blockWires j k ts).any isData = true := by
  unfold blockWires
  rw [List.any_append]
  simp [isData, hk]

/-- **one `send` of a tree node that reaches its sender**: time-out (at most a HELLO goes out, the result is still held), or the
callable gave `None`, or ONE block goes out under the id of the call - which is at or above `min_send_id`: nothing is discarded -/
theorem tree_send_outcome (proc : Proc) (par : List Nat) (X : LSt) (hg : GoodT proc par X) (j : Nat) (nd : Node) (p : Pending) (t : Int)
    (hn : X.st.nodes[j]? = some nd) (hpend : nd.pending = some p) (hj : j ∈ par) :
    0 ≤ sendId nd ∧ nd.pub.minSendId ≤ sendId nd ∧
    (((Send.send0 nd.pub nd.sendState (payloadOf X.st.tbl.length p.res) false [0] t).1.minSendId = nd.pub.minSendId ∧
        sendRet (Send.send0 nd.pub nd.sendState (payloadOf X.st.tbl.length p.res) false [0] t).2 = some none ∧
        Hellos j ((Send.send0 nd.pub nd.sendState (payloadOf X.st.tbl.length p.res) false [0] t).2.filterMap (wireOf j))) ∨
     (dictOf p.res = none ∧
        (Send.send0 nd.pub nd.sendState (payloadOf X.st.tbl.length p.res) false [0] t).1.minSendId = nd.pub.minSendId ∧
        Hellos j ((Send.send0 nd.pub nd.sendState (payloadOf X.st.tbl.length p.res) false [0] t).2.filterMap (wireOf j))) ∨
     (∃ d, dictOf p.res = some d ∧ NamesOK d ∧
        (Send.send0 nd.pub nd.sendState (payloadOf X.st.tbl.length p.res) false [0] t).1.minSendId = sendId nd + 1 ∧
        sendRet (Send.send0 nd.pub nd.sendState (payloadOf X.st.tbl.length p.res) false [0] t).2 = some (some (sendId nd + 1)) ∧
        (Send.send0 nd.pub nd.sendState (payloadOf X.st.tbl.length p.res) false [0] t).2.filterMap (wireOf j) =
          blockWires j (sendId nd) (relabel X.st.tbl.length d))) := by
  rcases hg.pubs j nd hn hj with ⟨pub, hpub, _⟩
  have hG := hg.node j nd hn
  have hpis : nd.pending.isSome = true := by rw [hpend]; rfl
  have ⟨hout, hsid0⟩ := send_outcome_gen proc X j t nd p pub hpub hG hpend
  have hlast : lastId pub < sendId nd := by
    rcases lastId_mem_or pub with e | ⟨b, hb, e⟩
    · omega
    · rw [e]; exact hpub.strict hpis b hb
  have hpay : payloadOf X.st.tbl.length p.res = .deferred ((dictOf p.res).map (relabel X.st.tbl.length)) := rfl
  rw [hpay]
  refine ⟨hsid0, by rw [hpub.minSend]; omega, ?_⟩
  rcases hout with ⟨_, _, _, _, hcase⟩
  rcases hcase with ⟨m1, m2, _, m4⟩ | ⟨hrn, m1, _, _, m4⟩ | ⟨ts, hrs, m1, m2, _, m4⟩
  · exact Or.inl ⟨m1, m2, m4⟩
  · refine Or.inr (Or.inl ⟨?_, m1, m4⟩)
    cases hdd : dictOf p.res with
    | none => rfl
    | some d => rw [hdd] at hrn; cases hrn
  · cases hdd : dictOf p.res with
    | none => rw [hdd] at hrs; cases hrs
    | some d =>
      rw [hdd] at hrs m1 m2 m4
      simp only [Option.map_some, Option.some.injEq] at hrs
      subst hrs
      exact Or.inr (Or.inr ⟨d, rfl, hpub.names p d hpend hdd, m1, m2, m4⟩)

/-! ## control plane: every publisher idle, every queued request a plain synchronised one -/

structure TNodeOwn (nd : Node) : Prop where
  pub : ∃ q, PubIdle nd.pub q ∧ ∀ r ∈ q, r.eph = 0 ∧ -1 ≤ r.mid
  gen : nd.gen = 0

def TreeOwn (st : St) : Prop := ∀ (i : Nat) (nd : Node), st.nodes[i]? = some nd → TNodeOwn nd

theorem treeOwn_init (tp : Topo) : TreeOwn (init tp) := by
  intro i nd hnd
  have ⟨_, e⟩ := init_get _ _ _ hnd
  subst e
  exact ⟨⟨[], Pair.pubIdle_fresh, by intro r hr; cases hr⟩, rfl⟩

theorem tnodeOwn_congr (nd nd' : Node) (hp : nd'.pub = nd.pub) (hg : nd'.gen = nd.gen) (h : TNodeOwn nd) : TNodeOwn nd' := by
  rcases h with ⟨h1, h2⟩
  exact ⟨by rw [hp]; exact h1, by rw [hg]; exact h2⟩

theorem set_get (nodes : List Node) (i : Nat) (nd nd' : Node) (hi : nodes[i]? = some nd) (x : Nat) :
    (nodes.set i nd')[x]? = if x = i then some nd' else nodes[x]? := by
  rw [List.getElem?_set]
  have hlt : i < nodes.length := (List.getElem?_eq_some_iff.mp hi).1
  by_cases hx : i = x
  · subst hx; simp [hlt]
  · have : ¬ x = i := fun e => hx e.symm
    simp [hx, this]

theorem treeOwn_step (par : List Nat) (hpar : ParOK par) (proc : Proc) (X : LSt) (hg : GoodT proc par X) (h : TreeOwn X.st)
    (e : Ev) (hne : isRestart e = false) : TreeOwn (step (treeTopo par) proc X.st e).1 := by
  cases e with
  | restart i g => cases hne
  | nodeRecv i =>
    show TreeOwn (stepRecv (treeTopo par) proc X.st i).1
    cases hC : X.st.nodes[i]? with
    | none =>
      have : (stepRecv (treeTopo par) proc X.st i).1 = X.st := by unfold stepRecv; simp only [hC]
      rw [this]; exact h
    | some C =>
      cases hpend : C.pending with
      | some p =>
        have : (stepRecv (treeTopo par) proc X.st i).1 = X.st := by
          unfold stepRecv; simp only [hC, hpend, Option.isSome_some, ↓reduceIte]
        rw [this]; exact h
      | none =>
        cases hsrc : C.con.srcs.isEmpty with
        | true =>
          have hst : (stepRecv (treeTopo par) proc X.st i).1 = { X.st with nodes := X.st.nodes.set i (processed proc i C []) } := by
            unfold stepRecv; simp only [hC, hpend, Option.isSome_none, Bool.false_eq_true, ↓reduceIte, hsrc, recvSource]
          rw [hst]
          intro x nd hnd
          simp only at hnd
          rw [set_get _ _ _ _ hC] at hnd
          by_cases hx : x = i
          · simp only [hx, ↓reduceIte, Option.some.injEq] at hnd
            subst hnd
            exact tnodeOwn_congr C _ rfl rfl (h i C hC)
          · simp only [hx, ↓reduceIte] at hnd
            exact h x nd hnd
        | false =>
          have hiL : i < par.length + 1 := by rw [← hg.len]; exact (List.getElem?_eq_some_iff.mp hC).1
          have hi0 : i ≠ 0 := by
            intro h0; subst h0
            rw [((hg.node 0 C hC).src rfl).1] at hsrc; cases hsrc
          obtain ⟨idx, rfl⟩ : ∃ idx, i = idx + 1 := ⟨i - 1, by omega⟩
          have hidx : idx < par.length := by omega
          have hpu : par[idx]? = some par[idx] := List.getElem?_eq_getElem hidx
          generalize par[idx] = u at hpu
          rcases tree_edge_facts proc par X hg idx u hpu hpar with ⟨P, C0, s, bsW, hd⟩
          have : C0 = C := by have := hd.nC; rw [hC] at this; exact (Option.some.inj this).symm
          subst this
          obtain ⟨rq, C', s', hsh, _, _, _, r3, r4, _, g1, _, g3, _⟩ := tree_recv_shape par hpar proc X.st idx u hpu P C0 s bsW hd hpend
          intro x nd hnd
          rw [hsh x] at hnd
          by_cases hxu : x = u
          · simp only [hxu, ↓reduceIte, Option.some.injEq] at hnd
            subst hnd
            have hP := h u P hd.nP
            rcases hP.pub with ⟨q, hq, hqr⟩
            refine ⟨⟨q ++ [rq], Pair.pubIdle_pushReqs P.pub q [rq] hq, ?_⟩, hP.gen⟩
            intro r hr
            rcases List.mem_append.mp hr with hr | hr
            · exact hqr r hr
            · simp only [List.mem_singleton] at hr
              subst hr; exact ⟨r3, r4⟩
          · simp only [hxu, ↓reduceIte] at hnd
            by_cases hxi : x = idx + 1
            · simp only [hxi, ↓reduceIte, Option.some.injEq] at hnd
              subst hnd
              exact tnodeOwn_congr C0 _ g3 g1 (h (idx + 1) C0 hC)
            · simp only [hxi, ↓reduceIte] at hnd
              exact h x nd hnd
  | nodeSend i t =>
    show TreeOwn (stepSend (treeTopo par) X.st i t).1
    cases hC : X.st.nodes[i]? with
    | none =>
      have : (stepSend (treeTopo par) X.st i t).1 = X.st := by unfold stepSend; simp only [hC]
      rw [this]; exact h
    | some C =>
      cases hpend : C.pending with
      | none =>
        have : (stepSend (treeTopo par) X.st i t).1 = X.st := by unfold stepSend; simp only [hC, hpend]
        rw [this]; exact h
      | some p =>
        cases hreach : Loop.reachesSender ((treeTopo par).hasOut i) p.res with
        | false =>
          have hst : (stepSend (treeTopo par) X.st i t).1 = { X.st with nodes := X.st.nodes.set i { C with pending := none } } := by
            unfold stepSend; simp only [hC, hpend, hreach, Bool.false_eq_true, ↓reduceIte, sendSkip]
          rw [hst]
          intro x nd hnd
          simp only at hnd
          rw [set_get _ _ _ _ hC] at hnd
          by_cases hx : x = i
          · simp only [hx, ↓reduceIte, Option.some.injEq] at hnd
            subst hnd
            exact tnodeOwn_congr C _ rfl rfl (h i C hC)
          · simp only [hx, ↓reduceIte] at hnd
            exact h x nd hnd
        | true =>
          intro x nd hnd
          rw [stepSend_real_get (treeTopo par) X.st i C p t hC hpend hreach x] at hnd
          cases hx : X.st.nodes[x]? with
          | none => rw [hx] at hnd; cases hnd
          | some a =>
            rw [hx] at hnd
            simp only [Option.map_some, Option.some.injEq] at hnd
            subst hnd
            by_cases hxi : x = i
            · subst hxi
              rw [hC] at hx; cases hx
              have hC0 := h x C hC
              rcases hC0.pub with ⟨q, hq, hqr⟩
              rcases send0_idle C.pub q C.sendState (payloadOf X.st.tbl.length p.res) t hq with ⟨q', hq', pre, hpre⟩
              refine ⟨⟨q', ?_, ?_⟩, ?_⟩
              · simp only [sendF, ↓reduceIte, afterSend_pub]; exact hq'
              · intro r hr; exact hqr r (by rw [hpre]; exact List.mem_append_right _ hr)
              · simp only [sendF, ↓reduceIte, afterSend_gen]; exact hC0.gen
            · rw [sendF_ne (treeTopo par) X.st i C p t x a hxi]
              exact tnodeOwn_congr a _ rfl rfl (h x a hx)

/-- **both invariants in every state reachable without restarts** -/
theorem tree_inv (par : List Nat) (hpar : ParOK par) (proc : Proc) (hp : ProcNames proc) (st : St)
    (hr : ReachNR (treeTopo par) proc st) : TreeOwn st ∧ ∃ X : LSt, X.st = st ∧ GoodT proc par X := by
  refine ⟨?_, tree_good par hpar proc hp st hr⟩
  induction hr with
  | init => exact treeOwn_init _
  | step e hne hr' ih =>
    rcases tree_good par hpar proc hp _ hr' with ⟨X, hX, hg⟩
    subst hX
    exact treeOwn_step par hpar proc X hg ih e hne

/-! ## one event, seen from one node -/

/-- number of frame sets handed to `process()` of node `c` along the schedule `evs` from `st` -/
def hdCount (tp : Topo) (proc : Proc) (c : Nat) : St → List Ev → Nat
  | _, [] => 0
  | st, e :: es => (if handedAt c e (step tp proc st e).2 then 1 else 0) + hdCount tp proc c (step tp proc st e).1 es

theorem handedAt_recv (c : Nat) (e : Ev) (o : Obs) (h : handedAt c e o = true) : e = .nodeRecv c := by
  cases e with
  | nodeRecv i =>
    cases o with
    | rcvd outs id handed =>
      cases id with
      | none => cases h
      | some k => simp only [handedAt, beq_iff_eq] at h; rw [h]
    | noop => cases h
    | sent _ => cases h
    | restarted => cases h
  | nodeSend i t => cases h
  | restart i g => cases h

theorem publishesAt_send (u : Nat) (e : Ev) (o : Obs) (h : publishesAt u e o = true) : ∃ t, e = .nodeSend u t := by
  cases e with
  | nodeSend i t =>
    cases o with
    | sent outs =>
      simp only [publishesAt, Bool.and_eq_true, beq_iff_eq] at h
      exact ⟨t, by rw [h.1]⟩
    | noop => cases h
    | rcvd _ _ _ => cases h
    | restarted => cases h
  | nodeRecv i => cases h
  | restart i g => cases h

/-- what one event (no restart) does to the loop state of node `x` -/
theorem step_node_cases (tp : Topo) (proc : Proc) (st : St) (e : Ev) (x : Nat) (nd : Node) (hne : isRestart e = false)
    (hx : st.nodes[x]? = some nd) :
    ∃ nd', (step tp proc st e).1.nodes[x]? = some nd' ∧
      (e = .nodeRecv x → nd'.pending = nd.pending ∨
        (nd.pending = none ∧ ∃ h o, nd'.pending = some { res := Loop.processFrames (proc x nd.count h), orig := o })) ∧
      ((∃ t, e = .nodeSend x t) → nd'.pending = nd.pending ∨ nd'.pending = none) ∧
      (e ≠ .nodeRecv x → (∀ t, e ≠ .nodeSend x t) → nd'.pending = nd.pending) := by
  cases e with
  | restart i g => cases hne
  | nodeRecv i =>
    have hstep : step tp proc st (.nodeRecv i) = stepRecv tp proc st i := rfl
    rw [hstep]
    have hsame : (stepRecv tp proc st i).1 = st → ∃ nd', (stepRecv tp proc st i).1.nodes[x]? = some nd' ∧
        (Ev.nodeRecv i = .nodeRecv x → nd'.pending = nd.pending ∨
          (nd.pending = none ∧ ∃ h o, nd'.pending = some { res := Loop.processFrames (proc x nd.count h), orig := o })) ∧
        ((∃ t, Ev.nodeRecv i = .nodeSend x t) → nd'.pending = nd.pending ∨ nd'.pending = none) ∧
        (Ev.nodeRecv i ≠ .nodeRecv x → (∀ t, Ev.nodeRecv i ≠ .nodeSend x t) → nd'.pending = nd.pending) :=
      fun h => ⟨nd, by rw [h]; exact hx, fun _ => Or.inl rfl, fun _ => Or.inl rfl, fun _ _ => rfl⟩
    cases hn : st.nodes[i]? with
    | none => exact hsame (by unfold stepRecv; simp only [hn])
    | some ni =>
      cases hpend : ni.pending with
      | some p => exact hsame (by unfold stepRecv; simp only [hn, hpend, Option.isSome_some, ↓reduceIte])
      | none =>
        cases hsrc : ni.con.srcs.isEmpty with
        | true =>
          have hst : (stepRecv tp proc st i).1 = { st with nodes := st.nodes.set i (processed proc i ni []) } := by
            unfold stepRecv; simp only [hn, hpend, Option.isSome_none, Bool.false_eq_true, ↓reduceIte, hsrc, recvSource]
          rw [hst]
          simp only
          rw [set_get _ _ _ _ hn]
          by_cases hxi : x = i
          · subst hxi
            rw [hn] at hx; cases hx
            refine ⟨processed proc x nd [], by simp, fun _ => Or.inr ⟨hpend, _, _, rfl⟩, ?_, fun h => absurd rfl h⟩
            rintro ⟨t, ht⟩; cases ht
          · refine ⟨nd, by simp only [hxi, ↓reduceIte]; exact hx, ?_, ?_, fun _ _ => rfl⟩
            · intro h; cases h; exact absurd rfl hxi
            · rintro ⟨t, ht⟩; cases ht
        | false =>
          rw [stepRecv_relay_get tp proc st i ni hn hpend hsrc x, hx]
          refine ⟨recvF tp proc st i ni x nd, rfl, ?_, ?_, ?_⟩
          · intro h
            cases h
            rw [hn] at hx; cases hx
            simp only [recvF, ↓reduceIte]
            unfold afterRecv
            split
            · left; rfl
            · right; exact ⟨hpend, _, _, rfl⟩
          · rintro ⟨t, ht⟩; cases ht
          · intro h _
            have hxi : x ≠ i := fun e => h (by rw [e])
            rw [recvF_ne tp proc st i ni x nd hxi]
  | nodeSend i t =>
    have hstep : step tp proc st (.nodeSend i t) = stepSend tp st i t := rfl
    rw [hstep]
    have hsame : (stepSend tp st i t).1 = st → ∃ nd', (stepSend tp st i t).1.nodes[x]? = some nd' ∧
        (Ev.nodeSend i t = .nodeRecv x → nd'.pending = nd.pending ∨
          (nd.pending = none ∧ ∃ h o, nd'.pending = some { res := Loop.processFrames (proc x nd.count h), orig := o })) ∧
        ((∃ t', Ev.nodeSend i t = .nodeSend x t') → nd'.pending = nd.pending ∨ nd'.pending = none) ∧
        (Ev.nodeSend i t ≠ .nodeRecv x → (∀ t', Ev.nodeSend i t ≠ .nodeSend x t') → nd'.pending = nd.pending) :=
      fun h => ⟨nd, by rw [h]; exact hx, fun _ => Or.inl rfl, fun _ => Or.inl rfl, fun _ _ => rfl⟩
    cases hn : st.nodes[i]? with
    | none => exact hsame (by unfold stepSend; simp only [hn])
    | some ni =>
      cases hpend : ni.pending with
      | none => exact hsame (by unfold stepSend; simp only [hn, hpend])
      | some p =>
        cases hreach : Loop.reachesSender (tp.hasOut i) p.res with
        | false =>
          have hst : (stepSend tp st i t).1 = { st with nodes := st.nodes.set i { ni with pending := none } } := by
            unfold stepSend; simp only [hn, hpend, hreach, Bool.false_eq_true, ↓reduceIte, sendSkip]
          rw [hst]
          simp only
          rw [set_get _ _ _ _ hn]
          by_cases hxi : x = i
          · subst hxi
            rw [hn] at hx; cases hx
            refine ⟨{ nd with pending := none }, by simp, ?_, fun _ => Or.inr rfl, fun _ h => absurd rfl (h t)⟩
            intro h; cases h
          · refine ⟨nd, by simp only [hxi, ↓reduceIte]; exact hx, ?_, fun _ => Or.inl rfl, fun _ _ => rfl⟩
            intro h; cases h
        | true =>
          rw [stepSend_real_get tp st i ni p t hn hpend hreach x, hx]
          refine ⟨sendF tp st i ni p t x nd, rfl, ?_, ?_, ?_⟩
          · intro h; cases h
          · rintro ⟨t', ht'⟩
            cases ht'
            rw [hn] at hx; cases hx
            simp only [sendF, ↓reduceIte]
            rw [afterSend_pending]
            split
            · right; rfl
            · left; rfl
          · intro _ h
            have hxi : x ≠ i := fun e => h t (by rw [e])
            rw [sendF_ne tp st i ni p t x nd hxi]

/-- `send` of node `u` itself: a no-op for its publisher (nothing held, or nothing that reaches the sender), or ONE `send0` on what
it holds -/
theorem send_self_cases (tp : Topo) (proc : Proc) (st : St) (u : Nat) (t : Int) (nd : Node) (hu : st.nodes[u]? = some nd) :
    (∃ nd', (step tp proc st (.nodeSend u t)).1.nodes[u]? = some nd' ∧ nd'.pub = nd.pub ∧
      publishesAt u (.nodeSend u t) (step tp proc st (.nodeSend u t)).2 = false) ∨
    (∃ p, nd.pending = some p ∧ Loop.reachesSender (tp.hasOut u) p.res = true ∧
      (step tp proc st (.nodeSend u t)).1.nodes[u]? = some (sendF tp st u nd p t u nd) ∧
      (sendF tp st u nd p t u nd).pub = (Send.send0 nd.pub nd.sendState (payloadOf st.tbl.length p.res) false [0] t).1 ∧
      publishesAt u (.nodeSend u t) (step tp proc st (.nodeSend u t)).2 =
        ((Send.send0 nd.pub nd.sendState (payloadOf st.tbl.length p.res) false [0] t).2.filterMap (wireOf u)).any isData) := by
  have hstep : step tp proc st (.nodeSend u t) = stepSend tp st u t := rfl
  rw [hstep]
  cases hpend : nd.pending with
  | none =>
    have hs : stepSend tp st u t = (st, .noop) := by unfold stepSend; simp only [hu, hpend]
    rw [hs]; exact Or.inl ⟨nd, hu, rfl, by simp [publishesAt]⟩
  | some p =>
    cases hreach : Loop.reachesSender (tp.hasOut u) p.res with
    | false =>
      have hs : stepSend tp st u t = sendSkip st u nd := by
        unfold stepSend; simp only [hu, hpend, hreach, Bool.false_eq_true, ↓reduceIte]
      rw [hs]
      simp only [sendSkip]
      rw [set_get _ _ _ _ hu]
      exact Or.inl ⟨{ nd with pending := none }, by simp, rfl, by simp [publishesAt]⟩
    | true =>
      right
      have hs : stepSend tp st u t = sendReal tp st u nd p t := by
        unfold stepSend; simp only [hu, hpend, hreach, ↓reduceIte]
      have hget := stepSend_real_get tp st u nd p t hu hpend hreach u
      refine ⟨p, rfl, hreach, by rw [hget, hu]; rfl, ?_, ?_⟩
      · simp only [sendF, ↓reduceIte, afterSend_pub]
      · rw [hs]; simp only [sendReal, publishesAt, beq_self_eq_true, Bool.true_and]

/-! ## one edge `u → c` of the tree: who holds whom -/

/-- the clock reading of a `send` call of `u` lies within one connection time-out above `lo` -/
def InWindow (u : Nat) (lo : Int) (e : Ev) : Prop :=
  ∀ t, e = .nodeSend u t → lo ≤ t ∧ t - OF.Facts.ZMQ_CONN_TIMEOUT ≤ lo

/-- `u` tracks its consumer `c` as a synchronised client, heard at or after `lo` -/
def EdgePre (st : St) (u c : Nat) (lo : Int) : Prop :=
  ∃ nd, st.nodes[u]? = some nd ∧ Tracked nd.pub.clients (fidC c) lo

/-- … `c`'s flag is down, no request of `c` is queued at `u`, and a frame set `c` has not taken is queued at `c`: `c` holds `u`,
and the next `recv` of `c` returns a set -/
def EdgePost (st : St) (u c : Nat) (lo : Int) : Prop :=
  ∃ nd q, st.nodes[u]? = some nd ∧ PubIdle nd.pub q ∧ Holding nd.pub.clients (fidC c) lo ∧ (∀ r ∈ q, keyOf r ≠ fidC c) ∧
    prevOf st.nodes c + 1 < msOf st.nodes u

theorem edge_pre_step (par : List Nat) (hpar : ParOK par) (proc : Proc) (hp : ProcNames proc) (st : St)
    (hr : ReachNR (treeTopo par) proc st) (idx u : Nat) (hpu : par[idx]? = some u) (lo : Int) (e : Ev) (hne : isRestart e = false)
    (hw : InWindow u lo e) (h : EdgePre st u (idx + 1) lo) :
    (EdgePre (step (treeTopo par) proc st e).1 u (idx + 1) lo ∧ publishesAt u e (step (treeTopo par) proc st e).2 = false) ∨
    EdgePost (step (treeTopo par) proc st e).1 u (idx + 1) lo := by
  rcases h with ⟨nd, hu, hT⟩
  have ⟨hown, X, hX, hg⟩ := tree_inv par hpar proc hp st hr
  subst hX
  by_cases hsend : ∃ t, e = .nodeSend u t
  · rcases hsend with ⟨t, rfl⟩
    rcases send_self_cases (treeTopo par) proc X.st u t nd hu with ⟨nd', hu', hpb, hno⟩ | ⟨p, hpend, _, hu', hpb, hno⟩
    · exact Or.inl ⟨⟨nd', hu', by rw [hpb]; exact hT⟩, hno⟩
    · rcases (hown u nd hu).pub with ⟨q, hq, hqr⟩
      have ⟨q', h1, _, h3, h4⟩ := send0_tracked nd.pub q nd.sendState (payloadOf X.st.tbl.length p.res) t (fidC (idx + 1)) lo hq hT
        (fun r hr _ => ⟨(hqr r hr).1, by have := (hqr r hr).2; simp only [OF.Facts.MSG_ID_SPECIAL]; omega⟩) (hw t rfl).2 (hw t rfl).1
      cases hpub : publishesAt u (.nodeSend u t) (step (treeTopo par) proc X.st (.nodeSend u t)).2 with
      | false => exact Or.inl ⟨⟨_, hu', by rw [hpb]; exact h3⟩, rfl⟩
      | true =>
        right
        rw [hno] at hpub
        have hpm : Send.pubMids (Send.send0 nd.pub nd.sendState (payloadOf X.st.tbl.length p.res) false [0] t).2 ≠ [] := by
          intro hc
          rw [noData_of_pubMids_nil u _ hc] at hpub; cases hpub
        have ⟨h5, h6⟩ := h4 hpm
        subst h5
        rcases tree_edge_facts proc par X hg idx u hpu hpar with ⟨P, C, s, bsW, hd⟩
        have hPn : P = nd := by have := hd.nP; rw [hu] at this; exact (Option.some.inj this).symm
        subst hPn
        have ⟨_, hms, hcase⟩ := tree_send_outcome proc par X hg u P p t hu hpend (List.mem_of_getElem? hpu)
        have hmin : (Send.send0 P.pub P.sendState (payloadOf X.st.tbl.length p.res) false [0] t).1.minSendId = sendId P + 1 := by
          rcases hcase with ⟨_, _, hh⟩ | ⟨_, _, hh⟩ | ⟨d, _, _, m1, _⟩
          · rw [hellos_noData u _ hh] at hpub; cases hpub
          · rw [hellos_noData u _ hh] at hpub; cases hpub
          · exact m1
        refine ⟨_, [], hu', by rw [hpb]; exact h1, by rw [hpb]; exact h6, (fun r hr => by cases hr), ?_⟩
        rw [prevOf_step (treeTopo par) proc X.st (idx + 1) _ hne (by intro hc; cases hc), prevOf_some _ _ _ hd.nC,
          msOf_some _ _ _ hu', hpb, hmin]
        have := hd.lt
        omega
  · rcases step_pub_cases (treeTopo par) proc X.st e u nd hu hne with ⟨nd', hu', hc⟩
    rcases hc with ⟨i, rs, rfl, hpb, _, hno⟩ | ⟨hpb, hno⟩ | ⟨t, p, rfl, _⟩
    · exact Or.inl ⟨⟨nd', hu', by rw [hpb]; exact hT⟩, hno⟩
    · exact Or.inl ⟨⟨nd', hu', by rw [hpb]; exact hT⟩, hno⟩
    · exact absurd ⟨t, rfl⟩ hsend

theorem edge_post_step (par : List Nat) (hpar : ParOK par) (proc : Proc) (hp : ProcNames proc) (st : St)
    (hr : ReachNR (treeTopo par) proc st) (idx u : Nat) (hpu : par[idx]? = some u) (lo : Int) (e : Ev) (hne : isRestart e = false)
    (hw : InWindow u lo e) (h : EdgePost st u (idx + 1) lo) :
    (EdgePost (step (treeTopo par) proc st e).1 u (idx + 1) lo ∧ publishesAt u e (step (treeTopo par) proc st e).2 = false) ∨
    (EdgePre (step (treeTopo par) proc st e).1 u (idx + 1) lo ∧ publishesAt u e (step (treeTopo par) proc st e).2 = false ∧
      handedAt (idx + 1) e (step (treeTopo par) proc st e).2 = true) := by
  rcases h with ⟨nd, q, hu, hq, hH, hk, hlt⟩
  have ⟨_, X, hX, hg⟩ := tree_inv par hpar proc hp st hr
  subst hX
  rcases tree_edge_facts proc par X hg idx u hpu hpar with ⟨P, C, s, bsW, hd⟩
  have hPn : P = nd := by have := hd.nP; rw [hu] at this; exact (Option.some.inj this).symm
  subst hPn
  rw [prevOf_some _ _ _ hd.nC, msOf_some _ _ _ hu] at hlt
  by_cases hrc : e = .nodeRecv (idx + 1)
  · subst hrc
    show (EdgePost (stepRecv (treeTopo par) proc X.st (idx + 1)).1 u (idx + 1) lo ∧ _) ∨ _
    cases hpend : C.pending with
    | some p =>
      have hs : stepRecv (treeTopo par) proc X.st (idx + 1) = (X.st, .noop) := by
        unfold stepRecv; simp only [hd.nC, hpend, Option.isSome_some, ↓reduceIte]
      left
      refine ⟨?_, rfl⟩
      show EdgePost (stepRecv (treeTopo par) proc X.st (idx + 1)).1 u (idx + 1) lo
      rw [hs]
      exact ⟨P, q, hu, hq, hH, hk, by rw [prevOf_some _ _ _ hd.nC, msOf_some _ _ _ hu]; exact hlt⟩
    | none =>
      obtain ⟨rq, C', s', hsh, _, _, _, _, _, _, _, _, _, hcase⟩ := tree_recv_shape par hpar proc X.st idx u hpu P C s bsW hd hpend
      right
      have hne0 : bsW ≠ [] := fun hc => (hd.iff.mp hc) hlt
      rcases hcase with ⟨hb0, _⟩ | ⟨k, ts, bs', _, _, _, _, _, _, hh⟩
      · exact absurd hb0 hne0
      · refine ⟨⟨{ P with pub := pushReqs P.pub [rq] }, ?_, hH.1⟩, rfl, hh⟩
        show (stepRecv (treeTopo par) proc X.st (idx + 1)).1.nodes[u]? = _
        rw [hsh u]; simp
  · have hprev := prevOf_step (treeTopo par) proc X.st (idx + 1) e hne hrc
    by_cases hsend : ∃ t, e = .nodeSend u t
    · rcases hsend with ⟨t, rfl⟩
      rcases send_self_cases (treeTopo par) proc X.st u t P hu with ⟨nd', hu', hpb, hno⟩ | ⟨p, hpend, _, hu', hpb, hno⟩
      · left
        refine ⟨⟨nd', q, hu', by rw [hpb]; exact hq, by rw [hpb]; exact hH, hk, ?_⟩, hno⟩
        rw [hprev, prevOf_some _ _ _ hd.nC, msOf_some _ _ _ hu', hpb]; exact hlt
      · have ⟨⟨q', h1, pre, h2⟩, h3, h4⟩ := send0_holding P.pub q P.sendState (payloadOf X.st.tbl.length p.res) t (fidC (idx + 1)) lo
          hq hH hk (hw t rfl).2
        have ⟨_, hms, hcase⟩ := tree_send_outcome proc par X hg u P p t hu hpend (List.mem_of_getElem? hpu)
        have hmin : P.pub.minSendId ≤ (Send.send0 P.pub P.sendState (payloadOf X.st.tbl.length p.res) false [0] t).1.minSendId := by
          rcases hcase with ⟨m1, _⟩ | ⟨_, m1, _⟩ | ⟨d, _, _, m1, _⟩
          · omega
          · omega
          · omega
        left
        refine ⟨⟨_, q', hu', by rw [hpb]; exact h1, by rw [hpb]; exact h3, ?_, ?_⟩, by rw [hno]; exact noData_of_pubMids_nil u _ h4⟩
        · intro r hr
          exact hk r (by rw [h2]; exact List.mem_append_right _ hr)
        · rw [hprev, prevOf_some _ _ _ hd.nC, msOf_some _ _ _ hu', hpb]; omega
    · rcases step_pub_cases (treeTopo par) proc X.st e u P hu hne with ⟨nd', hu', hc⟩
      rcases hc with ⟨i, rs, rfl, hpb, hrs, hno⟩ | ⟨hpb, hno⟩ | ⟨t, p, rfl, _⟩
      · left
        have hic : i ≠ idx + 1 := fun hc => hrc (by rw [hc])
        refine ⟨⟨nd', q ++ rs, hu', by rw [hpb]; exact Pair.pubIdle_pushReqs P.pub q rs hq, by rw [hpb]; exact hH, ?_, ?_⟩, hno⟩
        · intro r hr
          rcases List.mem_append.mp hr with hr | hr
          · exact hk r hr
          · rcases hrs r hr with ⟨g2, j2, e2⟩
            rw [e2]
            exact key_ne i (idx + 1) g2 j2 0 0 hic
        · rw [hprev, prevOf_some _ _ _ hd.nC, msOf_some _ _ _ hu', hpb]; exact hlt
      · left
        refine ⟨⟨nd', q, hu', by rw [hpb]; exact hq, by rw [hpb]; exact hH, hk, ?_⟩, hno⟩
        rw [hprev, prevOf_some _ _ _ hd.nC, msOf_some _ _ _ hu', hpb]; exact hlt
      · exact absurd ⟨t, rfl⟩ hsend

/-- along `evs` nobody is restarted and the clock readings of `u`'s `send` calls lie within one connection time-out above `lo` -/
def EdgeWin (u : Nat) (lo : Int) (evs : List Ev) : Prop := ∀ e ∈ evs, isRestart e = false ∧ InWindow u lo e

/-- **one edge `u → c`, any continuation inside the window**: a publisher that tracks `c` publishes at most one frame set more
than `c` is handed; none more, while `c` holds it -/
theorem edge_run (par : List Nat) (hpar : ParOK par) (proc : Proc) (hp : ProcNames proc) (idx u : Nat) (hpu : par[idx]? = some u)
    (lo : Int) : ∀ (evs : List Ev) (st : St), ReachNR (treeTopo par) proc st → EdgeWin u lo evs →
    (EdgePost st u (idx + 1) lo → pubCount (treeTopo par) proc u st evs ≤ hdCount (treeTopo par) proc (idx + 1) st evs) ∧
    (EdgePre st u (idx + 1) lo → pubCount (treeTopo par) proc u st evs ≤ 1 + hdCount (treeTopo par) proc (idx + 1) st evs) := by
  intro evs
  induction evs with
  | nil => intro st _ _; exact ⟨fun _ => Nat.le_refl _, fun _ => Nat.zero_le _⟩
  | cons e es ih =>
    intro st hr hw
    have ⟨hne, hwe⟩ := hw e (List.mem_cons_self ..)
    have ⟨ih1, ih2⟩ := ih _ (.step e hne hr) (fun x hx => hw x (List.mem_cons_of_mem _ hx))
    constructor
    · intro h
      simp only [pubCount, hdCount]
      rcases edge_post_step par hpar proc hp st hr idx u hpu lo e hne hwe h with ⟨a, b⟩ | ⟨a, b, c⟩
      · have := ih1 a
        rw [b]; simp only [Bool.false_eq_true, ↓reduceIte]; omega
      · have := ih2 a
        rw [b, c]; simp only [Bool.false_eq_true, ↓reduceIte]; omega
    · intro h
      simp only [pubCount, hdCount]
      rcases edge_pre_step par hpar proc hp st hr idx u hpu lo e hne hwe h with ⟨a, b⟩ | a
      · have := ih2 a
        rw [b]; simp only [Bool.false_eq_true, ↓reduceIte]; omega
      · have := ih1 a
        split <;> split <;> omega

/-- a node that makes no `recv` is handed nothing -/
theorem hdCount_silent (tp : Topo) (proc : Proc) (K : Nat) : ∀ (evs : List Ev) (st : St), (∀ e ∈ evs, e ≠ .nodeRecv K) →
    hdCount tp proc K st evs = 0 := by
  intro evs
  induction evs with
  | nil => intro st _; rfl
  | cons e es ih =>
    intro st hs
    simp only [hdCount]
    rw [ih _ (fun x hx => hs x (List.mem_cons_of_mem _ hx))]
    cases hh : handedAt K e (step tp proc st e).2 with
    | false => rfl
    | true => exact absurd (handedAt_recv K e _ hh) (hs e (List.mem_cons_self ..))

/-! ## a relay that forwards every set -/

/-- node `c` answers every set with a dict (directly or through a callable): it never drops a set -/
def FwdAt (proc : Proc) (c : Nat) : Prop := ∀ n h, (dictOf (Loop.processFrames (proc c n h))).isSome = true

/-- what such a node holds to send is a dict -/
theorem step_len (tp : Topo) (proc : Proc) (st : St) (e : Ev) (hne : isRestart e = false) :
    (step tp proc st e).1.nodes.length = st.nodes.length := by
  cases e with
  | restart i g => cases hne
  | nodeRecv i =>
    simp only [step, stepRecv]
    cases st.nodes[i]? with
    | none => rfl
    | some nd =>
      simp only
      split
      · rfl
      · split
        · simp only [recvSource, List.length_set]
        · simp only [recvRelay, deliverReqs, List.length_mapIdx, List.length_set]
  | nodeSend i t =>
    simp only [step, stepSend]
    cases st.nodes[i]? with
    | none => rfl
    | some nd =>
      simp only
      cases nd.pending with
      | none => rfl
      | some p =>
        simp only
        split
        · simp only [sendReal, deliverWires, List.length_mapIdx, List.length_set]
        · simp only [sendSkip, List.length_set]

theorem pendDict_reachNR (tp : Topo) (proc : Proc) (c : Nat) (hf : FwdAt proc c) (st : St) (hr : ReachNR tp proc st) :
    ∀ nd p, st.nodes[c]? = some nd → nd.pending = some p → (dictOf p.res).isSome = true := by
  induction hr with
  | init =>
    intro nd p hnd hpd
    have ⟨_, e⟩ := init_get _ _ _ hnd
    subst e; cases hpd
  | @step st0 e hne hr' ih =>
    intro nd p hnd hpd
    have hc : c < st0.nodes.length := by rw [← step_len tp proc st0 e hne]; exact (List.getElem?_eq_some_iff.mp hnd).1
    have h0 : st0.nodes[c]? = some st0.nodes[c] := List.getElem?_eq_getElem hc
    generalize st0.nodes[c] = nd0 at h0
    rcases step_node_cases tp proc st0 e c nd0 hne h0 with ⟨nd', hnd', h1, h2, h3⟩
    rw [hnd] at hnd'; cases hnd'
    by_cases hr1 : e = .nodeRecv c
    · rcases h1 hr1 with h | ⟨_, h', o, h⟩
      · exact ih nd0 p h0 (by rw [← h]; exact hpd)
      · rw [h] at hpd; cases hpd; exact hf _ _
    · by_cases hs1 : ∃ t, e = .nodeSend c t
      · rcases h2 hs1 with h | h
        · exact ih nd0 p h0 (by rw [← h]; exact hpd)
        · rw [h] at hpd; cases hpd
      · have := h3 hr1 (fun t ht => hs1 ⟨t, ht⟩)
        exact ih nd0 p h0 (by rw [← this]; exact hpd)

theorem send_self_real (tp : Topo) (proc : Proc) (st : St) (u : Nat) (t : Int) (nd : Node) (p : Pending) (hu : st.nodes[u]? = some nd)
    (hpend : nd.pending = some p) (hreach : Loop.reachesSender (tp.hasOut u) p.res = true) :
    (step tp proc st (.nodeSend u t)).1.nodes[u]? = some (sendF tp st u nd p t u nd) ∧
    (sendF tp st u nd p t u nd).pending =
      (afterSend nd p (Send.send0 nd.pub nd.sendState (payloadOf st.tbl.length p.res) false [0] t)).pending ∧
    publishesAt u (.nodeSend u t) (step tp proc st (.nodeSend u t)).2 =
      ((Send.send0 nd.pub nd.sendState (payloadOf st.tbl.length p.res) false [0] t).2.filterMap (wireOf u)).any isData := by
  have hstep : step tp proc st (.nodeSend u t) = stepSend tp st u t := rfl
  rw [hstep]
  have hs : stepSend tp st u t = sendReal tp st u nd p t := by
    unfold stepSend; simp only [hu, hpend, hreach, ↓reduceIte]
  have hget := stepSend_real_get tp st u nd p t hu hpend hreach u
  refine ⟨by rw [hget, hu]; rfl, by simp only [sendF, ↓reduceIte], ?_⟩
  rw [hs]; simp only [sendReal, publishesAt, beq_self_eq_true, Bool.true_and]

/-- **a relay `c` (parent `u`, at least one consumer) that forwards every set**: it is handed at most one frame set more than it
publishes - none more while it holds a result: `recv` is not called before `send` has succeeded, and `send` succeeds by publishing -/
theorem relay_run (par : List Nat) (hpar : ParOK par) (proc : Proc) (hp : ProcNames proc) (idx u : Nat) (hpu : par[idx]? = some u)
    (hout : idx + 1 ∈ par) (hf : FwdAt proc (idx + 1)) : ∀ (evs : List Ev) (st : St), ReachNR (treeTopo par) proc st →
    (∀ e ∈ evs, isRestart e = false) → ∀ nd, st.nodes[idx + 1]? = some nd →
    hdCount (treeTopo par) proc (idx + 1) st evs + (if nd.pending.isSome then 1 else 0) ≤ 1 + pubCount (treeTopo par) proc (idx + 1) st evs := by
  intro evs
  induction evs with
  | nil => intro st _ _ nd _; simp only [hdCount, pubCount]; split <;> omega
  | cons e es ih =>
    intro st hr hnr nd hnd
    have hne := hnr e (List.mem_cons_self ..)
    have ih' := ih _ (.step e hne hr) (fun x hx => hnr x (List.mem_cons_of_mem _ hx))
    have ⟨_, X, hX, hg⟩ := tree_inv par hpar proc hp st hr
    subst hX
    simp only [hdCount, pubCount]
    by_cases hrc : e = .nodeRecv (idx + 1)
    · subst hrc
      have hnp : publishesAt (idx + 1) (.nodeRecv (idx + 1)) (step (treeTopo par) proc X.st (.nodeRecv (idx + 1))).2 = false := rfl
      rw [hnp]
      cases hpend : nd.pending with
      | some p =>
        have hs : step (treeTopo par) proc X.st (.nodeRecv (idx + 1)) = (X.st, .noop) := by
          show stepRecv (treeTopo par) proc X.st (idx + 1) = _
          unfold stepRecv; simp only [hnd, hpend, Option.isSome_some, ↓reduceIte]
        have := ih' nd (by rw [hs]; exact hnd)
        rw [hs] at this ⊢
        rw [hpend] at this
        simp only [handedAt, Bool.false_eq_true, ↓reduceIte, Option.isSome_some] at this ⊢
        omega
      | none =>
        rcases tree_edge_facts proc par X hg idx u hpu hpar with ⟨P, C, s, bsW, hd⟩
        have hCn : C = nd := by have := hd.nC; rw [hnd] at this; exact (Option.some.inj this).symm
        subst hCn
        obtain ⟨rq, C', s', hsh, _, _, _, _, _, _, _, _, _, hcase⟩ := tree_recv_shape par hpar proc X.st idx u hpu P C s bsW hd hpend
        have hule : u ≤ idx := hpar idx u hpu
        have hC' : (step (treeTopo par) proc X.st (.nodeRecv (idx + 1))).1.nodes[idx + 1]? = some C' := by
          show (stepRecv (treeTopo par) proc X.st (idx + 1)).1.nodes[idx + 1]? = _
          rw [hsh (idx + 1)]
          have : ¬ idx + 1 = u := by omega
          simp only [this, ↓reduceIte]
        have := ih' C' hC'
        rcases hcase with ⟨_, _, hp', _, _, hh⟩ | ⟨k, ts, bs', _, _, _, _, _, hp', hh⟩
        · have hh' : handedAt (idx + 1) (.nodeRecv (idx + 1)) (step (treeTopo par) proc X.st (.nodeRecv (idx + 1))).2 = false := hh
          rw [hp'] at this
          rw [hh']
          simp only [Bool.false_eq_true, ↓reduceIte, Option.isSome_none] at this ⊢
          omega
        · have hh' : handedAt (idx + 1) (.nodeRecv (idx + 1)) (step (treeTopo par) proc X.st (.nodeRecv (idx + 1))).2 = true := hh
          rw [hp'] at this
          rw [hh']
          simp only [Bool.false_eq_true, ↓reduceIte, Option.isSome_none, Option.isSome_some] at this ⊢
          omega
    · have hnh : handedAt (idx + 1) e (step (treeTopo par) proc X.st e).2 = false := by
        cases hh : handedAt (idx + 1) e (step (treeTopo par) proc X.st e).2 with
        | false => rfl
        | true => exact absurd (handedAt_recv _ _ _ hh) hrc
      rw [hnh]
      by_cases hsend : ∃ t, e = .nodeSend (idx + 1) t
      · rcases hsend with ⟨t, rfl⟩
        cases hpend : nd.pending with
        | none =>
          have hs : step (treeTopo par) proc X.st (.nodeSend (idx + 1) t) = (X.st, .noop) := by
            show stepSend (treeTopo par) X.st (idx + 1) t = _
            unfold stepSend; simp only [hnd, hpend]
          have := ih' nd (by rw [hs]; exact hnd)
          rw [hs] at this ⊢
          rw [hpend] at this
          simp only [publishesAt, Bool.false_eq_true, ↓reduceIte, Option.isSome_none] at this ⊢
          omega
        | some p =>
          have hdict := pendDict_reachNR (treeTopo par) proc (idx + 1) hf X.st hr nd p hnd hpend
          have hreach : Loop.reachesSender ((treeTopo par).hasOut (idx + 1)) p.res = true := by
            rw [reaches_of_dict _ _ hdict, tree_hasOut]; simpa using hout
          have ⟨hn', hp', hpa⟩ := send_self_real (treeTopo par) proc X.st (idx + 1) t nd p hnd hpend hreach
          have := ih' _ hn'
          rw [hp', afterSend_pending] at this
          rw [hpa]
          have ⟨hs0, _, hcase⟩ := tree_send_outcome proc par X hg (idx + 1) nd p t hnd hpend hout
          rcases hcase with ⟨_, m2, hh⟩ | ⟨hdn, _⟩ | ⟨d, _, _, _, m2, m4⟩
          · rw [m2] at this
            rw [hellos_noData _ _ hh]
            simp only [hpend, Bool.false_eq_true, ↓reduceIte, Option.isSome_some] at this ⊢
            omega
          · rw [hdn] at hdict; cases hdict
          · rw [m2] at this
            rw [m4, blockWires_data _ _ _ hs0]
            simp only [Bool.false_eq_true, ↓reduceIte, Option.isSome_none, Option.isSome_some] at this ⊢
            omega
      · have hnp : publishesAt (idx + 1) e (step (treeTopo par) proc X.st e).2 = false := by
          cases hh : publishesAt (idx + 1) e (step (treeTopo par) proc X.st e).2 with
          | false => rfl
          | true => exact absurd (publishesAt_send _ _ _ hh) hsend
        rw [hnp]
        rcases step_node_cases (treeTopo par) proc X.st e (idx + 1) nd hne hnd with ⟨nd', hnd', _, _, h3⟩
        have hpe := h3 hrc (fun t ht => hsend ⟨t, ht⟩)
        have := ih' nd' hnd'
        rw [hpe] at this
        simp only [Bool.false_eq_true, ↓reduceIte] at this ⊢
        omega

/-! ## how many frame sets are queued towards a node -/

/-- number of frame sets a receiver whose `prev_id` is `prev` will assemble from the SUB queue `q`: every `//` heartbeat with an id
above the last one taken closes one -/
def qSets : Int → List Recv.Wire → Nat
  | _, [] => 0
  | prev, w :: q => if w.frame0 == "//" && decide (prev < w.mid) then 1 + qSets w.mid q else qSets prev q

/-- frame sets queued at the SUB socket(s) of node `c` that it has not returned yet -/
def queuedAt (st : St) (c : Nat) : Nat :=
  match st.nodes[c]? with
  | some C => (C.con.srcs.map fun s => qSets C.con.prevId s.queue).sum
  | none => 0

theorem qSets_topics (p : Nat) (k prev : Int) (ts : List (String × Nat)) (q : List Recv.Wire) :
    ∀ (l : List (String × Nat)), (∀ x ∈ l, x.1 ≠ "") →
    qSets prev (l.map (fun x => ({ frame0 := Send.frame0 x.1, sid := cidOf p, mid := k, topics := ts.map (·.1), bal := 0, body := x.2 } : Recv.Wire)) ++ q) =
      qSets prev q := by
  intro l
  induction l with
  | nil => intro _; rfl
  | cons x xs ih =>
    intro h
    have hne : Send.frame0 x.1 ≠ "//" := frame0_ne_hb x.1 (h x (List.mem_cons_self ..))
    have hb : (Send.frame0 x.1 == "//") = false := by simpa using hne
    simp only [List.map_cons, List.cons_append, qSets, hb, Bool.false_and, Bool.false_eq_true, ↓reduceIte]
    exact ih (fun y hy => h y (List.mem_cons_of_mem _ hy))

theorem chanQ_count (p : Nat) {prev : Int} {q : List Recv.Wire} {bs : List Blk} (h : ChanQ p prev q bs) (hp : -1 ≤ prev) :
    qSets prev q = bs.length := by
  induction h with
  | nil prev => rfl
  | @skip prev w q bs hw _ ih =>
    have hc : (w.frame0 == "//" && decide (prev < w.mid)) = false := by
      have : ¬ prev < w.mid := by
        rcases hw.2 with h1 | ⟨_, h2⟩
        · rw [h1]; simp only [OF.Facts.MSG_ID_HELLO]; omega
        · omega
      simp [this]
    simp only [qSets, hc, Bool.false_eq_true, ↓reduceIte]
    exact ih hp
  | @blk prev k ts q bs hlt hb _ ih =>
    unfold blockWires
    rw [List.append_assoc, qSets_topics p k prev ts _ _ (fun x hx => hb.2 x (List.mem_filter.mp hx).1)]
    simp only [List.cons_append, List.nil_append, qSets, beq_self_eq_true, Bool.true_and, decide_eq_true_eq, hlt, ↓reduceIte,
      List.length_cons]
    rw [ih (by omega)]; omega

theorem queuedAt_edge (st : St) (u c : Nat) (P C : Node) (s : Recv.Src) (bsW : List Blk) (hd : TEdge st u c P C s bsW) :
    queuedAt st c = bsW.length := by
  unfold queuedAt
  rw [hd.nC]
  simp only [hd.rest.idle.srcs, List.map_cons, List.map_nil, List.sum_cons, List.sum_nil, Nat.add_zero]
  exact chanQ_count u hd.chan hd.rest.idle.prev

theorem queuedAt_single (st : St) (c : Nat) (C : Node) (s : Recv.Src) (hC : st.nodes[c]? = some C) (hs : C.con.srcs = [s]) :
    queuedAt st c = qSets C.con.prevId s.queue := by
  unfold queuedAt
  rw [hC]
  simp only [hs, List.map_cons, List.map_nil, List.sum_cons, List.sum_nil, Nat.add_zero]

theorem queuedAt_congr (st st' : St) (c : Nat) (C C' : Node) (h : st.nodes[c]? = some C) (h' : st'.nodes[c]? = some C')
    (hc : C'.con = C.con) : queuedAt st' c = queuedAt st c := by
  unfold queuedAt; rw [h, h']; simp only [hc]

/-- an event that is neither the `recv` of `c` nor a `send` of its only upstream `u` leaves the receiver of `c` alone -/
theorem step_con_other (tp : Topo) (proc : Proc) (st : St) (e : Ev) (u c : Nat) (C : Node) (hne : isRestart e = false)
    (hC : st.nodes[c]? = some C) (hups : tp.upsOf c = [u]) (hr : e ≠ .nodeRecv c) (hs : ∀ t, e ≠ .nodeSend u t) :
    ∃ C', (step tp proc st e).1.nodes[c]? = some C' ∧ C'.con = C.con := by
  cases e with
  | restart i g => cases hne
  | nodeRecv i =>
    have hic : c ≠ i := fun h => hr (by rw [h])
    have hstep : step tp proc st (.nodeRecv i) = stepRecv tp proc st i := rfl
    rw [hstep]
    cases hn : st.nodes[i]? with
    | none => exact ⟨C, by unfold stepRecv; simp only [hn]; exact hC, rfl⟩
    | some ni =>
      cases hpend : ni.pending with
      | some p => exact ⟨C, by unfold stepRecv; simp only [hn, hpend, Option.isSome_some, ↓reduceIte]; exact hC, rfl⟩
      | none =>
        cases hsrc : ni.con.srcs.isEmpty with
        | true =>
          have hst : (stepRecv tp proc st i).1 = { st with nodes := st.nodes.set i (processed proc i ni []) } := by
            unfold stepRecv; simp only [hn, hpend, Option.isSome_none, Bool.false_eq_true, ↓reduceIte, hsrc, recvSource]
          rw [hst]
          simp only
          rw [set_get _ _ _ _ hn]
          exact ⟨C, by simp only [hic, ↓reduceIte]; exact hC, rfl⟩
        | false =>
          rw [stepRecv_relay_get tp proc st i ni hn hpend hsrc c, hC]
          exact ⟨_, rfl, by rw [recvF_ne tp proc st i ni c C hic]⟩
  | nodeSend i t =>
    have hiu : i ≠ u := fun h => hs t (by rw [h])
    have hstep : step tp proc st (.nodeSend i t) = stepSend tp st i t := rfl
    rw [hstep]
    cases hn : st.nodes[i]? with
    | none => exact ⟨C, by unfold stepSend; simp only [hn]; exact hC, rfl⟩
    | some ni =>
      cases hpend : ni.pending with
      | none => exact ⟨C, by unfold stepSend; simp only [hn, hpend]; exact hC, rfl⟩
      | some p =>
        cases hreach : Loop.reachesSender (tp.hasOut i) p.res with
        | false =>
          have hst : (stepSend tp st i t).1 = { st with nodes := st.nodes.set i { ni with pending := none } } := by
            unfold stepSend; simp only [hn, hpend, hreach, Bool.false_eq_true, ↓reduceIte, sendSkip]
          rw [hst]
          simp only
          rw [set_get _ _ _ _ hn]
          by_cases hci : c = i
          · subst hci
            rw [hn] at hC; cases hC
            exact ⟨{ C with pending := none }, by simp, rfl⟩
          · exact ⟨C, by simp only [hci, ↓reduceIte]; exact hC, rfl⟩
        | true =>
          rw [stepSend_real_get tp st i ni p t hn hpend hreach c, hC]
          refine ⟨_, rfl, ?_⟩
          have hno : ∀ (x : Recv.St), pushWires x (tp.upsOf c) i
              ((Send.send0 ni.pub ni.sendState (payloadOf st.tbl.length p.res) false [0] t).2.filterMap (wireOf i)) = x := by
            intro x
            apply pushWires_noop
            intro k
            rw [hups]
            cases k with
            | zero => simp; exact fun h => hiu h.symm
            | succ k => simp
          by_cases hci : c = i
          · subst hci
            rw [hn] at hC; cases hC
            simp only [sendF, ↓reduceIte]
            rw [hno, afterSend_con]
          · rw [sendF_ne tp st i ni p t c C hci]
            simp only
            rw [hno]

/-- **conservation along one edge `u → c`, one event**: sets handed to `c` + sets still queued towards it = sets queued before + sets
`u` publishes -/
theorem edge_conserve_step (par : List Nat) (hpar : ParOK par) (proc : Proc) (hp : ProcNames proc) (st : St)
    (hr : ReachNR (treeTopo par) proc st) (idx u : Nat) (hpu : par[idx]? = some u) (e : Ev) (hne : isRestart e = false) :
    (if handedAt (idx + 1) e (step (treeTopo par) proc st e).2 then 1 else 0) + queuedAt (step (treeTopo par) proc st e).1 (idx + 1) =
      queuedAt st (idx + 1) + (if publishesAt u e (step (treeTopo par) proc st e).2 then 1 else 0) := by
  have ⟨_, X, hX, hg⟩ := tree_inv par hpar proc hp st hr
  subst hX
  rcases tree_edge_facts proc par X hg idx u hpu hpar with ⟨P, C, s, bsW, hd⟩
  have hule : u ≤ idx := hpar idx u hpu
  have hups : (treeTopo par).upsOf (idx + 1) = [u] := (tree_ups_iff par idx u).mpr hpu
  have hq0 := queuedAt_edge X.st u (idx + 1) P C s bsW hd
  by_cases hrc : e = .nodeRecv (idx + 1)
  · subst hrc
    have hnp : publishesAt u (.nodeRecv (idx + 1)) (step (treeTopo par) proc X.st (.nodeRecv (idx + 1))).2 = false := rfl
    rw [hnp]
    cases hpend : C.pending with
    | some p =>
      have hs : step (treeTopo par) proc X.st (.nodeRecv (idx + 1)) = (X.st, .noop) := by
        show stepRecv (treeTopo par) proc X.st (idx + 1) = _
        unfold stepRecv; simp only [hd.nC, hpend, Option.isSome_some, ↓reduceIte]
      rw [hs]; simp [handedAt]
    | none =>
      obtain ⟨rq, C', s', hsh, _, _, _, _, _, _, _, hs', _, hcase⟩ := tree_recv_shape par hpar proc X.st idx u hpu P C s bsW hd hpend
      have hC' : (step (treeTopo par) proc X.st (.nodeRecv (idx + 1))).1.nodes[idx + 1]? = some C' := by
        show (stepRecv (treeTopo par) proc X.st (idx + 1)).1.nodes[idx + 1]? = _
        rw [hsh (idx + 1)]
        have : ¬ idx + 1 = u := by omega
        simp only [this, ↓reduceIte]
      rw [queuedAt_single _ _ C' s' hC' hs', hq0]
      rcases hcase with ⟨hb0, _, _, hq', _, hh⟩ | ⟨k, ts, bs', hb0, hk, hp', hch, _, _, hh⟩
      · have hh' : handedAt (idx + 1) (.nodeRecv (idx + 1)) (step (treeTopo par) proc X.st (.nodeRecv (idx + 1))).2 = false := hh
        rw [hh', hq', hb0]; rfl
      · have hh' : handedAt (idx + 1) (.nodeRecv (idx + 1)) (step (treeTopo par) proc X.st (.nodeRecv (idx + 1))).2 = true := hh
        have hk1 : -1 ≤ k := by have := hd.rest.idle.prev; omega
        rw [hh', hp', chanQ_count u hch hk1, hb0]
        simp only [↓reduceIte, Bool.false_eq_true, List.length_cons]; omega
  · have hnh : handedAt (idx + 1) e (step (treeTopo par) proc X.st e).2 = false := by
      cases hh : handedAt (idx + 1) e (step (treeTopo par) proc X.st e).2 with
      | false => rfl
      | true => exact absurd (handedAt_recv _ _ _ hh) hrc
    rw [hnh]
    by_cases hsend : ∃ t, e = .nodeSend u t
    · rcases hsend with ⟨t, rfl⟩
      have hPn := hd.nP
      have hcu : idx + 1 ≠ u := by omega
      cases hpend : P.pending with
      | none =>
        have hs : step (treeTopo par) proc X.st (.nodeSend u t) = (X.st, .noop) := by
          show stepSend (treeTopo par) X.st u t = _
          unfold stepSend; simp only [hPn, hpend]
        rw [hs]; simp [publishesAt]
      | some p =>
        cases hreach : Loop.reachesSender ((treeTopo par).hasOut u) p.res with
        | false =>
          have hs : step (treeTopo par) proc X.st (.nodeSend u t) = sendSkip X.st u P := by
            show stepSend (treeTopo par) X.st u t = _
            unfold stepSend; simp only [hPn, hpend, hreach, Bool.false_eq_true, ↓reduceIte]
          rw [hs]
          have hC' : (sendSkip X.st u P).1.nodes[idx + 1]? = some C := by
            simp only [sendSkip]; rw [set_get _ _ _ _ hPn]; simp only [hcu, ↓reduceIte]; exact hd.nC
          rw [queuedAt_congr X.st _ (idx + 1) C C hd.nC hC' rfl]
          simp [sendSkip, publishesAt]
        | true =>
          have ⟨_, _, hpa⟩ := send_self_real (treeTopo par) proc X.st u t P p hPn hpend hreach
          rw [hpa]
          have hC' : (step (treeTopo par) proc X.st (.nodeSend u t)).1.nodes[idx + 1]? =
              some (sendF (treeTopo par) X.st u P p t (idx + 1) C) := by
            show (stepSend (treeTopo par) X.st u t).1.nodes[idx + 1]? = _
            rw [stepSend_real_get (treeTopo par) X.st u P p t hPn hpend hreach (idx + 1), hd.nC]; rfl
          rw [sendF_ne (treeTopo par) X.st u P p t (idx + 1) C hcu, hups] at hC'
          have ⟨e1, _⟩ := rest_push C.con s u
            ((Send.send0 P.pub P.sendState (payloadOf X.st.tbl.length p.res) false [0] t).2.filterMap (wireOf u)) hd.rest
          rw [e1] at hC'
          rw [queuedAt_single _ _ _ _ hC' rfl, hq0]
          have ⟨hs0, hms, hcase⟩ := tree_send_outcome proc par X hg u P p t hPn hpend (List.mem_of_getElem? hpu)
          have hprev := hd.rest.idle.prev
          rcases hcase with ⟨_, _, hh⟩ | ⟨_, _, hh⟩ | ⟨d, _, hnm, _, _, m4⟩
          · rw [hellos_noData _ _ hh]
            have : ChanQ u C.con.prevId (s.queue ++ (Send.send0 P.pub P.sendState (payloadOf X.st.tbl.length p.res) false [0] t).2.filterMap (wireOf u)) bsW := by
              rcases hh with h0 | h0
              · rw [h0, List.append_nil]; exact hd.chan
              · rw [h0]; exact OF.Chain.chanQ_hello u hd.chan
            simp only [Bool.false_eq_true, ↓reduceIte]
            rw [chanQ_count u this hprev]; omega
          · rw [hellos_noData _ _ hh]
            have : ChanQ u C.con.prevId (s.queue ++ (Send.send0 P.pub P.sendState (payloadOf X.st.tbl.length p.res) false [0] t).2.filterMap (wireOf u)) bsW := by
              rcases hh with h0 | h0
              · rw [h0, List.append_nil]; exact hd.chan
              · rw [h0]; exact OF.Chain.chanQ_hello u hd.chan
            simp only [Bool.false_eq_true, ↓reduceIte]
            rw [chanQ_count u this hprev]; omega
          · rw [m4, blockWires_data _ _ _ hs0]
            have := OF.Chain.chanQ_block u (sendId P) _ (blkOK_relabel d X.st.tbl.length hnm) hd.chan (by have := hd.lt; omega)
              (fun b hb => by have := hd.ids b hb; omega)
            simp only [Bool.false_eq_true, ↓reduceIte]
            rw [chanQ_count u this hprev]
            simp only [List.length_append, List.length_cons, List.length_nil]
            omega
    · have hnp : publishesAt u e (step (treeTopo par) proc X.st e).2 = false := by
        cases hh : publishesAt u e (step (treeTopo par) proc X.st e).2 with
        | false => rfl
        | true => exact absurd (publishesAt_send _ _ _ hh) hsend
      rw [hnp]
      rcases step_con_other (treeTopo par) proc X.st e u (idx + 1) C hne hd.nC hups hrc (fun t ht => hsend ⟨t, ht⟩) with ⟨C', hC', hcon⟩
      rw [queuedAt_congr X.st _ (idx + 1) C C' hd.nC hC' hcon]
      simp

theorem edge_conserve_run (par : List Nat) (hpar : ParOK par) (proc : Proc) (hp : ProcNames proc) (idx u : Nat) (hpu : par[idx]? = some u) :
    ∀ (evs : List Ev) (st : St), ReachNR (treeTopo par) proc st → (∀ e ∈ evs, isRestart e = false) →
    hdCount (treeTopo par) proc (idx + 1) st evs + queuedAt (run (treeTopo par) proc st evs).1 (idx + 1) =
      queuedAt st (idx + 1) + pubCount (treeTopo par) proc u st evs := by
  intro evs
  induction evs with
  | nil => intro st _ _; simp [hdCount, pubCount, run]
  | cons e es ih =>
    intro st hr hnr
    have hne := hnr e (List.mem_cons_self ..)
    have h1 := edge_conserve_step par hpar proc hp st hr idx u hpu e hne
    have h2 := ih _ (.step e hne hr) (fun x hx => hnr x (List.mem_cons_of_mem _ hx))
    show hdCount (treeTopo par) proc (idx + 1) st (e :: es) + queuedAt (run (treeTopo par) proc (step (treeTopo par) proc st e).1 es).1 (idx + 1) = _
    simp only [hdCount, pubCount]
    omega

/-- **any node `c ≥ 1` of a tree (no hypothesis on its process function)**: it publishes at most what it is handed, plus the one
result its loop may hold already -/
theorem node_pub_le (par : List Nat) (hpar : ParOK par) (proc : Proc) (hp : ProcNames proc) (idx u : Nat) (hpu : par[idx]? = some u) :
    ∀ (evs : List Ev) (st : St), ReachNR (treeTopo par) proc st → (∀ e ∈ evs, isRestart e = false) → ∀ nd, st.nodes[idx + 1]? = some nd →
    pubCount (treeTopo par) proc (idx + 1) st evs ≤ (if nd.pending.isSome then 1 else 0) + hdCount (treeTopo par) proc (idx + 1) st evs := by
  intro evs
  induction evs with
  | nil => intro st _ _ nd _; simp only [hdCount, pubCount]; omega
  | cons e es ih =>
    intro st hr hnr nd hnd
    have hne := hnr e (List.mem_cons_self ..)
    have ih' := ih _ (.step e hne hr) (fun x hx => hnr x (List.mem_cons_of_mem _ hx))
    have ⟨_, X, hX, hg⟩ := tree_inv par hpar proc hp st hr
    subst hX
    simp only [hdCount, pubCount]
    by_cases hrc : e = .nodeRecv (idx + 1)
    · subst hrc
      have hnp : publishesAt (idx + 1) (.nodeRecv (idx + 1)) (step (treeTopo par) proc X.st (.nodeRecv (idx + 1))).2 = false := rfl
      rw [hnp]
      cases hpend : nd.pending with
      | some p =>
        have hs : step (treeTopo par) proc X.st (.nodeRecv (idx + 1)) = (X.st, .noop) := by
          show stepRecv (treeTopo par) proc X.st (idx + 1) = _
          unfold stepRecv; simp only [hnd, hpend, Option.isSome_some, ↓reduceIte]
        have := ih' nd (by rw [hs]; exact hnd)
        rw [hs] at this ⊢
        rw [hpend] at this
        simp only [handedAt, Bool.false_eq_true, ↓reduceIte, Option.isSome_some] at this ⊢
        omega
      | none =>
        rcases tree_edge_facts proc par X hg idx u hpu hpar with ⟨P, C, s, bsW, hd⟩
        have hCn : C = nd := by have := hd.nC; rw [hnd] at this; exact (Option.some.inj this).symm
        subst hCn
        obtain ⟨rq, C', s', hsh, _, _, _, _, _, _, _, _, _, hcase⟩ := tree_recv_shape par hpar proc X.st idx u hpu P C s bsW hd hpend
        have hule : u ≤ idx := hpar idx u hpu
        have hC' : (step (treeTopo par) proc X.st (.nodeRecv (idx + 1))).1.nodes[idx + 1]? = some C' := by
          show (stepRecv (treeTopo par) proc X.st (idx + 1)).1.nodes[idx + 1]? = _
          rw [hsh (idx + 1)]
          have : ¬ idx + 1 = u := by omega
          simp only [this, ↓reduceIte]
        have := ih' C' hC'
        rcases hcase with ⟨_, _, hp', _, _, hh⟩ | ⟨k, ts, bs', _, _, _, _, _, hp', hh⟩
        · have hh' : handedAt (idx + 1) (.nodeRecv (idx + 1)) (step (treeTopo par) proc X.st (.nodeRecv (idx + 1))).2 = false := hh
          rw [hp'] at this
          rw [hh']
          simp only [Bool.false_eq_true, ↓reduceIte, Option.isSome_none] at this ⊢
          omega
        · have hh' : handedAt (idx + 1) (.nodeRecv (idx + 1)) (step (treeTopo par) proc X.st (.nodeRecv (idx + 1))).2 = true := hh
          rw [hp'] at this
          rw [hh']
          simp only [Bool.false_eq_true, ↓reduceIte, Option.isSome_none, Option.isSome_some] at this ⊢
          omega
    · have hnh : handedAt (idx + 1) e (step (treeTopo par) proc X.st e).2 = false := by
        cases hh : handedAt (idx + 1) e (step (treeTopo par) proc X.st e).2 with
        | false => rfl
        | true => exact absurd (handedAt_recv _ _ _ hh) hrc
      rw [hnh]
      rcases step_node_cases (treeTopo par) proc X.st e (idx + 1) nd hne hnd with ⟨nd', hnd', _, h2, h3⟩
      have hih := ih' nd' hnd'
      by_cases hsend : ∃ t, e = .nodeSend (idx + 1) t
      · have hp2 := h2 hsend
        rcases hsend with ⟨t, rfl⟩
        cases hpub : publishesAt (idx + 1) (.nodeSend (idx + 1) t) (step (treeTopo par) proc X.st (.nodeSend (idx + 1) t)).2 with
        | false =>
          rcases hp2 with hp2 | hp2
          · rw [hp2] at hih
            simp only [Bool.false_eq_true, ↓reduceIte] at hih ⊢
            omega
          · rw [hp2] at hih
            simp only [Bool.false_eq_true, ↓reduceIte, Option.isSome_none] at hih ⊢
            omega
        | true =>
          -- a publish: something was held, it reached the sender, and the call succeeded
          cases hpend : nd.pending with
          | none =>
            exfalso
            have hs : step (treeTopo par) proc X.st (.nodeSend (idx + 1) t) = (X.st, .noop) := by
              show stepSend (treeTopo par) X.st (idx + 1) t = _
              unfold stepSend; simp only [hnd, hpend]
            rw [hs] at hpub; simp [publishesAt] at hpub
          | some p =>
            cases hreach : Loop.reachesSender ((treeTopo par).hasOut (idx + 1)) p.res with
            | false =>
              exfalso
              have hs : step (treeTopo par) proc X.st (.nodeSend (idx + 1) t) = sendSkip X.st (idx + 1) nd := by
                show stepSend (treeTopo par) X.st (idx + 1) t = _
                unfold stepSend; simp only [hnd, hpend, hreach, Bool.false_eq_true, ↓reduceIte]
              rw [hs] at hpub; simp [sendSkip, publishesAt] at hpub
            | true =>
              have hout : idx + 1 ∈ par := by
                have ho : (treeTopo par).hasOut (idx + 1) = true := by
                  cases ho : (treeTopo par).hasOut (idx + 1) with
                  | true => rfl
                  | false =>
                    rw [ho] at hreach
                    cases hres : p.res <;> rw [hres] at hreach <;> simp [Loop.reachesSender] at hreach
                rw [tree_hasOut] at ho; simpa using ho
              have ⟨hn', hp', hpa⟩ := send_self_real (treeTopo par) proc X.st (idx + 1) t nd p hnd hpend hreach
              rw [hnd'] at hn'; cases hn'
              rw [hpa] at hpub
              have ⟨_, _, hcase⟩ := tree_send_outcome proc par X hg (idx + 1) nd p t hnd hpend hout
              rw [hp', afterSend_pending] at hih
              rcases hcase with ⟨_, _, hh⟩ | ⟨_, _, hh⟩ | ⟨d, _, _, _, m2, _⟩
              · rw [hellos_noData _ _ hh] at hpub; cases hpub
              · rw [hellos_noData _ _ hh] at hpub; cases hpub
              · rw [m2] at hih
                simp only [Bool.false_eq_true, ↓reduceIte, Option.isSome_none, Option.isSome_some] at hih ⊢
                omega
      · have hnp : publishesAt (idx + 1) e (step (treeTopo par) proc X.st e).2 = false := by
          cases hh : publishesAt (idx + 1) e (step (treeTopo par) proc X.st e).2 with
          | false => rfl
          | true => exact absurd (publishesAt_send _ _ _ hh) hsend
        rw [hnp]
        have hpe := h3 hrc (fun t ht => hsend ⟨t, ht⟩)
        rw [hpe] at hih
        simp only [Bool.false_eq_true, ↓reduceIte] at hih ⊢
        omega

end OF.Net
