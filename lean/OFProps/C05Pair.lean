import OFProps.C06Live
import OFProps.C05
import OFModel.Zmq.PairEph
set_option linter.unusedSimpArgs false
/-!
# C05 on the closed pair — an ephemeral listener never holds up the synchronised stream (`OFModel/Zmq/PairEph.lean`)

The pair of `Pair.lean` plus one adversarial ephemeral client: `ephRequest` delivers ANY request of an ephemeral client
(any id, `new` or not, CLOSE, OOB, any incarnation) into the publisher's queue at any time.
* `C05_pair_eph_recovers` (+ `_explicit`, `C05_pair_eph_recovery_bound`) — from EVERY state reachable with ephemeral
  requests interleaved ANYWHERE in the history (and any restarts of the two synchronised endpoints), the healing schedule
  `heal st t1 t2 b` of `C06_pair_recovers` still makes the synchronised consumer's `recv` return a new frame set: one
  non-blocking `send` per queued request, then 5 polls and one connection time-out — the same number of polls and
  time-outs as without the listener.  (The schedule itself contains no ephemeral request: a stalled or dead listener.)
* the 12-event constant schedule `healConst` does NOT survive the listener, and this is a fact about the code, shown by
  the kernel-evaluated `example` at the end: while the synchronised consumer is stalled past the connection time-out it is
  evicted and the publisher free-runs for the listener; the frame sets pile up at the stalled consumer's SUB socket (no HWM
  in the model); if the publisher then restarts and the consumer takes the backlog, it queues one request per backlog id,
  and each of them fast-forwards the new publisher once, ending that `send`.  The number of `send` calls needed grows
  with the backlog; polls and time-outs do not.
* `C05_pair_eph_no_skip_event`, `C05_pair_eph_no_skip`, `C05_pair_eph_send_no_skip` — the arrival of an ephemeral request
  changes nothing but the queue; handling it (`onReq`, via `C05_eph_request_local`) never moves `min_send_id`, never ends
  the call, and leaves every other client's table entry — in particular the synchronised consumer's — exactly as it was or
  evicts it by the clock alone; a `send` that finds only ephemeral requests queued drains them all and leaves
  `min_send_id` where it was or publishes exactly the next id (no id is skipped).
* `C05_pair_eph_order` — per incarnation of the synchronised consumer the returned ids stay strictly increasing with
  ephemeral requests anywhere in the run.
Not proved: a run-to-run monotonicity statement ("with the listener the consumer has received at least as much").  Equality
of the two runs is false (an ephemeral request can make an already due publish happen one `send` earlier, after which the
closed loops diverge), and the local fact behind "never later" is `C05_decision_ignores_eph` (the publish decision is a
function of the synchronised clients only).
-/
namespace OF.PairE
open OF OF.Pair

/-- states reachable from the initial pair by any schedule of pair events AND ephemeral requests -/
inductive Reachable : St → Prop where
  | init : Reachable Pair.init
  | step (st : St) (e : Ev) : Reachable st → Reachable (step st e).1

theorem shape_step (st : St) (e : Ev) (h : Shape st) : Shape (step st e).1 := by
  cases e with
  | base e => exact Pair.shape_step st e h
  | ephRequest uid mid eph new body =>
    rcases h with ⟨hc, ⟨q, hp⟩⟩
    exact ⟨hc, ⟨_, pubIdle_pushReqs st.pub q _ hp⟩⟩

theorem shape_reachable (st : St) (h : Reachable st) : Shape st := by
  induction h with
  | init => exact shape_init
  | step st e _ ih => exact shape_step st e ih

/-- a schedule of the plain pair, as a schedule of the pair with the listener (which stays silent) -/
def embed (evs : List Pair.Ev) : List Ev := evs.map Ev.base

theorem run_embed (evs : List Pair.Ev) : ∀ st : St, run st (embed evs) = Pair.run st evs := by
  induction evs with
  | nil => intro st; rfl
  | cons e es ih =>
    intro st
    simp only [embed, List.map_cons, run, Pair.run]
    have := ih (Pair.step st e).1
    simp only [embed] at this
    simp only [step, this]

/-- **C05 (the listener never prevents recovery)**: from every state reachable with ephemeral requests interleaved anywhere -/
theorem C05_pair_eph_recovers (st : St) (hr : Reachable st) (t1 t2 : Int) (b : Nat)
    (h1 : t1 + OF.Facts.ZMQ_CONN_TIMEOUT < t2)
    (h2 : ∀ x ∈ st.pub.clients, x.2.tLast + OF.Facts.ZMQ_CONN_TIMEOUT < t2) :
    ∃ id ∈ returned (run st (embed (heal st t1 t2 b))).2, st.con.prevId < id := by
  rw [run_embed]
  exact heal_from_shape st (shape_reachable st hr) t1 t2 b h1 h2

theorem C05_pair_eph_recovers_explicit (st : St) (hr : Reachable st) (t1 : Int) (b : Nat) :
    ∃ id ∈ returned (run st (embed (heal st t1 (healTime st t1) b))).2, st.con.prevId < id := by
  have ⟨a, c⟩ := lastHeard_ge st.pub.clients t1
  apply C05_pair_eph_recovers st hr
  · unfold healTime; omega
  · intro x hx; have := c x hx; unfold healTime; omega

/-- **C05 (same polls, same time-outs)**: the schedule has one `send` per queued request (ephemeral ones included), then
exactly 5 polls and 4 `send`s at the single later clock reading -/
theorem C05_pair_eph_recovery_bound (st : St) (t1 t2 : Int) (b : Nat) :
    (embed (heal st t1 t2 b)).length = (reqChan st).length + 9 ∧
    ((heal st t1 t2 b).filter isRecv).length = 5 ∧
    sendTimes (heal st t1 t2 b) = List.replicate (reqChan st).length t1 ++ List.replicate 4 t2 := by
  have := C06_pair_recovery_bound st t1 t2 b
  exact ⟨by simp only [embed, List.length_map]; exact this.1, this.2.1, this.2.2⟩

/-! ### an ephemeral request never moves the stream -/

/-- **C05 (arrival)**: the event changes nothing but the publisher's request queue -/
theorem C05_pair_eph_no_skip_event (st : St) (uid : String) (mid : Int) (eph : Nat) (new : Bool) (body : Nat) :
    (step st (.ephRequest uid mid eph new body)).1.pub.minSendId = st.pub.minSendId ∧
    (step st (.ephRequest uid mid eph new body)).1.pub.clients = st.pub.clients ∧
    (step st (.ephRequest uid mid eph new body)).1.con = st.con ∧
    (step st (.ephRequest uid mid eph new body)).1.gen = st.gen ∧
    obsRets (step st (.ephRequest uid mid eph new body)).2 = [] :=
  ⟨rfl, rfl, rfl, rfl, rfl⟩

theorem mem_evalClients_sub (tMin : Int) (cl acc : Send.Clients) (ds : Bool) (x : String × Send.Client)
    (h : x ∈ (Send.evalClients false tMin cl (acc, ds, [])).1) : x ∈ acc :=
  (Send.evalClients_mem tMin cl acc ds x h).1

/-- **C05 (handling)**: whatever ephemeral request the publisher handles, in whatever state: `min_send_id` stays, the
call is not ended, and every table entry under another key afterwards is an entry that was there before, untouched -/
theorem C05_pair_eph_no_skip (p : Send.St) (j : Nat) (r : Send.Req) (t : Int) (he : r.eph ≠ 0) (hb : p.balance = false) :
    (Send.onReq p j r t).1.minSendId = p.minSendId ∧ (Send.onReq p j r t).2.2 ≠ .ffwd ∧
    ∀ x ∈ (Send.onReq p j r t).1.clients, x.1 ≠ r.cid ++ r.uid → x ∈ p.clients := by
  have ⟨h1, h2⟩ := Send.C05_eph_request_local p j r t he
  refine ⟨h2, h1, ?_⟩
  intro x hx hne
  unfold Send.onReq at hx
  simp only at hx
  split at hx
  · split at hx
    · exact hx
    · split at hx
      · exact (List.mem_filter.mp hx).1
      · exact hx
  · split at hx
    · exact hx
    · split at hx
      · rename_i h; exact absurd h.2 he
      · simp only [hb, Bool.false_and, Bool.false_eq_true, ↓reduceIte] at hx
        have := mem_evalClients_sub _ _ _ _ x hx
        rcases mem_cset _ _ _ x this with h3 | h3
        · exact h3
        · rw [h3] at hne; exact absurd rfl hne

theorem eph_key_ne (uid u : String) : CID ++ u ≠ EID ++ uid := by
  intro h
  have := congrArg String.toList h
  simp [CID, EID] at this

/-- … in particular the synchronised consumer's entry (any incarnation `u`) is never created, rewritten or un-requested
by a request of the listener -/
theorem C05_pair_eph_sync_entry (p : Send.St) (uid : String) (mid : Int) (eph : Nat) (new : Bool) (body : Nat) (t : Int)
    (hb : p.balance = false) (u : String) :
    ∀ x ∈ (Send.onReq p 0 (ephReq uid mid eph new body) t).1.clients, x.1 = CID ++ u → x ∈ p.clients := by
  intro x hx hk
  refine (C05_pair_eph_no_skip p 0 (ephReq uid mid eph new body) t (by simp [ephReq]) hb).2.2 x hx ?_
  rw [hk]; exact eph_key_ne uid u

/-- **C05 (a whole `send` that finds only ephemeral requests)**: it drains them all and leaves `min_send_id` where it was,
or publishes exactly that id and moves to the next one — the listener never makes the stream skip an id -/
theorem C05_pair_eph_send_no_skip (st : St) (hr : Reachable st) (payload : Send.Payload) (t : Int)
    (he : ∀ r ∈ reqChan st, r.eph ≠ 0) :
    reqChan (Pair.step st (.sendCall payload t)).1 = [] ∧
    ((Pair.step st (.sendCall payload t)).1.pub.minSendId = st.pub.minSendId ∨
     (Pair.step st (.sendCall payload t)).1.pub.minSendId = st.pub.minSendId + 1) := by
  rcases shape_reachable st hr with ⟨_, ⟨q, hp⟩⟩
  have ⟨T, hT, ht⟩ := exists_stale st.pub.clients t
  have ⟨q', f1, _, _, _, _, f6⟩ := send0_facts st.pub q payload t T hp hT ht
  rw [reqChan_single st q hp.queues] at he
  rcases f6 with ⟨e, hv⟩ | ⟨r, hr', _, h0, _⟩
  · refine ⟨?_, hv⟩
    rw [reqChan_single _ q' f1.queues]; exact e
  · exact absurd h0 (he r hr')

/-! ### order -/

def isConRestartE : Ev → Bool
  | .base e => isConRestart e
  | _ => false

/-- ids returned along a run with the listener, one list per incarnation of the synchronised consumer -/
def segRets (st : St) (cur : List Int) : List Ev → List (List Int)
  | [] => [cur]
  | e :: es =>
    if isConRestartE e then cur :: segRets (step st e).1 [] es
    else segRets (step st e).1 (cur ++ obsRets (step st e).2) es

theorem segRets_ordered : ∀ (evs : List Ev) (st : St) (cur : List Int), Shape st → OrdInv st cur →
    ∀ seg ∈ segRets st cur evs, seg.Pairwise (· < ·) := by
  intro evs
  induction evs with
  | nil =>
    intro st cur _ ho seg hseg
    simp only [segRets, List.mem_singleton] at hseg
    rw [hseg]; exact ho.1
  | cons e es ih =>
    intro st cur hs ho seg hseg
    unfold segRets at hseg
    split at hseg
    · rcases List.mem_cons.mp hseg with rfl | h
      · exact ho.1
      · exact ih _ [] (shape_step st e hs) ⟨List.Pairwise.nil, by intro x hx; cases hx⟩ seg h
    · rename_i hne
      refine ih _ _ (shape_step st e hs) ?_ seg hseg
      cases e with
      | base e => exact ordInv_step st e cur hs ho (by simpa [isConRestartE] using hne)
      | ephRequest uid mid eph new body =>
        show OrdInv _ (cur ++ [])
        rw [List.append_nil]; exact ⟨ho.1, ho.2⟩

/-- **C05 (the listener never alters the order)**: per incarnation of the synchronised consumer the returned ids are
strictly increasing over any run with ephemeral requests anywhere -/
theorem C05_pair_eph_order (evs : List Ev) : ∀ seg ∈ segRets Pair.init [] evs, seg.Pairwise (· < ·) :=
  segRets_ordered evs Pair.init [] shape_init ⟨List.Pairwise.nil, by intro x hx; cases hx⟩

/-! ### non-vacuity and the negative witness (kernel-evaluated) -/

/-- handshake and first frame set; then the synchronised consumer stalls; six seconds later a listener asks `k` times,
each time followed by a `send`: the stalled consumer is evicted and the publisher serves the listener; then the publisher
crashes and restarts, and the consumer takes its backlog in `k + 1` polls -/
def exBacklog (k : Nat) : List Ev :=
  [.base .recvCall, .base (.sendCall (exPayload 1) 1000), .base .recvCall, .base (.sendCall (exPayload 2) 1100)] ++
  (List.range k).flatMap (fun i => [Ev.ephRequest "e" (-1) 0 false 0, .base (.sendCall (exPayload (10 + i)) 7000)]) ++
  [.base (.restartPublisher false)] ++ List.replicate (k + 1) (.base .recvCall)

/-- the listener kept the stream going while the synchronised consumer was stalled (ids 0 … 10 were published and are
taken later), and recovery by `heal` works: 11 queued requests, 20 events, ids 11 … 14 -/
example : returned (run Pair.init (exBacklog 10)).2 = [0, 1, 2, 3, 4, 5, 6, 7, 8, 9, 10] ∧
    (reqChan (run Pair.init (exBacklog 10)).1).length = 11 ∧
    returned (run (run Pair.init (exBacklog 10)).1
      (embed (heal (run Pair.init (exBacklog 10)).1 7000 20000 9))).2 = [11, 12, 13, 14] := by decide +kernel

/-- negative witness: the constant 12-event schedule of `C06_pair_recovers_const` is NOT enough here — every one of its
seven `send`s is ended by a fast-forward to the next backlog id -/
example : returned (run (run Pair.init (exBacklog 10)).1 (embed (healConst 7000 20000 9))).2 = [] := by decide +kernel

end OF.PairE
