import OFProps.C08
/-!
# C08 — "the last fault decides": an exception raised by `shutdown()` is not masked by anything EARLIER

The harness clause `outcome:shutdown-raise-masked` (`harness/ofverif/props/c08.py`) as theorems on the model
`OFModel/Lifecycle.lean`.

Quantifier: every `Policy` (arbitrary `prop` / `obey` naturals, both `loopExc`) and every `Script` — any action at any
lifecycle point before `shutdown()` (`initPre`, `initPost`, `setup`: each may be `stop`, an exit message that is not obeyed,
… as long as `shutdown()` is reached), any list of loop iterations with any actions at `recv` / `process` / `send`
(obeyed `error` / `clean` announcements, exceptions, `KeyboardInterrupt`, `exit()` calls with any exception), any clock
readings and any `exit_after` deadline.

* `C08_last_fault_decides` — the outcome of `run()` as a function of the faults, read from the LAST lifecycle point
  backwards: `fini`, the exit announcement, `shutdown`, the loop;
* `C08_shutdown_called_iff` — `shutdown()` is called iff constructor, `init()` and `setup()` completed;
* `C08_shutdown_raise_last_raises` — `shutdown()` is called and raises an ordinary exception, `fini()` returns, the exit
  announcement does not fail: `run()` raises;
* boundaries: a later fault wins in turn (`fini` calls `exit()`: `run()` returns normally).
-/
set_option linter.unusedSimpArgs false
namespace OF.Life

/-- the exception in flight after the loop (`setup()` has returned) -/
def loopExn (P : Policy) (s : Script) : Option Exn :=
  (loop P s.exitAfter s.iters 1 (perform P.obey s.setup (initStage P s false).stop).stop).exn

/-- the fault that decides, read from the last lifecycle point backwards: what `fini()` raises; else a failing exit
announcement (if one is sent); else - `PropagateError` eaten - what `setup()` raised (then `shutdown()` is not called), else
what `shutdown()` raises, else what left the loop. -/
def lastFault (P : Policy) (s : Script) : Option Exn :=
  match actExn P.obey s.fini with
  | some e => some e
  | none =>
    eat (if propBit P.prop (isExc (bodyExn P s)) && s.sendExitRaises then some .other else
      match actExn P.obey s.setup with
      | some e => some e
      | none =>
        match actExn P.obey s.shutdown with
        | some e => some e
        | none => loopExn P s)

/-- **C08** (the last fault decides): for every policy and every script whose constructor and `init()` completed, `run()`
returns / raises according to the LAST fault alone: an earlier exception in flight (from the loop, from an obeyed
announcement, from `exit()`, from the deadline) is replaced by whatever a later `finally` block raises. -/
theorem C08_last_fault_decides (P : Policy) (s : Script) (hc : s.ctorRaises = false) (hio : initOk P s = true) :
    (run P s).outcome = outcomeOf (lastFault P s) := by
  have h : finalExn P s = lastFault P s := by
    unfold finalExn lastFault loopExn
    simp only [hio, if_true]
    cases hf : actExn P.obey s.fini with
    | some e => rfl
    | none =>
      simp only
      have hb : bodyExn P s = (match actExn P.obey s.setup with
          | some e => some e
          | none => match actExn P.obey s.shutdown with
            | some e => some e
            | none => (loop P s.exitAfter s.iters 1 (perform P.obey s.setup (initStage P s false).stop).stop).exn) := by
        unfold bodyExn; exact stage_exn P s _
      rw [← hb]
  unfold run
  simp only [hc, Bool.false_eq_true, if_false, inner_exn, h]

/-- **C08**: `shutdown()` is called iff the constructor, `init()` and `setup()` completed. -/
theorem C08_shutdown_called_iff (P : Policy) (s : Script) :
    Ev.shutdown ∈ (run P s).evs ↔ s.ctorRaises = false ∧ initOk P s = true ∧ actExn P.obey s.setup = none := by
  rw [mem_skel (e := .shutdown) rfl, skel_run]
  cases hc : s.ctorRaises
  case true => simp
  case false =>
  simp only [Bool.false_eq_true, if_false, true_and]
  cases hio : initOk P s
  case false =>
    have h1 : Ev.shutdown ∉ skel (initStage P s false).evs := by
      rw [skel_initStage]
      repeat' split
      all_goals simp
    simp [h1]
  case true =>
    have h1 : Ev.shutdown ∉ skel (initStage P s false).evs := by
      rw [skel_initStage]
      repeat' split
      all_goals simp
    simp only [if_true, skel_guarded, skel_stage, perform_exn]
    cases hs : actExn P.obey s.setup with
    | none => simp
    | some e =>
      simp only [Option.isSome_some, if_true, List.mem_append, List.mem_cons, List.not_mem_nil, or_false, h1, false_or,
        reduceCtorEq, or_self, false_iff]
      split <;> simp

/-- **C08** (an exception raised by `shutdown()` reaches the caller unless `fini()` replaces it): stronger form - the exit
announcement may even fail (that raises another ordinary exception). -/
theorem C08_shutdown_raise_raises_unless_fini (P : Policy) (s : Script)
    (hcalled : Ev.shutdown ∈ (run P s).evs) (hsh : actExn P.obey s.shutdown = some .other)
    (hf : actExn P.obey s.fini = none) :
    (run P s).outcome = .raises .other := by
  obtain ⟨hc, hio, hs⟩ := (C08_shutdown_called_iff P s).mp hcalled
  rw [C08_last_fault_decides P s hc hio]
  unfold lastFault
  simp only [hf, hs, hsh]
  split <;> rfl

/-- **C08** (harness clause `outcome:shutdown-raise-masked`): for EVERY script - any faults at any earlier lifecycle
point: an obeyed `error` / `clean` announcement, exceptions or `KeyboardInterrupt` in the loop, `exit()` calls with any
exception, the `exit_after` deadline - and every policy (any `prop_exit`, `obey_exit`, both `loop_exc`): if `shutdown()` is
called and raises an ordinary exception and nothing fails after it (the exit announcement is sent without error,
`fini()` returns), then `run()` raises (that exception) - it is never masked by what happened before. -/
theorem C08_shutdown_raise_last_raises (P : Policy) (s : Script)
    (hcalled : Ev.shutdown ∈ (run P s).evs) (hsh : s.shutdown = .raise)
    (_hse : s.sendExitRaises = false) (hf : actExn P.obey s.fini = none) :
    (run P s).outcome = .raises .other :=
  C08_shutdown_raise_raises_unless_fini P s hcalled (by rw [hsh]; rfl) hf

/-- the same with the hypothesis "`shutdown()` is called" spelled out on the script -/
theorem C08_shutdown_raise_last_raises_explicit (P : Policy) (s : Script)
    (hc : s.ctorRaises = false) (hio : initOk P s = true) (hs : actExn P.obey s.setup = none)
    (hsh : s.shutdown = .raise) (hse : s.sendExitRaises = false) (hf : actExn P.obey s.fini = none) :
    (run P s).outcome = .raises .other :=
  C08_shutdown_raise_last_raises P s ((C08_shutdown_called_iff P s).mpr ⟨hc, hio, hs⟩) hsh hse hf

/-- …and the announcement, if the policy has the error bit, says 'error' -/
theorem C08_shutdown_raise_announced_error (P : Policy) (s : Script)
    (hcalled : Ev.shutdown ∈ (run P s).evs) (hsh : actExn P.obey s.shutdown = some .other) :
    sentOf (run P s).evs = if propBit P.prop true then [true] else [] := by
  obtain ⟨hc, hio, hs⟩ := (C08_shutdown_called_iff P s).mp hcalled
  have hb : bodyExn P s = some .other := by unfold bodyExn; rw [stage_exn, hs, hsh]
  rw [C08_exit_msg]; simp [hc, hio, hb, isExc, Exn.isException]

/-- **C08** (boundary, general): a later fault wins in turn - whatever `fini()` raises replaces the shutdown exception;
with `exit()` in `fini` the run returns normally -/
theorem C08_fini_fault_wins (P : Policy) (s : Script) (hc : s.ctorRaises = false) (hio : initOk P s = true)
    (e : Exn) (hf : actExn P.obey s.fini = some e) :
    (run P s).outcome = outcomeOf (some e) := by
  rw [C08_last_fault_decides P s hc hio]; unfold lastFault; simp only [hf]

theorem C08_shutdown_raise_then_fini_exit_returns (P : Policy) (s : Script) (hc : s.ctorRaises = false)
    (hio : initOk P s = true) (hf : s.fini = .exitCall .exit) :
    (run P s).outcome = .returns := by
  rw [C08_fini_fault_wins P s hc hio .exit (by rw [hf]; rfl)]; rfl

/-! ## non-vacuity and boundaries (kernel-evaluated closed scripts) -/

/-- a script with an earlier fault: an obeyed 'error' announcement at `recv` of iteration 1 (a `PropagateError`: swallowed by the
loop with `loop_exc` off - no further iteration since `exit()` set the stop event -, leaving the loop with `loop_exc` on), a
deadline, then `shutdown()` raises -/
def sMany : Script :=
  { sBase with iters := [⟨.exitMsg true, .raise, .exitCall .exit, 5⟩, ⟨.ret, .ret, .ret, 9⟩], shutdown := .raise,
               exitAfter := some 7 }

/-- non-vacuity of `C08_shutdown_raise_last_raises`: hypotheses hold on `sMany` under two policies, and on a script where the
loop ends by an obeyed 'clean' announcement, by `exit()` in `process`, by the deadline -/
example : Ev.shutdown ∈ (run ⟨3, 3, false⟩ sMany).evs ∧ sMany.shutdown = .raise ∧ sMany.sendExitRaises = false ∧
    actExn 3 sMany.fini = none ∧ (run ⟨3, 3, false⟩ sMany).outcome = .raises .other ∧
    sentOf (run ⟨3, 3, false⟩ sMany).evs = [true] := by decide +kernel
example : Ev.shutdown ∈ (run ⟨3, 3, true⟩ sMany).evs ∧ (run ⟨3, 3, true⟩ sMany).outcome = .raises .other := by
  decide +kernel
/-- TEST: an obeyed 'error' announcement (a `PropagateError`, which alone would be eaten), then `shutdown()` raises -/
example : (run P0 { sBase with iters := [⟨.exitMsg true, .ret, .ret, 0⟩], shutdown := .raise }).outcome = .raises .other ∧
    (run P0 { sBase with iters := [⟨.exitMsg true, .ret, .ret, 0⟩], shutdown := .ret }).outcome = .returns := by
  decide +kernel
/-- TEST: the deadline ends the loop, then `shutdown()` raises -/
example : (run P0 { sBase with iters := [⟨.ret, .ret, .ret, 8⟩], exitAfter := some 3, shutdown := .raise }).outcome
    = .raises .other := by decide +kernel
/-- TEST: a `KeyboardInterrupt` in the loop, then `shutdown()` raises: the ordinary exception replaces it -/
example : (run P0 { sBase with iters := [⟨.ret, .interrupt, .ret, 0⟩], shutdown := .raise }).outcome = .raises .other := by
  decide +kernel

/-- NEGATIVE witness (the seeded variant "an exception of `shutdown()` does not replace an `Exit` / `PropagateError` already on
its way out" would make `run()` return here): the model's `R.fin` lets the `finally` exception win.  The masked variant
`finMasked` keeps the earlier exception; with it the same script returns normally. -/
def R.finMasked (a : R) (f : Option Exn → Bool → R) : R :=
  let b := f a.exn a.stop
  ⟨match a.exn with | some e => some e | none => b.exn, b.stop, a.evs ++ b.evs⟩

example :
    let a : R := ⟨some .exit, true, []⟩                      -- `exit()` was called in the loop
    let sh : Option Exn → Bool → R := fun _ st => ⟨some .other, st, [.shutdown]⟩   -- `shutdown()` raises
    outcomeOf (a.fin sh).exn = .raises .other ∧ outcomeOf (a.finMasked sh).exn = .returns := by decide +kernel

/-- boundary: `shutdown: raise` followed by `fini: exit` returns normally (the later fault wins) -/
theorem C08_boundary_fini_exit_masks_shutdown_raise :
    (run P0 { sBase with shutdown := .raise, fini := .exitCall .exit }).outcome = .returns ∧
    Ev.shutdown ∈ (run P0 { sBase with shutdown := .raise, fini := .exitCall .exit }).evs := by decide +kernel

/-- boundary: `shutdown: raise` followed by a failing exit announcement: `run()` still raises (another ordinary exception) -/
theorem C08_boundary_send_exit_raises_after_shutdown_raise :
    (run ⟨3, 3, true⟩ { sBase with shutdown := .raise, sendExitRaises := true }).outcome = .raises .other := by
  decide +kernel

/-- boundary (hypothesis `hf` is needed): `shutdown: raise` followed by an obeyed 'clean' announcement inside `fini` -/
theorem C08_boundary_fini_obeyed_clean_masks_shutdown_raise :
    (run P0 { sBase with shutdown := .raise, fini := .exitMsg false }).outcome = .returns ∧
    (run ⟨1, 0, true⟩ { sBase with shutdown := .raise, fini := .exitMsg false }).outcome = .raises .other := by
  decide +kernel

/-- boundary (hypothesis `hcalled` is needed): `setup()` calls `exit()`: `shutdown()` is not called, a scripted `raise`
there never fires, `run()` returns -/
theorem C08_boundary_shutdown_not_called :
    (run P0 { sBase with setup := .exitCall .exit, shutdown := .raise }).outcome = .returns ∧
    Ev.shutdown ∉ (run P0 { sBase with setup := .exitCall .exit, shutdown := .raise }).evs := by decide +kernel

end OF.Life
