import OFProps.RejoinRecv
set_option linter.unusedSimpArgs false
/-!
# Receiver side of a rejoin whose branches SKIP frames (helper lemmas for `OFProps/C03RejoinSkip.lean`)

`RejoinRecv.lean` analyses the join of a tee-rejoin under "no branch skips": the blocks queued at every source have CONSECUTIVE ids,
so no source ever shows an id newer than the one being assembled.  Here that hypothesis is gone: source `j` is fed the blocks
`bss j` (ANY strictly increasing ids — what ChanQ gives), and the receiver's path "the first message of a block with a NEWER id `G`
arrives at an idle source: adopt `G`, drop what every OTHER source has buffered for the older id (`resetOthers`: partial AND complete
sets, complete sources go back into the poller), then discard the older blocks still queued at the other sources message by
message" is part of the analysis.

`SInv pubs owner c E bss` — the invariant, relative to the id `E` currently expected (`min_recv_id` inside a call, `prev_id + 1`
between calls — after the C01 fix the adopted id survives a timed-out call): every source `j` is `Mode.idle` or `Mode.asm` (of
`RejoinRecv.lean`) with respect to `raise E (bss j)`, the blocks of source `j` with id `≥ E`; `bss j` itself is ALL that publisher
`pubs[j]` has put on the wire (it only grows at its end).  Older blocks are "skippable messages" of `ChanQ` (`chanQ_raise`).

* `take_sinv`   — one `take i` (any source, any order): the invariant is kept for an `E' ≥ E`; `E' > E` only by adoption, and
                  then (`Adv`) every id in `[E, E')` is an id that SOME source jumped over (it has a later block but not this one);
* `check_sinv`  — return condition true: every source holds its complete block `E`; the set returned under `E` is the concatenation,
                  in source order, of the visible topics of these blocks; the invariant holds for `E + 1`;
* `call0_joinS` — one whole `recv(None, 0)`: time-out (`prev_id = E' - 1`, every request names `E' - 1`) or the set of id `E'`;
* `sinv_push_*` — what a publisher's `send` appends (HELLO, a block of a newer or of an already passed id) keeps the invariant.
-/
namespace OF.Chain
open OF OF.Recv
open OF.Pair (SrcShape)
open OF.Net (blockWires helloW visible)

/-! ## blocks at or above an id -/

/-- the blocks with id `≥ G` -/
def raise (G : Int) (bs : List Blk) : List Blk := bs.filter fun b => decide (G ≤ b.1)

theorem raise_raise (E G : Int) (bs : List Blk) (h : E ≤ G) : raise G (raise E bs) = raise G bs := by
  unfold raise
  rw [List.filter_filter]
  apply List.filter_congr
  intro b _
  by_cases hb : G ≤ b.1
  · have : E ≤ b.1 := by omega
    simp [hb, this]
  · simp [hb]

theorem raise_self_of_gt (G : Int) (bs : List Blk) (h : ∀ b ∈ bs, G ≤ b.1) : raise G bs = bs := by
  unfold raise
  rw [List.filter_eq_self]
  intro b hb
  simpa using h b hb

theorem mem_raise (G : Int) (bs : List Blk) (b : Blk) : b ∈ raise G bs ↔ b ∈ bs ∧ G ≤ b.1 := by
  unfold raise; simp [List.mem_filter]

theorem raise_append (G : Int) (a c : List Blk) : raise G (a ++ c) = raise G a ++ raise G c := by
  unfold raise; rw [List.filter_append]

theorem raise_cons_ge (G : Int) (b : Blk) (bs : List Blk) (h : G ≤ b.1) : raise G (b :: bs) = b :: raise G bs := by
  unfold raise; rw [List.filter_cons]; simp [h]

theorem raise_cons_lt (G : Int) (b : Blk) (bs : List Blk) (h : b.1 < G) : raise G (b :: bs) = raise G bs := by
  unfold raise; rw [List.filter_cons]
  have : ¬ G ≤ b.1 := by omega
  simp [this]

/-! ## `ChanQ` when the expected id moves on -/

theorem chanQ_skips (p : Nat) {prev : Int} {q : List Wire} {bs : List Blk} : ∀ (ws : List Wire), (∀ w ∈ ws, Skip prev w) →
    ChanQ p prev q bs → ChanQ p prev (ws ++ q) bs := by
  intro ws
  induction ws with
  | nil => intro _ h; exact h
  | cons w ws ih =>
    intro hw h
    exact ChanQ.skip (hw w (List.mem_cons_self ..)) (ih (fun x hx => hw x (List.mem_cons_of_mem _ hx)) h)

theorem blockWires_skip (p : Nat) (k : Int) (ts : List (String × Nat)) (prev : Int) (hk : -1 ≤ k) (hle : k ≤ prev) :
    ∀ w ∈ blockWires p k ts, Skip prev w := by
  intro w hw
  have hsp : OF.Facts.MSG_ID_SPECIAL < k := by unfold OF.Facts.MSG_ID_SPECIAL; omega
  rw [blockWires_eq, List.mem_append] at hw
  rcases hw with hw | hw
  · rw [List.mem_map] at hw
    rcases hw with ⟨x, _, rfl⟩
    exact ⟨rfl, Or.inr ⟨hsp, hle⟩⟩
  · simp only [List.mem_singleton] at hw
    subst hw
    exact ⟨rfl, Or.inr ⟨hsp, hle⟩⟩

/-- the expected id moves from `prev + 1` to `G`: blocks below `G` become skippable messages -/
theorem chanQ_raise (p : Nat) (G : Int) {prev : Int} {q : List Wire} {bs : List Blk} (h : ChanQ p prev q bs) :
    -1 ≤ prev → prev ≤ G - 1 → ChanQ p (G - 1) q (raise G bs) := by
  induction h with
  | nil prev => intro _ _; exact ChanQ.nil _
  | @skip prev w q bs hw _ ih =>
    intro h1 h2
    refine ChanQ.skip ⟨hw.1, ?_⟩ (ih h1 h2)
    rcases hw.2 with e | ⟨a, b⟩
    · exact Or.inl e
    · exact Or.inr ⟨a, by omega⟩
  | @blk prev k ts q bs hlt hb hq ih =>
    intro h1 h2
    by_cases hk : k < G
    · rw [raise_cons_lt G (k, ts) bs hk]
      exact chanQ_skips p _ (blockWires_skip p k ts (G - 1) (by omega) (by omega)) (ih (by omega) (by omega))
    · rw [raise_cons_ge G (k, ts) bs (by simpa using hk),
        raise_self_of_gt G bs (fun b hb' => by have := chanQ_ids p hq b hb'; omega)]
      exact ChanQ.blk (by omega) hb hq

/-- wires the receiver skips, appended at the end of the queue -/
theorem chanQ_append_skips (p : Nat) (ws : List Wire) {prev : Int} {q : List Wire} {bs : List Blk} (h : ChanQ p prev q bs) :
    (∀ w ∈ ws, Skip prev w) → ChanQ p prev (q ++ ws) bs := by
  induction h with
  | nil prev =>
    intro hw
    have := chanQ_skips p ws hw (ChanQ.nil prev)
    simpa using this
  | skip hw0 _ ih => intro hw; exact ChanQ.skip hw0 (ih hw)
  | @blk prev k ts q bs hlt hb _ ih =>
    intro hw
    rw [List.append_assoc]
    refine ChanQ.blk hlt hb (ih ?_)
    intro w hmem
    have := hw w hmem
    refine ⟨this.1, ?_⟩
    rcases this.2 with e | ⟨a, b⟩
    · exact Or.inl e
    · exact Or.inr ⟨a, by omega⟩

/-! ## one take of the first message of a NEWER block -/

/-- a message of an id above the one being assembled at the head of source `i` of a non-balanced receiver: source `i` stores it,
the id is adopted, every other synchronised source is reset -/
theorem onTake_newer_gen (c : Recv.St) (i : Nat) (s : Src) (w : Wire) (rest : List Wire) (hs : c.srcs[i]? = some s)
    (heph : s.eph = 0) (hq : s.queue = w :: rest) (hid : 0 ≤ w.mid) (hnew : c.minRecvId < w.mid) (hb : w.bal = 0)
    (hbal : c.balance = false) :
    onTake c i =
      ({ c with srcs := resetOthers (c.srcs.set i (storeRecvd { s with queue := rest, conn := true }
            (processMsg { s with queue := rest, conn := true } (takenMsg s i w) w.topics c.minRecvId).2 w.topics)) i,
                minRecvId := w.mid }, [], false) := by
  have hsp : ¬ w.mid ≤ OF.Facts.MSG_ID_SPECIAL := by unfold OF.Facts.MSG_ID_SPECIAL; omega
  rcases s with ⟨eph, subAll, star, subs, recvd, minId, conn, reg, queue⟩
  simp only at heph hq
  subst heph hq
  unfold onTake
  rw [hs]
  simp only [↓reduceIte, hb, ne_eq, not_true_eq_false, hsp]
  unfold takeSync
  have hfst := processMsg_fst { eph := 0, subAll, star, subs, recvd, minId, conn := true, reg, queue := rest }
    (takenMsg { eph := 0, subAll, star, subs, recvd, minId, conn, reg, queue := w :: rest } i w) w.topics c.minRecvId (by show c.minRecvId ≤ w.mid; omega)
  unfold takenMsg at hfst ⊢
  simp only at hfst ⊢
  generalize hpm : processMsg { eph := 0, subAll, star, subs, recvd, minId, conn := true, reg, queue := rest }
    { mid := w.mid, topic := effTopic subAll subs (decodeTopic w.frame0), body := w.body, src := i } w.topics c.minRecvId = pm at hfst ⊢
  rcases pm with ⟨res, r⟩
  simp only at hfst
  subst hfst
  simp only [hnew, ↓reduceIte]
  unfold syncApply
  simp [hbal]

/-! ## the invariant -/

/-- every source of the join is idle or assembling its block of id `E` among the blocks of id `≥ E` it has been sent -/
structure SInv (pubs : List Nat) (owner : Topic → Nat) (c : Recv.St) (E : Int) (bss : Nat → List Blk) : Prop where
  static : JStatic c
  len : c.srcs.length = pubs.length
  nonneg : 0 ≤ E
  modes : ∀ (j : Nat) (s : Src), c.srcs[j]? = some s → ∃ p, pubs[j]? = some p ∧ Mode p j E s (raise E (bss j))
  own : ∀ (j : Nat) (b : Blk), b ∈ bss j → ∀ x ∈ b.2, owner x.1 = j

/-- the expected id moved from `E` to `E'`: by adoptions only — `E'` is the id of a block some source was sent, and every id in
`[E, E')` was jumped over by some source (it was sent a later block, but no block of this id) -/
structure Adv (n : Nat) (bss : Nat → List Blk) (E E' : Int) : Prop where
  le : E ≤ E'
  hit : E' = E ∨ ∃ j, j < n ∧ ∃ b ∈ bss j, b.1 = E'
  gap : ∀ m, E ≤ m → m < E' → ∃ j, j < n ∧ (∃ b ∈ bss j, m < b.1) ∧ ∀ b ∈ bss j, b.1 ≠ m

theorem adv_refl (n : Nat) (bss : Nat → List Blk) (E : Int) : Adv n bss E E :=
  ⟨Int.le_refl _, Or.inl rfl, fun m h1 h2 => by omega⟩

theorem adv_trans (n : Nat) (bss : Nat → List Blk) (E E' E'' : Int) (h1 : Adv n bss E E') (h2 : Adv n bss E' E'') : Adv n bss E E'' := by
  refine ⟨Int.le_trans h1.le h2.le, ?_, ?_⟩
  · rcases h2.hit with e | h
    · rw [e]; exact h1.hit
    · exact Or.inr h
  · intro m hm1 hm2
    by_cases hlt : m < E'
    · exact h1.gap m hm1 hlt
    · exact h2.gap m (by omega) hm2

/-- the sources of `c'` described one by one from those of `c` -/
theorem sinv_rebuild (pubs : List Nat) (owner : Topic → Nat) (c c' : Recv.St) (E E' : Int) (bss : Nat → List Blk)
    (h : SInv pubs owner c E bss) (hlen : c'.srcs.length = c.srcs.length) (hd : c'.dead = c.dead) (hb : c'.balance = c.balance)
    (hl : c'.lowLat = c.lowLat) (hE : 0 ≤ E')
    (hsrc : ∀ (j : Nat) (s' : Src), c'.srcs[j]? = some s' → ∃ s, c.srcs[j]? = some s ∧ SrcShape s' ∧
      ∀ p, pubs[j]? = some p → Mode p j E s (raise E (bss j)) → Mode p j E' s' (raise E' (bss j))) :
    SInv pubs owner c' E' bss := by
  refine ⟨⟨hd.trans h.static.dead, hb.trans h.static.balance, hl.trans h.static.lowLat, ?_⟩, hlen.trans h.len, hE, ?_, h.own⟩
  · intro j s' hj
    rcases hsrc j s' hj with ⟨_, _, hsh, _⟩
    exact hsh
  · intro j s' hj
    rcases hsrc j s' hj with ⟨s, hs, _, hm⟩
    rcases h.modes j s hs with ⟨p, hp, hmode⟩
    exact ⟨p, hp, hm p hp hmode⟩

theorem getElem?_set_cases {α : Type} (l : List α) (i j : Nat) (a x : α) (h : (l.set i a)[j]? = some x) :
    (j = i ∧ x = a ∧ i < l.length) ∨ (j ≠ i ∧ l[j]? = some x) := by
  rw [List.getElem?_set] at h
  by_cases hij : i = j
  · subst hij
    simp only [↓reduceIte] at h
    split at h
    · rename_i hl
      simp only [Option.some.injEq] at h
      exact Or.inl ⟨rfl, h.symm, hl⟩
    · cases h
  · simp only [hij, ↓reduceIte] at h
    exact Or.inr ⟨fun e => hij e.symm, h⟩

/-- a source that is reset when ANOTHER source adopts the newer id `G`: whatever it had buffered for `E` is dropped, the rest of
that block and every queued block below `G` will be discarded message by message -/
theorem mode_reset (p j : Nat) (E G : Int) (s : Src) (bs : List Blk) (hE : 0 ≤ E) (hG : E < G) (h : Mode p j E s bs) :
    Mode p j G { s with recvd := none, reg := true } (raise G bs) := by
  cases h with
  | idle hr hreg hq => exact Mode.idle rfl rfl (chanQ_raise p G hq (by omega) (by omega))
  | asm ts done todo q' bs' hbs hb hv hr hreg hq hch =>
    refine Mode.idle rfl rfl ?_
    subst hbs
    rw [raise_cons_lt G (E, ts) bs' hG]
    simp only
    rw [hq]
    refine chanQ_skips p _ ?_ (chanQ_raise p G hch (by omega) (by omega))
    intro w hw
    have hsp : OF.Facts.MSG_ID_SPECIAL < E := by unfold OF.Facts.MSG_ID_SPECIAL; omega
    unfold restW at hw
    rw [List.mem_append] at hw
    rcases hw with hw | hw
    · rw [List.mem_map] at hw
      rcases hw with ⟨x, _, rfl⟩
      exact ⟨rfl, Or.inr ⟨hsp, by show E ≤ G - 1; omega⟩⟩
    · split at hw
      · cases hw
      · simp only [List.mem_singleton] at hw
        subst hw
        exact ⟨rfl, Or.inr ⟨hsp, by show E ≤ G - 1; omega⟩⟩

theorem resetOthers_get (srcs : List Src) (i j : Nat) :
    (resetOthers srcs i)[j]? = (srcs[j]?).map fun s => if j ≠ i ∧ s.eph = 0 then { s with recvd := recvdNew s, reg := true } else s := by
  unfold resetOthers
  rw [List.getElem?_mapIdx]

/-- **one `take` of any source**: the invariant is kept for the id expected afterwards -/
theorem take_sinv (pubs : List Nat) (owner : Topic → Nat) (c : Recv.St) (E : Int) (bss : Nat → List Blk) (i : Nat)
    (h : SInv pubs owner c E bss) (hin : c.inCall = true) (hF : c.minRecvId = E) (hbal : c.balanced = 0) :
    ∃ E', SInv pubs owner (Recv.step c (.take i)).1 E' bss ∧ (Recv.step c (.take i)).1.inCall = true ∧
      (Recv.step c (.take i)).1.minRecvId = E' ∧ (Recv.step c (.take i)).1.balanced = 0 ∧
      (Recv.step c (.take i)).1.prevId = c.prevId ∧ (Recv.step c (.take i)).2 = [] ∧ Adv c.srcs.length bss E E' := by
  have hg : ¬ (c.dead = true ∨ ¬ c.inCall = true) := by rw [h.static.dead, hin]; simp
  simp only [Recv.step, stepTake, hg, ↓reduceIte]
  have stay : ∃ E', SInv pubs owner c E' bss ∧ c.inCall = true ∧ c.minRecvId = E' ∧ c.balanced = 0 ∧ c.prevId = c.prevId ∧
      ([] : List Out) = [] ∧ Adv c.srcs.length bss E E' := ⟨E, h, hin, hF, hbal, rfl, rfl, adv_refl _ _ _⟩
  cases hs : c.srcs[i]? with
  | none => exact stay
  | some s =>
    simp only
    by_cases hreg : s.reg = true
    · simp only [hreg, ↓reduceIte]
      have hsh := h.static.shape i s hs
      have hil : i < c.srcs.length := (List.getElem?_eq_some_iff.mp hs).1
      rcases h.modes i s hs with ⟨p, hp, hmode⟩
      -- source `i` is replaced, the expected id stays
      have fin : ∀ (s' : Src) (m : Int), m = E → SrcShape s' →
          (Mode p i E s (raise E (bss i)) → Mode p i E s' (raise E (bss i))) →
          onTake c i = ({ c with srcs := c.srcs.set i s', minRecvId := m }, [], false) →
          ∃ E', SInv pubs owner (onTake c i).1 E' bss ∧ (onTake c i).1.inCall = true ∧ (onTake c i).1.minRecvId = E' ∧
            (onTake c i).1.balanced = 0 ∧ (onTake c i).1.prevId = c.prevId ∧ (onTake c i).2.1 = [] ∧ Adv c.srcs.length bss E E' := by
        intro s' m hm hsh' hmd e
        rw [e]
        refine ⟨E, ?_, hin, hm, hbal, rfl, rfl, adv_refl _ _ _⟩
        refine sinv_rebuild pubs owner c _ E E bss h (by simp) rfl rfl rfl h.nonneg ?_
        intro j sj hj
        rcases getElem?_set_cases _ _ _ _ _ hj with ⟨rfl, rfl, _⟩ | ⟨hne, hj'⟩
        · refine ⟨s, hs, hsh', ?_⟩
          intro p' hp' hm'
          have : p' = p := by rw [hp] at hp'; exact (Option.some.inj hp').symm
          subst this
          exact hmd hm'
        · exact ⟨sj, hj', h.static.shape j sj hj', fun _ _ hm' => hm'⟩
      cases hmode with
      | idle hr _ hq =>
        generalize hqe : s.queue = q at hq
        generalize hpe : E - 1 = prev at hq
        generalize hbe : raise E (bss i) = bs at hq
        cases hq with
        | nil =>
          have e : onTake c i = (c, [], false) := by unfold onTake; simp only [hs, hqe]
          rw [e]; exact stay
        | @skip _ w q' _ hw hq' =>
          have e := onTake_skip_gen c i s w q' hs hsh.eph hqe (by rw [hF, hpe]; exact hw)
          have e' : onTake c i = ({ c with srcs := c.srcs.set i { s with queue := q', conn := true }, minRecvId := c.minRecvId }, [], false) := e
          refine fin { s with queue := q', conn := true } _ hF ⟨hsh.eph, hsh.subAll, hsh.star, hsh.subs⟩ ?_ e'
          intro _
          exact Mode.idle hr hreg (by rw [hpe, hbe]; exact hq')
        | @blk _ k ts q' bs' hlt hbk hq' =>
          rw [blockWires_eq] at hqe
          have hkE : E ≤ k := by omega
          have hk0 : 0 ≤ k := by have := h.nonneg; omega
          by_cases hk : k = E
          · -- the block of the id being assembled
            subst hk
            cases hv : vis ts with
            | nil =>
              rw [hv] at hqe
              simp only [List.map_nil, List.nil_append, List.singleton_append] at hqe
              have e := onTake_same_gen c i s (hbW p k ts) q' hs hsh.eph hqe h.nonneg hF.symm rfl h.static.balance
              have hst := stored_static s i (hbW p k ts) q' c.minRecvId hsh hreg
              refine fin (stored s i (hbW p k ts) q' c.minRecvId) _ rfl hst.1 ?_ e
              intro _
              refine Mode.asm ts [] [] q' bs' hbe hbk (by rw [hv]; rfl)
                (stored_first_hb p i k ts s q' c.minRecvId hsh hr (by rw [hF]; exact Int.le_refl _) hbk hv) hst.2.2 ?_ hq'
              rw [hst.2.1, restW_nil_of_vis_nil p k ts hv]; rfl
            | cons x todo =>
              rw [hv] at hqe
              simp only [List.map_cons, List.cons_append, List.append_assoc, List.singleton_append] at hqe
              have e := onTake_same_gen c i s (topicW p k ts x) _ hs hsh.eph hqe h.nonneg hF.symm rfl h.static.balance
              have hst := stored_static s i (topicW p k ts x) (todo.map (topicW p k ts) ++ hbW p k ts :: q') c.minRecvId hsh hreg
              refine fin (stored s i (topicW p k ts x) (todo.map (topicW p k ts) ++ hbW p k ts :: q') c.minRecvId) _ rfl hst.1 ?_ e
              intro _
              refine Mode.asm ts [x] todo q' bs' hbe hbk (by rw [hv]; rfl)
                (stored_first p i k ts todo x s _ c.minRecvId hsh hr (by rw [hF]; exact Int.le_refl _) hbk hv) hst.2.2 ?_ hq'
              rw [hst.2.1]
              simp [restW, hv]
          · -- a NEWER block: adoption, the other sources are reset
            have hgt : E < k := by omega
            have hraise : raise k (bss i) = (k, ts) :: bs' := by
              rw [← raise_raise E k (bss i) hkE, hbe, raise_cons_ge k (k, ts) bs' (Int.le_refl _),
                raise_self_of_gt k bs' (fun b hb' => by have := chanQ_ids p hq' b hb'; omega)]
            have hmemk : (k, ts) ∈ bss i := by
              have : (k, ts) ∈ raise E (bss i) := by rw [hbe]; exact List.mem_cons_self ..
              exact ((mem_raise E (bss i) _).mp this).1
            have hadv : Adv c.srcs.length bss E k := by
              refine ⟨hkE, Or.inr ⟨i, hil, (k, ts), hmemk, rfl⟩, ?_⟩
              intro m hm1 hm2
              refine ⟨i, hil, ⟨(k, ts), hmemk, hm2⟩, ?_⟩
              intro b hb' hbm
              have : b ∈ raise E (bss i) := (mem_raise E (bss i) b).mpr ⟨hb', by omega⟩
              rw [hbe] at this
              rcases List.mem_cons.mp this with rfl | hin'
              · simp only at hbm; omega
              · have := chanQ_ids p hq' b hin'; omega
            -- the state after the take, for either shape of the head message
            have fin2 : ∀ (w : Wire) (rest : List Wire), s.queue = w :: rest → w.mid = k → w.bal = 0 →
                Mode p i k (stored s i w rest c.minRecvId) ((k, ts) :: bs') →
                ∃ E', SInv pubs owner (onTake c i).1 E' bss ∧ (onTake c i).1.inCall = true ∧ (onTake c i).1.minRecvId = E' ∧
                  (onTake c i).1.balanced = 0 ∧ (onTake c i).1.prevId = c.prevId ∧ (onTake c i).2.1 = [] ∧
                  Adv c.srcs.length bss E E' := by
              intro w rest hqw hwm hwb hmd
              have e : onTake c i = ({ c with srcs := resetOthers (c.srcs.set i (stored s i w rest c.minRecvId)) i, minRecvId := w.mid },
                  [], false) :=
                onTake_newer_gen c i s w rest hs hsh.eph hqw (by rw [hwm]; exact hk0) (by rw [hF, hwm]; exact hgt) hwb h.static.balance
              rw [e]
              have hst := stored_static s i w rest c.minRecvId hsh hreg
              refine ⟨k, ?_, hin, hwm, hbal, rfl, rfl, hadv⟩
              refine sinv_rebuild pubs owner c _ E k bss h (by simp [resetOthers]) rfl rfl rfl hk0 ?_
              intro j sj hj
              simp only at hj
              rw [resetOthers_get] at hj
              cases hjs : (c.srcs.set i (stored s i w rest c.minRecvId))[j]? with
              | none => rw [hjs] at hj; cases hj
              | some s0 =>
                rw [hjs] at hj
                simp only [Option.map_some, Option.some.injEq] at hj
                rcases getElem?_set_cases _ _ _ _ _ hjs with ⟨rfl, rfl, _⟩ | ⟨hne, hj'⟩
                · simp only [ne_eq, not_true_eq_false, false_and, ↓reduceIte] at hj
                  subst hj
                  refine ⟨s, hs, hst.1, ?_⟩
                  intro p' hp' _
                  have : p' = p := by rw [hp] at hp'; exact (Option.some.inj hp').symm
                  subst this
                  rw [hraise]; exact hmd
                · have hsh0 := h.static.shape j s0 hj'
                  have hcond : j ≠ i ∧ s0.eph = 0 := ⟨hne, hsh0.eph⟩
                  rw [if_pos hcond] at hj
                  subst hj
                  refine ⟨s0, hj', ⟨hsh0.eph, hsh0.subAll, hsh0.star, hsh0.subs⟩, ?_⟩
                  intro p' _ hm'
                  rw [recvdNew_all s0 hsh0.subAll, ← raise_raise E k (bss j) hkE]
                  exact mode_reset p' j E k s0 _ h.nonneg hgt hm'
            cases hv : vis ts with
            | nil =>
              rw [hv] at hqe
              simp only [List.map_nil, List.nil_append, List.singleton_append] at hqe
              have hst := stored_static s i (hbW p k ts) q' c.minRecvId hsh hreg
              refine fin2 (hbW p k ts) q' hqe rfl rfl ?_
              refine Mode.asm ts [] [] q' bs' rfl hbk (by rw [hv]; rfl)
                (stored_first_hb p i k ts s q' c.minRecvId hsh hr (by rw [hF]; exact hkE) hbk hv) hst.2.2 ?_ hq'
              rw [hst.2.1, restW_nil_of_vis_nil p k ts hv]; rfl
            | cons x todo =>
              rw [hv] at hqe
              simp only [List.map_cons, List.cons_append, List.append_assoc, List.singleton_append] at hqe
              have hqe' : s.queue = topicW p k ts x :: (todo.map (topicW p k ts) ++ hbW p k ts :: q') := by
                rw [hqe]; simp
              have hst := stored_static s i (topicW p k ts x) (todo.map (topicW p k ts) ++ hbW p k ts :: q') c.minRecvId hsh hreg
              refine fin2 (topicW p k ts x) (todo.map (topicW p k ts) ++ hbW p k ts :: q') hqe' rfl rfl ?_
              refine Mode.asm ts [x] todo q' bs' rfl hbk (by rw [hv]; rfl)
                (stored_first p i k ts todo x s _ c.minRecvId hsh hr (by rw [hF]; exact hkE) hbk hv) hst.2.2 ?_ hq'
              rw [hst.2.1]
              simp [restW, hv]
      | asm ts done todo q' bs' hbs hbk hv hr hreg' hq hch =>
        have hga := gotAll_asm i E s ts done todo hbk hv hr
        cases todo with
        | nil => rw [hreg', hga] at hreg; simp at hreg
        | cons x todo =>
          have hqe : s.queue = topicW p E ts x :: (restW p E ts todo ++ q') := by
            rw [hq]; simp [restW]
          have e := onTake_same_gen c i s (topicW p E ts x) _ hs hsh.eph hqe h.nonneg hF.symm rfl h.static.balance
          have hst := stored_static s i (topicW p E ts x) (restW p E ts todo ++ q') c.minRecvId hsh hreg
          refine fin (stored s i (topicW p E ts x) (restW p E ts todo ++ q') c.minRecvId) _ rfl hst.1 ?_ e
          intro _
          refine Mode.asm ts (done ++ [x]) todo q' bs' hbs hbk (by rw [hv]; simp) ?_ hst.2.2 hst.2.1 hch
          rw [hF]
          exact stored_next p i E ts done todo x s _ hsh hbk hv hr
    · rw [if_neg hreg]
      exact stay

/-! ## `check`: the complete set -/

/-- **`check` on a complete set**: every source has assembled its whole block `E`; the set returned under `E` is the concatenation
of the sources' contributions in source order; all sources move on to `E + 1` -/
theorem check_sinv (pubs : List Nat) (owner : Topic → Nat) (c : Recv.St) (E : Int) (bss : Nat → List Blk)
    (h : SInv pubs owner c E bss) (hin : c.inCall = true) (hF : c.minRecvId = E) (hbal : c.balanced = 0)
    (hrc : returnCond c = true) :
    Recv.step c .check = ({ c with prevId := E, srcs := newRecvAll c.srcs, inCall := false },
        requests c E ++ [.ret E 0 (c.srcs.flatMap srcFrames)]) ∧
    SInv pubs owner { c with prevId := E, srcs := newRecvAll c.srcs, inCall := false } (E + 1) bss ∧
    ∀ (j : Nat) (s : Src), c.srcs[j]? = some s → srcFrames s = visDataJ j E (headTs (raise E (bss j))) ∧
      ∃ ts bs', raise E (bss j) = (E, ts) :: bs' := by
  have hg : ¬ (c.dead = true ∨ ¬ c.inCall = true) := by rw [h.static.dead, hin]; simp
  -- every source is complete
  have hfull : ∀ (j : Nat) (s : Src), c.srcs[j]? = some s → ∃ p ts q' bs', pubs[j]? = some p ∧ raise E (bss j) = (E, ts) :: bs' ∧ BlkOK ts ∧
      s.recvd = some (((vis ts).map (·.1)).map fun t => (t, asgJ j E (vis ts) t)) ∧ s.queue = restW p E ts [] ++ q' ∧ ChanQ p E q' bs' := by
    intro j s hj
    have hall : gotAll s = true := by
      have := (returnCond_spec c hrc s (List.mem_of_getElem? hj)).2 (h.static.shape j s hj).eph h.static.balance
      exact (Pair.got_all_iff s).mp this
    rcases h.modes j s hj with ⟨p, hp, hm⟩
    cases hm with
    | idle hr _ _ => unfold gotAll at hall; rw [hr] at hall; cases hall
    | asm ts done todo q' bs' hbs hbk hv hr _ hq hch =>
      have hga := gotAll_asm j E s ts done todo hbk hv hr
      rw [hall] at hga
      cases todo with
      | nil =>
        rw [List.append_nil] at hv
        have hr' : s.recvd = some (((vis ts).map (·.1)).map fun t => (t, asgJ j E (vis ts) t)) := by
          rw [hr]; congr 2; funext t; rw [hv]
        exact ⟨p, ts, q', bs', hp, hbs, hbk, hr', hq, hch⟩
      | cons x t => simp at hga
  have hframes : ∀ (j : Nat) (s : Src), c.srcs[j]? = some s → srcFrames s = visDataJ j E (headTs (raise E (bss j))) ∧
      ∃ ts bs', raise E (bss j) = (E, ts) :: bs' := by
    intro j s hj
    rcases hfull j s hj with ⟨p, ts, q', bs', _, hbs, hbk, hr, _, _⟩
    refine ⟨?_, ts, bs', hbs⟩
    rw [hbs]; exact srcFrames_full j E s ts (h.static.shape j s hj) hbk hr
  -- no duplicate topic in the merged dict
  have hnodup : ((c.srcs.flatMap srcFrames).map (·.1)).Nodup := by
    rw [List.map_flatMap]
    apply nodup_flatMap_owner owner _ c.srcs 0
    intro j s hj
    rcases hfull j s hj with ⟨p, ts, q', bs', _, hbs, hbk, hr, _, _⟩
    rw [srcFrames_full j E s ts (h.static.shape j s hj) hbk hr]
    simp only [visDataJ, List.map_map, Function.comp_def]
    refine ⟨vis_nodup ts hbk, ?_⟩
    intro t ht
    rw [List.mem_map] at ht
    rcases ht with ⟨x, hx, rfl⟩
    rw [Nat.zero_add]
    have hmem : (E, ts) ∈ bss j := by
      have : (E, ts) ∈ raise E (bss j) := by rw [hbs]; exact List.mem_cons_self ..
      exact ((mem_raise E (bss j) _).mp this).1
    exact h.own j (E, ts) hmem x (List.mem_filter.mp hx).1
  have hasm : assemble (c.srcs.flatMap srcFrames) [] = .inr (c.srcs.flatMap srcFrames) := by
    rw [Pair.assemble_ok _ [] hnodup (by intro _ _ a ha; cases ha)]; rfl
  refine ⟨?_, ?_, hframes⟩
  · simp only [Recv.step, stepCheck, hg, ↓reduceIte, hrc]
    unfold finish
    simp only [hasm, h.static.lowLat, hbal, hF]
    simp
  · refine sinv_rebuild pubs owner c _ E (E + 1) bss h (by simp [newRecvAll]) rfl rfl rfl (by have := h.nonneg; omega) ?_
    intro j s' hj
    simp only [newRecvAll, List.getElem?_map] at hj
    cases hs : c.srcs[j]? with
    | none => rw [hs] at hj; cases hj
    | some s =>
      rw [hs] at hj
      simp only [Option.map_some, Option.some.injEq] at hj
      subst hj
      have hsh := h.static.shape j s hs
      refine ⟨s, rfl, ⟨hsh.eph, hsh.subAll, hsh.star, hsh.subs⟩, ?_⟩
      intro p' hp' _
      rcases hfull j s hs with ⟨p, ts, q', bs', hp, hbs, hbk, hr, hq, hch⟩
      have : p' = p := by rw [hp] at hp'; exact (Option.some.inj hp').symm
      subst this
      have hr1 : raise (E + 1) (bss j) = bs' := by
        rw [← raise_raise E (E + 1) (bss j) (by omega), hbs, raise_cons_lt (E + 1) (E, ts) bs' (by show E < E + 1; omega),
          raise_self_of_gt (E + 1) bs' (fun b hb' => by have := chanQ_ids p' hch b hb'; omega)]
      rw [hr1]
      refine Mode.idle (recvdNew_all s hsh.subAll) rfl ?_
      simp only [Int.add_sub_cancel]
      rw [hq]
      unfold restW
      simp only [List.map_nil, List.nil_append]
      split
      · simpa using hch
      · refine ChanQ.skip ⟨rfl, Or.inr ⟨?_, Int.le_refl _⟩⟩ hch
        have := h.nonneg
        show OF.Facts.MSG_ID_SPECIAL < E
        unfold OF.Facts.MSG_ID_SPECIAL; omega

/-! ## one whole `recv(state, 0)` of the join -/

theorem sinv_congr (pubs : List Nat) (owner : Topic → Nat) (c c' : Recv.St) (E : Int) (bss : Nat → List Blk)
    (h : SInv pubs owner c E bss) (hsrcs : c'.srcs = c.srcs) (hd : c'.dead = c.dead) (hb : c'.balance = c.balance)
    (hl : c'.lowLat = c.lowLat) : SInv pubs owner c' E bss :=
  ⟨⟨hd.trans h.static.dead, hb.trans h.static.balance, hl.trans h.static.lowLat, by rw [hsrcs]; exact h.static.shape⟩,
    by rw [hsrcs]; exact h.len, h.nonneg, by rw [hsrcs]; exact h.modes, h.own⟩

theorem takes_sinv (pubs : List Nat) (owner : Topic → Nat) (bss : Nat → List Blk) : ∀ (tk : List Nat) (c : Recv.St) (E : Int),
    SInv pubs owner c E bss → c.inCall = true → c.minRecvId = E → c.balanced = 0 →
    ∃ E', SInv pubs owner (Recv.run c (Net.takes tk)).1 E' bss ∧ (Recv.run c (Net.takes tk)).1.inCall = true ∧
    (Recv.run c (Net.takes tk)).1.minRecvId = E' ∧ (Recv.run c (Net.takes tk)).1.balanced = 0 ∧
    (Recv.run c (Net.takes tk)).1.prevId = c.prevId ∧ (Recv.run c (Net.takes tk)).2 = [] ∧ Adv pubs.length bss E E' := by
  intro tk
  induction tk with
  | nil => intro c E h hin hF hb; exact ⟨E, h, hin, hF, hb, rfl, rfl, adv_refl _ _ _⟩
  | cons i rest ih =>
    intro c E h hin hF hb
    have ⟨E1, a1, a2, a3, a4, a5, a6, a7⟩ := take_sinv pubs owner c E bss i h hin hF hb
    have ⟨E2, b1, b2, b3, b4, b5, b6, b7⟩ := ih _ E1 a1 a2 a3 a4
    simp only [Net.takes, List.map_cons]
    rw [Net.rrun_cons]
    simp only [Net.takes] at b1 b2 b3 b4 b5 b6
    rw [h.len] at a7
    exact ⟨E2, b1, b2, b3, b4, b5.trans a5, by rw [a6, b6]; rfl, adv_trans _ _ _ _ _ a7 b7⟩

/-- **one `recv(None, timeout=0)` of the join** (any `state ≤ prev_id + 1`): the expected id moves from `prev_id + 1` to some `E'`
by adoptions (`Adv`); either nothing is returned (`prev_id = E' - 1`, every request names `E' - 1`), or under id `E'` exactly the
concatenation over ALL sources, in source order, of the visible topics of each source's block `E'` (every source has such a
block), the expected id is `E' + 1`, and every request names `E'` -/
theorem call0_joinS (pubs : List Nat) (owner : Topic → Nat) (c : Recv.St) (state : Option Int) (prio : List Nat) (bss : Nat → List Blk)
    (h : SInv pubs owner c (c.prevId + 1) bss) (hin : c.inCall = false) (hst : ∀ k, state = some k → k ≤ c.prevId + 1) :
    ∃ E', Adv pubs.length bss (c.prevId + 1) E' ∧
    ((Net.retOf (call0 c state prio).2 = none ∧ SInv pubs owner (call0 c state prio).1 E' bss ∧
        (call0 c state prio).1.inCall = false ∧ (call0 c state prio).1.prevId = E' - 1 ∧
        ∀ o ∈ (call0 c state prio).2, o = Out.retNone ∨ ∃ i e n, o = Out.req i (E' - 1) e n) ∨
    (∃ reqs, (call0 c state prio).2 = reqs ++ [Out.ret E' 0
          ((List.range c.srcs.length).flatMap fun j => visDataJ j E' (headTs (raise E' (bss j))))] ∧
        (∀ o ∈ reqs, ∃ i e n, o = Out.req i E' e n) ∧
        (∀ j, j < c.srcs.length → ∃ ts bs', raise E' (bss j) = (E', ts) :: bs') ∧
        SInv pubs owner (call0 c state prio).1 (E' + 1) bss ∧
        (call0 c state prio).1.inCall = false ∧ (call0 c state prio).1.prevId = E')) := by
  have hg : ¬ (c.dead = true ∨ c.inCall = true) := by rw [h.static.dead, hin]; simp
  have hbeg := Net.step_begin c state hg
  have hbid : beginId c state = c.prevId + 1 := by
    cases state with
    | none => rfl
    | some k => have := hst k rfl; simp only [beginId]; omega
  have h0 : SInv pubs owner (Net.beginSt c state) (c.prevId + 1) bss := sinv_congr pubs owner c _ _ bss h rfl rfl rfl rfl
  rcases Net.call0_as_run c state prio hg with ⟨tk, hcase⟩
  have ⟨E', t1, t2, t3, t4, t5, t6, t7⟩ := takes_sinv pubs owner bss tk (Net.beginSt c state) (c.prevId + 1) h0 rfl
    (by simp only [Net.beginSt]; exact hbid) rfl
  generalize hc1 : (Recv.run (Net.beginSt c state) (Net.takes tk)).1 = c1 at t1 t2 t3 t4 t5 hcase
  have hlen1 : c1.srcs.length = c.srcs.length := by rw [t1.len, h.len]
  refine ⟨E', t7, ?_⟩
  rcases hcase with ⟨e, hrc⟩ | e
  · right
    have ⟨k1, k2, k3⟩ := check_sinv pubs owner c1 E' bss t1 t2 t3 t4 hrc
    have er : call0 c state prio = ({ c1 with prevId := E', srcs := newRecvAll c1.srcs, inCall := false },
        requests c1 E' ++ [.ret E' 0 (c1.srcs.flatMap srcFrames)]) := by
      rw [e, Net.rrun_cons, hbeg, Net.rrun_append, hc1, t6, Net.rrun_cons, Net.rrun_nil, k1]; simp
    have hdata : c1.srcs.flatMap srcFrames = (List.range c.srcs.length).flatMap fun j => visDataJ j E' (headTs (raise E' (bss j))) := by
      have := flatMap_by_index srcFrames (fun j => visDataJ j E' (headTs (raise E' (bss j)))) c1.srcs 0
        (fun j s hj => by rw [Nat.zero_add]; exact (k3 j s hj).1)
      rw [this, hlen1]
      congr 1
      have : (fun x : Nat => 0 + x) = id := by funext x; simp
      rw [this, List.map_id]
    rw [er, hdata]
    refine ⟨_, rfl, requests_mid c1 _, ?_, k2, rfl, rfl⟩
    intro j hj
    have hj1 : j < c1.srcs.length := by omega
    exact (k3 j _ (List.getElem?_eq_getElem hj1)).2
  · left
    have hg1 : ¬ (c1.dead = true ∨ ¬ c1.inCall = true) := by rw [t1.static.dead, t2]; simp
    have er : call0 c state prio = ({ c1 with inCall := false, prevId := c1.minRecvId - 1 },
        requests c1 (c1.minRecvId - 1) ++ [.retNone]) := by
      rw [e, Net.rrun_cons, hbeg, Net.rrun_append, hc1, t6, Net.rrun_cons, Net.rrun_cons, Net.rrun_nil]
      simp only [Recv.step, stepRequest, stepTimeout, hg1, ↓reduceIte]
      simp
    rw [er]
    refine ⟨?_, sinv_congr pubs owner c1 _ _ bss t1 rfl rfl rfl rfl, rfl, by simp only; rw [t3], ?_⟩
    · have hnone : ∀ (os : List Out), (∀ o ∈ os, ∃ i k e n, o = Out.req i k e n) → Net.retOf (os ++ [Out.retNone]) = none := by
        intro os
        induction os with
        | nil => intro _; rfl
        | cons o os ih =>
          intro hos
          rcases hos o (List.mem_cons_self ..) with ⟨i, k, e', n, rfl⟩
          simp only [List.cons_append, Net.retOf]
          exact ih (fun x hx => hos x (List.mem_cons_of_mem _ hx))
      apply hnone
      intro o ho
      rcases requests_mid c1 _ o ho with ⟨i, e', n, rfl⟩
      exact ⟨_, _, _, _, rfl⟩
    · intro o ho
      rw [List.mem_append] at ho
      rcases ho with ho | ho
      · right
        rcases requests_mid c1 _ o ho with ⟨i, e', n, rfl⟩
        rw [t3]; exact ⟨_, _, _, rfl⟩
      · left; simpa using ho

/-! ## the queue of a source grows at its end -/

/-- messages the receiver will skip (a HELLO, or the block of an id that has been passed) appended to the queue -/
theorem mode_push_skips (p i : Nat) (E : Int) (s : Src) (bs : List Blk) (ws : List Wire) (hw : ∀ w ∈ ws, Skip (E - 1) w)
    (h : Mode p i E s bs) : Mode p i E { s with queue := s.queue ++ ws } bs := by
  cases h with
  | idle hr hreg hq => exact Mode.idle hr hreg (chanQ_append_skips p ws hq hw)
  | asm ts done todo q' bs' hbs hb hv hr hreg hq hch =>
    refine Mode.asm ts done todo (q' ++ ws) bs' hbs hb hv hr ?_ (by simp only; rw [hq, List.append_assoc])
      (chanQ_append_skips p ws hch ?_)
    · have : gotAll { s with queue := s.queue ++ ws } = gotAll s := by unfold gotAll; rfl
      simp only [this]; exact hreg
    · intro w hmem
      have := hw w hmem
      refine ⟨this.1, ?_⟩
      rcases this.2 with e | ⟨a, b⟩
      · exact Or.inl e
      · exact Or.inr ⟨a, by omega⟩

theorem hellos_skip (p : Nat) (prev : Int) (ws : List Wire) (h : Net.Hellos p ws) : ∀ w ∈ ws, Skip prev w := by
  intro w hw
  rcases h with rfl | rfl
  · cases hw
  · simp only [List.mem_singleton] at hw
    subst hw
    exact ⟨rfl, Or.inl rfl⟩

/-- a block of an id at or above the expected one, above every id queued so far -/
theorem mode_push_blockS (p i : Nat) (E : Int) (s : Src) (bs : List Blk) (k : Int) (ts : List (String × Nat)) (hbk : BlkOK ts)
    (hk : E ≤ k) (hlt : ∀ b ∈ bs, b.1 < k) (h : Mode p i E s bs) :
    Mode p i E { s with queue := s.queue ++ blockWires p k ts } (bs ++ [(k, ts)]) := by
  cases h with
  | idle hr hreg hq =>
    exact Mode.idle hr hreg (chanQ_block p k ts hbk hq (by omega) hlt)
  | asm ts0 done todo q' bs' hbs hb hv hr hreg hq hch =>
    subst hbs
    refine Mode.asm ts0 done todo (q' ++ blockWires p k ts) (bs' ++ [(k, ts)]) rfl hb hv hr ?_ (by simp only; rw [hq, List.append_assoc])
      (chanQ_block p k ts hbk hch (by have := hlt (E, ts0) (List.mem_cons_self ..); simpa using this)
        (fun b hb' => hlt b (List.mem_cons_of_mem _ hb')))
    have : gotAll { s with queue := s.queue ++ blockWires p k ts } = gotAll s := by unfold gotAll; rfl
    simp only [this]; exact hreg

/-- `SInv` after source `i` got new wires: `bss i` grows by `new` (nothing, or the block just published) -/
theorem sinv_push (pubs : List Nat) (owner : Topic → Nat) (c : Recv.St) (E : Int) (bss : Nat → List Blk) (i : Nat) (s : Src)
    (ws : List Wire) (new : List Blk) (h : SInv pubs owner c E bss) (hs : c.srcs[i]? = some s)
    (hmode : ∀ p, pubs[i]? = some p → Mode p i E s (raise E (bss i)) →
      Mode p i E { s with queue := s.queue ++ ws } (raise E (bss i ++ new)))
    (hown : ∀ blk ∈ new, ∀ x ∈ blk.2, owner x.1 = i) :
    SInv pubs owner { c with srcs := c.srcs.set i { s with queue := s.queue ++ ws } } E
      (fun j => if j = i then bss i ++ new else bss j) := by
  have hsh := h.static.shape i s hs
  refine ⟨⟨h.static.dead, h.static.balance, h.static.lowLat, ?_⟩, by simp only [List.length_set]; exact h.len, h.nonneg, ?_, ?_⟩
  · intro j sj hj
    rcases getElem?_set_cases _ _ _ _ _ hj with ⟨rfl, rfl, _⟩ | ⟨_, hj'⟩
    · exact ⟨hsh.eph, hsh.subAll, hsh.star, hsh.subs⟩
    · exact h.static.shape j sj hj'
  · intro j sj hj
    rcases getElem?_set_cases _ _ _ _ _ hj with ⟨rfl, rfl, _⟩ | ⟨hne, hj'⟩
    · rcases h.modes j s hs with ⟨p, hp, hm⟩
      simp only [↓reduceIte]
      exact ⟨p, hp, hmode p hp hm⟩
    · simp only [hne, ↓reduceIte]
      exact h.modes j sj hj'
  · intro j blk hblk
    by_cases hji : j = i
    · subst hji
      simp only [↓reduceIte] at hblk
      rw [List.mem_append] at hblk
      rcases hblk with hblk | hblk
      · exact h.own j blk hblk
      · exact hown blk hblk
    · simp only [hji, ↓reduceIte] at hblk
      exact h.own j blk hblk

/-! ## a chain consumer whose `recv` is called with a `state` ABOVE its own expectation (it was fast-forwarded) -/

theorem beginSt_busyS (c : Recv.St) (s : Src) (state : Option Int) (h : Pair.Idle c s) : Pair.Busy (Net.beginSt c state) s := by
  refine ⟨h.srcs, h.shape, ⟨h.static.dead, h.static.balance, h.static.lowLat⟩, h.reg, h.notAll, h.keys, rfl, h.prev, ?_⟩
  show c.prevId + 1 ≤ beginId c state
  cases state with
  | none => exact Int.le_refl _
  | some k => simp only [beginId]; omega

theorem call0_unfoldS (c : Recv.St) (s : Src) (state : Option Int) (h : Pair.Idle c s) :
    call0 c state [0] =
      if (recvOnce0 (s.queue.length + 1) (Net.beginSt c state) [0]).2.2 = true then
        ((finish (recvOnce0 (s.queue.length + 1) (Net.beginSt c state) [0]).1).1,
         (recvOnce0 (s.queue.length + 1) (Net.beginSt c state) [0]).2.1 ++ (finish (recvOnce0 (s.queue.length + 1) (Net.beginSt c state) [0]).1).2)
      else
        (Pair.timeoutSt (recvOnce0 (s.queue.length + 1) (Net.beginSt c state) [0]).1,
         (recvOnce0 (s.queue.length + 1) (Net.beginSt c state) [0]).2.1 ++
           requests (recvOnce0 (s.queue.length + 1) (Net.beginSt c state) [0]).1
             ((recvOnce0 (s.queue.length + 1) (Net.beginSt c state) [0]).1.minRecvId - 1) ++ [.retNone]) := by
  have hg : ¬ (c.dead = true ∨ c.inCall = true) := by rw [h.static.dead, h.inCall]; simp
  have hb := Net.step_begin c state hg
  have hf : totalQueued (Net.beginSt c state) + 1 = s.queue.length + 1 := by
    simp [totalQueued, Net.beginSt, h.srcs]
  unfold call0
  simp only [hg, ↓reduceIte, hb, hf]
  have hbusy := beginSt_busyS c s state h
  have hspec := Pair.recvOnce0_spec (s.queue.length + 1) (Net.beginSt c state) s hbusy (by omega)
  generalize recvOnce0 (s.queue.length + 1) (Net.beginSt c state) [0] = r at hspec ⊢
  rcases r with ⟨c1, o1, g⟩
  simp only
  cases g with
  | true => simp
  | false =>
    simp only [Bool.false_eq_true, ↓reduceIte]
    rcases hspec with ⟨_, _, _, s', _, hres⟩
    rcases hres with ⟨hc, _⟩ | ⟨_, hb1, _, _⟩
    · cases hc
    · have hg1 : ¬ (c1.dead = true ∨ ¬ c1.inCall = true) := by
        have h1 : c1.dead = false := hb1.static.dead
        have h2 : c1.inCall = true := hb1.inCall
        rw [h1, h2]; simp
      simp only [Recv.step, stepRequest, stepTimeout, hg1, ↓reduceIte, Pair.timeoutSt, List.append_assoc]

/-- **one `recv(state, timeout=0)` of a chain consumer, ANY `state`**: with `B = max (prev_id + 1) state` the id the call starts
from, the blocks below `B` are discarded; no block of id `≥ B` queued: the queue is emptied, ONE request for `B - 1`, time-out,
`prev_id = B - 1`; otherwise the first such block is returned whole and what follows it stays queued -/
theorem call0_chainS (p : Nat) (c : Recv.St) (s : Src) (state : Option Int) (q : List Wire) (bs : List Blk)
    (h : Rest c s) (hq : s.queue = q) (hc : ChanQ p c.prevId q bs) :
    (raise (beginId c state) bs = [] ∧ ∃ c1 s1, call0 c state [0] = (c1, [.req 0 (beginId c state - 1) 0 (!s1.conn), .retNone]) ∧
        Rest c1 s1 ∧ c1.prevId = beginId c state - 1 ∧ s1.queue = [] ∧ (s.conn = true → s1.conn = true)) ∨
    (∃ k ts bs' c1 s1 q', raise (beginId c state) bs = (k, ts) :: bs' ∧ BlkOK ts ∧ beginId c state ≤ k ∧
        call0 c state [0] = (c1, [.req 0 k 0 false, .ret k 0 (visData k ts)]) ∧ Rest c1 s1 ∧ c1.prevId = k ∧
        s1.queue = q' ∧ ChanQ p k q' bs' ∧ s1.conn = true) := by
  have hB : c.prevId + 1 ≤ beginId c state := by
    cases state with
    | none => exact Int.le_refl _
    | some k => simp only [beginId]; omega
  have hc' : ChanQ p (beginId c state - 1) q (raise (beginId c state) bs) := chanQ_raise p _ hc h.idle.prev (by omega)
  rw [call0_unfoldS c s state h.idle]
  have hbusy := beginSt_busyS c s state h.idle
  have hlen : q.length < s.queue.length + 1 := by rw [hq]; omega
  rcases recvOnce0_chan p hc' (s.queue.length + 1) (Net.beginSt c state) s hbusy h.empty (by simp [Net.beginSt]) hq hlen with
    ⟨e0, s1, e1, b1, r1, q1, c1, c2⟩ | ⟨k, ts, bs', s1, q', e0, hbk, hlt, e1, a1, q1, ch⟩
  · left
    rw [e1]
    simp only [Bool.false_eq_true, ↓reduceIte, List.nil_append]
    refine ⟨e0, Pair.timeoutSt { Net.beginSt c state with srcs := [s1] }, s1, ?_,
      ⟨⟨rfl, b1.shape, ⟨b1.static.dead, b1.static.balance, b1.static.lowLat⟩, b1.reg, b1.notAll, b1.keys,
      rfl, ?_⟩, r1⟩, ?_, q1, ?_⟩
    · rw [Pair.requests_single _ s1 rfl b1.shape.eph]
      simp [Net.beginSt, Pair.timeoutSt]
    · simp only [Pair.timeoutSt, Net.beginSt]; have := h.idle.prev; omega
    · simp only [Pair.timeoutSt, Net.beginSt]
    · intro hconn
      by_cases hqe : q = []
      · rw [c2 hqe]; exact hconn
      · exact c1 hqe
  · right
    rw [e1]
    simp only [↓reduceIte, List.nil_append]
    rw [finish_asm _ s1 k ts a1 hbk rfl]
    refine ⟨k, ts, bs', _, { s1 with recvd := none, reg := true }, q', e0, hbk, by omega, rfl, ?_, rfl, q1, ch, a1.conn⟩
    refine ⟨⟨rfl, ⟨a1.shape.eph, a1.shape.subAll, a1.shape.star, a1.shape.subs⟩,
      ⟨a1.static.dead, a1.static.balance, a1.static.lowLat⟩, rfl, rfl, (by intro l hl; cases hl), rfl, ?_⟩, rfl⟩
    have := h.idle.prev; simp only; omega

end OF.Chain
