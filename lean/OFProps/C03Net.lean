import OFModel.Zmq.Net
import OFProps.ChainSend
import OFProps.ChainRecv
import OFProps.C01Net
set_option linter.unusedSimpArgs false
/-!
# C03, stage C on the network model — a chain computes the composition of its filters, frame for frame

Model: `OFModel/Zmq/Net.lean` with the CHAIN topology `chainTopo L` (node 0 = source, node `i+1` subscribes to node `i` only; any
length `L`), arbitrary process functions `proc` (hypothesis `ProcNames`: the dicts they return have distinct, non-empty topic
names — what a Python dict of topics is), every schedule of `nodeRecv | nodeSend @t` events (NO restarts: C03 hypothesis), no
bound, any clock readings (connection time-outs and evictions included).

`handedSpec proc i N` is the statement's right-hand side, literally: thread source frames `0 … N-1` through `proc 0 … proc (i-1)`
with the documented normalisation (`Loop.processFrames`): `None` drops the frame for everything downstream, `{}` is delivered as
an empty set, a lone frame as topic `main`, a callable's value is what it returns when called; hidden topics (`_x`) do not reach an
all-topics subscriber; the ids are the source's consecutive ids of the SURVIVING frames and are handed on unchanged.

* `C03_net_chain_composition` — along every run from the initial state, for every node `i ≥ 1`, the sequence of `(id, content)`
  sets its `process()` has been called with so far is a PREFIX of `handedSpec proc i N` (`N` = frames the source has produced):
  nothing lost from the very first frame on, nothing duplicated, reordered or altered.
* `C03_net_chain_step` — the same as a step property: the set handed in any reachable state is element number `count` of the spec.
Invariant: `Good` — per edge the N-node version of `C03Edge.lean`'s `Inv`: the consumer's queue is `ChanQ` (skippable messages and
COMPLETE blocks of the published-but-not-yet-returned sets, in order), every queued request names an id at or below the last
published one (so no `send` is ever fast-forwarded or discarded), `min_send_id` is one past the last published id, the relay
hand-over `send_state` = id received, `recv_state ≤ prev_id + 1`.  In `Net` delivery is immediate and there is one consumer per
publisher, so no `required` list is needed (cf. `C03_edge_pair_alone_any_required`).
-/
namespace OF.Net
open OF.Chain (Blk ChanQ BlkOK Rest visData vis)
open OF.Recv (Src Wire Msg Topic)

/-! ## the chain topology -/

def chainTopo (L : Nat) : Topo := { ups := (List.range L).map fun i => if i = 0 then [] else [i - 1] }

theorem chain_n (L : Nat) : (chainTopo L).n = L := by simp [chainTopo, Topo.n]

theorem chain_upsOf (L i : Nat) (h : i < L) : (chainTopo L).upsOf i = if i = 0 then [] else [i - 1] := by
  simp [chainTopo, Topo.upsOf, h]

theorem chain_hasOut (L i : Nat) : (chainTopo L).hasOut i = decide (i + 1 < L) := by
  unfold Topo.hasOut chainTopo
  simp only [List.any_map, Function.comp_def]
  by_cases h : i + 1 < L
  · simp only [h, decide_true, List.any_eq_true, List.mem_range]
    refine ⟨i + 1, h, ?_⟩
    simp
  · simp only [h, decide_false]
    rw [List.any_eq_false]
    intro j hj
    rw [List.mem_range] at hj
    by_cases hj0 : j = 0
    · simp [hj0]
    · simp only [hj0, ↓reduceIte, List.contains_cons, List.contains_nil, Bool.or_false, beq_iff_eq]
      omega

/-! ## the specification: composition of the process functions on the source sequence -/

/-- a set as handed to `process()` / a block as published: `(id, [(topic, content)])` -/
abbrev HSet := Int × List (Topic × Nat)

/-- what an all-topics subscriber sees of a published block -/
def visB (b : HSet) : HSet := (b.1, b.2.filter fun x => visible x.1)

/-- what `process()` number `n` of node `i` on the set `x` puts on the wire (under the id of `x`), if anything -/
def blockOf (proc : Proc) (i n : Nat) (x : HSet) : List HSet :=
  match dictOf (Loop.processFrames (proc i n x.2)) with
  | some d => [(x.1, d)]
  | none => []

/-- blocks of a relay for the sets `xs`, the first of which is its `n`-th -/
def throughFrom (proc : Proc) (i : Nat) : Nat → List HSet → List HSet
  | _, [] => []
  | n, x :: xs => blockOf proc i n x ++ throughFrom proc i (n + 1) xs

/-- blocks of the source after `n` frames: the surviving frames under consecutive ids -/
def srcBlocks (proc : Proc) : Nat → List HSet
  | 0 => []
  | n + 1 => srcBlocks proc n ++ blockOf proc 0 n (((srcBlocks proc n).length : Int), [])

/-- the blocks node `i` publishes, and the sets node `i` is handed, when the source produces frames `0 … N-1` -/
def outsSpec (proc : Proc) (N : Nat) : Nat → List HSet
  | 0 => srcBlocks proc N
  | i + 1 => throughFrom proc (i + 1) 0 ((outsSpec proc N i).map visB)

def handedSpec (proc : Proc) (i N : Nat) : List HSet :=
  match i with
  | 0 => []
  | i + 1 => (outsSpec proc N i).map visB

theorem throughFrom_append (proc : Proc) (i : Nat) : ∀ (xs ys : List HSet) (n : Nat),
    throughFrom proc i n (xs ++ ys) = throughFrom proc i n xs ++ throughFrom proc i (n + xs.length) ys := by
  intro xs
  induction xs with
  | nil => intro ys n; simp [throughFrom]
  | cons x xs ih =>
    intro ys n
    simp only [List.cons_append, throughFrom, ih, List.length_cons, List.append_assoc]
    congr 3
    omega

theorem throughFrom_snoc (proc : Proc) (i : Nat) (xs : List HSet) (x : HSet) :
    throughFrom proc i 0 (xs ++ [x]) = throughFrom proc i 0 xs ++ blockOf proc i xs.length x := by
  rw [throughFrom_append]
  simp [throughFrom]

theorem throughFrom_prefix (proc : Proc) (i : Nat) (xs ys : List HSet) (h : xs <+: ys) :
    throughFrom proc i 0 xs <+: throughFrom proc i 0 ys := by
  rcases h with ⟨t, rfl⟩
  rw [throughFrom_append]
  exact List.prefix_append _ _

/-! ## ids -/

/-- id of the last set of a list, `-1` for none -/
def lastId (l : List HSet) : Int := ((l.getLast?).map (·.1)).getD (-1)

theorem lastId_nil : lastId [] = -1 := rfl

theorem lastId_snoc (l : List HSet) (x : HSet) : lastId (l ++ [x]) = x.1 := by
  simp [lastId]

/-- ids strictly increasing and non-negative -/
def IdsInc (l : List HSet) : Prop := l.Pairwise (fun a b => a.1 < b.1) ∧ ∀ b ∈ l, 0 ≤ b.1

theorem idsInc_nil : IdsInc [] := ⟨List.Pairwise.nil, by intro b hb; cases hb⟩

theorem idsInc_snoc (l : List HSet) (x : HSet) (h : IdsInc l) (hx : ∀ b ∈ l, b.1 < x.1) (h0 : 0 ≤ x.1) : IdsInc (l ++ [x]) := by
  refine ⟨?_, ?_⟩
  · rw [List.pairwise_append]
    refine ⟨h.1, List.pairwise_singleton _ _, ?_⟩
    intro a ha b hb
    simp only [List.mem_singleton] at hb
    subst hb; exact hx a ha
  · intro b hb
    rw [List.mem_append] at hb
    rcases hb with hb | hb
    · exact h.2 b hb
    · simp only [List.mem_singleton] at hb; subst hb; exact h0

theorem lastId_ge (l : List HSet) (h : IdsInc l) : ∀ b ∈ l, b.1 ≤ lastId l := by
  intro b hb
  rcases List.eq_nil_or_concat l with rfl | ⟨l', x, rfl⟩
  · cases hb
  · rw [List.concat_eq_append] at hb h ⊢
    rw [lastId_snoc]
    rw [List.mem_append] at hb
    rcases hb with hb | hb
    · have := (List.pairwise_append.mp h.1).2.2 b hb x (by simp)
      omega
    · simp only [List.mem_singleton] at hb; subst hb; exact Int.le_refl _

theorem lastId_mem_or (l : List HSet) : lastId l = -1 ∨ ∃ b ∈ l, lastId l = b.1 := by
  rcases List.eq_nil_or_concat l with rfl | ⟨l', x, rfl⟩
  · left; rfl
  · right
    rw [List.concat_eq_append, lastId_snoc]
    exact ⟨x, by simp, rfl⟩

theorem lastId_ge_neg1 (l : List HSet) (h : IdsInc l) : -1 ≤ lastId l := by
  rcases lastId_mem_or l with e | ⟨b, hb, e⟩
  · omega
  · have := h.2 b hb; omega

theorem lastId_map_visB (l : List HSet) : lastId (l.map visB) = lastId l := by
  rcases List.eq_nil_or_concat l with rfl | ⟨l', x, rfl⟩
  · rfl
  · rw [List.concat_eq_append, List.map_append, List.map_singleton, lastId_snoc, lastId_snoc]; rfl

/-! ## runs with the log of what every `process()` was handed -/

structure LSt where
  st  : St
  log : Nat → List HSet

def logUpd (log : Nat → List HSet) : Ev → Obs → Nat → List HSet
  | .nodeRecv i, .rcvd _ (some k) (some fs) =>
    fun j => if j = i then log j ++ [(k, fs.map fun f => (f.topic, f.content))] else log j
  | _, _ => log

def lstep (tp : Topo) (proc : Proc) (X : LSt) (e : Ev) : LSt :=
  { st := (step tp proc X.st e).1, log := logUpd X.log e (step tp proc X.st e).2 }

def linit (tp : Topo) : LSt := { st := init tp, log := fun _ => [] }

def lrun (tp : Topo) (proc : Proc) (X : LSt) : List Ev → LSt
  | [] => X
  | e :: es => lrun tp proc (lstep tp proc X e) es

def isRestart : Ev → Bool
  | .restart _ _ => true
  | _ => false

/-! ## the invariant -/

/-- distinct, non-empty topic names -/
def NamesOK (d : List (Topic × Nat)) : Prop := (d.map (·.1)).Nodup ∧ ∀ x ∈ d, x.1 ≠ ""

/-- handed distinct non-empty topic names, a process function returns distinct non-empty topic names (a Python dict of topics) -/
def ProcNames (proc : Proc) : Prop :=
  ∀ i n h d, NamesOK h → dictOf (Loop.processFrames (proc i n h)) = some d → NamesOK d

/-- content block of a wire block -/
def cblk (tbl : List Entry) (b : Blk) : HSet := (b.1, b.2.map fun x => (x.1, contentOf tbl x.2))

/-- everything node `i` has produced for its consumer: published or still held by its loop -/
def prodOf (proc : Proc) (X : LSt) (i : Nat) (nd : Node) : List HSet :=
  if i = 0 then srcBlocks proc nd.count else throughFrom proc i 0 (X.log i)

/-- the block the loop of `nd` still holds (under the id its `send` will use) -/
def pendOf (nd : Node) : List HSet :=
  match nd.pending with
  | none => []
  | some p => match dictOf p.res with
    | some d => [(sendId nd, d)]
    | none => []

/-- node `i` as the publisher of the edge `i → i+1`; `pub` = the blocks it has published -/
structure PubInv (proc : Proc) (X : LSt) (i : Nat) (nd : Node) (pub : List HSet) : Prop where
  prod : prodOf proc X i nd = pub ++ pendOf nd
  inc : IdsInc pub
  idle : nd.pub.inCall = false
  bal : nd.pub.balance = false
  nq : nd.pub.queues.length = 1
  minSend : nd.pub.minSendId = lastId pub + 1
  reqs : ∀ q ∈ nd.pub.queues, ∀ r ∈ q, r.mid ≤ lastId pub
  strict : nd.pending.isSome = true → ∀ b ∈ pub, b.1 < sendId nd
  names : ∀ p d, nd.pending = some p → dictOf p.res = some d → NamesOK d

/-- node `i+1` as the consumer of the edge `i → i+1` -/
structure ConInv (X : LSt) (i : Nat) (C : Node) (pub : List HSet) (bsW : List Blk) (s : Src) : Prop where
  rest : Rest C.con s
  chan : ChanQ i C.con.prevId s.queue bsW
  bodies : ∀ b ∈ bsW, ∀ x ∈ b.2, x.2 < X.st.tbl.length
  queued : pub.drop C.count = bsW.map (cblk X.st.tbl)
  handed : X.log (i + 1) = (pub.take C.count).map visB
  cnt : C.count ≤ pub.length
  prev : C.con.prevId = lastId (X.log (i + 1))

/-- the `MQ` hand-over of node `i` -/
structure NodeG (i : Nat) (nd : Node) : Prop where
  src : i = 0 → nd.con.srcs = [] ∧ nd.sendState = none
  relay : 0 < i → nd.pending.isSome = true → nd.sendState = some (nd.con.prevId, 0) ∧ 0 ≤ nd.con.prevId
  recvSt : 0 < i → ∀ k, nd.recvState = some k → k ≤ nd.con.prevId + 1

structure Good (proc : Proc) (L : Nat) (X : LSt) : Prop where
  len : X.st.nodes.length = L
  tbl : 0 < X.st.tbl.length
  node : ∀ (i : Nat) (nd : Node), X.st.nodes[i]? = some nd → NodeG i nd
  edge : ∀ (i : Nat) (P C : Node), X.st.nodes[i]? = some P → X.st.nodes[i + 1]? = some C →
    ∃ pub bsW s, PubInv proc X i P pub ∧ ConInv X i C pub bsW s

theorem good_init (proc : Proc) (L : Nat) : Good proc L (linit (chainTopo L)) := by
  have hget : ∀ (i : Nat) (nd : Node), (linit (chainTopo L)).st.nodes[i]? = some nd → i < L ∧ nd = freshNode (chainTopo L) i 0 := by
    intro i nd hi
    simp only [linit, init, List.getElem?_map, chain_n] at hi
    cases hr : (List.range L)[i]? with
    | none => rw [hr] at hi; cases hi
    | some v =>
      rw [hr] at hi
      have := List.getElem?_eq_some_iff.mp hr
      rcases this with ⟨hl, he⟩
      simp only [List.getElem_range] at he
      simp only [List.length_range] at hl
      subst he
      simp only [Option.map_some, Option.some.injEq] at hi
      exact ⟨hl, hi.symm⟩
  refine ⟨by simp [linit, init, chain_n], by simp [linit, init], ?_, ?_⟩
  · intro i nd hi
    rcases hget i nd hi with ⟨hl, rfl⟩
    refine ⟨?_, (by intro _ hc; cases hc), (by intro _ k hk; cases hk)⟩
    intro h0; subst h0
    simp [freshNode, chain_upsOf L 0 hl, Recv.mkSt]
  · intro i P C hP hC
    rcases hget i P hP with ⟨_, rfl⟩
    rcases hget (i + 1) C hC with ⟨hl1, rfl⟩
    have hups : (chainTopo L).upsOf (i + 1) = [i] := by rw [chain_upsOf L (i + 1) hl1]; simp
    refine ⟨[], [], Recv.mkSrc 0 none, ?_, ?_⟩
    · refine ⟨?_, idsInc_nil, rfl, rfl, rfl, rfl, ?_, (by intro hc; cases hc), (by intro p d hp; cases hp)⟩
      · simp only [prodOf, freshNode, pendOf, List.append_nil]
        split
        · rfl
        · rfl
      · intro q hq r hr
        simp [freshNode, Send.mkSt] at hq
        subst hq; cases hr
    · refine ⟨⟨⟨?_, ⟨rfl, rfl, rfl, rfl⟩, ⟨rfl, rfl, rfl⟩, rfl, rfl, (by intro l hl; cases hl), rfl, (by simp [freshNode, Recv.mkSt, OF.Facts.MSG_ID_INITIAL_PREV])⟩, rfl⟩,
        ChanQ.nil _, (by intro b hb; cases hb), rfl, rfl, Nat.le_refl _, rfl⟩
      simp [freshNode, hups, Recv.mkSt]

/-! ## small facts: ids, tables, delivery in a chain -/

theorem srcBlocks_ids (proc : Proc) : ∀ (n : Nat), lastId (srcBlocks proc n) + 1 = ((srcBlocks proc n).length : Int) := by
  intro n
  induction n with
  | zero => rfl
  | succ n ih =>
    simp only [srcBlocks, blockOf]
    split
    · rw [lastId_snoc]; simp
    · simpa using ih

theorem lastId_take_le (l : List HSet) (h : IdsInc l) (c : Nat) : lastId (l.take c) ≤ lastId l := by
  rcases lastId_mem_or (l.take c) with e | ⟨b, hb, e⟩
  · rw [e]; exact lastId_ge_neg1 l h
  · rw [e]; exact lastId_ge l h b (List.mem_of_mem_take hb)

theorem idsInc_take (l : List HSet) (h : IdsInc l) (c : Nat) : IdsInc (l.take c) :=
  ⟨h.1.sublist (List.take_sublist c l), fun b hb => h.2 b (List.mem_of_mem_take hb)⟩

theorem idsInc_map_visB (l : List HSet) (h : IdsInc l) : IdsInc (l.map visB) := by
  refine ⟨?_, ?_⟩
  · rw [List.pairwise_map]; exact h.1
  · intro b hb
    rw [List.mem_map] at hb
    rcases hb with ⟨a, ha, rfl⟩
    exact h.2 a ha

theorem blockOf_ids (proc : Proc) (i n : Nat) (x : HSet) : ∀ b ∈ blockOf proc i n x, b.1 = x.1 := by
  intro b hb
  unfold blockOf at hb
  split at hb
  · simp only [List.mem_singleton] at hb; rw [hb]
  · cases hb

theorem throughFrom_ids (proc : Proc) (i : Nat) : ∀ (xs : List HSet) (n : Nat), ∀ b ∈ throughFrom proc i n xs, ∃ x ∈ xs, b.1 = x.1 := by
  intro xs
  induction xs with
  | nil => intro n b hb; cases hb
  | cons x xs ih =>
    intro n b hb
    simp only [throughFrom, List.mem_append] at hb
    rcases hb with hb | hb
    · exact ⟨x, List.mem_cons_self .., blockOf_ids proc i n x b hb⟩
    · rcases ih (n + 1) b hb with ⟨y, hy, e⟩
      exact ⟨y, List.mem_cons_of_mem _ hy, e⟩

theorem contentOf_append (tbl es : List Entry) (b : Nat) (h : b < tbl.length) : contentOf (tbl ++ es) b = contentOf tbl b := by
  unfold contentOf; rw [List.getElem?_append_left h]

theorem cblk_append (tbl es : List Entry) (b : Blk) (h : ∀ x ∈ b.2, x.2 < tbl.length) : cblk (tbl ++ es) b = cblk tbl b := by
  unfold cblk
  congr 1
  apply List.map_congr_left
  intro x hx
  rw [contentOf_append tbl es x.2 (h x hx)]

/-- the fresh identities `relabel` hands out point at the entries `entriesOf` appends -/
theorem relabel_content (o : List Org) : ∀ (d : List (Topic × Nat)) (pre post : List Entry),
    (relabel pre.length d).map (fun x => (x.1, contentOf (pre ++ d.map (fun q => ({ content := q.2, orig := o } : Entry)) ++ post) x.2)) = d := by
  intro d
  induction d with
  | nil => intro pre post; rfl
  | cons q rest ih =>
    intro pre post
    simp only [relabel, List.map_cons]
    congr 1
    · unfold contentOf
      simp
    · have := ih (pre ++ [{ content := q.2, orig := o }]) post
      simp only [List.length_append, List.length_cons, List.length_nil, List.append_assoc, List.cons_append, List.nil_append,
        Nat.zero_add] at this ⊢
      exact this

theorem relabel_names : ∀ (d : List (Topic × Nat)) (b : Nat), (relabel b d).map (·.1) = d.map (·.1) := by
  intro d
  induction d with
  | nil => intro b; rfl
  | cons q rest ih => intro b; simp only [relabel, List.map_cons]; rw [ih]

theorem reqOf_other (i gen j u : Nat) (h : u ≠ j) (o : Recv.Out) : reqOf i gen [j] u o = none := by
  cases o with
  | req jj mid eph new =>
    simp only [reqOf]
    split
    · rename_i hc
      cases jj with
      | zero => simp at hc; exact absurd hc.symm h
      | succ n => simp at hc
    · rfl
  | _ => rfl

theorem pushReqs_nil (p : Send.St) : pushReqs p [] = p := by
  cases p; simp [pushReqs]

theorem pushWires_noop (c : Recv.St) (ups : List Nat) (p : Nat) (ws : List Wire) (h : ∀ (j : Nat), ups[j]? ≠ some p) :
    pushWires c ups p ws = c := by
  have : (c.srcs.mapIdx fun j s => if ups[j]? = some p then { s with queue := s.queue ++ ws } else s) = c.srcs := by
    apply List.ext_getElem?
    intro j
    rw [List.getElem?_mapIdx]
    cases c.srcs[j]? with
    | none => rfl
    | some s => simp [h j]
  cases c
  simp only [pushWires] at this ⊢
  rw [this]

theorem pushWires_single (c : Recv.St) (s : Src) (p : Nat) (ws : List Wire) (h : c.srcs = [s]) :
    pushWires c [p] p ws = { c with srcs := [{ s with queue := s.queue ++ ws }] } := by
  have : (c.srcs.mapIdx fun j s => if [p][j]? = some p then { s with queue := s.queue ++ ws } else s) =
      [{ s with queue := s.queue ++ ws }] := by
    apply List.ext_getElem?
    intro j
    rw [List.getElem?_mapIdx, h]
    cases j with
    | zero => simp
    | succ j => simp
  cases c
  simp only [pushWires] at this ⊢
  rw [this]

theorem pushWires_nil (c : Recv.St) (ups : List Nat) (p : Nat) : pushWires c ups p [] = c := by
  have : (c.srcs.mapIdx fun j s => if ups[j]? = some p then { s with queue := s.queue ++ [] } else s) = c.srcs := by
    apply List.ext_getElem?
    intro j
    rw [List.getElem?_mapIdx]
    cases c.srcs[j]? with
    | none => rfl
    | some s => simp
  cases c
  simp only [pushWires] at this ⊢
  rw [this]

theorem chain_upsOf_ge (L u : Nat) (h : L ≤ u) : (chainTopo L).upsOf u = [] := by
  simp [chainTopo, Topo.upsOf, h]

/-- requests of node `j ≥ 1` of a chain reach node `j - 1` only -/
theorem deliverReqs_chain_get (L : Nat) (nodes : List Node) (j gen : Nat) (outs : List Recv.Out) (hj : j < L) (hj1 : 1 ≤ j) (u : Nat) :
    (deliverReqs (chainTopo L) nodes j gen outs)[u]? =
      if u = j - 1 then (nodes[u]?).map fun nd => { nd with pub := pushReqs nd.pub (outs.filterMap (reqOf j gen [j - 1] (j - 1))) }
      else nodes[u]? := by
  rw [deliverReqs_get, chain_upsOf L j hj]
  have hj0 : ¬ j = 0 := by omega
  simp only [hj0, ↓reduceIte]
  by_cases hu : u = j - 1
  · subst hu; simp only [↓reduceIte]
  · simp only [hu, ↓reduceIte]
    have : outs.filterMap (reqOf j gen [j - 1] u) = [] := by
      rw [List.filterMap_eq_nil_iff]
      intro o _
      exact reqOf_other j gen (j - 1) u hu o
    rw [this]
    cases nodes[u]? with
    | none => rfl
    | some nd => simp only [Option.map_some, pushReqs_nil]

/-- what node `j` of a chain publishes reaches node `j + 1` only -/
theorem deliverWires_chain_get (L : Nat) (nodes : List Node) (j : Nat) (ws : List Wire) (hlen : nodes.length = L) (u : Nat) :
    (deliverWires (chainTopo L) nodes j ws)[u]? =
      if u = j + 1 then (nodes[u]?).map fun nd => { nd with con := pushWires nd.con [j] j ws }
      else nodes[u]? := by
  rw [deliverWires_get]
  by_cases hu : u = j + 1
  · subst hu
    simp only [↓reduceIte]
    by_cases hl : j + 1 < L
    · rw [chain_upsOf L (j + 1) hl]; simp
    · have : nodes[j + 1]? = none := by rw [List.getElem?_eq_none_iff]; omega
      rw [this]; rfl
  · simp only [hu, ↓reduceIte]
    cases hn : nodes[u]? with
    | none => rfl
    | some nd =>
      simp only [Option.map_some, Option.some.injEq]
      have hl : u < L := by rw [← hlen]; exact (List.getElem?_eq_some_iff.mp hn).1
      have : pushWires nd.con ((chainTopo L).upsOf u) j ws = nd.con := by
        apply pushWires_noop
        intro k
        rw [chain_upsOf L u hl]
        by_cases hu0 : u = 0
        · simp [hu0]
        · simp only [hu0, ↓reduceIte]
          cases k with
          | zero => simp; omega
          | succ k => simp
      rw [this]

/-! ## frame lemmas: what an invariant depends on -/

theorem pubInv_frame (proc : Proc) (X X' : LSt) (i : Nat) (nd nd' : Node) (pub : List HSet) (h : PubInv proc X i nd pub)
    (hlog : X'.log i = X.log i) (hcount : nd'.count = nd.count) (hpend : nd'.pending = nd.pending)
    (hss : nd'.sendState = nd.sendState) (hin : nd'.pub.inCall = nd.pub.inCall) (hbal : nd'.pub.balance = nd.pub.balance)
    (hmin : nd'.pub.minSendId = nd.pub.minSendId) (hnq : nd'.pub.queues.length = 1)
    (hq : ∀ q ∈ nd'.pub.queues, ∀ r ∈ q, r.mid ≤ lastId pub) : PubInv proc X' i nd' pub := by
  have hsid : sendId nd' = sendId nd := by unfold sendId; rw [hss, hmin]
  have hpo : pendOf nd' = pendOf nd := by unfold pendOf; rw [hpend, hsid]
  refine ⟨?_, h.inc, hin.trans h.idle, hbal.trans h.bal, hnq, hmin.trans h.minSend, hq, ?_, ?_⟩
  · unfold prodOf; rw [hcount, hlog, hpo]; exact h.prod
  · rw [hpend, hsid]; exact h.strict
  · rw [hpend]; exact h.names

theorem conInv_frame (X X' : LSt) (i : Nat) (C C' : Node) (pub : List HSet) (bsW : List Blk) (s : Src) (es : List Entry)
    (h : ConInv X i C pub bsW s) (htbl : X'.st.tbl = X.st.tbl ++ es) (hlog : X'.log (i + 1) = X.log (i + 1))
    (hcon : C'.con = C.con) (hcount : C'.count = C.count) : ConInv X' i C' pub bsW s := by
  refine ⟨by rw [hcon]; exact h.rest, by rw [hcon]; exact h.chan, ?_, ?_, by rw [hlog, hcount]; exact h.handed,
    by rw [hcount]; exact h.cnt, by rw [hcon, hlog]; exact h.prev⟩
  · intro b hb x hx
    rw [htbl, List.length_append]
    have := h.bodies b hb x hx; omega
  · rw [hcount, h.queued, htbl]
    apply List.map_congr_left
    intro b hb
    rw [cblk_append _ _ b (h.bodies b hb)]

theorem nodeG_frame (i : Nat) (nd nd' : Node) (h : NodeG i nd) (hcon : nd'.con = nd.con) (hss : nd'.sendState = nd.sendState)
    (hrs : nd'.recvState = nd.recvState) (hpend : nd'.pending = nd.pending) : NodeG i nd' := by
  refine ⟨?_, ?_, ?_⟩
  · intro h0; rw [hcon, hss]; exact h.src h0
  · intro h0 hp; rw [hcon, hss]; rw [hpend] at hp; exact h.relay h0 hp
  · intro h0 k hk; rw [hcon]; rw [hrs] at hk; exact h.recvSt h0 k hk

/-- log and ids of a consumer: what has been handed is increasing, and the last id is `prev_id` -/
theorem con_log_inc (X : LSt) (i : Nat) (C : Node) (pub : List HSet) (bsW : List Blk) (s : Src) (h : ConInv X i C pub bsW s)
    (hinc : IdsInc pub) : IdsInc (X.log (i + 1)) ∧ (X.log (i + 1)).length = C.count ∧ C.con.prevId ≤ lastId pub := by
  refine ⟨by rw [h.handed]; exact idsInc_map_visB _ (idsInc_take pub hinc _), ?_, ?_⟩
  · rw [h.handed, List.length_map, List.length_take]; have := h.cnt; omega
  · rw [h.prev, h.handed, lastId_map_visB]; exact lastId_take_le pub hinc _

/-! ## `nodeRecv` of the source -/

theorem namesOK_nil : NamesOK [] := ⟨List.nodup_nil, by intro x hx; cases hx⟩

theorem pendOf_none (nd : Node) (h : nd.pending = none) : pendOf nd = [] := by unfold pendOf; rw [h]

theorem sendId_processed (proc : Proc) (i : Nat) (nd : Node) (fs : List HFrame) : sendId (processed proc i nd fs) = sendId nd := rfl

/-- right after `process()`: the loop holds the block of the handed set (under the id its `send` will use) -/
theorem pendOf_processed (proc : Proc) (i : Nat) (nd : Node) (fs : List HFrame) :
    pendOf (processed proc i nd fs) = blockOf proc i nd.count (sendId nd, fs.map fun f => (f.topic, f.content)) := by
  unfold pendOf blockOf
  rw [sendId_processed]
  simp only [processed]

theorem good_recvSource (proc : Proc) (hp : ProcNames proc) (L : Nat) (X : LSt) (nd : Node) (h : Good proc L X)
    (hn : X.st.nodes[0]? = some nd) (hpend : nd.pending = none) :
    Good proc L { st := { X.st with nodes := X.st.nodes.set 0 (processed proc 0 nd []) }, log := X.log } := by
  have hget : ∀ (u : Nat), (X.st.nodes.set 0 (processed proc 0 nd []))[u]? = if u = 0 then some (processed proc 0 nd []) else X.st.nodes[u]? := by
    intro u
    rw [List.getElem?_set]
    by_cases hu : 0 = u
    · subst hu
      have : 0 < X.st.nodes.length := (List.getElem?_eq_some_iff.mp hn).1
      simp [this]
    · have : ¬ u = 0 := fun e => hu e.symm
      simp [hu, this]
  have hG := h.node 0 nd hn
  refine ⟨by simp only [List.length_set]; exact h.len, h.tbl, ?_, ?_⟩
  · intro u nd' hu
    simp only at hu
    rw [hget] at hu
    by_cases hu0 : u = 0
    · subst hu0
      simp only [↓reduceIte, Option.some.injEq] at hu
      subst hu
      exact ⟨fun _ => hG.src rfl, fun hc => absurd hc (by omega), fun hc => absurd hc (by omega)⟩
    · simp only [hu0, ↓reduceIte] at hu
      exact h.node u nd' hu
  · intro i P C hP hC
    simp only at hP hC
    rw [hget] at hP hC
    have hC' : X.st.nodes[i + 1]? = some C := by simpa using hC
    by_cases hi0 : i = 0
    · subst hi0
      simp only [↓reduceIte, Option.some.injEq] at hP
      subst hP
      rcases h.edge 0 nd C hn hC' with ⟨pub, bsW, s, hpub, hcon⟩
      refine ⟨pub, bsW, s, ?_, conInv_frame X _ 0 C C pub bsW s [] hcon (by simp) rfl rfl rfl⟩
      have hss : nd.sendState = none := (hG.src rfl).2
      have hpubeq : srcBlocks proc nd.count = pub := by
        have := hpub.prod
        simp only [prodOf, ↓reduceIte, pendOf_none nd hpend, List.append_nil] at this
        exact this
      have hsid : sendId (processed proc 0 nd []) = (pub.length : Int) := by
        simp only [sendId, processed, hss]
        rw [hpub.minSend, ← hpubeq, srcBlocks_ids]
      refine ⟨?_, hpub.inc, hpub.idle, hpub.bal, hpub.nq, hpub.minSend, hpub.reqs, ?_, ?_⟩
      · rw [pendOf_processed]
        simp only [prodOf, ↓reduceIte, processed, srcBlocks, hpubeq]
        congr 2
        rw [← sendId_processed proc 0 nd [], hsid]
        rfl
      · intro _ b hb
        rw [hsid]
        have := lastId_ge pub hpub.inc b hb
        have h2 : lastId pub + 1 = (pub.length : Int) := by rw [← hpubeq]; exact srcBlocks_ids proc nd.count
        omega
      · intro p d hpd hd
        simp only [processed, Option.some.injEq] at hpd
        subst hpd
        exact hp 0 nd.count _ d (by simpa using namesOK_nil) hd
    · simp only [hi0, ↓reduceIte] at hP
      rcases h.edge i P C hP hC' with ⟨pub, bsW, s, hpub, hcon⟩
      exact ⟨pub, bsW, s, pubInv_frame proc X _ i P P pub hpub rfl rfl rfl rfl rfl rfl rfl hpub.nq hpub.reqs,
        conInv_frame X _ i C C pub bsW s [] hcon (by simp) rfl rfl rfl⟩

/-! ## `nodeRecv` of a relay / the sink: nothing returned -/

theorem pushReqs_mem (p : Send.St) (rs : List Send.Req) (q : List Send.Req) (h : q ∈ (pushReqs p rs).queues) :
    ∃ q0 ∈ p.queues, q = q0 ++ rs := by
  simp only [pushReqs, List.mem_map] at h
  rcases h with ⟨q0, h0, rfl⟩
  exact ⟨q0, h0, rfl⟩

theorem good_recv_none (proc : Proc) (L : Nat) (X : LSt) (i : Nat) (P nd : Node) (c1 : Recv.St) (s1 : Src) (rq : Send.Req)
    (nodes' : List Node) (h : Good proc L X) (hP : X.st.nodes[i]? = some P) (hn : X.st.nodes[i + 1]? = some nd)
    (hpend : nd.pending = none) (hrest : Rest c1 s1) (hprev : c1.prevId = nd.con.prevId) (hq1 : s1.queue = [])
    (hrq : rq.mid = nd.con.prevId)
    (pub : List HSet) (s : Src) (hpub : PubInv proc X i P pub) (hcon : ConInv X i nd pub [] s)
    (hlen : nodes'.length = L)
    (hlook : ∀ (u : Nat), nodes'[u]? = if u = i then some { P with pub := pushReqs P.pub [rq] }
        else if u = i + 1 then some { nd with con := c1 } else X.st.nodes[u]?) :
    Good proc L { st := { X.st with nodes := nodes' }, log := X.log } := by
  refine ⟨hlen, h.tbl, ?_, ?_⟩
  · intro u n' hu
    simp only at hu
    rw [hlook] at hu
    by_cases hu1 : u = i
    · subst hu1
      simp only [↓reduceIte, Option.some.injEq] at hu
      subst hu
      exact nodeG_frame u P _ (h.node u P hP) rfl rfl rfl rfl
    · simp only [hu1, ↓reduceIte] at hu
      by_cases hu2 : u = i + 1
      · subst hu2
        simp only [↓reduceIte, Option.some.injEq] at hu
        subst hu
        have hG := h.node (i + 1) nd hn
        refine ⟨fun hc => absurd hc (by omega), ?_, ?_⟩
        · intro _ hc; simp only [hpend] at hc; cases hc
        · intro h0 k hk
          simp only at hk ⊢
          rw [hprev]; exact hG.recvSt h0 k hk
      · simp only [hu2, ↓reduceIte] at hu
        exact h.node u n' hu
  · intro e P' C' hP' hC'
    simp only at hP' hC'
    rw [hlook] at hP' hC'
    by_cases he1 : e = i
    · -- the edge into the acting node
      subst he1
      simp only [↓reduceIte, Option.some.injEq] at hP'
      have hne : ¬ e + 1 = e := by omega
      simp only [hne, ↓reduceIte, Option.some.injEq] at hC'
      subst hP' hC'
      have ⟨_, _, hle⟩ := con_log_inc X e nd pub [] s hcon hpub.inc
      refine ⟨pub, [], s1, ?_, ?_⟩
      · refine pubInv_frame proc X _ e P _ pub hpub rfl rfl rfl rfl rfl rfl rfl (by simp [pushReqs, hpub.nq]) ?_
        intro q hq r hr
        rcases pushReqs_mem P.pub [rq] q hq with ⟨q0, hq0, rfl⟩
        rw [List.mem_append] at hr
        rcases hr with hr | hr
        · exact hpub.reqs q0 hq0 r hr
        · simp only [List.mem_singleton] at hr; subst hr; rw [hrq]; exact hle
      · refine ⟨hrest, ?_, (by intro b hb; cases hb), hcon.queued, hcon.handed, hcon.cnt, (by show c1.prevId = _; rw [hprev]; exact hcon.prev)⟩
        simp only; rw [hq1]; exact ChanQ.nil _
    · simp only [he1, ↓reduceIte] at hP'
      by_cases he2 : e = i + 1
      · -- the acting node as publisher
        subst he2
        simp only [↓reduceIte, Option.some.injEq] at hP'
        subst hP'
        have hne1 : ¬ i + 1 + 1 = i := by omega
        have hne2 : ¬ i + 1 + 1 = i + 1 := by omega
        simp only [hne1, hne2, ↓reduceIte] at hC'
        rcases h.edge (i + 1) nd C' hn hC' with ⟨pub, bsW, s, hpub, hcon⟩
        exact ⟨pub, bsW, s, pubInv_frame proc X _ (i + 1) nd _ pub hpub rfl rfl rfl rfl rfl rfl rfl hpub.nq hpub.reqs,
          conInv_frame X _ (i + 1) C' C' pub bsW s [] hcon (by simp) rfl rfl rfl⟩
      · simp only [he2, ↓reduceIte] at hP'
        by_cases he3 : e + 1 = i
        · -- the upstream node as consumer: only its request queue changed
          simp only [he3, ↓reduceIte, Option.some.injEq] at hC'
          subst hC'
          rcases h.edge e P' P hP' (by rw [he3]; exact hP) with ⟨pub, bsW, s, hpub, hcon⟩
          exact ⟨pub, bsW, s, pubInv_frame proc X _ e P' P' pub hpub rfl rfl rfl rfl rfl rfl rfl hpub.nq hpub.reqs,
            conInv_frame X _ e P _ pub bsW s [] hcon (by simp) rfl rfl rfl⟩
        · have he4 : ¬ e + 1 = i + 1 := by omega
          simp only [he3, he4, ↓reduceIte] at hC'
          rcases h.edge e P' C' hP' hC' with ⟨pub, bsW, s, hpub, hcon⟩
          exact ⟨pub, bsW, s, pubInv_frame proc X _ e P' P' pub hpub rfl rfl rfl rfl rfl rfl rfl hpub.nq hpub.reqs,
            conInv_frame X _ e C' C' pub bsW s [] hcon (by simp) rfl rfl rfl⟩

/-! ## `nodeRecv` of a relay / the sink: a set is returned and handed to `process()` -/

/-- the contents handed for the wire block `(k, ts)` are the visible part of its content block -/
theorem handed_contents (tbl : List Entry) (k : Int) (ts : List (String × Nat)) :
    ((visData k ts).map (hframe tbl)).map (fun f => (f.topic, f.content)) = (visB (cblk tbl (k, ts))).2 := by
  simp only [visData, visB, cblk, hframe, List.map_map, List.filter_map, OF.Chain.mkMsg, Function.comp_def]

theorem namesOK_handed (tbl : List Entry) (k : Int) (ts : List (String × Nat)) (h : BlkOK ts) : NamesOK (visB (cblk tbl (k, ts))).2 := by
  have e : (visB (cblk tbl (k, ts))).2 = (vis ts).map fun x => (x.1, contentOf tbl x.2) := by
    simp only [visB, cblk, vis, List.filter_map, Function.comp_def]
  rw [e]
  refine ⟨?_, ?_⟩
  · rw [List.map_map]
    have : ((fun x : Topic × Nat => x.1) ∘ fun x : String × Nat => (x.1, contentOf tbl x.2)) = fun x => x.1 := by funext x; rfl
    rw [this]; exact OF.Chain.vis_nodup ts h
  · intro x hx
    rw [List.mem_map] at hx
    rcases hx with ⟨y, hy, rfl⟩
    exact h.2 y (List.mem_filter.mp hy).1

theorem good_recv_set (proc : Proc) (hp : ProcNames proc) (L : Nat) (X : LSt) (i : Nat) (P nd : Node) (c1 : Recv.St) (s1 : Src)
    (rq : Send.Req) (k : Int) (ts : List (String × Nat)) (bs' : List Blk) (q' : List Wire) (pub : List HSet) (s : Src)
    (nodes' : List Node) (h : Good proc L X) (hP : X.st.nodes[i]? = some P) (hn : X.st.nodes[i + 1]? = some nd)
    (hpend : nd.pending = none) (hpub : PubInv proc X i P pub) (hcon : ConInv X i nd pub ((k, ts) :: bs') s)
    (hrest : Rest c1 s1) (hprev : c1.prevId = k) (hq1 : s1.queue = q') (hch : ChanQ i k q' bs') (hbk : BlkOK ts)
    (hlt : nd.con.prevId < k) (hrq : rq.mid = k) (hlen : nodes'.length = L)
    (hlook : ∀ (u : Nat), nodes'[u]? = if u = i then some { P with pub := pushReqs P.pub [rq] }
        else if u = i + 1 then some (processed proc (i + 1) { nd with con := c1, sendState := some (k, 0), recvState := none }
          ((visData k ts).map (hframe X.st.tbl))) else X.st.nodes[u]?) :
    Good proc L { st := { X.st with nodes := nodes' },
                  log := fun u => if u = i + 1 then X.log (i + 1) ++ [visB (cblk X.st.tbl (k, ts))] else X.log u } := by
  have ⟨hlinc, hllen, hle⟩ := con_log_inc X i nd pub _ s hcon hpub.inc
  have hk0 : 0 ≤ k := by have := hcon.rest.idle.prev; omega
  have hhead : pub[nd.count]? = some (cblk X.st.tbl (k, ts)) := by
    have := congrArg List.head? hcon.queued
    rw [List.head?_drop] at this
    simpa using this
  have hcl : nd.count < pub.length := (List.getElem?_eq_some_iff.mp hhead).1
  have hkpub : cblk X.st.tbl (k, ts) ∈ pub := List.mem_of_getElem? hhead
  refine ⟨hlen, h.tbl, ?_, ?_⟩
  · intro u n' hu
    simp only at hu
    rw [hlook] at hu
    by_cases hu1 : u = i
    · subst hu1
      simp only [↓reduceIte, Option.some.injEq] at hu
      subst hu
      exact nodeG_frame u P _ (h.node u P hP) rfl rfl rfl rfl
    · simp only [hu1, ↓reduceIte] at hu
      by_cases hu2 : u = i + 1
      · subst hu2
        simp only [↓reduceIte, Option.some.injEq] at hu
        subst hu
        refine ⟨fun hc => absurd hc (by omega), ?_, ?_⟩
        · intro _ _
          exact ⟨by simp only [processed, hprev], by simp only [processed, hprev]; exact hk0⟩
        · intro _ k' hk'
          simp only [processed] at hk'; cases hk'
      · simp only [hu2, ↓reduceIte] at hu
        exact h.node u n' hu
  · intro e P' C' hP' hC'
    simp only at hP' hC'
    rw [hlook] at hP' hC'
    by_cases he1 : e = i
    · subst he1
      simp only [↓reduceIte, Option.some.injEq] at hP'
      have hne : ¬ e + 1 = e := by omega
      simp only [hne, ↓reduceIte, Option.some.injEq] at hC'
      subst hP' hC'
      refine ⟨pub, bs', s1, ?_, ?_⟩
      · refine pubInv_frame proc X _ e P _ pub hpub (by show (if e = e + 1 then _ else X.log e) = X.log e; have : ¬ e = e + 1 := by omega
                                                        simp only [this, ↓reduceIte]) rfl rfl rfl rfl rfl rfl
          (by simp [pushReqs, hpub.nq]) ?_
        intro q hq r hr
        rcases pushReqs_mem P.pub [rq] q hq with ⟨q0, hq0, rfl⟩
        rw [List.mem_append] at hr
        rcases hr with hr | hr
        · exact hpub.reqs q0 hq0 r hr
        · simp only [List.mem_singleton] at hr; subst hr; rw [hrq]
          exact lastId_ge pub hpub.inc _ hkpub
      · refine ⟨hrest, (by show ChanQ e c1.prevId s1.queue bs'; rw [hprev, hq1]; exact hch), ?_, ?_, ?_, ?_, ?_⟩
        · intro b hb; exact hcon.bodies b (List.mem_cons_of_mem _ hb)
        · show pub.drop (nd.count + 1) = _
          rw [← List.tail_drop, hcon.queued]; rfl
        · show (if e + 1 = e + 1 then X.log (e + 1) ++ [visB (cblk X.st.tbl (k, ts))] else X.log (e + 1)) = (pub.take (nd.count + 1)).map visB
          simp only [↓reduceIte]
          rw [List.take_succ, hhead, hcon.handed]
          simp
        · show nd.count + 1 ≤ pub.length
          omega
        · show c1.prevId = lastId (if e + 1 = e + 1 then X.log (e + 1) ++ [visB (cblk X.st.tbl (k, ts))] else X.log (e + 1))
          simp only [↓reduceIte]
          rw [lastId_snoc, hprev]; rfl
    · simp only [he1, ↓reduceIte] at hP'
      by_cases he2 : e = i + 1
      · subst he2
        simp only [↓reduceIte, Option.some.injEq] at hP'
        subst hP'
        have hne1 : ¬ i + 1 + 1 = i := by omega
        have hne2 : ¬ i + 1 + 1 = i + 1 := by omega
        simp only [hne1, hne2, ↓reduceIte] at hC'
        rcases h.edge (i + 1) nd C' hn hC' with ⟨pub2, bsW2, s2, hpub2, hcon2⟩
        refine ⟨pub2, bsW2, s2, ?_, conInv_frame X _ (i + 1) C' C' pub2 bsW2 s2 [] hcon2 (by simp) (by simp only [hne2, ↓reduceIte]) rfl rfl⟩
        have hprod2 : throughFrom proc (i + 1) 0 (X.log (i + 1)) = pub2 := by
          have := hpub2.prod
          simp only [prodOf, pendOf_none nd hpend, List.append_nil] at this
          have hne0 : ¬ i + 1 = 0 := by omega
          simpa [hne0] using this
        have hstrict : ∀ b ∈ pub2, b.1 < k := by
          intro b hb
          rw [← hprod2] at hb
          rcases throughFrom_ids proc (i + 1) _ 0 b hb with ⟨y, hy, e⟩
          have := lastId_ge _ hlinc y hy
          rw [← hcon.prev] at this
          omega
        refine ⟨?_, hpub2.inc, hpub2.idle, hpub2.bal, hpub2.nq, hpub2.minSend, hpub2.reqs, ?_, ?_⟩
        · have hne0 : ¬ i + 1 = 0 := by omega
          rw [pendOf_processed]
          simp only [prodOf, hne0, ↓reduceIte, processed]
          rw [throughFrom_snoc, hprod2, hllen, handed_contents]
          rfl
        · intro _ b hb
          rw [sendId_processed]
          exact hstrict b hb
        · intro p d hpd hd
          simp only [processed, Option.some.injEq] at hpd
          subst hpd
          refine hp (i + 1) nd.count _ d ?_ hd
          rw [handed_contents]
          exact namesOK_handed X.st.tbl k ts hbk
      · simp only [he2, ↓reduceIte] at hP'
        have hlogP : (if e = i + 1 then X.log (i + 1) ++ [visB (cblk X.st.tbl (k, ts))] else X.log e) = X.log e := by simp only [he2, ↓reduceIte]
        have hlogC : (if e + 1 = i + 1 then X.log (i + 1) ++ [visB (cblk X.st.tbl (k, ts))] else X.log (e + 1)) = X.log (e + 1) := by
          have : ¬ e + 1 = i + 1 := by omega
          simp only [this, ↓reduceIte]
        by_cases he3 : e + 1 = i
        · simp only [he3, ↓reduceIte, Option.some.injEq] at hC'
          subst hC'
          rcases h.edge e P' P hP' (by rw [he3]; exact hP) with ⟨pub0, bsW0, s0, hpub0, hcon0⟩
          exact ⟨pub0, bsW0, s0, pubInv_frame proc X _ e P' P' pub0 hpub0 hlogP rfl rfl rfl rfl rfl rfl hpub0.nq hpub0.reqs,
            conInv_frame X _ e P _ pub0 bsW0 s0 [] hcon0 (by simp) hlogC rfl rfl⟩
        · have he4 : ¬ e + 1 = i + 1 := by omega
          simp only [he3, he4, ↓reduceIte] at hC'
          rcases h.edge e P' C' hP' hC' with ⟨pub0, bsW0, s0, hpub0, hcon0⟩
          exact ⟨pub0, bsW0, s0, pubInv_frame proc X _ e P' P' pub0 hpub0 hlogP rfl rfl rfl rfl rfl rfl hpub0.nq hpub0.reqs,
            conInv_frame X _ e C' C' pub0 bsW0 s0 [] hcon0 (by simp) hlogC rfl rfl⟩

/-! ## `nodeRecv`, assembled -/

theorem lst_eta (proc : Proc) (L : Nat) (X : LSt) (h : Good proc L X) : Good proc L { st := X.st, log := X.log } := by
  cases X; exact h

theorem relay_lookup (L : Nat) (nodes : List Node) (i gen : Nat) (P nd' : Node) (outs : List Recv.Out) (rq : Send.Req)
    (hlen : nodes.length = L) (hP : nodes[i]? = some P) (hi : i + 1 < L)
    (hrq : outs.filterMap (reqOf (i + 1) gen [i] i) = [rq]) (u : Nat) :
    (deliverReqs (chainTopo L) (nodes.set (i + 1) nd') (i + 1) gen outs)[u]? =
      if u = i then some { P with pub := pushReqs P.pub [rq] } else if u = i + 1 then some nd' else nodes[u]? := by
  rw [deliverReqs_chain_get L _ (i + 1) gen outs hi (by omega) u]
  simp only [Nat.add_sub_cancel]
  rw [List.getElem?_set]
  by_cases hu : u = i
  · subst hu
    have : ¬ u + 1 = u := by omega
    simp only [↓reduceIte, this, hP, Option.map_some, hrq]
  · simp only [hu, ↓reduceIte]
    by_cases hu2 : u = i + 1
    · subst hu2
      have : i + 1 < nodes.length := by omega
      simp [this]
    · have : ¬ i + 1 = u := fun e => hu2 e.symm
      simp only [this, ↓reduceIte, hu2]

theorem good_stepRecv (proc : Proc) (hp : ProcNames proc) (L : Nat) (X : LSt) (j : Nat) (h : Good proc L X) :
    Good proc L (lstep (chainTopo L) proc X (.nodeRecv j)) := by
  unfold lstep
  simp only [step, stepRecv]
  cases hn : X.st.nodes[j]? with
  | none => exact lst_eta proc L X h
  | some nd =>
    simp only
    have hjL : j < L := by rw [← h.len]; exact (List.getElem?_eq_some_iff.mp hn).1
    by_cases hpend : nd.pending.isSome = true
    · simp only [hpend, ↓reduceIte]
      exact lst_eta proc L X h
    · have hpn : nd.pending = none := by
        cases hc : nd.pending with
        | none => rfl
        | some x => rw [hc] at hpend; simp at hpend
      simp only [hpend, Bool.false_eq_true, ↓reduceIte]
      cases j with
      | zero =>
        have hsrc : nd.con.srcs.isEmpty = true := by rw [((h.node 0 nd hn).src rfl).1]; rfl
        simp only [hsrc, ↓reduceIte, recvSource]
        exact good_recvSource proc hp L X nd h hn hpn
      | succ i =>
        have hiL : i < X.st.nodes.length := by rw [h.len]; omega
        have hP : X.st.nodes[i]? = some X.st.nodes[i] := List.getElem?_eq_getElem hiL
        rcases h.edge i _ nd hP hn with ⟨pub, bsW, s, hpub, hcon⟩
        have hsrcs : nd.con.srcs = [s] := hcon.rest.idle.srcs
        have hne : nd.con.srcs.isEmpty = false := by rw [hsrcs]; rfl
        simp only [hne, Bool.false_eq_true, ↓reduceIte, recvRelay]
        have hprio : List.range nd.con.srcs.length = [0] := by rw [hsrcs]; rfl
        rw [hprio]
        have hst : ∀ k, nd.recvState = some k → k ≤ nd.con.prevId + 1 := (h.node (i + 1) nd hn).recvSt (by omega)
        rcases OF.Chain.call0_chain i nd.con s nd.recvState s.queue bsW hcon.rest rfl hcon.chan hst with
          ⟨hb0, c1, s1, e1, hrest, hprev, hq1, _⟩ | ⟨k, ts, bs', c1, s1, q', hb0, hbk, hlt, e1, hrest, hprev, hq1, hch, _⟩
        · -- nothing returned
          rw [e1]
          have hret : retOf [Recv.Out.req 0 nd.con.prevId 0 (!s1.conn), Recv.Out.retNone] = none := rfl
          simp only [afterRecv, recvObs, hret, logUpd]
          subst hb0
          refine good_recv_none proc L X i _ nd c1 s1
            { cid := cidOf (i + 1), uid := uidOf nd.gen 0, mid := nd.con.prevId, eph := 0, new := !s1.conn, body := 0 }
            _ h hP hn hpn hrest hprev hq1 rfl pub s hpub hcon
            (by simp only [deliverReqs, List.length_mapIdx, List.length_set]; exact h.len) ?_
          intro u
          exact relay_lookup L X.st.nodes i nd.gen _ _ _ _ h.len hP hjL (by simp [reqOf]) u
        · -- a set is returned
          rw [e1]
          have hret : retOf [Recv.Out.req 0 k 0 false, Recv.Out.ret k 0 (visData k ts)] = some (k, 0, visData k ts) := rfl
          subst hb0
          simp only [afterRecv, recvObs, hret, logUpd]
          have hlog : (fun u => if u = i + 1 then X.log u ++ [(k, ((visData k ts).map (hframe X.st.tbl)).map fun f => (f.topic, f.content))] else X.log u) =
              fun u => if u = i + 1 then X.log (i + 1) ++ [visB (cblk X.st.tbl (k, ts))] else X.log u := by
            funext u
            by_cases hu : u = i + 1
            · subst hu; simp only [↓reduceIte]; rw [handed_contents]; rfl
            · simp only [hu, ↓reduceIte]
          rw [hlog]
          refine good_recv_set proc hp L X i _ nd c1 s1
            { cid := cidOf (i + 1), uid := uidOf nd.gen 0, mid := k, eph := 0, new := false, body := 0 }
            k ts bs' q' pub s _ h hP hn hpn hpub hcon hrest hprev hq1 hch hbk hlt rfl
            (by simp only [deliverReqs, List.length_mapIdx, List.length_set]; exact h.len) ?_
          intro u
          exact relay_lookup L X.st.nodes i nd.gen _ _ _ _ h.len hP hjL (by simp [reqOf]) u

/-! ## `nodeSend` -/

/-- generic re-assembly after node `j` acted as a publisher: its own state and the SUB queue of node `j+1` changed, the ghost
table grew -/
theorem good_send_gen (proc : Proc) (L : Nat) (X : LSt) (j : Nat) (nd C nd' C' : Node) (pub' : List HSet) (bsW' : List Blk) (s' : Src)
    (es : List Entry) (nodes' : List Node) (h : Good proc L X) (hn : X.st.nodes[j]? = some nd) (hC : X.st.nodes[j + 1]? = some C)
    (hlen : nodes'.length = L)
    (hlook : ∀ (u : Nat), nodes'[u]? = if u = j + 1 then some C' else if u = j then some nd' else X.st.nodes[u]?)
    (hpub' : PubInv proc { st := { nodes := nodes', tbl := X.st.tbl ++ es }, log := X.log } j nd' pub')
    (hcon' : ConInv { st := { nodes := nodes', tbl := X.st.tbl ++ es }, log := X.log } j C' pub' bsW' s')
    (hG : NodeG j nd') (hcon_nd : nd'.con = nd.con) (hcount_nd : nd'.count = nd.count)
    (hCpub : C'.pub = C.pub) (hCpend : C'.pending = C.pending) (hCcount : C'.count = C.count) (hCss : C'.sendState = C.sendState)
    (hCrs : C'.recvState = C.recvState) (hCprev : C'.con.prevId = C.con.prevId) (hCsrcs : C'.con.srcs = [] ↔ C.con.srcs = []) :
    Good proc L { st := { nodes := nodes', tbl := X.st.tbl ++ es }, log := X.log } := by
  refine ⟨hlen, by simp only [List.length_append]; have := h.tbl; omega, ?_, ?_⟩
  · intro u n' hu
    simp only at hu
    rw [hlook] at hu
    by_cases hu1 : u = j + 1
    · subst hu1
      simp only [↓reduceIte, Option.some.injEq] at hu
      subst hu
      have hGC := h.node (j + 1) C hC
      refine ⟨fun hc => absurd hc (by omega), ?_, ?_⟩
      · intro h0 hp'
        rw [hCpend] at hp'
        rw [hCss, hCprev]; exact hGC.relay h0 hp'
      · intro h0 k hk
        rw [hCrs] at hk
        rw [hCprev]; exact hGC.recvSt h0 k hk
    · simp only [hu1, ↓reduceIte] at hu
      by_cases hu2 : u = j
      · subst hu2
        simp only [↓reduceIte, Option.some.injEq] at hu
        subst hu; exact hG
      · simp only [hu2, ↓reduceIte] at hu
        exact h.node u n' hu
  · intro e P2 C2 hP2 hC2
    simp only at hP2 hC2
    rw [hlook] at hP2 hC2
    by_cases he1 : e = j
    · subst he1
      have hne : ¬ e = e + 1 := by omega
      simp only [hne, ↓reduceIte, Option.some.injEq] at hP2 hC2
      subst hP2 hC2
      exact ⟨pub', bsW', s', hpub', hcon'⟩
    · by_cases he2 : e = j + 1
      · -- node j+1 as publisher
        subst he2
        simp only [↓reduceIte, Option.some.injEq] at hP2
        subst hP2
        have hne1 : ¬ j + 1 + 1 = j + 1 := by omega
        have hne2 : ¬ j + 1 + 1 = j := by omega
        simp only [hne1, hne2, ↓reduceIte] at hC2
        rcases h.edge (j + 1) C C2 hC hC2 with ⟨pub0, bsW0, s0, hpub0, hcon0⟩
        exact ⟨pub0, bsW0, s0, pubInv_frame proc X _ (j + 1) C _ pub0 hpub0 rfl hCcount hCpend hCss (by rw [hCpub]) (by rw [hCpub])
          (by rw [hCpub]) (by rw [hCpub]; exact hpub0.nq) (by rw [hCpub]; exact hpub0.reqs),
          conInv_frame X _ (j + 1) C2 C2 pub0 bsW0 s0 es hcon0 rfl rfl rfl rfl⟩
      · simp only [he1, he2, ↓reduceIte] at hP2
        by_cases he3 : e + 1 = j
        · -- node j as consumer
          have hne : ¬ e + 1 = j + 1 := by omega
          have hne' : ¬ j = j + 1 := by omega
          simp only [hne, he3, hne', ↓reduceIte, Option.some.injEq] at hC2
          subst hC2
          rcases h.edge e P2 nd hP2 (by rw [he3]; exact hn) with ⟨pub0, bsW0, s0, hpub0, hcon0⟩
          exact ⟨pub0, bsW0, s0, pubInv_frame proc X _ e P2 P2 pub0 hpub0 rfl rfl rfl rfl rfl rfl rfl hpub0.nq hpub0.reqs,
            conInv_frame X _ e nd _ pub0 bsW0 s0 es hcon0 rfl rfl hcon_nd hcount_nd⟩
        · have hne : ¬ e + 1 = j + 1 := by omega
          simp only [hne, he3, ↓reduceIte] at hC2
          rcases h.edge e P2 C2 hP2 hC2 with ⟨pub0, bsW0, s0, hpub0, hcon0⟩
          exact ⟨pub0, bsW0, s0, pubInv_frame proc X _ e P2 P2 pub0 hpub0 rfl rfl rfl rfl rfl rfl rfl hpub0.nq hpub0.reqs,
            conInv_frame X _ e C2 C2 pub0 bsW0 s0 es hcon0 rfl rfl rfl rfl⟩

theorem rest_push (c : Recv.St) (s : Src) (p : Nat) (ws : List Wire) (h : Rest c s) :
    pushWires c [p] p ws = { c with srcs := [{ s with queue := s.queue ++ ws }] } ∧
    Rest { c with srcs := [{ s with queue := s.queue ++ ws }] } { s with queue := s.queue ++ ws } := by
  refine ⟨pushWires_single c s p ws h.idle.srcs, ⟨⟨rfl, ⟨h.idle.shape.eph, h.idle.shape.subAll, h.idle.shape.star, h.idle.shape.subs⟩,
    ⟨h.idle.static.dead, h.idle.static.balance, h.idle.static.lowLat⟩, h.idle.reg, ?_, ?_, h.idle.inCall, h.idle.prev⟩, h.empty⟩⟩
  · have := h.idle.notAll; unfold Recv.gotAll at this ⊢; exact this
  · exact h.idle.keys

/-- the consumer after the publisher's `send` put at most a HELLO on the wire -/
theorem conInv_hellos (X : LSt) (j : Nat) (C : Node) (pub : List HSet) (bsW : List Blk) (s : Src) (ws : List Wire) (es : List Entry)
    (nodes' : List Node) (hcon : ConInv X j C pub bsW s) (hw : Hellos j ws) :
    ConInv { st := { nodes := nodes', tbl := X.st.tbl ++ es }, log := X.log } j { C with con := pushWires C.con [j] j ws } pub bsW
      { s with queue := s.queue ++ ws } := by
  have ⟨e1, r1⟩ := rest_push C.con s j ws hcon.rest
  refine ⟨by simp only; rw [e1]; exact r1, ?_, ?_, ?_, hcon.handed, hcon.cnt, by simp only; rw [e1]; exact hcon.prev⟩
  · simp only; rw [e1]
    rcases hw with rfl | rfl
    · simpa using hcon.chan
    · exact OF.Chain.chanQ_hello j hcon.chan
  · intro b hb x hx
    simp only [List.length_append]
    have := hcon.bodies b hb x hx; omega
  · simp only
    rw [hcon.queued]
    apply List.map_congr_left
    intro b hb
    rw [cblk_append _ _ b (hcon.bodies b hb)]

theorem blkOK_relabel (d : List (Topic × Nat)) (b : Nat) (h : NamesOK d) : BlkOK (relabel b d) := by
  refine ⟨by rw [relabel_names]; exact h.1, ?_⟩
  intro x hx
  have := (relabel_spec d b x hx).2.2
  rw [List.mem_map] at this
  rcases this with ⟨y, hy, e⟩
  rw [← e]; exact h.2 y hy

/-- the consumer after the publisher put the block `(k, d)` on the wire -/
theorem conInv_block (X : LSt) (j : Nat) (C : Node) (pub : List HSet) (bsW : List Blk) (s : Src) (k : Int) (d : List (Topic × Nat))
    (o : List Org) (nodes' : List Node) (hcon : ConInv X j C pub bsW s) (hinc : IdsInc pub) (hstrict : ∀ b ∈ pub, b.1 < k)
    (hk0 : 0 ≤ k) (hnames : NamesOK d) :
    ConInv { st := { nodes := nodes', tbl := X.st.tbl ++ d.map fun q => ({ content := q.2, orig := o } : Entry) }, log := X.log } j
      { C with con := pushWires C.con [j] j (blockWires j k (relabel X.st.tbl.length d)) } (pub ++ [(k, d)])
      (bsW ++ [(k, relabel X.st.tbl.length d)]) { s with queue := s.queue ++ blockWires j k (relabel X.st.tbl.length d) } := by
  have ⟨e1, r1⟩ := rest_push C.con s j (blockWires j k (relabel X.st.tbl.length d)) hcon.rest
  have ⟨_, _, hle⟩ := con_log_inc X j C pub bsW s hcon hinc
  have hprevlt : C.con.prevId < k := by
    rcases lastId_mem_or pub with e | ⟨b, hb, e⟩
    · omega
    · have := hstrict b hb; omega
  have hbsW : ∀ b ∈ bsW, b.1 < k := by
    intro b hb
    have : cblk X.st.tbl b ∈ pub.drop C.count := by rw [hcon.queued]; exact List.mem_map_of_mem hb
    exact hstrict (cblk X.st.tbl b) (List.mem_of_mem_drop this)
  refine ⟨by simp only; rw [e1]; exact r1, ?_, ?_, ?_, ?_, ?_, by simp only; rw [e1]; exact hcon.prev⟩
  · simp only; rw [e1]
    exact OF.Chain.chanQ_block j k _ (blkOK_relabel d _ hnames) hcon.chan hprevlt hbsW
  · intro b hb x hx
    simp only [List.length_append, List.length_map]
    rw [List.mem_append] at hb
    rcases hb with hb | hb
    · have := hcon.bodies b hb x hx; omega
    · simp only [List.mem_singleton] at hb
      subst hb
      have := (relabel_spec d X.st.tbl.length x hx).2.1
      omega
  · simp only
    rw [List.drop_append_of_le_length hcon.cnt, hcon.queued, List.map_append]
    congr 1
    · apply List.map_congr_left
      intro b hb
      rw [cblk_append _ _ b (hcon.bodies b hb)]
    · simp only [List.map_cons, List.map_nil, cblk]
      have := relabel_content o d X.st.tbl []
      simp only [List.append_nil] at this
      rw [this]
  · simp only
    rw [List.take_append_of_le_length hcon.cnt]; exact hcon.handed
  · simp only [List.length_append, List.length_cons, List.length_nil]
    have := hcon.cnt; omega

theorem send_lookup (L : Nat) (nodes : List Node) (j : Nat) (nd' C : Node) (ws : List Wire) (hlen : nodes.length = L)
    (hj : j < L) (hC : nodes[j + 1]? = some C) (u : Nat) :
    (deliverWires (chainTopo L) (nodes.set j nd') j ws)[u]? =
      if u = j + 1 then some { C with con := pushWires C.con [j] j ws } else if u = j then some nd' else nodes[u]? := by
  rw [deliverWires_chain_get L _ j ws (by simp only [List.length_set]; exact hlen) u, List.getElem?_set]
  by_cases hu : u = j + 1
  · subst hu
    have : ¬ j = j + 1 := by omega
    simp only [↓reduceIte, this, hC, Option.map_some]
  · simp only [hu, ↓reduceIte]
    by_cases hu2 : u = j
    · subst hu2
      have : u < nodes.length := by omega
      simp [this]
    · have : ¬ j = u := fun e => hu2 e.symm
      simp only [this, ↓reduceIte, hu2]

theorem pendOf_some (nd : Node) (p : Pending) (d : List (Topic × Nat)) (hp : nd.pending = some p) (hd : dictOf p.res = some d) :
    pendOf nd = [(sendId nd, d)] := by
  unfold pendOf; rw [hp]; simp only [hd]

theorem pendOf_nodict (nd : Node) (p : Pending) (hp : nd.pending = some p) (hd : dictOf p.res = none) : pendOf nd = [] := by
  unfold pendOf; rw [hp]; simp only [hd]

theorem good_sendReal (proc : Proc) (L : Nat) (X : LSt) (j : Nat) (t : Int) (nd C : Node) (p : Pending) (h : Good proc L X)
    (hn : X.st.nodes[j]? = some nd) (hpend : nd.pending = some p) (hC : X.st.nodes[j + 1]? = some C) :
    Good proc L { st := (sendReal (chainTopo L) X.st j nd p t).1, log := X.log } := by
  have hjL : j < L := by rw [← h.len]; exact (List.getElem?_eq_some_iff.mp hn).1
  rcases h.edge j nd C hn hC with ⟨pub, bsW, s, hpub, hcon⟩
  have hG := h.node j nd hn
  have hpis : nd.pending.isSome = true := by rw [hpend]; rfl
  -- the `state` handed to the sender, and the id of the call
  have hs : nd.sendState = none ∨ ∃ k', nd.sendState = some (k', 0) := by
    by_cases hj0 : j = 0
    · left; exact (hG.src hj0).2
    · right; exact ⟨_, (hG.relay (by omega) hpis).1⟩
  have hsid0 : 0 ≤ sendId nd := by
    by_cases hj0 : j = 0
    · have : sendId nd = nd.pub.minSendId := by unfold sendId; rw [(hG.src hj0).2]
      rw [this, hpub.minSend]; have := lastId_ge_neg1 pub hpub.inc; omega
    · have ⟨e, h0⟩ := hG.relay (by omega) hpis
      have : sendId nd = nd.con.prevId := by unfold sendId; rw [e]
      rw [this]; exact h0
  have hlast : lastId pub < sendId nd := by
    rcases lastId_mem_or pub with e | ⟨b, hb, e⟩
    · omega
    · rw [e]; exact hpub.strict hpis b hb
  have hout := send0_chain (fun r => r.mid ≤ lastId pub) j nd.pub nd.sendState ((dictOf p.res).map (relabel X.st.tbl.length)) t
    hpub.idle hpub.bal hpub.nq hs (by rw [callId_sendId, hpub.minSend]; omega)
    (by intro q hq x hx; rw [callId_sendId]; have := hpub.reqs q hq x hx; exact ⟨by omega, this⟩)
  rw [callId_sendId] at hout
  have hpay : payloadOf X.st.tbl.length p.res = .deferred ((dictOf p.res).map (relabel X.st.tbl.length)) := rfl
  unfold sendReal
  simp only [hpay]
  generalize hr : Send.send0 nd.pub nd.sendState (.deferred ((dictOf p.res).map (relabel X.st.tbl.length))) false [0] t = r at hout
  rcases hout with ⟨o1, o2, o3, o4, hcase⟩
  have hlen' : ∀ (nd' : Node) (ws : List Wire), (deliverWires (chainTopo L) (X.st.nodes.set j nd') j ws).length = L := by
    intro nd' ws; simp only [deliverWires, List.length_mapIdx, List.length_set]; exact h.len
  have hlook := send_lookup L X.st.nodes j (afterSend nd p r) C (r.2.filterMap (wireOf j)) h.len hjL hC
  have hsrcs : ∀ ws, ((pushWires C.con [j] j ws).srcs = [] ↔ C.con.srcs = []) := by
    intro ws
    rw [(rest_push C.con s j ws hcon.rest).1, hcon.rest.idle.srcs]; simp
  have hprevC : ∀ ws, (pushWires C.con [j] j ws).prevId = C.con.prevId := fun ws => rfl
  rcases hcase with ⟨m1, m2, m3, m4⟩ | ⟨hrn, m1, m2, m3, m4⟩ | ⟨ts, hrs, m1, m2, m3, m4⟩
  · -- time-out: nothing published
    have haft : afterSend nd p r = { nd with pub := r.1 } := by unfold afterSend; rw [m2]
    rw [haft] at hlook ⊢
    refine good_send_gen proc L X j nd C _ _ pub bsW _ _ _ h hn hC (hlen' _ _) hlook ?_
      (conInv_hellos X j C pub bsW s _ _ _ hcon m4) (nodeG_frame j nd _ hG rfl rfl rfl rfl) rfl rfl rfl rfl rfl rfl rfl (hprevC _) (hsrcs _)
    exact pubInv_frame proc X _ j nd { nd with pub := r.1 } pub hpub rfl rfl rfl rfl (o1.trans hpub.idle.symm) (o2.trans hpub.bal.symm) m1 o3
      (fun q hq x hx => (o4 q hq x hx).2)
  · -- the callable returned None: nothing published, the loop is free again
    have hd : dictOf p.res = none := by
      cases hdd : dictOf p.res with
      | none => rfl
      | some d => rw [hdd] at hrn; cases hrn
    have haft : afterSend nd p r = { nd with pub := r.1, pending := none, sendState := none, recvState := none } := by
      unfold afterSend; rw [m2]; simp only [m3, hd, Option.isNone_none, Bool.and_self, ↓reduceIte]
    rw [haft] at hlook ⊢
    refine good_send_gen proc L X j nd C _ _ pub bsW _ _ _ h hn hC (hlen' _ _) hlook ?_
      (conInv_hellos X j C pub bsW s _ _ _ hcon m4) ?_ rfl rfl rfl rfl rfl rfl rfl (hprevC _) (hsrcs _)
    · refine ⟨?_, hpub.inc, o1, o2, o3, m1.trans hpub.minSend, fun q hq x hx => (o4 q hq x hx).2, (by intro hc; cases hc),
        (by intro q d hq; cases hq)⟩
      have := hpub.prod
      rw [pendOf_nodict nd p hpend hd] at this
      simp only [prodOf] at this ⊢
      rw [this]; rfl
    · exact ⟨fun h0 => ⟨(hG.src h0).1, rfl⟩, (by intro _ hc; cases hc), (by intro _ k hk; cases hk)⟩
  · -- the block is published
    have hd : ∃ d, dictOf p.res = some d ∧ ts = relabel X.st.tbl.length d := by
      cases hdd : dictOf p.res with
      | none => rw [hdd] at hrs; cases hrs
      | some d => rw [hdd] at hrs; simp only [Option.map_some, Option.some.injEq] at hrs; exact ⟨d, rfl, hrs.symm⟩
    rcases hd with ⟨d, hd, rfl⟩
    have haft : afterSend nd p r = { nd with pub := r.1, pending := none, sendState := none, recvState := some (sendId nd + 1) } := by
      unfold afterSend; rw [m2]; simp only [m3, hd, Option.isNone_some, Bool.and_false, Bool.false_eq_true, ↓reduceIte]
    have hent : entriesOf p.res (sendOrigin j nd p) = d.map fun q => ({ content := q.2, orig := sendOrigin j nd p } : Entry) := by
      simp only [entriesOf, hd, Option.getD_some]
    rw [haft] at hlook ⊢
    rw [m4] at hlook ⊢
    rw [hent]
    have hnames := hpub.names p d hpend hd
    refine good_send_gen proc L X j nd C _ _ (pub ++ [(sendId nd, d)]) (bsW ++ [(sendId nd, relabel X.st.tbl.length d)]) _ _ _ h hn hC
      (hlen' _ _) hlook ?_
      (conInv_block X j C pub bsW s (sendId nd) d _ _ hcon hpub.inc (hpub.strict hpis) hsid0 hnames) ?_ rfl rfl rfl rfl rfl rfl rfl (hprevC _) (hsrcs _)
    · refine ⟨?_, idsInc_snoc pub _ hpub.inc (hpub.strict hpis) hsid0, o1, o2, o3, (by rw [m1, lastId_snoc]), ?_,
        (by intro hc; cases hc), (by intro q d' hq; cases hq)⟩
      · have := hpub.prod
        rw [pendOf_some nd p d hpend hd] at this
        simp only [prodOf] at this ⊢
        rw [this]; simp [pendOf]
      · intro q hq x hx
        rw [lastId_snoc]
        have := (o4 q hq x hx).1; simp only; omega
    · refine ⟨fun h0 => ⟨(hG.src h0).1, rfl⟩, (by intro _ hc; cases hc), ?_⟩
      intro h0 k hk
      simp only [Option.some.injEq] at hk
      have ⟨e, _⟩ := hG.relay h0 hpis
      have : sendId nd = nd.con.prevId := by unfold sendId; rw [e]
      simp only; omega

theorem good_sendSkip (proc : Proc) (L : Nat) (X : LSt) (j : Nat) (nd : Node) (p : Pending) (h : Good proc L X)
    (hn : X.st.nodes[j]? = some nd) (hpend : nd.pending = some p)
    (hno : Loop.reachesSender ((chainTopo L).hasOut j) p.res = false) :
    Good proc L { st := { X.st with nodes := X.st.nodes.set j { nd with pending := none } }, log := X.log } := by
  have hjL : j < L := by rw [← h.len]; exact (List.getElem?_eq_some_iff.mp hn).1
  have hget : ∀ (u : Nat), (X.st.nodes.set j { nd with pending := none })[u]? =
      if u = j then some { nd with pending := none } else X.st.nodes[u]? := by
    intro u
    rw [List.getElem?_set]
    by_cases hu : j = u
    · subst hu
      have : j < X.st.nodes.length := by rw [h.len]; exact hjL
      simp [this]
    · have : ¬ u = j := fun e => hu e.symm
      simp [hu, this]
  have hG := h.node j nd hn
  refine ⟨by simp only [List.length_set]; exact h.len, h.tbl, ?_, ?_⟩
  · intro u n' hu
    simp only at hu
    rw [hget] at hu
    by_cases hu1 : u = j
    · subst hu1
      simp only [↓reduceIte, Option.some.injEq] at hu
      subst hu
      exact ⟨hG.src, (by intro _ hc; cases hc), hG.recvSt⟩
    · simp only [hu1, ↓reduceIte] at hu
      exact h.node u n' hu
  · intro e P2 C2 hP2 hC2
    simp only at hP2 hC2
    rw [hget] at hP2 hC2
    by_cases he1 : e = j
    · subst he1
      have hne : ¬ e + 1 = e := by omega
      simp only [↓reduceIte, Option.some.injEq, hne] at hP2 hC2
      subst hP2
      rcases h.edge e nd C2 hn hC2 with ⟨pub, bsW, s, hpub, hcon⟩
      have hL : e + 1 < L := by rw [← h.len]; exact (List.getElem?_eq_some_iff.mp hC2).1
      have hd : dictOf p.res = none := by
        rw [chain_hasOut, decide_eq_true hL] at hno
        cases hres : p.res with
        | none => rfl
        | dict d => rw [hres] at hno; simp [Loop.reachesSender] at hno
        | deferred r => rw [hres] at hno; simp [Loop.reachesSender] at hno
      refine ⟨pub, bsW, s, ?_, conInv_frame X _ e C2 C2 pub bsW s [] hcon (by simp) rfl rfl rfl⟩
      refine ⟨?_, hpub.inc, hpub.idle, hpub.bal, hpub.nq, hpub.minSend, hpub.reqs, (by intro hc; cases hc), (by intro q d hq; cases hq)⟩
      have := hpub.prod
      rw [pendOf_nodict nd p hpend hd] at this
      simp only [prodOf] at this ⊢
      rw [this]; rfl
    · simp only [he1, ↓reduceIte] at hP2
      by_cases he3 : e + 1 = j
      · simp only [he3, ↓reduceIte, Option.some.injEq] at hC2
        subst hC2
        rcases h.edge e P2 nd hP2 (by rw [he3]; exact hn) with ⟨pub0, bsW0, s0, hpub0, hcon0⟩
        exact ⟨pub0, bsW0, s0, pubInv_frame proc X _ e P2 P2 pub0 hpub0 rfl rfl rfl rfl rfl rfl rfl hpub0.nq hpub0.reqs,
          conInv_frame X _ e nd _ pub0 bsW0 s0 [] hcon0 (by simp) rfl rfl rfl⟩
      · simp only [he3, ↓reduceIte] at hC2
        rcases h.edge e P2 C2 hP2 hC2 with ⟨pub0, bsW0, s0, hpub0, hcon0⟩
        exact ⟨pub0, bsW0, s0, pubInv_frame proc X _ e P2 P2 pub0 hpub0 rfl rfl rfl rfl rfl rfl rfl hpub0.nq hpub0.reqs,
          conInv_frame X _ e C2 C2 pub0 bsW0 s0 [] hcon0 (by simp) rfl rfl rfl⟩

theorem good_stepSend (proc : Proc) (L : Nat) (X : LSt) (j : Nat) (t : Int) (h : Good proc L X) :
    Good proc L (lstep (chainTopo L) proc X (.nodeSend j t)) := by
  unfold lstep
  simp only [step, stepSend, logUpd]
  cases hn : X.st.nodes[j]? with
  | none => exact lst_eta proc L X h
  | some nd =>
    simp only
    cases hpend : nd.pending with
    | none => exact lst_eta proc L X h
    | some p =>
      simp only
      have hjL : j < L := by rw [← h.len]; exact (List.getElem?_eq_some_iff.mp hn).1
      by_cases hr : Loop.reachesSender ((chainTopo L).hasOut j) p.res = true
      · simp only [hr, ↓reduceIte]
        have hout : (chainTopo L).hasOut j = true := by
          cases hres : p.res with
          | none => rw [hres] at hr; simp [Loop.reachesSender] at hr
          | dict d => rw [hres] at hr; simpa [Loop.reachesSender] using hr
          | deferred r => rw [hres] at hr; simpa [Loop.reachesSender] using hr
        rw [chain_hasOut] at hout
        have hL : j + 1 < L := by simpa using hout
        have hLn : j + 1 < X.st.nodes.length := by rw [h.len]; exact hL
        have hC : X.st.nodes[j + 1]? = some X.st.nodes[j + 1] := List.getElem?_eq_getElem hLn
        exact good_sendReal proc L X j t nd _ p h hn hpend hC
      · have hr' : Loop.reachesSender ((chainTopo L).hasOut j) p.res = false := by simpa using hr
        simp only [hr', Bool.false_eq_true, ↓reduceIte, sendSkip]
        exact good_sendSkip proc L X j nd p h hn hpend hr'

/-- **the chain invariant holds along every restart-free run** -/
theorem good_lrun (proc : Proc) (hp : ProcNames proc) (L : Nat) : ∀ (evs : List Ev) (X : LSt), Good proc L X →
    (∀ e ∈ evs, isRestart e = false) → Good proc L (lrun (chainTopo L) proc X evs) := by
  intro evs
  induction evs with
  | nil => intro X h _; exact h
  | cons e es ih =>
    intro X h hnr
    apply ih _ _ (fun x hx => hnr x (List.mem_cons_of_mem _ hx))
    cases e with
    | nodeRecv j => exact good_stepRecv proc hp L X j h
    | nodeSend j t => exact good_stepSend proc L X j t h
    | restart j g => have := hnr _ (List.mem_cons_self ..); simp [isRestart] at this

/-! ## the deferred-evaluation clause -/

/-- under the chain invariant: the outcome of the `ZMQSender.send` inside one `MQ.send` of node `j` -/
theorem send_outcome (proc : Proc) (L : Nat) (X : LSt) (j : Nat) (t : Int) (nd C : Node) (p : Pending) (h : Good proc L X)
    (hn : X.st.nodes[j]? = some nd) (hpend : nd.pending = some p) (hC : X.st.nodes[j + 1]? = some C) :
    ∃ P, SendOut P j nd.pub (sendId nd) ((dictOf p.res).map (relabel X.st.tbl.length))
      (Send.send0 nd.pub nd.sendState (payloadOf X.st.tbl.length p.res) false [0] t) := by
  rcases h.edge j nd C hn hC with ⟨pub, bsW, s, hpub, hcon⟩
  have hG := h.node j nd hn
  have hpis : nd.pending.isSome = true := by rw [hpend]; rfl
  have hs : nd.sendState = none ∨ ∃ k', nd.sendState = some (k', 0) := by
    by_cases hj0 : j = 0
    · left; exact (hG.src hj0).2
    · right; exact ⟨_, (hG.relay (by omega) hpis).1⟩
  have hsid0 : 0 ≤ sendId nd := by
    by_cases hj0 : j = 0
    · have : sendId nd = nd.pub.minSendId := by unfold sendId; rw [(hG.src hj0).2]
      rw [this, hpub.minSend]; have := lastId_ge_neg1 pub hpub.inc; omega
    · have ⟨e, h0⟩ := hG.relay (by omega) hpis
      have : sendId nd = nd.con.prevId := by unfold sendId; rw [e]
      rw [this]; exact h0
  have hlast : lastId pub < sendId nd := by
    rcases lastId_mem_or pub with e | ⟨b, hb, e⟩
    · omega
    · rw [e]; exact hpub.strict hpis b hb
  have hout := send0_chain (fun r => r.mid ≤ lastId pub) j nd.pub nd.sendState ((dictOf p.res).map (relabel X.st.tbl.length)) t
    hpub.idle hpub.bal hpub.nq hs (by rw [callId_sendId, hpub.minSend]; omega)
    (by intro q hq x hx; rw [callId_sendId]; have := hpub.reqs q hq x hx; exact ⟨by omega, this⟩)
  rw [callId_sendId] at hout
  exact ⟨_, hout⟩

/-- **C03 (deferred results, network level, chains)**: in every state reachable on a restart-free schedule, for every
`MQ.send` of every node that reaches its sender: the callable handed on by `process()` is called (`Send.Out.evaluated`) ONLY in a
`send` that ends the wait — it either puts the very block on the wire in that same call (`blockWires` of the value, under the
id received) or, if the value is `None`, frees the loop without publishing; a `send` that times out has not called it and
has published nothing but at most a HELLO -/
theorem C03_net_chain_deferred_at_send (proc : Proc) (L : Nat) (X : LSt) (j : Nat) (t : Int) (nd C : Node) (p : Pending)
    (h : Good proc L X) (hn : X.st.nodes[j]? = some nd) (hpend : nd.pending = some p) (hC : X.st.nodes[j + 1]? = some C) :
    (wasEvaluated (Send.send0 nd.pub nd.sendState (payloadOf X.st.tbl.length p.res) false [0] t).2 = true →
        (afterSend nd p (Send.send0 nd.pub nd.sendState (payloadOf X.st.tbl.length p.res) false [0] t)).pending = none ∧
        ∀ d, dictOf p.res = some d →
          (Send.send0 nd.pub nd.sendState (payloadOf X.st.tbl.length p.res) false [0] t).2.filterMap (wireOf j) =
            blockWires j (sendId nd) (relabel X.st.tbl.length d)) ∧
    (wasEvaluated (Send.send0 nd.pub nd.sendState (payloadOf X.st.tbl.length p.res) false [0] t).2 = false →
        (afterSend nd p (Send.send0 nd.pub nd.sendState (payloadOf X.st.tbl.length p.res) false [0] t)).pending = some p ∧
        Hellos j ((Send.send0 nd.pub nd.sendState (payloadOf X.st.tbl.length p.res) false [0] t).2.filterMap (wireOf j))) := by
  rcases send_outcome proc L X j t nd C p h hn hpend hC with ⟨P, hout⟩
  generalize Send.send0 nd.pub nd.sendState (payloadOf X.st.tbl.length p.res) false [0] t = r at hout
  rcases hout with ⟨_, _, _, _, hcase⟩
  rcases hcase with ⟨_, m2, m3, m4⟩ | ⟨hrn, _, m2, m3, _⟩ | ⟨ts, hrs, _, m2, m3, m4⟩
  · refine ⟨fun hc => (by rw [m3] at hc; cases hc), fun _ => ⟨?_, m4⟩⟩
    unfold afterSend; rw [m2]; exact hpend
  · refine ⟨fun _ => ⟨?_, ?_⟩, fun hc => (by rw [m3] at hc; cases hc)⟩
    · unfold afterSend; rw [m2]
    · intro d hd; rw [hd] at hrn; cases hrn
  · refine ⟨fun _ => ⟨?_, ?_⟩, fun hc => (by rw [m3] at hc; cases hc)⟩
    · unfold afterSend; rw [m2]
    · intro d hd
      rw [hd] at hrs
      simp only [Option.map_some, Option.some.injEq] at hrs
      rw [m4, ← hrs]

/-! ## the theorem -/

/-- frames the source has produced so far -/
def srcCount (X : LSt) : Nat := ((X.st.nodes[0]?).map (·.count)).getD 0

theorem prefix_map_visB (a b : List HSet) (h : a <+: b) : a.map visB <+: b.map visB := by
  rcases h with ⟨t, rfl⟩
  rw [List.map_append]; exact List.prefix_append _ _

/-- under the invariant: what node `i` has produced is a prefix of its specified output stream, and what node `i+1` has been
handed is a prefix of its specified input stream -/
theorem good_prefix (proc : Proc) (L : Nat) (X : LSt) (h : Good proc L X) :
    ∀ (i : Nat) (nd : Node), X.st.nodes[i]? = some nd → i + 1 < L →
      prodOf proc X i nd <+: outsSpec proc (srcCount X) i ∧ X.log (i + 1) <+: handedSpec proc (i + 1) (srcCount X) := by
  intro i
  induction i with
  | zero =>
    intro nd hn hL
    have hsc : srcCount X = nd.count := by unfold srcCount; rw [hn]; rfl
    have hprod : prodOf proc X 0 nd <+: outsSpec proc (srcCount X) 0 := by
      simp only [prodOf, ↓reduceIte, outsSpec, hsc]
      exact List.prefix_refl _
    refine ⟨hprod, ?_⟩
    have hLn : 0 + 1 < X.st.nodes.length := by rw [h.len]; exact hL
    rcases h.edge 0 nd _ hn (List.getElem?_eq_getElem hLn) with ⟨pub, bsW, s, hpub, hcon⟩
    rw [hcon.handed]
    simp only [handedSpec]
    apply prefix_map_visB
    refine List.IsPrefix.trans (List.take_prefix _ _) (List.IsPrefix.trans ?_ hprod)
    rw [hpub.prod]; exact List.prefix_append _ _
  | succ i ih =>
    intro nd hn hL
    have hiL : i < X.st.nodes.length := by rw [h.len]; omega
    have ⟨_, hlog⟩ := ih _ (List.getElem?_eq_getElem hiL) (by omega)
    have hprod : prodOf proc X (i + 1) nd <+: outsSpec proc (srcCount X) (i + 1) := by
      have hne : ¬ i + 1 = 0 := by omega
      simp only [prodOf, hne, ↓reduceIte, outsSpec]
      exact throughFrom_prefix proc (i + 1) _ _ hlog
    refine ⟨hprod, ?_⟩
    have hLn : i + 1 + 1 < X.st.nodes.length := by rw [h.len]; exact hL
    rcases h.edge (i + 1) nd _ hn (List.getElem?_eq_getElem hLn) with ⟨pub, bsW, s, hpub, hcon⟩
    rw [hcon.handed]
    simp only [handedSpec]
    apply prefix_map_visB
    refine List.IsPrefix.trans (List.take_prefix _ _) (List.IsPrefix.trans ?_ hprod)
    rw [hpub.prod]; exact List.prefix_append _ _

/-- **C03, stage C, chains (`nothing lost, from the very first frame on`)**: for every chain length `L`, every process-function
family with dict-like results (`ProcNames`), every restart-free schedule `evs` of `nodeRecv | nodeSend @t` events (no bound, any
clock readings), for every node `i ≥ 1`: the sequence of `(id, [(topic, content)])` sets its `process()` has been called with along
the run is a PREFIX of `handedSpec proc i N` — the source's frames `0 … N-1` (`N` = how many the source has produced) threaded
through `proc 0 … proc (i-1)` with the normalisation of `Filter.process_frames` (`None` drops the frame for everything downstream,
`{}` arrives as an empty set, a lone frame as topic `main`, a callable's value is what it returns when called), hidden topics
removed, under the source's consecutive ids of the surviving frames.  Nothing is lost, duplicated, reordered or altered. -/
theorem C03_net_chain_composition (proc : Proc) (hp : ProcNames proc) (L : Nat) (evs : List Ev)
    (hnr : ∀ e ∈ evs, isRestart e = false) (i : Nat) (hi : 1 ≤ i) (hiL : i < L) :
    (lrun (chainTopo L) proc (linit (chainTopo L)) evs).log i <+:
      handedSpec proc i (srcCount (lrun (chainTopo L) proc (linit (chainTopo L)) evs)) := by
  have hg := good_lrun proc hp L evs _ (good_init proc L) hnr
  cases i with
  | zero => omega
  | succ i =>
    have hlen : i < (lrun (chainTopo L) proc (linit (chainTopo L)) evs).st.nodes.length := by rw [hg.len]; omega
    exact (good_prefix proc L _ hg i _ (List.getElem?_eq_getElem hlen) hiL).2

/-! ### the log is what the observations of `Net.run` show -/

def contentsOf (x : Int × List HFrame) : HSet := (x.1, x.2.map fun f => (f.topic, f.content))

theorem lrun_st (tp : Topo) (proc : Proc) : ∀ (evs : List Ev) (X : LSt), (lrun tp proc X evs).st = (run tp proc X.st evs).1 := by
  intro evs
  induction evs with
  | nil => intro X; rfl
  | cons e es ih => intro X; simp only [lrun, run]; rw [ih]; rfl

theorem lrun_log (tp : Topo) (proc : Proc) (i : Nat) : ∀ (evs : List Ev) (X : LSt),
    (lrun tp proc X evs).log i = X.log i ++ (handedTo i evs (run tp proc X.st evs).2).map contentsOf := by
  intro evs
  induction evs with
  | nil => intro X; simp [lrun, run, handedTo]
  | cons e es ih =>
    intro X
    simp only [lrun, run]
    rw [ih]
    simp only [lstep]
    cases e with
    | nodeRecv j =>
      cases hobs : (step tp proc X.st (.nodeRecv j)).2 with
      | rcvd outs id handed =>
        cases id with
        | none => simp [logUpd, handedTo]
        | some k =>
          cases handed with
          | none => simp [logUpd, handedTo]
          | some fs =>
            simp only [logUpd, handedTo]
            by_cases hji : j = i
            · subst hji; simp [contentsOf]
            · have : ¬ i = j := fun e => hji e.symm
              simp [hji, this]
      | noop => simp [logUpd, handedTo]
      | sent outs => simp [logUpd, handedTo]
      | restarted => simp [logUpd, handedTo]
    | nodeSend j t => simp [logUpd, handedTo]
    | restart j g => simp [logUpd, handedTo]

/-- `C03_net_chain_composition` on the observations of the model's own `run` -/
theorem C03_net_chain_composition_run (proc : Proc) (hp : ProcNames proc) (L : Nat) (evs : List Ev)
    (hnr : ∀ e ∈ evs, isRestart e = false) (i : Nat) (hi : 1 ≤ i) (hiL : i < L) :
    (handedTo i evs (run (chainTopo L) proc (init (chainTopo L)) evs).2).map contentsOf <+:
      handedSpec proc i ((((run (chainTopo L) proc (init (chainTopo L)) evs).1.nodes[0]?).map (·.count)).getD 0) := by
  have := C03_net_chain_composition proc hp L evs hnr i hi hiL
  rw [lrun_log] at this
  simp only [linit, List.nil_append] at this
  unfold srcCount at this
  rw [lrun_st] at this
  exact this

/-! ### non-vacuity -/

/-- source: `{main: 10 n, _h: n}`; relay: returns `None` for its second set, a CALLABLE for its third (each payload + 1), a lone
frame (the sum) otherwise; sink -/
def cProc : Proc := fun i n h =>
  match i with
  | 0 => .now (.dict [("main", n * 10), ("_h", n)])
  | 1 => if n = 1 then .now .none else if n = 2 then .later (.dict (h.map fun p => (p.1, p.2 + 1))) else .now (.frame (h.map (·.2)).sum)
  | _ => .now .none

def cRound (t : Int) : List Ev := [.nodeRecv 0, .nodeSend 0 t, .nodeRecv 1, .nodeSend 1 t, .nodeRecv 2, .nodeSend 2 t]

def cSched : List Ev :=
  cRound 1100 ++ cRound 1200 ++ cRound 1300 ++ cRound 1400 ++ cRound 1500 ++ cRound 1600 ++ cRound 1700 ++ cRound 1800

theorem cProc_names : ProcNames cProc := by
  intro i n h d hh hd
  unfold cProc at hd
  split at hd
  · simp only [Loop.processFrames, Loop.normPlain, dictOf, Option.some.injEq] at hd
    subst hd
    refine ⟨by simp only [List.map_cons, List.map_nil]; decide, ?_⟩
    intro x hx
    simp only [List.mem_cons, List.mem_nil_iff, or_false] at hx
    rcases hx with rfl | rfl
    · exact (by decide : ("main" : String) ≠ "")
    · exact (by decide : ("_h" : String) ≠ "")
  · split at hd
    · simp [Loop.processFrames, Loop.normPlain, dictOf] at hd
    · split at hd
      · simp only [Loop.processFrames, Loop.normPlain, dictOf, Option.some.injEq] at hd
        subst hd
        refine ⟨?_, ?_⟩
        · rw [List.map_map]
          have : ((fun x : Topic × Nat => x.1) ∘ fun p : Topic × Nat => (p.1, p.2 + 1)) = fun x => x.1 := by funext x; rfl
          rw [this]; exact hh.1
        · intro x hx
          rw [List.mem_map] at hx
          rcases hx with ⟨y, hy, rfl⟩
          exact hh.2 y hy
      · simp only [Loop.processFrames, Loop.normPlain, dictOf, Option.some.injEq] at hd
        subst hd
        refine ⟨by simp, ?_⟩
        intro x hx
        simp only [List.mem_singleton] at hx
        subst hx
        exact (by decide : ("main" : String) ≠ "")
  · simp [Loop.processFrames, Loop.normPlain, dictOf] at hd

/-- 48 events on `source → relay → sink`: the source has produced frames 0 … 4; the sink has been handed ids 0, 2, 3, 4 — id 1 was
dropped by the relay (`None`), id 2 carries the value of the callable, ids 3 and 4 arrive as topic `main` (lone frame), the hidden
topic `_h` never arrives: exactly the composition -/
example : (lrun (chainTopo 3) cProc (linit (chainTopo 3)) cSched).log 2 =
      [(0, [("main", 0)]), (2, [("main", 21)]), (3, [("main", 30)]), (4, [("main", 40)])] ∧
    srcCount (lrun (chainTopo 3) cProc (linit (chainTopo 3)) cSched) = 5 ∧
    handedSpec cProc 2 5 = [(0, [("main", 0)]), (2, [("main", 21)]), (3, [("main", 30)]), (4, [("main", 40)])] := by
  decide +kernel

end OF.Net
