import OFProps.SendLemmas
/-!
# C02 (sender half) — ids published by one sender incarnation strictly increase

For **every** sequence of sender events (any request history: duplicated, stale, ahead-of-time,
restarted clients; any `state` arguments, any time-outs): all wire messages published by one event
carry one id, and messages published by a later event carry a strictly larger id.  With
`C02_strict_order` (receiver) no frame set is delivered twice or out of order.
-/
namespace OF.Send

/-- outputs event by event -/
def trace (st : St) : List Ev → List (List Out)
  | [] => []
  | e :: es => (step st e).2 :: trace (step st e).1 es

theorem trace_lower (evs : List Ev) : ∀ (st : St), SInv st →
    ∀ a ∈ trace st evs, ∀ x ∈ pubMids a, st.minSendId ≤ x := by
  induction evs with
  | nil => intro st _ a ha; cases ha
  | cons e es ih =>
    intro st h a ha x hx
    have ⟨h1, h2, h3, _⟩ := step_pub st e h
    unfold trace at ha
    rcases List.mem_cons.mp ha with rfl | ha'
    · exact (h3 x hx).1
    · have := ih _ h1 a ha' x hx; omega

/-- **C02 (sender ids increase)** -/
theorem C02_sender_ids_increasing (evs : List Ev) : ∀ (st : St), SInv st →
    (trace st evs).Pairwise (fun a b => ∀ x ∈ pubMids a, ∀ y ∈ pubMids b, x < y) ∧
    ∀ a ∈ trace st evs, ∀ x ∈ pubMids a, ∀ y ∈ pubMids a, x = y := by
  induction evs with
  | nil => intro st _; exact ⟨List.Pairwise.nil, by intro a ha; cases ha⟩
  | cons e es ih =>
    intro st h
    have ⟨h1, _, h3, h4⟩ := step_pub st e h
    have ⟨i1, i2⟩ := ih _ h1
    unfold trace
    constructor
    · rw [List.pairwise_cons]
      refine ⟨?_, i1⟩
      intro b hb x hx y hy
      have := (h3 x hx).2
      have := trace_lower es _ h1 b hb y hy
      omega
    · intro a ha
      rcases List.mem_cons.mp ha with rfl | ha'
      · exact h4
      · exact i2 a ha'

theorem mkSt_SInv (nOut : Nat) (balance : Bool) (required : List String) : SInv (mkSt nOut balance required) := by
  intro h; cases h

/-- non-vacuity: two publishes, ids 0 then 1 (a duplicated stale request counts as a request: the second publish
happens on it; the call is then over, so the later events publish nothing) -/
example : (trace (mkSt 1 false [])
    [.deliver 0 ⟨"A", "u", -1, 0, false, 0⟩, .begin none (.topics [("main", 7)]) false, .handle 0 1000, .trySend,
     .deliver 0 ⟨"A", "u", -1, 0, false, 0⟩, .deliver 0 ⟨"A", "u", 0, 0, false, 0⟩,
     .begin none (.topics [("main", 8)]) false, .handle 0 1001, .trySend, .handle 0 1002, .trySend]).map pubMids =
    [[], [], [], [0, 0], [], [], [], [], [1, 1], [], []] := by decide +kernel

end OF.Send
