import OFModel.Zmq.NetLossy
import OFProps.C01Net
import OFProps.NetLossyInv
set_option linter.unusedSimpArgs false
/-!
# C01 at network level under loss and duplication (`OFModel/Zmq/NetLossy.lean`)

The network theorems of `C01Net.lean`, now for EVERY lossy schedule: any interleaving of `nodeRecv | nodeSend @t | restart`
with `dropWire i j k` (a queued PUB→SUB message disappears — at any moment before its consumer polls it, so late loss and
"still in flight" are covered), `dropReq p k` (a queued request disappears) and `dupReq p k` (a queued request is doubled), no bound
on the number of faults, no fairness:

* `C01_netl_inv_reachable` — `NetInv` in every lossy-reachable state (`netInv_lstep`, `NetLossyInv.lean`: the three fault events
  preserve every clause — the delivery history of `Prov` records what was delivered, not what is still queued; `NodeInv` says
  nothing about the contents of PULL queues);
* `C01_netl_wire_origin`, `C01_netl_provenance`, `C01_netl_provenance_single` — the statements of `C01_net_wire_origin`,
  `C01_net_provenance`, `C01_net_provenance_single` over `ReachableL`: whatever is lost or doubled, every set handed to any node's
  `process()` under id `k` consists of frames with id `k` that descend only from source frames published under id `k`;
* `C01_netl_provenance_single_exact` — … and if the SOURCE is never restarted: every origin is exactly `(s0, 0, k)`;
* `C01_netl_ids_increasing` — while a node is not restarted the ids it publishes strictly increase, also when its requests are
  lost or doubled.

NOT claimed under loss: completeness (C03: every published set is handed on) — see `exLossSkip` below: the set of id 0 is never
handed once one of its messages is lost; the receiver moves on to id 1.  What C01 promises survives: no partial set, no mixed set.
-/
namespace OF.Net.Lossy
open OF.Recv (Src Wire Msg Recvd Topic)

/-- **C01 (network invariant, lossy network)**: in every state reachable by any lossy schedule -/
theorem C01_netl_inv_reachable (tp : Topo) (proc : Proc) (hp : ProcOK proc) (st : St) (hr : ReachableL tp proc st) :
    NetInv tp st := by
  induction hr with
  | init => exact netInv_init tp
  | step e _ ih => exact netInv_lstep tp proc hp _ e ih

/-- **C01 (the invariant behind provenance, lossy network)**: every wire message still queued anywhere descends only from
source frames that were published under its own message id -/
theorem C01_netl_wire_origin (tp : Topo) (proc : Proc) (hp : ProcOK proc) (st : St) (hr : ReachableL tp proc st)
    (i : Nat) (nd : Node) (j : Nat) (s : Src) (w : Wire)
    (hn : st.nodes[i]? = some nd) (hs : nd.con.srcs[j]? = some s) (hw : w ∈ s.queue) :
    ∀ o ∈ originOf st.tbl w.body, o.mid = w.mid ∧ o.node < tp.n ∧ tp.upsOf o.node = [] := by
  have hinv := C01_netl_inv_reachable tp proc hp st hr
  rcases (hinv.nodes i nd hn).hist with ⟨hist, h1, h2⟩
  exact (h2 j w ((h1.prov j s hs).1 w hw)).2.2.1

/-- **C01 (provenance across filters, lossy network)**: every topology, every process-function family, every schedule of node
events, restarts, wire losses, request losses and request duplications, every reachable state: whenever `MQ.recv` of any node
returns a set under id `k` and hands it to `process()`, (a) every frame of the set was published under id `k`, and (b) every frame
descends only from frames that *source* nodes published under id `k` -/
theorem C01_netl_provenance (tp : Topo) (proc : Proc) (hp : ProcOK proc) (st : St) (hr : ReachableL tp proc st)
    (i : Nat) (outs : List Recv.Out) (k : Int) (frames : List HFrame)
    (h : (lstep tp proc st (.base (.nodeRecv i))).2 = .rcvd outs (some k) (some frames)) :
    ∀ f ∈ frames, f.mid = k ∧ ∀ o ∈ f.orig, o.mid = k ∧ o.node < tp.n ∧ tp.upsOf o.node = [] := by
  have hinv := C01_netl_inv_reachable tp proc hp st hr
  rcases handed_spec tp proc hp st hinv i outs k frames h with ⟨data, rfl, hset⟩
  intro f hf
  rw [List.mem_map] at hf
  rcases hf with ⟨p, hpd, rfl⟩
  exact ⟨(hset p hpd).1, (hset p hpd).2.1⟩

/-- **C01 (split and rejoin, lossy network)**: below a single source `s0` every set handed to any node under id `k` consists of
frames with id `k`, each of which descends from the frame `s0` published under id `k` and from nothing else -/
theorem C01_netl_provenance_single (tp : Topo) (s0 : Nat) (hs : SingleSource tp s0) (proc : Proc) (hp : ProcOK proc) (st : St)
    (hr : ReachableL tp proc st) (i : Nat) (outs : List Recv.Out) (k : Int) (frames : List HFrame)
    (h : (lstep tp proc st (.base (.nodeRecv i))).2 = .rcvd outs (some k) (some frames)) :
    ∀ f ∈ frames, f.mid = k ∧ ∀ o ∈ f.orig, o.node = s0 ∧ o.mid = k := by
  intro f hf
  have ⟨e1, e2⟩ := C01_netl_provenance tp proc hp st hr i outs k frames h f hf
  exact ⟨e1, fun o ho => ⟨hs o.node (e2 o ho).2.1 (e2 o ho).2.2, (e2 o ho).1⟩⟩

/-! ## lossy histories in which no SOURCE restarts -/

/-- is this a restart of a node without upstreams? -/
def restartsSource (tp : Topo) : LEv → Prop
  | .base (.restart i _) => tp.upsOf i = []
  | _ => False

/-- states reachable by lossy schedules in which only nodes WITH upstreams are ever restarted -/
inductive ReachableLNSR (tp : Topo) (proc : Proc) : St → Prop
  | init : ReachableLNSR tp proc (init tp)
  | step {st : St} (e : LEv) : ¬ restartsSource tp e → ReachableLNSR tp proc st → ReachableLNSR tp proc (lstep tp proc st e).1

theorem reachableLNSR_reachableL (tp : Topo) (proc : Proc) (st : St) (h : ReachableLNSR tp proc st) : ReachableL tp proc st := by
  induction h with
  | init => exact .init
  | step e _ _ ih => exact ReachableL.step e ih

theorem nodesGZ_mapAt (nodes : List Node) (i : Nat) (f : Node → Node)
    (h : ∀ (u : Nat) (nd : Node), nodes[u]? = some nd → NodeGZ nd) (hf : ∀ nd, NodeGZ nd → NodeGZ (f nd)) :
    ∀ (u : Nat) (nd : Node), (nodes.mapIdx fun a nd => if a = i then f nd else nd)[u]? = some nd → NodeGZ nd := by
  intro u nd hu
  rw [mapAt_get] at hu
  cases hn : nodes[u]? with
  | none => rw [hn] at hu; cases hu
  | some nd0 =>
    rw [hn] at hu; simp only [Option.map_some, Option.some.injEq] at hu
    by_cases hui : u = i
    · simp only [hui, ↓reduceIte] at hu; subst hu; exact hf nd0 (h u nd0 hn)
    · simp only [hui, ↓reduceIte] at hu; subst hu; exact h u nd0 hn

theorem genZero_lstep (tp : Topo) (proc : Proc) (st : St) (e : LEv) (hns : ¬ restartsSource tp e) (h : GenZero st) :
    GenZero (lstep tp proc st e).1 := by
  cases e with
  | base e =>
    cases e with
    | nodeRecv i => exact genZero_stepRecv tp proc st i h
    | nodeSend i t => exact genZero_stepSend tp st i t h
    | restart i g => exact genZero_stepRestart tp st i g hns h
  | dropWire i j k =>
    refine ⟨?_, h.tbl⟩
    apply nodesGZ_mapAt _ _ _ h.nodes
    intro nd hnd
    refine ⟨?_, hnd.2⟩
    intro he
    simp only at he
    rw [isEmpty_of_ephs _ _ (dropWireCon_ephs nd.con j k)] at he
    exact hnd.1 he
  | dropReq p k =>
    refine ⟨?_, h.tbl⟩
    apply nodesGZ_mapAt _ _ _ h.nodes
    intro nd hnd; exact hnd
  | dupReq p k =>
    refine ⟨?_, h.tbl⟩
    apply nodesGZ_mapAt _ _ _ h.nodes
    intro nd hnd; exact hnd

theorem genZero_reachableLNSR (tp : Topo) (proc : Proc) (st : St) (h : ReachableLNSR tp proc st) : GenZero st := by
  induction h with
  | init => exact genZero_reachableNSR tp proc _ .init
  | step e hns _ ih => exact genZero_lstep tp proc _ e hns ih

/-- **C01 (split and rejoin, exact, lossy network)**: below a single source `s0`, on every lossy schedule in which the SOURCE is
never restarted (every other node may crash and restart, any message or request may be lost, any request doubled), every frame of
every set handed to any node under id `k` descends from exactly ONE original frame, the same for the whole set: `(s0, 0, k)` -/
theorem C01_netl_provenance_single_exact (tp : Topo) (s0 : Nat) (hs : SingleSource tp s0) (proc : Proc) (hp : ProcOK proc)
    (st : St) (hr : ReachableLNSR tp proc st) (i : Nat) (outs : List Recv.Out) (k : Int) (frames : List HFrame)
    (h : (lstep tp proc st (.base (.nodeRecv i))).2 = .rcvd outs (some k) (some frames)) :
    ∀ f ∈ frames, f.mid = k ∧ ∀ o ∈ f.orig, o = { node := s0, gen := 0, mid := k } := by
  have hr' := reachableLNSR_reachableL tp proc st hr
  have hinv := C01_netl_inv_reachable tp proc hp st hr'
  have hz := genZero_reachableLNSR tp proc st hr
  rcases handed_spec tp proc hp st hinv i outs k frames h with ⟨data, rfl, hset⟩
  intro f hf
  rw [List.mem_map] at hf
  rcases hf with ⟨p, hpd, rfl⟩
  have ⟨e1, e2, _⟩ := hset p hpd
  refine ⟨e1, ?_⟩
  intro o ho
  have ⟨a, b, c⟩ := e2 o ho
  rcases originOf_mem st.tbl _ o ho with ⟨e, he, hoe⟩
  have g := hz.tbl e he o hoe
  rcases o with ⟨n, g', m⟩
  simp only at a b c g
  subst a g
  rw [hs n b c]

/-! ## one incarnation of a node publishes an id at most once — also when its requests are lost or doubled -/

def pubsAtL (i : Nat) : LEv → Obs → List Int
  | .base e, o => pubsAt i e o
  | _, _ => []

def isRestartOfL (i : Nat) : LEv → Bool
  | .base e => isRestartOf i e
  | _ => false

theorem msOf_mapAt (nodes : List Node) (j : Nat) (f : Node → Node) (i : Nat) (hf : ∀ nd, (f nd).pub.minSendId = nd.pub.minSendId) :
    msOf (nodes.mapIdx fun a nd => if a = j then f nd else nd) i = msOf nodes i := by
  unfold msOf
  rw [mapAt_get]
  cases nodes[i]? with
  | none => rfl
  | some nd =>
    simp only [Option.map_some, Option.getD_some]
    split
    · exact hf nd
    · rfl

theorem lstep_ids (tp : Topo) (proc : Proc) (st : St) (i : Nat) (e : LEv) (hinv : NetInv tp st) (hne : isRestartOfL i e = false) :
    msOf st.nodes i ≤ msOf (lstep tp proc st e).1.nodes i ∧
    ∀ x ∈ pubsAtL i e (lstep tp proc st e).2, msOf st.nodes i ≤ x ∧ x < msOf (lstep tp proc st e).1.nodes i := by
  cases e with
  | base e => exact step_ids tp proc st i e hinv hne
  | dropWire a j k =>
    refine ⟨?_, by intro x hx; cases hx⟩
    simp only [lstep, dropWire]
    exact Int.le_of_eq (msOf_mapAt st.nodes a (fun nd => { nd with con := dropWireCon nd.con j k }) i (fun _ => rfl)).symm
  | dropReq p k =>
    refine ⟨?_, by intro x hx; cases hx⟩
    simp only [lstep, dropReq]
    exact Int.le_of_eq (msOf_mapAt st.nodes p (fun nd => { nd with pub := dropReqPub nd.pub k }) i (fun _ => rfl)).symm
  | dupReq p k =>
    refine ⟨?_, by intro x hx; cases hx⟩
    simp only [lstep, dupReq]
    exact Int.le_of_eq (msOf_mapAt st.nodes p (fun nd => { nd with pub := dupReqPub nd.pub k }) i (fun _ => rfl)).symm

/-- what node `i` publishes, event by event, along a lossy schedule -/
def pubTraceL (tp : Topo) (proc : Proc) (i : Nat) (st : St) : List LEv → List (List Int)
  | [] => []
  | e :: es => pubsAtL i e (lstep tp proc st e).2 :: pubTraceL tp proc i (lstep tp proc st e).1 es

theorem pubTraceL_lower (tp : Topo) (proc : Proc) (hp : ProcOK proc) (i : Nat) : ∀ (evs : List LEv) (st : St), NetInv tp st →
    (∀ e ∈ evs, isRestartOfL i e = false) → ∀ a ∈ pubTraceL tp proc i st evs, ∀ x ∈ a, msOf st.nodes i ≤ x := by
  intro evs
  induction evs with
  | nil => intro st _ _ a ha; cases ha
  | cons e es ih =>
    intro st hinv hnr a ha x hx
    have ⟨h1, h2⟩ := lstep_ids tp proc st i e hinv (hnr e (List.mem_cons_self ..))
    unfold pubTraceL at ha
    rcases List.mem_cons.mp ha with rfl | ha'
    · exact (h2 x hx).1
    · have := ih _ (netInv_lstep tp proc hp st e hinv) (fun y hy => hnr y (List.mem_cons_of_mem _ hy)) a ha' x hx
      omega

/-- **C01 (one id, one block, lossy network)**: over any lossy schedule, from any state satisfying the network invariant (every
lossy-reachable state), as long as node `i` is not restarted the ids it publishes in different `send` events strictly increase —
whatever happens to the requests it is sent (lost, doubled) -/
theorem C01_netl_ids_increasing (tp : Topo) (proc : Proc) (hp : ProcOK proc) (i : Nat) : ∀ (evs : List LEv) (st : St), NetInv tp st →
    (∀ e ∈ evs, isRestartOfL i e = false) →
    (pubTraceL tp proc i st evs).Pairwise (fun a b => ∀ x ∈ a, ∀ y ∈ b, x < y) := by
  intro evs
  induction evs with
  | nil => intro st _ _; exact List.Pairwise.nil
  | cons e es ih =>
    intro st hinv hnr
    have ⟨h1, h2⟩ := lstep_ids tp proc st i e hinv (hnr e (List.mem_cons_self ..))
    have hinv' := netInv_lstep tp proc hp st e hinv
    have hnr' : ∀ y ∈ es, isRestartOfL i y = false := fun y hy => hnr y (List.mem_cons_of_mem _ hy)
    unfold pubTraceL
    rw [List.pairwise_cons]
    refine ⟨?_, ih _ hinv' hnr'⟩
    intro b hb x hx y hy
    have := (h2 x hx).2
    have := pubTraceL_lower tp proc hp i es _ hinv' hnr' b hb y hy
    omega

/-! ## non-vacuity: a lossy run in which sets are still handed; what loss does to completeness -/

/-- chain: source 0 → relay 1 → sink 2 -/
def exlTopo : Topo := { ups := [[], [0], [1]] }

/-- the source publishes TWO topics per set (`main`, `aux`): three wire messages per set (`/main/`, `/aux/`, heartbeat `//`);
the relay passes its input on; the sink consumes -/
def exlProc : Proc := fun i n h =>
  match i with
  | 0 => .now (.dict [("main", n * 10), ("aux", n * 10 + 1)])
  | 1 => .now (.dict h)
  | _ => .now .none

theorem exlProc_ok : ProcOK exlProc := by
  intro i n h d hh hd p hp
  unfold exlProc at hd
  split at hd
  · simp only [Loop.processFrames, Loop.normPlain, dictOf, Option.some.injEq] at hd
    subst hd
    simp only [List.mem_cons, List.not_mem_nil, or_false] at hp
    rcases hp with rfl | rfl
    · exact (by decide : ("main" : String) ≠ "")
    · exact (by decide : ("aux" : String) ≠ "")
  · simp only [Loop.processFrames, Loop.normPlain, dictOf, Option.some.injEq] at hd
    subst hd; exact hh p hp
  · simp [Loop.processFrames, Loop.normPlain, dictOf] at hd

def exlRound (t : Int) : List LEv :=
  [.base (.nodeRecv 0), .base (.nodeSend 0 t), .base (.nodeRecv 1), .base (.nodeSend 1 t), .base (.nodeRecv 2), .base (.nodeSend 2 t)]

/-- two rounds of handshakes; the source publishes its first set (id 0: `/main/`, `/aux/`, `//`); the `/aux/` message — the MIDDLE of
the set — is lost on its way to the relay; later a request queued at the source is doubled, and another one is lost -/
def exLossy : List LEv :=
  exlRound 1100 ++ exlRound 1200 ++ [.base (.nodeRecv 0), .base (.nodeSend 0 1300), .dropWire 1 0 1,
    .base (.nodeRecv 1), .base (.nodeSend 1 1300), .base (.nodeRecv 2), .base (.nodeSend 2 1300), .dupReq 0 0] ++
  exlRound 1400 ++ [.dropReq 0 0] ++ exlRound 1500 ++ exlRound 1600 ++ exlRound 1700

/-- the same schedule without the three faults -/
def exLossFree : List LEv :=
  exlRound 1100 ++ exlRound 1200 ++ exlRound 1300 ++ exlRound 1400 ++ exlRound 1500 ++ exlRound 1600 ++ exlRound 1700

/-- the sets handed to node `i` along a lossy run -/
def handedToL (i : Nat) : List LEv → List Obs → List (Int × List HFrame)
  | .base (.nodeRecv j) :: es, .rcvd _ (some k) (some fs) :: os => if j = i then (k, fs) :: handedToL i es os else handedToL i es os
  | _ :: es, _ :: os => handedToL i es os
  | _, _ => []

/-- 45 events, three of them faults: sets are still handed — the relay gets the complete sets of ids 1 and 2, both frames of each
descending from the source frame published under that id (`C01_netl_provenance`, `…_single_exact`); so does the sink … -/
example : handedToL 1 exLossy (lrun exlTopo exlProc (init exlTopo) exLossy).2 =
    [(1, [⟨"main", 1, 10, [⟨0, 0, 1⟩]⟩, ⟨"aux", 1, 11, [⟨0, 0, 1⟩]⟩]),
     (2, [⟨"main", 2, 20, [⟨0, 0, 2⟩]⟩, ⟨"aux", 2, 21, [⟨0, 0, 2⟩]⟩])] ∧
    (handedToL 2 exLossy (lrun exlTopo exlProc (init exlTopo) exLossy).2).map (fun r => (r.1, r.2.map fun f => (f.topic, f.mid, f.content))) =
    [(1, [("main", 1, 10), ("aux", 1, 11)]), (2, [("main", 2, 20), ("aux", 2, 21)])] := by decide +kernel

/-- … **but the set of id 0 is never handed to anybody** (`exLossSkip`): the relay holds `main` of id 0, waits for `aux`, and moves on
when id 1 arrives — never a partial set (C01), but a published set is lost for good: completeness (C03) is NOT claimed under loss.
Without the faults the same schedule hands the sink ids 0, 1, 2, 3. -/
example : (handedToL 1 exLossy (lrun exlTopo exlProc (init exlTopo) exLossy).2).map (·.1) = [1, 2] ∧
    (handedToL 2 exLossFree (lrun exlTopo exlProc (init exlTopo) exLossFree).2).map (·.1) = [0, 1, 2, 3] := by decide +kernel

/-- the hypotheses of the theorems are satisfiable for this run: one source, which is never restarted -/
theorem exlTopo_single : SingleSource exlTopo 0 := by
  intro i hi hu
  have : i < 3 := hi
  match i, this with
  | 0, _ => rfl
  | 1, _ => simp [Topo.upsOf, exlTopo] at hu
  | 2, _ => simp [Topo.upsOf, exlTopo] at hu

/-- **`ReachableLNSR` (no restart of the source) is needed for `C01_netl_provenance_single_exact`**: the loss-free schedule `exMixed`
of `C01Net.lean` (source AND a branch crash-restart; known finding `net-mixed-incarnation`) is a lossy schedule too — the join is handed
`{a: (S#0, id 0), b: (S#1, id 0)}`.  `C01_netl_provenance` still holds (both origins carry id 0). -/
example : handedToL 3 (exMixed.map LEv.base) (lrun exTopo exProc (init exTopo) (exMixed.map LEv.base)).2 =
    [(0, [⟨"a", 0, 0, [⟨0, 0, 0⟩]⟩, ⟨"b", 0, 0, [⟨0, 1, 0⟩]⟩])] := by decide +kernel

end OF.Net.Lossy
