import OFModel.FacetNames
/-!
# Helper lemmas for `C18Facet.lean`: characters, keywords, the candidates `base_n`, the `taken` loop, the fold
-/
namespace OF.FacetNames

/-! ## characters -/

/-- the characters of an ASCII identifier -/
def okChar (c : Char) : Bool := c.isAlphanum || c == '_'

theorem sanitizeChar_ok (c : Char) : okChar (sanitizeChar c) = true := by
  unfold sanitizeChar okChar
  split
  · assumption
  · decide

theorem sanitizeChar_id (c : Char) (h : okChar c = true) : sanitizeChar c = c := by
  unfold sanitizeChar
  unfold okChar at h
  simp only [h, ↓reduceIte]

theorem map_sanitize_id (k : Key) (h : k.all okChar = true) : k.map sanitizeChar = k := by
  induction k with
  | nil => rfl
  | cons c r ih =>
    simp only [List.all_cons, Bool.and_eq_true] at h
    simp only [List.map_cons, sanitizeChar_id c h.1, ih h.2]

theorem map_sanitize_ok (k : Key) : (k.map sanitizeChar).all okChar = true := by
  induction k with
  | nil => rfl
  | cons c r ih => simp only [List.map_cons, List.all_cons, sanitizeChar_ok, ih, Bool.and_self]

theorem isDigit_ok (c : Char) (h : c.isDigit = true) : okChar c = true := by
  unfold okChar Char.isAlphanum
  simp only [h, Bool.or_true, Bool.true_or]

theorem underscore_not_alpha : Char.isAlpha '_' = false := by decide

theorem underscore_not_digit : Char.isDigit '_' = false := by decide

theorem underscore_ok : okChar '_' = true := by decide

theorem isAlpha_ok (c : Char) (h : c.isAlpha = true) : okChar c = true := by
  unfold okChar Char.isAlphanum
  simp only [h, Bool.true_or]

theorem isAlpha_not_digit (c : Char) (h : c.isAlpha = true) : c.isDigit = false := by
  unfold Char.isAlpha Char.isUpper Char.isLower at h
  unfold Char.isDigit
  have h48 : ('0' : Char).val = 48 := by decide
  have h57 : ('9' : Char).val = 57 := by decide
  have h65 : ('A' : Char).val = 65 := by decide
  have h90 : ('Z' : Char).val = 90 := by decide
  have h97 : ('a' : Char).val = 97 := by decide
  have h122 : ('z' : Char).val = 122 := by decide
  simp only [h48, h57, h65, h90, h97, h122, ge_iff_le, Bool.or_eq_true, decide_eq_true_eq, Bool.and_eq_true] at h ⊢
  rcases h with ⟨h1, h2⟩ | ⟨h1, h2⟩
  · have : ¬ (c.val ≤ 57) := by
      intro h3
      have := UInt32.le_trans h1 h3
      exact absurd this (by decide)
    simp [this]
  · have : ¬ (c.val ≤ 57) := by
      intro h3
      have := UInt32.le_trans h1 h3
      exact absurd this (by decide)
    simp [this]

/-! ## identifiers -/

theorem isIdentifier_iff (n : Key) :
    isIdentifier n = true ↔ ∃ c r, n = c :: r ∧ c.isDigit = false ∧ n.all okChar = true := by
  unfold isIdentifier
  cases n with
  | nil => simp
  | cons c r =>
    simp only [Bool.and_eq_true, Bool.not_eq_true']
    constructor
    · rintro ⟨h1, h2⟩
      exact ⟨c, r, rfl, h1, h2⟩
    · rintro ⟨c', r', he, h3, h4⟩
      cases he
      exact ⟨h3, h4⟩

theorem isIdentifier_cons (c : Char) (r : Key) (h1 : c.isDigit = false) (h2 : (c :: r).all okChar = true) :
    isIdentifier (c :: r) = true :=
  (isIdentifier_iff _).2 ⟨c, r, rfl, h1, h2⟩

/-- an identifier extended by identifier characters stays one -/
theorem isIdentifier_append (n s : Key) (h : isIdentifier n = true) (hs : s.all okChar = true) :
    isIdentifier (n ++ s) = true := by
  rcases (isIdentifier_iff n).1 h with ⟨c, r, rfl, h1, h2⟩
  refine isIdentifier_cons c (r ++ s) h1 ?_
  simp only [List.all_cons, List.all_append, Bool.and_eq_true] at h2 ⊢
  exact ⟨h2.1, h2.2, hs⟩

/-! ## keywords (facts about the generated list `OF.Facts.PY_KEYWORDS`, closed by `decide`: a proof obligation on `keyword.kwlist`) -/

theorem keywords_alpha : (OF.Facts.PY_KEYWORDS.all fun k => k.toList.all Char.isAlpha) = true := by decide

theorem isKeyword_alpha (n : Key) (h : isKeyword n = true) : n.all Char.isAlpha = true := by
  unfold isKeyword at h
  rw [List.any_eq_true] at h
  rcases h with ⟨k, hk, he⟩
  have := keywords_alpha
  rw [List.all_eq_true] at this
  have hk2 := this k hk
  have : k.toList = n := by simpa using he
  rw [← this]; exact hk2

/-- a name with a character that is not a letter is not a keyword -/
theorem not_keyword_of_mem (n : Key) (c : Char) (hc : c ∈ n) (ha : c.isAlpha = false) : isKeyword n = false := by
  cases hk : isKeyword n with
  | false => rfl
  | true =>
    have := isKeyword_alpha n hk
    rw [List.all_eq_true] at this
    rw [this c hc] at ha
    cases ha

/-! ## the base name -/

/-- the four steps of `baseName`, named -/
def step1 (key : Key) : Key := key.map sanitizeChar
def step2 (n : Key) : Key := if n.isEmpty then ['_'] else n
def step3 (n : Key) : Key :=
  match n with
  | c :: _ => if c.isDigit then '_' :: n else n
  | [] => n
def step4 (n : Key) : Key := if isKeyword n then n ++ ['_'] else n

theorem baseName_steps (key : Key) : baseName key = step4 (step3 (collapseLeading (step2 (step1 key)))) := rfl

theorem baseNameD56_steps (key : Key) : baseNameD56 key = step4 (step3 (step2 (step1 key))) := rfl

theorem step2_ok (n : Key) (h : n.all okChar = true) : (step2 n).all okChar = true ∧ step2 n ≠ [] := by
  unfold step2
  split
  · exact ⟨by decide, by simp⟩
  · rename_i hne
    refine ⟨h, ?_⟩
    intro h0; subst h0; simp at hne

theorem step3_ident (n : Key) (h : n.all okChar = true) (hne : n ≠ []) : isIdentifier (step3 n) = true := by
  unfold step3
  cases n with
  | nil => exact absurd rfl hne
  | cons c r =>
    simp only
    split
    · apply isIdentifier_cons _ _ underscore_not_digit
      rw [List.all_cons, h, underscore_ok]; rfl
    · rename_i hd
      exact isIdentifier_cons c r (by simpa using hd) h

theorem step4_ident (n : Key) (h : isIdentifier n = true) : isIdentifier (step4 n) = true := by
  unfold step4
  split
  · exact isIdentifier_append n ['_'] h (by decide)
  · exact h

theorem step4_not_keyword (n : Key) : isKeyword (step4 n) = false := by
  unfold step4
  split
  · exact not_keyword_of_mem _ '_' (by simp) underscore_not_alpha
  · rename_i h; simpa using h

/-! ## the `__` rule -/

theorem isDunder_start (n : Key) (h : isDunder n = true) : ∃ r, n = '_' :: '_' :: r := by
  unfold isDunder at h
  split at h
  · exact ⟨_, rfl⟩
  · cases h

theorem isDunder_reverse (n : Key) (h : isDunder n = true) : ∃ r, n.reverse = '_' :: '_' :: r := by
  unfold isDunder at h
  split at h
  · rename_i h2; exact ⟨_, h2⟩
  · cases h

theorem isDunder_startsDU (n : Key) (h : startsDU n = false) : isDunder n = false := by
  cases hd : isDunder n with
  | false => rfl
  | true =>
    rcases isDunder_start n hd with ⟨r, rfl⟩
    simp [startsDU] at h

theorem dropWhile_head (p : Char → Bool) (l : Key) : ∀ c t, l.dropWhile p = c :: t → p c = false := by
  induction l with
  | nil => intro c t h; simp at h
  | cons a r ih =>
    intro c t h
    rw [List.dropWhile_cons] at h
    split at h
    · exact ih c t h
    · rename_i hp
      cases h
      simpa using hp

theorem collapse_ok (n : Key) (h : n.all okChar = true) (hne : n ≠ []) :
    (collapseLeading n).all okChar = true ∧ collapseLeading n ≠ [] ∧ startsDU (collapseLeading n) = false := by
  unfold collapseLeading
  split
  · rename_i r
    refine ⟨?_, by simp, ?_⟩
    · rw [List.all_cons, underscore_ok, Bool.true_and, List.all_eq_true]
      intro c hc
      have hsub : c ∈ '_' :: '_' :: r := by
        exact List.mem_cons_of_mem _ (List.mem_cons_of_mem _ ((List.dropWhile_sublist _).subset hc))
      rw [List.all_eq_true] at h
      exact h c hsub
    · have := dropWhile_head (· == '_') r
      generalize List.dropWhile (· == '_') r = t at this
      cases t with
      | nil => rfl
      | cons c t =>
        have hc := this c t rfl
        unfold startsDU
        split
        · rename_i heq
          cases heq
          simp at hc
        · rfl
  · rename_i hno
    refine ⟨h, hne, ?_⟩
    unfold startsDU
    split
    · rename_i a b; exact absurd rfl (hno _)
    · rfl

theorem step3_startsDU (n : Key) (h : startsDU n = false) : startsDU (step3 n) = false := by
  unfold step3
  cases n with
  | nil => exact h
  | cons c r =>
    simp only
    split
    · rename_i hd
      unfold startsDU
      split
      · rename_i heq
        cases heq
        exact absurd hd (by decide)
      · rfl
    · exact h

theorem step4_startsDU (n : Key) (h : startsDU n = false) : startsDU (step4 n) = false := by
  unfold step4
  split
  · rename_i hk
    have ha := isKeyword_alpha n hk
    cases n with
    | nil => rfl
    | cons c r =>
      rw [List.all_cons, Bool.and_eq_true] at ha
      unfold startsDU
      split
      · rename_i heq
        simp only [List.cons_append, List.cons.injEq] at heq
        rw [heq.1] at ha
        exact absurd ha.1 (by decide)
      · rfl
  · exact h

theorem baseName_identifier (key : Key) : isIdentifier (baseName key) = true := by
  rw [baseName_steps]
  have h2 := step2_ok (step1 key) (map_sanitize_ok key)
  have h3 := collapse_ok _ h2.1 h2.2
  exact step4_ident _ (step3_ident _ h3.1 h3.2.1)

theorem baseName_not_keyword (key : Key) : isKeyword (baseName key) = false := by
  rw [baseName_steps]; exact step4_not_keyword _

/-- the base name never starts with two underscores -/
theorem baseName_not_startsDU (key : Key) : startsDU (baseName key) = false := by
  rw [baseName_steps]
  have h2 := step2_ok (step1 key) (map_sanitize_ok key)
  have h3 := collapse_ok _ h2.1 h2.2
  exact step4_startsDU _ (step3_startsDU _ h3.2.2)

/-- a key that is an identifier, not a keyword and does not start with `__` is its own base name -/
theorem baseName_id (key : Key) (h : isIdentifier key = true) (hk : isKeyword key = false) (hd : startsDU key = false) :
    baseName key = key := by
  rcases (isIdentifier_iff key).1 h with ⟨c, r, rfl, h1, h2⟩
  rw [baseName_steps]
  have e1 : step1 (c :: r) = c :: r := map_sanitize_id _ h2
  have e2 : step2 (c :: r) = c :: r := by simp [step2]
  have ec : collapseLeading (c :: r) = c :: r := by
    unfold collapseLeading
    split
    · rename_i heq; rw [heq] at hd; simp [startsDU] at hd
    · rfl
  have e3 : step3 (c :: r) = c :: r := by simp [step3, h1]
  have e4 : step4 (c :: r) = c :: r := by simp [step4, hk]
  rw [e1, e2, ec, e3, e4]

/-! ## the candidates `base_n` -/

theorem toDigits_inj (n m : Nat) (h : Nat.toDigits 10 n = Nat.toDigits 10 m) : n = m := by
  have := congrArg (fun l => Nat.ofDigitChars 10 l 0) h
  simpa using this

theorem candidate_inj (base : Key) (n m : Nat) (h : candidate base n = candidate base m) : n = m := by
  unfold candidate at h
  have := List.append_cancel_left h
  simp only [List.cons.injEq, true_and] at this
  exact toDigits_inj n m this

theorem candidate_ne_base (base : Key) (n : Nat) : candidate base n ≠ base := by
  intro h
  have := congrArg List.length h
  simp [candidate] at this

theorem toDigits_ok (n : Nat) : (Nat.toDigits 10 n).all okChar = true := by
  rw [List.all_eq_true]
  intro c hc
  exact isDigit_ok c (Nat.isDigit_of_mem_toDigits (by decide) (by decide) hc)

theorem candidate_identifier (base : Key) (n : Nat) (h : isIdentifier base = true) :
    isIdentifier (candidate base n) = true := by
  unfold candidate
  apply isIdentifier_append base _ h
  rw [List.all_cons, underscore_ok, toDigits_ok]; rfl

theorem candidate_not_keyword (base : Key) (n : Nat) : isKeyword (candidate base n) = false :=
  not_keyword_of_mem _ '_' (by simp [candidate]) underscore_not_alpha

/-- the last character of a candidate is a digit -/
theorem candidate_reverse (base : Key) (n : Nat) :
    ∃ d r, (candidate base n).reverse = d :: r ∧ d.isDigit = true := by
  unfold candidate
  have hne : Nat.toDigits 10 n ≠ [] := Nat.toDigits_ne_nil
  have hd : ∀ c ∈ Nat.toDigits 10 n, c.isDigit = true :=
    fun c hc => Nat.isDigit_of_mem_toDigits (by decide) (by decide) hc
  generalize Nat.toDigits 10 n = ds at hne hd
  rcases List.eq_nil_or_concat ds with h | ⟨l, d, h⟩
  · exact absurd h hne
  · subst h
    refine ⟨d, (base ++ '_' :: l).reverse, ?_, hd d (by simp)⟩
    simp [List.reverse_append]

theorem candidate_not_dunder (base : Key) (m : Nat) : isDunder (candidate base m) = false := by
  cases h : isDunder (candidate base m) with
  | false => rfl
  | true =>
    rcases isDunder_reverse _ h with ⟨r, hr⟩
    rcases candidate_reverse base m with ⟨d, r2, h2, hd⟩
    rw [hr] at h2
    cases h2
    exact absurd hd (by decide)

/-! ## the `taken` loop -/

theorem pick_is_candidate (base : Key) (taken : List Key) :
    ∀ (f n : Nat), ∃ m, n ≤ m ∧ pick base taken f n = candidate base m := by
  intro f
  induction f with
  | zero => intro n; exact ⟨n, Nat.le_refl _, rfl⟩
  | succ f ih =>
    intro n
    unfold pick
    split
    · rcases ih (n + 1) with ⟨m, hm, he⟩
      exact ⟨m, by omega, he⟩
    · exact ⟨n, Nat.le_refl _, rfl⟩

/-- the loop only looks at the candidates from `n` on -/
theorem pick_congr (base : Key) (t1 t2 : List Key) :
    ∀ (f n : Nat), (∀ m, n ≤ m → (candidate base m ∈ t1 ↔ candidate base m ∈ t2)) →
      pick base t1 f n = pick base t2 f n := by
  intro f
  induction f with
  | zero => intro n _; rfl
  | succ f ih =>
    intro n h
    unfold pick
    have h0 : t1.contains (candidate base n) = t2.contains (candidate base n) := by
      rw [Bool.eq_iff_iff, List.contains_iff_mem, List.contains_iff_mem]
      exact h n (Nat.le_refl _)
    rw [h0, ih (n + 1) (fun m hm => h m (by omega))]

/-- **the fuel suffices**: with more fuel than `taken` has elements the loop ends because it found an unused name -/
theorem pick_fresh (base : Key) :
    ∀ (f : Nat) (taken : List Key) (n : Nat), taken.length < f → pick base taken f n ∉ taken := by
  intro f
  induction f with
  | zero => intro taken n h; omega
  | succ f ih =>
    intro taken n hlen
    unfold pick
    split
    · rename_i hc
      have hmem : candidate base n ∈ taken := List.contains_iff_mem.1 hc
      have hcongr : pick base taken f (n + 1) = pick base (taken.erase (candidate base n)) f (n + 1) := by
        apply pick_congr
        intro m hm
        have hne : candidate base m ≠ candidate base n := by
          intro he
          have := candidate_inj base m n he
          omega
        exact (List.mem_erase_of_ne hne).symm
      have hl : (taken.erase (candidate base n)).length < f := by
        rw [List.length_erase_of_mem hmem]
        have : 0 < taken.length := List.length_pos_of_mem hmem
        omega
      have hfresh := ih (taken.erase (candidate base n)) (n + 1) hl
      rw [hcongr]
      rcases pick_is_candidate base (taken.erase (candidate base n)) f (n + 1) with ⟨m, hm, he⟩
      rw [he] at hfresh ⊢
      have hne : candidate base m ≠ candidate base n := by
        intro he2
        have := candidate_inj base m n he2
        omega
      intro hin
      exact hfresh ((List.mem_erase_of_ne hne).2 hin)
    · rename_i hc
      intro hin
      exact hc (List.contains_iff_mem.2 hin)

/-- once the loop has found an unused name, more fuel changes nothing -/
theorem pick_fuel_succ (base : Key) (taken : List Key) :
    ∀ (f n : Nat), pick base taken f n ∉ taken → pick base taken (f + 1) n = pick base taken f n := by
  intro f
  induction f with
  | zero =>
    intro n h
    have h0 : pick base taken 0 n = candidate base n := rfl
    rw [h0] at h ⊢
    unfold pick
    have : taken.contains (candidate base n) = false := by
      rw [Bool.eq_false_iff]; intro hc; exact h (List.contains_iff_mem.1 hc)
    simp only [this, Bool.false_eq_true, ↓reduceIte]
  | succ f ih =>
    intro n h
    rw [pick.eq_def base taken (f + 1 + 1) n]
    rw [pick.eq_def base taken (f + 1) n] at h ⊢
    simp only at h ⊢
    split
    · rename_i hc
      simp only [hc, ↓reduceIte] at h
      exact ih (n + 1) h
    · rfl

theorem pick_fuel_stable (base : Key) (taken : List Key) (f n : Nat) (h : taken.length < f) :
    ∀ k, pick base taken (f + k) n = pick base taken f n := by
  intro k
  induction k with
  | zero => rfl
  | succ k ih =>
    rw [← Nat.add_assoc, pick_fuel_succ base taken (f + k) n, ih]
    rw [ih]; exact pick_fresh base f taken n h

theorem pickName_fresh (base : Key) (taken : List Key) : pickName base taken ∉ taken := by
  unfold pickName
  split
  · exact pick_fresh base _ taken 2 (Nat.lt_succ_self _)
  · rename_i h
    intro hin; exact h (List.contains_iff_mem.2 hin)

/-- the loop returns the base name or one of its candidates -/
theorem pickName_cases (base : Key) (taken : List Key) :
    pickName base taken = base ∨ ∃ m, 2 ≤ m ∧ pickName base taken = candidate base m := by
  unfold pickName
  split
  · right; exact pick_is_candidate base taken _ 2
  · left; rfl

theorem pickName_id (base : Key) (taken : List Key) (h : base ∉ taken) : pickName base taken = base := by
  unfold pickName
  have : taken.contains base = false := by
    rw [Bool.eq_false_iff]; intro hc; exact h (List.contains_iff_mem.1 hc)
  simp only [this, Bool.false_eq_true, ↓reduceIte]

theorem pickName_identifier (base : Key) (taken : List Key) (h : isIdentifier base = true) :
    isIdentifier (pickName base taken) = true := by
  rcases pickName_cases base taken with e | ⟨m, _, e⟩
  · rw [e]; exact h
  · rw [e]; exact candidate_identifier base m h

theorem pickName_not_keyword (base : Key) (taken : List Key) (h : isKeyword base = false) :
    isKeyword (pickName base taken) = false := by
  rcases pickName_cases base taken with e | ⟨m, _, e⟩
  · rw [e]; exact h
  · rw [e]; exact candidate_not_keyword base m

/-! ## the fold over the keys, for any naming function that returns unused names -/

theorem fieldsWith_length (name : Key → List Key → Key) (keys : List Key) :
    ∀ taken, (fieldsWith name taken keys).length = keys.length := by
  induction keys with
  | nil => intro _; rfl
  | cons k ks ih => intro taken; simp only [fieldsWith, List.length_cons, ih]

theorem fieldsWith_fresh (name : Key → List Key → Key) (hfresh : ∀ k taken, name k taken ∉ taken) (keys : List Key) :
    ∀ taken, (∀ x ∈ fieldsWith name taken keys, x ∉ taken) ∧ (fieldsWith name taken keys).Nodup := by
  induction keys with
  | nil => intro _; exact ⟨by simp [fieldsWith], by simp [fieldsWith]⟩
  | cons k ks ih =>
    intro taken
    rcases ih (name k taken :: taken) with ⟨h1, h2⟩
    simp only [fieldsWith]
    constructor
    · intro x hx
      rcases List.mem_cons.1 hx with rfl | hx
      · exact hfresh k taken
      · intro hin
        exact h1 x hx (List.mem_cons_of_mem _ hin)
    · rw [List.nodup_cons]
      refine ⟨?_, h2⟩
      intro hin
      exact h1 _ hin (List.mem_cons_self ..)

theorem fieldsWith_all (name : Key → List Key → Key) (P : Key → Prop) (hP : ∀ k taken, P (name k taken)) (keys : List Key) :
    ∀ taken, ∀ x ∈ fieldsWith name taken keys, P x := by
  induction keys with
  | nil => intro _ x hx; simp [fieldsWith] at hx
  | cons k ks ih =>
    intro taken x hx
    simp only [fieldsWith] at hx
    rcases List.mem_cons.1 hx with rfl | hx
    · exact hP k taken
    · exact ih _ x hx

/-- keys that the naming function leaves alone when unused, pairwise distinct and unused: nothing is renamed -/
theorem fieldsWith_id (name : Key → List Key → Key) (G : Key → Prop) (hid : ∀ k taken, G k → k ∉ taken → name k taken = k)
    (keys : List Key) : ∀ taken, keys.Nodup → (∀ k ∈ keys, G k ∧ k ∉ taken) → fieldsWith name taken keys = keys := by
  induction keys with
  | nil => intro _ _ _; rfl
  | cons k ks ih =>
    intro taken hnd hk
    rw [List.nodup_cons] at hnd
    have e : name k taken = k := hid k taken (hk k (List.mem_cons_self ..)).1 (hk k (List.mem_cons_self ..)).2
    simp only [fieldsWith, e]
    congr 1
    apply ih _ hnd.2
    intro x hx
    refine ⟨(hk x (List.mem_cons_of_mem _ hx)).1, ?_⟩
    intro hin
    rcases List.mem_cons.1 hin with rfl | hin
    · exact hnd.1 hx
    · exact (hk x (List.mem_cons_of_mem _ hx)).2 hin

/-- position by position: the `i`-th name is the naming function applied to the `i`-th key and the names taken so far -/
theorem fieldsWith_append (name : Key → List Key → Key) (pre : List Key) :
    ∀ taken k post, ∃ taken2, (∀ x, x ∈ taken2 ↔ x ∈ taken ∨ x ∈ fieldsWith name taken pre) ∧
      fieldsWith name taken (pre ++ k :: post) =
        fieldsWith name taken pre ++ name k taken2 :: fieldsWith name (name k taken2 :: taken2) post := by
  induction pre with
  | nil =>
    intro taken k post
    exact ⟨taken, by simp [fieldsWith], by simp [fieldsWith]⟩
  | cons p pre ih =>
    intro taken k post
    rcases ih (name p taken :: taken) k post with ⟨t2, h1, h2⟩
    refine ⟨t2, ?_, ?_⟩
    · intro x
      rw [h1]
      simp only [fieldsWith, List.mem_cons]
      constructor
      · rintro ((h | h) | h)
        · right; left; exact h
        · left; exact h
        · right; right; exact h
      · rintro (h | h | h)
        · left; right; exact h
        · left; left; exact h
        · right; exact h
    · simp only [List.cons_append, fieldsWith, h2]

/-! ## `nodupB` -/

theorem nodupB_iff (l : List Key) : nodupB l = true ↔ l.Nodup := by
  induction l with
  | nil => simp [nodupB]
  | cons k r ih =>
    simp only [nodupB, Bool.and_eq_true, Bool.not_eq_true', List.nodup_cons, ih]
    constructor
    · rintro ⟨h1, h2⟩
      refine ⟨?_, h2⟩
      intro hin
      rw [List.contains_iff_mem.2 hin] at h1
      cases h1
    · rintro ⟨h1, h2⟩
      refine ⟨?_, h2⟩
      rw [Bool.eq_false_iff]; intro hc; exact h1 (List.contains_iff_mem.1 hc)

end OF.FacetNames
