import OFProps.C13
/-!
# C13 — rolling logs: the reader over a WHOLE history (`C13_reader_stream`)

`C13_reader_refines_partial` (in `C13.lean`) is a statement about one `read`.  Here it is composed over arbitrary op
sequences without a writer restart (`NoWRestart`): ghost stream `written` (all records ever written, in writing order,
tagged with the file and the byte offset = index they went to), ghost stream `delivered` (everything the read-only
instance returned along a segment), and the three clauses: subsequence, at most once, skips only for files that were
not in the directory when the reader passed them.
-/
namespace OF.RollLog

/-! ## the ghost stream of everything ever written -/

/-- a record together with where it was written: the file (name; names identify inodes along runs without a writer
restart, `NamesInc`) and the byte offset of its first byte in that file (offsets identify indices: every record has at
least one byte) -/
structure TRec where
  name : Nat
  off  : Nat
  val  : Rec
deriving Repr, DecidableEq

def TRec.pos (x : TRec) : Nat × Nat := (x.name, x.off)

/-- the records `recs` laid out in file `n` from byte offset `o` on -/
def tagOff (n : Nat) : Nat → List Rec → List TRec
  | _, [] => []
  | o, r :: rs => ⟨n, o, r⟩ :: tagOff n (o + r.size) rs

/-- all records ever written: inode by inode (= creation order of the files), within a file in offset order -/
def written : FS → List TRec
  | [] => []
  | f :: fs => tagOff f.name 0 f.recs ++ written fs

theorem tagOff_map_val (n : Nat) : ∀ (recs : List Rec) (o : Nat), (tagOff n o recs).map (·.val) = recs := by
  intro recs
  induction recs with
  | nil => intro o; rfl
  | cons r rs ih => intro o; simp [tagOff, ih]

theorem tagOff_append (n : Nat) : ∀ (a b : List Rec) (o : Nat),
    tagOff n o (a ++ b) = tagOff n o a ++ tagOff n (o + recsSize a) b := by
  intro a
  induction a with
  | nil => intro b o; simp [tagOff, recsSize]
  | cons r rs ih =>
    intro b o
    simp only [List.cons_append, tagOff, recsSize, ih]
    rw [show o + r.size + recsSize rs = o + (r.size + recsSize rs) by omega]

theorem written_append (a b : FS) : written (a ++ b) = written a ++ written b := by
  induction a with
  | nil => rfl
  | cons f fs ih => simp [written, ih]

/-- membership in a laid-out list: the `k`-th record, at the offset of the `k` records before it -/
theorem mem_tagOff {n : Nat} {x : TRec} : ∀ {recs : List Rec} {o : Nat},
    x ∈ tagOff n o recs ↔ x.name = n ∧ ∃ k, recs[k]? = some x.val ∧ x.off = o + recsSize (recs.take k) := by
  intro recs
  induction recs with
  | nil => intro o; simp [tagOff]
  | cons r rs ih =>
    intro o
    simp only [tagOff, List.mem_cons, ih]
    constructor
    · rintro (rfl | ⟨h1, k, h2, h3⟩)
      · exact ⟨rfl, 0, by simp, by simp [recsSize]⟩
      · exact ⟨h1, k + 1, by simpa using h2, by simp only [List.take_succ_cons, recsSize]; omega⟩
    · rintro ⟨h1, k, h2, h3⟩
      cases k with
      | zero =>
        left
        simp at h2
        simp [recsSize] at h3
        cases x; simp_all
      | succ k =>
        right
        exact ⟨h1, k, by simpa using h2, by simp only [List.take_succ_cons, recsSize] at h3; omega⟩

theorem mem_written {x : TRec} : ∀ {fs : FS},
    x ∈ written fs ↔ ∃ f ∈ fs, f.name = x.name ∧ ∃ k, f.recs[k]? = some x.val ∧ x.off = recsSize (f.recs.take k) := by
  intro fs
  induction fs with
  | nil => simp [written]
  | cons f fs ih =>
    simp only [written, List.mem_append, mem_tagOff, ih, List.mem_cons]
    constructor
    · rintro (⟨h1, k, h2, h3⟩ | ⟨g, hg, h⟩)
      · exact ⟨f, Or.inl rfl, h1.symm, k, h2, by omega⟩
      · exact ⟨g, Or.inr hg, h⟩
    · rintro ⟨g, (rfl | hg), h1, k, h2, h3⟩
      · left; exact ⟨h1.symm, k, h2, by omega⟩
      · right; exact ⟨g, hg, h1, k, h2, h3⟩

/-! ## `written` is strictly ordered by (file name, offset) -/

def tLt (x y : TRec) : Prop := posLt x.pos y.pos

theorem tLt_asymm {x y : TRec} (h : tLt x y) : ¬ tLt y x := by
  unfold tLt posLt TRec.pos at *; simp only at *; omega

theorem tLt_irrefl (x : TRec) : ¬ tLt x x := by
  unfold tLt posLt TRec.pos; simp only; omega

theorem tLt_trans {x y z : TRec} (h1 : tLt x y) (h2 : tLt y z) : tLt x z := by
  unfold tLt posLt TRec.pos at *; simp only at *; omega

theorem tagOff_pairwise (n : Nat) : ∀ (recs : List Rec) (o : Nat), (tagOff n o recs).Pairwise tLt := by
  intro recs
  induction recs with
  | nil => intro o; simp [tagOff]
  | cons r rs ih =>
    intro o
    simp only [tagOff, List.pairwise_cons]
    refine ⟨?_, ih _⟩
    intro y hy
    obtain ⟨h1, k, _, h3⟩ := mem_tagOff.mp hy
    unfold tLt posLt TRec.pos
    simp only [Rec.size] at *
    omega

theorem written_pairwise : ∀ {fs : FS}, NamesInc fs → (written fs).Pairwise tLt := by
  intro fs
  induction fs with
  | nil => intro _; simp [written]
  | cons f fs ih =>
    intro h
    unfold NamesInc at h
    simp only [List.map_cons, List.pairwise_cons] at h
    simp only [written, List.pairwise_append]
    refine ⟨tagOff_pairwise _ _ _, ih h.2, ?_⟩
    intro x hx y hy
    obtain ⟨hxn, _⟩ := mem_tagOff.mp hx
    obtain ⟨g, hg, hgn, _⟩ := mem_written.mp hy
    have := h.1 g.name (List.mem_map_of_mem hg)
    unfold tLt posLt TRec.pos
    simp only
    omega

/-- a strictly ordered list whose elements all occur in another strictly ordered list is a subsequence of it -/
theorem sublist_of_pairwise_subset : ∀ (l2 l1 : List TRec), l1.Pairwise tLt → l2.Pairwise tLt → (∀ x ∈ l1, x ∈ l2) →
    l1.Sublist l2 := by
  intro l2
  induction l2 with
  | nil =>
    intro l1 _ _ h
    cases l1 with
    | nil => exact List.Sublist.slnil
    | cons a _ => exact absurd (h a (by simp)) (by simp)
  | cons b l2 ih =>
    intro l1 h1 h2 hsub
    cases l1 with
    | nil => exact List.nil_sublist _
    | cons a l1 =>
      rw [List.pairwise_cons] at h1 h2
      by_cases e : a = b
      · subst e
        apply List.Sublist.cons_cons
        apply ih l1 h1.2 h2.2
        intro x hx
        rcases List.mem_cons.mp (hsub x (List.mem_cons_of_mem _ hx)) with rfl | h
        · exact absurd (h1.1 x hx) (tLt_irrefl x)
        · exact h
      · apply List.Sublist.cons
        have hba : tLt b a := by
          rcases List.mem_cons.mp (hsub a (by simp)) with h | h
          · exact absurd h e
          · exact h2.1 a h
        apply ih (a :: l1) (List.pairwise_cons.mpr h1) h2.2
        intro x hx
        rcases List.mem_cons.mp (hsub x hx) with rfl | h
        · rcases List.mem_cons.mp hx with rfl | hx'
          · exact absurd rfl e
          · exact absurd (h1.1 x hx') (tLt_asymm hba)
        · exact h

theorem nodup_of_pairwise {l : List TRec} (h : l.Pairwise tLt) : l.Nodup := by
  unfold List.Nodup
  refine h.imp ?_
  intro a b hab e
  subst e
  exact tLt_irrefl a hab

/-- records persist: a later state of the file system has every tagged record of an earlier one -/
theorem written_later {fs fs' : FS} (hold : ∀ (i : Nat) (f : File), fs[i]? = some f → ∃ f', fs'[i]? = some f' ∧ Later f f')
    {x : TRec} (hx : x ∈ written fs) : x ∈ written fs' := by
  obtain ⟨f, hf, hn, k, hk, ho⟩ := mem_written.mp hx
  obtain ⟨i, hi⟩ := List.mem_iff_getElem?.mp hf
  obtain ⟨f', hf', hl⟩ := hold i f hi
  obtain ⟨t, ht⟩ := hl.recs
  have hkl : k < f.recs.length := (List.getElem?_eq_some_iff.mp hk).1
  refine mem_written.mpr ⟨f', List.mem_of_getElem? hf', hl.name.trans hn, k, ?_, ?_⟩
  · rw [← ht, List.getElem?_append_left hkl]; exact hk
  · rw [← ht, List.take_append_of_le_length (Nat.le_of_lt hkl)]; exact ho

/-! ## `read` as a composition of three building blocks -/

/-- instance states reachable inside one `read` call: `refresh_logfiles`, one run of the read loop to its end (entered
below the end of the list), and the step to the next file after the refresh at the end of the last listed file -/
inductive RStep (fs : FS) (b : Bool) (l : Log) : Log → Prop
  | refl : RStep fs b l l
  | refresh {l1 : Log} : RStep fs b l l1 → RStep fs b l (refreshLogfiles l1 fs)
  | finish {l1 : Log} : RStep fs b l l1 → l1.readIdx < l1.logfiles.length →
      RStep fs b l (readFinish l1 (startScan l1 fs b)).1
  | next {l1 : Log} : RStep fs b l l1 → eofNextIdx patched l1 < l1.logfiles.length →
      RStep fs b l { l1 with readIdx := eofNextIdx patched l1, readFile := .none }

/-- a `read` that returns data ends with a run of the loop from a state `l0` reached by the building blocks -/
def DataForm (fs : FS) (b : Bool) (l : Log) (r : Log × Res) : Prop :=
  ∀ d, r.2 = .recs d → ∃ l0, RStep fs b l l0 ∧ l0.readIdx < l0.logfiles.length ∧ r = readFinish l0 (startScan l0 fs b)

theorem readFinish_rstep {fs : FS} {b : Bool} {l l1 : Log} (h : RStep fs b l l1) (hlt : l1.readIdx < l1.logfiles.length) :
    RStep fs b l (readFinish l1 (startScan l1 fs b)).1 ∧ DataForm fs b l (readFinish l1 (startScan l1 fs b)) :=
  ⟨h.finish hlt, fun _ _ => ⟨l1, h, hlt, rfl⟩⟩

theorem readTail_rstep {fs : FS} {b : Bool} {l l1 : Log} (h : RStep fs b l l1) :
    RStep fs b l (readTail l1 fs b).1 ∧ DataForm fs b l (readTail l1 fs b) := by
  unfold readTail
  split
  · exact ⟨h, fun d hd => by cases hd⟩
  · exact readFinish_rstep h (by omega)

theorem read_rstep (l : Log) (fs : FS) (b : Bool) :
    RStep fs b l (read patched l fs b).1 ∧ DataForm fs b l (read patched l fs b) := by
  have triv : ∀ (res : Res), (∀ d, res ≠ .recs d) → RStep fs b l l ∧ DataForm fs b l (l, res) :=
    fun res hres => ⟨.refl, fun d hd => absurd hd (hres d)⟩
  unfold read
  split
  · exact triv _ (by intro d h; cases h)
  · split
    · split
      · exact triv _ (by intro d h; cases h)
      · exact readTail_rstep (RStep.refl.refresh)
    · rename_i hge
      have hlt : l.readIdx < l.logfiles.length := by omega
      split
      · exact readFinish_rstep .refl hlt
      · have hfin := readFinish_rstep (fs := fs) (b := b) (RStep.refl (l := l)) hlt
        cases hsc : startScan l fs b with
        | data i ino off d => rw [hsc] at hfin; exact hfin
        | exhausted =>
          rw [hsc] at hfin
          simp only [readAuto, readExhausted]
          exact readTail_rstep hfin.1.refresh
        | eofLast i ino off =>
          rw [hsc] at hfin
          simp only [readAuto, readEofLast]
          have h1 : RStep fs b l (refreshLogfiles { l with readIdx := i, readFile := .opened ino off } fs) := hfin.1.refresh
          split
          · exact ⟨h1, fun d hd => by cases hd⟩
          · rename_i hlt'
            exact readFinish_rstep (h1.next (by omega)) (by simpa using hlt')

theorem RStep.rinv {fs : FS} {b : Bool} {l l1 : Log} (hs : Sorted (dirEntries fs)) (h : RInv fs l) (st : RStep fs b l l1) :
    RInv fs l1 := by
  induction st with
  | refl => exact h
  | refresh _ ih => exact refreshLogfiles_rinv hs ih.opened
  | finish _ _ ih => exact readFinish_rinv ih (startScan_ok ih.opened b)
  | next _ _ ih => exact rinv_setNone ih.list _

/-! ## record boundaries -/

/-- the open read handle stands at a record boundary of its file (at most at its end) -/
def Aligned (fs : FS) (l : Log) : Prop :=
  ∀ ino off, l.readFile = .opened ino off →
    ∃ k, k ≤ (inodeRecs fs ino).length ∧ off = recsSize ((inodeRecs fs ino).take k)

theorem recsFrom_take : ∀ (recs : List Rec) (k : Nat), recsFrom recs (recsSize (recs.take k)) = recs.drop k := by
  intro recs
  induction recs with
  | nil => intro k; simp [recsFrom]
  | cons r rs ih =>
    intro k
    cases k with
    | zero => simp [recsFrom, recsSize]
    | succ k =>
      simp only [List.take_succ_cons, recsSize, recsFrom, List.drop_succ_cons]
      have : r.size + recsSize (rs.take k) ≠ 0 := by unfold Rec.size; omega
      simp only [this, ↓reduceIte]
      rw [show r.size + recsSize (rs.take k) - r.size = recsSize (rs.take k) by omega]
      exact ih k

theorem take_size_advance (A d t : List Rec) :
    recsSize ((A ++ (d ++ t)).take (A.length + d.length)) = recsSize A + recsSize d := by
  rw [← List.append_assoc, List.take_left' (by simp), recsSize_append]

theorem aligned_advance {recs d t : List Rec} {k0 : Nat} (hk : k0 ≤ recs.length) (h : d ++ t = recs.drop k0) :
    k0 + d.length ≤ recs.length ∧ recsSize (recs.take (k0 + d.length)) = recsSize (recs.take k0) + recsSize d := by
  have hr : recs.take k0 ++ (d ++ t) = recs := by rw [h]; exact List.take_append_drop k0 recs
  have hl : (recs.take k0).length = k0 := by simp; omega
  constructor
  · have := congrArg List.length hr
    simp at this; omega
  · have := take_size_advance (recs.take k0) d t
    rw [hr, hl] at this
    exact this

theorem fileData_prefix (fs : FS) (ino off : Nat) (b : Bool) :
    fileData fs ino off b <+: recsFrom (inodeRecs fs ino) off := by
  unfold fileData
  simp only
  split
  · exact List.prefix_refl _
  · exact List.take_prefix _ _

/-- where the loop's result stands: at offset 0 of a freshly opened file, or at the offset of the handle it was entered with -/
def OffOk (fs : FS) (l : Log) (b : Bool) : Scan → Prop
  | .data _ ino off d => (off = 0 ∨ l.readFile = .opened ino off) ∧ d = fileData fs ino off b
  | .eofLast _ ino off => off = 0 ∨ l.readFile = .opened ino off
  | .exhausted => True

theorem startScan_off (fs : FS) (l : Log) (b : Bool) : OffOk fs l b (startScan l fs b) := by
  have fromSpec : ∀ idx, OffOk fs l b (scanFrom fs b idx (l.logfiles.drop idx)) := by
    intro idx
    have hsp := scanFrom_spec fs b l.logfiles _ idx rfl
    cases hsc : scanFrom fs b idx (l.logfiles.drop idx) with
    | data i ino off d =>
      rw [hsc] at hsp
      obtain ⟨_, h2, h3, _⟩ := hsp
      exact ⟨Or.inl h2, by rw [h2]; exact h3⟩
    | eofLast i ino off =>
      rw [hsc] at hsp
      exact Or.inl hsp.2.2.1
    | exhausted => trivial
  unfold startScan
  split
  · rename_i ino off ho
    unfold scanOpen
    simp only
    split
    · exact ⟨Or.inr ho, rfl⟩
    · split
      · exact Or.inr ho
      · exact fromSpec _
  · exact fromSpec _

theorem refreshLogfiles_readFile (l : Log) (fs : FS) :
    (refreshLogfiles l fs).readFile = l.readFile ∨ ∀ ino off, (refreshLogfiles l fs).readFile ≠ .opened ino off := by
  cases hk : refreshKept (scan fs) (oldKey l) with
  | true => exact Or.inl (refreshLogfiles_kept hk).1
  | false => exact Or.inr (refreshLogfiles_not_kept hk)

def AlignedAt (fs : FS) (ino off : Nat) : Prop :=
  ∃ k, k ≤ (inodeRecs fs ino).length ∧ off = recsSize ((inodeRecs fs ino).take k)

theorem alignedAt_of_scan {fs : FS} {l : Log} {ino off : Nat} (h : Aligned fs l) (ho : off = 0 ∨ l.readFile = .opened ino off) :
    AlignedAt fs ino off := by
  rcases ho with rfl | ho
  · exact ⟨0, Nat.zero_le _, by simp [recsSize]⟩
  · exact h ino off ho

/-- data read at an aligned offset: a run of whole consecutive records, and the new offset is aligned again -/
theorem fileData_aligned {fs : FS} {ino off : Nat} (b : Bool) (h : AlignedAt fs ino off) :
    ∃ k0 t, k0 ≤ (inodeRecs fs ino).length ∧ off = recsSize ((inodeRecs fs ino).take k0) ∧
      fileData fs ino off b ++ t = (inodeRecs fs ino).drop k0 ∧
      AlignedAt fs ino (off + recsSize (fileData fs ino off b)) := by
  obtain ⟨k0, hk, rfl⟩ := h
  obtain ⟨t, ht⟩ := fileData_prefix fs ino (recsSize ((inodeRecs fs ino).take k0)) b
  rw [recsFrom_take] at ht
  obtain ⟨h1, h2⟩ := aligned_advance hk ht
  exact ⟨k0, t, hk, rfl, ht, k0 + (fileData fs ino _ b).length, h1, h2.symm⟩

theorem RStep.aligned {fs : FS} {b : Bool} {l l1 : Log} (h : Aligned fs l) (st : RStep fs b l l1) : Aligned fs l1 := by
  induction st with
  | refl => exact h
  | refresh _ ih =>
    intro ino off ho
    rcases refreshLogfiles_readFile _ fs with e | e
    · rw [e] at ho; exact ih ino off ho
    · exact absurd ho (e ino off)
  | next _ _ _ => intro ino off ho; cases ho
  | @finish l1 _ _ ih =>
    have hoff := startScan_off fs l1 b
    cases hsc : startScan l1 fs b with
    | data i ino off d =>
      rw [hsc] at hoff
      obtain ⟨h1, h2⟩ := hoff
      obtain ⟨_, _, _, _, _, h3⟩ := fileData_aligned b (alignedAt_of_scan ih h1)
      intro ino' off' ho
      simp only [readFinish, RF.opened.injEq] at ho
      obtain ⟨rfl, rfl⟩ := ho
      rw [h2]; exact h3
    | eofLast i ino off =>
      rw [hsc] at hoff
      intro ino' off' ho
      simp only [readFinish, RF.opened.injEq] at ho
      obtain ⟨rfl, rfl⟩ := ho
      exact alignedAt_of_scan ih hoff
    | exhausted => intro ino off ho; simp [readFinish] at ho

theorem size_take_le (recs : List Rec) {a c : Nat} (h : a ≤ c) : recsSize (recs.take a) ≤ recsSize (recs.take c) := by
  obtain ⟨j, rfl⟩ := Nat.exists_eq_add_of_le h
  rw [List.take_add, recsSize_append]; omega

theorem size_take_lt : ∀ (recs : List Rec) {a c : Nat}, a < c → a < recs.length → recsSize (recs.take a) < recsSize (recs.take c) := by
  intro recs
  induction recs with
  | nil => intro a c _ h; simp at h
  | cons r rs ih =>
    intro a c hac hal
    cases c with
    | zero => omega
    | succ c =>
      cases a with
      | zero => simp only [List.take_zero, List.take_succ_cons, recsSize, Rec.size]; omega
      | succ a =>
        have := ih (a := a) (c := c) (by omega) (by simpa using hal)
        simp only [List.take_succ_cons, recsSize]; omega

theorem size_take_run {recs d t : List Rec} {k0 j : Nat} (hk : k0 ≤ recs.length) (h : d ++ t = recs.drop k0) (hj : j ≤ d.length) :
    recsSize (recs.take (k0 + j)) = recsSize (recs.take k0) + recsSize (d.take j) := by
  have h' : d.take j ++ (d.drop j ++ t) = recs.drop k0 := by rw [← List.append_assoc, List.take_append_drop]; exact h
  have := (aligned_advance hk h').2
  rw [List.length_take, Nat.min_eq_left hj] at this
  exact this

theorem getElem?_run {recs d t : List Rec} {k0 j : Nat} (h : d ++ t = recs.drop k0) (hj : j < d.length) :
    recs[k0 + j]? = d[j]? := by
  rw [← List.getElem?_drop, ← h, List.getElem?_append_left hj]

/-- the tags given to a returned run of records are tags of `written` -/
theorem tagOff_mem_written {fs : FS} {f : File} (hf : f ∈ fs) {k0 : Nat} {d t : List Rec} (hk : k0 ≤ f.recs.length)
    (h : d ++ t = f.recs.drop k0) {x : TRec} (hx : x ∈ tagOff f.name (recsSize (f.recs.take k0)) d) : x ∈ written fs := by
  obtain ⟨hn, j, hj, ho⟩ := mem_tagOff.mp hx
  have hjl : j < d.length := (List.getElem?_eq_some_iff.mp hj).1
  refine mem_written.mpr ⟨f, hf, hn.symm, k0 + j, ?_, ?_⟩
  · rw [getElem?_run h hjl]; exact hj
  · rw [size_take_run hk h (Nat.le_of_lt hjl)]; exact ho

/-- conversely: a record of the file that starts inside the returned run is one of the returned ones -/
theorem mem_tagOff_of_range {recs d t : List Rec} {k0 k : Nat} {r : Rec} (n : Nat) (hk : k0 ≤ recs.length)
    (h : d ++ t = recs.drop k0) (hr : recs[k]? = some r)
    (h1 : recsSize (recs.take k0) ≤ recsSize (recs.take k))
    (h2 : recsSize (recs.take k) < recsSize (recs.take k0) + recsSize d) :
    (⟨n, recsSize (recs.take k), r⟩ : TRec) ∈ tagOff n (recsSize (recs.take k0)) d := by
  have hkl : k < recs.length := (List.getElem?_eq_some_iff.mp hr).1
  have hge : k0 ≤ k := by
    by_cases hge : k0 ≤ k
    · exact hge
    · have := size_take_lt recs (a := k) (c := k0) (by omega) hkl; omega
  have hlt : k < k0 + d.length := by
    by_cases hlt : k < k0 + d.length
    · exact hlt
    · have h3 := size_take_le recs (a := k0 + d.length) (c := k) (by omega)
      have h4 := (aligned_advance hk h).2
      omega
  obtain ⟨j, rfl⟩ := Nat.exists_eq_add_of_le hge
  have hjl : j < d.length := by omega
  refine mem_tagOff.mpr ⟨rfl, j, ?_, ?_⟩
  · show d[j]? = some r
    rw [← getElem?_run h hjl]; exact hr
  · show recsSize (recs.take (k0 + j)) = _
    exact size_take_run hk h (Nat.le_of_lt hjl)

theorem tagOff_pos_lt {n o : Nat} {d : List Rec} {x : TRec} (hx : x ∈ tagOff n o d) :
    x.name = n ∧ o ≤ x.off ∧ x.off < o + recsSize d := by
  obtain ⟨hn, j, hj, ho⟩ := mem_tagOff.mp hx
  have hjl : j < d.length := (List.getElem?_eq_some_iff.mp hj).1
  refine ⟨hn, by omega, ?_⟩
  have h1 := size_take_lt d (a := j) (c := d.length) hjl hjl
  simp only [List.take_length] at h1
  omega

/-! ## positions the reader has left behind

`cur` can go DOWN at a refresh that finds none of the known files (the list shrinks and the reader stands at the end of
the shorter list).  What does not go down: a position is *behind* the reader if it is below `cur`, or the reader stands
at the end of its list and every file in the directory that `refresh_logfiles` could still move to (name at or above
`cur`) has a larger name. -/

def AtEndP (fs : FS) (l : Log) (n : Nat) : Prop :=
  l.readIdx ≥ l.logfiles.length ∧ ∀ f ∈ fs, f.linked = true → (cur l).1 ≤ f.name → n < f.name

def Behind (fs : FS) (l : Log) (p : Nat × Nat) : Prop := posLt p (cur l) ∨ AtEndP fs l p.1

/-- whatever is behind `l` is behind `l'` -/
def Adv (fs : FS) (l l' : Log) : Prop := ∀ p, Behind fs l p → Behind fs l' p

theorem Adv.refl (fs : FS) (l : Log) : Adv fs l l := fun _ h => h
theorem Adv.trans {fs : FS} {a b c : Log} (h1 : Adv fs a b) (h2 : Adv fs b c) : Adv fs a c := fun p h => h2 p (h1 p h)

theorem adv_of_le {fs : FS} {l l' : Log} (hlt : l.readIdx < l.logfiles.length) (h : posLe (cur l) (cur l')) : Adv fs l l' := by
  intro p hp
  rcases hp with hp | hp
  · left; unfold posLt posLe at *; omega
  · have := hp.1; omega

theorem adv_of_cur_eq {fs : FS} {l l' : Log} (h : cur l' = cur l)
    (hidx : l.readIdx ≥ l.logfiles.length → l'.readIdx ≥ l'.logfiles.length) : Adv fs l l' := by
  intro p hp
  rcases hp with hp | hp
  · left; rw [h]; exact hp
  · right; exact ⟨hidx hp.1, by rw [h]; exact hp.2⟩

theorem cur_valid {l : Log} {lf : LF} (h : l.logfiles[l.readIdx]? = some lf) :
    cur l = (lf.ts, match l.readFile with | .opened _ off => off | _ => 0) := by
  cases hr : l.readFile <;> simp [cur, h, hr]

theorem cur_end {l : Log} (h : l.readIdx ≥ l.logfiles.length) :
    cur l = ((oldKey l).1 + 1, 0) ∨ (cur l = (0, 0) ∧ (oldKey l).1 = 0) := by
  have hnone : l.logfiles[l.readIdx]? = none := List.getElem?_eq_none_iff.mpr h
  simp only [cur, oldKey, hnone]
  cases hl : l.logfiles.getLast? with
  | none => right; exact ⟨rfl, rfl⟩
  | some last => left; rfl

theorem cur_not_opened {l : Log} {lf : LF} (h : l.logfiles[l.readIdx]? = some lf) (hno : ∀ ino off, l.readFile ≠ .opened ino off) :
    cur l = (lf.ts, 0) := by
  rw [cur_valid h]
  cases hr : l.readFile with
  | opened ino off => exact absurd hr (hno ino off)
  | none => rfl
  | closed => rfl

theorem refreshIdx_at {L : List LF} {key : Nat × Bool} {lf : LF} (h : L[refreshIdx L key]? = some lf) :
    (key.2 = true ∧ lf.ts = key.1) ∨ key.1 < lf.ts := by
  obtain ⟨hlt, he⟩ := List.getElem?_eq_some_iff.mp h
  have := List.findIdx_getElem (p := fun (lf : LF) => (key.2 && lf.ts == key.1) || decide (lf.ts > key.1)) (xs := L) (w := hlt)
  unfold refreshIdx at he
  rw [he] at this
  simp only [Bool.or_eq_true, Bool.and_eq_true, beq_iff_eq, decide_eq_true_eq] at this
  rcases this with h1 | h1
  · exact Or.inl h1
  · exact Or.inr h1

/-- a refresh that ends at the end of the new list: everything is behind -/
theorem behind_all_at_end {fs : FS} {l : Log} (hs : Sorted (dirEntries fs)) (hL : l.logfiles = scan fs)
    (hge : l.readIdx ≥ l.logfiles.length) (p : Nat × Nat) : Behind fs l p := by
  right
  refine ⟨hge, ?_⟩
  intro f hf hl hle
  exfalso
  have hscan : scan fs = dirEntries fs := sortLF_of_sorted _ hs
  have hmem : (⟨f.name, f.size⟩ : LF) ∈ l.logfiles := by rw [hL, hscan]; exact mem_dirEntries.mpr ⟨f, hf, hl, rfl⟩
  have hnone : l.logfiles[l.readIdx]? = none := List.getElem?_eq_none_iff.mpr hge
  cases hlast : l.logfiles.getLast? with
  | none => rw [List.getLast?_eq_none_iff.mp hlast] at hmem; cases hmem
  | some last =>
    have h1 := sorted_le_last (by rw [hL, hscan]; exact hs) hmem hlast
    simp only [cur, hnone, hlast] at hle
    simp only at h1
    omega

theorem adv_refresh {fs : FS} {l : Log} (hs : Sorted (dirEntries fs)) : Adv fs l (refreshLogfiles l fs) := by
  have hscan : scan fs = dirEntries fs := sortLF_of_sorted _ hs
  have hlog := refreshLogfiles_logfiles l fs
  have hidx := refreshLogfiles_readIdx l fs
  by_cases hge : (refreshLogfiles l fs).readIdx ≥ (refreshLogfiles l fs).logfiles.length
  · intro p _; exact behind_all_at_end hs hlog hge p
  · have hlt : refreshIdx (scan fs) (oldKey l) < (scan fs).length := by rw [hlog, hidx] at hge; omega
    have hget : (scan fs)[refreshIdx (scan fs) (oldKey l)]? = some (scan fs)[refreshIdx (scan fs) (oldKey l)] :=
      List.getElem?_eq_getElem hlt
    generalize (scan fs)[refreshIdx (scan fs) (oldKey l)] = lf' at hget
    have hget' : (refreshLogfiles l fs).logfiles[(refreshLogfiles l fs).readIdx]? = some lf' := by rw [hlog, hidx]; exact hget
    cases hk : refreshKept (scan fs) (oldKey l) with
    | true =>
      obtain ⟨hrf, hk2, lf'', hg2, hts⟩ := refreshLogfiles_kept hk
      rw [hget] at hg2; cases hg2
      cases hv : l.logfiles[l.readIdx]? with
      | none => simp only [oldKey, hv] at hk2; split at hk2 <;> cases hk2
      | some lf =>
        have hkey : oldKey l = (lf.ts, true) := by simp [oldKey, hv]
        apply adv_of_cur_eq
        · rw [cur_valid hget', cur_valid hv, hrf, hts, hkey]
        · intro h; have := (List.getElem?_eq_some_iff.mp hv).1; omega
    | false =>
      have hno := refreshLogfiles_not_kept hk
      have hcur := cur_not_opened hget' hno
      have hgt : (oldKey l).1 < lf'.ts := by
        rcases refreshIdx_at hget with ⟨h1, h2⟩ | h1
        · exfalso
          simp [refreshKept, hget, h1, h2] at hk
        · exact h1
      obtain ⟨f, hf, hfl, hfe⟩ := mem_dirEntries.mp (by rw [← hscan]; exact List.mem_of_getElem? hget)
      have hfn : f.name = lf'.ts := by rw [hfe]
      intro p hp
      left
      rw [hcur]
      unfold posLt
      simp only
      left
      cases hv : l.logfiles[l.readIdx]? with
      | some lf =>
        have hkey : oldKey l = (lf.ts, true) := by simp [oldKey, hv]
        rw [hkey] at hgt
        rcases hp with hp | hp
        · rw [cur_valid hv] at hp; unfold posLt at hp; simp only at hp hgt; omega
        · have := (List.getElem?_eq_some_iff.mp hv).1; have := hp.1; omega
      | none =>
        have hge' : l.readIdx ≥ l.logfiles.length := List.getElem?_eq_none_iff.mp hv
        rcases cur_end hge' with hc | ⟨hc, _⟩
        · rcases hp with hp | hp
          · rw [hc] at hp; unfold posLt at hp; simp only at hp; omega
          · have := hp.2 f hf hfl (by rw [hc]; simp only; omega); omega
        · rcases hp with hp | hp
          · rw [hc] at hp; unfold posLt at hp; simp only at hp; omega
          · have := hp.2 f hf hfl (by rw [hc]; simp); omega

/-- the loop's result is at or after the position it was entered at -/
def ScanGe (l : Log) : Scan → Prop
  | .data i _ off _ => ∃ lfi, l.logfiles[i]? = some lfi ∧ posLe (cur l) (lfi.ts, off)
  | .eofLast i _ off => ∃ lfi, l.logfiles[i]? = some lfi ∧ posLe (cur l) (lfi.ts, off)
  | .exhausted => True

theorem posLe_refl (a : Nat × Nat) : posLe a a := by unfold posLe; omega

theorem startScan_ge {fs : FS} {l : Log} (b : Bool) (h : RInv fs l) (hlt : l.readIdx < l.logfiles.length) :
    ScanGe l (startScan l fs b) := by
  have h0 : l.logfiles[l.readIdx]? = some l.logfiles[l.readIdx] := List.getElem?_eq_getElem hlt
  generalize l.logfiles[l.readIdx] = lf0 at h0
  have fromSpec : ∀ idx1 o, l.readIdx ≤ idx1 → cur l = (lf0.ts, o) → (idx1 = l.readIdx → o = 0) →
      ScanGe l (scanFrom fs b idx1 (l.logfiles.drop idx1)) := by
    intro idx1 o hle hc ho
    have hsp := scanFrom_spec fs b l.logfiles _ idx1 rfl
    have key : ∀ i lf, idx1 ≤ i → l.logfiles[i]? = some lf → posLe (cur l) (lf.ts, 0) := by
      intro i lf hi hlf
      rw [hc]; unfold posLe; simp only
      by_cases e : i = l.readIdx
      · subst e; rw [h0] at hlf; cases hlf; have := ho (by omega); omega
      · have := sorted_getElem_lt h.list.sorted h0 hlf (by omega); omega
    cases hsc : scanFrom fs b idx1 (l.logfiles.drop idx1) with
    | data i ino off d =>
      rw [hsc] at hsp
      obtain ⟨h1, h2, _, _, ⟨lf, hlf, _⟩, _⟩ := hsp
      exact ⟨lf, hlf, by rw [h2]; exact key i lf h1 hlf⟩
    | eofLast i ino off =>
      rw [hsc] at hsp
      obtain ⟨h1, _, h2, _, ⟨lf, hlf, _⟩, _⟩ := hsp
      exact ⟨lf, hlf, by rw [h2]; exact key i lf h1 hlf⟩
    | exhausted => trivial
  unfold startScan
  split
  · rename_i ino off ho
    have hc : cur l = (lf0.ts, off) := by rw [cur_valid h0, ho]
    unfold scanOpen
    simp only
    split
    · exact ⟨lf0, h0, by rw [hc]; exact posLe_refl _⟩
    · split
      · exact ⟨lf0, h0, by rw [hc]; exact posLe_refl _⟩
      · exact fromSpec _ off (Nat.le_succ _) hc (by omega)
  · rename_i hno
    exact fromSpec _ 0 (Nat.le_refl _) (cur_not_opened h0 (fun ino off => hno ino off)) (fun _ => rfl)

theorem cur_readFinish_data (l : Log) {i ino off : Nat} {d : List Rec} {lfi : LF} (h : l.logfiles[i]? = some lfi) :
    cur (readFinish l (.data i ino off d)).1 = (lfi.ts, off + recsSize d) := by
  simp [readFinish, cur, h]

theorem adv_finish {fs : FS} {l : Log} (b : Bool) (h : RInv fs l) (hlt : l.readIdx < l.logfiles.length) :
    Adv fs l (readFinish l (startScan l fs b)).1 := by
  apply adv_of_le hlt
  have hge := startScan_ge b h hlt
  cases hsc : startScan l fs b with
  | data i ino off d =>
    rw [hsc] at hge
    obtain ⟨lfi, hlfi, hle⟩ := hge
    rw [cur_readFinish_data l hlfi]
    unfold posLe at *; simp only at *; omega
  | eofLast i ino off =>
    rw [hsc] at hge
    obtain ⟨lfi, hlfi, hle⟩ := hge
    have : cur (readFinish l (.eofLast i ino off)).1 = (lfi.ts, off) := by simp [readFinish, cur, hlfi]
    rw [this]; exact hle
  | exhausted =>
    have h0 : l.logfiles[l.readIdx]? = some l.logfiles[l.readIdx] := List.getElem?_eq_getElem hlt
    generalize l.logfiles[l.readIdx] = lf0 at h0
    cases hlast : l.logfiles.getLast? with
    | none => rw [List.getLast?_eq_none_iff.mp hlast] at hlt; simp at hlt
    | some last =>
      have : cur (readFinish l .exhausted).1 = (last.ts + 1, 0) := by simp [readFinish, cur, hlast]
      rw [this, cur_valid h0]
      have := sorted_le_last h.list.sorted (List.mem_of_getElem? h0) hlast
      unfold posLe; simp only; omega

theorem adv_next {fs : FS} {l : Log} (h : RInv fs l) :
    Adv fs l { l with readIdx := eofNextIdx patched l, readFile := .none } := by
  by_cases hn : rfIsNone l.readFile = true
  · have hrf : l.readFile = .none := by cases hr : l.readFile <;> simp [rfIsNone, hr] at hn ⊢
    have e : eofNextIdx patched l = l.readIdx := by simp [eofNextIdx, patched, hn]
    rw [e]
    exact adv_of_cur_eq (by simp [cur, hrf]) (fun hge => hge)
  · have e : eofNextIdx patched l = l.readIdx + 1 := by simp [eofNextIdx, hn]
    rw [e]
    by_cases hge : l.readIdx ≥ l.logfiles.length
    · have h1 : l.logfiles[l.readIdx]? = none := List.getElem?_eq_none_iff.mpr hge
      have h2 : l.logfiles[l.readIdx + 1]? = none := List.getElem?_eq_none_iff.mpr (by omega)
      exact adv_of_cur_eq (by simp [cur, h1, h2]) (fun _ => by simp only; omega)
    · have hlt : l.readIdx < l.logfiles.length := by omega
      have h0 : l.logfiles[l.readIdx]? = some l.logfiles[l.readIdx] := List.getElem?_eq_getElem hlt
      generalize l.logfiles[l.readIdx] = lf0 at h0
      apply adv_of_le hlt
      rw [cur_valid h0]
      cases hnx : l.logfiles[l.readIdx + 1]? with
      | some lfn =>
        have := sorted_getElem_lt h.list.sorted h0 hnx (by omega)
        have hc : cur { l with readIdx := l.readIdx + 1, readFile := RF.none } = (lfn.ts, 0) := by simp [cur, hnx]
        rw [hc]; unfold posLe; simp only; omega
      | none =>
        cases hlast : l.logfiles.getLast? with
        | none => rw [List.getLast?_eq_none_iff.mp hlast] at hlt; simp at hlt
        | some last =>
          have := sorted_le_last h.list.sorted (List.mem_of_getElem? h0) hlast
          have hc : cur { l with readIdx := l.readIdx + 1, readFile := RF.none } = (last.ts + 1, 0) := by simp [cur, hnx, hlast]
          rw [hc]; unfold posLe; simp only; omega

theorem RStep.adv {fs : FS} {b : Bool} {l l1 : Log} (hs : Sorted (dirEntries fs)) (h : RInv fs l) (st : RStep fs b l l1) :
    Adv fs l l1 := by
  induction st with
  | refl => exact Adv.refl _ _
  | refresh _ ih => exact ih.trans (adv_refresh hs)
  | finish st' hlt ih => exact ih.trans (adv_finish b (st'.rinv hs h) hlt)
  | next st' _ ih => exact ih.trans (adv_next (st'.rinv hs h))

/-! ## the ghost stream of everything delivered -/

/-- the records a `read` returned, tagged with the file and offset the reader took them from (`readTarget`: the
reader's position after the call minus the bytes returned) -/
def delivOf (l' : Log) : Res → List TRec
  | .recs d => tagOff (readTarget l' (.recs d)).1 (readTarget l' (.recs d)).2 d
  | _ => []

/-- what op `op` hands to the user of the read-only instance -/
def delivStep (s : Sys) : Op → List TRec
  | .read .r b => delivOf (read patched s.r s.fs b).1 (read patched s.r s.fs b).2
  | _ => []

/-- everything the read-only instance returned along `ops`, in the order returned -/
def delivered (s : Sys) : List Op → List TRec
  | [] => []
  | op :: ops => delivStep s op ++ delivered (step patched s op).1 ops

/-- the same without the ghost tags: the concatenation of the `read` / `read_block` results of the read-only instance -/
def returned (s : Sys) : List Op → List Rec
  | [] => []
  | op :: ops =>
    (match op, (step patched s op).2 with
      | .read .r _, .recs d => d
      | _, _ => []) ++ returned (step patched s op).1 ops

theorem delivOf_vals (l' : Log) (res : Res) : (delivOf l' res).map (·.val) = match res with | .recs d => d | _ => [] := by
  cases res <;> simp [delivOf, tagOff_map_val]

/-- the ghost tags are only tags: dropping them gives exactly what the calls returned -/
theorem delivered_vals (s : Sys) (ops : List Op) : (delivered s ops).map (·.val) = returned s ops := by
  induction ops generalizing s with
  | nil => rfl
  | cons op ops ih =>
    simp only [delivered, returned, List.map_append, ih]
    congr 1
    cases op with
    | read who b =>
      cases who with
      | w => simp [delivStep]
      | r =>
        simp only [delivStep, delivOf_vals, step, Sys.get]
        cases (read patched s.r s.fs b).2 <;> rfl
    | _ => simp [delivStep]

theorem run_append (p : Policy) (s : Sys) (a b : List Op) : run p s (a ++ b) = run p (run p s a) b := by
  induction a generalizing s with
  | nil => rfl
  | cons op a ih => simp only [List.cons_append, run, ih]

theorem delivered_append (s : Sys) (a b : List Op) :
    delivered s (a ++ b) = delivered s a ++ delivered (run patched s a) b := by
  induction a generalizing s with
  | nil => rfl
  | cons op a ih => simp only [List.cons_append, delivered, run, ih, List.append_assoc]

/-- **one successful read**: the data is a run of whole consecutive records `k0 …` of one file `f`, taken from the
position `readTarget`, which everything that was behind the reader before the call is strictly below; afterwards the
reader stands right behind the data -/
theorem read_delivery {fs : FS} {l : Log} {b : Bool} {d : List Rec} (hs : Sorted (dirEntries fs)) (h : RInv fs l)
    (ha : Aligned fs l) (hd : (read patched l fs b).2 = .recs d) :
    ∃ f k0 t, f ∈ fs ∧ k0 ≤ f.recs.length ∧ d ++ t = f.recs.drop k0 ∧ d ≠ [] ∧
      readTarget (read patched l fs b).1 (.recs d) = (f.name, recsSize (f.recs.take k0)) ∧
      cur (read patched l fs b).1 = (f.name, recsSize (f.recs.take k0) + recsSize d) ∧
      (read patched l fs b).1.readIdx < (read patched l fs b).1.logfiles.length ∧
      ∀ p, Behind fs l p → posLt p (f.name, recsSize (f.recs.take k0)) := by
  obtain ⟨l0, st, hlt, hform⟩ := (read_rstep l fs b).2 d hd
  have h0 := st.rinv hs h
  have ha0 := st.aligned ha
  have hadv := st.adv hs h
  rw [hform] at hd ⊢
  obtain ⟨i, ino, off, hsc⟩ := readFinish_recs hd
  have hoff := startScan_off fs l0 b
  have hok := startScan_ok h0.opened b
  have hge := startScan_ge b h0 hlt
  obtain ⟨_, hne⟩ := startScan_data hsc
  rw [hsc] at hoff hok hge ⊢
  obtain ⟨ho1, ho2⟩ := hoff
  obtain ⟨f, lf, hf, hlf, hname⟩ := hok
  obtain ⟨lf', hlf', hle⟩ := hge
  rw [hlf] at hlf'; cases hlf'
  obtain ⟨k0, t, hk, hoffk, hrun, _⟩ := fileData_aligned b (alignedAt_of_scan ha0 ho1)
  rw [inodeRecs_eq hf] at hk hoffk hrun
  rw [← ho2] at hrun
  refine ⟨f, k0, t, List.mem_of_getElem? hf, hk, hrun, hne, ?_, ?_, ?_, ?_⟩
  · have := target_data l0 (ino := ino) (off := off) (d := d) hlf
    simp only [readFinish] at this ⊢
    rw [this, hname, hoffk]
  · rw [cur_readFinish_data l0 hlf, hname, hoffk]
  · simp only [readFinish]; exact (List.getElem?_eq_some_iff.mp hlf).1
  · intro p hp
    rcases hadv p hp with h1 | h1
    · rw [← hname, ← hoffk]; unfold posLt posLe at *; omega
    · have := h1.1; omega

/-- **`refresh()` passes over nothing that is in the directory** (the counterpart of `read_not_passed`) -/
theorem refresh_not_passed {fs : FS} {l : Log} (hs : Sorted (dirEntries fs)) (hpos : ∀ e ∈ dirEntries fs, 0 < e.ts) :
    ¬ Passed fs (cur l) (cur (refreshLogfiles l fs)) := by
  have hscan : scan fs = dirEntries fs := sortLF_of_sorted _ hs
  have hlog := refreshLogfiles_logfiles l fs
  have hidx := refreshLogfiles_readIdx l fs
  have hsorted : Sorted (scan fs) := by rw [hscan]; exact hs
  -- entries before the new index are below the old position
  have hb : ∀ j lf, (scan fs)[j]? = some lf → j < refreshIdx (scan fs) (oldKey l) → lf.ts < (cur l).1 := by
    intro j lf hj hji
    obtain ⟨h1, h2⟩ := refreshIdx_before _ _ j lf hj hji
    have hp : 0 < lf.ts := hpos lf (by rw [← hscan]; exact List.mem_of_getElem? hj)
    cases hv : l.logfiles[l.readIdx]? with
    | some lf0 =>
      have hkey : oldKey l = (lf0.ts, true) := by simp [oldKey, hv]
      rw [hkey] at h2
      rw [cur_valid hv]
      exact h2 rfl
    | none =>
      rcases cur_end (List.getElem?_eq_none_iff.mp hv) with hc | ⟨hc, hk0⟩
      · rw [hc]; simp only; omega
      · omega
  cases hk : refreshKept (scan fs) (oldKey l) with
  | true =>
    obtain ⟨hrf, hk2, lf', hget, hts⟩ := refreshLogfiles_kept hk
    have hget' : (refreshLogfiles l fs).logfiles[(refreshLogfiles l fs).readIdx]? = some lf' := by rw [hlog, hidx]; exact hget
    cases hv : l.logfiles[l.readIdx]? with
    | none => simp only [oldKey, hv] at hk2; split at hk2 <;> cases hk2
    | some lf =>
      have hkey : oldKey l = (lf.ts, true) := by simp [oldKey, hv]
      have : cur (refreshLogfiles l fs) = cur l := by rw [cur_valid hget', cur_valid hv, hrf, hts, hkey]
      rw [this]; exact not_passed_refl _ _
  | false =>
    have hno := refreshLogfiles_not_kept hk
    apply jump_not_passed (L' := scan fs) (complete_scan hs)
    · by_cases hge : (refreshLogfiles l fs).readIdx ≥ (refreshLogfiles l fs).logfiles.length
      · rcases cur_end hge with hc | ⟨hc, _⟩ <;> rw [hc]
      · have hlt : (refreshLogfiles l fs).readIdx < (refreshLogfiles l fs).logfiles.length := by omega
        rw [cur_not_opened (List.getElem?_eq_getElem hlt) hno]
    · intro lf hlf hlt
      obtain ⟨j, hj⟩ := List.mem_iff_getElem?.mp hlf
      apply hb j lf hj
      by_cases hji : j < refreshIdx (scan fs) (oldKey l)
      · exact hji
      · exfalso
        have hjl := (List.getElem?_eq_some_iff.mp hj).1
        by_cases hge : (refreshLogfiles l fs).readIdx ≥ (refreshLogfiles l fs).logfiles.length
        · rw [hlog, hidx] at hge; omega
        · have hlt' : refreshIdx (scan fs) (oldKey l) < (scan fs).length := by rw [hlog, hidx] at hge; omega
          have hget : (scan fs)[refreshIdx (scan fs) (oldKey l)]? = some (scan fs)[refreshIdx (scan fs) (oldKey l)] :=
            List.getElem?_eq_getElem hlt'
          generalize (scan fs)[refreshIdx (scan fs) (oldKey l)] = lf' at hget
          have hget' : (refreshLogfiles l fs).logfiles[(refreshLogfiles l fs).readIdx]? = some lf' := by
            rw [hlog, hidx]; exact hget
          rw [cur_not_opened hget' hno] at hlt
          simp only at hlt
          by_cases e : j = refreshIdx (scan fs) (oldKey l)
          · subst e; rw [hget] at hj; cases hj; omega
          · have := sorted_getElem_lt hsorted hget hj (by omega); omega

/-! ## steps that change the directory but not the reader -/

def Holds (fs fs' : FS) : Prop := ∀ (i : Nat) (f : File), fs[i]? = some f → ∃ f', fs'[i]? = some f' ∧ Later f f'

theorem Holds.refl (fs : FS) : Holds fs fs := fun _ f h => ⟨f, h, Later.refl f⟩

theorem behind_later {fs fs' : FS} {l : Log} {p : Nat × Nat} (hold : Holds fs fs') (hinc : NamesInc fs')
    (hp : ∃ g ∈ fs, g.name = p.1) (h : Behind fs l p) : Behind fs' l p := by
  rcases h with h | ⟨h1, h2⟩
  · exact Or.inl h
  · right
    refine ⟨h1, ?_⟩
    intro f' hf' hl hle
    obtain ⟨i, hi⟩ := List.mem_iff_getElem?.mp hf'
    by_cases hlt : i < fs.length
    · obtain ⟨f'', hf'', hlat⟩ := hold i fs[i] (List.getElem?_eq_getElem hlt)
      rw [hi] at hf''; cases hf''
      have := h2 fs[i] (List.getElem_mem hlt) (hlat.linked hl) (by rw [← hlat.name]; exact hle)
      rw [hlat.name]; exact this
    · obtain ⟨g, hg, hgn⟩ := hp
      obtain ⟨j, hj⟩ := List.mem_iff_getElem?.mp hg
      obtain ⟨g', hg', hlat⟩ := hold j g hj
      have hjl : j < fs.length := (List.getElem?_eq_some_iff.mp hj).1
      obtain ⟨hj', hje⟩ := List.getElem?_eq_some_iff.mp hg'
      obtain ⟨hi', hie⟩ := List.getElem?_eq_some_iff.mp hi
      have hpw := List.pairwise_iff_getElem.mp hinc j i (by simpa using hj') (by simpa using hi') (by omega)
      simp only [List.getElem_map, hje, hie] at hpw
      have := hlat.name
      omega

theorem aligned_later {fs fs' : FS} {l : Log} (hold : Holds fs fs') (h : Aligned fs l) : Aligned fs' l := by
  intro ino off ho
  obtain ⟨k, hk, hoff⟩ := h ino off ho
  cases hf : fs[ino]? with
  | none =>
    have : inodeRecs fs ino = [] := by simp [inodeRecs, hf]
    rw [this] at hk hoff
    exact ⟨0, Nat.zero_le _, by simp at hk; subst hk; simpa [recsSize] using hoff⟩
  | some f =>
    obtain ⟨f', hf', hlat⟩ := hold ino f hf
    rw [inodeRecs_eq hf] at hk hoff
    obtain ⟨t, ht⟩ := hlat.recs
    refine ⟨k, ?_, ?_⟩
    · rw [inodeRecs_eq hf', ← ht]; simp; omega
    · rw [inodeRecs_eq hf', ← ht, List.take_append_of_le_length hk]; exact hoff

/-! ## segments -/

/-- ops of the read-only instance that set a position (and so start a new segment of the delivered stream): every
seek, a restart, and `close` / a crash (after which every call fails until the restart) -/
def Cut : Op → Bool
  | .seekStart .r | .seekEnd .r | .seek .r _ _ | .seekInvalid .r | .seekBlock .r _ | .reopen .r _ | .close .r => true
  | .save .r (some _) => true
  | _ => false

def NoCut (ops : List Op) : Prop := ∀ op ∈ ops, Cut op = false

/-- within a segment the reader's state changes only by `read` and `refresh` -/
theorem step_r_noncut (s : Sys) (op : Op) (h : Cut op = false) (hrd : s.r.rdonly = true) :
    ((step patched s op).1.r = s.r ∧ delivStep s op = []) ∨
    (∃ b, op = .read .r b ∧ (step patched s op).1.fs = s.fs ∧ (step patched s op).1.r = (read patched s.r s.fs b).1) ∨
    (op = .refresh .r ∧ delivStep s op = [] ∧ (step patched s op).1.fs = s.fs ∧ (step patched s op).1.r = refreshLogfiles s.r s.fs) := by
  cases op with
  | write recs us => left; exact ⟨rfl, rfl⟩
  | delete name => left; exact ⟨rfl, rfl⟩
  | tell who => left; exact ⟨rfl, rfl⟩
  | read who b =>
    cases who with
    | w => left; exact ⟨rfl, rfl⟩
    | r => right; left; exact ⟨b, rfl, rfl, rfl⟩
  | refresh who =>
    cases who with
    | w => left; exact ⟨rfl, rfl⟩
    | r =>
      by_cases hc : s.r.readFile = .closed
      · left; exact ⟨by simp [step, Sys.get, Sys.set, refresh, hrd, hc], rfl⟩
      · right; right
        refine ⟨rfl, rfl, rfl, ?_⟩
        simp only [step, Sys.get, Sys.set, refresh, hrd, Bool.not_true, Bool.false_eq_true, ↓reduceIte]
  | seekStart who => cases who <;> first | (left; exact ⟨rfl, rfl⟩) | simp [Cut] at h
  | seekEnd who => cases who <;> first | (left; exact ⟨rfl, rfl⟩) | simp [Cut] at h
  | seek who n o => cases who <;> first | (left; exact ⟨rfl, rfl⟩) | simp [Cut] at h
  | seekInvalid who => cases who <;> first | (left; exact ⟨rfl, rfl⟩) | simp [Cut] at h
  | seekBlock who us => cases who <;> first | (left; exact ⟨rfl, rfl⟩) | simp [Cut] at h
  | reopen who ar => cases who <;> first | (left; exact ⟨rfl, rfl⟩) | simp [Cut] at h
  | close who => cases who <;> first | (left; exact ⟨rfl, rfl⟩) | simp [Cut] at h
  | save who c =>
    cases who with
    | w => left; exact ⟨rfl, rfl⟩
    | r =>
      cases c with
      | some k => simp [Cut] at h
      | none =>
        left
        refine ⟨?_, rfl⟩
        simp only [step, Sys.get, Sys.set, writeHead]
        by_cases hh : (!s.r.hasHead) = true
        · simp only [hh, ↓reduceIte]
        · simp only [hh, Bool.false_eq_true, ↓reduceIte]
          cases s.r.readFile <;> rfl

/-! ## the invariant of a segment -/

/-- the tagged record is in a file that is in the directory -/
def Live (fs : FS) (x : TRec) : Prop :=
  ∃ f ∈ fs, f.linked = true ∧ f.name = x.name ∧ ∃ k, f.recs[k]? = some x.val ∧ x.off = recsSize (f.recs.take k)

theorem not_passed_live {fs : FS} {a c : Nat × Nat} {x : TRec} (h : ¬ Passed fs a c) (hl : Live fs x) (ha : posLe a x.pos) :
    ¬ posLt x.pos c := by
  intro hc
  obtain ⟨f, hf, hlk, hn, k, hk, ho⟩ := hl
  apply h
  refine ⟨f, hf, hlk, k, (List.getElem?_eq_some_iff.mp hk).1, ?_, ?_⟩
  · rw [hn, ← ho]; exact ha
  · rw [hn, ← ho]; exact hc

theorem names_unique_mem {fs : FS} (hi : NamesInc fs) {f g : File} (hf : f ∈ fs) (hg : g ∈ fs) (e : f.name = g.name) : f = g := by
  obtain ⟨i, hi'⟩ := List.mem_iff_getElem?.mp hf
  obtain ⟨j, hj⟩ := List.mem_iff_getElem?.mp hg
  have := names_unique hi hi' hj e
  subst this
  rw [hi'] at hj; exact Option.some.inj hj

/-- what holds of the state and of the stream delivered so far, at every point of a segment -/
structure Core (s : Sys) (D : List TRec) : Prop where
  g : GInv s
  al : Aligned s.fs s.r
  mem : ∀ x ∈ D, x ∈ written s.fs
  behind : ∀ x ∈ D, Behind s.fs s.r x.pos
  sorted : D.Pairwise tLt

/-- what one op of a segment does -/
structure CoreStep (s : Sys) (D : List TRec) (op : Op) : Prop where
  core : Core (step patched s op).1 (D ++ delivStep s op)
  cross : ∀ x, posLe (cur s.r) x.pos → posLt x.pos (cur (step patched s op).1.r) → x ∈ delivStep s op ∨ ¬ Live s.fs x
  below : ∀ y ∈ delivStep s op, posLt y.pos (cur (step patched s op).1.r)

theorem mem_written_name {fs : FS} {x : TRec} (h : x ∈ written fs) : ∃ g ∈ fs, g.name = x.pos.1 := by
  obtain ⟨f, hf, hn, _⟩ := mem_written.mp h
  exact ⟨f, hf, hn⟩

theorem core_same {s : Sys} {D : List TRec} {op : Op} (h : Core s D) (hg : GoodOp op)
    (hr : (step patched s op).1.r = s.r) (hd : delivStep s op = []) : CoreStep s D op := by
  have g' := h.g.step op hg
  have hold : Holds s.fs (step patched s op).1.fs := fun i f hi => step_inode h.g.base op i f hi
  refine ⟨⟨g', ?_, ?_, ?_, ?_⟩, ?_, ?_⟩
  · rw [hr]; exact aligned_later hold h.al
  · rw [hd, List.append_nil]; intro x hx; exact written_later hold (h.mem x hx)
  · rw [hd, List.append_nil, hr]; intro x hx
    exact behind_later hold g'.inc (mem_written_name (h.mem x hx)) (h.behind x hx)
  · rw [hd, List.append_nil]; exact h.sorted
  · intro x h1 h2
    rw [hr] at h2
    unfold posLe at h1; unfold posLt at h2; omega
  · rw [hd]; intro y hy; cases hy

theorem dir_pos {s : Sys} (g : GInv s) : ∀ e ∈ dirEntries s.fs, 0 < e.ts := by
  intro e he
  obtain ⟨f, hf, _, rfl⟩ := mem_dirEntries.mp he
  exact g.pos f hf

theorem core_refresh {s : Sys} {D : List TRec} (h : Core s D) (hg : GoodOp (.refresh .r))
    (hd : delivStep s (.refresh .r) = []) (hfs : (step patched s (.refresh .r)).1.fs = s.fs)
    (hr : (step patched s (.refresh .r)).1.r = refreshLogfiles s.r s.fs) : CoreStep s D (.refresh .r) := by
  have g' := h.g.step _ hg
  have hsd := h.g.base.w.sortedD
  refine ⟨⟨g', ?_, ?_, ?_, ?_⟩, ?_, ?_⟩
  · rw [hfs, hr]; exact ((RStep.refl (fs := s.fs) (b := true) (l := s.r)).refresh).aligned h.al
  · rw [hd, List.append_nil, hfs]; exact h.mem
  · rw [hd, List.append_nil, hfs, hr]; intro x hx; exact adv_refresh hsd _ (h.behind x hx)
  · rw [hd, List.append_nil]; exact h.sorted
  · intro x h1 h2
    right
    intro hl
    rw [hr] at h2
    exact not_passed_live (refresh_not_passed hsd (dir_pos h.g)) hl h1 h2
  · rw [hd]; intro y hy; cases hy

theorem delivOf_nonrecs (l' : Log) {res : Res} (h : ∀ d, res ≠ .recs d) : delivOf l' res = [] := by
  cases res <;> simp_all [delivOf]

theorem readTarget_nonrecs (l' : Log) {res : Res} (h : ∀ d, res ≠ .recs d) : readTarget l' res = cur l' := by
  cases res <;> simp_all [readTarget]

theorem core_read_none {s : Sys} {D : List TRec} {b : Bool} (h : Core s D) (hg : GoodOp (.read .r b))
    (hres : ∀ d, (read patched s.r s.fs b).2 ≠ .recs d) : CoreStep s D (.read .r b) := by
  have g' := h.g.step _ hg
  have hsd := h.g.base.w.sortedD
  have hfs : (step patched s (.read .r b)).1.fs = s.fs := rfl
  have hr : (step patched s (.read .r b)).1.r = (read patched s.r s.fs b).1 := rfl
  have hd : delivStep s (.read .r b) = [] := delivOf_nonrecs _ hres
  have st := (read_rstep s.r s.fs b).1
  refine ⟨⟨g', ?_, ?_, ?_, ?_⟩, ?_, ?_⟩
  · rw [hfs, hr]; exact st.aligned h.al
  · rw [hd, List.append_nil, hfs]; exact h.mem
  · rw [hd, List.append_nil, hfs, hr]; intro x hx; exact st.adv hsd h.g.r _ (h.behind x hx)
  · rw [hd, List.append_nil]; exact h.sorted
  · intro x h1 h2
    right
    intro hl
    have hnp := read_not_passed b hsd h.g.inc (dir_pos h.g) h.g.r
    rw [readTarget_nonrecs _ hres] at hnp
    rw [hr] at h2
    exact not_passed_live hnp hl h1 h2
  · rw [hd]; intro y hy; cases hy

theorem core_read_data {s : Sys} {D : List TRec} {b : Bool} {d : List Rec} (h : Core s D) (hg : GoodOp (.read .r b))
    (hres : (read patched s.r s.fs b).2 = .recs d) : CoreStep s D (.read .r b) := by
  have g' := h.g.step _ hg
  have hsd := h.g.base.w.sortedD
  have hfs : (step patched s (.read .r b)).1.fs = s.fs := rfl
  have hr : (step patched s (.read .r b)).1.r = (read patched s.r s.fs b).1 := rfl
  have st := (read_rstep s.r s.fs b).1
  obtain ⟨f, k0, t, hf, hk, hrun, hne, htgt, hcur, hidx, hbelow⟩ := read_delivery hsd h.g.r h.al hres
  have hd : delivStep s (.read .r b) = tagOff f.name (recsSize (f.recs.take k0)) d := by
    show delivOf _ _ = _
    rw [hres]; simp only [delivOf]; rw [htgt]
  have hnew : ∀ y ∈ tagOff f.name (recsSize (f.recs.take k0)) d,
      y.name = f.name ∧ recsSize (f.recs.take k0) ≤ y.off ∧ y.off < recsSize (f.recs.take k0) + recsSize d :=
    fun y hy => tagOff_pos_lt hy
  refine ⟨⟨g', ?_, ?_, ?_, ?_⟩, ?_, ?_⟩
  · rw [hfs, hr]; exact st.aligned h.al
  · rw [hd, hfs]
    intro x hx
    rcases List.mem_append.mp hx with hx | hx
    · exact h.mem x hx
    · exact tagOff_mem_written hf hk hrun hx
  · rw [hd, hfs, hr]
    intro x hx
    rcases List.mem_append.mp hx with hx | hx
    · exact st.adv hsd h.g.r _ (h.behind x hx)
    · left
      obtain ⟨h1, h2, h3⟩ := hnew x hx
      rw [hcur]; unfold posLt TRec.pos; simp only; omega
  · rw [hd, List.pairwise_append]
    refine ⟨h.sorted, tagOff_pairwise _ _ _, ?_⟩
    intro x hx y hy
    have h1 := hbelow x.pos (h.behind x hx)
    obtain ⟨h2, h3, _⟩ := hnew y hy
    unfold tLt posLt TRec.pos at *; simp only at *; omega
  · intro x h1 h2
    by_cases hl : Live s.fs x
    · left
      have hnp := read_not_passed b hsd h.g.inc (dir_pos h.g) h.g.r
      rw [hres, htgt] at hnp
      have h3 := not_passed_live hnp hl h1
      rw [hr, hcur] at h2
      obtain ⟨f1, hf1, hlk, hn, k, hkk, ho⟩ := hl
      have hxn : x.name = f.name := by unfold posLt TRec.pos at *; simp only at *; omega
      have : f1 = f := names_unique_mem h.g.inc hf1 hf (hn.trans hxn)
      subst this
      have hmem := mem_tagOff_of_range f1.name hk hrun hkk
        (by unfold posLt TRec.pos at *; simp only at *; omega) (by unfold posLt TRec.pos at *; simp only at *; omega)
      rw [hd]
      have hx : x = ⟨f1.name, recsSize (f1.recs.take k), x.val⟩ := by cases x; simp_all
      rw [hx]; exact hmem
    · right; exact hl
  · rw [hd, hr, hcur]
    intro y hy
    obtain ⟨h1, h2, h3⟩ := hnew y hy
    unfold posLt TRec.pos; simp only; omega

/-- every op of a segment keeps the invariant -/
theorem core_step {s : Sys} {D : List TRec} {op : Op} (h : Core s D) (hg : GoodOp op) (hc : Cut op = false) :
    CoreStep s D op := by
  rcases step_r_noncut s op hc h.g.base.rRd with ⟨hr, hd⟩ | ⟨b, rfl, _, _⟩ | ⟨rfl, hd, hfs, hr⟩
  · exact core_same h hg hr hd
  · by_cases hres : ∃ d, (read patched s.r s.fs b).2 = .recs d
    · obtain ⟨d, hd⟩ := hres; exact core_read_data h hg hd
    · exact core_read_none h hg (fun d hd => hres ⟨d, hd⟩)
  · exact core_refresh h hg hd hfs hr

/-- the reader went past the position of `x` at some op of the segment, and at that moment `x` was not a record of a
file in the directory -/
def SkippedAt (s0 : Sys) (seg : List Op) (x : TRec) : Prop :=
  ∃ seg1 op seg2, seg = seg1 ++ op :: seg2 ∧
    posLe (cur (run patched s0 seg1).r) x.pos ∧ posLt x.pos (cur (step patched (run patched s0 seg1) op).1.r) ∧
    ¬ Live (run patched s0 seg1).fs x

structure SegInv (s0 : Sys) (seg : List Op) : Prop where
  core : Core (run patched s0 seg) (delivered s0 seg)
  acc : ∀ x, posLe (cur s0.r) x.pos →
    (posLt x.pos (cur (run patched s0 seg).r) ∨ ∃ y ∈ delivered s0 seg, tLt x y) →
    x ∈ delivered s0 seg ∨ SkippedAt s0 seg x

theorem run_snoc (s : Sys) (pre : List Op) (op : Op) : run patched s (pre ++ [op]) = (step patched (run patched s pre) op).1 := by
  rw [run_append]; rfl

theorem delivered_snoc (s : Sys) (pre : List Op) (op : Op) :
    delivered s (pre ++ [op]) = delivered s pre ++ delivStep (run patched s pre) op := by
  rw [delivered_append]; simp [delivered]

theorem SegInv.snoc {s0 : Sys} {pre : List Op} {op : Op} (h : SegInv s0 pre) (hg : GoodOp op) (hc : Cut op = false) :
    SegInv s0 (pre ++ [op]) := by
  have cs := core_step h.core hg hc
  refine ⟨by rw [run_snoc, delivered_snoc]; exact cs.core, ?_⟩
  intro x hc0 hcase
  rw [run_snoc, delivered_snoc] at *
  have old : x ∈ delivered s0 pre ∨ SkippedAt s0 pre x →
      x ∈ delivered s0 pre ++ delivStep (run patched s0 pre) op ∨ SkippedAt s0 (pre ++ [op]) x := by
    rintro (h1 | ⟨seg1, op1, seg2, e, h2, h3, h4⟩)
    · exact Or.inl (List.mem_append_left _ h1)
    · exact Or.inr ⟨seg1, op1, seg2 ++ [op], by simp [e], h2, h3, h4⟩
  have hA : posLt x.pos (cur (step patched (run patched s0 pre) op).1.r) →
      x ∈ delivered s0 pre ++ delivStep (run patched s0 pre) op ∨ SkippedAt s0 (pre ++ [op]) x := by
    intro hlt'
    by_cases hlt : posLt x.pos (cur (run patched s0 pre).r)
    · exact old (h.acc x hc0 (Or.inl hlt))
    · have hle : posLe (cur (run patched s0 pre).r) x.pos := by unfold posLt at hlt; unfold posLe; omega
      rcases cs.cross x hle hlt' with h1 | h1
      · exact Or.inl (List.mem_append_right _ h1)
      · exact Or.inr ⟨pre, op, [], rfl, hle, hlt', h1⟩
  rcases hcase with h1 | ⟨y, hy, hxy⟩
  · exact hA h1
  · rcases List.mem_append.mp hy with hy | hy
    · exact old (h.acc x hc0 (Or.inr ⟨y, hy, hxy⟩))
    · apply hA
      have := cs.below y hy
      unfold tLt at hxy; unfold posLt at *; omega

theorem SegInv.run {s0 : Sys} {seg : List Op} : ∀ {pre : List Op}, SegInv s0 pre → NoWRestart seg → NoCut seg →
    SegInv s0 (pre ++ seg) := by
  induction seg with
  | nil => intro pre h _ _; simpa using h
  | cons op seg ih =>
    intro pre h hn hc
    have h1 := h.snoc (hn op (by simp)) (hc op (by simp))
    have := ih h1 (fun o ho => hn o (List.mem_cons_of_mem _ ho)) (fun o ho => hc o (List.mem_cons_of_mem _ ho))
    simpa using this

theorem SegInv.init {s0 : Sys} (g : GInv s0) (al : Aligned s0.fs s0.r) : SegInv s0 [] := by
  refine ⟨⟨g, al, ?_, ?_, List.Pairwise.nil⟩, ?_⟩
  · intro x hx; cases hx
  · intro x hx; cases hx
  · intro x h1 h2
    exfalso
    rcases h2 with h2 | ⟨y, hy, _⟩
    · simp only [OF.RollLog.run] at h2; unfold posLe at h1; unfold posLt at h2; omega
    · cases hy

/-! ## The whole-history theorem -/

theorem NoWRestart.split {a b : List Op} (h : NoWRestart (a ++ b)) : NoWRestart a ∧ NoWRestart b :=
  ⟨fun op ho => h op (List.mem_append_left _ ho), fun op ho => h op (List.mem_append_right _ ho)⟩

/-- the invariant at the end of any segment `seg` that follows any history `pre` -/
theorem segInv_reach (hd : HeadFS) (fsz tot : Nat) (hh ra : Bool) (pre seg : List Op) (hn : NoWRestart (pre ++ seg))
    (hcut : NoCut seg)
    (hal : Aligned (run patched (boot [] hd fsz tot hh ra) pre).fs (run patched (boot [] hd fsz tot hh ra) pre).r) :
    SegInv (run patched (boot [] hd fsz tot hh ra) pre) seg := by
  have g := (GInv.boot hd fsz tot hh ra).run pre hn.split.1
  have := (SegInv.init g hal).run hn.split.2 hcut
  simpa using this

/-! ## records written later lie at or above the end of every existing file -/

theorem scanFrom_exhausted (fs : FS) (b : Bool) : ∀ (rest : List LF) (idx : Nat), scanFrom fs b idx rest = .exhausted →
    ∀ last, rest.getLast? = some last → lookup fs last.ts = none := by
  intro rest
  induction rest with
  | nil => intro idx _ last hl; simp at hl
  | cons lf rest ih =>
    intro idx h last hl
    simp only [scanFrom] at h
    cases hlk : lookup fs lf.ts with
    | none =>
      rw [hlk] at h
      simp only at h
      cases rest with
      | nil => simp at hl; subst hl; exact hlk
      | cons y ys => exact ih (idx + 1) h last (by simpa using hl)
    | some ino =>
      rw [hlk] at h
      simp only at h
      split at h
      · cases h
      · split at h
        · cases h
        · rename_i hr
          cases rest with
          | nil => simp at hr
          | cons y ys => exact ih (idx + 1) h last (by simpa using hl)

theorem startScan_exhausted {fs : FS} {l : Log} {b : Bool} (hlt : l.readIdx < l.logfiles.length)
    (h : startScan l fs b = .exhausted) : ∀ last, l.logfiles.getLast? = some last → lookup fs last.ts = none := by
  intro last hl
  have hdrop : ∀ i, i < l.logfiles.length → (l.logfiles.drop i).getLast? = some last := by
    intro i hi
    rw [List.getLast?_drop]; simp [hl]; omega
  unfold startScan at h
  split at h
  · unfold scanOpen at h
    simp only at h
    split at h
    · cases h
    · split at h
      · cases h
      · rename_i hr
        have hne : l.logfiles.drop (l.readIdx + 1) ≠ [] := by simpa using hr
        have hi : l.readIdx + 1 < l.logfiles.length := by
          by_cases hi : l.readIdx + 1 < l.logfiles.length
          · exact hi
          · exact absurd (List.drop_eq_nil_of_le (by omega)) hne
        exact scanFrom_exhausted fs b _ _ h last (hdrop _ hi)
  · exact scanFrom_exhausted fs b _ _ h last (hdrop _ hlt)

theorem name_le_last {fs : FS} (hi : NamesInc fs) {fN g : File} (hl : fs.getLast? = some fN) (hg : g ∈ fs) : g.name ≤ fN.name := by
  obtain ⟨ys, rfl⟩ := List.getLast?_eq_some_iff.mp hl
  unfold NamesInc at hi
  rw [List.map_append, List.pairwise_append] at hi
  rcases List.mem_append.mp hg with h | h
  · exact Nat.le_of_lt (hi.2.2 g.name (List.mem_map_of_mem h) fN.name (by simp))
  · simp at h; subst h; exact Nat.le_refl _

theorem known_le_last {fs : FS} {L : List LF} (hL : RL fs L) (hi : NamesInc fs) {fN : File} (hl : fs.getLast? = some fN)
    {lf : LF} (hlf : lf ∈ L) : lf.ts ≤ fN.name := by
  obtain ⟨g, hg, hn⟩ := hL.known lf hlf
  rw [← hn]; exact name_le_last hi hl hg

/-- the reader stands at the end of a list whose last entry is named `N` -/
def EndAt (l : Log) (N : Nat) : Prop :=
  l.readIdx ≥ l.logfiles.length ∧ ∃ last, l.logfiles.getLast? = some last ∧ last.ts = N

theorem EndAt.cur {l : Log} {N : Nat} (h : EndAt l N) : cur l = (N + 1, 0) := by
  obtain ⟨h1, last, h2, h3⟩ := h
  have hnone : l.logfiles[l.readIdx]? = none := List.getElem?_eq_none_iff.mpr h1
  simp [OF.RollLog.cur, hnone, h2, h3]

/-- while the newest file `fN` is in the directory, no building block of `read` (and no refresh) MOVES the reader to the
end of a list that ends with `fN`: it can only have been there before -/
theorem RStep.endAt_back {fs : FS} {b : Bool} {l l1 : Log} {fN : File} (hs : Sorted (dirEntries fs)) (hi : NamesInc fs)
    (hpos : 0 < fN.name) (h : RInv fs l) (hl : fs.getLast? = some fN) (hlk : fN.linked = true) (st : RStep fs b l l1) :
    EndAt l1 fN.name → EndAt l fN.name := by
  have hscan : scan fs = dirEntries fs := sortLF_of_sorted _ hs
  have hfN : fN ∈ fs := List.mem_of_getLast? hl
  induction st with
  | refl => exact id
  | @refresh l1 st' ih =>
    intro hE
    apply ih
    have h1 := st'.rinv hs h
    have hge := hE.1
    rw [refreshLogfiles_logfiles, refreshLogfiles_readIdx] at hge
    have hmem : (⟨fN.name, fN.size⟩ : LF) ∈ scan fs := by rw [hscan]; exact mem_dirEntries.mpr ⟨fN, hfN, hlk, rfl⟩
    obtain ⟨j, hj⟩ := List.mem_iff_getElem?.mp hmem
    have hjl := (List.getElem?_eq_some_iff.mp hj).1
    obtain ⟨k1, k2⟩ := refreshIdx_before (scan fs) (oldKey l1) j _ hj (by omega)
    simp only at k1 k2
    cases hv : l1.logfiles[l1.readIdx]? with
    | some lf =>
      exfalso
      have hkey : oldKey l1 = (lf.ts, true) := by simp [oldKey, hv]
      rw [hkey] at k2
      have := known_le_last h1.list hi hl (List.mem_of_getElem? hv)
      have := k2 rfl
      omega
    | none =>
      refine ⟨List.getElem?_eq_none_iff.mp hv, ?_⟩
      unfold oldKey at k1
      rw [hv] at k1
      simp only at k1
      cases hlast : l1.logfiles.getLast? with
      | none => rw [hlast] at k1; simp only at k1; omega
      | some last =>
        rw [hlast] at k1
        simp only at k1
        have := known_le_last h1.list hi hl (List.mem_of_getLast? hlast)
        exact ⟨last, rfl, by omega⟩
  | @finish l1 st' hlt _ =>
    intro hE
    exfalso
    have h1 := st'.rinv hs h
    have hok := startScan_ok h1.opened b
    cases hsc : startScan l1 fs b with
    | data i ino off d =>
      rw [hsc] at hok hE
      obtain ⟨_, lf, _, hlf, _⟩ := hok
      have := (List.getElem?_eq_some_iff.mp hlf).1
      have := hE.1
      simp only [readFinish] at this
      omega
    | eofLast i ino off =>
      rw [hsc] at hok hE
      obtain ⟨_, lf, _, hlf, _⟩ := hok
      have := (List.getElem?_eq_some_iff.mp hlf).1
      have := hE.1
      simp only [readFinish] at this
      omega
    | exhausted =>
      rw [hsc] at hE
      obtain ⟨_, last, h2, h3⟩ := hE
      simp only [readFinish] at h2
      have hnone := startScan_exhausted hlt hsc last h2
      obtain ⟨i, hi'⟩ := List.mem_iff_getElem?.mp hfN
      have := lookup_of_linked hi hi' hlk
      rw [h3] at hnone
      rw [hnone] at this
      cases this
  | next _ hlt' _ =>
    intro hE
    have := hE.1
    simp only at this
    omega

/-- below the end of its list the reader is never beyond the end of the newest file -/
theorem cur_le_end {fs : FS} {l : Log} {fN : File} (hi : NamesInc fs) (h : RInv fs l) (ha : Aligned fs l)
    (hl : fs.getLast? = some fN) (hlt : l.readIdx < l.logfiles.length) : posLe (cur l) (fN.name, fN.size) := by
  have h0 : l.logfiles[l.readIdx]? = some l.logfiles[l.readIdx] := List.getElem?_eq_getElem hlt
  generalize l.logfiles[l.readIdx] = lf0 at h0
  have hle := known_le_last h.list hi hl (List.mem_of_getElem? h0)
  rw [cur_valid h0]
  unfold posLe
  simp only
  by_cases e : lf0.ts = fN.name
  · right
    refine ⟨e, ?_⟩
    cases hr : l.readFile with
    | none => exact Nat.zero_le _
    | closed => exact Nat.zero_le _
    | opened ino off =>
      simp only
      obtain ⟨f, lf, hf, hlf, hn⟩ := h.opened ino off hr
      rw [h0] at hlf; cases hlf
      have : f = fN := names_unique_mem hi (List.mem_of_getElem? hf) (List.mem_of_getLast? hl) (hn.symm.trans e)
      subst this
      obtain ⟨k, hk, hoff⟩ := ha ino off hr
      rw [inodeRecs_eq hf] at hk hoff
      have := size_take_le f.recs hk
      rw [List.take_length] at this
      rw [hoff]; exact this
  · left; omega

theorem cur_at_end {l : Log} (hge : l.readIdx ≥ l.logfiles.length) :
    cur l = (0, 0) ∨ ∃ last, l.logfiles.getLast? = some last ∧ cur l = (last.ts + 1, 0) := by
  have hnone : l.logfiles[l.readIdx]? = none := List.getElem?_eq_none_iff.mpr hge
  cases hlast : l.logfiles.getLast? with
  | none => left; simp [cur, hnone, hlast]
  | some last => right; exact ⟨last, rfl, by simp [cur, hnone, hlast]⟩

/-- **no position at or above the end of the newest file is passed while that file is in the directory**: if a read or
a refresh takes the reader from at or below such a position to above it, the position lies in the newest file and that
file has been unlinked -/
theorem cross_future {fs : FS} {b : Bool} {l l' : Log} {fN : File} {x : TRec} (hs : Sorted (dirEntries fs)) (hi : NamesInc fs)
    (hpos : 0 < fN.name) (h : RInv fs l) (st : RStep fs b l l') (ha' : Aligned fs l') (hl : fs.getLast? = some fN)
    (hfut : posLe (fN.name, fN.size) x.pos) (h1 : posLe (cur l) x.pos) (h2 : posLt x.pos (cur l')) :
    x.name = fN.name ∧ fN.linked = false := by
  have h' := st.rinv hs h
  by_cases hv : l'.readIdx < l'.logfiles.length
  · exfalso
    have := cur_le_end hi h' ha' hl hv
    unfold posLe posLt TRec.pos at *; simp only at *; omega
  · rcases cur_at_end (Nat.le_of_not_lt hv) with hc | ⟨last, hlast, hc⟩
    · exfalso; rw [hc] at h2; unfold posLt at h2; simp only at h2; omega
    · have hle := known_le_last h'.list hi hl (List.mem_of_getLast? hlast)
      rw [hc] at h2
      have hxn : x.name = fN.name ∧ last.ts = fN.name := by
        unfold posLe posLt TRec.pos at *; simp only at *; omega
      refine ⟨hxn.1, ?_⟩
      cases hlk : fN.linked with
      | false => rfl
      | true =>
        exfalso
        have hE : EndAt l' fN.name := ⟨Nat.le_of_not_lt hv, last, hlast, hxn.2⟩
        have := (st.endAt_back hs hi hpos h hl hlk hE).cur
        rw [this] at h1
        unfold posLe TRec.pos at h1; simp only at h1; omega

/-! ## a write appends to the newest inode only -/

theorem writeOpen_recs_same {fs : FS} {w : Log} (hw : WInv fs w) {ino : Nat} (ho : w.writeFile = .opened ino)
    (recs : List Rec) (i : Nat) (f : File) (h : fs[i]? = some f) (hne : i ≠ ino) :
    ∃ f', (writeOpen w fs ino recs).2[i]? = some f' ∧ f'.recs = f.recs := by
  have ha := hw.append_ok ho recs
  have h2 : (appendAt fs ino recs)[i]? = some f := by
    rw [appendAt_getElem?, h]; simp [hne]
  unfold writeOpen
  simp only
  split
  · obtain ⟨f', g1, _, g3, _⟩ := prune_inode ha i f h2
    split <;> exact ⟨f', g1, g3⟩
  · split <;> exact ⟨f, h2, rfl⟩

theorem openForWrite_last {fs : FS} {w : Log} (hw : WInv fs w) (hi : NamesInc fs) (hb : NamesBelow fs w) (us : Nat) :
    (openForWrite patched w fs us).2.2.1 + 1 = (openForWrite patched w fs us).2.1.length := by
  unfold openForWrite
  split
  · rename_i ino ho
    simp only
    obtain ⟨f0, lf, hf0, hlast, hname⟩ := hw.wf ino ho
    have hlt := (List.getElem?_eq_some_iff.mp hf0).1
    by_cases hnx : ino + 1 < fs.length
    · exfalso
      have hpw := List.pairwise_iff_getElem.mp hi ino (ino + 1) (by simpa using hlt) (by simpa using hnx) (by omega)
      simp only [List.getElem_map] at hpw
      obtain ⟨last, hl', hle⟩ := hb fs[ino + 1] (List.getElem_mem hnx)
      rw [hlast] at hl'; cases hl'
      have : fs[ino] = f0 := by
        have := List.getElem?_eq_getElem hlt
        rw [hf0] at this; exact (Option.some.inj this).symm
      rw [this] at hpw
      omega
    · omega
  · have hnone : lookup fs (newTs patched w.logfiles us) = none :=
      lookup_eq_none (fun e he => Nat.ne_of_lt (hw.newTs_fresh us e he))
    simp [create, hnone]

/-- every op leaves the records of every inode but the newest exactly as they are -/
theorem step_recs_same {s : Sys} (g : GInv s) (op : Op) (i : Nat) (f : File) (h : s.fs[i]? = some f) (hi : i + 1 < s.fs.length) :
    ∃ f', (step patched s op).1.fs[i]? = some f' ∧ f'.recs = f.recs := by
  cases op with
  | write recs us =>
    simp only [step]
    by_cases hc : s.w.writeFile = .closed
    · rw [write_closed _ _ _ _ _ hc]; exact ⟨f, h, rfl⟩
    · rw [write_open _ _ _ _ _ hc]
      obtain ⟨h1, _, h3, _, _, _⟩ := g.base.w.openForWrite_ok us
      have hlast := openForWrite_last g.base.w g.inc g.below us
      have hlen : s.fs.length ≤ (openForWrite patched s.w s.fs us).2.1.length := by
        rcases openForWrite_fs g.base.w us with e | e <;> rw [e] <;> simp
      have hf1 : (openForWrite patched s.w s.fs us).2.1[i]? = some f := by
        rcases openForWrite_fs g.base.w us with e | e
        · rw [e]; exact h
        · rw [e, List.getElem?_append_left (List.getElem?_eq_some_iff.mp h).1]; exact h
      exact writeOpen_recs_same h1 h3 recs i f hf1 (by omega)
  | delete name =>
    refine ⟨_, by simp only [step]; rw [unlink_getElem?, h]; rfl, ?_⟩
    show (if (f.name == name) = true then { f with linked := false } else f).recs = f.recs
    split <;> rfl
  | reopen who ar =>
    cases who with
    | r =>
      have e := construct_rdonly_fs s.r ar s.fs s.hd g.base.rRd
      exact ⟨f, by simp only [step, Sys.get, Sys.set]; rw [e]; exact h, rfl⟩
    | w =>
      obtain ⟨f', h1, h2⟩ := step_inode g.base (.reopen .w ar) i f h
      refine ⟨f', h1, ?_⟩
      have hrd : (constructBase s.w ar s.fs).rdonly = false := g.base.w.cfg.1
      have e : (construct s.w ar s.fs s.hd).2.1 = (prune (constructBase s.w ar s.fs) s.fs).2 := by
        simp [construct, constructScan, hrd]
      simp only [step, Sys.get, Sys.set] at h1
      rw [e] at h1
      rcases prune_spec (constructBase s.w ar s.fs) s.fs with ⟨_, hfs, _⟩ | ⟨_, _, _, hfs, _⟩
      · rw [hfs, h] at h1; cases h1; rfl
      · rw [hfs] at h1
        obtain ⟨f'', k1, _, k3, _⟩ := unlinkAll_fwd _ s.fs i f h
        rw [k1] at h1; cases h1; exact k3
  | read who block => cases who <;> exact ⟨f, h, rfl⟩
  | seekStart who => cases who <;> exact ⟨f, h, rfl⟩
  | seekEnd who => cases who <;> exact ⟨f, h, rfl⟩
  | seek who name off => cases who <;> exact ⟨f, h, rfl⟩
  | seekInvalid who => cases who <;> exact ⟨f, h, rfl⟩
  | seekBlock who us => cases who <;> exact ⟨f, h, rfl⟩
  | tell who => exact ⟨f, h, rfl⟩
  | refresh who => cases who <;> exact ⟨f, h, rfl⟩
  | save who crash => cases who <;> exact ⟨f, h, rfl⟩
  | close who => cases who <;> exact ⟨f, h, rfl⟩

/-- `x` lies at or above the end of every existing file: where records written from now on go -/
def FutureOf (fs : FS) (x : TRec) : Prop := ∀ f ∈ fs, posLe (f.name, f.size) x.pos

theorem later_size {f f' : File} (h : Later f f') : f.size ≤ f'.size := by
  obtain ⟨t, ht⟩ := h.recs
  unfold File.size
  rw [← ht, recsSize_append]; omega

theorem future_mono {fs fs' : FS} {x : TRec} (hold : Holds fs fs') (h : FutureOf fs' x) : FutureOf fs x := by
  intro f hf
  obtain ⟨i, hi⟩ := List.mem_iff_getElem?.mp hf
  obtain ⟨f', hf', hlat⟩ := hold i f hi
  have h1 := h f' (List.mem_of_getElem? hf')
  have h2 := later_size hlat
  have h3 := hlat.name
  unfold posLe at *; simp only at *; omega

theorem step_future {s : Sys} (g : GInv s) (op : Op) (hg : GoodOp op) {x : TRec}
    (hx : x ∈ written (step patched s op).1.fs) (hnx : x ∉ written s.fs) : FutureOf s.fs x := by
  have g' := g.step op hg
  obtain ⟨f', hf', hn, k, hk, ho⟩ := mem_written.mp hx
  obtain ⟨i, hi⟩ := List.mem_iff_getElem?.mp hf'
  obtain ⟨hil', hie'⟩ := List.getElem?_eq_some_iff.mp hi
  intro g0 hg0
  obtain ⟨j, hj⟩ := List.mem_iff_getElem?.mp hg0
  obtain ⟨hjl, hje⟩ := List.getElem?_eq_some_iff.mp hj
  obtain ⟨g0', hg0', hlat0⟩ := step_inode g.base op j g0 hj
  obtain ⟨hjl', hje'⟩ := List.getElem?_eq_some_iff.mp hg0'
  have hlt' : j < i → g0.name < x.name := by
    intro hji
    have hpw := List.pairwise_iff_getElem.mp g'.inc j i (by simpa using hjl') (by simpa using hil') hji
    simp only [List.getElem_map, hje', hie'] at hpw
    have := hlat0.name
    omega
  unfold posLe TRec.pos
  simp only
  by_cases hlt : i < s.fs.length
  · obtain ⟨f'', hf'', hlat⟩ := step_inode g.base op i s.fs[i] (List.getElem?_eq_getElem hlt)
    rw [hi] at hf''; cases hf''
    obtain ⟨t, ht⟩ := hlat.recs
    by_cases hkl : k < s.fs[i].recs.length
    · exfalso
      apply hnx
      refine mem_written.mpr ⟨s.fs[i], List.getElem_mem hlt, hlat.name.symm.trans hn, k, ?_, ?_⟩
      · rw [← ht, List.getElem?_append_left hkl] at hk; exact hk
      · rw [← ht, List.take_append_of_le_length (Nat.le_of_lt hkl)] at ho; exact ho
    · by_cases hlast : i + 1 < s.fs.length
      · exfalso
        obtain ⟨f3, hf3, hrecs⟩ := step_recs_same g op i s.fs[i] (List.getElem?_eq_getElem hlt) hlast
        rw [hi] at hf3; cases hf3
        have := (List.getElem?_eq_some_iff.mp hk).1
        rw [hrecs] at this; omega
      · by_cases e : j = i
        · subst e
          have : g0 = s.fs[j] := by rw [← hje]
          subst this
          right
          refine ⟨hlat.name.symm.trans hn, ?_⟩
          rw [ho, ← ht]
          have h1 := size_take_le (s.fs[j].recs ++ t) (a := s.fs[j].recs.length) (c := k) (by omega)
          rw [List.take_left' rfl] at h1
          exact h1
        · left; exact hlt' (by omega)
  · left; exact hlt' (by omega)

theorem future_above {ops : List Op} : ∀ {s : Sys}, GInv s → NoWRestart ops → ∀ {x : TRec},
    x ∈ written (run patched s ops).fs → x ∉ written s.fs → FutureOf s.fs x := by
  induction ops with
  | nil => intro s _ _ x hx hnx; exact absurd hx hnx
  | cons op ops ih =>
    intro s g hn x hx hnx
    have hg := hn op (by simp)
    by_cases hx' : x ∈ written (step patched s op).1.fs
    · exact step_future g op hg hx' hnx
    · have := ih (g.step op hg) (fun o ho => hn o (List.mem_cons_of_mem _ ho)) hx hx'
      exact future_mono (fun i f hi => step_inode g.base op i f hi) this

theorem core_cross_future {s : Sys} {D : List TRec} {op : Op} (h : Core s D) (hg : GoodOp op) (hc : Cut op = false) {x : TRec}
    (hfut : FutureOf s.fs x) (h1 : posLe (cur s.r) x.pos) (h2 : posLt x.pos (cur (step patched s op).1.r)) :
    ∃ f ∈ s.fs, f.name = x.name ∧ f.linked = false := by
  have hsd := h.g.base.w.sortedD
  have key : ∀ (b : Bool) (l' : Log), RStep s.fs b s.r l' → Aligned s.fs l' → posLt x.pos (cur l') →
      ∃ f ∈ s.fs, f.name = x.name ∧ f.linked = false := by
    intro b l' st al h2'
    cases hl : s.fs.getLast? with
    | none =>
      exfalso
      have hfs : s.fs = [] := List.getLast?_eq_none_iff.mp hl
      have hr' := st.rinv hsd h.g.r
      have hL : l'.logfiles = [] := by
        cases hL : l'.logfiles with
        | nil => rfl
        | cons lf _ =>
          obtain ⟨f, hf, _⟩ := hr'.list.known lf (by rw [hL]; simp)
          rw [hfs] at hf; cases hf
      have : cur l' = (0, 0) := by simp [cur, hL]
      rw [this] at h2'; unfold posLt at h2'; simp only at h2'; omega
    | some fN =>
      have hmem := List.mem_of_getLast? hl
      obtain ⟨k1, k2⟩ := cross_future hsd h.g.inc (h.g.pos fN hmem) h.g.r st al hl (hfut fN hmem) h1 h2'
      exact ⟨fN, hmem, k1.symm, k2⟩
  rcases step_r_noncut s op hc h.g.base.rRd with ⟨hr, _⟩ | ⟨b, rfl, _, hr⟩ | ⟨rfl, _, _, hr⟩
  · exfalso; rw [hr] at h2; unfold posLe at h1; unfold posLt at h2; omega
  · rw [hr] at h2
    have st := (read_rstep s.r s.fs b).1
    exact key b _ st (st.aligned h.al) h2
  · rw [hr] at h2
    have st := (RStep.refl (fs := s.fs) (b := true) (l := s.r)).refresh
    exact key true _ st (st.aligned h.al) h2

/-- the reader went past the position of `x` at some op of the segment, and at that moment the file of `x` existed and
had been unlinked (pruned by the writer or deleted from outside) -/
def SkippedGone (s0 : Sys) (seg : List Op) (x : TRec) : Prop :=
  ∃ seg1 op seg2, seg = seg1 ++ op :: seg2 ∧
    posLe (cur (run patched s0 seg1).r) x.pos ∧ posLt x.pos (cur (step patched (run patched s0 seg1) op).1.r) ∧
    ∃ f ∈ (run patched s0 seg1).fs, f.name = x.name ∧ f.linked = false

theorem skipped_gone {s0 : Sys} {seg : List Op} (g : GInv s0) (al : Aligned s0.fs s0.r) (hn : NoWRestart seg) (hcut : NoCut seg)
    {x : TRec} (hx : x ∈ written (run patched s0 seg).fs) (h : SkippedAt s0 seg x) : SkippedGone s0 seg x := by
  obtain ⟨seg1, op, seg2, rfl, h1, h2, h3⟩ := h
  refine ⟨seg1, op, seg2, rfl, h1, h2, ?_⟩
  have hn1 : NoWRestart seg1 := fun o ho => hn o (List.mem_append_left _ ho)
  have hn2 : NoWRestart (op :: seg2) := fun o ho => hn o (List.mem_append_right _ ho)
  have hc1 : NoCut seg1 := fun o ho => hcut o (List.mem_append_left _ ho)
  have inv : SegInv s0 seg1 := by simpa using (SegInv.init g al).run hn1 hc1
  rw [run_append] at hx
  by_cases hx0 : x ∈ written (run patched s0 seg1).fs
  · obtain ⟨f, hf, hname, k, hk, ho⟩ := mem_written.mp hx0
    refine ⟨f, hf, hname, ?_⟩
    cases hlk : f.linked with
    | false => rfl
    | true => exact absurd ⟨f, hf, hlk, hname, k, hk, ho⟩ h3
  · exact core_cross_future inv.core (hn2 op (by simp)) (hcut op (by simp)) (future_above inv.core.g hn2 hx hx0) h1 h2

/-- **C13 (reader, whole history)**.  Any history `pre ++ seg` from the empty directory without a writer restart
(`NoWRestart`: writes with arbitrary positive timestamps - equal and decreasing included -, reads, block reads, seeks,
tells, refreshes, saves, closes, reader restarts, external deletions), where `seg` is a *segment*: it contains no op
that sets the read-only instance's position (`Cut`: its seeks, its restart, its close/crash) - so a segment starts at
the position `cur` established by the last seek / restart in `pre` (or anywhere later), assumed to be a record boundary
(`Aligned`; `aligned_after_cut`: every seek but a seek to an explicit byte offset, and a restart without head file,
establish it).  With `D = delivered` (everything `read` / `read_block` of the read-only instance returned in the
segment, tagged with the file and offset it was taken from; `returned` is the untagged concatenation) and `written` (all
records ever written, in writing order - `written_write` -, tagged with file and offset):
1. `D` is a **subsequence** of `written` of the final state: order preserved, nothing invented, nothing altered, whole
   records;
2. **no record occurs twice** in `D`;
3. every record of `written` that lies at or after the segment's start position and before the reader's final position
   or before some delivered record, and is not in `D`, was **skipped while its file was gone**: at one op of the segment
   the reader moved from at-or-below its position to above it, and at that moment its file existed and had been unlinked
   (pruned or deleted externally). -/
theorem C13_reader_stream (hd : HeadFS) (fsz tot : Nat) (hh ra : Bool) (pre seg : List Op) (hn : NoWRestart (pre ++ seg))
    (hcut : NoCut seg) :
    let s0 := run patched (boot [] hd fsz tot hh ra) pre
    let s1 := run patched s0 seg
    let D := delivered s0 seg
    Aligned s0.fs s0.r →
      D.map (·.val) = returned s0 seg ∧
      D.Sublist (written s1.fs) ∧
      D.Nodup ∧
      ∀ x ∈ written s1.fs, x ∉ D → posLe (cur s0.r) x.pos → (posLt x.pos (cur s1.r) ∨ ∃ y ∈ D, tLt x y) →
        SkippedGone s0 seg x := by
  intro s0 s1 D hal
  have g0 := (GInv.boot hd fsz tot hh ra).run pre hn.split.1
  have inv := segInv_reach hd fsz tot hh ra pre seg hn hcut hal
  refine ⟨delivered_vals _ _, ?_, nodup_of_pairwise inv.core.sorted, ?_⟩
  · exact sublist_of_pairwise_subset _ _ inv.core.sorted (written_pairwise inv.core.g.inc) inv.core.mem
  · intro x hx hxD hc0 hcase
    rcases inv.acc x hc0 hcase with h1 | h1
    · exact absurd h1 hxD
    · exact skipped_gone g0 hal hn.split.2 hcut hx h1

/-! ## `written` is the writing order: a `write` appends exactly its records at the end -/

def shape (fs : FS) : List (Nat × List Rec) := fs.map (fun f => (f.name, f.recs))

theorem written_congr : ∀ {fs fs' : FS}, shape fs = shape fs' → written fs = written fs' := by
  intro fs
  induction fs with
  | nil => intro fs' h; cases fs' with
    | nil => rfl
    | cons _ _ => simp [shape] at h
  | cons f fs ih =>
    intro fs' h
    cases fs' with
    | nil => simp [shape] at h
    | cons f' fs' =>
      simp only [shape, List.map_cons, List.cons.injEq, Prod.mk.injEq] at h
      simp only [written, h.1.1, h.1.2, ih (show shape fs = shape fs' from h.2)]

theorem shape_unlink (fs : FS) (n : Nat) : shape (unlink fs n) = shape fs := by
  simp only [shape, unlink, List.map_map]
  apply List.map_congr_left
  intro f _
  simp only [Function.comp]
  split <;> rfl

theorem shape_unlinkAll (del : List LF) : ∀ (fs : FS), shape (unlinkAll fs del) = shape fs := by
  induction del with
  | nil => intro fs; rfl
  | cons d ds ih => intro fs; simp only [unlinkAll, List.foldl_cons] at *; rw [ih, shape_unlink]

theorem shape_prune (w : Log) (fs : FS) : shape (prune w fs).2 = shape fs := by
  rcases prune_spec w fs with ⟨_, hfs, _⟩ | ⟨_, _, _, hfs, _⟩
  · rw [hfs]
  · rw [hfs, shape_unlinkAll]

theorem appendAt_last (ys : FS) (f : File) (recs : List Rec) :
    appendAt (ys ++ [f]) ys.length recs = ys ++ [{ f with recs := f.recs ++ recs }] := by
  induction ys with
  | nil => rfl
  | cons y ys ih => simp only [List.cons_append, List.length_cons, appendAt, ih]

theorem written_appendAt_last {fs : FS} {ino : Nat} {fN : File} (hl : fs.getLast? = some fN) (hi : ino + 1 = fs.length)
    (recs : List Rec) : written (appendAt fs ino recs) = written fs ++ tagOff fN.name fN.size recs := by
  obtain ⟨ys, rfl⟩ := List.getLast?_eq_some_iff.mp hl
  have : ino = ys.length := by simp at hi; omega
  subst this
  rw [appendAt_last, written_append, written_append]
  simp only [written, List.append_nil, tagOff_append, File.size, Nat.zero_add, List.append_assoc]

theorem written_writeOpen {fs : FS} {w : Log} {ino : Nat} {fN : File} (hl : fs.getLast? = some fN) (hi : ino + 1 = fs.length)
    (recs : List Rec) : written (writeOpen w fs ino recs).2 = written fs ++ tagOff fN.name fN.size recs := by
  rw [← written_appendAt_last hl hi recs]
  apply written_congr
  unfold writeOpen
  simp only
  split <;> split <;> simp only [shape_prune]

/-- **writing order**: a successful `write` extends `written` by exactly its records, in order, laid out at the end of
the newest file (which may be one it has just created); every other op leaves `written` as it is
(`written_step_other`) -/
theorem written_write {s : Sys} (g : GInv s) (recs : List Rec) (us : Nat) :
    (s.w.writeFile = .closed ∧ (step patched s (.write recs us)).2 = .err .runtime ∧
      written (step patched s (.write recs us)).1.fs = written s.fs) ∨
    ∃ n o, written (step patched s (.write recs us)).1.fs = written s.fs ++ tagOff n o recs := by
  simp only [step]
  by_cases hc : s.w.writeFile = .closed
  · left; rw [write_closed _ _ _ _ _ hc]; exact ⟨hc, rfl, rfl⟩
  · right
    rw [write_open _ _ _ _ _ hc]
    have hlast := openForWrite_last g.base.w g.inc g.below us
    have hw1 : written (openForWrite patched s.w s.fs us).2.1 = written s.fs := by
      rcases openForWrite_fs g.base.w us with e | e
      · rw [e]
      · rw [e, written_append]; simp [written, tagOff]
    cases hl : (openForWrite patched s.w s.fs us).2.1.getLast? with
    | none => rw [List.getLast?_eq_none_iff.mp hl] at hlast; simp at hlast
    | some fN => exact ⟨fN.name, fN.size, by simp only; rw [written_writeOpen hl hlast, hw1]⟩

theorem written_step_other (s : Sys) (op : Op) (h : ∀ recs us, op ≠ .write recs us) :
    written (step patched s op).1.fs = written s.fs := by
  cases op with
  | write recs us => exact absurd rfl (h recs us)
  | delete name => exact written_congr (shape_unlink _ _)
  | reopen who ar =>
    apply written_congr
    have key : ∀ (l : Log), shape (construct l ar s.fs s.hd).2.1 = shape s.fs := by
      intro l
      simp only [construct, constructScan]
      by_cases hr : (constructBase l ar s.fs).rdonly = true
      · simp only [hr, ↓reduceIte]
      · simp only [hr, Bool.false_eq_true, ↓reduceIte]; exact shape_prune _ _
    cases who <;> exact key _
  | read who block => cases who <;> rfl
  | seekStart who => cases who <;> rfl
  | seekEnd who => cases who <;> rfl
  | seek who name off => cases who <;> rfl
  | seekInvalid who => cases who <;> rfl
  | seekBlock who us => cases who <;> rfl
  | tell who => rfl
  | refresh who => cases who <;> rfl
  | save who crash => cases who <;> rfl
  | close who => cases who <;> rfl

/-! ## which segment starts are record boundaries -/

theorem aligned_of_not_opened {fs : FS} {l : Log} (h : ∀ ino off, l.readFile ≠ .opened ino off) : Aligned fs l :=
  fun ino off ho => absurd ho (h ino off)

/-- the ops that start a segment at a record boundary whatever their arguments: every seek except the seek to an
explicit byte offset (`seek((name, offset))`, where the boundary is the caller's business), `close`, a crash -/
def SetsBoundary : Op → Bool
  | .seekStart .r | .seekEnd .r | .seek .r _ none | .seekInvalid .r | .seekBlock .r _ | .close .r => true
  | .save .r (some _) => true
  | _ => false

theorem not_opened_of_closed {l : Log} (h : l.readFile = .closed) : ∀ ino off, l.readFile ≠ .opened ino off := by
  intro ino off ho; rw [h] at ho; cases ho

theorem aligned_after_cut (s : Sys) (op : Op) (h : SetsBoundary op = true) :
    Aligned (step patched s op).1.fs (step patched s op).1.r := by
  have idx : ∀ (l : Log) (i : Nat) ino off, ({ closeRead l with readIdx := i } : Log).readFile ≠ .opened ino off :=
    fun l i ino off => closeRead_not_opened l ino off
  cases op with
  | seekStart who =>
    cases who with
    | w => simp [SetsBoundary] at h
    | r =>
      apply aligned_of_not_opened
      simp only [step, Sys.get, Sys.set, seekStart]
      split
      · rename_i e; exact not_opened_of_closed e
      · exact idx _ _
  | seekEnd who =>
    cases who with
    | w => simp [SetsBoundary] at h
    | r =>
      apply aligned_of_not_opened
      simp only [step, Sys.get, Sys.set, seekEnd]
      split
      · rename_i e; exact not_opened_of_closed e
      · exact idx _ _
  | seekInvalid who =>
    cases who with
    | w => simp [SetsBoundary] at h
    | r =>
      apply aligned_of_not_opened
      simp only [step, Sys.get, Sys.set, seekInvalid]
      split
      · rename_i e; exact not_opened_of_closed e
      · exact closeRead_not_opened _
  | seekBlock who us =>
    cases who with
    | w => simp [SetsBoundary] at h
    | r =>
      apply aligned_of_not_opened
      simp only [step, Sys.get, Sys.set, seekBlock]
      split
      · rename_i e; exact not_opened_of_closed e
      · exact idx _ _
  | seek who name off =>
    cases who with
    | w => simp [SetsBoundary] at h
    | r =>
      cases off with
      | some b => simp [SetsBoundary] at h
      | none =>
        simp only [step, Sys.get, Sys.set, seekName]
        split
        · rename_i e; exact aligned_of_not_opened (not_opened_of_closed e)
        · split
          · exact aligned_of_not_opened (idx _ _)
          · split
            · split
              · exact aligned_of_not_opened (idx _ _)
              · intro ino' off' ho
                simp only [RF.opened.injEq] at ho
                obtain ⟨rfl, rfl⟩ := ho
                exact ⟨_, Nat.le_refl _, by rw [List.take_length]⟩
            · exact aligned_of_not_opened (idx _ _)
  | close who =>
    cases who with
    | w => simp [SetsBoundary] at h
    | r =>
      apply aligned_of_not_opened
      simp only [step, Sys.get, Sys.set, close, writeHead]
      by_cases hh : (!s.r.hasHead) = true
      · simp only [hh, ↓reduceIte]; intro ino off ho; cases ho
      · simp only [hh, Bool.false_eq_true, ↓reduceIte]
        cases hr : s.r.readFile with
        | closed => simp only; intro ino off ho; rw [hr] at ho; cases ho
        | none => simp only; intro ino off ho; cases ho
        | opened i o => simp only; intro ino off ho; cases ho
  | save who crash =>
    cases who with
    | w => simp [SetsBoundary] at h
    | r =>
      cases crash with
      | none => simp [SetsBoundary] at h
      | some k =>
        apply aligned_of_not_opened
        simp only [step, Sys.get, Sys.set, writeHead]
        by_cases hh : (!s.r.hasHead) = true
        · simp only [hh, ↓reduceIte, kill]; intro ino off ho; cases ho
        · simp only [hh, Bool.false_eq_true, ↓reduceIte]
          cases hr : s.r.readFile with
          | closed => simp only; intro ino off ho; rw [hr] at ho; cases ho
          | none => simp only [kill]; intro ino off ho; cases ho
          | opened i o => simp only [kill]; intro ino off ho; cases ho
  | write _ _ => simp [SetsBoundary] at h
  | read _ _ => simp [SetsBoundary] at h
  | tell _ => simp [SetsBoundary] at h
  | refresh _ => simp [SetsBoundary] at h
  | reopen _ _ => simp [SetsBoundary] at h
  | delete _ => simp [SetsBoundary] at h

/-- a restart of the read-only instance without head file starts at a record boundary (at the end of the list, no file
open); with a head file it starts where the saved `tell()` position says, like `seek((name, offset))` -/
theorem aligned_after_reopen (s : Sys) (ar : Bool) (hrd : s.r.rdonly = true) (hh : s.r.hasHead = false) :
    Aligned (step patched s (.reopen .r ar)).1.fs (step patched s (.reopen .r ar)).1.r := by
  apply aligned_of_not_opened
  have h1 : (constructScan s.r ar s.fs).1.hasHead = false := (constructScan_cfg _ _ _).hasHead.trans hh
  have h2 : (constructScan s.r ar s.fs).1.readFile = .none := by simp [constructScan, constructBase, hrd]
  simp only [step, Sys.get, Sys.set, construct, restoreHead, h1, Bool.not_false, ↓reduceIte]
  intro ino off ho
  rw [h2] at ho; cases ho

/-! ## non-vacuity -/

/-- decidable form of `GoodOp` -/
def goodB : Op → Bool
  | .reopen .w _ => false
  | .write _ us => decide (0 < us)
  | _ => true

theorem goodB_ok {ops : List Op} (h : ∀ op ∈ ops, goodB op = true) : NoWRestart ops := by
  intro op ho
  have := h op ho
  constructor
  · intro ar e; subst e; simp [goodB] at this
  · intro recs us e; subst e; simpa [goodB] using this

/-- `file_size = 5`, `total_size = 12`, six-byte records, so every write fills a file.  The reader (auto-refresh) is
positioned at the start; in the segment it is handed record 0 of file 1000; two more files are written and file 1000 is
**pruned**; the reader (standing at the end of the pruned file) is handed record 1 of file 1001; files 1001 and 1002 -
all the files the reader knows - are **deleted from outside**; a `refresh()` finds nothing and **re-bases** the position
(`cur` falls back to `(0, 0)`); the next write has a timestamp that went BACK to 1000, the writer names the file 1003;
the reader is handed record 3.  Record 2 (file 1002) was never delivered: it was skipped while its file was gone. -/
def demoPre : List Op := [.write [⟨0, 5⟩] 1000, .seekStart .r]
def demoSeg : List Op :=
  [.read .r false, .write [⟨1, 5⟩] 1001, .write [⟨2, 5⟩] 1002, .read .r false, .delete 1001, .delete 1002, .refresh .r,
   .write [⟨3, 5⟩] 1000, .read .r false]
def demoS0 : Sys := run patched (boot [] ⟨none, none⟩ 5 12 false true) demoPre

example : delivered demoS0 demoSeg = [⟨1000, 0, ⟨0, 5⟩⟩, ⟨1001, 0, ⟨1, 5⟩⟩, ⟨1003, 0, ⟨3, 5⟩⟩] ∧
    written (run patched demoS0 demoSeg).fs = [⟨1000, 0, ⟨0, 5⟩⟩, ⟨1001, 0, ⟨1, 5⟩⟩, ⟨1002, 0, ⟨2, 5⟩⟩, ⟨1003, 0, ⟨3, 5⟩⟩] ∧
    (run patched demoS0 demoSeg).fs.map (fun f => (f.name, f.linked)) = [(1000, false), (1001, false), (1002, false), (1003, true)] ∧
    cur (run patched demoS0 (demoSeg.take 6)).r = (1001, 6) ∧ cur (run patched demoS0 (demoSeg.take 7)).r = (0, 0) := by
  decide +kernel

/-- the theorem applies to this history, and its third clause is used: record 2 lies after the start and before the
delivered record 3, is not delivered, hence `SkippedGone` -/
example : SkippedGone demoS0 demoSeg ⟨1002, 0, ⟨2, 5⟩⟩ := by
  have hn : NoWRestart (demoPre ++ demoSeg) := goodB_ok (by decide +kernel)
  have hc : NoCut demoSeg := by unfold NoCut; decide +kernel
  have hal : Aligned demoS0.fs demoS0.r := by
    have := aligned_after_cut (run patched (boot [] ⟨none, none⟩ 5 12 false true) [.write [⟨0, 5⟩] 1000]) (.seekStart .r) rfl
    rw [← run_snoc] at this
    exact this
  have h := (C13_reader_stream ⟨none, none⟩ 5 12 false true demoPre demoSeg hn hc hal).2.2.2
  refine h ⟨1002, 0, ⟨2, 5⟩⟩ (by decide +kernel) (by decide +kernel) ?_ (Or.inr ⟨⟨1003, 0, ⟨3, 5⟩⟩, by decide +kernel, ?_⟩)
  · show posLe (cur demoS0.r) (1002, 0)
    have : cur demoS0.r = (0, 0) := by decide +kernel
    rw [this]; unfold posLe; simp
  · unfold tLt posLt TRec.pos; simp

end OF.RollLog
