import OFModel.Gen.Facts
import OFModel.Config.Grammar
import OFProps.C11.Strings
import OFProps.C11.Dict
import OFProps.C11.IO
import OFModel.Config.Webvis
import OFProps.C11.REST
import OFModel.Config.Util
import OFProps.C11.MQTTOut
/-!
# C11 — property theorems

Grammar: `parse (render x) = x` for every valid `x` (`C11_topics_roundtrip`, `C11_options_roundtrip`), where
validity is the decidable predicate `validTopics` / `validOptions` of `OFModel/Config/Grammar.lean`.
-/
namespace OF.Config

/-- the transcribed option-name pattern is the one in the source (regenerated from /repo on every run) -/
theorem C11_option_name_pattern_is_source : optionNamePattern = OF.Facts.re_valid_option_name := by decide

/-! ## character facts -/

theorem identStart_word (c : Char) (h : isIdentStart c = true) : isWordChar c = true := by
  simp [isWordChar, h]

theorem word_not_space (c : Char) (h : isWordChar c = true) : isSpace c = false := by
  simp only [isWordChar, isIdentStart, Bool.or_eq_true, Bool.and_eq_true, decide_eq_true_eq, beq_iff_eq] at h
  simp only [isSpace, Bool.or_eq_false_iff, Bool.and_eq_false_iff, decide_eq_false_iff_not, beq_eq_false_iff_ne]
  omega

theorem word_ne (c d : Char) (h : isWordChar c = true) (hd : isWordChar d = false) : c ≠ d := by
  intro e; subst e; rw [h] at hd; cases hd

theorem mem_of_contains_false {c : Char} {s : Str} (h : s.contains c = false) : c ∉ s := by
  intro m; simp at h; exact h m

/-! ## topics -/

theorem strip_renderMap (m : Str × Str) (h1 : validTopicName m.1 = true) (h2 : validTopicName m.2 = true) :
    strip (renderMap m) = renderMap m := by
  simp only [validTopicName, Bool.and_eq_true, decide_eq_true_eq, Bool.not_eq_true'] at h1 h2
  obtain ⟨⟨⟨n1, s1⟩, _⟩, _⟩ := h1
  obtain ⟨⟨⟨n2, s2⟩, _⟩, _⟩ := h2
  unfold renderMap
  split
  · exact s1
  · obtain ⟨a, b⟩ := m
    simp only at n1 s1 n2 s2 ⊢
    cases a with
    | nil => exact absurd rfl n1
    | cons c r =>
      have hc := (lstrip_eq_self_iff_head c r).1 ((strip_eq_self_iff _).1 s1).1
      have hb : rstrip ('>' :: b) = '>' :: b := rstrip_cons_eq_self _ _ ((strip_eq_self_iff _).1 s2).2 n2
      exact strip_append_eq_self c r ('>' :: b) hc hb (by simp)

theorem topicPair_renderMap (dflt : Str) (m : Str × Str) (h1 : validTopicName m.1 = true) (h2 : validTopicName m.2 = true) :
    topicPair dflt (renderMap m) = m := by
  have hs := strip_renderMap m h1 h2
  simp only [validTopicName, Bool.and_eq_true, decide_eq_true_eq, Bool.not_eq_true'] at h1 h2
  obtain ⟨⟨⟨n1, s1⟩, _⟩, g1⟩ := h1
  obtain ⟨⟨⟨n2, s2⟩, _⟩, g2⟩ := h2
  have g1' := mem_of_contains_false g1
  have g2' := mem_of_contains_false g2
  unfold topicPair
  rw [hs]
  obtain ⟨a, b⟩ := m
  simp only at n1 s1 n2 s2 g1' g2' ⊢
  unfold renderMap
  by_cases e : a = b
  · subst e
    simp [splitHT_noSep '>' a g1', s1, orDefault, n1]
  · simp only [e, ↓reduceIte]
    rw [splitHT_append '>' b a g1', splitHT_noSep '>' b g2']
    simp [s1, s2, orDefault, n1, n2]

theorem noSemi_renderMap (m : Str × Str) (h1 : validTopicName m.1 = true) (h2 : validTopicName m.2 = true) :
    ';' ∉ renderMap m := by
  simp only [validTopicName, Bool.and_eq_true, decide_eq_true_eq, Bool.not_eq_true'] at h1 h2
  have g1 := mem_of_contains_false h1.1.2
  have g2 := mem_of_contains_false h2.1.2
  unfold renderMap
  split
  · exact g1
  · intro hm
    rcases List.mem_append.1 hm with h | h
    · exact g1 h
    · rcases List.mem_cons.1 h with h | h
      · cases h
      · exact g2 h

theorem map_eq_self_of_forall {α} (f : α → α) : ∀ (l : List α), (∀ x ∈ l, f x = x) → l.map f = l
  | [], _ => rfl
  | a :: r, h => by
    simp only [List.map_cons]
    rw [h a (List.mem_cons_self ..), map_eq_self_of_forall f r (fun x hx => h x (List.mem_cons_of_mem _ hx))]

/-- **C11 (topics round trip)**: for every text / topic list / `mapping` mode / `max_topics` / default topic
satisfying `validTopics`, parsing the rendered text gives back exactly the text and the topic list. -/
theorem C11_topics_roundtrip (text : Str) (mx : Option Nat) (mode : MapMode) (dflt : Str) (ts : Topics)
    (hv : validTopics text mx mode ts = true) :
    parseTopics (renderTopics text ts) mx mode dflt = .ok (text, ts) := by
  cases ts with
  | absent =>
    simp only [validTopics, validTopicText, Bool.and_eq_true, decide_eq_true_eq, Bool.not_eq_true'] at hv
    have hsemi := mem_of_contains_false hv.2
    simp [parseTopics, renderTopics, splitHT_noSep ';' text hsemi, hv.1]
  | maps l =>
    simp only [validTopics, validTopicText, Bool.and_eq_true, decide_eq_true_eq, Bool.not_eq_true',
      List.all_eq_true] at hv
    obtain ⟨⟨⟨⟨⟨⟨⟨hst, hsemi⟩, hmode⟩, hne⟩, hall⟩, hd1⟩, hd2⟩, hmax⟩ := hv
    have hsemi := mem_of_contains_false hsemi
    subst hmode
    have hparts : ∀ x ∈ l.map renderMap, ';' ∉ x := by
      intro x hx
      rcases List.mem_map.1 hx with ⟨m, hm, rfl⟩
      exact noSemi_renderMap m (hall m hm).1 (hall m hm).2
    have hstrip : (l.map renderMap).map strip = l.map renderMap := by
      apply map_eq_self_of_forall
      intro x hx
      rcases List.mem_map.1 hx with ⟨m, hm, rfl⟩
      exact strip_renderMap m (hall m hm).1 (hall m hm).2
    have hpairs : (l.map renderMap).map (topicPair dflt) = l := by
      rw [List.map_map]
      apply map_eq_self_of_forall
      intro m hm
      exact topicPair_renderMap dflt m (hall m hm).1 (hall m hm).2
    cases l with
    | nil => exact absurd rfl hne
    | cons m r =>
      simp only [parseTopics, renderTopics, splitHT_joinHT ';' _ text hsemi hparts, hstrip, hst]
      simp only [List.map_cons] at hpairs ⊢
      simp only [← List.map_cons, hpairs, hd1, hd2, hmax]
      simp
  | names l =>
    simp only [validTopics, validTopicText, Bool.and_eq_true, decide_eq_true_eq, Bool.not_eq_true',
      List.all_eq_true, ne_eq, decide_not] at hv
    obtain ⟨⟨⟨⟨⟨⟨hst, hsemi⟩, hmode⟩, hne⟩, hall⟩, hd⟩, hmax⟩ := hv
    have hsemi := mem_of_contains_false hsemi
    have hname : ∀ x ∈ l, x ≠ [] ∧ strip x = x ∧ ';' ∉ x ∧ (mode = .no → '>' ∉ x) := by
      intro x hx
      have := hall x hx
      simp only [validPlainTopic, Bool.and_eq_true, decide_eq_true_eq, Bool.not_eq_true', Bool.or_eq_true,
        bne_iff_ne, ne_eq] at this
      refine ⟨this.1.1.1, this.1.1.2, mem_of_contains_false this.1.2, ?_⟩
      intro hm
      rcases this.2 with h | h
      · exact absurd hm h
      · exact mem_of_contains_false h
    have hparts : ∀ x ∈ l, ';' ∉ x := fun x hx => (hname x hx).2.2.1
    have hstrip : l.map strip = l := map_eq_self_of_forall _ _ (fun x hx => (hname x hx).2.1)
    have hdef : l.map (fun s => orDefault dflt (strip s)) = l := by
      apply map_eq_self_of_forall
      intro x hx
      simp [(hname x hx).2.1, orDefault, (hname x hx).1]
    have hgt : mode = .no → l.any (fun t => t.contains '>') = false := by
      intro hm
      rw [List.any_eq_false]
      intro x hx
      simpa using (hname x hx).2.2.2 hm
    cases l with
    | nil => simp at hne
    | cons m r =>
      simp only [parseTopics, renderTopics, splitHT_joinHT ';' _ text hsemi hparts, hstrip, hst]
      cases mode with
      | yes => simp at hmode
      | no => simp only [hdef, hgt rfl, hd, hmax]; simp
      | none => simp only [hdef, hd, hmax]; simp

/-! ## options -/

theorem ident_cons (k : Str) (h : isIdent k = true) :
    ∃ c r, k = c :: r ∧ isIdentStart c = true ∧ ∀ x ∈ r, isWordChar x = true := by
  cases k with
  | nil => simp [isIdent] at h
  | cons c r =>
    simp only [isIdent, Bool.and_eq_true, List.all_eq_true] at h
    exact ⟨c, r, rfl, h.1, h.2⟩

theorem ident_all_word (k : Str) (h : isIdent k = true) : ∀ x ∈ k, isWordChar x = true := by
  obtain ⟨c, r, rfl, hc, hr⟩ := ident_cons k h
  intro x hx
  rcases List.mem_cons.1 hx with e | e
  · exact e ▸ identStart_word c hc
  · exact hr x e

theorem ident_no (k : Str) (h : isIdent k = true) (d : Char) (hd : isWordChar d = false) : d ∉ k := by
  intro m
  have := ident_all_word k h d m
  rw [this] at hd; cases hd

theorem ident_rstrip (k : Str) (h : isIdent k = true) : rstrip k = k :=
  rstrip_eq_self_of_all k (fun c hc => word_not_space c (ident_all_word k h c hc))

theorem ident_strip (k : Str) (h : isIdent k = true) : strip k = k := by
  rw [strip_eq_self_iff]
  refine ⟨?_, ident_rstrip k h⟩
  obtain ⟨c, r, rfl, hc, _⟩ := ident_cons k h
  exact lstrip_eq_self_of_head c r (word_not_space c (identStart_word c hc))

theorem dropWhile_word_append : ∀ (r rest : Str), (∀ x ∈ r, isWordChar x = true) →
    (r ++ rest).dropWhile isWordChar = rest.dropWhile isWordChar
  | [], _, _ => rfl
  | c :: r, rest, h => by
    simp only [List.cons_append, List.dropWhile, h c (List.mem_cons_self ..)]
    exact dropWhile_word_append r rest (fun x hx => h x (List.mem_cons_of_mem _ hx))

theorem identThenEqOrEnd_ident (k : Str) (h : isIdent k = true) : identThenEqOrEnd k = true := by
  obtain ⟨c, r, rfl, hc, hr⟩ := ident_cons k h
  have := dropWhile_word_append r [] hr
  simp only [List.append_nil, List.dropWhile_nil] at this
  simp [identThenEqOrEnd, hc, this]

theorem identThenEqOrEnd_ident_eq (k v : Str) (h : isIdent k = true) : identThenEqOrEnd (k ++ '=' :: v) = true := by
  obtain ⟨c, r, rfl, hc, hr⟩ := ident_cons k h
  have h1 := dropWhile_word_append r ('=' :: v) hr
  have h2 : ('=' :: v).dropWhile isWordChar = '=' :: v := by
    simp [List.dropWhile, isWordChar, isIdentStart]
  rw [h2] at h1
  simp only [identThenEqOrEnd, List.cons_append, hc, Bool.true_and, h1]
  split
  · rename_i e; cases e
  · rename_i e; cases e
  · rename_i e; injection e with e1 _; subst e1; rfl

/-- what `validOptVal` says about a non-boolean value -/
theorem validOptVal_nonbool (v : Val) (h : validOptVal v = true) (hb : ∀ b, v ≠ .bool b) :
    '!' ∉ valText v ∧ strip (valText v) = valText v ∧ jsonGetval (valText v) = v ∧
    ∀ k, renderOpt (k, v) = k ++ '=' :: valText v := by
  cases v with
  | bool b => exact absurd rfl (hb b)
  | list _ => simp [validOptVal] at h
  | tuple _ => simp [validOptVal] at h
  | dict _ => simp [validOptVal] at h
  | blob _ => simp [validOptVal] at h
  | null =>
    simp only [validOptVal, Bool.and_eq_true, decide_eq_true_eq, Bool.not_eq_true'] at h
    exact ⟨mem_of_contains_false h.1.1, h.1.2, h.2, fun _ => rfl⟩
  | int i =>
    simp only [validOptVal, Bool.and_eq_true, decide_eq_true_eq, Bool.not_eq_true'] at h
    exact ⟨mem_of_contains_false h.1.1, h.1.2, h.2, fun _ => rfl⟩
  | float t =>
    simp only [validOptVal, Bool.and_eq_true, decide_eq_true_eq, Bool.not_eq_true'] at h
    exact ⟨mem_of_contains_false h.1.1, h.1.2, h.2, fun _ => rfl⟩
  | str s =>
    simp only [validOptVal, Bool.and_eq_true, decide_eq_true_eq, Bool.not_eq_true'] at h
    exact ⟨mem_of_contains_false h.1.1, h.1.2, h.2, fun _ => rfl⟩

theorem not_ident_no_dash (r : Str) : isIdent ('n' :: 'o' :: '-' :: r) = false := by
  simp [isIdent, isWordChar, isIdentStart]

/-- everything the round trip needs about one rendered option -/
theorem renderOpt_props (o : Str × Val) (hk : isIdent o.1 = true) (hv : validOptVal o.2 = true) :
    '!' ∉ renderOpt o ∧ strip (renderOpt o) = renderOpt o ∧ validOptName (renderOpt o) = true ∧
    parseOpt (renderOpt o) = o := by
  obtain ⟨k, v⟩ := o
  simp only at hk hv
  have hbang : '!' ∉ k := ident_no k hk '!' (by decide)
  have heq : '=' ∉ k := ident_no k hk '=' (by decide)
  obtain ⟨c, r, hkc, hc, hr⟩ := ident_cons k hk
  have hne : k ≠ [] := by rw [hkc]; simp
  by_cases hb : ∃ b, v = .bool b
  · obtain ⟨b, rfl⟩ := hb
    cases b with
    | true =>
      have hr : renderOpt (k, .bool true) = k := rfl
      rw [hr]
      refine ⟨hbang, ident_strip k hk, ?_, ?_⟩
      · simp [validOptName, identThenEqOrEnd_ident k hk]
      · unfold parseOpt
        rw [split1_noSep '=' k heq]
        simp only
        split
        · have := not_ident_no_dash ‹Str›
          rw [hk] at this; cases this
        · rfl
    | false =>
      have hr : renderOpt (k, .bool false) = 'n' :: 'o' :: '-' :: k := rfl
      rw [hr]
      refine ⟨?_, ?_, ?_, ?_⟩
      · intro hm
        simp only [List.mem_cons] at hm
        rcases hm with h | h | h | h
        · cases h
        · cases h
        · cases h
        · exact hbang h
      · exact strip_append_eq_self 'n' ['o', '-'] k (by decide) (ident_rstrip k hk) hne
      · simp [validOptName, identThenEqOrEnd_ident k hk]
      · have : '=' ∉ 'n' :: 'o' :: '-' :: k := by
          intro hm
          simp only [List.mem_cons] at hm
          rcases hm with h | h | h | h
          · cases h
          · cases h
          · cases h
          · exact heq h
        unfold parseOpt
        rw [split1_noSep '=' _ this]
        rfl
  · have hb' : ∀ b, v ≠ .bool b := fun b e => hb ⟨b, e⟩
    obtain ⟨v1, v2, v3, v4⟩ := validOptVal_nonbool v hv hb'
    rw [v4 k]
    have hrs : rstrip ('=' :: valText v) = '=' :: valText v := by
      by_cases e : valText v = []
      · rw [e]; exact rstrip_singleton '=' (by decide)
      · exact rstrip_cons_eq_self _ _ ((strip_eq_self_iff _).1 v2).2 e
    refine ⟨?_, ?_, ?_, ?_⟩
    · intro hm
      rcases List.mem_append.1 hm with h | h
      · exact hbang h
      · rcases List.mem_cons.1 h with h | h
        · cases h
        · exact v1 h
    · rw [hkc]
      exact strip_append_eq_self c r _ (word_not_space c (identStart_word c hc)) hrs (by simp)
    · simp [validOptName, identThenEqOrEnd_ident_eq k (valText v) hk]
    · unfold parseOpt
      rw [split1_append '=' _ k heq]
      simp only [ident_strip k hk, v2, v3]

theorem takeWhile_append_all {α} (p : α → Bool) : ∀ (a b : List α), (∀ x ∈ a, p x = true) →
    (a ++ b).takeWhile p = a ++ b.takeWhile p
  | [], _, _ => rfl
  | x :: a, b, h => by
    simp only [List.cons_append, List.takeWhile_cons, h x (List.mem_cons_self ..), ↓reduceIte]
    rw [takeWhile_append_all p a b (fun y hy => h y (List.mem_cons_of_mem _ hy))]

theorem dictSet_new : ∀ (d : List (Str × Val)) (k : Str) (v : Val), (∀ p ∈ d, p.1 ≠ k) → dictSet d k v = d ++ [(k, v)]
  | [], _, _, _ => rfl
  | (k', v') :: r, k, v, h => by
    have h1 : k' ≠ k := h (k', v') (List.mem_cons_self ..)
    simp only [dictSet, h1, ↓reduceIte, List.cons_append]
    rw [dictSet_new r k v (fun p hp => h p (List.mem_cons_of_mem _ hp))]

theorem foldl_dictSet_distinct : ∀ (l acc : List (Str × Val)), allDistinct (l.map (·.1)) = true →
    (∀ p ∈ acc, ∀ q ∈ l, p.1 ≠ q.1) → l.foldl (fun d kv => dictSet d kv.1 kv.2) acc = acc ++ l
  | [], acc, _, _ => by simp
  | (k, v) :: r, acc, hd, hj => by
    simp only [List.map_cons, allDistinct, Bool.and_eq_true, Bool.not_eq_true'] at hd
    have hk : ∀ p ∈ acc, p.1 ≠ k := fun p hp => hj p hp (k, v) (List.mem_cons_self ..)
    simp only [List.foldl_cons]
    rw [dictSet_new acc k v hk, foldl_dictSet_distinct r _ hd.2]
    · simp
    · intro p hp q hq
      rcases List.mem_append.1 hp with h | h
      · exact hj p h q (List.mem_cons_of_mem _ hq)
      · simp only [List.mem_singleton] at h
        subst h
        intro e
        have : (r.map (·.1)).contains k = true := by
          rw [List.contains_iff_mem]; exact List.mem_map.2 ⟨q, hq, e.symm⟩
        have hc := hd.1
        rw [this] at hc; cases hc

/-- **C11 (options round trip)**: for every text (possibly containing `!`, e.g. inside a URI password) and every
option dictionary satisfying `validOptions`, parsing the rendered text gives back the text and the dictionary. -/
theorem C11_options_roundtrip (text : Str) (opts : List (Str × Val)) (hv : validOptions text opts = true) :
    parseOptions (renderOptions text opts) = (text, opts) := by
  simp only [validOptions, validOptText, Bool.and_eq_true, decide_eq_true_eq, List.all_eq_true] at hv
  obtain ⟨⟨⟨⟨hh, ht⟩, hlast⟩, hopts⟩, hdist⟩ := hv
  have hP := fun o ho => renderOpt_props o (hopts o ho).1 (hopts o ho).2
  -- the text is the join of its own `!` pieces
  have hjoin := joinHT_splitHT '!' text
  have hnosep := splitHT_parts_noSep '!' text
  generalize splitHT '!' text = p at hh ht hlast hjoin hnosep
  obtain ⟨h, t⟩ := p
  simp only at hh ht hlast hjoin hnosep
  have hrender : renderOptions text opts = joinHT '!' h (t ++ opts.map renderOpt) := by
    unfold renderOptions; rw [← hjoin, joinHT_append]
  have hparts : ∀ x ∈ t ++ opts.map renderOpt, '!' ∉ x := by
    intro x hx
    rcases List.mem_append.1 hx with e | e
    · exact hnosep.2 x e
    · rcases List.mem_map.1 e with ⟨o, ho, rfl⟩; exact (hP o ho).1
  have hstrip : (t ++ opts.map renderOpt).map strip = t ++ opts.map renderOpt := by
    apply map_eq_self_of_forall
    intro x hx
    rcases List.mem_append.1 hx with e | e
    · exact ht x e
    · rcases List.mem_map.1 e with ⟨o, ho, rfl⟩; exact (hP o ho).2.1
  have hvalid : ∀ x ∈ (opts.map renderOpt).reverse, validOptName x = true := by
    intro x hx
    rcases List.mem_map.1 (List.mem_reverse.1 hx) with ⟨o, ho, rfl⟩; exact (hP o ho).2.2.1
  have htail : t.reverse.takeWhile validOptName = [] := by
    cases hr : t.reverse with
    | nil => rfl
    | cons l rest =>
      have : t.getLast? = some l := by rw [← List.head?_reverse, hr]; rfl
      rw [this] at hlast
      simp only [Bool.not_eq_true'] at hlast
      simp [hlast]
  have hn : ((t ++ opts.map renderOpt).reverse.takeWhile validOptName).length = opts.length := by
    rw [List.reverse_append, takeWhile_append_all _ _ _ hvalid, htail]; simp
  have hparse : (opts.map renderOpt).map parseOpt = opts := by
    rw [List.map_map]
    apply map_eq_self_of_forall
    intro o ho; exact (hP o ho).2.2.2
  unfold parseOptions
  rw [hrender, splitHT_joinHT '!' _ h hnosep.1 hparts]
  simp only [hstrip, hn, hh]
  have hpos : (t ++ opts.map renderOpt).length - opts.length = t.length := by simp
  rw [hpos, List.take_left' rfl, List.drop_left' rfl, hparse, hjoin]
  unfold dictOfPairs
  rw [foldl_dictSet_distinct opts [] hdist (by simp)]
  simp

/-! ### non-vacuity and negative witnesses (grammar) -/

/-- the hypotheses are satisfiable, with a `!` inside the password and every kind of option -/
example : validOptions "rtsp://u:p!w@h/s".toList
    [("sync".toList, .bool true), ("bgr".toList, .bool false), ("loop".toList, .int 3), ("maxfps".toList, .float "2.5".toList),
     ("pattern".toList, .str "*.jpg".toList), ("x".toList, .null)] = true := by decide +kernel

example : parseOptions "rtsp://u:p!w@h/s!sync!no-bgr!loop=3!maxfps=2.5!pattern=*.jpg!x=null".toList =
    ("rtsp://u:p!w@h/s".toList,
     [("sync".toList, .bool true), ("bgr".toList, .bool false), ("loop".toList, .int 3), ("maxfps".toList, .float "2.5".toList),
      ("pattern".toList, .str "*.jpg".toList), ("x".toList, .null)]) := by decide +kernel

example : validTopics "tcp://a".toList (some 3) .yes
    (.maps [("a".toList, "a".toList), ("b".toList, "c".toList), ("main".toList, "e".toList)]) = true := by decide +kernel

/-- the docstring example of `parse_topics` (`'text;a;b>c ; >   e;'`) does not return what the docstring says: its last
two topics both map from `main`, which the uniqueness check rejects (finding `docstring:parse_topics`); without the
trailing `;` it parses as documented -/
example : parseTopics "text;a;b>c ; >   e;".toList none .yes "main".toList = .error .valueError ∧
    parseTopics "text;a;b>c ; >   e".toList none .yes "main".toList =
      .ok ("text".toList, .maps [("a".toList, "a".toList), ("b".toList, "c".toList), ("main".toList, "e".toList)]) := by
  decide +kernel

/-- the docstring example of `parse_options` (`'text!a=1 ! b  = hello   !c'`) does not return what the docstring says:
`b  = hello` has blanks before `=`, so `re_valid_option_name` rejects it and it becomes part of the text (finding
`docstring:parse_options`); without those blanks it parses as documented -/
example : parseOptions "text!a=1 ! b  = hello   !c".toList = ("text!a=1!b  = hello".toList, [("c".toList, .bool true)]) ∧
    parseOptions "text!a=1 ! b=  hello   !c".toList =
      ("text".toList, [("a".toList, .int 1), ("b".toList, .str "hello".toList), ("c".toList, .bool true)]) := by
  decide +kernel

/-- outside the validity predicate: a password whose last `!` piece looks like an option is parsed as an option
(`validOptText` rejects exactly this), so the hypothesis of `C11_options_roundtrip` cannot be dropped -/
example : validOptText "rtsp://u:a!b=c@h".toList = false ∧
    parseOptions "rtsp://u:a!b=c@h".toList = ("rtsp://u:a".toList, [("b".toList, .str "c@h".toList)]) := by decide +kernel

/-- a string value that `json_getval` would turn into something else does not round-trip and is not valid -/
example : validOptVal (.str "12".toList) = false ∧ validOptVal (.str "x!".toList) = false ∧
    validOptVal (.str " x".toList) = false ∧ validOptVal (.str "1.".toList) = true := by decide +kernel


/-! ## `Filter.normalize_config`: normal forms -/

/-- normal form of `extra_metrics`: `None` or a dict -/
def NFExtra (v : Val) : Prop := v = .null ∨ ∃ d, v = .dict d

/-- normal form of `mq_log` / `log`: `None` or a value `MQ.LOG_MAP` maps to itself -/
def NFLog (v : Val) : Prop := v = .null ∨ logMap v = .ok (some v)

/-- **normal form of a base filter configuration** (for given validator outcomes `env`): the three comma-list fields are
`None` or non-string truthy values, `exit_after` passes its check, `extra_metrics` is `None`/dict, `mq_log` is a fixed
point of `MQ.LOG_MAP`.  Nothing is required of any other key. -/
def NFFilter (env : Env) (c : Dict) : Prop :=
  NFCommas (getD c kSources) ∧ NFCommas (getD c kOutputs) ∧ NFCommas (getD c kOutputsRequired) ∧
  checkExitAfter env (getD c kExitAfter) = .ok () ∧ NFExtra (getD c kExtraMetrics) ∧ NFLog (getD c kMqLog)

theorem logMap_fixed (v nv : Val) (h : logMap v = .ok (some nv)) : logMap nv = .ok (some nv) := by
  unfold logMap at h
  split at h
  · rename_i s
    split at h
    · rename_i hs
      injection h with h; injection h with h; subst h
      simp only [logMap, hs, ↓reduceIte]
    · split at h
      · injection h with h; injection h with h; subst h; rfl
      · cases h
  all_goals first
    | (injection h with h; injection h with h; subst h; decide)
    | cases h

theorem normLog_nf (c c' : Dict) (k : Str) (h : normLog c k = .ok c') :
    NFLog (getD c' k) ∧ ∀ k2, k2 ≠ k → getD c' k2 = getD c k2 := by
  unfold normLog at h
  split at h
  · rename_i hn
    injection h with h; subst h
    exact ⟨Or.inl hn, fun _ _ => rfl⟩
  · split at h
    · cases h
    · cases h
    · rename_i nv hl
      injection h with h; subst h
      refine ⟨Or.inr ?_, fun k2 hk => getD_dictSet_ne _ _ _ _ hk⟩
      rw [getD_dictSet_eq]
      exact logMap_fixed _ _ hl

theorem normLog_fixed (c : Dict) (k : Str) (h : NFLog (getD c k)) : normLog c k = .ok c := by
  unfold normLog
  rcases h with h | h
  · simp [h]
  · split
    · rfl
    · rename_i hne
      simp only [h]
      rw [dictSet_getD_self c k (by intro e; exact hne e)]

theorem normExtraMetrics_nf (c c' : Dict) (h : normExtraMetrics c = .ok c') :
    NFExtra (getD c' kExtraMetrics) ∧ ∀ k2, k2 ≠ kExtraMetrics → getD c' k2 = getD c k2 := by
  unfold normExtraMetrics at h
  split at h
  · rename_i hn
    injection h with h; subst h
    exact ⟨Or.inl hn, fun _ _ => rfl⟩
  · split at h
    · cases h
    · injection h with h; subst h
      refine ⟨Or.inr ⟨_, getD_dictSet_eq _ _ _⟩, fun k2 hk => getD_dictSet_ne _ _ _ _ hk⟩
  · rename_i d hd
    injection h with h; subst h
    exact ⟨Or.inr ⟨d, hd⟩, fun _ _ => rfl⟩
  · cases h

theorem normExtraMetrics_fixed (c : Dict) (h : NFExtra (getD c kExtraMetrics)) : normExtraMetrics c = .ok c := by
  unfold normExtraMetrics
  rcases h with h | ⟨d, h⟩ <;> simp [h]

/-- **C11 (Filter, output is normal)**: whatever `Filter.normalize_config` returns is in normal form. -/
theorem C11_nf_Filter_out (env : Env) (c c' : Dict) (h : normalizeFilter env c = .ok c') : NFFilter env c' := by
  unfold normalizeFilter at h
  simp only at h
  split at h
  · cases h
  · rename_i hexit
    split at h
    · cases h
    · rename_i c2 hextra
      obtain ⟨hx1, hx2⟩ := normExtraMetrics_nf _ _ hextra
      obtain ⟨hl1, hl2⟩ := normLog_nf _ _ _ h
      have e1 : getD c' kSources = commasOrNone (getD c kSources) := by
        rw [hl2 _ (by decide), hx2 _ (by decide), getD_normCommas_ne _ _ _ _ (by decide),
          getD_normCommas_ne _ _ _ _ (by decide), getD_normCommas_eq _ _ _ (fun h => h)]
      have e2 : getD c' kOutputs = commasOrNone (getD c kOutputs) := by
        rw [hl2 _ (by decide), hx2 _ (by decide), getD_normCommas_ne _ _ _ _ (by decide),
          getD_normCommas_eq _ _ _ (by intro h; rw [getD_normCommas_ne _ _ _ _ (by decide)]; exact h)]
      have e3 : getD c' kOutputsRequired = commasOrNone (getD c kOutputsRequired) := by
        rw [hl2 _ (by decide), hx2 _ (by decide),
          getD_normCommas_eq _ _ _ (by
            intro h
            rw [getD_normCommas_ne _ _ _ _ (by decide), getD_normCommas_ne _ _ _ _ (by decide)]; exact h)]
      have e4 : getD c' kExitAfter = getD (normCommas c (normCommas c (normCommas c c kSources) kOutputs) kOutputsRequired) kExitAfter := by
        rw [hl2 _ (by decide), hx2 _ (by decide)]
      refine ⟨e1 ▸ commasOrNone_nf _, e2 ▸ commasOrNone_nf _, e3 ▸ commasOrNone_nf _, e4 ▸ hexit, ?_, hl1⟩
      rw [hl2 _ (by decide)]; exact hx1

/-- **C11 (Filter, normal forms are fixed points)**: a configuration in normal form is returned unchanged. -/
theorem C11_nf_Filter_fixed (env : Env) (c : Dict) (h : NFFilter env c) : normalizeFilter env c = .ok c := by
  obtain ⟨h1, h2, h3, h4, h5, h6⟩ := h
  unfold normalizeFilter
  simp only [normCommas_fixed c _ h1, normCommas_fixed c _ h2, normCommas_fixed c _ h3, h4,
    normExtraMetrics_fixed c h5, normLog_fixed c _ h6]

/-- **C11 (Filter, idempotence)**: for every configuration (any keys, any values, any validator outcomes), if
`Filter.normalize_config` accepts it, normalising the result again returns exactly the same configuration. -/
theorem C11_idempotent_Filter (env : Env) (c c' : Dict) (h : normalizeFilter env c = .ok c') :
    normalizeFilter env c' = .ok c' :=
  C11_nf_Filter_fixed env c' (C11_nf_Filter_out env c c' h)


/-! ## VideoIn, ImageIn, VideoOut, ImageOut -/

theorem dictSet_dictSet_same : ∀ (d : Dict) (k : Str) (v v' : Val), dictSet (dictSet d k v) k v' = dictSet d k v'
  | [], k, v, v' => by simp [dictSet]
  | (k', w) :: r, k, v, v' => by
    by_cases e : k' = k
    · simp [dictSet, e]
    · simp [dictSet, e, dictSet_dictSet_same r k v v']

/-- the two loops and the whole-list checks: the stored list has the input's length and is a fixed point -/
theorem ioItems_fixed (spec : IOSpec) (hs : SpecOk spec) (env : Env) (henv : SegtimeNotStr env) (l : List Val) (c2 c' : Dict)
    (h : ioItems spec env l c2 = .ok c') :
    ∃ l2, c' = dictSet c2 spec.listKey (.list l2) ∧ l2.length = l.length ∧
      ∀ c3, ioItems spec env l2 c3 = .ok (dictSet c3 spec.listKey (.list l2)) := by
  unfold ioItems at h
  split at h
  · cases h
  · rename_i l1 hl1
    split at h
    · cases h
    · rename_i l2 hl2
      split at h
      · cases h
      · rename_i hu1
        split at h
        · cases h
        · rename_i hu2
          split at h
          · cases h
          · rename_i huri
            injection h with h
            refine ⟨l2, h.symm, ?_, ?_⟩
            · rw [mapExcept_length _ _ _ hl2, mapExcept_length _ _ _ hl1]
            · intro c3
              have hfixall : ∀ y ∈ l2, fixItem spec env y = .ok y ∧ parseItem spec y = .ok y := by
                intro y hy
                obtain ⟨x, _, hx⟩ := mapExcept_mem _ _ _ hl2 y hy
                exact fixItem_fixed spec hs env henv x y hx
              have hp2 : mapExcept (parseItem spec) l2 = .ok l2 := mapExcept_fixed _ _ (fun y hy => (hfixall y hy).2)
              have hf2 : mapExcept (fixItem spec env) l2 = .ok l2 := mapExcept_fixed _ _ (fun y hy => (hfixall y hy).1)
              unfold ioItems
              simp only [hp2, hf2, hu1, hu2, huri]
              rfl

/-- **C11 (endpoint-list classes, idempotence)**, for every class description satisfying the side conditions `SpecOk`
and every validator outcome table whose `parse_segtime` results are not strings: if the class's `normalize_config`
accepts a configuration, normalising the result again returns exactly the same configuration. -/
theorem C11_idempotent_IO (spec : IOSpec) (hs : SpecOk spec) (env : Env) (henv : SegtimeNotStr env) (c c' : Dict)
    (h : normalizeIO spec env c = .ok c') : normalizeIO spec env c' = .ok c' := by
  unfold normalizeIO at h
  split at h
  · cases h
  · rename_i c1 hF
    simp only at h
    split at h
    · cases h
    · rename_i hcond
      have hk1 : spec.listKey ∉ keys c1 := by
        rw [keys_normalizeFilter env _ _ hF]; exact not_mem_keys_dictDel c spec.listKey
      have hF2 : normalizeFilter env c1 = .ok c1 := C11_idempotent_Filter env _ _ hF
      split at h
      · rename_i l hitems
        obtain ⟨l2, hc', hlen, hfix⟩ := ioItems_fixed spec hs env henv l _ c' h
        rw [hitems] at hcond hc'
        have hpb : putBack spec.listKey (Val.list l) c1 = c1 ++ [(spec.listKey, Val.list l)] := by
          simp [putBack, dictSet_absent _ _ _ hk1]
        rw [hpb] at hcond hc'
        rw [← dictSet_absent _ _ _ hk1, dictSet_dictSet_same, dictSet_absent _ _ _ hk1] at hc'
        rw [getD_append_ne _ _ _ _ hk1 hs.keysDiffer] at hcond
        subst hc'
        have htr : truthy (.list l2) = truthy (.list l) := by
          cases l <;> cases l2 <;> simp_all [truthy]
        have hpb2 : putBack spec.listKey (Val.list l2) c1 = c1 ++ [(spec.listKey, Val.list l2)] := by
          simp [putBack, dictSet_absent _ _ _ hk1]
        unfold normalizeIO
        simp only [dictDel_append_last _ _ _ hk1, hF2, getD_append_last _ _ _ hk1, splitCommasMaybe, hpb2,
          getD_append_ne _ _ _ _ hk1 hs.keysDiffer, htr, hcond, hfix]
        rw [← dictSet_absent _ _ _ hk1, dictSet_dictSet_same]
        simp
      all_goals cases h

theorem specOk_videoIn : SpecOk videoInSpec := ⟨by decide, by decide, by decide⟩
theorem specOk_imageIn : SpecOk imageInSpec := ⟨by decide, by decide, by decide⟩
theorem specOk_videoOut : SpecOk videoOutSpec := ⟨by decide, by decide, by decide⟩
theorem specOk_imageOut : SpecOk imageOutSpec := ⟨by decide, by decide, by decide⟩

theorem C11_idempotent_VideoIn (env : Env) (henv : SegtimeNotStr env) (c c' : Dict)
    (h : normalizeVideoIn env c = .ok c') : normalizeVideoIn env c' = .ok c' :=
  C11_idempotent_IO videoInSpec specOk_videoIn env henv c c' h

theorem C11_idempotent_ImageIn (env : Env) (henv : SegtimeNotStr env) (c c' : Dict)
    (h : normalizeImageIn env c = .ok c') : normalizeImageIn env c' = .ok c' :=
  C11_idempotent_IO imageInSpec specOk_imageIn env henv c c' h

theorem C11_idempotent_VideoOut (env : Env) (henv : SegtimeNotStr env) (c c' : Dict)
    (h : normalizeVideoOut env c = .ok c') : normalizeVideoOut env c' = .ok c' :=
  C11_idempotent_IO videoOutSpec specOk_videoOut env henv c c' h

theorem C11_idempotent_ImageOut (env : Env) (henv : SegtimeNotStr env) (c c' : Dict)
    (h : normalizeImageOut env c = .ok c') : normalizeImageOut env c' = .ok c' :=
  C11_idempotent_IO imageOutSpec specOk_imageOut env henv c c' h


/-! ## Webvis -/

theorem getD_of_lookup_eq {c c' : Dict} {k : Str} (h : lookup c' k = lookup c k) : getD c' k = getD c k := by
  simp [getD, h]

/-- normal form only looks at the six keys `Filter.normalize_config` handles -/
theorem NFFilter_congr (env : Env) (c c' : Dict) (h : NFFilter env c)
    (h1 : getD c' kSources = getD c kSources) (h2 : getD c' kOutputs = getD c kOutputs ∨ getD c' kOutputs = .null)
    (h3 : getD c' kOutputsRequired = getD c kOutputsRequired) (h4 : getD c' kExitAfter = getD c kExitAfter)
    (h5 : getD c' kExtraMetrics = getD c kExtraMetrics) (h6 : getD c' kMqLog = getD c kMqLog) : NFFilter env c' := by
  obtain ⟨a1, a2, a3, a4, a5, a6⟩ := h
  refine ⟨h1 ▸ a1, ?_, h3 ▸ a3, h4 ▸ a4, h5 ▸ a5, h6 ▸ a6⟩
  rcases h2 with e | e
  · exact e ▸ a2
  · rw [e]; exact Or.inl rfl

theorem splitCommasMaybe_idem (v : Val) : splitCommasMaybe (splitCommasMaybe v) = splitCommasMaybe v := by
  cases v <;> simp [splitCommasMaybe]

theorem lookup_putBack_ne (lk k : Str) (items : Val) (c1 : Dict) (h : k ≠ lk) : lookup (putBack lk items c1) k = lookup c1 k := by
  unfold putBack; split
  · rfl
  · exact lookup_dictSet_ne _ _ _ _ h

theorem webvisHostPort_frame (addr : Str) (c2 c' : Dict) (h : webvisHostPort addr c2 = .ok c') :
    kOutputs ∉ keys c' ∧ ∀ k, k ≠ kOutputs → k ≠ kHost → k ≠ kPort → lookup c' k = lookup c2 k := by
  unfold webvisHostPort at h
  simp only at h
  split at h
  · injection h with h; subst h
    refine ⟨not_mem_keys_dictDel _ _, ?_⟩
    intro k h1 h2 _
    rw [lookup_dictDel_ne _ _ _ h1]
    split
    · exact lookup_dictSet_ne _ _ _ _ h2
    · rfl
  · split at h
    · cases h
    · injection h with h; subst h
      refine ⟨not_mem_keys_dictDel _ _, ?_⟩
      intro k h1 h2 h3
      rw [lookup_dictDel_ne _ _ _ h1, lookup_dictSet_ne _ _ _ _ h3]
      split
      · exact lookup_dictSet_ne _ _ _ _ h2
      · rfl

theorem webvisOutput_frame (outputs : Val) (c2 c' : Dict) (h : webvisOutput outputs c2 = .ok c') :
    kOutputs ∉ keys c' ∧ ∀ k, k ≠ kOutputs → k ≠ kHost → k ≠ kPort → lookup c' k = lookup c2 k := by
  unfold webvisOutput at h
  split at h
  · cases h
  · split at h
    · cases h
    · split at h
      · cases h
      · split at h
        · cases h
        · split at h
          · cases h
          · exact webvisHostPort_frame _ _ _ h
      · cases h

/-- **C11 (Webvis, idempotence)** -/
theorem C11_idempotent_Webvis (env : Env) (c c' : Dict) (h : normalizeWebvis env c = .ok c') :
    normalizeWebvis env c' = .ok c' := by
  unfold normalizeWebvis at h
  split at h
  · cases h
  · rename_i c1 hF
    simp only at h
    have hk1 : kOutputs ∉ keys c1 := by
      rw [keys_normalizeFilter env _ _ hF]; exact not_mem_keys_dictDel c kOutputs
    have hF2 : normalizeFilter env c1 = .ok c1 := C11_idempotent_Filter env _ _ hF
    have hNF : NFFilter env c1 := C11_nf_Filter_out env _ _ hF
    have hidem0 := splitCommasMaybe_idem (getD c kOutputs)
    generalize splitCommasMaybe (getD c kOutputs) = outputs at h hidem0
    split at h
    · cases h
    · rename_i hsrc
      split at h
      · cases h
      · cases h
      · rename_i hsleep
        split at h
        · -- no usable output: the config with the (falsy) comma-split outputs put back
          rename_i hfalsy
          injection h with h; subst h
          have hidem : splitCommasMaybe outputs = outputs := hidem0
          by_cases hn : outputs = .null
          · subst hn
            have hpb : putBack kOutputs Val.null c1 = c1 := by simp [putBack]
            rw [hpb] at hsrc hsleep ⊢
            have hg : getD c1 kOutputs = .null := by simp [getD, (lookup_none_iff c1 kOutputs).2 hk1]
            unfold normalizeWebvis
            simp only [dictDel_absent _ _ hk1, hF2, hg, splitCommasMaybe, hpb, hsrc, hsleep]
            simp [truthy]
          · have hpb : putBack kOutputs outputs c1 = c1 ++ [(kOutputs, outputs)] := by
              simp [putBack, hn, dictSet_absent _ _ _ hk1]
            rw [hpb] at hsrc hsleep ⊢
            unfold normalizeWebvis
            simp only [dictDel_append_last _ _ _ hk1, hF2, getD_append_last _ _ _ hk1, hidem, hpb, hsrc, hsleep, hfalsy]
            simp
        · -- `http://host:port` moved into host / port, outputs deleted
          obtain ⟨hko, hframe⟩ := webvisOutput_frame _ _ _ h
          have hfr : ∀ k, k ≠ kOutputs → k ≠ kHost → k ≠ kPort → lookup c' k = lookup c1 k := by
            intro k h1 h2 h3
            rw [hframe k h1 h2 h3, lookup_putBack_ne _ _ _ _ h1]
          have hNF' : NFFilter env c' := by
            apply NFFilter_congr env c1 c' hNF
            · exact getD_of_lookup_eq (hfr _ (by decide) (by decide) (by decide))
            · right; simp [getD, (lookup_none_iff c' kOutputs).2 hko]
            · exact getD_of_lookup_eq (hfr _ (by decide) (by decide) (by decide))
            · exact getD_of_lookup_eq (hfr _ (by decide) (by decide) (by decide))
            · exact getD_of_lookup_eq (hfr _ (by decide) (by decide) (by decide))
            · exact getD_of_lookup_eq (hfr _ (by decide) (by decide) (by decide))
          have hg : getD c' kOutputs = .null := by simp [getD, (lookup_none_iff c' kOutputs).2 hko]
          have hpb : putBack kOutputs Val.null c' = c' := by simp [putBack]
          have hsrc' : getD c' kSources = getD (putBack kOutputs outputs c1) kSources :=
            getD_of_lookup_eq (hframe _ (by decide) (by decide) (by decide))
          have hsl' : sleepNonPositive c' = sleepNonPositive (putBack kOutputs outputs c1) := by
            unfold sleepNonPositive
            rw [hframe _ (by decide) (by decide) (by decide)]
          unfold normalizeWebvis
          simp only [dictDel_absent _ _ hko, C11_nf_Filter_fixed env c' hNF', hg, splitCommasMaybe, hpb, hsrc', hsrc,
            hsl', hsleep]
          simp [truthy]


/-! ## Recorder

`Recorder.normalize_config` takes `outputs` out and puts it back at the end of the dict, and appends `rules` when it was
missing, so a second pass may list the same entries in another order.  Python dict equality ignores order; the theorem
states it as: the second pass succeeds and every key reads exactly as after the first pass. -/

/-- equal as Python dicts with unique keys: every key reads the same -/
def SameEntries (a b : Dict) : Prop := ∀ k, lookup a k = lookup b k

theorem splitCommasMaybe_of_not_str (v : Val) (h : isStrV v = false) : splitCommasMaybe v = v := by
  cases v <;> simp_all [splitCommasMaybe, isStrV]

theorem recorderOutput_not_str (o : Val) : isStrV (recorderOutput o) = false := by
  cases o <;> simp [recorderOutput, isStrV]

theorem recorderOutput_idem (o : Val) : recorderOutput (recorderOutput o) = recorderOutput o := by
  cases o <;> simp [recorderOutput]

theorem recorderRules_spec (c3 c' : Dict) (h : recorderRules c3 = .ok c') :
    ∃ rules, c' = dictSet c3 kRules rules ∧ truthy rules = true ∧ isStrV rules = false ∧
      checkRulesV rules = .ok () ∧ checkEmpty (getD c' kEmpty) = .ok () := by
  unfold recorderRules at h
  simp only at h
  split at h
  · cases h
  · rename_i hchk
    split at h
    · cases h
    · rename_i hemp
      injection h with h
      refine ⟨_, h.symm, ?_, ?_, hchk, h ▸ hemp⟩
      · split
        · assumption
        · rfl
      · split
        · cases hs : isStrV (splitCommasMaybe (getD c3 kRules))
          · rfl
          · exact absurd hs (by intro h'; exact splitCommasMaybe_not_str _ h')
        · rfl

theorem recorderRules_fixed (c3 : Dict) (rules : Val) (hg : getD c3 kRules = rules) (ht : truthy rules = true)
    (hs : isStrV rules = false) (hchk : checkRulesV rules = .ok ())
    (hemp : checkEmpty (getD (dictSet c3 kRules rules) kEmpty) = .ok ()) :
    recorderRules c3 = .ok (dictSet c3 kRules rules) := by
  unfold recorderRules
  simp only [hg, splitCommasMaybe_of_not_str rules hs, ht, ↓reduceIte, hchk, hemp]

/-- **C11 (Recorder, idempotence)**: the second pass succeeds and every key reads as after the first pass. -/
theorem C11_idempotent_Recorder (env : Env) (c c' : Dict) (h : normalizeRecorder env c = .ok c') :
    ∃ c'', normalizeRecorder env c' = .ok c'' ∧ SameEntries c'' c' := by
  unfold normalizeRecorder at h
  split at h
  · cases h
  · rename_i c1 hF
    simp only at h
    have hNF : NFFilter env c1 := C11_nf_Filter_out env _ _ hF
    generalize splitCommasMaybe (getD c kOutputs) = outputs at h
    split at h
    · cases h
    · rename_i hsrc
      split at h
      · cases h
      · split at h
        · rename_i o _hto
          split at h
          · cases h
          · rename_i name hname
            split at h
            · cases h
            · rename_i hfile
              obtain ⟨rules, hc', hrt, hrs, hrchk, hremp⟩ := recorderRules_spec _ _ h
              -- how every key of the first result reads
              have hne : kRules ≠ kOutputs := by decide
              have hout : getD c' kOutputs = .list [recorderOutput o] := by
                rw [hc', getD_dictSet_ne _ _ _ _ (Ne.symm hne), getD_dictSet_eq]
              have hrules : getD c' kRules = rules := by rw [hc', getD_dictSet_eq]
              have hother : ∀ k, k ≠ kOutputs → k ≠ kRules → lookup c' k = lookup c1 k := by
                intro k h1 h2
                rw [hc', lookup_dictSet_ne _ _ _ _ h2, lookup_dictSet_ne _ _ _ _ h1, lookup_putBack_ne _ _ _ _ h1]
              have hsrc1 : getD (putBack kOutputs (Val.list [o]) c1) kSources = getD c1 kSources :=
                getD_of_lookup_eq (lookup_putBack_ne _ _ _ _ (by decide))
              rw [hsrc1] at hsrc
              -- second pass
              let d := dictDel c' kOutputs
              have hd : ∀ k, k ≠ kOutputs → k ≠ kRules → getD d k = getD c1 k := by
                intro k h1 h2
                exact getD_of_lookup_eq (by rw [lookup_dictDel_ne _ _ _ h1, hother k h1 h2])
              have hNFd : NFFilter env d := by
                apply NFFilter_congr env c1 d hNF
                · exact hd _ (by decide) (by decide)
                · right; exact getD_dictDel_eq _ _
                · exact hd _ (by decide) (by decide)
                · exact hd _ (by decide) (by decide)
                · exact hd _ (by decide) (by decide)
                · exact hd _ (by decide) (by decide)
              have hpb : putBack kOutputs (Val.list [recorderOutput o]) d = dictSet d kOutputs (Val.list [recorderOutput o]) := by
                simp [putBack]
              have hsrc2 : getD (dictSet d kOutputs (Val.list [recorderOutput o])) kSources = getD c1 kSources := by
                rw [getD_dictSet_ne _ _ _ _ (by decide)]; exact hd _ (by decide) (by decide)
              have hrules2 : getD (dictSet (dictSet d kOutputs (Val.list [recorderOutput o])) kOutputs (Val.list [recorderOutput o])) kRules = rules := by
                rw [getD_dictSet_ne _ _ _ _ hne, getD_dictSet_ne _ _ _ _ hne, ← hrules]
                exact getD_of_lookup_eq (lookup_dictDel_ne _ _ _ hne)
              have hemp2 : checkEmpty (getD (dictSet (dictSet (dictSet d kOutputs (Val.list [recorderOutput o])) kOutputs
                  (Val.list [recorderOutput o])) kRules rules) kEmpty) = .ok () := by
                rw [getD_dictSet_ne _ _ _ _ (by decide), getD_dictSet_ne _ _ _ _ (by decide),
                  getD_dictSet_ne _ _ _ _ (by decide)]
                have : getD d kEmpty = getD c' kEmpty := getD_of_lookup_eq (lookup_dictDel_ne _ _ _ (by decide))
                rw [this]; exact hremp
              refine ⟨dictSet (dictSet (dictSet d kOutputs (Val.list [recorderOutput o])) kOutputs
                  (Val.list [recorderOutput o])) kRules rules, ?_, ?_⟩
              · unfold normalizeRecorder
                simp only [show dictDel c' kOutputs = d from rfl, C11_nf_Filter_fixed env d hNFd, hout,
                  splitCommasMaybe, hpb, hsrc2, hsrc, recorderOutput_idem, hname, hfile]
                simp only [truthy, List.isEmpty_cons, Bool.not_false, Bool.false_eq_true, ↓reduceIte, Bool.not_true]
                exact recorderRules_fixed _ rules hrules2 hrt hrs hrchk hemp2
              · intro k
                by_cases h2 : k = kRules
                · subst h2
                  rw [lookup_dictSet_eq, hc', lookup_dictSet_eq]
                · rw [lookup_dictSet_ne _ _ _ _ h2]
                  by_cases h1 : k = kOutputs
                  · subst h1
                    rw [lookup_dictSet_eq, hc', lookup_dictSet_ne _ _ _ _ h2, lookup_dictSet_eq]
                  · rw [lookup_dictSet_ne _ _ _ _ h1, lookup_dictSet_ne _ _ _ _ h1]
                    exact lookup_dictDel_ne _ _ _ h1
          · cases h
        all_goals cases h


/-! ## REST (behaviour with the pending fixes `C11-rest-base-path`, `C11-rest-endpoint-dicts`) -/

theorem getD_eq_of_lookup_some {c : Dict} {k : Str} {v : Val} (h : lookup c k = some v) : getD c k = v := by
  simp [getD, h]

/-- **C11 (REST, idempotence)**, for validator outcomes where the absolute path of a directory is again a directory:
the second pass succeeds and every key reads exactly as after the first pass (`SameEntries`, i.e. equal as Python
dicts; `sources=[]` and the materialised `declared_fps` may swap places in the key order). -/
theorem C11_idempotent_REST (env : Env) (henv : IsDirStable env) (c c' : Dict) (h : normalizeREST true env c = .ok c') :
    ∃ c'', normalizeREST true env c' = .ok c'' ∧ SameEntries c'' c' := by
  unfold normalizeREST at h
  split at h
  · cases h
  · rename_i c1 hF
    simp only at h
    have hk1 : lookup c1 kSources = none := by
      rw [lookup_none_iff, keys_normalizeFilter env _ _ hF]; exact not_mem_keys_dictDel c kSources
    have hNF : NFFilter env c1 := C11_nf_Filter_out env _ _ hF
    have hnstr : isStrV (splitCommasMaybe (getD c kSources)) = false := by
      cases hs : isStrV (splitCommasMaybe (getD c kSources))
      · rfl
      · exact absurd hs (by intro h'; exact splitCommasMaybe_not_str _ h')
    generalize splitCommasMaybe (getD c kSources) = sources at h hnstr
    split at h
    · cases h
    · rename_i hout
      split at h
      · cases h
      · rename_i c3 h3
        split at h
        · cases h
        · rename_i c4 h4
          split at h
          · cases h
          · rename_i c5 h5
            have f7 := normResourcePath_frame env _ _ h
            have f5 := normEndpoints_frame _ _ h5
            have f4 := normBasePath_frame _ _ h4
            -- frames from c3 to c'
            have f37 : ∀ k, k ≠ kBasePath → k ≠ kEndpoints → k ≠ kDeclaredFps → k ≠ kResourcePath → lookup c' k = lookup c3 k := by
              intro k a b d e
              rw [f7 k e, lookup_dictSet_ne _ _ _ _ d, f5 k b, f4 k a]
            have f2 : ∀ k, k ≠ kSources → lookup (putBack kSources sources c1) k = lookup c1 k :=
              fun k hk => lookup_putBack_ne _ _ _ _ hk
            -- the Filter keys other than `sources` read as in c1
            have f3 : ∀ k, k ≠ kBasePath → k ≠ kHost → k ≠ kPort → k ≠ kSources → k ≠ kEndpoints →
                lookup c3 k = lookup c1 k := by
              intro k a b d e g
              split at h3
              · rw [(restSource_frame _ _ _ h3).2 k a b d e g, f2 k e]
              · injection h3 with h3; subst h3; exact f2 k e
            have fF : ∀ k, k ≠ kBasePath → k ≠ kHost → k ≠ kPort → k ≠ kSources → k ≠ kEndpoints →
                k ≠ kDeclaredFps → k ≠ kResourcePath → lookup c' k = lookup c1 k := by
              intro k a b d e g i j
              rw [f37 k a g i j, f3 k a b d e g]
            -- how `sources` reads after the first pass
            have hS : lookup c' kSources = none ∨
                ∃ v, lookup c' kSources = some v ∧ v ≠ .null ∧ truthy v = false ∧ isStrV v = false := by
              rw [f37 _ (by decide) (by decide) (by decide) (by decide)]
              split at h3
              · left; exact (restSource_frame _ _ _ h3).1
              · rename_i hfalsy
                injection h3 with h3; subst h3
                by_cases hn : sources = .null
                · left; subst hn; simp [putBack, hk1]
                · right
                  refine ⟨sources, ?_, hn, by simpa using hfalsy, hnstr⟩
                  simp [putBack, hn, lookup_dictSet_eq]
            -- values of the REST fields after the first pass
            have hbase : NFBase (getD c' kBasePath) := by
              have : getD c' kBasePath = getD c4 kBasePath := getD_of_lookup_eq (by
                rw [f7 _ (by decide), lookup_dictSet_ne _ _ _ _ (by decide), f5 _ (by decide)])
              rw [this]; exact normBasePath_out _ _ h4
            have hend : NFEnd (getD c' kEndpoints) := by
              have : getD c' kEndpoints = getD c5 kEndpoints := getD_of_lookup_eq (by
                rw [f7 _ (by decide), lookup_dictSet_ne _ _ _ _ (by decide)])
              rw [this]; exact normEndpoints_out _ _ h5
            have hdecl : lookup c' kDeclaredFps = some (getD c5 kDeclaredFps) := by
              rw [f7 _ (by decide), lookup_dictSet_eq]
            have hres : NFRes env (getD c' kResourcePath) := normResourcePath_out env henv _ _ h
            have hout' : getD c' kOutputs = getD (putBack kSources sources c1) kOutputs := getD_of_lookup_eq (by
              rw [fF _ (by decide) (by decide) (by decide) (by decide) (by decide) (by decide) (by decide),
                f2 _ (by decide)])
            -- second pass
            let d := dictDel c' kSources
            have hd : ∀ k, k ≠ kSources → lookup d k = lookup c' k := fun k hk => lookup_dictDel_ne _ _ _ hk
            have hNFd : NFFilter env d := by
              have g : ∀ k, k ≠ kBasePath → k ≠ kHost → k ≠ kPort → k ≠ kSources → k ≠ kEndpoints →
                  k ≠ kDeclaredFps → k ≠ kResourcePath → getD d k = getD c1 k := by
                intro k a b e f g i j
                exact getD_of_lookup_eq (by rw [hd k f, fF k a b e f g i j])
              apply NFFilter_congr env c1 d hNF
              · rw [show getD d kSources = .null from getD_dictDel_eq _ _]
                have : getD c1 kSources = .null := by simp [getD, hk1]
                rw [this]
              · left; exact g _ (by decide) (by decide) (by decide) (by decide) (by decide) (by decide) (by decide)
              · exact g _ (by decide) (by decide) (by decide) (by decide) (by decide) (by decide) (by decide)
              · exact g _ (by decide) (by decide) (by decide) (by decide) (by decide) (by decide) (by decide)
              · exact g _ (by decide) (by decide) (by decide) (by decide) (by decide) (by decide) (by decide)
              · exact g _ (by decide) (by decide) (by decide) (by decide) (by decide) (by decide) (by decide)
            -- the comma-split `sources` of the second pass and the dict with it put back
            have hs2 : ∃ s', splitCommasMaybe (getD c' kSources) = s' ∧ truthy s' = false ∧
                SameEntries (putBack kSources s' d) c' := by
              rcases hS with hnone | ⟨v, hv, hvn, hvf, hvs⟩
              · refine ⟨.null, by simp [getD, hnone, splitCommasMaybe], rfl, ?_⟩
                intro k
                by_cases hk : k = kSources
                · subst hk
                  simp only [putBack, ↓reduceIte]
                  rw [hnone]; exact (lookup_none_iff _ _).2 (not_mem_keys_dictDel _ _)
                · simp only [putBack, ↓reduceIte]; exact hd k hk
              · refine ⟨v, by rw [getD_eq_of_lookup_some hv, splitCommasMaybe_of_not_str v hvs], hvf, ?_⟩
                intro k
                by_cases hk : k = kSources
                · subst hk; simp [putBack, hvn, lookup_dictSet_eq, hv]
                · simp only [putBack, hvn, ↓reduceIte]
                  rw [lookup_dictSet_ne _ _ _ _ hk]; exact hd k hk
            obtain ⟨s', hs', hs'f, hsame⟩ := hs2
            have hg : ∀ k, getD (putBack kSources s' d) k = getD c' k := fun k => getD_of_lookup_eq (hsame k)
            refine ⟨putBack kSources s' d, ?_, hsame⟩
            have e1 : normBasePath true (putBack kSources s' d) = .ok (putBack kSources s' d) :=
              normBasePath_fixed _ (by rw [hg]; exact hbase)
            have e2 : normEndpoints true (putBack kSources s' d) = .ok (putBack kSources s' d) :=
              normEndpoints_fixed _ (by rw [hg]; exact hend)
            have e3 : dictSet (putBack kSources s' d) kDeclaredFps (getD (putBack kSources s' d) kDeclaredFps) =
                putBack kSources s' d := by
              apply dictSet_lookup_self
              rw [hsame, hdecl, hg, getD_eq_of_lookup_some hdecl]
            have e4 : normResourcePath env (putBack kSources s' d) = .ok (putBack kSources s' d) :=
              normResourcePath_fixed env _ (by rw [hg]; exact hres)
            unfold normalizeREST
            simp only [show dictDel c' kSources = d from rfl, C11_nf_Filter_fixed env d hNFd, hs', hg, hout', hout, hs'f,
              Bool.false_eq_true, ↓reduceIte, e1, e2]
            rw [← hg kDeclaredFps, e3, e4]


/-! ## MQTTOut

`MQTTOut.normalize_config` takes `outputs` out and (when it is an empty list, which is kept) puts it back at the end of
the dict, and appends `mappings` when it was missing, so a second pass may list the same entries in another order: as
for Recorder and REST the theorem is stated with `SameEntries` (Python dict equality). -/

/-- **C11 (MQTTOut, idempotence)**: for every configuration (any keys, any values, any validator outcomes), if
`MQTTOut.normalize_config` accepts it, the second pass succeeds and every key reads exactly as after the first pass. -/
theorem C11_idempotent_MQTTOut (env : Env) (c c' : Dict) (h : normalizeMQTTOut env c = .ok c') :
    ∃ c'', normalizeMQTTOut env c' = .ok c'' ∧ SameEntries c'' c' := by
  unfold normalizeMQTTOut at h
  split at h
  · cases h
  · rename_i c1 hF
    simp only at h
    have hk1 : lookup c1 kOutputs = none := by
      rw [lookup_none_iff, keys_normalizeFilter env _ _ hF]; exact not_mem_keys_dictDel c kOutputs
    have hNF : NFFilter env c1 := C11_nf_Filter_out env _ _ hF
    have hnstr : isStrV (splitCommasMaybe (getD c kOutputs)) = false := by
      cases hs : isStrV (splitCommasMaybe (getD c kOutputs))
      · rfl
      · exact absurd hs (by intro h'; exact splitCommasMaybe_not_str _ h')
    generalize splitCommasMaybe (getD c kOutputs) = outputs at h hnstr
    split at h
    · cases h
    · rename_i hsrc
      split at h
      · cases h
      · rename_i c3 h3
        split at h
        · cases h
        · rename_i hcid
          split at h
          · cases h
          · rename_i M hM
            injection h with h; subst h
            have f2 : ∀ k, k ≠ kOutputs → lookup (putBack kOutputs outputs c1) k = lookup c1 k :=
              fun k hk => lookup_putBack_ne _ _ _ _ hk
            -- keys the output block does not touch read as in c1
            have f3 : ∀ k, k ≠ kOutputs → k ≠ kBaseTopic → k ≠ kBrokerHost → k ≠ kBrokerPort → k ≠ kMappings →
                k ≠ kQos → k ≠ kRetain → lookup c3 k = lookup c1 k := by
              intro k a b d e f g i
              split at h3
              · rw [(mqttOutput_frame _ _ _ h3).2 k a b d e f g i, f2 k a]
              · injection h3 with h3; subst h3; exact f2 k a
            -- how `outputs` reads after the first pass: deleted / never there, or a kept falsy value
            have hS : lookup c3 kOutputs = none ∨
                ∃ v, lookup c3 kOutputs = some v ∧ v ≠ .null ∧ truthy v = false ∧ isStrV v = false := by
              split at h3
              · left; exact (mqttOutput_frame _ _ _ h3).1
              · rename_i hfalsy
                injection h3 with h3; subst h3
                by_cases hn : outputs = .null
                · left; subst hn; simp [putBack, hk1]
                · right
                  refine ⟨outputs, ?_, hn, by simpa using hfalsy, hnstr⟩
                  simp [putBack, hn, lookup_dictSet_eq]
            obtain ⟨hMns, hMfix⟩ := mqttMappings_fixed _ M (by
              cases hs : isStrV (splitCommasMaybe (getD c3 kMappings))
              · rfl
              · exact absurd hs (by intro h'; exact splitCommasMaybe_not_str _ h')) hM
            generalize hc' : dictSet c3 kMappings M = c'
            have fM : ∀ k, k ≠ kMappings → lookup c' k = lookup c3 k := by
              intro k hk; rw [← hc']; exact lookup_dictSet_ne _ _ _ _ hk
            have hMl : lookup c' kMappings = some M := by rw [← hc']; exact lookup_dictSet_eq _ _ _
            have hS' : lookup c' kOutputs = none ∨
                ∃ v, lookup c' kOutputs = some v ∧ v ≠ .null ∧ truthy v = false ∧ isStrV v = false := by
              rw [fM _ (by decide)]; exact hS
            -- second pass
            let d := dictDel c' kOutputs
            have hd : ∀ k, k ≠ kOutputs → lookup d k = lookup c' k := fun k hk => lookup_dictDel_ne _ _ _ hk
            have hNFd : NFFilter env d := by
              have g : ∀ k, k ≠ kOutputs → k ≠ kBaseTopic → k ≠ kBrokerHost → k ≠ kBrokerPort → k ≠ kMappings →
                  k ≠ kQos → k ≠ kRetain → getD d k = getD c1 k := by
                intro k a b e f g i j
                exact getD_of_lookup_eq (by rw [hd k a, fM k g, f3 k a b e f g i j])
              apply NFFilter_congr env c1 d hNF
              · exact g _ (by decide) (by decide) (by decide) (by decide) (by decide) (by decide) (by decide)
              · right; exact getD_dictDel_eq _ _
              · exact g _ (by decide) (by decide) (by decide) (by decide) (by decide) (by decide) (by decide)
              · exact g _ (by decide) (by decide) (by decide) (by decide) (by decide) (by decide) (by decide)
              · exact g _ (by decide) (by decide) (by decide) (by decide) (by decide) (by decide) (by decide)
              · exact g _ (by decide) (by decide) (by decide) (by decide) (by decide) (by decide) (by decide)
            -- the comma-split `outputs` of the second pass and the dict with it put back
            have hs2 : ∃ s', splitCommasMaybe (getD c' kOutputs) = s' ∧ truthy s' = false ∧
                SameEntries (putBack kOutputs s' d) c' := by
              rcases hS' with hnone | ⟨v, hv, hvn, hvf, hvs⟩
              · refine ⟨.null, by simp [getD, hnone, splitCommasMaybe], rfl, ?_⟩
                intro k
                by_cases hk : k = kOutputs
                · subst hk
                  simp only [putBack, ↓reduceIte]
                  rw [hnone]; exact (lookup_none_iff _ _).2 (not_mem_keys_dictDel _ _)
                · simp only [putBack, ↓reduceIte]; exact hd k hk
              · refine ⟨v, by rw [getD_eq_of_lookup_some hv, splitCommasMaybe_of_not_str v hvs], hvf, ?_⟩
                intro k
                by_cases hk : k = kOutputs
                · subst hk; simp [putBack, hvn, lookup_dictSet_eq, hv]
                · simp only [putBack, hvn, ↓reduceIte]
                  rw [lookup_dictSet_ne _ _ _ _ hk]; exact hd k hk
            obtain ⟨s', hs', hs'f, hsame⟩ := hs2
            have hg : ∀ k, getD (putBack kOutputs s' d) k = getD c' k := fun k => getD_of_lookup_eq (hsame k)
            have hsrc' : getD c' kSources = getD (putBack kOutputs outputs c1) kSources := getD_of_lookup_eq (by
              rw [fM _ (by decide), f3 _ (by decide) (by decide) (by decide) (by decide) (by decide) (by decide) (by decide),
                f2 _ (by decide)])
            have hcid' : getD c' kClientId = getD c3 kClientId := getD_of_lookup_eq (fM _ (by decide))
            have hMg : getD c' kMappings = M := getD_eq_of_lookup_some hMl
            refine ⟨dictSet (putBack kOutputs s' d) kMappings M, ?_, ?_⟩
            · unfold normalizeMQTTOut
              simp only [show dictDel c' kOutputs = d from rfl, C11_nf_Filter_fixed env d hNFd, hs', hg, hsrc', hsrc, hs'f,
                Bool.false_eq_true, ↓reduceIte, hcid', hcid, hMg, splitCommasMaybe_of_not_str M hMns, hMfix]
            · intro k
              by_cases hk : k = kMappings
              · subst hk; rw [lookup_dictSet_eq, hMl]
              · rw [lookup_dictSet_ne _ _ _ _ hk]; exact hsame k


/-! ## Util -/

theorem parseXform_not_str (s : Str) (v : Val) (h : parseXform s = .ok v) : isStrV v = false := by
  unfold parseXform at h
  split at h
  · cases h
  · simp only at h
    repeat' split at h
    all_goals first
      | (injection h with h; subst h; rfl)
      | cases h

theorem xformItem_out (x y : Val) (h : xformItem x = .ok y) : xformItem y = .ok y := by
  cases x with
  | str s =>
    have := parseXform_not_str s y h
    cases y <;> simp_all [xformItem, isStrV]
  | null => simp only [xformItem] at h; injection h with h; subst h; rfl
  | bool _ => simp only [xformItem] at h; injection h with h; subst h; rfl
  | int _ => simp only [xformItem] at h; injection h with h; subst h; rfl
  | float _ => simp only [xformItem] at h; injection h with h; subst h; rfl
  | list _ => simp only [xformItem] at h; injection h with h; subst h; rfl
  | tuple _ => simp only [xformItem] at h; injection h with h; subst h; rfl
  | dict _ => simp only [xformItem] at h; injection h with h; subst h; rfl
  | blob _ => simp only [xformItem] at h; injection h with h; subst h; rfl

theorem mapExcept_xform_fixed (l l' : List Val) (h : mapExcept xformItem l = .ok l') : mapExcept xformItem l' = .ok l' := by
  apply mapExcept_fixed
  intro y hy
  obtain ⟨x, _, hx⟩ := mapExcept_mem _ _ _ h y hy
  exact xformItem_out x y hx

theorem normXforms_spec (c2 c' : Dict) (h : normXforms c2 = .ok c') :
    normXforms c' = .ok c' ∧ ∀ k, k ≠ kXforms → lookup c' k = lookup c2 k := by
  unfold normXforms at h
  split at h
  · rename_i hf
    injection h with h; subst h
    refine ⟨?_, fun _ _ => rfl⟩
    unfold normXforms; rw [if_pos hf]
  · split at h
    · rename_i l hl
      split at h
      · cases h
      · rename_i l' hl'
        injection h with h; subst h
        refine ⟨?_, fun k hk => lookup_dictSet_ne _ _ _ _ hk⟩
        unfold normXforms
        rw [getD_dictSet_eq]
        split
        · rfl
        · simp only [splitCommasMaybe, mapExcept_xform_fixed l l' hl', dictSet_dictSet_same]
    · rename_i l hl
      split at h
      · cases h
      · rename_i l' hl'
        injection h with h; subst h
        refine ⟨?_, fun k hk => lookup_dictSet_ne _ _ _ _ hk⟩
        unfold normXforms
        rw [getD_dictSet_eq]
        split
        · rfl
        · simp only [splitCommasMaybe, mapExcept_xform_fixed l l' hl', dictSet_dictSet_same]
    all_goals cases h

/-- **C11 (Util, idempotence)** -/
theorem C11_idempotent_Util (env : Env) (c c' : Dict) (h : normalizeUtil env c = .ok c') :
    normalizeUtil env c' = .ok c' := by
  unfold normalizeUtil at h
  split at h
  · cases h
  · rename_i c1 hF
    split at h
    · cases h
    · rename_i c2 hL
      split at h
      · cases h
      · rename_i hs
        split at h
        · cases h
        · rename_i hm
          obtain ⟨hx, hfr⟩ := normXforms_spec _ _ h
          obtain ⟨hl1, hl2⟩ := normLog_nf _ _ _ hL
          have hNF : NFFilter env c1 := C11_nf_Filter_out env _ _ hF
          have g : ∀ k, k ≠ kXforms → k ≠ kLog → getD c' k = getD c1 k := by
            intro k a b
            rw [getD_of_lookup_eq (hfr k a), hl2 k b]
          have hNF' : NFFilter env c' := by
            apply NFFilter_congr env c1 c' hNF
            · exact g _ (by decide) (by decide)
            · left; exact g _ (by decide) (by decide)
            · exact g _ (by decide) (by decide)
            · exact g _ (by decide) (by decide)
            · exact g _ (by decide) (by decide)
            · exact g _ (by decide) (by decide)
          have hlog : NFLog (getD c' kLog) := by
            rw [getD_of_lookup_eq (hfr kLog (by decide))]; exact hl1
          have hs' : getD c' kSleep = getD c2 kSleep := getD_of_lookup_eq (hfr _ (by decide))
          have hm' : getD c' kMaxfps = getD c2 kMaxfps := getD_of_lookup_eq (hfr _ (by decide))
          unfold normalizeUtil
          simp only [C11_nf_Filter_fixed env c' hNF', normLog_fixed c' kLog hlog, hs', hm', hs, hm, hx]
          simp

/-! ## text form = structured form, per endpoint item (VideoIn, ImageIn, VideoOut, ImageOut) -/

/-- **C11 (text = structure, item level)**: for every URI text / option dictionary valid for `C11_options_roundtrip`
whose rendering contains no `;`, and every valid topic, the text item `uri!opts;topic` is converted by the first loop of
the four endpoint-list classes to exactly the documented structure `{source|output: uri, topic: topic, options: opts}`. -/
theorem C11_text_eq_struct_item (spec : IOSpec) (uri : Str) (opts : Dict) (topic : Str)
    (hv : validOptions uri opts = true) (hs : validTopicText (renderOptions uri opts) = true)
    (ht : validPlainTopic .no topic = true) :
    parseItem spec (.str (renderTopics (renderOptions uri opts) (.names [topic]))) =
      .ok (.dict [(spec.itemKey, .str uri), (kTopic, .str topic), (kOptions, .dict opts)]) := by
  have hvt : validTopics (renderOptions uri opts) (some 1) .no (.names [topic]) = true := by
    simp [validTopics, hs, ht, allDistinct, tooMany]
  simp only [parseItem, C11_topics_roundtrip _ (some 1) .no kMain _ hvt, C11_options_roundtrip uri opts hv]

/-- the same without a `;topic` part: the structure has `topic: None` (which the second loop turns into `main`) -/
theorem C11_text_eq_struct_item_notopic (spec : IOSpec) (uri : Str) (opts : Dict)
    (hv : validOptions uri opts = true) (hs : validTopicText (renderOptions uri opts) = true) :
    parseItem spec (.str (renderOptions uri opts)) =
      .ok (.dict [(spec.itemKey, .str uri), (kTopic, .null), (kOptions, .dict opts)]) := by
  have hvt : validTopics (renderOptions uri opts) (some 1) .no .absent = true := by
    simp [validTopics, hs]
  have := C11_topics_roundtrip _ (some 1) .no kMain _ hvt
  simp only [renderTopics] at this
  simp only [parseItem, this, C11_options_roundtrip uri opts hv]

/-! ## text form = structured form, per MQTTOut mapping -/

/-- a piece of a mapping's source (`src_topic`, one path segment): no outer blanks, no `/`, no `>` -/
def validMapSeg (s : Str) : Bool := strip s = s && !s.contains '/' && !s.contains '>'

theorem validMapSeg_spec (s : Str) (h : validMapSeg s = true) : strip s = s ∧ '/' ∉ s ∧ '>' ∉ s := by
  simp only [validMapSeg, Bool.and_eq_true, decide_eq_true_eq, Bool.not_eq_true'] at h
  exact ⟨h.1.1, mem_of_contains_false h.1.2, mem_of_contains_false h.2⟩

theorem not_mem_joinHT (ch sep : Char) (hne : ch ≠ sep) (h : Str) (t : List Str) (hh : ch ∉ h) (ht : ∀ x ∈ t, ch ∉ x) :
    ch ∉ joinHT sep h t := by
  unfold joinHT
  intro hm
  rcases List.mem_append.1 hm with e | e
  · exact hh e
  · obtain ⟨x, hx, hxm⟩ := List.mem_flatMap.1 e
    rcases List.mem_cons.1 hxm with g | g
    · exact hne g
    · exact ht x hx g

/-- the source text `src_topic/seg/seg…` splits back into its topic and path -/
theorem mapping_src_split (srcTopic a : Str) (r : List Str) (ht : validMapSeg srcTopic = true)
    (hp : (a :: r).all validMapSeg = true) :
    splitHT '/' (joinHT '/' srcTopic (a :: r)) = (srcTopic, a :: r) ∧ (a :: r).map strip = a :: r ∧
      '>' ∉ joinHT '/' srcTopic (a :: r) ∧ joinHT '/' srcTopic (a :: r) ≠ [] := by
  have hsegs : ∀ x ∈ a :: r, strip x = x ∧ '/' ∉ x ∧ '>' ∉ x :=
    fun x hx => validMapSeg_spec x (List.all_eq_true.1 hp x hx)
  obtain ⟨_, t2, t3⟩ := validMapSeg_spec srcTopic ht
  refine ⟨splitHT_joinHT '/' _ _ t2 (fun x hx => (hsegs x hx).2.1),
    map_eq_self_of_forall _ _ (fun x hx => (hsegs x hx).1),
    not_mem_joinHT '>' '/' (by decide) _ _ t3 (fun x hx => (hsegs x hx).2.2), ?_⟩
  rw [joinHT_cons]; simp

/-- **C11 (text = structure, MQTTOut mapping with destination)**: for every source topic (possibly empty: the solo
topic), non-empty source path, destination and option dictionary satisfying the decidable validity hypotheses, the text
mapping `src_topic/src/path>dst!opts` is converted by the first loop of `MQTTOut.normalize_config` to exactly the
documented structure `{dst_topic, src_topic, src_path, options}`. -/
theorem C11_text_eq_struct_mapping (srcTopic a : Str) (r : List Str) (dst : Str) (opts : Dict)
    (hv : validOptions (joinHT '/' srcTopic (a :: r) ++ '>' :: dst) opts = true)
    (hmq : (startsWith "tcp://".toList (renderOptions (joinHT '/' srcTopic (a :: r) ++ '>' :: dst) opts) ||
            startsWith "ipc://".toList (renderOptions (joinHT '/' srcTopic (a :: r) ++ '>' :: dst) opts)) = false)
    (ht : validMapSeg srcTopic = true) (hp : (a :: r).all validMapSeg = true)
    (hs : strip (joinHT '/' srcTopic (a :: r)) = joinHT '/' srcTopic (a :: r))
    (hd : dst ≠ [] ∧ strip dst = dst ∧ dst.contains '>' = false) :
    parseMapping (renderOptions (joinHT '/' srcTopic (a :: r) ++ '>' :: dst) opts) =
      .ok (mkMapping (.str dst) (orNull srcTopic) (.str (joinHT '/' a r)) opts) := by
  obtain ⟨h1, h2, h3, h4⟩ := mapping_src_split srcTopic a r ht hp
  obtain ⟨t1, _, _⟩ := validMapSeg_spec srcTopic ht
  obtain ⟨d1, d2, d3⟩ := hd
  unfold parseMapping
  rw [hmq]
  simp only [Bool.false_eq_true, ↓reduceIte, C11_options_roundtrip _ _ hv]
  rw [splitHT_append '>' dst _ h3, splitHT_noSep '>' dst (mem_of_contains_false d3)]
  simp only [hs, d2, h1, h2, t1]
  simp [h4, d1, orNull]

/-- the same without `>dst`: `dst_topic: None` (the second loop then fills in `frames` / the last path segment) -/
theorem C11_text_eq_struct_mapping_nodst (srcTopic a : Str) (r : List Str) (opts : Dict)
    (hv : validOptions (joinHT '/' srcTopic (a :: r)) opts = true)
    (hmq : (startsWith "tcp://".toList (renderOptions (joinHT '/' srcTopic (a :: r)) opts) ||
            startsWith "ipc://".toList (renderOptions (joinHT '/' srcTopic (a :: r)) opts)) = false)
    (ht : validMapSeg srcTopic = true) (hp : (a :: r).all validMapSeg = true)
    (hs : strip (joinHT '/' srcTopic (a :: r)) = joinHT '/' srcTopic (a :: r)) :
    parseMapping (renderOptions (joinHT '/' srcTopic (a :: r)) opts) =
      .ok (mkMapping .null (orNull srcTopic) (.str (joinHT '/' a r)) opts) := by
  obtain ⟨h1, h2, h3, h4⟩ := mapping_src_split srcTopic a r ht hp
  obtain ⟨t1, _, _⟩ := validMapSeg_spec srcTopic ht
  unfold parseMapping
  rw [hmq]
  simp only [Bool.false_eq_true, ↓reduceIte, C11_options_roundtrip _ _ hv]
  rw [splitHT_noSep '>' _ h3]
  simp only [hs, h1, h2, t1]
  simp [h4, orNull]

/-- a bare topic: `{src_topic: topic}`, everything else `None` -/
theorem C11_text_eq_struct_mapping_topic (topic : Str) (opts : Dict)
    (hv : validOptions topic opts = true)
    (hmq : (startsWith "tcp://".toList (renderOptions topic opts) || startsWith "ipc://".toList (renderOptions topic opts)) = false)
    (ht : validMapSeg topic = true) (hne : topic ≠ []) :
    parseMapping (renderOptions topic opts) = .ok (mkMapping .null (.str topic) .null opts) := by
  obtain ⟨t1, t2, t3⟩ := validMapSeg_spec topic ht
  unfold parseMapping
  rw [hmq]
  simp only [Bool.false_eq_true, ↓reduceIte, C11_options_roundtrip _ _ hv]
  rw [splitHT_noSep '>' _ t3]
  simp only [t1]
  rw [splitHT_noSep '/' _ t2]
  simp [hne, t1, orNull]


/-! ## non-vacuity and negative witnesses (classes) -/

def exCfg (kvs : List (String × Val)) : Dict := kvs.map (fun p => (p.1.toList, p.2))
def sv (s : String) : Val := .str s.toList

/-- Filter: the hypotheses of `C11_idempotent_Filter` are satisfiable, and the first pass does change the config -/
example : normalizeFilter {} (exCfg [("id", sv "f"), ("sources", sv "tcp://a;x>y , tcp://b"), ("outputs", sv ""), ("mq_log", .bool true),
      ("extra_metrics", .list [.list [sv "a", .int 1]])]) =
    .ok (exCfg [("id", sv "f"), ("sources", .list [sv "tcp://a;x>y", sv "tcp://b"]), ("outputs", .null), ("mq_log", sv "all"),
      ("extra_metrics", .dict [("a".toList, .int 1)])]) := by decide +kernel

/-- VideoIn: the corrected docstring example, text form = list form = structured form -/
example :
    normalizeVideoIn {} (exCfg [("id", sv "v"), ("outputs", sv "tcp://*"),
      ("sources", sv "file://a.mp4!sync!loop=3, rtsp://b.com!no-bgr;c, webcam://0;e")]) =
    normalizeVideoIn {} (exCfg [("id", sv "v"), ("outputs", sv "tcp://*"),
      ("sources", .list [
        .dict (exCfg [("source", sv "file://a.mp4"), ("topic", sv "main"), ("options", .dict (exCfg [("sync", .bool true), ("loop", .int 3)]))]),
        .dict (exCfg [("source", sv "rtsp://b.com"), ("topic", sv "c"), ("options", .dict (exCfg [("bgr", .bool false)]))]),
        .dict (exCfg [("source", sv "webcam://0"), ("topic", sv "e"), ("options", .dict [])])])]) ∧
    (normalizeVideoIn {} (exCfg [("id", sv "v"), ("outputs", sv "tcp://*"),
      ("sources", sv "file://a.mp4!sync!loop=3, rtsp://b.com!no-bgr;c, webcam://0;e")])).toOption.isSome = true := by
  decide +kernel

/-- the VideoIn docstring example as written at the pinned commit is rejected: two sources on topic `main` -/
example : normalizeVideoIn {} (exCfg [("id", sv "v"), ("outputs", sv "tcp://*"),
    ("sources", sv "file://a.mp4!sync!loop=3, rtsp://b.com!no-bgr;c, s3://bucket/video.mp4!region=us-west-2, webcam://0;e")]) =
    .error .valueError := by decide +kernel

/-- VideoOut: unknown options move into `params`, and the result is a fixed point -/
example : (normalizeVideoOut {} (exCfg [("id", sv "o"), ("sources", sv "tcp://a"), ("outputs", sv "file://o.mp4!fps=15!crf=23;cam")])).toOption.map
      (fun c => (getD c kOutputs, normalizeVideoOut {} c == .ok c)) =
    some (.list [.dict (exCfg [("output", sv "file://o.mp4"), ("topic", sv "cam"),
      ("options", .dict (exCfg [("fps", .int 15), ("params", .dict (exCfg [("crf", .int 23)]))]))])], true) := by decide +kernel

/-- REST, pinned behaviour (`fixed = false`): `base_path='//api//'` normalises to `/api/` and only then to `api` -/
example : (normalizeREST false {} (exCfg [("id", sv "r"), ("outputs", sv "tcp://*"), ("base_path", sv "//api//")])).toOption.map
      (fun c => (getD c kBasePath, (normalizeREST false {} c).toOption.map (getD · kBasePath))) =
    some (sv "/api/", some (sv "api")) := by decide +kernel

/-- REST, pinned behaviour: `base_path='/api'` is lost (`'/api'[1:-0]` is empty) -/
example : (normalizeREST false {} (exCfg [("id", sv "r"), ("outputs", sv "tcp://*"), ("base_path", sv "/api")])).toOption.map
      (getD · kBasePath) = some .null := by decide +kernel

/-- REST, pinned behaviour: an endpoint path loses one leading slash per pass -/
example : (normalizeREST false {} (exCfg [("id", sv "r"), ("outputs", sv "tcp://*"), ("sources", sv "http://h;//x>t")])).toOption.map
      (fun c => (normalizeREST false {} c == .ok c)) = some false := by decide +kernel

/-- REST with the fixes: the same three inputs give `api`, `api`, and a fixed point -/
example :
    (normalizeREST true {} (exCfg [("id", sv "r"), ("outputs", sv "tcp://*"), ("base_path", sv "//api//")])).toOption.map (getD · kBasePath) = some (sv "api") ∧
    (normalizeREST true {} (exCfg [("id", sv "r"), ("outputs", sv "tcp://*"), ("base_path", sv "/api")])).toOption.map (getD · kBasePath) = some (sv "api") ∧
    (normalizeREST true {} (exCfg [("id", sv "r"), ("outputs", sv "tcp://*"), ("sources", sv "http://h:8000/api/;(get|post)//x>t")])).toOption.map
      (fun c => (getD c kEndpoints, normalizeREST true {} c == .ok c)) =
      some (.list [.dict (exCfg [("methods", .list [sv "GET", sv "POST"]), ("path", sv "x"), ("topic", sv "t")])], true) := by
  decide +kernel


/-- MQTTOut: the docstring's output notation `mqtt://host:port/base_topic/ ; topic ; topic2/image > topic2_frames` (with
default and per-mapping options) is taken apart into broker, base topic, default options and structured mappings, the
implicit destination of `/data/sub/more` is materialised, and the result is a fixed point: the hypothesis of
`C11_idempotent_MQTTOut` is satisfiable and the first pass does change the config -/
example :
    (normalizeMQTTOut {} (exCfg [("id", sv "m"), ("sources", sv "tcp://a"),
      ("outputs", sv "mqtt://host:1883/base_topic/ !qos=1 ; topic ; topic2/image > topic2_frames ! retain ; /data/sub/more")])).toOption.map
      (fun c => (c, normalizeMQTTOut {} c == .ok c)) =
    some (exCfg [("id", sv "m"), ("sources", .list [sv "tcp://a"]),
      ("mappings", .list [
        .dict (exCfg [("dst_topic", .null), ("src_topic", sv "topic"), ("src_path", .null), ("options", .dict [])]),
        .dict (exCfg [("dst_topic", sv "topic2_frames"), ("src_topic", sv "topic2"), ("src_path", sv "image"),
          ("options", .dict (exCfg [("retain", .bool true)]))]),
        .dict (exCfg [("dst_topic", sv "more"), ("src_topic", .null), ("src_path", sv "data/sub/more"), ("options", .dict [])])]),
      ("qos", .int 1), ("base_topic", sv "base_topic/"), ("broker_host", sv "host"), ("broker_port", .int 1883)], true) := by
  decide +kernel

/-- MQTTOut: text form = comma-list form = documented parameter form -/
example :
    normalizeMQTTOut {} (exCfg [("id", sv "m"), ("sources", sv "tcp://a"),
      ("outputs", sv "mqtt://host:1883/base ! retain ; topic/data/sub > other ! qos=0 ; topic/image")]) =
    normalizeMQTTOut {} (exCfg [("id", sv "m"), ("sources", sv "tcp://a"),
      ("mappings", .list [
        .dict (exCfg [("dst_topic", sv "other"), ("src_topic", sv "topic"), ("src_path", sv "data/sub"),
          ("options", .dict (exCfg [("qos", .int 0)]))]),
        .dict (exCfg [("dst_topic", .null), ("src_topic", sv "topic"), ("src_path", sv "image")])]),
      ("retain", .bool true), ("base_topic", sv "base"), ("broker_host", sv "host"), ("broker_port", .int 1883)]) ∧
    normalizeMQTTOut {} (exCfg [("id", sv "m"), ("sources", sv "tcp://a"), ("outputs", sv "mqtt://host:1883/base ! retain"),
      ("mappings", sv "topic/data/sub > other ! qos=0 , topic/image")]) =
    normalizeMQTTOut {} (exCfg [("id", sv "m"), ("sources", sv "tcp://a"),
      ("mappings", .list [sv "topic/data/sub > other ! qos=0", sv "topic/image"]),
      ("retain", .bool true), ("base_topic", sv "base"), ("broker_host", sv "host"), ("broker_port", .int 1883)]) ∧
    (normalizeMQTTOut {} (exCfg [("id", sv "m"), ("sources", sv "tcp://a"),
      ("outputs", sv "mqtt://host:1883/base ! retain ; topic/data/sub > other ! qos=0 ; topic/image")])).toOption.isSome = true := by
  decide +kernel

/-- MQTTOut: why the theorem is stated with `SameEntries`: an empty `outputs` is kept and `mappings` is appended after it,
the second pass moves `outputs` behind `mappings` - the same entries in another order (equal as Python dicts) -/
example :
    (normalizeMQTTOut {} (exCfg [("id", sv "m"), ("sources", sv "tcp://a"), ("outputs", sv "")])).toOption.map
      (fun c => (c, (normalizeMQTTOut {} c).toOption)) =
    some (exCfg [("id", sv "m"), ("sources", .list [sv "tcp://a"]), ("outputs", .list []), ("mappings", .null)],
      some (exCfg [("id", sv "m"), ("sources", .list [sv "tcp://a"]), ("mappings", .null), ("outputs", .list [])])) := by
  decide +kernel

/-- MQTTOut: the errors of the convenience output (mappings / options / base topic / broker given twice, credentials,
non-`mqtt://` output, unknown option) and of the mapping checks (destination without path, path under `image`, path not
under `data`, two implicit mappings, duplicate destination); the random `client_id = True` is outside the model -/
example :
    ([([("outputs", sv "mqtt://h;t"), ("mappings", sv "t")], Err.valueError), ([("outputs", sv "mqtt://h!qos=1"), ("qos", .int 2)], .valueError),
     ([("outputs", sv "mqtt://h/b"), ("base_topic", sv "x")], .valueError), ([("outputs", sv "mqtt://h"), ("broker_port", .int 1)], .valueError),
     ([("outputs", sv "mqtt://u:p@h")], .valueError), ([("outputs", sv "tcp://h")], .valueError), ([("outputs", sv "mqtt://h!zz=1")], .valueError),
     ([("outputs", sv "mqtt://h:x")], .valueError), ([("outputs", sv "mqtt://a, mqtt://b")], .valueError),
     ([("mappings", sv "t > d")], .valueError), ([("mappings", sv "t/image/x")], .valueError), ([("mappings", sv "t/meta")], .valueError),
     ([("mappings", sv "t/data/")], .valueError), ([("mappings", sv "a, b")], .valueError), ([("mappings", sv "a/data/x, b/data/x")], .valueError),
     ([("mappings", sv "tcp://x")], .valueError), ([("mappings", .list [.int 5])], .attributeError), ([("mappings", .int 5)], .typeError),
     ([("client_id", .bool true)], .other)] : List (List (String × Val) × Err)).all
      (fun p => normalizeMQTTOut {} (exCfg ([("id", sv "m"), ("sources", sv "tcp://a")] ++ p.1)) == .error p.2) = true := by
  decide +kernel

/-- the mapping-level text = structure theorems are not vacuous (`topic2/data/sub/more>other!qos=0!retain`, the solo-topic
form `/image!no-retain`, a bare topic) -/
example :
    validOptions (joinHT '/' "topic2".toList ["data".toList, "sub".toList, "more".toList] ++ '>' :: "other".toList)
      [("qos".toList, .int 0), ("retain".toList, .bool true)] = true ∧
    validMapSeg "topic2".toList = true ∧ ["data".toList, "sub".toList, "more".toList].all validMapSeg = true ∧
    strip (joinHT '/' "topic2".toList ["data".toList, "sub".toList, "more".toList]) =
      joinHT '/' "topic2".toList ["data".toList, "sub".toList, "more".toList] ∧
    parseMapping "topic2/data/sub/more>other!qos=0!retain".toList =
      .ok (mkMapping (sv "other") (sv "topic2") (sv "data/sub/more") [("qos".toList, .int 0), ("retain".toList, .bool true)]) ∧
    validOptions (joinHT '/' [] ["image".toList]) [("retain".toList, .bool false)] = true ∧ validMapSeg [] = true ∧
    parseMapping "/image!no-retain".toList = .ok (mkMapping .null .null (sv "image") [("retain".toList, .bool false)]) ∧
    validOptions "topic".toList [] = true ∧ parseMapping "topic".toList = .ok (mkMapping .null (sv "topic") .null []) := by
  decide +kernel

/-- Util: the docstring example `'flipx;main, maxsize 640+480lin;main;other'`, and the result is a fixed point -/
example : (normalizeUtil {} (exCfg [("id", sv "u"), ("xforms", sv "flipx;main, maxsize 640+480lin;main;other"), ("log", .bool true)])).toOption.map
      (fun c => (getD c kXforms, getD c kLog, normalizeUtil {} c == .ok c)) =
    some (.list [.dict (exCfg [("action", sv "flipx"), ("topics", .list [sv "main"])]),
      .dict (exCfg [("action", sv "maxsize"), ("topics", .list [sv "main", sv "other"]), ("width", .int 640), ("height", .int 480),
        ("aspect", .bool false), ("interp", sv "L")])], sv "all", true) := by decide +kernel

/-- the item-level text = structure theorem is not vacuous (URI with `!` in the password) -/
example : validOptions "rtsp://u:p!w@h/s".toList [("sync".toList, .bool true), ("loop".toList, .int 3)] = true ∧
    validTopicText (renderOptions "rtsp://u:p!w@h/s".toList [("sync".toList, .bool true), ("loop".toList, .int 3)]) = true ∧
    validPlainTopic .no "cam".toList = true := by decide +kernel

end OF.Config
