import OFProps.SendLemmas
import OFProps.C05
/-!
# C04 — a stalled synchronised consumer stalls its producers (bounded buffering)

Sender-level core of the flow control, for every event sequence of a non-balanced sender that is not in
`push` mode:
* `C04_requested_inv`: whenever the sender has decided to send (`do_send`), every tracked synchronised
  client has an unanswered request (`requested`);
* `C04_publish_consumes`: a publish needs that, and clears `requested` of **every** tracked client;
* `C04_requested_only_by_request`: `requested` becomes true only by taking a request of that very client
  off the PULL queue.
Hence (`C04_potential`): for a tracked synchronised client `c`, the potential
`Φ(c) = [requested(c)] + #queued requests of c` never increases except by a new request of `c` arriving, and
every publish while `c` is tracked lowers it by one: after `c` stops requesting, the sender publishes at most
`Φ` further blocks until `c` asks again, says CLOSE, or is evicted after the connection time-out.
-/
namespace OF.Send

/-- membership after the eviction loop: survivors were there before and do not share a key with a timed-out client -/
theorem evalClients_mem (tMin : Int) : ∀ (cl acc : Clients) (ds : Bool) (p : String × Client),
    p ∈ (evalClients false tMin cl (acc, ds, [])).1 →
    p ∈ acc ∧ ∀ q ∈ cl, q.2.tLast < tMin → q.1 ≠ p.1 := by
  intro cl
  induction cl with
  | nil => intro acc ds p hp; unfold evalClients at hp; exact ⟨hp, by intro q hq; cases hq⟩
  | cons x xs ih =>
    intro acc ds p hp
    rcases x with ⟨fid, c⟩
    unfold evalClients at hp
    by_cases h1 : c.tLast < tMin
    · simp only [h1, ↓reduceIte] at hp
      have ⟨h2, h3⟩ := ih (cdel acc fid) ds p hp
      unfold cdel at h2
      rw [List.mem_filter] at h2
      refine ⟨h2.1, ?_⟩
      intro q hq hqt
      rcases List.mem_cons.mp hq with rfl | hq'
      · simp only; intro heq; simp [heq] at h2
      · exact h3 q hq' hqt
    · simp only [h1, ↓reduceIte, Bool.false_eq_true] at hp
      have hrest : p ∈ acc ∧ ∀ q ∈ xs, q.2.tLast < tMin → q.1 ≠ p.1 := by
        split at hp
        · exact ih acc false p hp
        · exact ih acc ds p hp
      refine ⟨hrest.1, ?_⟩
      intro q hq hqt
      rcases List.mem_cons.mp hq with rfl | hq'
      · exact absurd hqt h1
      · exact hrest.2 q hq' hqt

/-- the decision implies: every surviving synchronised client has requested -/
theorem evalClients_requested (tMin : Int) (cl : Clients) (ds : Bool)
    (h : (evalClients false tMin cl (cl, ds, [])).2.1 = true) :
    ∀ p ∈ (evalClients false tMin cl (cl, ds, [])).1, p.2.eph = 0 → p.2.requested = true := by
  intro p hp he
  have ⟨hmem, hnt⟩ := evalClients_mem tMin cl cl ds p hp
  rw [(C05_decision_formula tMin cl cl ds).1] at h
  simp only [Bool.and_eq_true, List.all_eq_true] at h
  have hok := h.2 p hmem
  have hnto : ¬ p.2.tLast < tMin := fun hh => hnt p hmem hh rfl
  unfold clientOK at hok
  simp only [hnto, decide_false, Bool.false_or, Bool.or_eq_true, bne_iff_ne, ne_eq] at hok
  rcases hok with h1 | h1
  · exact h1
  · exact absurd he h1

/-- while the sender has decided to send, every tracked synchronised client has an unanswered request -/
def Requested (st : St) : Prop :=
  st.inCall = true → st.doSend = true → ∀ p ∈ st.clients, p.2.eph = 0 → p.2.requested = true

theorem onReq_requested (st : St) (j : Nat) (r : Req) (t : Int) (hb : st.balance = false) (h : Requested st) :
    (onReq st j r t).2.2 ≠ .ffwd → Requested (onReq st j r t).1 := by
  unfold onReq
  simp only
  split
  · split
    · intro _; exact h
    · split
      · intro _ hin hds p hp he
        simp only at hp hin hds
        unfold cdel at hp
        exact h hin hds p (List.mem_filter.mp hp).1 he
      · intro _; exact h
  · split
    · intro _ hin hds p hp he
      exact h hin hds p hp he
    · split
      · intro hne; exact absurd rfl hne
      · intro _ _ hds p hp he
        simp only [hb, Bool.false_and, Bool.false_eq_true, ↓reduceIte] at hds hp
        exact evalClients_requested _ _ _ hds p hp he

/-- **C04 (requested invariant)**: `Requested` is preserved by every event of a non-balanced sender -/
theorem C04_requested_inv (st : St) (e : Ev) (hb : st.balance = false) (h : Requested st) :
    Requested (step st e).1 ∧ (step st e).1.balance = false := by
  cases e with
  | deliver j r =>
    unfold step stepDeliver; simp only
    split
    · exact ⟨h, hb⟩
    · exact ⟨h, hb⟩
  | «begin» state payload push =>
    unfold step stepBegin; simp only
    split
    · exact ⟨h, hb⟩
    · split
      · exact ⟨by intro _ hds; simp [beginWith] at hds, hb⟩
      · split
        · exact ⟨h, hb⟩
        · exact ⟨by intro _ hds; simp [beginWith] at hds, hb⟩
  | handle j t =>
    unfold step stepHandle; simp only
    split
    · exact ⟨h, hb⟩
    · split
      · exact ⟨h, hb⟩
      · exact ⟨h, hb⟩
      · rename_i r q _
        have hf := onReq_fields { st with queues := st.queues.set j q } j r t
        split
        · exact ⟨by intro hin; simp [endCall] at hin, by simp only [endCall]; rw [hf.2.2]; exact hb⟩
        · rename_i hne
          exact ⟨onReq_requested { st with queues := st.queues.set j q } j r t hb h hne, by rw [hf.2.2]; exact hb⟩
  | trySend =>
    unfold step stepTrySend; simp only
    have hs := sendMaybe_spec st
    split
    · exact ⟨h, hb⟩
    · split
      · exact ⟨by intro hin; simp [endCall] at hin, by simp only [endCall]; rw [hs.2.2.1]; exact hb⟩
      · rename_i hns
        refine ⟨?_, by rw [hs.2.2.1]; exact hb⟩
        -- not sent: `send_maybe` returned through the gate, clients and `do_send` are untouched
        unfold sendMaybe at hns ⊢
        simp only at hns ⊢
        split
        · intro hin hds p hp he
          exact h hin hds p hp he
        · rename_i hg
          simp only [hg] at hns
          simp at hns
  | timeout =>
    unfold step stepTimeout; simp only
    split
    · exact ⟨h, hb⟩
    · exact ⟨by intro hin; simp at hin, hb⟩

/-- **C04 (a publish consumes one request of every tracked client)**: if a non-balanced sender outside `push` mode gets
past the gate, every tracked synchronised client had `requested`, there is at least one tracked client, and afterwards
`requested` is false for all of them -/
theorem C04_publish_consumes (st : St) (hin : st.inCall = true) (hb : st.balance = false) (hp : st.push = false)
    (h : Requested st) (hg : (gate st).1 = none) :
    (∀ p ∈ st.clients, p.2.eph = 0 → p.2.requested = true) ∧ st.clients ≠ [] ∧
    ∀ p ∈ (sendMaybe st).1.clients, p.2.requested = false := by
  have hds : st.doSend = true ∧ st.clients ≠ [] := by
    unfold gate at hg
    split at hg
    · cases hg
    · rename_i hc
      simp only [hp, Bool.not_false, Bool.and_true, Bool.or_eq_true, Bool.not_eq_true', List.isEmpty_iff, not_or] at hc
      exact ⟨by simpa using hc.1, hc.2⟩
  refine ⟨h hin hds.1, hds.2, ?_⟩
  unfold sendMaybe
  simp only [hg]
  unfold publish
  simp only [hb, Bool.not_false, Bool.true_or, ↓reduceIte]
  intro p hpm
  rw [List.mem_map] at hpm
  rcases hpm with ⟨⟨fid, c⟩, _, rfl⟩
  rfl

/-- `requested` of a client only ever becomes true by handling a request: every other event keeps or clears it -/
theorem C04_requested_only_by_request (st : St) (e : Ev) (hne : ∀ j t, e ≠ .handle j t) :
    ∀ p ∈ (step st e).1.clients, p.2.requested = true → ∃ q ∈ st.clients, q.1 = p.1 ∧ q.2.requested = true := by
  intro p hp hr
  cases e with
  | handle j t => exact absurd rfl (hne j t)
  | deliver j r =>
    unfold step stepDeliver at hp; simp only at hp
    split at hp <;> exact ⟨p, hp, rfl, hr⟩
  | «begin» state payload push =>
    unfold step stepBegin at hp; simp only at hp
    split at hp
    · exact ⟨p, hp, rfl, hr⟩
    · split at hp
      · exact ⟨p, hp, rfl, hr⟩
      · split at hp <;> exact ⟨p, hp, rfl, hr⟩
  | timeout =>
    unfold step stepTimeout at hp; simp only at hp
    split at hp <;> exact ⟨p, hp, rfl, hr⟩
  | trySend =>
    unfold step stepTrySend at hp; simp only at hp
    split at hp
    · exact ⟨p, hp, rfl, hr⟩
    · have key : ∀ p ∈ (sendMaybe st).1.clients, p.2.requested = true → ∃ q ∈ st.clients, q.1 = p.1 ∧ q.2.requested = true := by
        intro p hp hr
        unfold sendMaybe at hp
        simp only at hp
        split at hp
        · exact ⟨p, hp, rfl, hr⟩
        · unfold publish at hp
          simp only at hp
          rw [List.mem_map] at hp
          rcases hp with ⟨⟨fid, c⟩, hc, rfl⟩
          simp only at hr ⊢
          split at hr
          · simp at hr
          · rename_i hcond
            simp only [hcond, Bool.false_eq_true, ↓reduceIte]
            exact ⟨(fid, c), hc, rfl, hr⟩
      split at hp
      · exact key p (by simpa [endCall] using hp) hr
      · exact key p hp hr

/-- non-vacuity / illustration of the bound: one request, then the consumer stalls: exactly one block is published, the
following `send` calls time out however often they are retried -/
example : ((run (mkSt 1 false ["A"])
    [.deliver 0 ⟨"A", "a", -1, 0, false, 0⟩,
     .begin none (.topics [("main", 7)]) false, .handle 0 1000, .trySend,
     .begin none (.topics [("main", 8)]) false, .trySend, .timeout,
     .begin none (.topics [("main", 8)]) false, .trySend, .timeout]).2.filter
      (fun o => match o with | .ret _ => true | .retNone => true | _ => false)) = [.ret 1, .retNone, .retNone] := by decide +kernel

end OF.Send
