import OFProps.JoinEphSync
import OFProps.NetRecv
/-!
# A join with ephemeral side sources — the EPHEMERAL part of the invariant (`EphInv`)

An ephemeral source (`addr?`, `addr??`) keeps its own expected id `min_recv_id` (`Src.minId`): a message of a lower id is dropped, one
of the same id is merged into the buffer, one of a higher id starts a new buffer.  It is fed by the complete in-order block
stream of its publisher (strictly increasing ids; per block the subscribed topics at most once: `EStream`), and its
subscription names at least one topic the publisher announces (`EphOK`).  Relative to its own id `μ = s.minId` the source is
* *fresh*: nothing consumed yet, buffer empty, or
* *in block `μ`*: it has consumed the prefix `done ≠ []` of its block of id `μ`, `todo` is next in its stream, and
  - **live**: the buffer holds exactly the subscribed topic messages among `done` (block not returned yet), or
  - **spent**: block `μ` has been returned; the buffer is blank and `todo` holds no subscribed topic any more (what may still
    arrive of block `μ` - typically its heartbeat - is blank).
The flag `spent` is a ghost (`fl : Nat → Bool`) carried beside the state.
-/
namespace OF.Recv

/-- no subscribed topic twice inside a block (blanked messages - heartbeat, prefix-matched foreign topics - may repeat) -/
def KeyNodup (p : PubSpec) (b : List Wire) : Prop := ((b.map p.eff).filter (fun t => t != "")).Nodup

/-- the wire stream of a publisher as it reaches an EPHEMERAL subscriber: blocks of strictly increasing ids (`PubOK.sorted`),
each block a delivered `IsBlock` in which no subscribed topic occurs twice -/
inductive EStream (p : PubSpec) : List Int → List Wire → Prop
  | nil : EStream p [] []
  | cons {k : Int} {ks : List Int} {b ws : List Wire} :
      IsBlock p k b → KeyNodup p b → EStream p ks ws → EStream p (k :: ks) (b ++ ws)

/-- static well-formedness of an ephemeral attachment: the publisher is well formed and the subscription asks for at
least one topic the publisher announces -/
structure EphOK (p : PubSpec) : Prop where
  ok     : PubOK p
  keysNe : p.keys ≠ []

/-- the subscription form recorded in the spec -/
def EPlain (p : PubSpec) (s : Src) : Prop := s.subAll = p.subAll ∧ s.star = p.star ∧ s.subs = p.subs

/-- the buffer of an ephemeral source described by `g` on the subscribed topics of the block: the dict over `keys`, or the
empty buffer (`recvd_new`) when nothing is stored -/
def Buf (p : PubSpec) (s : Src) (g : Topic → Option Msg) : Prop :=
  s.recvd = some (p.keys.map fun t => (t, g t)) ∨ (s.recvd = recvdNew s ∧ ∀ t ∈ p.keys, g t = none)

/-- mode of an ephemeral source; `rem` = queued ++ not yet delivered -/
def ESrcOK (p : PubSpec) (j : Nat) (spent : Bool) (s : Src) (rem : List Wire) : Prop :=
  ∃ (front : List Wire) (pre rest : List Int) (ws : List Wire),
    p.wires = front ++ rem ∧ p.ids = pre ++ rest ∧ EStream p rest ws ∧
    ( (pre = [] ∧ rem = ws ∧ s.minId = 0 ∧ s.recvd = recvdNew s ∧ s.reg = true ∧ spent = false) ∨
      (∃ (pre' : List Int) (f0 done todo : List Wire) (g : Topic → Option Msg),
        pre = pre' ++ [s.minId] ∧ front = f0 ++ done ∧ done ≠ [] ∧
        BlkAbs p s.minId (done ++ todo) ∧ KeyNodup p (done ++ todo) ∧ rem = todo ++ ws ∧
        Buf p s g ∧ (∀ t m, g t = some m → FrameOK p j s.minId t m) ∧ s.reg = !gotAll s ∧
        (if spent = true then (∀ t ∈ p.keys, g t = none) ∧ ∀ t ∈ p.keys, t ∈ done.map p.eff
         else ∀ t ∈ p.keys, (g t).isSome = true ↔ t ∈ done.map p.eff)) )

/-- ephemeral entries of the spec list -/
def REph (fl : Nat → Bool) : SrcRel := fun p j _ s rem => p.eph ≠ 0 → EPlain p.pub s ∧ ESrcOK p.pub j (fl j) s rem

/-- **the ephemeral part of the invariant** (`fl j` = "the block source `j` is in has been returned") -/
def EphInv (fl : Nat → Bool) (sp : List ESpec) (n : NSt) : Prop := GInv (REph fl) sp n

/-- the static hypothesis on the ephemeral entries -/
def EphSpecOK (sp : List ESpec) : Prop := ∀ p ∈ sp, p.eph ≠ 0 → EphOK p.pub

theorem ESrcOK_congr (p : PubSpec) (j : Nat) (b : Bool) (s s' : Src) (rem : List Wire)
    (h1 : s'.recvd = s.recvd) (h2 : s'.reg = s.reg) (h3 : s'.minId = s.minId) (hn : recvdNew s' = recvdNew s) :
    ESrcOK p j b s rem → ESrcOK p j b s' rem := by
  rintro ⟨front, pre, rest, ws, e1, e2, e3, h⟩
  refine ⟨front, pre, rest, ws, e1, e2, e3, ?_⟩
  unfold Buf at h ⊢
  rw [h1, h2, h3, hn, gotAll_congr s s' h1]; exact h

theorem reph_congr (fl : Nat → Bool) : RCongr (REph fl) := by
  intro p j F s s' rem h1 h2 h3 _ h5 h6 h7 h hp
  have ⟨a, b⟩ := h hp
  exact ⟨⟨h5 ▸ a.1, h6 ▸ a.2.1, h7 ▸ a.2.2⟩, ESrcOK_congr p.pub j (fl j) s s' rem h1 h2 h3 (recvdNew_congr s s' h5 h7) b⟩

/-! ### pruning and `process_msg` for a subscription of any ephemeral level -/

theorem prune_explicit_gen (s : Src) (r : Recvd) (ts : List Topic) (h1 : s.subAll = false)
    (h2 : s.eph = 0 ∨ r.any (fun x => ts.contains x.1) = true) :
    prune s r ts = r.filter (fun x => ts.contains x.1) := by
  unfold prune
  simp only [h1, Bool.false_eq_true, ↓reduceIte]
  split
  · rename_i hd
    symm
    rw [List.filter_eq_self]
    intro x hx
    rw [List.isEmpty_iff] at hd
    have : x ∉ r.filter (fun p => !ts.contains p.1) := by rw [hd]; simp
    rw [List.mem_filter] at this
    cases hc : ts.contains x.1 with
    | true => rfl
    | false => exact absurd ⟨hx, by rw [hc]; rfl⟩ this
  · have : (decide (s.eph = 0) || r.any (fun p => ts.contains p.1)) = true := by
      rcases h2 with h2 | h2
      · simp [h2]
      · rw [h2]; simp
    simp only [this, ↓reduceIte]

theorem prune_map_gen (p : PubSpec) (s : Src) (hsa : s.subAll = p.subAll) (he : s.eph = 0 ∨ p.keys ≠ [])
    (ks : List Topic) (f : Topic → Option Msg)
    (hks : p.subAll = true ∨ ks.filter (fun t => p.ts.contains t) = p.keys) (hks' : p.subAll = true → ks = p.keys) :
    prune s (ks.map fun t => (t, f t)) p.ts = p.keys.map fun t => (t, f t) := by
  by_cases h : p.subAll = true
  · unfold prune
    simp only [hsa, h, ↓reduceIte]
    rw [hks' h]
  · have h' : s.subAll = false := by rw [hsa]; simpa using h
    rcases hks with hks | hks
    · exact absurd hks h
    have hany : s.eph = 0 ∨ (ks.map fun t => (t, f t)).any (fun x => p.ts.contains x.1) = true := by
      rcases he with he | he
      · left; exact he
      · right
        rw [← hks] at he
        rcases List.exists_mem_of_ne_nil _ he with ⟨t, ht⟩
        rw [List.mem_filter] at ht
        rw [List.any_eq_true]
        exact ⟨(t, f t), List.mem_map.mpr ⟨t, ht.1, rfl⟩, ht.2⟩
    rw [prune_explicit_gen s _ _ h' hany, List.filter_map]
    have : ((fun x : Topic × Option Msg => p.ts.contains x.1) ∘ fun t => (t, f t)) = fun t => p.ts.contains t := by
      funext t; rfl
    rw [this, hks]

/-- first message of a block (blank or a key) taken by a source with an empty buffer -/
theorem first_recvd_gen (p : PubSpec) (hp : PubOK p) (s : Src) (hs : EPlain p s) (he : s.eph = 0 ∨ p.keys ≠ [])
    (hr : s.recvd = recvdNew s) (m : Msg) (k : Int)
    (hk : k ≤ m.mid) (hm : m.topic = "" ∨ m.topic ∈ p.keys) :
    ((processMsg s m p.ts k).2).map (fun r => prune s r p.ts) =
      some (p.keys.map fun t => (t, if t = m.topic then some m else none)) := by
  have hno : ¬ m.mid < k := by omega
  rcases hs with ⟨hsa, hst, hsu⟩
  by_cases h : p.subAll = true
  · have hrn : s.recvd = none := by rw [hr]; unfold recvdNew; simp [hsa, h]
    unfold processMsg
    simp only [hno, ↓reduceIte, hrn, Option.map_some, Option.some.injEq]
    rw [initRecvd_map s m p.ts hp.nodup]
    apply prune_map_gen p s hsa he _ _ (Or.inl h)
    intro _
    unfold PubSpec.keys
    simp [h, hst]
  · have h' : p.subAll = false := by simpa using h
    have hrn : recvdNew s = some ((p.subs.map (·.1)).map fun t => (t, (none : Option Msg))) := by
      unfold recvdNew; simp [hsa, h', hsu]
    have hkeys : (p.subs.map (·.1)).filter (fun t => p.ts.contains t) = p.keys := by
      unfold PubSpec.keys; simp [h']
    have hval : (processMsg s m p.ts k).2 =
        some (if m.topic ≠ "" then dset ((p.subs.map (·.1)).map fun t => (t, (none : Option Msg))) m.topic (some m)
              else (p.subs.map (·.1)).map fun t => (t, (none : Option Msg))) := by
      unfold processMsg
      simp only [hno, ↓reduceIte, hr, hrn]
      by_cases e : m.mid = k
      · simp only [e, ↓reduceIte]
      · simp only [e, ↓reduceIte]
        unfold newRecvWith
        simp only [hrn]
    rw [hval]
    simp only [Option.map_some, Option.some.injEq]
    rcases hm with hm | hm
    · simp only [hm, ne_eq, not_true_eq_false, ↓reduceIte]
      rw [prune_map_gen p s hsa he _ (fun _ => none) (Or.inr hkeys) (fun e => absurd e h)]
      apply List.map_congr_left
      intro t ht
      have : t ≠ "" := fun e => keys_no_empty p hp (e ▸ ht)
      simp [this]
    · have hne : m.topic ≠ "" := fun e => keys_no_empty p hp (e ▸ hm)
      have hin : m.topic ∈ p.subs.map (·.1) := by
        rw [← hkeys] at hm; exact (List.mem_filter.mp hm).1
      simp only [hne, ne_eq, not_false_eq_true, ↓reduceIte]
      rw [dset_map_keys _ _ _ _ hin]
      exact prune_map_gen p s hsa he _ (fun t => if t = m.topic then some m else none) (Or.inr hkeys) (fun e => absurd e h)

/-- a further message of the block being assembled -/
theorem next_recvd_gen (p : PubSpec) (hp : PubOK p) (s : Src) (hs : EPlain p s) (he : s.eph = 0 ∨ p.keys ≠ [])
    (g : Topic → Option Msg)
    (hr : s.recvd = some (p.keys.map fun t => (t, g t))) (m : Msg) (k : Int)
    (hk : m.mid = k) (hm : m.topic = "" ∨ m.topic ∈ p.keys) :
    ((processMsg s m p.ts k).2).map (fun r => prune s r p.ts) =
      some (p.keys.map fun t => (t, if t = m.topic then some m else g t)) := by
  subst hk
  unfold processMsg
  simp only [Int.lt_irrefl, ↓reduceIte, hr, Option.map_some, Option.some.injEq]
  rcases hm with hm | hm
  · simp only [hm, ne_eq, not_true_eq_false, ↓reduceIte]
    rw [prune_map_gen p s hs.1 he _ g (Or.inr (keys_filter_self p)) (fun _ => rfl)]
    apply List.map_congr_left
    intro t ht
    have : t ≠ "" := fun e => keys_no_empty p hp (e ▸ ht)
    simp [this]
  · have hne : m.topic ≠ "" := fun e => keys_no_empty p hp (e ▸ hm)
    simp only [hne, ne_eq, not_false_eq_true, ↓reduceIte]
    rw [dset_map_keys _ _ _ _ hm]
    exact prune_map_gen p s hs.1 he _ (fun t => if t = m.topic then some m else g t) (Or.inr (keys_filter_self p)) (fun _ => rfl)

/-- a message of a NEWER id finds a non-empty buffer: the buffer is thrown away first (`Sender.new_recv`) -/
theorem processMsg_newer_some (s : Src) (m : Msg) (ts : List Topic) (k : Int) (l : Recvd) (hl : s.recvd = some l)
    (h : k < m.mid) : (processMsg s m ts k).2 = (processMsg { s with recvd := recvdNew s } m ts k).2 := by
  have hno : ¬ m.mid < k := by omega
  have hne : ¬ m.mid = k := by omega
  unfold processMsg
  simp only [hno, ↓reduceIte, hl, hne]
  cases hrn : recvdNew s with
  | none =>
    simp only
    unfold newRecvWith
    rw [hrn]
    rfl
  | some rn =>
    simp only
    rfl

/-! ### small facts -/

theorem estream_cons_inv {p : PubSpec} {k : Int} {ks : List Int} {ws : List Wire} (h : EStream p (k :: ks) ws) :
    ∃ b ws', ws = b ++ ws' ∧ IsBlock p k b ∧ KeyNodup p b ∧ EStream p ks ws' := by
  cases h with
  | cons h1 h2 h3 => exact ⟨_, _, rfl, h1, h2, h3⟩

theorem estream_nil_inv {p : PubSpec} {ws : List Wire} (h : EStream p [] ws) : ws = [] := by
  cases h; rfl

theorem EStream.toM {p : PubSpec} {ks : List Int} {ws : List Wire} (h : EStream p ks ws) : MStream p ks ws := by
  induction h with
  | nil => exact .nil
  | cons h1 _ _ ih => exact .cons h1 ih

theorem eplain_recvdNew (p : PubSpec) (s s1 : Src) (hs : EPlain p s) (hs1 : EPlain p s1) : recvdNew s1 = recvdNew s :=
  recvdNew_congr s s1 (hs1.1.trans hs.1.symm) (hs1.2.2.trans hs.2.2.symm)

/-- an empty buffer of an ephemeral (or synchronised) explicit / all-topics subscription is never "complete" -/
theorem eidle_not_all (p : PubSpec) (hp : PubOK p) (s : Src) (hs : EPlain p s) (hr : s.recvd = recvdNew s) :
    gotAll s = false ∧ got s ≠ .all := by
  rcases hs with ⟨hsa, _, hsu⟩
  by_cases h : p.subAll = true
  · have : s.recvd = none := by rw [hr]; unfold recvdNew; simp [hsa, h]
    unfold gotAll got; rw [this]; simp
  · have h' : p.subAll = false := by simpa using h
    have hne : p.subs ≠ [] := hp.subsNe h'
    have hrn : s.recvd = some (s.subs.map fun q => (q.1, none)) := by
      rw [hr]; unfold recvdNew; simp [hsa, h']
    rcases List.exists_mem_of_ne_nil _ hne with ⟨q0, hq0⟩
    constructor
    · unfold gotAll; rw [hrn, hsu]
      simp only [List.all_map]
      rw [Bool.eq_false_iff]
      intro hc
      have := List.all_eq_true.mp hc q0 hq0
      simp at this
    · rw [Ne, got_all_iff s _ hrn, hsu]
      have : (List.map (fun q : Topic × Topic => (q.1, (none : Option Msg))) p.subs).filter (fun x => x.2.isNone)
          = List.map (fun q : Topic × Topic => (q.1, (none : Option Msg))) p.subs := by
        rw [List.filter_eq_self]
        intro a ha
        rw [List.mem_map] at ha
        rcases ha with ⟨q, _, rfl⟩
        rfl
      rw [this, List.length_map]
      intro e
      exact hne (List.eq_nil_of_length_eq_zero e)

/-- a subscribed topic that has already arrived cannot arrive again in the same block -/
theorem keyNodup_not_again (p : PubSpec) (done todo : List Wire) (w : Wire) (h : KeyNodup p (done ++ w :: todo))
    (hne : p.eff w ≠ "") : p.eff w ∉ done.map p.eff := by
  intro hin
  unfold KeyNodup at h
  rw [List.map_append, List.filter_append, List.map_cons, List.filter_cons] at h
  have hb : (p.eff w != "") = true := by simpa using hne
  simp only [hb, ↓reduceIte] at h
  rw [List.nodup_append] at h
  have h3 := h.2.2 (p.eff w) (List.mem_filter.mpr ⟨hin, hb⟩) (p.eff w) (List.mem_cons_self ..)
  exact h3 rfl

/-! ### one `take` of an ephemeral source -/

/-- the head `w` of the remaining stream of a registered ephemeral source is never older than the source's own id; the
buffer after `process_msg` + pruning is the dict over the subscribed topics of the block with `w` stored (over the old
contents `g0` if `w` continues the block, over nothing if it starts one), and the source with that buffer is again in one of
the modes - with the "returned" flag cleared when a new block starts -/
theorem etake_core (p : PubSpec) (hp : EphOK p) (j : Nat) (b : Bool) (s : Src) (hs : EPlain p s)
    (w : Wire) (r : List Wire) (hok : ESrcOK p j b s (w :: r)) :
    0 ≤ w.mid ∧ s.minId ≤ w.mid ∧ w.topics = p.ts ∧ ∃ g0 : Topic → Option Msg,
      (∀ (s1 : Src) (m : Msg), s1.recvd = s.recvd → EPlain p s1 → s1.eph = s.eph → m.mid = w.mid → m.topic = p.eff w →
        ((processMsg s1 m p.ts s.minId).2).map (fun x => prune s1 x p.ts) =
          some (p.keys.map fun t => (t, if t = m.topic then some m else g0 t))) ∧
      (∀ (s' : Src) (m : Msg), m.mid = w.mid → m.topic = p.eff w → m.src = j → m.body = w.body → s'.minId = w.mid →
        s'.recvd = some (p.keys.map fun t => (t, if t = m.topic then some m else g0 t)) → s'.reg = !gotAll s' →
        ESrcOK p j (if s.minId < w.mid then false else b) s' r) := by
  rcases hok with ⟨front, pre, rest, ws, e1, e2, e3, h⟩
  have hwin : w ∈ p.wires := by rw [e1]; simp
  have e1' : p.wires = (front ++ [w]) ++ r := by rw [e1]; simp
  have hek : ∀ s1 : Src, s1.eph = s.eph → (s1.eph = 0 ∨ p.keys ≠ []) := fun _ _ => Or.inr hp.keysNe
  -- a message that starts block `k` (the next block of the stream)
  have startBlock : ∀ (k : Int) (rest' : List Int) (b0 : List Wire) (ws' : List Wire), rest = k :: rest' → IsBlock p k (w :: b0) →
      KeyNodup p (w :: b0) → EStream p rest' ws' → r = b0 ++ ws' → s.minId ≤ k → (s.minId < k ∨ b = false) →
      (∀ (s1 : Src) (m : Msg), s1.recvd = s.recvd → EPlain p s1 → s1.eph = s.eph → m.mid = w.mid → m.topic = p.eff w →
        ((processMsg s1 m p.ts s.minId).2).map (fun x => prune s1 x p.ts) =
          some (p.keys.map fun t => (t, if t = m.topic then some m else none))) →
      0 ≤ w.mid ∧ s.minId ≤ w.mid ∧ w.topics = p.ts ∧ ∃ g0 : Topic → Option Msg,
      (∀ (s1 : Src) (m : Msg), s1.recvd = s.recvd → EPlain p s1 → s1.eph = s.eph → m.mid = w.mid → m.topic = p.eff w →
        ((processMsg s1 m p.ts s.minId).2).map (fun x => prune s1 x p.ts) =
          some (p.keys.map fun t => (t, if t = m.topic then some m else g0 t))) ∧
      (∀ (s' : Src) (m : Msg), m.mid = w.mid → m.topic = p.eff w → m.src = j → m.body = w.body → s'.minId = w.mid →
        s'.recvd = some (p.keys.map fun t => (t, if t = m.topic then some m else g0 t)) → s'.reg = !gotAll s' →
        ESrcOK p j (if s.minId < w.mid then false else b) s' r) := by
    intro k rest' b0 ws' hrest hblk hnd hst hr hle hfl hpm
    have habs := hblk.abs
    have hw := habs.1 w (List.mem_cons_self ..)
    have hkin : k ∈ p.ids := by rw [e2, hrest]; simp
    have hk0 := hp.ok.nonneg k hkin
    refine ⟨by omega, by omega, hw.2.1, fun _ => none, hpm, ?_⟩
    intro s' m hm1 hm2 hm3 hm4 hmin hrec hrg
    have hflag : (if s.minId < w.mid then false else b) = false := by
      rcases hfl with hfl | hfl
      · have : s.minId < w.mid := by omega
        simp [this]
      · rw [hfl]; simp
    rw [hflag]
    refine ⟨front ++ [w], pre ++ [k], rest', ws', e1', by rw [e2, hrest]; simp, hst, Or.inr
      ⟨pre, front, [w], b0, fun t => if t = m.topic then some m else none, by rw [hmin, hw.1], rfl, by simp,
        by rw [hmin, hw.1]; exact habs, hnd, hr, Or.inl hrec, ?_, hrg, ?_⟩⟩
    · intro t m' hm'
      by_cases e : t = m.topic
      · simp only [e, ↓reduceIte, Option.some.injEq] at hm'
        subst hm'
        exact ⟨by rw [hm1, hmin], e.symm, hm3, w, hwin, by rw [hmin], by rw [e, hm2], hm4.symm⟩
      · simp [e] at hm'
    · simp only [Bool.false_eq_true, ↓reduceIte]
      intro t _
      rw [hm2]
      by_cases e : t = p.eff w <;> simp [e]
  rcases h with ⟨hpre, hrem, hmin0, hrec, _, hb⟩ | ⟨pre', f0, done, todo, g, hpre, hfront, hdn, hblk, hnd, hrem, hbuf, hfr, hrg, hfl⟩
  · -- fresh: `w` is the first message of the first block
    cases rest with
    | nil => rw [estream_nil_inv e3] at hrem; cases hrem
    | cons k rest' =>
      rcases estream_cons_inv e3 with ⟨b0, ws', e4, hblk, hnd, hst⟩
      cases b0 with
      | nil => exact absurd rfl (isBlock_ne_nil hblk)
      | cons w0 b0' =>
        rw [e4] at hrem
        simp only [List.cons_append, List.cons.injEq] at hrem
        rcases hrem with ⟨rfl, rfl⟩
        have hkin : k ∈ p.ids := by rw [e2]; simp
        have hk0 := hp.ok.nonneg k hkin
        have hw := hblk.abs.1 w (List.mem_cons_self ..)
        refine startBlock k rest' b0' ws' rfl hblk hnd hst rfl (by omega) (Or.inr hb) ?_
        intro s1 m h1 h2 h3 hm1 hm2
        have hkey := hblk.abs.2.1 w (List.mem_cons_self ..)
        exact first_recvd_gen p hp.ok s1 h2 (hek s1 h3) (by rw [h1, hrec]; exact (eplain_recvdNew p s s1 hs h2).symm) m s.minId
          (by rw [hm1, hw.1]; omega) (hm2 ▸ hkey)
  · cases todo with
    | nil =>
      -- the block is consumed: `w` starts the next one, of a higher id
      simp only [List.nil_append] at hrem
      cases rest with
      | nil => rw [estream_nil_inv e3] at hrem; cases hrem
      | cons k rest' =>
        rcases estream_cons_inv e3 with ⟨b0, ws', e4, hblk', hnd', hst⟩
        cases b0 with
        | nil => exact absurd rfl (isBlock_ne_nil hblk')
        | cons w0 b0' =>
          rw [e4] at hrem
          simp only [List.cons_append, List.cons.injEq] at hrem
          rcases hrem with ⟨rfl, rfl⟩
          have hw := hblk'.abs.1 w (List.mem_cons_self ..)
          have hlt : s.minId < k := by
            have hsorted := hp.ok.sorted
            rw [e2, hpre, List.pairwise_append] at hsorted
            exact hsorted.2.2 s.minId (by simp) k (List.mem_cons_self ..)
          refine startBlock k rest' b0' ws' rfl hblk' hnd' hst rfl (by omega) (Or.inl hlt) ?_
          intro s1 m h1 h2 h3 hm1 hm2
          have hkey := hblk'.abs.2.1 w (List.mem_cons_self ..)
          have hlt' : s.minId < m.mid := by rw [hm1, hw.1]; exact hlt
          rcases hbuf with hbuf | ⟨hbuf, _⟩
          · rw [processMsg_newer_some s1 m p.ts s.minId _ (h1.trans hbuf) hlt']
            exact first_recvd_gen p hp.ok { s1 with recvd := recvdNew s1 } h2 (hek s1 h3) rfl m s.minId (by omega) (hm2 ▸ hkey)
          · exact first_recvd_gen p hp.ok s1 h2 (hek s1 h3) (by rw [h1, hbuf]; exact (eplain_recvdNew p s s1 hs h2).symm) m s.minId
              (by omega) (hm2 ▸ hkey)
    | cons w0 todo' =>
      -- `w` continues the block
      simp only [List.cons_append, List.cons.injEq] at hrem
      rcases hrem with ⟨rfl, rfl⟩
      have hwb : w ∈ done ++ w :: todo' := by simp
      have hw := hblk.1 w hwb
      have hkey := hblk.2.1 w hwb
      have hFin : s.minId ∈ p.ids := by rw [e2, hpre]; simp
      have hF0 := hp.ok.nonneg s.minId hFin
      have hnl : ¬ s.minId < w.mid := by omega
      refine ⟨by omega, by omega, hw.2.1, g, ?_, ?_⟩
      · intro s1 m h1 h2 h3 hm1 hm2
        rcases hbuf with hbuf | ⟨hbuf, hgn⟩
        · exact next_recvd_gen p hp.ok s1 h2 (hek s1 h3) g (h1.trans hbuf) m s.minId (by rw [hm1, hw.1]) (hm2 ▸ hkey)
        · rw [first_recvd_gen p hp.ok s1 h2 (hek s1 h3) (by rw [h1, hbuf]; exact (eplain_recvdNew p s s1 hs h2).symm) m s.minId
            (by omega) (hm2 ▸ hkey)]
          congr 1
          apply List.map_congr_left
          intro t ht
          rw [hgn t ht]
      · intro s' m hm1 hm2 hm3 hm4 hmin hrec hrg'
        simp only [hnl, ↓reduceIte]
        have hmin' : s'.minId = s.minId := by rw [hmin, hw.1]
        refine ⟨front ++ [w], pre, rest, ws, e1', e2, e3, Or.inr
          ⟨pre', f0, done ++ [w], todo', fun t => if t = m.topic then some m else g t, by rw [hmin']; exact hpre,
            by rw [hfront]; simp, by simp, ?_, ?_, rfl, Or.inl hrec, ?_, hrg', ?_⟩⟩
        · have : (done ++ [w]) ++ todo' = done ++ w :: todo' := by simp
          rw [this, hmin']; exact hblk
        · have : (done ++ [w]) ++ todo' = done ++ w :: todo' := by simp
          rw [this]; exact hnd
        · intro t m' hm'
          rw [hmin']
          by_cases e : t = m.topic
          · simp only [e, ↓reduceIte, Option.some.injEq] at hm'
            subst hm'
            exact ⟨by rw [hm1, hw.1], e.symm, hm3, w, hwin, hw.1, by rw [e, hm2], hm4.symm⟩
          · simp only [e, ↓reduceIte] at hm'
            exact hfr t m' hm'
        · cases hb : b with
          | true =>
            rw [hb] at hfl
            simp only [↓reduceIte] at hfl ⊢
            -- every subscribed topic has arrived already: `w` is blank
            have hblank : p.eff w = "" := by
              rcases hkey with hkey | hkey
              · exact hkey
              · exfalso
                have hne : p.eff w ≠ "" := fun e => keys_no_empty p hp.ok (e ▸ hkey)
                exact keyNodup_not_again p done todo' w hnd hne (hfl.2 _ hkey)
            constructor
            · intro t ht
              have : t ≠ m.topic := by
                rw [hm2, hblank]; exact fun e => keys_no_empty p hp.ok (e ▸ ht)
              simp only [this, ↓reduceIte]
              exact hfl.1 t ht
            · intro t ht
              rw [List.map_append, List.mem_append]
              left; exact hfl.2 t ht
          | false =>
            rw [hb] at hfl
            simp only [Bool.false_eq_true, ↓reduceIte] at hfl ⊢
            intro t ht
            rw [hm2]
            by_cases e : t = p.eff w
            · simp [e]
            · simp only [e, ↓reduceIte, hfl t ht, List.map_append, List.map_cons, List.map_nil, List.mem_append,
                List.mem_singleton, or_false]

/-! ### the content of an ephemeral buffer at a return -/

theorem got_map_cases (s : Src) (ks : List Topic) (g : Topic → Option Msg)
    (h : s.recvd = some (ks.map fun t => (t, g t))) (hne : ks ≠ []) :
    (got s = .all ↔ ∀ t ∈ ks, (g t).isSome = true) ∧ (got s = .none ↔ ∀ t ∈ ks, g t = none) := by
  have h0 : ((ks.map fun t => (t, g t)).filter (fun x => x.2.isNone)).length = 0 ↔ ∀ t ∈ ks, (g t).isSome = true := by
    rw [← List.countP_eq_length_filter, List.countP_eq_zero]
    constructor
    · intro hh t ht
      have := hh (t, g t) (List.mem_map.mpr ⟨t, ht, rfl⟩)
      cases hg : g t <;> simp_all
    · intro hh x hx
      rcases List.mem_map.mp hx with ⟨t, ht, rfl⟩
      have := hh t ht
      cases hg : g t <;> simp_all
  have h1 : ((ks.map fun t => (t, g t)).filter (fun x => x.2.isNone)).length = (ks.map fun t => (t, g t)).length ↔ ∀ t ∈ ks, g t = none := by
    rw [← List.countP_eq_length_filter, List.countP_eq_length]
    constructor
    · intro hh t ht
      have := hh (t, g t) (List.mem_map.mpr ⟨t, ht, rfl⟩)
      cases hg : g t <;> simp_all
    · intro hh x hx
      rcases List.mem_map.mp hx with ⟨t, ht, rfl⟩
      simp [hh t ht]
  rcases List.exists_mem_of_ne_nil _ hne with ⟨t0, ht0⟩
  unfold got
  rw [h]
  simp only
  constructor
  · rw [← h0]
    split
    · rename_i hc; simp [hc]
    · rename_i hc
      split <;> simp [hc]
  · rw [← h1]
    split
    · rename_i hc
      constructor
      · intro hh; cases hh
      · intro hh
        exfalso
        have a := h0.mp hc t0 ht0
        have b := h1.mp hh t0 ht0
        rw [b] at a; cases a
    · rename_i hc
      split
      · rename_i hc2; simp [hc2]
      · rename_i hc2
        constructor
        · intro hh; cases hh
        · intro hh; exact absurd hh hc2


theorem srcFrames_blank (s : Src) (h : ∀ l, s.recvd = some l → noFrames l) : srcFrames s = [] := by
  unfold srcFrames
  cases hr : s.recvd with
  | none => rfl
  | some l =>
    simp only
    rw [List.filterMap_eq_nil_iff]
    intro x hx
    have := h l hr x hx
    rcases x with ⟨t, v⟩
    simp only at this
    subst this
    rfl

/-- a complete dict over the subscribed topics whose frames all come from block `F` is exactly that block's part -/
theorem partOK_of_buf (p : PubSpec) (j : Nat) (F : Int) (s : Src) (g : Topic → Option Msg) (hsu : s.subs = p.subs)
    (h5 : s.recvd = some (p.keys.map fun t => (t, g t))) (h7 : ∀ t m, g t = some m → FrameOK p j F t m)
    (hall : ∀ t ∈ p.keys, (g t).isSome = true) : PartOK p j F (srcFrames s) := by
  have hsome : ∀ t ∈ p.keys, ∃ m, g t = some m ∧ m.topic = t := by
    intro t ht
    cases hgt : g t with
    | none => have := hall t ht; rw [hgt] at this; cases this
    | some m => exact ⟨m, rfl, (h7 t m hgt).2.1⟩
  rw [srcFrames_eq s _ h5, hsu]
  constructor
  · exact frames_of_map p.dst g p.keys hsome
  · intro x hx
    rw [List.mem_filterMap] at hx
    rcases hx with ⟨y, hy, hxy⟩
    rw [List.mem_map] at hy
    rcases hy with ⟨t, _, rfl⟩
    simp only at hxy
    cases hgt : g t with
    | none => rw [hgt] at hxy; cases hxy
    | some m =>
      rw [hgt] at hxy
      simp only [Option.map_some, Option.some.injEq] at hxy
      subst hxy
      have ⟨a, b, c, d⟩ := h7 t m hgt
      refine ⟨a, c, ?_, ?_⟩
      · simp only [b]; rfl
      · simp only [b]; exact d

/-- **what an ephemeral source contributes when a set is returned, and the source after the reset** (`new_recv`): it is
not partial, so either its buffer is complete - then it holds exactly the subscribed topics of ONE block, the block `s.minId`
it is in, that block has not been returned before, and it is marked returned - or it holds nothing and contributes nothing -/
theorem ereset_src (p : PubSpec) (hp : EphOK p) (j : Nat) (b : Bool) (s : Src) (rem : List Wire) (hs : EPlain p s)
    (hok : ESrcOK p j b s rem) (hg : got s ≠ .some) :
    ESrcOK p j (b || decide (got s = .all)) { s with recvd := recvdNew s, reg := true } rem ∧
    (got s = .all → b = false ∧ s.minId ∈ p.ids ∧ PartOK p j s.minId (srcFrames s)) ∧
    (got s ≠ .all → srcFrames s = []) := by
  have hgn : gotAll { s with recvd := recvdNew s, reg := true } = false :=
    (eidle_not_all p hp.ok { s with recvd := recvdNew s, reg := true } hs rfl).1
  have hblankNew : s.recvd = recvdNew s → srcFrames s = [] := by
    intro hr
    apply srcFrames_blank
    intro l hl
    exact noFrames_recvdNew s l (by rw [← hr]; exact hl)
  rcases hok with ⟨front, pre, rest, ws, e1, e2, e3, h⟩
  rcases h with ⟨hpre, hrem, hmin0, hrec, hrg, hb⟩ | ⟨pre', f0, done, todo, g, hpre, hfront, hdn, hblk, hnd, hrem, hbuf, hfr, hrg, hfl⟩
  · have hna := (eidle_not_all p hp.ok s hs hrec).2
    have hd : decide (got s = .all) = false := by simpa using hna
    refine ⟨?_, fun h => absurd h hna, fun _ => hblankNew hrec⟩
    rw [hd, Bool.or_false]
    exact ⟨front, pre, rest, ws, e1, e2, e3, Or.inl ⟨hpre, hrem, hmin0, rfl, rfl, hb⟩⟩
  · have hFin : s.minId ∈ p.ids := by rw [e2, hpre]; simp
    rcases hbuf with hbuf | ⟨hbuf, hgnone⟩
    · have hcases := got_map_cases s p.keys g hbuf hp.keysNe
      cases hgot : got s with
      | some => exact absurd hgot hg
      | all =>
        have hall := hcases.1.mp hgot
        rcases List.exists_mem_of_ne_nil _ hp.keysNe with ⟨t0, ht0⟩
        have hbf : b = false := by
          cases hb : b with
          | false => rfl
          | true =>
            rw [hb] at hfl
            simp only [↓reduceIte] at hfl
            have := hall t0 ht0
            rw [hfl.1 t0 ht0] at this; cases this
        refine ⟨?_, fun _ => ⟨hbf, hFin, partOK_of_buf p j s.minId s g hs.2.2 hbuf hfr hall⟩, fun h => absurd rfl h⟩
        simp only [decide_true, Bool.or_true]
        have hreg' : ({ s with recvd := recvdNew s, reg := true } : Src).reg = !gotAll { s with recvd := recvdNew s, reg := true } := by
          rw [hgn]; rfl
        have hfr' : ∀ (t : Topic) (m : Msg), (fun _ : Topic => (none : Option Msg)) t = some m → FrameOK p j s.minId t m := by
          intro t m hm; cases hm
        refine ⟨front, pre, rest, ws, e1, e2, e3, Or.inr
          ⟨pre', f0, done, todo, fun _ => none, hpre, hfront, hdn, hblk, hnd, hrem, Or.inr ⟨rfl, fun _ _ => rfl⟩,
            hfr', hreg', ?_⟩⟩
        simp only [↓reduceIte]
        refine ⟨fun _ _ => trivial, ?_⟩
        intro t ht
        rw [hbf] at hfl
        simp only [Bool.false_eq_true, ↓reduceIte] at hfl
        exact (hfl t ht).mp (hall t ht)
      | none =>
        have hnone := hcases.2.mp hgot
        have hfr0 : srcFrames s = [] := by
          apply srcFrames_blank
          intro l hl
          rw [hbuf] at hl
          simp only [Option.some.injEq] at hl
          subst hl
          intro x hx
          rcases List.mem_map.mp hx with ⟨t, ht, rfl⟩
          exact hnone t ht
        refine ⟨?_, fun h => absurd h (by decide), fun _ => hfr0⟩
        simp only [reduceCtorEq, decide_false, Bool.or_false]
        exact ⟨front, pre, rest, ws, e1, e2, e3, Or.inr
          ⟨pre', f0, done, todo, g, hpre, hfront, hdn, hblk, hnd, hrem, Or.inr ⟨rfl, hnone⟩, hfr, by rw [hgn]; rfl, hfl⟩⟩
    · have hna := (eidle_not_all p hp.ok s hs hbuf).2
      have hd : decide (got s = .all) = false := by simpa using hna
      refine ⟨?_, fun h => absurd h hna, fun _ => hblankNew hbuf⟩
      rw [hd, Bool.or_false]
      exact ⟨front, pre, rest, ws, e1, e2, e3, Or.inr
        ⟨pre', f0, done, todo, g, hpre, hfront, hdn, hblk, hnd, hrem, Or.inr ⟨rfl, hgnone⟩, hfr, by rw [hgn]; rfl, hfl⟩⟩

/-! ### one `take` of an ephemeral source, on the source itself -/

theorem etake_src (p : PubSpec) (hp : EphOK p) (j : Nat) (b : Bool) (s0 : Src) (hs : EPlain p s0)
    (w : Wire) (q fut : List Wire) (hok : ESrcOK p j b s0 (w :: (q ++ fut))) (hreg : s0.reg = true) :
    0 ≤ w.mid ∧ s0.minId ≤ w.mid ∧ (ephTaken s0 j w q).minId = w.mid ∧
    ESrcOK p j (if s0.minId < w.mid then false else b) (ephTaken s0 j w q) (q ++ fut) := by
  rcases etake_core p hp j b s0 hs w (q ++ fut) hok with ⟨h0, hge, htop, g0, hpm, hnext⟩
  have hmt : (takenMsg s0 j w).topic = p.eff w := by
    unfold takenMsg PubSpec.eff; simp only; rw [hs.1, hs.2.2]
  have hs1 : EPlain p { s0 with queue := q, conn := true } := hs
  have hL := hpm { s0 with queue := q, conn := true } (takenMsg s0 j w) rfl hs1 rfl rfl hmt
  have hnl : ¬ w.mid < s0.minId := by omega
  unfold ephTaken
  simp only [hnl, ↓reduceIte]
  rw [htop]
  have ⟨f1, f2, _, _, _, _, _⟩ := storeRecvd_after { s0 with queue := q, conn := true }
    (processMsg { s0 with queue := q, conn := true } (takenMsg s0 j w) p.ts s0.minId).2 p.ts _ hL hreg
  generalize storeRecvd { s0 with queue := q, conn := true }
    (processMsg { s0 with queue := q, conn := true } (takenMsg s0 j w) p.ts s0.minId).2 p.ts = sNew at f1 f2
  refine ⟨h0, hge, trivial, ?_⟩
  exact hnext { sNew with minId := w.mid } (takenMsg s0 j w) rfl hmt rfl rfl rfl f1
    (by rw [gotAll_congr sNew { sNew with minId := w.mid } rfl]; exact f2)

/-! ### the events on the ephemeral part of the invariant -/

/-- per ephemeral source the pair (own id, "block returned") only grows -/
def EMono (sp : List ESpec) (fl fl' : Nat → Bool) (n n' : NSt) : Prop :=
  ∀ (j : Nat) (p : ESpec) (s : Src), sp[j]? = some p → p.eph ≠ 0 → n.st.srcs[j]? = some s →
    ∃ s', n'.st.srcs[j]? = some s' ∧ (s.minId < s'.minId ∨ (s.minId = s'.minId ∧ (fl j = true → fl' j = true)))

theorem emono_refl (sp : List ESpec) (fl : Nat → Bool) (n : NSt) : EMono sp fl fl n n :=
  fun _ _ s _ _ hs => ⟨s, hs, Or.inr ⟨rfl, fun h => h⟩⟩

theorem emono_same_srcs (sp : List ESpec) (fl : Nat → Bool) (n n' : NSt) (h : n'.st.srcs = n.st.srcs) : EMono sp fl fl n n' :=
  fun _ _ s _ _ hs => ⟨s, by rw [h]; exact hs, Or.inr ⟨rfl, fun h => h⟩⟩

theorem kind_get (l l' : List Src) (h : OF.Net.ephs l' = OF.Net.ephs l) (a : Nat) (s' : Src) (ha : l'[a]? = some s') :
    ∃ s, l[a]? = some s ∧ s'.eph = s.eph := by
  have h1 : (OF.Net.ephs l')[a]? = some (OF.Net.kindOf s') := by
    unfold OF.Net.ephs; rw [List.getElem?_map, ha]; rfl
  rw [h] at h1
  unfold OF.Net.ephs at h1
  rw [List.getElem?_map] at h1
  cases hl : l[a]? with
  | none => rw [hl] at h1; cases h1
  | some s =>
    rw [hl] at h1
    simp only [Option.map_some, Option.some.injEq] at h1
    refine ⟨s, rfl, ?_⟩
    have := congrArg Prod.fst h1
    exact this.symm

theorem take_EphInv (fl : Nat → Bool) (sp : List ESpec) (hsp : EphSpecOK sp) (n : NSt) (i : Nat) (h : EphInv fl sp n) :
    ∃ fl', EphInv fl' sp (nRecv n (.take i)).1 ∧ EMono sp fl fl' n (nRecv n (.take i)).1 := by
  unfold nRecv step stepTake
  simp only
  by_cases hg : n.st.dead = true ∨ ¬ n.st.inCall = true
  · simp only [hg, ↓reduceIte]; exact ⟨fl, h, emono_refl sp fl n⟩
  · simp only [hg, ↓reduceIte]
    have ⟨hd, hin⟩ := live_of_not n.st hg
    cases hs : n.st.srcs[i]? with
    | none => exact ⟨fl, h, emono_refl sp fl n⟩
    | some s0 =>
      simp only
      cases hreg : s0.reg with
      | false => simp only [Bool.false_eq_true, ↓reduceIte]; exact ⟨fl, h, emono_refl sp fl n⟩
      | true =>
      simp only [↓reduceIte]
      have ⟨hbal, _, hall⟩ := h hd
      rcases hall i s0 hs with ⟨p, fut, ep, ef, hpe, hR⟩
      cases hq : s0.queue with
      | nil => rw [onTake_empty n.st i s0 hs hq]; exact ⟨fl, h, emono_refl sp fl n⟩
      | cons w q =>
      have hlen : i < n.st.srcs.length := (List.getElem?_eq_some_iff.mp hs).1
      by_cases hp0 : p.eph = 0
      · -- a take on a synchronised source: every ephemeral source stays as it is
        have hkind := OF.Net.ephs_onTake n.st i
        have hlen' : (onTake n.st i).1.srcs.length = n.st.srcs.length := by
          have := congrArg List.length hkind
          simpa [OF.Net.ephs] using this
        refine ⟨fl, ?_, ?_⟩
        · refine GInv_of (REph fl) (REph fl) sp n _ (onTake_mono n.st i).2.2.1 (onTake_balance n.st i) hlen' ?_ h
          intro _ _ a s' ha
          rcases kind_get _ _ hkind a s' ha with ⟨sa, hsa, hea⟩
          refine ⟨sa, hsa, hea, ?_⟩
          intro fut' hfut'
          refine ⟨fut', hfut', ?_⟩
          intro p' _ hpe' hoka hp0'
          have hane : a ≠ i := by
            intro e; subst e
            rw [hs] at hsa; cases hsa
            exact hp0' (by rw [← hpe', hpe]; exact hp0)
          have hsame := onTake_spares_eph n.st i hbal a sa hane hsa (by rw [hpe']; exact hp0')
          simp only at ha
          rw [hsame] at ha; cases ha
          exact hoka hp0'
        · intro a p' sa hpa hp0' hsa
          have hane : a ≠ i := by
            intro e; subst e
            rw [hs] at hsa; cases hsa
            rw [ep] at hpa; cases hpa
            exact hp0' hp0
          have hea : sa.eph ≠ 0 := by
            rcases hall a sa hsa with ⟨p'', _, ep'', _, hpe'', _⟩
            rw [hpa] at ep''; cases ep''
            rw [hpe'']; exact hp0'
          exact ⟨sa, onTake_spares_eph n.st i hbal a sa hane hsa hea, Or.inr ⟨rfl, fun h => h⟩⟩
      · -- a take on an ephemeral source
        have hse : s0.eph ≠ 0 := by rw [hpe]; exact hp0
        have ⟨hpl, hok⟩ := hR hp0
        have hpo : EphOK p.pub := hsp p (List.mem_of_getElem? ep) hp0
        rw [hq] at hok
        have hok' : ESrcOK p.pub i (fl i) s0 (w :: (q ++ fut)) := by simpa using hok
        rcases etake_src p.pub hpo i (fl i) s0 hpl w q fut hok' hreg with ⟨h0, hge, hmin, hnew⟩
        rcases onTake_eph_shape n.st i s0 w q hs hq hse with ⟨s', hst, he1, he2, he3, he4, he5, he6⟩
        have hs' := he6 h0
        subst hs'
        rw [hst]
        refine ⟨fun a => if a = i then (if s0.minId < w.mid then false else fl i) else fl a, ?_, ?_⟩
        · refine GInv_of (REph fl) (REph _) sp n _ rfl rfl (by simp) ?_ h
          intro _ _ a sa ha
          simp only [List.getElem?_set] at ha
          by_cases hia : i = a
          · subst hia
            simp only [hlen, ↓reduceIte, Option.some.injEq] at ha
            subst ha
            refine ⟨s0, hs, he1, ?_⟩
            intro fut' hfut'
            rw [ef] at hfut'; cases hfut'
            refine ⟨fut, ef, ?_⟩
            intro p' ep' _ _ _
            rw [ep] at ep'; cases ep'
            refine ⟨⟨he2.trans hpl.1, he3.trans hpl.2.1, he4.trans hpl.2.2⟩, ?_⟩
            simp only [↓reduceIte]
            rw [he5]
            exact hnew
          · simp only [hia, ↓reduceIte] at ha
            refine ⟨sa, ha, rfl, ?_⟩
            intro fut' hfut'
            refine ⟨fut', hfut', ?_⟩
            intro p' _ _ hoka hp0'
            have : ¬ a = i := fun e => hia e.symm
            simp only [this, ↓reduceIte]
            exact hoka hp0'
        · intro a p' sa hpa hp0' hsa
          by_cases hia : i = a
          · subst hia
            rw [hs] at hsa; cases hsa
            refine ⟨ephTaken s0 i w q, by simp [hlen], ?_⟩
            rw [hmin]
            by_cases hlt : s0.minId < w.mid
            · left; exact hlt
            · right
              refine ⟨by omega, ?_⟩
              simp only [↓reduceIte, hlt]
              exact fun h => h
          · refine ⟨sa, by simp only; rw [List.getElem?_set_ne hia]; exact hsa, Or.inr ⟨rfl, ?_⟩⟩
            have : ¬ a = i := fun e => hia e.symm
            simp only [this, ↓reduceIte]
            exact fun h => h

/-- the ephemeral parts of a set that is about to be returned (`returnCond`): each is the complete subscription of ONE
block - the block the source is in, not returned before - or empty -/
theorem ephinv_ret_parts (fl : Nat → Bool) (sp : List ESpec) (hsp : EphSpecOK sp) (n : NSt) (h : EphInv fl sp n)
    (hd : n.st.dead = false) (hrc : returnCond n.st = true) :
    ∀ (j : Nat) (p : ESpec) (s : Src), sp[j]? = some p → p.eph ≠ 0 → n.st.srcs[j]? = some s →
      (got s = .all → fl j = false ∧ s.minId ∈ p.pub.ids ∧ PartOK p.pub j s.minId (srcFrames s)) ∧
      (got s ≠ .all → srcFrames s = []) := by
  intro j p s hj hp0 hsj
  have ⟨_, _, hall⟩ := h hd
  rcases hall j s hsj with ⟨p', fut, ep, _, _, hR⟩
  rw [hj] at ep; cases ep
  have ⟨hpl, hok⟩ := hR hp0
  have hns := (returnCond_spec n.st hrc s (List.mem_of_getElem? hsj)).1
  have := ereset_src p.pub (hsp p (List.mem_of_getElem? hj) hp0) j (fl j) s _ hpl hok hns
  exact this.2

theorem check_EphInv (fl : Nat → Bool) (sp : List ESpec) (hsp : EphSpecOK sp) (n : NSt) (h : EphInv fl sp n) :
    ∃ fl', EphInv fl' sp (nRecv n .check).1 ∧ EMono sp fl fl' n (nRecv n .check).1 ∧
      ((∃ id bal data, Out.ret id bal data ∈ (nRecv n .check).2) →
        ∀ (j : Nat) (s : Src), n.st.srcs[j]? = some s → got s = .all → fl' j = true) := by
  unfold nRecv step stepCheck
  simp only
  by_cases hg : n.st.dead = true ∨ ¬ n.st.inCall = true
  · simp only [hg, ↓reduceIte]
    exact ⟨fl, h, emono_refl sp fl n, by rintro ⟨_, _, _, hm⟩; cases hm⟩
  · simp only [hg, ↓reduceIte]
    cases hrc : returnCond n.st with
    | false =>
      simp only [Bool.false_eq_true, ↓reduceIte]
      exact ⟨fl, h, emono_refl sp fl n, by rintro ⟨_, _, _, hm⟩; cases hm⟩
    | true =>
    simp only [↓reduceIte]
    have hspec := returnCond_spec n.st hrc
    unfold finish
    simp only
    refine ⟨fun a => fl a || (match n.st.srcs[a]? with | some s => decide (got s = .all) | none => false), ?_, ?_, ?_⟩
    · split
      · intro hd'; simp at hd'
      · refine GInv_of (REph fl) (REph _) sp n _ rfl rfl (by simp [newRecvAll]) ?_ h
        intro _ _ a s' ha
        simp only at ha
        rw [newRecvAll_get'] at ha
        cases h0a : n.st.srcs[a]? with
        | none => rw [h0a] at ha; cases ha
        | some sa =>
          rw [h0a] at ha
          simp only [Option.map_some, Option.some.injEq] at ha
          subst ha
          refine ⟨sa, rfl, rfl, ?_⟩
          intro fut' hfut'
          refine ⟨fut', hfut', ?_⟩
          intro p' ep' _ hoka hp0'
          have ⟨hpl, hok⟩ := hoka hp0'
          have hns := (hspec sa (List.mem_of_getElem? h0a)).1
          have := (ereset_src p'.pub (hsp p' (List.mem_of_getElem? ep') hp0') a (fl a) sa _ hpl hok hns).1
          refine ⟨hpl, ?_⟩
          simp only [h0a]
          exact this
    · intro a p' sa _ _ hsa
      split
      · exact ⟨sa, hsa, Or.inr ⟨rfl, fun h => by simp [h]⟩⟩
      · refine ⟨{ sa with recvd := recvdNew sa, reg := true }, ?_, Or.inr ⟨rfl, fun h => by simp [h]⟩⟩
        simp only
        rw [newRecvAll_get', hsa]; rfl
    · intro _ j s hsj hgot
      simp only [hsj, hgot, decide_true, Bool.or_true]

/-- **the ephemeral part of the invariant is preserved by every admissible event** (with the ghost flags updated) -/
theorem nstep_EphInv (fl : Nat → Bool) (sp : List ESpec) (hsp : EphSpecOK sp) (n : NSt) (e : NEv) (ha : NAdm e)
    (h : EphInv fl sp n) :
    ∃ fl', EphInv fl' sp (nstep n e).1 ∧ EMono sp fl fl' n (nstep n e).1 ∧
      ((∃ id bal data, Out.ret id bal data ∈ (nstep n e).2) →
        ∀ (j : Nat) (s : Src), n.st.srcs[j]? = some s → got s = .all → fl' j = true) := by
  have noret : ∀ (o : List Out), retIds o = [] → ¬ ∃ id bal data, Out.ret id bal data ∈ o := by
    rintro o ho ⟨id, bal, data, hm⟩
    have := mem_retIds _ _ _ _ hm
    rw [ho] at this; cases this
  cases e with
  | deliverNext j =>
    refine ⟨fl, deliverNext_GInv (REph fl) (reph_congr fl) sp n j h, ?_, ?_⟩
    · show EMono sp fl fl n (nDeliver n j).1
      intro a p' sa _ _ hsa
      unfold nDeliver
      split
      · rename_i w rest _
        simp only
        unfold stepDeliver
        split
        · exact ⟨sa, hsa, Or.inr ⟨rfl, fun h => h⟩⟩
        · rename_i sj hsj
          simp only [List.getElem?_set]
          by_cases hja : j = a
          · subst hja
            rw [hsj] at hsa; cases hsa
            have hlen : j < n.st.srcs.length := (List.getElem?_eq_some_iff.mp hsj).1
            exact ⟨{ sa with queue := sa.queue ++ [w] }, by simp only [hlen, ↓reduceIte], Or.inr ⟨rfl, fun h => h⟩⟩
          · exact ⟨sa, by simp only [hja, ↓reduceIte]; exact hsa, Or.inr ⟨rfl, fun h => h⟩⟩
      · exact ⟨sa, hsa, Or.inr ⟨rfl, fun h => h⟩⟩
    · intro hex
      exfalso
      refine noret _ ?_ hex
      show retIds (nDeliver n j).2 = []
      unfold nDeliver; split <;> rfl
  | recv e =>
    cases e with
    | deliver i w => exact absurd ha (by simp [NAdm])
    | «begin» state =>
      cases state with
      | some k => exact absurd ha (by simp [NAdm])
      | none =>
        refine ⟨fl, begin_GInv (REph fl) sp n h, emono_same_srcs sp fl n _ ?_, ?_⟩
        · show (stepBegin n.st none).1.srcs = n.st.srcs
          unfold stepBegin; split <;> rfl
        · intro hex
          exfalso
          refine noret _ ?_ hex
          show retIds (stepBegin n.st none).2 = []
          unfold stepBegin; split <;> rfl
    | take i =>
      rcases take_EphInv fl sp hsp n i h with ⟨fl', h1, h2⟩
      refine ⟨fl', h1, h2, ?_⟩
      intro hex
      exfalso
      refine noret _ ?_ hex
      show retIds (stepTake n.st i).2 = []
      unfold stepTake
      split
      · rfl
      · split
        · rfl
        · split
          · exact (onTake_mono n.st i).2.2.2.2
          · rfl
    | check => exact check_EphInv fl sp hsp n h
    | request =>
      refine ⟨fl, request_GInv (REph fl) sp n h, emono_same_srcs sp fl n _ ?_, ?_⟩
      · show (stepRequest n.st).1.srcs = n.st.srcs
        unfold stepRequest; split <;> rfl
      · intro hex
        exfalso
        refine noret _ ?_ hex
        show retIds (stepRequest n.st).2 = []
        unfold stepRequest; split
        · rfl
        · exact retIds_requests _ _
    | timeout =>
      refine ⟨fl, timeout_GInv (REph fl) sp n h, emono_same_srcs sp fl n _ ?_, ?_⟩
      · show (stepTimeout n.st).1.srcs = n.st.srcs
        unfold stepTimeout; split <;> rfl
      · intro hex
        exfalso
        refine noret _ ?_ hex
        show retIds (stepTimeout n.st).2 = []
        unfold stepTimeout; split
        · rfl
        · simp [retIds]

end OF.Recv
